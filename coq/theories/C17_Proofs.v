(* C17_Proofs.v — proofs for C17: slicemultiply is the mode-[dim] product; grideval is the tensor-product sum with the
   right-continuous Cox–de Boor functions; agreement with pointwise evaluation through C01. Over any ordered field. *)
From Coq Require Import ZArith List Bool Lia PeanoNat Field Ring.
From PS Require Import Arith EvalModel BSpline OFieldKit C04_Proofs C01_Basis C01_Core C01_Proofs GridModel C17_Index.
Import ListNotations.

Section Sums.
Context {A : Arith}.
Variable F : OField A.
Notation K := (T A).
Add Field Kfield17 : (OFth F).

(* ---------------------------------------------------------------------------------------------- *)
(** * finite sums *)
Lemma lsumK_zero {X} (f : X -> K) (l : list X) : (forall x, In x l -> f x = zero) -> lsumK f l = zero.
Proof.
  induction l as [|x l IH]; intro H; cbn [lsumK]; [reflexivity|].
  rewrite H by (left; reflexivity). rewrite IH by (intros; apply H; right; assumption). ring.
Qed.
Lemma lsumK_ext_in {X} (f g : X -> K) (l : list X) : (forall x, In x l -> f x = g x) -> lsumK f l = lsumK g l.
Proof.
  induction l as [|x l IH]; intro H; cbn [lsumK]; [reflexivity|].
  rewrite H by (left; reflexivity). rewrite IH by (intros; apply H; right; assumption). reflexivity.
Qed.
Lemma lsumK_app {X} (f : X -> K) (l1 l2 : list X) : lsumK f (l1 ++ l2) = add (lsumK f l1) (lsumK f l2).
Proof. induction l1 as [|x l IH]; cbn [lsumK app]; [ring|]. rewrite IH. ring. Qed.
Lemma lsumK_map {X Y} (f : Y -> K) (h : X -> Y) (l : list X) : lsumK f (map h l) = lsumK (fun x => f (h x)) l.
Proof. induction l as [|x l IH]; cbn [lsumK map]; [reflexivity|]. rewrite IH. reflexivity. Qed.
Lemma lsumK_flat_map {X Y} (f : Y -> K) (h : X -> list Y) (l : list X) : lsumK f (flat_map h l) = lsumK (fun x => lsumK f (h x)) l.
Proof. induction l as [|x l IH]; cbn [lsumK flat_map]; [reflexivity|]. rewrite lsumK_app, IH. reflexivity. Qed.
Lemma lsumK_filter {X} (f : X -> K) (p : X -> bool) (l : list X) : lsumK f (filter p l) = lsumK (fun x => if p x then f x else zero) l.
Proof. induction l as [|x l IH]; cbn [lsumK filter]; [reflexivity|]. destruct (p x); cbn [lsumK]; rewrite IH; ring. Qed.
Lemma lsumK_add {X} (f g : X -> K) (l : list X) : lsumK (fun x => add (f x) (g x)) l = add (lsumK f l) (lsumK g l).
Proof. induction l as [|x l IH]; cbn [lsumK]; [ring|]. rewrite IH. ring. Qed.
Lemma lsumK_scale {X} (c : K) (f : X -> K) (l : list X) : lsumK (fun x => mul c (f x)) l = mul c (lsumK f l).
Proof. induction l as [|x l IH]; cbn [lsumK]; [ring|]. rewrite IH. ring. Qed.
Lemma lsumK_swap {X Y} (f : X -> Y -> K) (l1 : list X) (l2 : list Y) :
  lsumK (fun x => lsumK (fun y => f x y) l2) l1 = lsumK (fun y => lsumK (fun x => f x y) l1) l2.
Proof.
  induction l1 as [|x l1 IH]; cbn [lsumK].
  - symmetry. apply lsumK_zero. reflexivity.
  - rewrite IH. rewrite <- lsumK_add. reflexivity.
Qed.
Lemma lsumK_single_seq (f : nat -> K) : forall n a q0, a <= q0 < a + n -> (forall q, a <= q < a + n -> q <> q0 -> f q = zero) ->
  lsumK f (seq a n) = f q0.
Proof.
  induction n as [|n IH]; intros a q0 Hq Hz; [lia|]. cbn [seq lsumK].
  destruct (Nat.eq_dec a q0) as [->|Hne].
  - rewrite lsumK_zero; [ring|]. intros x Hx. apply in_seq in Hx. apply Hz; lia.
  - rewrite (Hz a) by lia. rewrite (IH (S a) q0) by (try lia; intros; apply Hz; lia). ring.
Qed.
Lemma nsum_single (f : nat -> K) n q0 : q0 < n -> (forall q, q < n -> q <> q0 -> f q = zero) -> nsum n f = f q0.
Proof. intros H Hz. unfold nsum. apply lsumK_single_seq; [lia|]. intros; apply Hz; lia. Qed.
Lemma nsum_zero (f : nat -> K) n : (forall q, q < n -> f q = zero) -> nsum n f = zero.
Proof. intro H. apply lsumK_zero. intros x Hx. apply in_seq in Hx. apply H. lia. Qed.
Lemma nsum_ext (f g : nat -> K) n : (forall q, q < n -> f q = g q) -> nsum n f = nsum n g.
Proof. intro H. apply lsumK_ext_in. intros x Hx. apply in_seq in Hx. apply H. lia. Qed.
Lemma nsum_swap (f : nat -> nat -> K) n m : nsum n (fun i => nsum m (fun j => f i j)) = nsum m (fun j => nsum n (fun i => f i j)).
Proof. apply lsumK_swap. Qed.
Lemma nsum_scale c (f : nat -> K) n : nsum n (fun i => mul c (f i)) = mul c (nsum n f).
Proof. apply lsumK_scale. Qed.
Lemma sum_range_nsum (f : Z -> K) : forall n a, sum_range f a n = lsumK (fun k => f (a + Z.of_nat k)%Z) (seq 0 n).
Proof.
  induction n as [|n IH]; intro a; cbn [sum_range seq lsumK]; [reflexivity|].
  replace (a + Z.of_nat 0)%Z with a by lia. f_equal. rewrite IH. rewrite <- seq_shift, lsumK_map.
  apply lsumK_ext_in. intros k _. f_equal. lia.
Qed.

Lemma nonzeroK_false (x : K) : nonzeroK x = false -> x = zero.
Proof. unfold nonzeroK. intro H. apply negb_false_iff in H. apply (eqbK_true F) in H. exact H. Qed.

(* ---------------------------------------------------------------------------------------------- *)
(** * ndsparse: well-formedness and the denoted array *)
Definition wf_nd (a : @ndsparse A) : Prop :=
  forall e, In e (nd_entries a) -> length (fst e) = length (nd_ranges a) /\ forall l, l < length (nd_ranges a) -> nth l (fst e) 0 < nth l (nd_ranges a) 0.
Definition in_ranges (ranges g : list nat) : Prop :=
  length g = length ranges /\ forall l, l < length ranges -> nth l g 0 < nth l ranges 0.

Lemma nd_get_unlisted (a : @ndsparse A) g : nd_listed a g = false -> nd_get a g = zero.
Proof.
  unfold nd_listed, nd_get. intro H. apply lsumK_zero. intros e He.
  destruct (idx_eqb (fst e) g) eqn:E; [|reflexivity].
  assert (existsb (fun e => idx_eqb (fst e) g) (nd_entries a) = true) by (apply existsb_exists; exists e; auto). congruence.
Qed.
Lemma nd_get_out_of_range (a : @ndsparse A) g : wf_nd a -> ~ in_ranges (nd_ranges a) g -> nd_get a g = zero.
Proof.
  intros W H. apply nd_get_unlisted. unfold nd_listed. destruct (existsb _ _) eqn:E; [|reflexivity].
  apply existsb_exists in E. destruct E as [e [He Heq]]. apply idx_eqb_eq in Heq. subst g.
  exfalso. apply H. exact (W e He).
Qed.

(* ---------------------------------------------------------------------------------------------- *)
(** * slicemultiply *)
Section Slice.
Variable a : @ndsparse A.
Variable bt : list (list K).
Variable dim : nat.
Let ranges := nd_ranges a.
Let ndim := length ranges.
Let bnrow := nth dim ranges 0.
Let npts := length bt.
Hypothesis Hwf : wf_nd a.
Hypothesis Hdim : dim < ndim.
Hypothesis Hpos : forall l, l < ndim -> l <> dim -> 0 < nth l ranges 0.

Let ranges' := upd ranges dim npts.
Let cols := cols_of ranges dim.
Let U (r c : nat) := unflat ndim dim ranges' r c.
Let FC (g : list nat) := flatcol ndim dim ranges g.

Lemma cols_prod : cols = prodl (rradix ndim dim ranges).
Proof. apply cols_of_rot; [exact Hdim | reflexivity]. Qed.
Lemma U_old r c : U r c = unflat ndim dim ranges r c.
Proof.
  unfold U, ranges'. rewrite !unflat_closed.
  - rewrite rradix_upd by exact Hdim. reflexivity.
  - apply rradix_pos; assumption.
  - rewrite rradix_upd by exact Hdim. apply rradix_pos; assumption.
Qed.
Lemma U_FC r c : c < cols -> FC (U r c) = c.
Proof. intro H. rewrite U_old. apply flatcol_unflat; try assumption. rewrite <- cols_prod. exact H. Qed.
Lemma U_dim r c : c < cols -> nth dim (U r c) 0 = r.
Proof. intro H. rewrite U_old. apply unflat_dim; try assumption. rewrite <- cols_prod. exact H. Qed.
Lemma U_len r c : c < cols -> length (U r c) = ndim.
Proof. intro H. rewrite U_old. apply unflat_length; assumption. Qed.
Lemma U_rng r c : c < cols -> in_rot_range ndim dim ranges (U r c).
Proof. intro H. rewrite U_old. apply unflat_in_range; try assumption. rewrite <- cols_prod. exact H. Qed.
Lemma U_of g : length g = ndim -> in_rot_range ndim dim ranges g -> U (nth dim g 0) (FC g) = g /\ FC g < cols.
Proof.
  intros Hl Hr. split.
  - rewrite U_old. apply unflat_flatcol; assumption.
  - rewrite cols_prod. apply flatcol_lt; assumption.
Qed.

(* the entries of a at row k, column FC g of the flattened section are those with index g[dim := k] *)
Lemma section_entry g k e : length g = ndim -> in_rot_range ndim dim ranges g -> In e (nd_entries a) ->
  ((nth dim (fst e) 0 =? k) && (FC (fst e) =? FC g))%nat = idx_eqb (fst e) (upd g dim k).
Proof.
  intros Hl Hr He. destruct (Hwf e He) as [El Er]. fold ranges ndim in El, Er.
  assert (Ein : in_rot_range ndim dim ranges (fst e)) by (intros l Hl1 _; apply Er; exact Hl1).
  assert (Hu : in_rot_range ndim dim ranges (upd g dim k)).
  { intros l Hl1 Hne. rewrite nth_upd_neq by lia. apply Hr; assumption. }
  destruct (idx_eqb (fst e) (upd g dim k)) eqn:E.
  - apply idx_eqb_eq in E. rewrite E. rewrite nth_upd_eq by lia. unfold FC. rewrite flatcol_upd by exact Hdim.
    rewrite !Nat.eqb_refl. reflexivity.
  - apply andb_false_iff. destruct (Nat.eqb_spec (nth dim (fst e) 0) k) as [E1|E1]; [|left; reflexivity]. right.
    destruct (Nat.eqb_spec (FC (fst e)) (FC g)) as [E2|E2]; [|reflexivity]. exfalso.
    assert (fst e = upd g dim k).
    { destruct (U_of (fst e) El Ein) as [H1 _]. destruct (U_of (upd g dim k)) as [H2 _]; [rewrite upd_length; exact Hl | exact Hu |].
      rewrite <- H1, <- H2. rewrite nth_upd_eq by lia. unfold FC at 2. rewrite flatcol_upd by exact Hdim. fold (FC g).
      rewrite E1, E2. reflexivity. }
    apply idx_eqb_eq in H. congruence.
Qed.

Let ts := section_triplets ndim dim a.

Lemma sec_value g k : length g = ndim -> in_rot_range ndim dim ranges g -> snd (sec_at ts k (FC g)) = nd_get a (upd g dim k).
Proof.
  intros Hl Hr. unfold sec_at, ts, section_triplets, nd_get. cbn [snd]. rewrite lsumK_map.
  apply lsumK_ext_in. intros e He. unfold t_row, t_col, t_val. cbn [fst snd].
  fold ranges. change (flatcol ndim dim ranges (fst e)) with (FC (fst e)).
  rewrite (section_entry g k e Hl Hr He). reflexivity.
Qed.
Lemma sec_unstored k c : fst (sec_at ts k c) = false -> snd (sec_at ts k c) = zero.
Proof.
  unfold sec_at. cbn [fst snd]. intro H. apply lsumK_zero. intros t Ht.
  destruct ((t_row t =? k)%nat && (t_col t =? c)%nat) eqn:E; [|reflexivity].
  assert (existsb (fun t => (t_row t =? k)%nat && (t_col t =? c)%nat) ts = true) by (apply existsb_exists; exists t; auto). congruence.
Qed.
Lemma prod_term g r k : length g = ndim -> in_rot_range ndim dim ranges g ->
  (if nonzeroK (mget bt r k) && fst (sec_at ts k (FC g)) then mul (mget bt r k) (snd (sec_at ts k (FC g))) else zero) =
  mul (mget bt r k) (nd_get a (upd g dim k)).
Proof.
  intros Hl Hr. rewrite <- (sec_value g k Hl Hr).
  destruct (nonzeroK (mget bt r k)) eqn:E1; cbn [andb].
  - destruct (fst (sec_at ts k (FC g))) eqn:E2; [reflexivity|]. rewrite (sec_unstored _ _ E2). ring.
  - rewrite (nonzeroK_false _ E1). ring.
Qed.
Lemma prod_value g r : length g = ndim -> in_rot_range ndim dim ranges g ->
  (if fst (prod_at bt bnrow ts r (FC g)) then snd (prod_at bt bnrow ts r (FC g)) else zero) =
  nsum bnrow (fun k => mul (mget bt r k) (nd_get a (upd g dim k))).
Proof.
  intros Hl Hr. unfold prod_at. cbn [fst snd].
  rewrite <- (nsum_ext _ _ bnrow (fun k _ => prod_term g r k Hl Hr)).
  destruct (existsb _ (seq 0 bnrow)) eqn:E; [reflexivity|].
  symmetry. apply nsum_zero. intros k Hk.
  destruct (nonzeroK (mget bt r k) && fst (sec_at ts k (FC g))) eqn:E1; [|reflexivity].
  assert (existsb (fun k => nonzeroK (mget bt r k) && fst (sec_at ts k (FC g))) (seq 0 bnrow) = true).
  { apply existsb_exists. exists k. split; [apply in_seq; lia | exact E1]. }
  congruence.
Qed.

Definition sm := slicemultiply a bnrow bt dim.

Lemma sm_unfold : sm = mkND ranges' (map (fun t => (U (t_row t) (t_col t), t_val t)) (prod_triplets bt bnrow ts cols)).
Proof. unfold sm, slicemultiply. fold ranges. fold bnrow. rewrite Nat.eqb_refl. cbn [negb]. reflexivity. Qed.

Lemma sm_get_sum g : nd_get sm g =
  nsum cols (fun c => nsum npts (fun r => if fst (prod_at bt bnrow ts r c)
                                          then (if idx_eqb (U r c) g then snd (prod_at bt bnrow ts r c) else zero) else zero)).
Proof.
  rewrite sm_unfold. unfold nd_get. cbn [nd_entries]. rewrite lsumK_map. unfold prod_triplets.
  rewrite lsumK_flat_map. unfold nsum. apply lsumK_ext_in. intros c _.
  rewrite lsumK_flat_map. apply lsumK_ext_in. intros r _.
  destruct (fst (prod_at bt bnrow ts r c)); cbn [lsumK fst snd]; [|reflexivity].
  unfold t_row, t_col, t_val. cbn [fst snd]. ring.
Qed.

(* the mode-[dim] product, for EVERY index tuple g (both sides vanish outside the new ranges) *)
Theorem slicemultiply_get g :
  nd_get sm g = nsum bnrow (fun k => mul (mget bt (nth dim g 0) k) (nd_get a (upd g dim k))).
Proof.
  rewrite sm_get_sum.
  destruct (list_eq_dec Nat.eq_dec (U (nth dim g 0) (FC g)) g) as [EU|EU];
  [destruct (lt_dec (FC g) cols) as [Hc|Hc]; [destruct (lt_dec (nth dim g 0) npts) as [Hr|Hr]|]|].
  - (* g is addressed by exactly one (row, column) *)
    assert (Hl : length g = ndim) by (rewrite <- EU; apply U_len; exact Hc).
    assert (Hg : in_rot_range ndim dim ranges g) by (rewrite <- EU; apply U_rng; exact Hc).
    rewrite (nsum_single _ cols (FC g) Hc).
    + rewrite (nsum_single _ npts (nth dim g 0) Hr).
      * rewrite EU, idx_eqb_refl. apply prod_value; assumption.
      * intros r Hr1 Hne. destruct (fst (prod_at bt bnrow ts r (FC g))); [|reflexivity].
        rewrite idx_eqb_neq; [reflexivity|]. intro E. apply Hne. rewrite <- E. rewrite U_dim by exact Hc. reflexivity.
    + intros c Hc1 Hne. apply nsum_zero. intros r _. destruct (fst (prod_at bt bnrow ts r c)); [|reflexivity].
      rewrite idx_eqb_neq; [reflexivity|]. intro E. apply Hne. rewrite <- E. unfold FC. fold (FC (U r c)). rewrite U_FC by exact Hc1. reflexivity.
  - (* row beyond the basis matrix: both sides zero *)
    rewrite nsum_zero.
    + symmetry. apply nsum_zero. intros k _. unfold mget. rewrite (nth_overflow bt) by (fold npts; lia).
      destruct k; cbn [nth]; ring.
    + intros c Hc1. apply nsum_zero. intros r Hr1. destruct (fst (prod_at bt bnrow ts r c)); [|reflexivity].
      rewrite idx_eqb_neq; [reflexivity|]. intro E. apply Hr. rewrite <- E. rewrite U_dim by exact Hc1. exact Hr1.
  - rewrite nsum_zero.
    + symmetry. apply nsum_zero. intros k _.
      assert (nd_get a (upd g dim k) = zero) as ->; [|ring].
      apply nd_get_out_of_range; [exact Hwf|]. intros [Il Ir]. fold ranges ndim in Il, Ir. rewrite upd_length in Il.
      apply Hc. apply U_of; [exact Il|]. intros l Hl Hne. specialize (Ir l Hl). rewrite nth_upd_neq in Ir by lia. exact Ir.
    + intros c Hc1. apply nsum_zero. intros r Hr1. destruct (fst (prod_at bt bnrow ts r c)); [|reflexivity].
      rewrite idx_eqb_neq; [reflexivity|]. intro E. apply Hc. rewrite <- E. unfold FC. fold (FC (U r c)). rewrite U_FC by exact Hc1. exact Hc1.
  - rewrite nsum_zero.
    + symmetry. apply nsum_zero. intros k _.
      assert (nd_get a (upd g dim k) = zero) as ->; [|ring].
      apply nd_get_out_of_range; [exact Hwf|]. intros [Il Ir]. fold ranges ndim in Il, Ir. rewrite upd_length in Il.
      apply EU. apply U_of; [exact Il|]. intros l Hl Hne. specialize (Ir l Hl). rewrite nth_upd_neq in Ir by lia. exact Ir.
    + intros c Hc1. apply nsum_zero. intros r Hr1. destruct (fst (prod_at bt bnrow ts r c)); [|reflexivity].
      rewrite idx_eqb_neq; [reflexivity|]. intro E. apply EU. rewrite <- E at 1 2.
      rewrite U_dim by exact Hc1. unfold FC. fold (FC (U r c)). rewrite U_FC by exact Hc1. exact E.
Qed.

Lemma sm_ranges : nd_ranges sm = upd ranges dim npts.
Proof. rewrite sm_unfold. reflexivity. Qed.
Lemma sm_wf : wf_nd sm.
Proof.
  intros e He. rewrite sm_unfold in He |- *. cbn [nd_entries nd_ranges] in *. unfold ranges'. rewrite upd_length. fold ndim.
  apply in_map_iff in He. destruct He as [t [<- Ht]]. cbn [fst].
  unfold prod_triplets in Ht. apply in_flat_map in Ht. destruct Ht as [c [Hc Ht]]. apply in_seq in Hc.
  apply in_flat_map in Ht. destruct Ht as [r [Hr Ht]]. apply in_seq in Hr.
  destruct (fst (prod_at bt bnrow ts r c)); [|destruct Ht]. destruct Ht as [<-|[]]. unfold t_row, t_col. cbn [fst snd].
  assert (Hc1 : c < cols) by lia.
  split; [apply U_len; exact Hc1|]. intros l Hl. destruct (Nat.eq_dec l dim) as [->|Hne].
  - rewrite U_dim by exact Hc1. rewrite nth_upd_eq by exact Hdim. fold npts in Hr. lia.
  - rewrite nth_upd_neq by lia. apply U_rng; assumption.
Qed.
End Slice.

(* ---------------------------------------------------------------------------------------------- *)
(** * the loop over dimensions of grideval *)
Definition MPf (B : nat -> nat -> K) (n dim : nat) (X : list nat -> K) (g : list nat) : K :=
  nsum n (fun k => mul (B (nth dim g 0) k) (X (upd g dim k))).

(* the nested sum the loop computes, outermost sum = first dimension; position i of the index vector is
   replaced by the summation index, the basis-matrix row is the grid index found there *)
Fixpoint TS (X : list nat -> K) (ds : list (@dimn A)) (gs : list (list K)) (i : nat) (h : list nat) (pr : K) : K :=
  match ds, gs with
  | d :: ds', xs :: gs' =>
      nsum (nsplines d) (fun k => TS X ds' gs' (S i) (upd h i k) (mul pr (mget (basis_matrix d xs) (nth i h 0) k)))
  | _, _ => mul pr (X h)
  end.

Lemma TS_ext X X' : (forall h, X h = X' h) -> forall ds gs i h pr, TS X ds gs i h pr = TS X' ds gs i h pr.
Proof.
  intro H. induction ds as [|d ds IH]; intros gs i h pr; destruct gs as [|xs gs]; cbn [TS]; try (rewrite H; reflexivity).
  apply nsum_ext. intros k _. apply IH.
Qed.

Lemma TS_push X B n i : forall ds gs j h pr, i < j ->
  TS (MPf B n i X) ds gs j h pr = nsum n (fun k => TS X ds gs j (upd h i k) (mul pr (B (nth i h 0) k))).
Proof.
  assert (Base : forall h pr, mul pr (MPf B n i X h) = nsum n (fun k => mul (mul pr (B (nth i h 0) k)) (X (upd h i k)))).
  { intros h pr. unfold MPf. rewrite <- nsum_scale. apply nsum_ext. intros k _. ring. }
  induction ds as [|d ds IH]; intros gs j h pr Hij.
  - cbn [TS]. apply Base.
  - destruct gs as [|xs gs]; [cbn [TS]; apply Base|]. cbn [TS].
    transitivity (nsum (nsplines d) (fun k' => nsum n (fun k =>
       TS X ds gs (S j) (upd (upd h j k') i k) (mul (mul pr (mget (basis_matrix d xs) (nth j h 0) k')) (B (nth i (upd h j k') 0) k))))).
    { apply nsum_ext. intros k' _. apply IH. lia. }
    rewrite nsum_swap. apply nsum_ext. intros k _. apply nsum_ext. intros k' _.
    rewrite (upd_comm h j i) by lia. rewrite !nth_upd_neq by lia. f_equal. ring.
Qed.

Lemma Forall_upd {X} (P : X -> Prop) (l : list X) : forall i v, Forall P l -> P v -> Forall P (upd l i v).
Proof.
  induction l as [|x l IH]; intros [|i] v Hl Hv; cbn [upd]; try constructor; inversion Hl; subst; auto.
Qed.
Lemma firstn_S_upd {X} (l : list X) : forall i v, i < length l -> firstn (S i) (upd l i v) = firstn i l ++ [v].
Proof.
  induction l as [|x l IH]; intros [|i] v H; cbn [length] in H; try lia; cbn [upd firstn app]; [reflexivity|].
  f_equal. apply IH. lia.
Qed.
Lemma Forall_pos_nth (l : list nat) : Forall (fun r => 0 < r) l -> forall q, q < length l -> 0 < nth q l 0.
Proof. intros H q Hq. rewrite Forall_forall in H. apply H. apply nth_In. exact Hq. Qed.

Lemma grid_loop_spec : forall ds gs i (a : @ndsparse A),
  wf_nd a -> length (nd_ranges a) = i + length ds -> length gs = length ds ->
  Forall (fun r => 0 < r) (nd_ranges a) -> Forall (fun xs : list K => xs <> []) gs ->
  (forall q d, nth_error ds q = Some d -> nsplines d = nth (i + q) (nd_ranges a) 0) ->
  wf_nd (grid_loop i ds gs a) /\
  (forall g, nd_get (grid_loop i ds gs a) g = TS (nd_get a) ds gs i g one) /\
  nd_ranges (grid_loop i ds gs a) = firstn i (nd_ranges a) ++ map (@length K) gs.
Proof.
  induction ds as [|d ds IH]; intros gs i a Hwf Hlen Hgs Hpos Hne Hns.
  - destruct gs; [|discriminate]. cbn [grid_loop TS map]. split; [exact Hwf|]. split; [intro g; ring|].
    rewrite app_nil_r. rewrite firstn_all2 by (cbn [length] in Hlen; lia). reflexivity.
  - destruct gs as [|xs gs]; [discriminate|]. cbn [grid_loop]. cbn [length] in Hlen, Hgs.
    pose proof (Hns 0 d eq_refl) as Hn0. rewrite Nat.add_0_r in Hn0. rewrite Hn0.
    inversion Hne as [|? ? Hx Hne']; subst.
    assert (Hi : i < length (nd_ranges a)) by lia.
    assert (Hp : forall l, l < length (nd_ranges a) -> l <> i -> 0 < nth l (nd_ranges a) 0) by (intros; apply Forall_pos_nth; assumption).
    assert (W1 : wf_nd (sm a (basis_matrix d xs) i)) by (apply sm_wf; assumption).
    pose proof (sm_ranges a (basis_matrix d xs) i) as R1.
    assert (G1 : forall g, nd_get (sm a (basis_matrix d xs) i) g = nsum (nth i (nd_ranges a) 0) (fun k => mul (mget (basis_matrix d xs) (nth i g 0) k) (nd_get a (upd g i k))))
      by (intro g; apply slicemultiply_get; assumption).
    unfold sm in *. set (a1 := slicemultiply a (nth i (nd_ranges a) 0) (basis_matrix d xs) i) in *.
    assert (Hbl : length (basis_matrix d xs) = length xs) by (unfold basis_matrix; apply map_length).
    destruct (IH gs (S i) a1) as [W2 [G2 R2]].
    + exact W1.
    + rewrite R1, upd_length. lia.
    + lia.
    + rewrite R1. apply Forall_upd; [exact Hpos|]. rewrite Hbl. destruct xs; [contradiction|cbn [length]; lia].
    + exact Hne'.
    + intros q d' Hq. rewrite R1. rewrite nth_upd_neq by lia. rewrite (Hns (S q) d' Hq). f_equal. lia.
    + split; [exact W2|]. split.
      * intro g. rewrite G2. rewrite (TS_ext _ _ G1). fold (MPf (mget (basis_matrix d xs)) (nth i (nd_ranges a) 0) i (nd_get a)).
        rewrite TS_push by lia. cbn [TS]. rewrite Hn0. apply nsum_ext. intros k _. reflexivity.
      * rewrite R2, R1. rewrite firstn_S_upd by exact Hi. rewrite Hbl. rewrite <- app_assoc. reflexivity.
Qed.

(* ---------------------------------------------------------------------------------------------- *)
(** * splineutil.c's bspline (guarded since fix 07dbb30, with the side flag since fix F30_1) IS the Cox–de Boor function
      with the convention that a term with a vanishing denominator is dropped, right-continuous for [left = false] and
      left-continuous for [left = true] — for every knot sequence whatsoever: the C guard [knots[i+n] != knots[i]] is
      [wdiv]'s test [t_{i+n} - t_i = 0], and (a*B)/d = (a/d)*B. No monotonicity, no index bounds, nothing about the
      numerators is needed. *)
Lemma eqbK_sub (p q : K) : eqbK (sub p q) zero = eqbK p q.
Proof.
  destruct (eqbK p q) eqn:E.
  - apply (eqbK_true F) in E. subst q. apply (eqbK_true F). ring.
  - apply (eqbK_false F). intro Z0. apply (sub_zero_eq F) in Z0. subst q.
    rewrite (proj2 (eqbK_true F p p) eq_refl) in E. discriminate.
Qed.
Lemma guarded_term (a B p q : K) :
  (if eqbK p q then zero else div (mul a B) (sub p q)) = mul (wdiv a (sub p q)) B.
Proof.
  unfold wdiv. rewrite eqbK_sub. destruct (eqbK p q) eqn:E; [ring|].
  assert (sub p q <> zero) as NZ.
  { intro Z0. apply (sub_zero_eq F) in Z0. subst q. rewrite (proj2 (eqbK_true F p p) eq_refl) in E. discriminate. }
  field. exact NZ.
Qed.
Lemma bspline_guarded_Bfun (kn : Z -> K) (left : bool) (x : K) : forall n i,
  bspline_guarded kn left n x i = Bfun kn (negb left) n i x.
Proof.
  induction n as [|n IH]; intro i.
  - destruct left; reflexivity.
  - cbn [bspline_guarded Bfun]. rewrite !IH. rewrite !guarded_term. reflexivity.
Qed.

(** * remark, kept from before the fix: the UNGUARDED recursion (src/core/bspline.cpp's bspline = EvalModel.bspline, which
      splineutil.c's function used to be) equals the same function over an exact ordered field on non-decreasing knots —
      there 0/0 is [0 * inv 0 = 0] because a degenerate sub-spline vanishes. In binary64 it is NaN; that was finding D23. *)
Section Basis.
Variable kn : Z -> K.
Variable nknots : Z.
Hypothesis Hmono : forall i j, (0 <= i)%Z -> (i <= j)%Z -> (j < nknots)%Z -> le (kn i) (kn j).

Lemma Bfun_degenerate x : forall n i, (forall j, (i <= j <= i + Z.of_nat n + 1)%Z -> kn j = kn i) -> Bfun kn true n i x = zero.
Proof.
  induction n as [|n IH]; intros i H.
  - cbn [Bfun B0]. rewrite (H (i + 1)%Z) by lia.
    destruct (leb (kn i) x) eqn:E; cbn [andb]; [|reflexivity]. rewrite (le_not_lt F _ _ E). reflexivity.
  - cbn [Bfun]. rewrite IH by (intros j Hj; apply H; lia).
    rewrite IH by (intros j Hj; rewrite (H j) by lia; symmetry; apply H; lia). ring.
Qed.
Lemma knots_equal a b : (0 <= a)%Z -> (a <= b)%Z -> (b < nknots)%Z -> sub (kn b) (kn a) = zero ->
  forall j, (a <= j <= b)%Z -> kn j = kn a.
Proof.
  intros Ha Hab Hb E j Hj. apply (sub_zero_eq F) in E.
  apply (le_antisym F); [rewrite E; apply Hmono; lia | apply Hmono; lia].
Qed.
Lemma bspline_Bfun x : forall n i, (0 <= i)%Z -> (i + Z.of_nat n + 1 < nknots)%Z -> bspline kn n x i = Bfun kn true n i x.
Proof.
  induction n as [|n IH]; intros i Hi Hn.
  - reflexivity.
  - cbn [bspline Bfun]. rewrite !IH by lia.
    set (nz := Z.of_nat (S n)).
    assert (T1 : div (mul (sub x (kn i)) (Bfun kn true n i x)) (sub (kn (i + nz)) (kn i)) =
                 mul (wdiv (sub x (kn i)) (sub (kn (i + nz)) (kn i))) (Bfun kn true n i x)).
    { destruct (eqbK (sub (kn (i + nz)) (kn i)) zero) eqn:E.
      - apply (eqbK_true F) in E. rewrite (wdiv_z F) by exact E.
        rewrite (Bfun_degenerate x n i); [rewrite E; rewrite (Fdiv_def (OFth F)); ring|].
        intros j Hj. apply (knots_equal i (i + nz)); unfold nz; try lia. exact E.
      - assert (sub (kn (i + nz)) (kn i) <> zero) as NZ by (intro Z0; rewrite Z0 in E; rewrite (proj2 (eqbK_true F zero zero) eq_refl) in E; discriminate).
        rewrite (wdiv_nz F) by exact NZ. field. exact NZ. }
    assert (T2 : div (mul (sub (kn (i + nz + 1)) x) (Bfun kn true n (i + 1) x)) (sub (kn (i + nz + 1)) (kn (i + 1))) =
                 mul (wdiv (sub (kn (i + nz + 1)) x) (sub (kn (i + nz + 1)) (kn (i + 1)))) (Bfun kn true n (i + 1) x)).
    { destruct (eqbK (sub (kn (i + nz + 1)) (kn (i + 1))) zero) eqn:E.
      - apply (eqbK_true F) in E. rewrite (wdiv_z F) by exact E.
        rewrite (Bfun_degenerate x n (i + 1)); [rewrite E; rewrite (Fdiv_def (OFth F)); ring|].
        intros j Hj. apply (knots_equal (i + 1) (i + nz + 1)); unfold nz; try lia. exact E.
      - assert (sub (kn (i + nz + 1)) (kn (i + 1)) <> zero) as NZ by (intro Z0; rewrite Z0 in E; rewrite (proj2 (eqbK_true F zero zero) eq_refl) in E; discriminate).
        rewrite (wdiv_nz F) by exact NZ. field. exact NZ. }
    rewrite T1, T2. reflexivity.
Qed.
End Basis.

Definition wfd (d : @dimn A) : Prop := wf_dim (fun _ => True) d.
Lemma wfd_nsplines (d : @dimn A) : wfd d -> nsplines d = Z.to_nat (d_naxes d) /\ (0 < d_naxes d)%Z.
Proof. intros [W1 [W2 _]]. unfold nsplines. rewrite W2. split; [reflexivity | lia]. Qed.

Lemma mget_basis (d : @dimn A) (xs : list K) r k : r < length xs -> k < nsplines d ->
  mget (basis_matrix d xs) r k =
  bspline_guarded (d_kn d) (basis_left d (nth r xs zero)) (d_order d) (nth r xs zero) (Z.of_nat k).
Proof.
  intros Hr Hk. unfold mget, basis_matrix.
  set (f := fun x => map (fun col => bspline_guarded (d_kn d) (basis_left d x) (d_order d) x (Z.of_nat col)) (seq 0 (nsplines d))).
  rewrite (nth_indep (map f xs) [] (f zero)) by (rewrite map_length; exact Hr). rewrite map_nth. unfold f.
  set (g := fun col => bspline_guarded (d_kn d) (basis_left d (nth r xs zero)) (d_order d) (nth r xs zero) (Z.of_nat col)).
  rewrite (nth_indep (map g (seq 0 (nsplines d))) zero (g 0)) by (rewrite map_length, seq_length; exact Hk).
  rewrite map_nth, seq_nth by exact Hk. reflexivity.
Qed.
(* the flag bsplinebasis passes, x >= knots[nknots-order-1], is the specification's own side: left-continuous exactly
   where [BSpline.side_of] says so (nknots-order-1 = naxes in a well-formed dimension) *)
Lemma basis_left_side (d : @dimn A) (x : K) : wfd d -> negb (basis_left d x) = side_of d x.
Proof.
  intros Wd. destruct (wfd_nsplines d Wd) as [Hns Hna]. unfold basis_left, side_of, geb.
  rewrite Hns, Z2Nat.id by lia. symmetry. apply (OF_ltb_leb A F).
Qed.
Lemma basis_entry (d : @dimn A) (xs : list K) r k : wfd d -> r < length xs -> k < nsplines d ->
  mget (basis_matrix d xs) r k = Bfun (d_kn d) (side_of d (nth r xs zero)) (d_order d) (Z.of_nat k) (nth r xs zero).
Proof.
  intros Wd Hr Hk. rewrite mget_basis by assumption. rewrite bspline_guarded_Bfun. rewrite (basis_left_side d _ Wd). reflexivity.
Qed.

(* ---------------------------------------------------------------------------------------------- *)
(** * from the in-place index vector to prefix/suffix form, and to the specification *)
Fixpoint TSz (X : list nat -> K) (ds : list (@dimn A)) (gs : list (list K)) (pre suf : list nat) (pr : K) : K :=
  match ds, gs, suf with
  | d :: ds', xs :: gs', r :: suf' =>
      nsum (nsplines d) (fun k => TSz X ds' gs' (pre ++ [k]) suf' (mul pr (mget (basis_matrix d xs) r k)))
  | _, _, _ => mul pr (X (pre ++ suf))
  end.
Lemma upd_middle {X} (pre : list X) r suf v : upd (pre ++ r :: suf) (length pre) v = pre ++ v :: suf.
Proof. induction pre as [|x pre IH]; cbn [app length upd]; [reflexivity|]. f_equal. exact IH. Qed.
Lemma TS_TSz X : forall ds gs pre suf pr, length suf = length ds -> length gs = length ds ->
  TS X ds gs (length pre) (pre ++ suf) pr = TSz X ds gs pre suf pr.
Proof.
  induction ds as [|d ds IH]; intros gs pre suf pr H1 H2; destruct gs as [|xs gs]; destruct suf as [|r suf]; try discriminate; cbn [TS TSz]; try reflexivity.
  rewrite nth_middle. apply nsum_ext. intros k _. rewrite upd_middle.
  replace (pre ++ k :: suf) with ((pre ++ [k]) ++ suf) by (rewrite <- app_assoc; reflexivity).
  replace (S (length pre)) with (length (pre ++ [k])) by (rewrite app_length; cbn [length]; lia).
  apply IH; cbn [length] in *; lia.
Qed.

Fixpoint posZ (ds : list (@dimn A)) (m : list nat) : Z :=
  match ds, m with
  | d :: ds', k :: m' => (Z.of_nat k * d_stride d + posZ ds' m')%Z
  | _, _ => 0%Z
  end.

Lemma TSz_spec (cf : Z -> K) X : forall ds gs pre suf pr P,
  Forall wfd ds -> Forall2 (fun r (xs : list K) => r < length xs) suf gs -> length suf = length ds ->
  (forall ks, Forall2 (fun k d => k < nsplines d) ks ds -> X (pre ++ ks) = cf (P + posZ ds ks)%Z) ->
  TSz X ds gs pre suf pr = tensor_sum_grid cf ds (grid_point gs suf) P pr.
Proof.
  induction ds as [|d ds IH]; intros gs pre suf pr P Hwf Hin Hlen HX.
  - destruct suf; [|discriminate]. assert (E : TSz X [] gs pre [] pr = mul pr (X (pre ++ []))) by (destruct gs; reflexivity).
    rewrite E. rewrite (HX [] (Forall2_nil _)). cbn [posZ]. rewrite Z.add_0_r.
    destruct gs; reflexivity.
  - destruct suf as [|r suf]; [discriminate|]. inversion Hin as [|? xs ? gs' Hr Hin']; subst.
    inversion Hwf as [|? ? Wd Wds]; subst. destruct (wfd_nsplines d Wd) as [Hns Hna].
    cbn [TSz grid_point tensor_sum_grid]. rewrite sum_range_nsum. rewrite <- Hns. apply nsum_ext. intros k Hk.
    rewrite (IH gs' (pre ++ [k]) suf _ (P + Z.of_nat k * d_stride d)%Z); [| exact Wds | exact Hin' | cbn [length] in Hlen; lia |].
    + rewrite (basis_entry d xs r k Wd Hr Hk). reflexivity.
    + intros ks Hks. rewrite <- app_assoc. cbn [app]. rewrite (HX (k :: ks)) by (constructor; assumption).
      cbn [posZ]. f_equal. lia.
Qed.

(* ---------------------------------------------------------------------------------------------- *)
(** * the coefficient walk of grideval.h: row-major strides *)
Inductive RM : list (@dimn A) -> Z -> Prop :=
| RM_nil : RM [] 1%Z
| RM_cons d ds s : RM ds s -> d_stride d = s -> (0 < d_naxes d)%Z -> RM (d :: ds) (d_naxes d * s)%Z.
Lemma RM_pos ds s : RM ds s -> (0 < s)%Z.
Proof. induction 1; [lia|]. nia. Qed.
Definition in_axes (m : list nat) (ds : list (@dimn A)) : Prop := Forall2 (fun k d => (Z.of_nat k < d_naxes d)%Z) m ds.

Lemma decomp_posZ ds s : RM ds s -> forall m, in_axes m ds ->
  (0 <= posZ ds m < s)%Z /\ decomp (map d_stride ds) (posZ ds m) = m.
Proof.
  induction 1 as [|d ds s HR IH Hs Hn]; intros m Hm; inversion Hm as [|k ? m' ? Hk Hm']; subst.
  - cbn [posZ decomp map]. split; [lia|reflexivity].
  - destruct (IH m' Hm') as [Hb Hd]. pose proof (RM_pos _ _ HR) as Hp. cbn [posZ decomp map]. split; [nia|].
    f_equal.
    + rewrite Z.div_add_l by lia. rewrite Z.div_small by lia. lia.
    + rewrite Z.add_comm, Z_mod_plus_full, Z.mod_small by lia. exact Hd.
Qed.
Lemma posZ_decomp ds s : RM ds s -> forall i, (0 <= i < s)%Z ->
  posZ ds (decomp (map d_stride ds) i) = i /\ in_axes (decomp (map d_stride ds) i) ds.
Proof.
  induction 1 as [|d ds s HR IH Hs Hn]; intros i Hi.
  - cbn [posZ decomp map]. split; [lia|constructor].
  - pose proof (RM_pos _ _ HR) as Hp. cbn [posZ decomp map]. rewrite Hs.
    destruct (IH (i mod s)%Z (Z.mod_pos_bound i s Hp)) as [E1 E2].
    assert (H0 : (0 <= i / s)%Z) by (apply Z.div_pos; lia).
    split.
    + rewrite E1, Z2Nat.id by exact H0. pose proof (Z.div_mod i s ltac:(lia)). lia.
    + constructor; [|exact E2]. rewrite Z2Nat.id by exact H0. apply Z.div_lt_upper_bound; lia.
Qed.
Lemma in_axes_nth m ds : in_axes m ds -> length m = length ds /\
  forall l, l < length ds -> nth l m 0 < nth l (map (fun d => Z.to_nat (d_naxes d)) ds) 0.
Proof.
  induction 1 as [|k d m ds Hk H IH]; cbn [length map]; [split; [reflexivity|lia]|].
  destruct IH as [E1 E2]. split; [lia|]. intros [|l] Hl; cbn [nth]; [lia|]. apply E2. lia.
Qed.

Section Initial.
Variable t : @table A.
Variable s : Z.
Hypothesis Hne : dims t <> [].
Hypothesis HRM : RM (dims t) s.

Lemma table_size_s : table_size t = Z.to_nat s.
Proof.
  unfold table_size. destruct (dims t) as [|d ds] eqn:E; [contradiction|]. inversion HRM; subst. reflexivity.
Qed.
Lemma initial_wf : wf_nd (initial_nd t).
Proof.
  unfold wf_nd, initial_nd, coeff_entries. cbn [nd_entries nd_ranges]. intros e He.
  apply filter_In in He. destruct He as [He _]. apply in_map_iff in He. destruct He as [i [<- Hi]]. apply in_seq in Hi.
  rewrite table_size_s in Hi. cbn [fst]. rewrite map_length.
  destruct (posZ_decomp _ _ HRM (Z.of_nat i) ltac:(lia)) as [_ E2].
  unfold strides_of. exact (in_axes_nth _ _ E2).
Qed.
Lemma initial_get m : in_axes m (dims t) -> nd_get (initial_nd t) m = coef t (posZ (dims t) m).
Proof.
  intro Hm. destruct (decomp_posZ _ _ HRM m Hm) as [Hb Hd].
  unfold nd_get, initial_nd, coeff_entries. cbn [nd_entries]. rewrite lsumK_filter, lsumK_map. cbn [fst snd].
  fold (nsum (table_size t) (fun i => if nonzeroK (coef t (Z.of_nat i)) then (if idx_eqb (decomp (strides_of t) (Z.of_nat i)) m then coef t (Z.of_nat i) else zero) else zero)).
  rewrite (nsum_single _ (table_size t) (Z.to_nat (posZ (dims t) m))).
  - rewrite Z2Nat.id by lia. unfold strides_of. rewrite Hd, idx_eqb_refl.
    destruct (nonzeroK (coef t (posZ (dims t) m))) eqn:E; [reflexivity|]. symmetry. apply nonzeroK_false. exact E.
  - rewrite table_size_s. lia.
  - intros i Hi Hne'. rewrite table_size_s in Hi.
    rewrite idx_eqb_neq; [destruct (nonzeroK _); reflexivity|]. intro E. apply Hne'.
    destruct (posZ_decomp _ _ HRM (Z.of_nat i) ltac:(lia)) as [E1 _]. unfold strides_of in E. rewrite E in E1. lia.
Qed.
End Initial.

(* ---------------------------------------------------------------------------------------------- *)
(** * grideval *)
Definition grid_in (g : list nat) (grids : list (list K)) : Prop := Forall2 (fun r (xs : list K) => r < length xs) g grids.

Section GridEval.
Variable t : @table A.
Variable grids : list (list K).
Variable s : Z.
Variable a : @ndsparse A.
Hypothesis Hwf : Forall wfd (dims t).
Hypothesis HRM : RM (dims t) s.
Hypothesis Hgne : Forall (fun xs : list K => xs <> []) grids.
Hypothesis Hev : grideval t grids = GOk a.

Lemma grideval_inv : dims t <> [] /\ length grids = length (dims t) /\ a = grid_loop 0 (dims t) grids (initial_nd t).
Proof.
  unfold grideval, ndim_of in Hev.
  destruct (Nat.eqb_spec (length grids) (length (dims t))) as [E|E]; cbn [negb] in Hev; [|discriminate].
  destruct (Nat.eqb_spec (length (coeff_entries t)) 0) as [E1|E1]; cbn [orb] in Hev; [discriminate|].
  destruct (Nat.eqb_spec (length (dims t)) 0) as [E2|E2]; [discriminate|].
  injection Hev as <-. split; [|split; [exact E|reflexivity]]. intro H. rewrite H in E2. cbn in E2. lia.
Qed.

Lemma grideval_loop :
  wf_nd a /\ (forall g, nd_get a g = TS (nd_get (initial_nd t)) (dims t) grids 0 g one) /\ nd_ranges a = map (@length K) grids.
Proof.
  destruct grideval_inv as [Hne [Hlen ->]].
  destruct (grid_loop_spec (dims t) grids 0 (initial_nd t)) as [W [G R]].
  - exact (initial_wf t s Hne HRM).
  - cbn [nd_ranges initial_nd]. rewrite map_length. lia.
  - exact Hlen.
  - cbn [nd_ranges initial_nd]. apply Forall_forall. intros r Hr. apply in_map_iff in Hr. destruct Hr as [d [<- Hd]].
    rewrite Forall_forall in Hwf. destruct (wfd_nsplines d (Hwf d Hd)). lia.
  - exact Hgne.
  - intros q d Hq. cbn [nd_ranges initial_nd Nat.add].
    rewrite (nth_error_nth _ _ 0 (map_nth_error (fun d => Z.to_nat (d_naxes d)) q (dims t) Hq)).
    rewrite Forall_forall in Hwf. apply wfd_nsplines. apply Hwf. eapply nth_error_In. exact Hq.
  - split; [exact W|]. split; [exact G|]. rewrite R. reflexivity.
Qed.

Theorem grideval_ranges : nd_ranges a = map (@length K) grids.
Proof. apply grideval_loop. Qed.

Theorem grideval_spec g : grid_in g grids -> nd_get a g = grid_spec t (grid_point grids g).
Proof.
  intro Hg. destruct grideval_loop as [_ [G _]]. destruct grideval_inv as [Hne [Hlen _]].
  assert (Hgl : length g = length (dims t)).
  { rewrite <- Hlen. clear - Hg. induction Hg; cbn [length]; lia. }
  rewrite G. change 0 with (length (@nil nat)). change g with ([] ++ g) at 1. rewrite TS_TSz by lia.
  unfold grid_spec. apply TSz_spec; [exact Hwf | exact Hg | exact Hgl |].
  intros ks Hks. cbn [app]. rewrite Z.add_0_l. apply (initial_get t s Hne HRM).
  clear - Hks Hwf. induction Hks as [|k d ks ds Hk H IH]; [constructor|].
  inversion Hwf as [|? ? Wd Wds]; subst. constructor; [|apply IH; exact Wds].
  destruct (wfd_nsplines d Wd). lia.
Qed.

Theorem grideval_outside g : ~ in_ranges (map (@length K) grids) g -> nd_get a g = zero.
Proof.
  intro H. destruct grideval_loop as [W [_ R]]. apply nd_get_out_of_range; [exact W|]. rewrite R. exact H.
Qed.
Theorem grideval_unlisted g : grid_in g grids -> nd_listed a g = false ->
  nd_get a g = zero /\ grid_spec t (grid_point grids g) = zero.
Proof.
  intros Hg Hl. pose proof (nd_get_unlisted a g Hl) as E. split; [exact E|]. rewrite <- (grideval_spec g Hg). exact E.
Qed.
End GridEval.

(* ---------------------------------------------------------------------------------------------- *)
(** * agreement with pointwise evaluation (C01) *)
Lemma tensor_grid_zero (cf : Z -> K) : forall ds xs pos, tensor_sum_grid cf ds xs pos zero = zero.
Proof.
  induction ds as [|d ds IH]; intros xs pos; [cbn [tensor_sum_grid]; ring|].
  destruct xs as [|x xs]; [cbn [tensor_sum_grid]; ring|]. cbn [tensor_sum_grid].
  apply (sum_range_zero F). intros i _. rewrite (mul_zero_l F). apply IH.
Qed.
(* the specification sum of grid evaluation IS the specification sum of pointwise evaluation (C01's [spline_spec], which
   merely skips vanishing factors): same Cox–de Boor functions, same one-sided convention, in every dimension *)
Lemma grid_is_tensor_sum (cf : Z -> K) : forall ds xs pos pr, length xs = length ds ->
  tensor_sum cf ds xs (repeat O (length ds)) pos pr = tensor_sum_grid cf ds xs pos pr.
Proof.
  induction ds as [|d ds IH]; intros xs pos pr Hlen; destruct xs as [|x xs]; try discriminate; [reflexivity|].
  cbn [length repeat tensor_sum tensor_sum_grid]. first [apply (sum_range_ext F) | apply sum_range_ext]. intros i _. cbv zeta.
  cbn [dBfun].
  destruct (eqbK (Bfun (d_kn d) (side_of d x) (d_order d) i x) zero) eqn:E.
  - apply (eqbK_true F) in E. rewrite E, (mul_zero_r F), tensor_grid_zero. reflexivity.
  - apply IH. cbn [length] in Hlen. lia.
Qed.
Lemma grid_is_spline_spec (t : @table A) (xs : list K) : length xs = length (dims t) ->
  grid_spec t xs = spline_spec t xs (repeat O (ndim_of t)).
Proof. intro Hlen. unfold spline_spec, grid_spec, ndim_of. symmetry. apply grid_is_tensor_sum. exact Hlen. Qed.

Theorem grid_spec_pointwise (t : @table A) (xs : list K) (cs : list Z) :
  dims t <> [] -> Forall wfd (dims t) -> nth (ndim_of t - 1) (strides_of t) 0%Z = 1%Z -> length xs = length (dims t) ->
  searchcenters t xs = CFound cs ->
  Forall2 eval_regular (dims t) xs ->            (* C01's hypothesis: the fully supported range is not the single point x_d *)
  grid_spec t xs = ndsplineeval t xs cs 0.
Proof.
  intros Hne Hwf Hrow Hlen Hsc Hreg.
  rewrite (eval_is_tensor_sum F t xs cs Hne Hwf Hrow Hlen Hsc Hreg). apply grid_is_spline_spec. exact Hlen.
Qed.

Lemma RM_last_stride ds s : RM ds s -> ds <> [] -> nth (length ds - 1) (map d_stride ds) 0%Z = 1%Z.
Proof.
  induction 1 as [|d ds s HR IH Hs Hn]; intro Hne; [contradiction|].
  destruct ds as [|d' ds'].
  - inversion HR; subst. cbn [length map nth Nat.sub]. congruence.
  - cbn [length map] in *. replace (S (S (length ds')) - 1) with (S (S (length ds') - 1)) by lia. cbn [nth]. apply IH. discriminate.
Qed.
Lemma grid_point_length g (grids : list (list K)) : grid_in g grids -> length (grid_point grids g) = length grids.
Proof. induction 1; cbn [grid_point length]; lia. Qed.

Theorem grideval_agrees_pointwise (t : @table A) (grids : list (list K)) (s : Z) (a : @ndsparse A) :
  Forall wfd (dims t) -> RM (dims t) s -> Forall (fun xs : list K => xs <> []) grids -> grideval t grids = GOk a ->
  forall g cs, grid_in g grids ->
  searchcenters t (grid_point grids g) = CFound cs ->
  Forall2 eval_regular (dims t) (grid_point grids g) ->
  nd_get a g = ndsplineeval t (grid_point grids g) cs 0.
Proof.
  intros Hwf HRM Hgne Hev g cs Hg Hsc Hreg.
  destruct (grideval_inv t grids a Hev) as [Hne [Hlen _]].
  rewrite (grideval_spec t grids s a Hwf HRM Hgne Hev g Hg).
  apply grid_spec_pointwise; try assumption.
  - unfold ndim_of, strides_of. apply (RM_last_stride _ _ HRM Hne).
  - rewrite grid_point_length by exact Hg. exact Hlen.
Qed.
(* ... in particular on every table whose fully supported range has positive width in every dimension (a condition on the
   table alone, C01's [full_support_nonempty]: knots[order] < knots[naxes]) *)
Theorem grideval_agrees_pointwise_nondegenerate (t : @table A) (grids : list (list K)) (s : Z) (a : @ndsparse A) :
  Forall wfd (dims t) -> RM (dims t) s -> Forall (fun xs : list K => xs <> []) grids -> grideval t grids = GOk a ->
  Forall full_support_nonempty (dims t) ->
  forall g cs, grid_in g grids ->
  searchcenters t (grid_point grids g) = CFound cs ->
  nd_get a g = ndsplineeval t (grid_point grids g) cs 0.
Proof.
  intros Hwf HRM Hgne Hev Hnd g cs Hg Hsc.
  apply (grideval_agrees_pointwise t grids s a Hwf HRM Hgne Hev g cs Hg Hsc).
  destruct (grideval_inv t grids a Hev) as [_ [Hlen _]].
  pose proof (grid_point_length g grids Hg) as Hgl. rewrite Hlen in Hgl.
  clear - Hnd Hgl F. revert Hgl. generalize (grid_point grids g) as xs.
  induction Hnd as [|d ds Hd Hds IH]; intros [|x xs] Hl; try discriminate; constructor.
  - apply (nonempty_regular F). exact Hd.
  - apply IH. cbn [length] in Hl. lia.
Qed.

End Sums.
