(* C13_Proofs.v — proofs about the check interpreter (generic in the check sequence), instantiated with the
   translated sequence of the current working tree, and refutations for the sequence of the unchanged library. *)
From Coq Require Import List NArith Bool Arith Lia ZifyBool.
Import ListNotations.
From PS Require Import FitArgs Generated_fitargs FitArgsModel.
Local Open Scope N_scope.

(* ---------------------------------------------------------------------------------------------------- *)
Section Run.
Variable a : fitargs.

Definition g_passed (g : gcond) : Prop := g_fires g a = false.
Definition d_passed (c : dcond) : Prop := forall d, (d < ndim a)%nat -> d_fires c a d = false.

Lemma run_dconds_none cs d :
  run_dconds cs a d = None -> forall c, In c cs -> d_pre c a d = true /\ d_fires c a d = false.
Proof.
  induction cs as [|c0 cs IH]; simpl; intros Hrun c Hin; [contradiction|].
  destruct (d_pre c0 a d) eqn:Hpre; simpl in Hrun; [|discriminate].
  destruct (d_fires c0 a d) eqn:Hf; [discriminate|].
  destruct Hin as [->|Hin]; auto.
Qed.

Lemma run_dconds_not_accept cs d v : run_dconds cs a d = Some v -> v <> Accept.
Proof.
  induction cs as [|c0 cs IH]; simpl; intros Hrun; [discriminate|].
  destruct (d_pre c0 a d); simpl in Hrun; [|inversion Hrun; discriminate].
  destruct (d_fires c0 a d); [inversion Hrun; discriminate|auto].
Qed.

Lemma run_dims_none cs ds :
  run_dims cs a ds = None -> forall d c, In d ds -> In c cs -> d_pre c a d = true /\ d_fires c a d = false.
Proof.
  induction ds as [|d0 ds IH]; simpl; intros Hrun d c Hd Hc; [contradiction|].
  destruct (run_dconds cs a d0) eqn:H0; [discriminate|].
  destruct Hd as [->|Hd]; [eapply run_dconds_none; eauto|eauto].
Qed.

Lemma run_dims_not_accept cs ds v : run_dims cs a ds = Some v -> v <> Accept.
Proof.
  induction ds as [|d0 ds IH]; simpl; intros Hrun; [discriminate|].
  destruct (run_dconds cs a d0) eqn:H0; [inversion Hrun; subst; eapply run_dconds_not_accept; eauto|auto].
Qed.

Lemma run_item_not_accept it v : run_item it a = Some v -> v <> Accept.
Proof.
  destruct it as [g|cs]; simpl; intros H.
  - destruct (g_fires g a); inversion H; discriminate.
  - eapply run_dims_not_accept; eauto.
Qed.

(* Accept means: every check of the sequence was evaluated and did not fire. *)
Lemma run_checks_accept l :
  run_checks l a = Accept ->
  (forall g, In (Once g) l -> g_passed g) /\ (forall cs c, In (PerDim cs) l -> In c cs -> d_passed c).
Proof.
  induction l as [|it l IH]; simpl; intros Hrun.
  - split; intros; contradiction.
  - destruct (run_item it a) eqn:Hit.
    + exfalso. eapply run_item_not_accept; eauto.
    + destruct (IH Hrun) as [IHg IHd]. split.
      * intros g [->|Hin]; auto. simpl in Hit. unfold g_passed. destruct (g_fires g a); [discriminate|reflexivity].
      * intros cs c [->|Hin] Hc; eauto. simpl in Hit. intros d Hd.
        eapply run_dims_none; eauto. apply in_seq. lia.
Qed.

Lemma has_g_In l g : has_g l g = true -> In (Once g) l.
Proof.
  unfold has_g. intros H. apply existsb_exists in H. destruct H as [it [Hin Hit]].
  destruct it as [g'|cs]; [|discriminate]. apply internal_gcond_dec_bl in Hit. subst. exact Hin.
Qed.

Lemma has_d_In l c : has_d l c = true -> exists cs, In (PerDim cs) l /\ In c cs.
Proof.
  unfold has_d. intros H. apply existsb_exists in H. destruct H as [it [Hin Hit]].
  destruct it as [g'|cs]; [discriminate|]. apply existsb_exists in Hit. destruct Hit as [c' [Hc' He]].
  apply internal_dcond_dec_bl in He. subst. eauto.
Qed.

Lemma covers_accept_all_passed l :
  covers l = true -> run_checks l a = Accept -> (forall g, g_passed g) /\ (forall c, d_passed c).
Proof.
  unfold covers. intros Hc Hrun. apply andb_true_iff in Hc. destruct Hc as [Hg Hd].
  destruct (run_checks_accept l Hrun) as [Pg Pd].
  rewrite forallb_forall in Hg, Hd. split.
  - intros g. apply Pg, has_g_In, Hg. destruct g; simpl; tauto.
  - intros c. destruct (has_d_In l c) as [cs [H1 H2]]; [apply Hd; destruct c; simpl; tauto|]. eauto.
Qed.

(* ---- all checks passed  <->  the contract ---- *)
Lemma sel_cases {A} (l : list A) d dflt :
  sel l d dflt = (if (1 <? length l)%nat then nth d l dflt else nth 0%nat l dflt).
Proof. reflexivity. Qed.

Lemma all_passed_contract :
  (forall g, g_passed g) -> (forall c, d_passed c) -> fit_contract_with true a = true.
Proof.
  intros Pg Pd.
  pose proof (Pg GNdimZero) as H1. pose proof (Pg GRowsZero) as H2. pose proof (Pg GWeights) as H3.
  pose proof (Pg GNCoords) as H4. pose proof (Pg GNOrders) as H5. pose proof (Pg GNKnotVecs) as H6.
  pose proof (Pg GNSmooth) as H7. pose proof (Pg GNPenalty) as H8. pose proof (Pg GMonodim) as H9.
  unfold g_passed, g_fires in *.
  unfold fit_contract_with. repeat rewrite andb_true_iff. repeat split; try lia.
  - destruct (monodim a); [lia|reflexivity].
  - apply forallb_forall. intros d Hd. apply in_seq in Hd. assert (Hlt : (d < ndim a)%nat) by lia.
    pose proof (Pd DMaxIdx d Hlt) as D1. pose proof (Pd DCoordLen d Hlt) as D2. pose proof (Pd DKnotCount d Hlt) as D3.
    pose proof (Pd DUnsorted d Hlt) as D4. pose proof (Pd DPenaltyOrder d Hlt) as D5.
    unfold d_fires in *. unfold dim_contract.
    set (sm := sel (smooth_nz a) d false) in *. set (p := sel (porders a) d 0) in *.
    set (o := nthN (orders a) d) in *. set (k := knotlen a d) in *.
    assert (Hk : o + 2 <= k) by lia.
    assert (Hu : usub64 (usub64 k o) 1 = k - o - 1).
    { unfold usub64. destruct (o <=? k) eqn:E1; [|lia]. destruct (1 <=? k - o) eqn:E2; [reflexivity|lia]. }
    rewrite Hu in D5.
    repeat rewrite andb_true_iff. repeat split; lia.
Qed.

Lemma contract_g_passed v : fit_contract_with v a = true -> forall g, g_passed g.
Proof.
  unfold fit_contract_with. repeat rewrite andb_true_iff. intros H g.
  destruct H as [[[[[[[[[H1 H2] H3] H4] H5] H6] H7] H8] H9] _].
  unfold g_passed, g_fires. destruct g; try lia.
  destruct (monodim a); [lia|reflexivity].
Qed.

Lemma contract_d_passed v :
  fit_contract_with v a = true -> forall c d, (d < ndim a)%nat -> d_fires c a d = false /\ d_pre c a d = true.
Proof.
  unfold fit_contract_with. repeat rewrite andb_true_iff. intros H c d Hd.
  destruct H as [[[[[[[[[H1 H2] H3] H4] H5] H6] H7] H8] H9] HF].
  rewrite forallb_forall in HF. specialize (HF d). rewrite in_seq in HF. specialize (HF ltac:(lia)).
  unfold dim_contract in HF. repeat rewrite andb_true_iff in HF.
  destruct HF as [[[[[F1 F2] F3] F4] F5] _].
  unfold d_fires, d_pre, sel_ok.
  set (sm := sel (smooth_nz a) d false) in *. set (p := sel (porders a) d 0) in *.
  set (o := nthN (orders a) d) in *. set (k := knotlen a d) in *.
  destruct c.
  - split; lia.
  - split; lia.
  - split; lia.
  - split; [destruct (ksorted a d); [reflexivity|discriminate] | lia].
  - split.
    + assert (Hu : usub64 (usub64 k o) 1 = k - o - 1).
      { unfold usub64. destruct (o <=? k) eqn:E1; [|lia]. destruct (1 <=? k - o) eqn:E2; [reflexivity|lia]. }
      rewrite Hu. destruct sm; simpl in *; [lia|reflexivity].
    + destruct (1 <? length (smooth_nz a))%nat eqn:E1; destruct (1 <? length (porders a))%nat eqn:E2; lia.
Qed.

Lemma run_dconds_all_pass cs d :
  (forall c, In c cs -> d_fires c a d = false /\ d_pre c a d = true) -> run_dconds cs a d = None.
Proof.
  induction cs as [|c0 cs IH]; simpl; intros H; [reflexivity|].
  destruct (H c0 (or_introl eq_refl)) as [Hf Hp]. rewrite Hp, Hf. simpl. apply IH. intros; apply H; auto.
Qed.

Lemma run_dims_all_pass cs ds :
  (forall d c, In d ds -> In c cs -> d_fires c a d = false /\ d_pre c a d = true) -> run_dims cs a ds = None.
Proof.
  induction ds as [|d0 ds IH]; simpl; intros H; [reflexivity|].
  rewrite run_dconds_all_pass; [apply IH; intros; apply H; auto|intros; apply H; auto].
Qed.

Lemma all_pass_accept l :
  (forall g, g_passed g) ->
  (forall c d, (d < ndim a)%nat -> d_fires c a d = false /\ d_pre c a d = true) ->
  run_checks l a = Accept.
Proof.
  intros Pg Pd. induction l as [|it l IH]; simpl; [reflexivity|].
  destruct it as [g|cs]; simpl.
  - rewrite (Pg g). exact IH.
  - rewrite run_dims_all_pass; [exact IH|]. intros d c Hd _. apply Pd. apply in_seq in Hd. lia.
Qed.

(* ---- the checks never leave their own contract when the sequence is well ordered ---- *)
Lemma requires_sound c d :
  (d < ndim a)%nat -> (forall g, In g (d_requires c) -> g_passed g) -> d_pre c a d = true.
Proof.
  intros Hd H. unfold g_passed in H. destruct c; simpl in H; unfold d_pre, sel_ok.
  - pose proof (H GRowsZero ltac:(tauto)) as H1. simpl in H1. lia.
  - pose proof (H GNCoords ltac:(tauto)) as H1. simpl in H1. lia.
  - pose proof (H GNOrders ltac:(tauto)) as H1. pose proof (H GNKnotVecs ltac:(tauto)) as H2. simpl in H1, H2. lia.
  - pose proof (H GNKnotVecs ltac:(tauto)) as H2. simpl in H2. lia.
  - pose proof (H GNOrders ltac:(tauto)) as H1. pose proof (H GNKnotVecs ltac:(tauto)) as H2.
    pose proof (H GNSmooth ltac:(tauto)) as H3. pose proof (H GNPenalty ltac:(tauto)) as H4. simpl in H1, H2, H3, H4.
    destruct (1 <? length (smooth_nz a))%nat eqn:E1; destruct (1 <? length (porders a))%nat eqn:E2; lia.
Qed.

Lemma run_dconds_no_fault cs d :
  (forall c, In c cs -> d_pre c a d = true) -> forall r, run_dconds cs a d <> Some (CheckFault r).
Proof.
  induction cs as [|c0 cs IH]; simpl; intros H r; [discriminate|].
  rewrite (H c0 (or_introl eq_refl)). simpl. destruct (d_fires c0 a d); [discriminate|]. apply IH. intros; apply H; auto.
Qed.

Lemma run_dims_no_fault cs ds :
  (forall d c, In d ds -> In c cs -> d_pre c a d = true) -> forall r, run_dims cs a ds <> Some (CheckFault r).
Proof.
  induction ds as [|d0 ds IH]; simpl; intros H r; [discriminate|].
  destruct (run_dconds cs a d0) eqn:E.
  - intros Heq. inversion Heq; subst. eapply run_dconds_no_fault; [|exact E]. intros; apply H; auto.
  - apply IH. intros; apply H; auto.
Qed.

Lemma no_fault_from l : forall seen,
  well_ordered_from seen l = true -> (forall g, In g seen -> g_passed g) -> forall r, run_checks l a <> CheckFault r.
Proof.
  induction l as [|it l IH]; simpl; intros seen Hwo Hseen r; [discriminate|].
  destruct it as [g|cs]; simpl.
  - destruct (g_fires g a) eqn:Hf; [discriminate|].
    eapply IH; [exact Hwo|]. intros g' [<-|Hin]; [exact Hf|auto].
  - apply andb_true_iff in Hwo. destruct Hwo as [Hreq Hwo].
    destruct (run_dims cs a (seq 0 (ndim a))) eqn:E.
    + intros Heq; subst. eapply run_dims_no_fault; [|exact E].
      intros d c Hd Hc. apply in_seq in Hd. apply requires_sound; [lia|].
      intros g Hg. rewrite forallb_forall in Hreq. specialize (Hreq c Hc). rewrite forallb_forall in Hreq.
      specialize (Hreq g Hg). apply existsb_exists in Hreq. destruct Hreq as [g' [Hin He]].
      apply internal_gcond_dec_bl in He. subst. auto.
    + eapply IH; eauto.
Qed.

End Run.

(* ---------------------------------------------------------------------------------------------------- *)
(* Generic theorems about any check sequence l. *)
Theorem accept_implies_contract_gen l a :
  covers l = true -> run_checks l a = Accept -> fit_contract_with true a = true.
Proof.
  intros Hc Hr. destruct (covers_accept_all_passed a l Hc Hr) as [Pg Pd]. apply all_passed_contract; assumption.
Qed.

Theorem contract_implies_accept_gen l a v : fit_contract_with v a = true -> run_checks l a = Accept.
Proof.
  intros H. apply all_pass_accept; [eapply contract_g_passed; eauto|eapply contract_d_passed; eauto].
Qed.

Theorem never_fault_gen l a r : well_ordered l = true -> run_checks l a <> CheckFault r.
Proof. intros H. eapply no_fault_from; [exact H|]. intros g []. Qed.

(* ---------------------------------------------------------------------------------------------------- *)
(* Instantiation with the translated sequence of the working tree.  These three equations are the proof
   obligations that change when a check is added, removed, altered or moved in fit.h / glam.c. *)
Lemma src_covers : covers fit_checks_src = true.
Proof. vm_compute. reflexivity. Qed.
Lemma src_well_ordered : well_ordered fit_checks_src = true.
Proof. vm_compute. reflexivity. Qed.
Lemma src_vla : divided_diffs_vla_after_return = true.
Proof. reflexivity. Qed.

Lemma fit_contract_eq a : fit_contract a = fit_contract_with true a.
Proof. unfold fit_contract. rewrite src_vla. reflexivity. Qed.

Lemma accept_implies_contract a : fit_check a = Accept -> fit_contract a = true.
Proof. intros H. rewrite fit_contract_eq. eapply accept_implies_contract_gen; [exact src_covers|exact H]. Qed.

Lemma contract_implies_accept a : fit_contract a = true -> fit_check a = Accept.
Proof. intros H. eapply contract_implies_accept_gen. exact H. Qed.

Lemma accept_iff_contract a : fit_check a = Accept <-> fit_contract a = true.
Proof. split; [apply accept_implies_contract|apply contract_implies_accept]. Qed.

Lemma checks_never_fault a r : fit_check a <> CheckFault r.
Proof. apply never_fault_gen. exact src_well_ordered. Qed.

(* every rejection names a check that is in the source and whose condition holds for these arguments *)
Lemma run_dconds_reject cs a d r : run_dconds cs a d = Some (Reject r) -> exists c, In c cs /\ r = D c d /\ d_fires c a d = true.
Proof.
  induction cs as [|c0 cs IH]; simpl; intros H; [discriminate|].
  destruct (d_pre c0 a d); simpl in H; [|discriminate].
  destruct (d_fires c0 a d) eqn:Hf.
  - inversion H; subst. exists c0. auto.
  - destruct (IH H) as [c [H1 H2]]. exists c. tauto.
Qed.

Lemma run_dims_reject cs a ds r :
  run_dims cs a ds = Some (Reject r) -> exists c d, In c cs /\ In d ds /\ r = D c d /\ d_fires c a d = true.
Proof.
  induction ds as [|d0 ds IH]; simpl; intros H; [discriminate|].
  destruct (run_dconds cs a d0) eqn:E.
  - inversion H; subst. destruct (run_dconds_reject _ _ _ _ E) as [c [H1 [H2 H3]]]. exists c, d0. auto.
  - destruct (IH H) as [c [d [H1 [H2 H3]]]]. exists c, d. tauto.
Qed.

Lemma reject_sound_gen l a r :
  run_checks l a = Reject r ->
  match r with
  | G g => In (Once g) l /\ g_fires g a = true
  | D c d => (exists cs, In (PerDim cs) l /\ In c cs) /\ (d < ndim a)%nat /\ d_fires c a d = true
  end.
Proof.
  induction l as [|it l IH]; simpl; intros H; [discriminate|].
  destruct (run_item it a) eqn:E.
  - subst v. destruct it as [g|cs]; simpl in E.
    + destruct (g_fires g a) eqn:Hf; inversion E; subst. auto.
    + destruct (run_dims_reject _ _ _ _ E) as [c [d [H1 [H2 [H3 H4]]]]]. subst r.
      apply in_seq in H2. split; [exists cs; auto|split; [lia|exact H4]].
  - specialize (IH H). destruct r; [tauto|]. destruct IH as [[cs [H1 H2]] H3]. split; [exists cs; auto|exact H3].
Qed.

Lemma reject_not_contract a r : fit_check a = Reject r -> fit_contract a = false.
Proof.
  intros H. destruct (fit_contract a) eqn:E; [|reflexivity].
  apply contract_implies_accept in E. congruence.
Qed.

(* ---- object step function ---- *)
Lemma fit_step_reject s a ok s' r :
  fit_step s a ok = (s', ThrowLogic r) -> s' = s /\ fit_check a = Reject r.
Proof.
  unfold fit_step. destruct (fit_check a) eqn:E.
  - destruct (fit_contract a); [destruct s; [destruct ok|]|]; intros H; inversion H.
  - intros H; inversion H; subst; auto.
  - intros H; inversion H.
Qed.

Lemma fit_step_reject_conv s a ok r : fit_check a = Reject r -> fit_step s a ok = (s, ThrowLogic r).
Proof. unfold fit_step. intros ->. reflexivity. Qed.

Lemma fit_step_defined s a ok : snd (fit_step s a ok) <> Undefined.
Proof.
  unfold fit_step. destruct (fit_check a) eqn:E; simpl.
  - rewrite (accept_implies_contract a E). simpl. destruct s; [destruct ok|]; discriminate.
  - discriminate.
  - exfalso. eapply checks_never_fault; eauto.
Qed.

(* whatever fails after the checks (populated target, solver) leaves the table as it was or empty — never half-built *)
Lemma fit_step_runtime s a ok s' : fit_step s a ok = (s', ThrowRuntime) -> s' = s \/ s' = TEmpty.
Proof.
  unfold fit_step. destruct (fit_check a); [|intros H; inversion H|intros H; inversion H].
  destruct (fit_contract a); [|intros H; inversion H].
  destruct s; [destruct ok|]; intros H; inversion H; auto.
Qed.

Lemma fit_step_done s a ok s' :
  fit_step s a ok = (s', Done) <->
  fit_contract a = true /\ ok = true /\ s = TEmpty /\ s' = TFitted (orders a) (map fst (knotvecs a)).
Proof.
  unfold fit_step. split.
  - destruct (fit_check a) eqn:E; [|intros H; inversion H|intros H; inversion H].
    rewrite (accept_implies_contract a E). destruct s; [destruct ok|]; intros H; inversion H; auto.
  - intros [Hc [-> [-> ->]]]. rewrite (contract_implies_accept a Hc), Hc. reflexivity.
Qed.

(* ---- C wrapper ---- *)
Lemma c_wrapper_zero n s a ok :
  snd (glamfit_c n s a ok) = 0 <->
  table_null n = false /\ table_nodata n = false /\ data_null n = false /\ exists s', fit_step s (c_view a) ok = (s', Done).
Proof.
  unfold glamfit_c. destruct (table_null n); simpl; [split; [discriminate|intros [H _]; discriminate]|].
  destruct (table_nodata n); simpl; [split; [discriminate|intros [_ [H _]]; discriminate]|].
  destruct (data_null n); simpl; [split; [discriminate|intros [_ [_ [H _]]]; discriminate]|].
  destruct (fit_step s (c_view a) ok) as [s' o] eqn:E. destruct o; simpl; split; intros H.
  - repeat split; eauto.
  - reflexivity.
  - discriminate.
  - destruct H as [_ [_ [_ [s'' H]]]]. inversion H.
  - discriminate.
  - destruct H as [_ [_ [_ [s'' H]]]]. inversion H.
  - discriminate.
  - destruct H as [_ [_ [_ [s'' H]]]]. inversion H.
Qed.

Lemma c_wrapper_reject n s a ok r :
  fit_check (c_view a) = Reject r -> glamfit_c n s a ok = (s, 1).
Proof.
  intros H. unfold glamfit_c. destruct (table_null n || table_nodata n || data_null n); [reflexivity|].
  rewrite (fit_step_reject_conv s (c_view a) ok r H). reflexivity.
Qed.

Lemma c_wrapper_nulls n s a ok :
  table_null n || table_nodata n || data_null n = true -> glamfit_c n s a ok = (s, 1).
Proof. unfold glamfit_c. intros ->. reflexivity. Qed.

(* ---------------------------------------------------------------------------------------------------- *)
(* History: the sanity block of the unchanged library does NOT establish the contract. One witness per missing
   clause; each is replayed against the real code (corpus/C13). *)
Definition w_valid     := mk 8 [8] [7] 8 [8] [2] [(8, true)] [true] [2] None.
Definition w_coordlen  := mk 8 [8] [7] 8 [7] [2] [(8, true)] [true] [2] None.      (* coordinate vector one short *)
Definition w_knotcount := mk 8 [8] [7] 8 [8] [2] [(3, true)] [false] [2] None.     (* order+1 knots: zero splines *)
Definition w_knotwrap  := mk 8 [8] [7] 8 [8] [2] [(2, true)] [false] [2] None.     (* order knots: nknots-order-1 wraps *)
Definition w_porder    := mk 8 [8] [7] 8 [8] [2] [(8, true)] [true] [3] None.      (* penalty order = order+1 *)
Definition w_pnsplines := mk 8 [8] [7] 8 [8] [3] [(6, true)] [true] [3] None.      (* penalty order <= order but > nsplines = 2 *)
Definition w_order0    := mk 8 [8] [7] 8 [8] [0] [(6, true)] [true] [0] None.      (* order 0, ridge penalty: zero-length VLA *)
Definition w_rows0     := mk 0 [8] [0] 0 [8] [2] [(8, true)] [true] [2] None.      (* no entries *)
Definition w_ndim0     := mk 8 [] [] 8 [] [] [] [true] [2] None.                   (* dimension 0 *)

Lemma v0_valid_ok : fit_check_v0 w_valid = Accept /\ fit_contract_v0 w_valid = true /\ fit_check w_valid = Accept.
Proof. vm_compute. auto. Qed.

Lemma refuted_coordlen :
  fit_check_v0 w_coordlen = Accept /\ fit_contract_v0 w_coordlen = false /\ nthN (coordlens w_coordlen) 0 < nthN (ranges w_coordlen) 0.
Proof. vm_compute. auto. Qed.
Lemma refuted_knotcount :
  fit_check_v0 w_knotcount = Accept /\ fit_contract_v0 w_knotcount = false /\ knotlen w_knotcount 0 < nthN (orders w_knotcount) 0 + 2.
Proof. vm_compute. auto. Qed.
Lemma refuted_knotwrap :
  fit_check_v0 w_knotwrap = Accept /\ fit_contract_v0 w_knotwrap = false /\ knotlen w_knotwrap 0 < nthN (orders w_knotwrap) 0 + 1.
Proof. vm_compute. auto. Qed.
Lemma refuted_porder :
  fit_check_v0 w_porder = Accept /\ fit_contract_v0 w_porder = false /\ nthN (orders w_porder) 0 < sel (porders w_porder) 0 0.
Proof. vm_compute. auto. Qed.
Lemma refuted_pnsplines :
  fit_check_v0 w_pnsplines = Accept /\ fit_contract_v0 w_pnsplines = false /\
  sel (porders w_pnsplines) 0 0 <= nthN (orders w_pnsplines) 0 /\
  knotlen w_pnsplines 0 - nthN (orders w_pnsplines) 0 - 1 < sel (porders w_pnsplines) 0 0.
Proof. vm_compute. intuition discriminate. Qed.
Lemma refuted_order0 :
  fit_check_v0 w_order0 = Accept /\ fit_contract_v0 w_order0 = false /\ fit_contract_with true w_order0 = true.
Proof. vm_compute. auto. Qed.
Lemma refuted_rows0 : fit_check_v0 w_rows0 = CheckFault (D DMaxIdx 0%nat).
Proof. vm_compute. reflexivity. Qed.
Lemma refuted_ndim0 : fit_check_v0 w_ndim0 = Accept /\ fit_contract_v0 w_ndim0 = false /\ ndim w_ndim0 = 0%nat.
Proof. vm_compute. auto. Qed.

(* the fixed sequence rejects every one of them, naming the responsible check (order 0 is accepted: it now works) *)
Lemma witnesses_now :
  fit_check w_coordlen = Reject (D DCoordLen 0%nat) /\ fit_check w_knotcount = Reject (D DKnotCount 0%nat) /\
  fit_check w_knotwrap = Reject (D DKnotCount 0%nat) /\ fit_check w_porder = Reject (D DPenaltyOrder 0%nat) /\
  fit_check w_pnsplines = Reject (D DPenaltyOrder 0%nat) /\ fit_check w_order0 = Accept /\
  fit_check w_rows0 = Reject (G GRowsZero) /\ fit_check w_ndim0 = Reject (G GNdimZero).
Proof. vm_compute. repeat split. Qed.
