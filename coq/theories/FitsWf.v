(* FitsWf.v — decidable well-formedness predicates for the FITS model (hypotheses of the C06 theorems).
   Definitions only, so that they extract (the check evaluates them on every generated table) even if a proof breaks. *)
From Coq Require Import List NArith ZArith Bool.
From PS Require Import Generated_fits FitsModel.
Import ListNotations.
Open Scope N_scope.

Definition no_char (x : N) (l : str) : bool := forallb (fun c => negb (c =? x)) l.


Definition tok_chars (t : str) : bool := forallb (fun c => negb (c =? sp) && negb (c =? slash)) t.


Fixpoint paired (l : str) : bool :=
  match l with
  | [] => true
  | c :: r => if c =? quote then match r with c2 :: r2 => (c2 =? quote) && paired r2 | [] => false end
              else paired r
  end.


Definition tok_ok (t : str) : bool :=
  tok_chars t && match t with c :: _ => negb (c =? quote) | [] => true end.

Definition wf_value (v : cardvalue) : bool :=
  match v with VStr raw => paired raw | VStrOpen _ => false | VTok t => tok_ok t end.

Definition wf_card (c : card) : bool :=
  (length (card_text c) <=? 80)%nat &&
  match c with
  | Card key v =>
      wf_value v &&
      if (length key <=? 8)%nat then no_char sp key && negb (is_commentary8 (pad_right 8 key))
      else no_char eqc key && negb (hd sp key =? sp) && negb (last key sp =? sp)
  | Commentary key text =>
      no_char sp key && (length key <=? 8)%nat && str_eqb (strip_trailing text) text &&
      negb (is_end (encode_card c)) && negb (starts_with s_HIER9 (encode_card c)) &&
      (is_commentary8 (pad_right 8 key) || negb (starts_with [eqc; sp] (skipn 8 (encode_card c))))
  end.


Definition wf_hdu (h : hdu) : bool :=
  forallb wf_card (h_cards h) &&
  match hdu_layout (h_cards h) with
  | Ok ly => match word_size (l_bitpix ly) with
             | Some ws => (length (h_data h) =? N.to_nat (layout_words ly))%nat &&
                          forallb (fun w => w <? 256 ^ N.of_nat ws) (h_data h)
             | None => false
             end
  | Error _ => false
  end.

Definition wf_doc (d : fitsdoc) : bool := match d with [] => false | _ => forallb wf_hdu d end.


Fixpoint strides_of (naxes : list N) : list N :=
  match naxes with [] => [] | _ :: r => prodN r :: strides_of r end.

Definition aux_key_ok (k : str) : bool :=
  key_legal k && negb (reserved k) && negb (str_eqb k s_EXTNAME) && negb (str_eqb k s_HDUNAME).

Definition wf_table (t : table) : bool :=
  let nd := length (t_order t) in
  (1 <=? nd)%nat && (length (t_knots t) =? nd)%nat && (length (t_naxes t) =? nd)%nat &&
  str_eqb (t_strides t) (strides_of (t_naxes t)) &&
  (length (t_coeffs t) =? N.to_nat (prodN (t_naxes t)))%nat &&
  forallb (fun o => o <? 2 ^ 31) (t_order t) &&
  forallb (fun k => negb (length k =? 0)%nat) (t_knots t) &&
  match t_extents t with Some e => (length e =? 2 * nd)%nat | None => true end &&
  forallb (fun kv => aux_key_ok (fst kv)) (t_aux t).

