(* FitsWf.v — decidable well-formedness predicates for the FITS model (hypotheses of the C06 theorems).
   Definitions only, so that they extract (the check evaluates them on every generated table) even if a proof breaks. *)
From Coq Require Import List NArith ZArith Bool.
From PS Require Import Generated_fits FitsModel.
Import ListNotations.
Open Scope N_scope.

Definition no_char (x : N) (l : str) : bool := forallb (fun c => negb (c =? x)) l.


Definition tok_chars (t : str) : bool := forallb (fun c => negb (c =? sp) && negb (c =? slash)) t.


Fixpoint paired (l : str) : bool :=
  match l with
  | [] => true
  | c :: r => if c =? quote then match r with c2 :: r2 => (c2 =? quote) && paired r2 | [] => false end
              else paired r
  end.


Definition tok_ok (t : str) : bool :=
  tok_chars t && match t with c :: _ => negb (c =? quote) | [] => true end.

Definition wf_value (v : cardvalue) : bool :=
  match v with VStr raw => paired raw | VStrOpen _ => false | VTok t => tok_ok t end.

Definition wf_card (c : card) : bool :=
  (length (card_text c) <=? 80)%nat &&
  match c with
  | Card key v =>
      wf_value v &&
      if (length key <=? 8)%nat then no_char sp key && negb (is_commentary8 (pad_right 8 key))
      else no_char eqc key && negb (hd sp key =? sp) && negb (last key sp =? sp)
  | Commentary key text =>
      no_char sp key && (length key <=? 8)%nat && str_eqb (strip_trailing text) text &&
      negb (is_end (encode_card c)) && negb (starts_with s_HIER9 (encode_card c)) &&
      (is_commentary8 (pad_right 8 key) || negb (starts_with [eqc; sp] (skipn 8 (encode_card c))))
  end.


Definition wf_hdu (h : hdu) : bool :=
  forallb wf_card (h_cards h) &&
  match hdu_layout (h_cards h) with
  | Ok ly => match word_size (l_bitpix ly) with
             | Some ws => (length (h_data h) =? N.to_nat (layout_words ly))%nat &&
                          forallb (fun w => w <? 256 ^ N.of_nat ws) (h_data h)
             | None => false
             end
  | Error _ => false
  end.

Definition wf_doc (d : fitsdoc) : bool := match d with [] => false | _ => forallb wf_hdu d end.


Fixpoint strides_of (naxes : list N) : list N :=
  match naxes with [] => [] | _ :: r => prodN r :: strides_of r end.

(* the keys write_key can store: printable and not reserved.  EXTNAME and HDUNAME — the names fits_movnam_hdu compares, also in
   the primary header — are in the translated reserved list since the fix of C06:aux-key:EXTNAME-shadows-KNOTSn
   (C06_L1.reserved_EXTNAME / reserved_HDUNAME are proved over Generated_fits and break if they leave it) *)
Definition aux_key_ok (k : str) : bool :=
  key_legal k && negb (reserved k).

Definition wf_table (t : table) : bool :=
  let nd := length (t_order t) in
  (1 <=? nd)%nat && (length (t_knots t) =? nd)%nat && (length (t_naxes t) =? nd)%nat &&
  str_eqb (t_strides t) (strides_of (t_naxes t)) &&
  (length (t_coeffs t) =? N.to_nat (prodN (t_naxes t)))%nat &&
  forallb (fun o => o <? 2 ^ 31) (t_order t) &&
  forallb (fun k => negb (length k =? 0)%nat) (t_knots t) &&
  match t_extents t with Some e => (length e =? 2 * nd)%nat | None => true end &&
  forallb (fun kv => aux_key_ok (fst kv)) (t_aux t).

(* ------------------------------------------------------------------------------------------------ *)
(* wf_table' : the table-level conditions from which wf_doc (to_doc t) is DERIVED (C06_Wf.v), so that the byte-level
   round trip C06_roundtrip needs no hypothesis about the produced document.  Each conjunct is a limit of the C types
   or of the FITS card format:
     ndim <= 999                     FITS: NAXIS <= 999 (and NAXISn / ORDERn / KNOTSn stay 8-character keywords)
     naxes[i], nknots[i] < 2^63      fits_create_img takes `long` axis lengths (fitsio.h 524-529, 590, 610)
     coefficients < 2^32             binary32 bit patterns (BITPIX -32: 4-byte words)
     knots, extents < 2^64           binary64 bit patterns (BITPIX -64: 8-byte words)
     order[i] < 2^31                 (already in wf_table: written with TINT)
     periods, when present           ndim entries; each header token without blank or '/', not starting with a quote, and
                                     at most 59 characters (what is left on a card after "HIERARCH PERIODnnn = "; the
                                     text %.15G produces has at most 22)
     auxiliary entries               (values may hold quotes anywhere: the reader un-doubles what the card doubles)
                                     key not reserved (that includes EXTNAME / HDUNAME), characters 32..126 (wf_table: aux_key_ok);
                                     key of at most 8 characters: no blank, encoded value (every quote counted twice, as
                                     write_key counts it) at most 68 characters;
                                     longer key (HIERARCH): no '=', no leading or trailing blank, and
                                     key + max(8, encoded value) <= 66, i.e. "HIERARCH key = 'value'" fits in 80 columns.
   write_key (aux.h 84-150, the fixed tree) accepts a subset of the keys (short: upper case and digits only; long: also no
   lower case, <= 66 characters, not starting with "HIERARCH ") and, for values, printable characters with encoded length
   <= 68 (short keys) or <= 67 - keylen (long keys).  The only accepted entries NOT covered here are long keys whose
   card needs cfitsio's compressed form "HIERARCH key= 'value'" (encoded length = 67 - keylen, or keylen > 58 where the
   blank-padded minimum of 8 characters no longer fits and cfitsio truncates): card_text has only the " = " form. *)
Definition two31N : N := 2147483648.
Definition two32N : N := 4294967296.
Definition two63N : N := 9223372036854775808.
Definition two64N : N := 18446744073709551616.

Definition count_char (x : N) (l : str) : nat := length (filter (fun c => c =? x) l).
(* write_key's encodedlen = length (escape_quotes v)  (= FitsModel.encoded_len v, by unfolding) *)
Definition enc_len (v : str) : nat := (length v + count_char quote v)%nat.
(* the auxiliary value a reader returns for the value v of the table written: v itself and, when its encoded text is
   shorter than the 8 characters cfitsio pads a string value to, the missing blanks — nothing else, quotes included *)
Definition aux_reloaded (v : str) : str := v ++ repeat sp (8 - enc_len v).

Definition aux_entry_ok (kv : str * str) : bool :=
  let k := fst kv in
  aux_key_ok k &&
  if (length k <=? 8)%nat then no_char sp k && (enc_len (snd kv) <=? 68)%nat
  else no_char eqc k && negb (hd sp k =? sp) && negb (last k sp =? sp) &&
       (length k + Nat.max 8 (enc_len (snd kv)) <=? 66)%nat.

Definition period_tok_ok (p : option str) : bool :=
  match p with None => true | Some tk => tok_ok tk && (length tk <=? 59)%nat end.

Definition wf_table' (t : table) : bool :=
  let nd := length (t_order t) in
  wf_table t &&
  (nd <=? 999)%nat &&
  forallb (fun a => a <? two63N) (t_naxes t) &&
  forallb (fun w => w <? two32N) (t_coeffs t) &&
  forallb (fun k => (N.of_nat (length k) <? two63N) && forallb (fun w => w <? two64N) k) (t_knots t) &&
  match t_extents t with Some e => forallb (fun w => w <? two64N) e | None => true end &&
  match t_periods t with Some ps => (length ps =? nd)%nat && forallb period_tok_ok ps | None => true end &&
  forallb aux_entry_ok (t_aux t).
