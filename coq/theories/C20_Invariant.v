(* C20_Invariant.v — the global invariant of the object/ownership model (ObjModel.v) under cfg_fixed:
   every reachable world is consistent (no Unset/Dangling pointer, every owned block live with exactly the size
   the code will claim when it releases it, no aliasing, nothing lost, no allocator error, the heap is exactly
   what the live objects own, the trace replays strictly to the heap), every member is safe_to_call in it,
   and once all objects are destroyed the allocation trace is balanced.

   Structure: (A) lists / heap / slot-map facts; (B) `rel Fr o m` = "hp m is the disjoint union of the frame Fr
   (blocks of the other objects) and the blocks owned by o", preserved by every micro-action; (C) generic
   lemmas for the two kinds of loops: lists of AFreeIf, and `simple` programs (AAlloc / AThrow / ASet _ Null)
   with a PREFIX characterisation of the state at the fault position; (D) clear(); (E) read / fit / convolve /
   write_key / permute / destroy at object level; (F) the world invariant, its preservation by `step`,
   safety, balance. *)
From Coq Require Import List Arith Bool Lia Permutation.
From PS Require Import ObjResource ObjModel C20_Proofs.
Import ListNotations.


(* ---------------------------------------------------------------------------------------------- *)
(** * A. general facts *)

Lemma exec_app : forall F p q m o,
  exec F (p ++ q) m o
  = match exec F p m o with
    | (o1, m1, None) => exec F q m1 o1
    | (o1, m1, Some w) => (o1, m1, Some w)
    end.
Proof.
  intros F p; induction p as [|a p IH]; intros q m o; [reflexivity|].
  destruct a; cbn [app exec]; try apply IH.
  - destruct (m_alloc F m (claim o f)) as [[id|] m']; [apply IH|reflexivity].
  - destruct (m_alloc F m b) as [[id|] m']; [apply IH|reflexivity].
  - destruct c; [reflexivity|apply IH].
Qed.

(* heaps *)
Lemma in_remove_id : forall h id i b, NoDup (map fst h) ->
  (In (i, b) (remove_id id h) <-> In (i, b) h /\ i <> id).
Proof.
  induction h as [|[j c] t IH]; intros id i b ND; simpl.
  - tauto.
  - inversion ND as [|x l Hnot ND']; subst.
    destruct (Nat.eqb_spec j id) as [E|E].
    + subst j. split.
      * intros H. split; [right; exact H|]. intros ->. apply Hnot. change id with (fst (id, b)). apply in_map; exact H.
      * intros [[H|H] Hne]; [inversion H; congruence|exact H].
    + simpl. rewrite (IH id i b ND'). split.
      * intros [H|[H Hne]]; [inversion H; subst; split; [left; reflexivity|exact E]|split; [right; exact H|exact Hne]].
      * intros [[H|H] Hne]; [left; exact H|right; split; assumption].
Qed.

Lemma fst_remove_id_incl : forall h id x, In x (map fst (remove_id id h)) -> In x (map fst h).
Proof.
  induction h as [|[j c] t IH]; intros id x; simpl; [tauto|].
  destruct (Nat.eqb j id); simpl; [tauto|]. intros [H|H]; [left; exact H|right; eapply IH; exact H].
Qed.

Lemma nodup_remove_id : forall h id, NoDup (map fst h) -> NoDup (map fst (remove_id id h)).
Proof.
  induction h as [|[j c] t IH]; intros id ND; simpl; [constructor|].
  inversion ND as [|x l Hnot ND']; subst.
  destruct (Nat.eqb j id); [exact ND'|]. simpl. constructor; [|apply IH; exact ND'].
  intros H. apply Hnot. eapply fst_remove_id_incl; exact H.
Qed.

Lemma lookup_in : forall h id b, NoDup (map fst h) -> In (id, b) h -> lookup id h = Some b.
Proof.
  induction h as [|[j c] t IH]; intros id b ND H; simpl in *; [contradiction|].
  inversion ND as [|x l Hnot ND']; subst.
  destruct H as [H|H].
  - inversion H; subst. rewrite Nat.eqb_refl. reflexivity.
  - destruct (Nat.eqb_spec j id) as [E|E]; [|apply IH; assumption].
    subst j. exfalso. apply Hnot. change id with (fst (id, b)). apply in_map; exact H.
Qed.

Lemma lookup_none : forall h id, (forall b, ~ In (id, b) h) -> lookup id h = None.
Proof.
  induction h as [|[j c] t IH]; intros id H; simpl; [reflexivity|].
  destruct (Nat.eqb_spec j id) as [E|E].
  - subst j. exfalso. apply (H c). left; reflexivity.
  - apply IH. intros b Hb. apply (H b). right; exact Hb.
Qed.

Lemma replay_app : forall a b h,
  replay (a ++ b) h = match replay a h with Some h' => replay b h' | None => None end.
Proof.
  induction a as [|e a IH]; intros b h; simpl; [reflexivity|].
  destruct (replay_ev h e); [apply IH|reflexivity].
Qed.

(* slot maps *)
Lemma field_eqb_neq : forall f g, f <> g -> field_eqb f g = false.
Proof. intros f g H. destruct (field_eqb f g) eqn:E; [apply field_eqb_eq in E; contradiction|reflexivity]. Qed.

Lemma field_eq_dec : forall f g : field, {f = g} + {f <> g}.
Proof. intros f g. destruct (field_eqb f g) eqn:E; [left; apply field_eqb_eq; exact E|right; intros ->; rewrite field_eqb_refl in E; discriminate]. Qed.

Lemma get_set : forall o f g s, get (set o g s) f = if field_eqb g f then s else get o f.
Proof.
  intros o f g s. destruct (field_eqb g f) eqn:E.
  - apply field_eqb_eq in E; subst. apply get_set_same.
  - apply get_set_other; exact E.
Qed.

Lemma in_del_slot : forall f l g s, In (g, s) (del_slot f l) -> In (g, s) l /\ g <> f.
Proof.
  intros f l; induction l as [|[h t] l IH]; intros g s H; simpl in *; [contradiction|].
  destruct (field_eqb h f) eqn:E.
  - destruct (IH _ _ H) as [H1 H2]. split; [right; exact H1|exact H2].
  - destruct H as [H|H].
    + inversion H; subst. split; [left; reflexivity|]. intros ->. rewrite field_eqb_refl in E; discriminate.
    + destruct (IH _ _ H) as [H1 H2]. split; [right; exact H1|exact H2].
Qed.

Lemma keys_del_slot_incl : forall f l x, In x (map fst (del_slot f l)) -> In x (map fst l) /\ x <> f.
Proof.
  intros f l x H. apply in_map_iff in H. destruct H as [[g s] [Hx Hin]]. simpl in Hx; subst g.
  destruct (in_del_slot _ _ _ _ Hin) as [H1 H2]. split; [|exact H2].
  change x with (fst (x, s)). apply in_map; exact H1.
Qed.

Lemma nodup_del_slot : forall f l, NoDup (map fst l) -> NoDup (map fst (del_slot f l)).
Proof.
  intros f l; induction l as [|[h t] l IH]; intros ND; simpl; [constructor|].
  inversion ND as [|x l' Hnot ND']; subst.
  destruct (field_eqb h f); [apply IH; exact ND'|]. simpl. constructor; [|apply IH; exact ND'].
  intros H. apply Hnot. apply (keys_del_slot_incl _ _ _ H).
Qed.

Definition keys_nodup (o : obj) : Prop := NoDup (map fst (slots o)).

Lemma keys_nodup_set : forall o f s, keys_nodup o -> keys_nodup (set o f s).
Proof.
  intros o f s H. unfold keys_nodup, set; simpl. unfold put_slot.
  assert (H1 : NoDup (map fst (del_slot f (slots o)))) by (apply nodup_del_slot; exact H).
  assert (H2 : NoDup (map fst ((f, s) :: del_slot f (slots o)))).
  { simpl. constructor; [|exact H1]. intros Hin. apply keys_del_slot_incl in Hin. destruct Hin as [_ Hne]. apply Hne; reflexivity. }
  destruct s; assumption.
Qed.

Definition okslot (s : slot) : bool := match s with Unset | Dangling => false | _ => true end.

Lemma no_garbage_set : forall o f s, no_garbage o = true -> okslot s = true -> no_garbage (set o f s) = true.
Proof.
  intros o f s H Hs. unfold no_garbage, set in *; simpl.
  assert (H1 : forallb (fun fs : field * slot => match snd fs with Unset | Dangling => false | _ => true end) (del_slot f (slots o)) = true).
  { apply forallb_forall. intros [g t] Hin. apply in_del_slot in Hin. destruct Hin as [Hin _].
    rewrite forallb_forall in H. apply (H _ Hin). }
  unfold put_slot. destruct s; simpl in *; try discriminate; assumption.
Qed.

Lemma get_slot_in : forall f l, get_slot f l = Null \/ In (f, get_slot f l) l.
Proof.
  intros f l; induction l as [|[g s] l IH]; simpl; [left; reflexivity|].
  destruct (field_eqb g f) eqn:E.
  - apply field_eqb_eq in E; subst. right; left; reflexivity.
  - destruct IH as [IH|IH]; [left; exact IH|right; right; exact IH].
Qed.

Lemma in_get_slot : forall f s l, NoDup (map fst l) -> In (f, s) l -> get_slot f l = s.
Proof.
  intros f s l; induction l as [|[g t] l IH]; intros ND H; simpl in *; [contradiction|].
  inversion ND as [|x l' Hnot ND']; subst.
  destruct H as [H|H].
  - inversion H; subst. rewrite field_eqb_refl. reflexivity.
  - destruct (field_eqb g f) eqn:E; [|apply IH; assumption].
    apply field_eqb_eq in E; subst g. exfalso. apply Hnot. change f with (fst (f, s)). apply in_map; exact H.
Qed.

Lemma no_garbage_get : forall o f, no_garbage o = true -> okslot (get o f) = true.
Proof.
  intros o f H. unfold get. destruct (get_slot_in f (slots o)) as [E|Hin]; [rewrite E; reflexivity|].
  unfold no_garbage in H. rewrite forallb_forall in H. specialize (H _ Hin). simpl in H.
  destruct (get_slot f (slots o)); simpl; congruence.
Qed.

(* losing slots that own nothing changes nothing *)
Lemma m_lose_notowned : forall m s, is_owned s = false -> m_lose m s = m.
Proof. intros m s H; destruct s; simpl in *; try reflexivity; discriminate. Qed.

Lemma lose_list_nothing : forall (l : list (field * slot)) m,
  (forall fs, In fs l -> is_owned (snd fs) = false) -> fold_left (fun m fs => m_lose m (snd fs)) l m = m.
Proof.
  induction l as [|a l IH]; intros m H; simpl; [reflexivity|].
  rewrite m_lose_notowned by (apply H; left; reflexivity). apply IH. intros fs Hin; apply H; right; exact Hin.
Qed.

Lemma lose_slots_nothing : forall o m, keys_nodup o -> (forall f, is_owned (get o f) = false) ->
  fold_left (fun m fs => m_lose m (snd fs)) (slots o) m = m.
Proof.
  intros o m HK H. apply lose_list_nothing. intros [f s] Hin. simpl.
  specialize (H f). unfold get in H. rewrite (in_get_slot _ _ _ HK Hin) in H. exact H.
Qed.

(* ---------------------------------------------------------------------------------------------- *)
(** * B. the allocator state and the relation object <-> heap (with a frame) *)

Record mem_ok (m : mem) : Prop := {
  mo_errs : errs m = [];
  mo_lost : lost m = [];
  mo_nodup : NoDup (map fst (hp m));
  mo_next : forall id b, In (id, b) (hp m) -> id < next m;
  mo_replay : replay (rev (trace m)) [] = Some (hp m)
}.
Arguments mo_errs {m} _. Arguments mo_lost {m} _. Arguments mo_nodup {m} _. Arguments mo_next {m} _ _ _ _. Arguments mo_replay {m} _.

Lemma mem_ok_mem0 : mem_ok mem0.
Proof. constructor; simpl; auto; try constructor. intros; contradiction. Qed.

Lemma mem_ok_alloc_some : forall F m b id m', mem_ok m -> m_alloc F m b = (Some id, m') ->
  mem_ok m' /\ id = next m /\ hp m' = (id, b) :: hp m /\ next m' = S (next m).
Proof.
  intros F m b id m' [He Hl Hn Hx Hr] H. unfold m_alloc in H. destruct (F (S (nalloc m))); [discriminate|].
  inversion H; subst; clear H. repeat split; simpl; auto.
  - constructor; [|exact Hn]. intros Hin. apply in_map_iff in Hin. destruct Hin as [[i c] [E Hin]]. simpl in E; subst i.
    apply Hx in Hin. lia.
  - intros i c [E|Hin]; [inversion E; lia|]. apply Hx in Hin. lia.
  - rewrite replay_app, Hr. simpl. rewrite lookup_none; [reflexivity|].
    intros c Hin. apply Hx in Hin. lia.
Qed.
Arguments mem_ok_alloc_some {F m b id m'} _ _.

Lemma mem_ok_alloc_none : forall F m b m', mem_ok m -> m_alloc F m b = (None, m') ->
  mem_ok m' /\ hp m' = hp m /\ next m' = next m.
Proof.
  intros F m b m' [He Hl Hn Hx Hr] H. unfold m_alloc in H. destruct (F (S (nalloc m))); [|discriminate].
  inversion H; subst; clear H. repeat split; simpl; auto.
Qed.
Arguments mem_ok_alloc_none {F m b m'} _ _.

Lemma mem_ok_free_owned : forall m id b, mem_ok m -> In (id, b) (hp m) ->
  mem_ok (m_free m (Owned id b) b) /\ hp (m_free m (Owned id b) b) = remove_id id (hp m) /\ next (m_free m (Owned id b) b) = next m.
Proof.
  intros m id b [He Hl Hn Hx Hr] Hin. repeat split; simpl; auto.
  - rewrite Nat.eqb_refl. exact He.
  - apply nodup_remove_id; exact Hn.
  - intros i c H. apply in_remove_id in H; [|exact Hn]. apply (Hx i c). tauto.
  - rewrite replay_app, Hr. simpl. rewrite (lookup_in _ _ _ Hn Hin). rewrite Nat.eqb_refl. reflexivity.
Qed.
Arguments mem_ok_free_owned {m id b} _ _.

Lemma mem_ok_free_null : forall m c, mem_ok m -> mem_ok (m_free m Null c) /\ hp (m_free m Null c) = hp m /\ next (m_free m Null c) = next m.
Proof.
  intros m c [He Hl Hn Hx Hr]. repeat split; simpl; auto.
  rewrite replay_app, Hr. reflexivity.
Qed.
Arguments mem_ok_free_null {m} c _.

Record rel (Fr : nat -> nat -> Prop) (o : obj) (m : mem) : Prop := {
  r_mem : mem_ok m;
  r_sound : forall f id b, get o f = Owned id b -> In (id, b) (hp m);
  r_inj : forall f g id b b', get o f = Owned id b -> get o g = Owned id b' -> f = g;
  r_frame : forall id b, Fr id b -> In (id, b) (hp m) /\ forall f b', get o f <> Owned id b';
  r_complete : forall id b, In (id, b) (hp m) -> Fr id b \/ exists f, get o f = Owned id b
}.

Lemma rel_pointwise : forall Fr o o' m, (forall f, get o' f = get o f) -> rel Fr o m -> rel Fr o' m.
Proof.
  intros Fr o o' m E [Hm Hs Hi Hf Hc]. constructor; auto.
  - intros f id b H. rewrite E in H. eauto.
  - intros f g id b b' H1 H2. rewrite E in H1, H2. eauto.
  - intros id b H. destruct (Hf _ _ H) as [H1 H2]. split; [exact H1|]. intros f b'. rewrite E. apply H2.
  - intros id b H. destruct (Hc _ _ H) as [H1|[f H1]]; [left; exact H1|right; exists f; rewrite E; exact H1].
Qed.

Lemma rel_alloc_none : forall Fr F o m b m', rel Fr o m -> m_alloc F m b = (None, m') -> rel Fr o m'.
Proof.
  intros Fr F o m b m' [Hm Hs Hi Hf Hc] H. destruct (mem_ok_alloc_none Hm H) as [Hm' [Eh En]].
  constructor; auto; try (rewrite Eh; auto).
Qed.

Lemma rel_alloc_some : forall Fr F o m b id m' f, rel Fr o m -> is_owned (get o f) = false ->
  m_alloc F m b = (Some id, m') -> rel Fr (set o f (Owned id b)) m'.
Proof.
  intros Fr F o m b id m' f [Hm Hs Hi Hf Hc] Hno H.
  destruct (mem_ok_alloc_some Hm H) as [Hm' [Eid [Eh En]]].
  assert (Hfresh : forall c, ~ In (id, c) (hp m)).
  { intros c Hin. apply (mo_next Hm) in Hin. lia. }
  constructor; auto.
  - intros g i c Hg. rewrite get_set in Hg. rewrite Eh. destruct (field_eqb f g); [inversion Hg; left; reflexivity|right; eauto].
  - intros g1 g2 i c c' H1 H2. rewrite get_set in H1, H2.
    destruct (field_eqb f g1) eqn:E1; destruct (field_eqb f g2) eqn:E2.
    + apply field_eqb_eq in E1, E2; congruence.
    + inversion H1; subst i c. exfalso. apply (Hfresh c'). eapply Hs; exact H2.
    + inversion H2; subst i c'. exfalso. apply (Hfresh c). eapply Hs; exact H1.
    + eauto.
  - intros i c HF. destruct (Hf _ _ HF) as [H1 H2]. split; [rewrite Eh; right; exact H1|].
    intros g c'. rewrite get_set. destruct (field_eqb f g); [|apply H2].
    intros E; inversion E; subst. apply (Hfresh c). exact H1.
  - intros i c Hin. rewrite Eh in Hin. destruct Hin as [E|Hin].
    + inversion E; subst. right. exists f. rewrite get_set, field_eqb_refl. reflexivity.
    + destruct (Hc _ _ Hin) as [H1|[g H1]]; [left; exact H1|]. right. exists g. rewrite get_set.
      destruct (field_eqb f g) eqn:E; [|exact H1]. apply field_eqb_eq in E; subst g. rewrite H1 in Hno; discriminate.
Qed.

(* releasing the block held by f (claimed with its own size); the slot becomes s' (Null or Dangling) *)
Lemma rel_free_owned : forall Fr o m f id b s', rel Fr o m -> get o f = Owned id b -> is_owned s' = false ->
  rel Fr (set o f s') (m_free m (Owned id b) b).
Proof.
  intros Fr o m f id b s' [Hm Hs Hi Hf Hc] Hg Hs'.
  destruct (mem_ok_free_owned Hm (Hs _ _ _ Hg)) as [Hm' [Eh En]].
  pose proof (mo_nodup Hm) as ND.
  constructor; auto.
  - intros g i c H. rewrite get_set in H. destruct (field_eqb f g) eqn:E; [subst s'; discriminate|].
    rewrite Eh. apply in_remove_id; [exact ND|]. split; [eauto|].
    intros ->. assert (g = f) by (eapply Hi; eauto). subst g. rewrite field_eqb_refl in E; discriminate.
  - intros g1 g2 i c c' H1 H2. rewrite get_set in H1, H2.
    destruct (field_eqb f g1); [subst s'; discriminate|]. destruct (field_eqb f g2); [subst s'; discriminate|]. eauto.
  - intros i c HF. destruct (Hf _ _ HF) as [H1 H2]. split.
    + rewrite Eh. apply in_remove_id; [exact ND|]. split; [exact H1|]. intros ->. apply (H2 f b). exact Hg.
    + intros g c'. rewrite get_set. destruct (field_eqb f g); [intros E; subst s'; discriminate|apply H2].
  - intros i c Hin. rewrite Eh in Hin. apply in_remove_id in Hin; [|exact ND]. destruct Hin as [Hin Hne].
    destruct (Hc _ _ Hin) as [H1|[g H1]]; [left; exact H1|]. right. exists g. rewrite get_set.
    destruct (field_eqb f g) eqn:E; [|exact H1]. apply field_eqb_eq in E; subst g. rewrite Hg in H1; inversion H1; congruence.
Qed.

Lemma rel_free_null : forall Fr o m c, rel Fr o m -> rel Fr o (m_free m Null c).
Proof.
  intros Fr o m c [Hm Hs Hi Hf Hc]. destruct (mem_ok_free_null c Hm) as [Hm' [Eh En]].
  constructor; auto; try (rewrite Eh; auto).
Qed.

(* dst = src; src = NULL  (dst held nothing) *)
Lemma rel_move : forall Fr o m src dst, rel Fr o m -> is_owned (get o dst) = false -> field_eqb src dst = false ->
  rel Fr (set (set o dst (get o src)) src Null) m.
Proof.
  intros Fr o m src dst [Hm Hs Hi Hf Hc] Hd Hne.
  assert (Hne' : field_eqb dst src = false) by (rewrite field_eqb_sym; exact Hne).
  assert (G : forall g, get (set (set o dst (get o src)) src Null) g
                       = if field_eqb src g then Null else if field_eqb dst g then get o src else get o g).
  { intros g. rewrite !get_set. reflexivity. }
  constructor; auto.
  - intros g i c H. rewrite G in H. destruct (field_eqb src g); [discriminate|]. destruct (field_eqb dst g); eauto.
  - intros g1 g2 i c c' H1 H2. rewrite G in H1, H2.
    destruct (field_eqb src g1) eqn:A1; [discriminate|]. destruct (field_eqb src g2) eqn:A2; [discriminate|].
    destruct (field_eqb dst g1) eqn:B1; destruct (field_eqb dst g2) eqn:B2.
    + apply field_eqb_eq in B1, B2; congruence.
    + assert (src = g2) by (eapply Hi; eauto). subst g2. rewrite field_eqb_refl in A2; discriminate.
    + assert (g1 = src) by (eapply Hi; eauto). subst g1. rewrite field_eqb_refl in A1; discriminate.
    + eauto.
  - intros i c HF. destruct (Hf _ _ HF) as [H1 H2]. split; [exact H1|]. intros g c'. rewrite G.
    destruct (field_eqb src g); [discriminate|]. destruct (field_eqb dst g); apply H2.
  - intros i c Hin. destruct (Hc _ _ Hin) as [H1|[g H1]]; [left; exact H1|]. right.
    destruct (field_eqb src g) eqn:A.
    + apply field_eqb_eq in A; subst g. exists dst. rewrite G, Hne, field_eqb_refl. exact H1.
    + exists g. rewrite G, A. destruct (field_eqb dst g) eqn:B; [|exact H1].
      apply field_eqb_eq in B; subst g. rewrite H1 in Hd; discriminate.
Qed.

(* ---------------------------------------------------------------------------------------------- *)
(** * C. the partial-state invariant and the two generic loop lemmas *)

(* every owned block has exactly the size the code will compute when it releases it *)
Definition claims_ok (o : obj) : Prop := forall f id b, get o f = Owned id b -> b = claim o f.

Record part0 (Fr : nat -> nat -> Prop) (o : obj) (m : mem) : Prop := {
  p_keys : keys_nodup o;
  p_ng : no_garbage o = true;
  p_claims : claims_ok o;
  p_rel : rel Fr o m
}.

Definition core (o : obj) := (ndim o, orders o, nknots o, naxes o, naux o, auxs o).

Lemma claim_core : forall o o' f, core o = core o' -> claim o f = claim o' f.
Proof. intros o o' f H. unfold core in H. inversion H. destruct f; unfold claim, aux_at; congruence. Qed.

Lemma core_set : forall o f s, core (set o f s) = core o.
Proof. reflexivity. Qed.

Lemma claims_ok_set_unowned : forall o f s, claims_ok o -> is_owned s = false -> claims_ok (set o f s).
Proof.
  intros o f s H Hs g id b Hg. rewrite get_set in Hg. destruct (field_eqb f g); [subst s; discriminate|].
  rewrite (claim_core (set o f s) o g (core_set o f s)). eapply H; exact Hg.
Qed.

Lemma part0_freeif : forall Fr o m f, part0 Fr o m ->
  part0 Fr (set o f Null) (if is_null (get o f) then m else m_free m (get o f) (claim o f)).
Proof.
  intros Fr o m f [HK HG HC HR].
  assert (K : keys_nodup (set o f Null)) by (apply keys_nodup_set; exact HK).
  assert (G : no_garbage (set o f Null) = true) by (apply no_garbage_set; auto).
  assert (C : claims_ok (set o f Null)) by (apply claims_ok_set_unowned; auto).
  pose proof (no_garbage_get o f HG) as Hok.
  destruct (get o f) as [| |id b|] eqn:E; simpl in Hok; try discriminate; simpl.
  - constructor; auto. eapply rel_pointwise; [|exact HR]. intros g. rewrite get_set.
    destruct (field_eqb f g) eqn:Efg; [apply field_eqb_eq in Efg; subst; auto|reflexivity].
  - constructor; auto. rewrite <- (HC _ _ _ E). apply rel_free_owned; auto.
Qed.

Lemma part0_alloc_some : forall Fr F o m f b id m', part0 Fr o m -> get o f = Null -> b = claim o f ->
  m_alloc F m b = (Some id, m') -> part0 Fr (set o f (Owned id b)) m'.
Proof.
  intros Fr F o m f b id m' [HK HG HC HR] Hn Hb H. constructor.
  - apply keys_nodup_set; exact HK.
  - apply no_garbage_set; auto.
  - intros g i c Hg. rewrite get_set in Hg. rewrite (claim_core (set o f (Owned id b)) o g (core_set _ _ _)).
    destruct (field_eqb f g) eqn:E; [apply field_eqb_eq in E; subst g; inversion Hg; subst; reflexivity|eapply HC; exact Hg].
  - eapply rel_alloc_some; eauto. rewrite Hn; reflexivity.
Qed.

Lemma part0_alloc_none : forall Fr F o m b m', part0 Fr o m -> m_alloc F m b = (None, m') -> part0 Fr o m'.
Proof. intros Fr F o m b m' [HK HG HC HR] H. constructor; auto. eapply rel_alloc_none; eauto. Qed.

Lemma part0_set_null : forall Fr o m f, part0 Fr o m -> get o f = Null -> part0 Fr (set o f Null) m.
Proof.
  intros Fr o m f [HK HG HC HR] Hn. constructor.
  - apply keys_nodup_set; exact HK.
  - apply no_garbage_set; auto.
  - apply claims_ok_set_unowned; auto.
  - eapply rel_pointwise; [|exact HR]. intros g. rewrite get_set.
    destruct (field_eqb f g) eqn:E; [apply field_eqb_eq in E; subst; auto|reflexivity].
Qed.

(* same slots, other contents (ANdim / AShape / AAuxs): only the claims have to be re-established *)
Lemma part0_recore : forall Fr o o' m, slots o' = slots o -> claims_ok o' -> part0 Fr o m -> part0 Fr o' m.
Proof.
  intros Fr o o' m Hs Hc [HK HG HC HR]. constructor; auto.
  - unfold keys_nodup. rewrite Hs. exact HK.
  - unfold no_garbage. rewrite Hs. exact HG.
  - eapply rel_pointwise; [|exact HR]. intros f. unfold get. rewrite Hs. reflexivity.
Qed.

(** a list of  if(p){deallocate(p,size);} p=nullptr;  never fails, releases exactly these pointers *)
Lemma exec_freeifs : forall Fr F fs o m, part0 Fr o m ->
  exists o' m', exec F (map AFreeIf fs) m o = (o', m', None) /\ part0 Fr o' m' /\ core o' = core o
    /\ (forall f, In f fs -> get o' f = Null) /\ (forall f, ~ In f fs -> get o' f = get o f).
Proof.
  intros Fr F fs; induction fs as [|a fs IH]; intros o m HP.
  - exists o, m. simpl. split; [reflexivity|]. split; [exact HP|]. split; [reflexivity|]. split; [intros f []|reflexivity].
  - cbn [map exec].
    destruct (IH _ _ (part0_freeif _ _ _ a HP)) as [o' [m' [E [HP' [Hc [H1 H2]]]]]].
    exists o', m'. split; [exact E|]. split; [exact HP'|]. split; [rewrite Hc; reflexivity|]. split.
    + intros f Hin. destruct (in_dec field_eq_dec f fs) as [Hi|Hi]; [apply H1; exact Hi|].
      destruct Hin as [->|Hin]; [|contradiction]. rewrite (H2 _ Hi). apply get_set_same.
    + intros f Hn. rewrite H2 by (intros Hi; apply Hn; right; exact Hi).
      apply get_set_other. apply field_eqb_neq. intros ->. apply Hn; left; reflexivity.
Qed.

(** simple programs: allocations of distinct, still-null pointers, interleaved with possible throws and
    null-stores into still-null pointers.  The state at the point where the program stops (fault position
    chosen by the oracles) is characterised by a PREFIX of the program. *)
Definition simple_action (a : action) : bool :=
  match a with AAlloc _ | AThrow _ _ | ASet _ Null => true | _ => false end.

Fixpoint allocs (p : list action) : list field :=
  match p with [] => [] | AAlloc f :: t => f :: allocs t | _ :: t => allocs t end.
Fixpoint touched (p : list action) : list field :=
  match p with [] => [] | AAlloc f :: t => f :: touched t | ASet f _ :: t => f :: touched t | _ :: t => touched t end.
(* an allocation is the LAST thing that happens to its pointer *)
Fixpoint wf_simple (p : list action) : Prop :=
  match p with
  | [] => True
  | AAlloc f :: t => ~ In f (touched t) /\ wf_simple t
  | _ :: t => wf_simple t
  end.

Lemma allocs_app : forall p q, allocs (p ++ q) = allocs p ++ allocs q.
Proof. induction p as [|a p IH]; intros q; simpl; [reflexivity|]. destruct a; simpl; rewrite ?IH; reflexivity. Qed.
Lemma touched_app : forall p q, touched (p ++ q) = touched p ++ touched q.
Proof. induction p as [|a p IH]; intros q; simpl; [reflexivity|]. destruct a; simpl; rewrite ?IH; reflexivity. Qed.
Lemma allocs_touched : forall p f, In f (allocs p) -> In f (touched p).
Proof. induction p as [|a p IH]; intros f H; simpl in *; [exact H|]. destruct a; simpl in *; auto. destruct H; auto. Qed.

Lemma wf_simple_app : forall p q, wf_simple p -> wf_simple q -> (forall f, In f (allocs p) -> ~ In f (touched q)) -> wf_simple (p ++ q).
Proof.
  induction p as [|a p IH]; intros q Hp Hq Hd; simpl in *; [exact Hq|].
  destruct a; simpl in *; try (apply IH; auto; fail).
  destruct Hp as [Hn Hp]. split.
  - rewrite touched_app. intros Hin. apply in_app_or in Hin. destruct Hin as [Hin|Hin]; [apply Hn; exact Hin|].
    apply (Hd f); [left; reflexivity|exact Hin].
  - apply IH; auto.
Qed.

Lemma exec_simple : forall Fr F p o m,
  forallb simple_action p = true -> wf_simple p -> (forall f, In f (touched p) -> get o f = Null) -> part0 Fr o m ->
  exists o' m' r p1 p2,
    exec F p m o = (o', m', r) /\ p = p1 ++ p2 /\ (r = None -> p2 = []) /\ part0 Fr o' m' /\ core o' = core o
    /\ (forall f, In f (allocs p1) -> is_owned (get o' f) = true) /\ (forall f, ~ In f (allocs p1) -> get o' f = get o f).
Proof.
  intros Fr F p; induction p as [|a p IH]; intros o m Hs Hw Hn HP.
  - exists o, m, None, [], []. simpl. split; [reflexivity|]. split; [reflexivity|]. split; [reflexivity|]. split; [exact HP|].
    split; [reflexivity|]. split; [intros f []|reflexivity].
  - cbn [forallb] in Hs. apply andb_true_iff in Hs. destruct Hs as [Ha Hs].
    destruct a; simpl in Ha; try discriminate.
    + (* AAlloc f *)
      destruct Hw as [Hnt Hw]. cbn [exec].
      assert (Hf : get o f = Null) by (apply Hn; left; reflexivity).
      destruct (m_alloc F m (claim o f)) as [[id|] m1] eqn:EA.
      * rewrite Hf. cbn [m_lose].
        pose proof (part0_alloc_some _ _ _ _ f _ _ _ HP Hf eq_refl EA) as HP1.
        destruct (IH (set o f (Owned id (claim o f))) m1 Hs Hw) as [o' [m' [r [p1 [p2 [E [Ep [Er [HP' [Hc [H1 H2]]]]]]]]]]]; [|exact HP1|].
        { intros g Hg. rewrite get_set. destruct (field_eqb f g) eqn:Efg; [apply field_eqb_eq in Efg; subst g; contradiction|].
          apply Hn. right; exact Hg. }
        exists o', m', r, (AAlloc f :: p1), p2. split; [exact E|]. split; [rewrite Ep; reflexivity|]. split; [exact Er|].
        split; [exact HP'|]. split; [rewrite Hc; reflexivity|]. split.
        -- intros g Hg. destruct (in_dec field_eq_dec g (allocs p1)) as [Hi|Hi]; [apply H1; exact Hi|].
           destruct Hg as [->|Hg]; [|contradiction]. rewrite (H2 _ Hi), get_set_same. reflexivity.
        -- intros g Hg. simpl in Hg. rewrite H2 by tauto. apply get_set_other. apply field_eqb_neq. intros ->. apply Hg; left; reflexivity.
      * exists o, m1, (Some RAlloc), [], (AAlloc f :: p). simpl. split; [reflexivity|]. split; [reflexivity|]. split; [discriminate|].
        split; [eapply part0_alloc_none; eauto|]. split; [reflexivity|]. split; [intros g []|reflexivity].
    + (* ASet f Null *)
      destruct s; try discriminate. cbn [exec].
      assert (Hf : get o f = Null) by (apply Hn; left; reflexivity).
      rewrite Hf. cbn [m_lose].
      destruct (IH (set o f Null) m Hs Hw) as [o' [m' [r [p1 [p2 [E [Ep [Er [HP' [Hc [H1 H2]]]]]]]]]]]; [|apply part0_set_null; auto|].
      { intros g Hg. rewrite get_set. destruct (field_eqb f g); [reflexivity|apply Hn; right; exact Hg]. }
      exists o', m', r, (ASet f Null :: p1), p2. split; [exact E|]. split; [rewrite Ep; reflexivity|]. split; [exact Er|].
      split; [exact HP'|]. split; [rewrite Hc; reflexivity|]. split; [exact H1|].
      intros g Hg. simpl in Hg. rewrite (H2 _ Hg). rewrite get_set. destruct (field_eqb f g) eqn:Efg; [apply field_eqb_eq in Efg; subst; auto|reflexivity].
    + (* AThrow *)
      cbn [exec]. destruct c.
      * exists o, m, (Some r), [], (AThrow r true :: p). simpl. split; [reflexivity|]. split; [reflexivity|]. split; [discriminate|].
        split; [exact HP|]. split; [reflexivity|]. split; [intros g []|reflexivity].
      * destruct (IH o m Hs Hw) as [o' [m' [r' [p1 [p2 [E [Ep [Er [HP' [Hc [H1 H2]]]]]]]]]]]; [|exact HP|].
        { intros g Hg. apply Hn. exact Hg. }
        exists o', m', r', (AThrow r false :: p1), p2. split; [exact E|]. split; [rewrite Ep; reflexivity|]. split; [exact Er|].
        split; [exact HP'|]. split; [exact Hc|]. split; [exact H1|exact H2].
Qed.

(* order of the allocations: what a prefix contains *)
Lemma prefix_dep : forall (p1 p2 X Y : list action) g f,
  p1 ++ p2 = X ++ AAlloc g :: Y -> ~ In f (allocs X) -> In f (allocs p1) -> In g (allocs p1).
Proof.
  intros p1; induction p1 as [|a p1 IH]; intros p2 X Y g f E HX Hf; simpl in *; [contradiction|].
  destruct X as [|x X]; simpl in E.
  - inversion E; subst. simpl. left; reflexivity.
  - inversion E; subst.
    assert (HX' : ~ In f (allocs X)). { intros H; apply HX. destruct x; simpl; auto. }
    destruct x; simpl in *; try (eapply IH; eauto; fail).
    destruct Hf as [->|Hf]; [exfalso; apply HX; left; reflexivity|]. right. eapply IH; eauto.
Qed.

(* ---------------------------------------------------------------------------------------------- *)
(** * D. clear() from a partial state *)

Definition clear_fields (o : obj) : list field :=
  (if is_null (get o FKnots) then [] else map FKnot (idx (ndim o)) ++ [FKnots])
  ++ [FNknots; FOrder]
  ++ (if is_null (get o FExtents) then [] else [FExtents0; FExtents])
  ++ [FPeriods; FCoeff; FNaxes; FStrides]
  ++ flat_map (fun i => [FAuxK i; FAuxV i; FAuxE i]) (idx (naux o)) ++ [FAux].

(* every non-null pointer is one that clear() looks at *)
Definition clearable (o : obj) : Prop := forall f, get o f <> Null -> In f (clear_fields o).

Lemma flat_map_freeif3 : forall (a b c : nat -> field) l,
  flat_map (fun i => [AFreeIf (a i); AFreeIf (b i); AFreeIf (c i)]) l = map AFreeIf (flat_map (fun i => [a i; b i; c i]) l).
Proof. induction l as [|x l IH]; simpl; [reflexivity|]. rewrite IH. reflexivity. Qed.

Lemma clear_prog_fields : forall o,
  clear_prog o = map AFreeIf (clear_fields o) ++ [AAuxs 0 []; ANdim 0; AShape [] [] []; AReset].
Proof.
  intros o. unfold clear_prog, table_release_fixed, aux_release_fixed, clear_fields.
  rewrite flat_map_freeif3.
  destruct (is_null (get o FKnots)); destruct (is_null (get o FExtents));
    repeat rewrite map_app; rewrite ?map_map; simpl; repeat (rewrite <- app_assoc; simpl); reflexivity.
Qed.

Lemma get_empty : forall f, get empty_obj f = Null.
Proof. reflexivity. Qed.

Lemma clear_ok : forall Fr F o m, part0 Fr o m -> clearable o ->
  exists m', exec F (clear_prog o) m o = (empty_obj, m', None) /\ rel Fr empty_obj m'.
Proof.
  intros Fr F o m HP HC. rewrite clear_prog_fields, exec_app.
  destruct (exec_freeifs _ F (clear_fields o) _ _ HP) as [o1 [m1 [E [HP1 [Hc [H1 H2]]]]]]. rewrite E.
  assert (Hnull : forall f, get o1 f = Null).
  { intros f. destruct (in_dec field_eq_dec f (clear_fields o)) as [Hi|Hi]; [apply H1; exact Hi|].
    rewrite (H2 _ Hi). destruct (get o f) eqn:Eg; try reflexivity; exfalso; apply Hi; apply HC; rewrite Eg; discriminate. }
  rewrite clear_tail. exists m1. destruct HP1 as [HK HG HCl HR].
  rewrite lose_slots_nothing; [|exact HK|intros f; rewrite Hnull; reflexivity].
  split; [reflexivity|]. eapply rel_pointwise; [|exact HR]. intros f. rewrite Hnull. reflexivity.
Qed.

(* ---------------------------------------------------------------------------------------------- *)
(** * E1. straight-line programs: a checked symbolic run.  `run_ok p o` collects, along the program, the
      conditions under which no block is lost and no release is wrong; ids of new blocks are universally
      quantified, so the conditions are about the ownership picture only. *)

Definition freeable (s : slot) (claimed : nat) : bool :=
  match s with Null => true | Owned _ b => Nat.eqb b claimed | _ => false end.

Fixpoint run_ok (p : list action) (o : obj) : Prop :=
  match p with
  | [] => True
  | a :: rest =>
    match a with
    | AAlloc f => is_owned (get o f) = false /\ forall id, run_ok rest (set o f (Owned id (claim o f)))
    | AAllocB f b => is_owned (get o f) = false /\ forall id, run_ok rest (set o f (Owned id b))
    | AFree f => freeable (get o f) (claim o f) = true /\ run_ok rest (set o f (after_free (get o f)))
    | AFreeB f b => freeable (get o f) b = true /\ run_ok rest (set o f (after_free (get o f)))
    | AFreeIf f => freeable (get o f) (claim o f) = true /\ run_ok rest (set o f Null)
    | AMove src dst => is_owned (get o dst) = false /\ field_eqb src dst = false /\ run_ok rest (set (set o dst (get o src)) src Null)
    | ASet f s => is_owned (get o f) = false /\ is_owned s = false /\ run_ok rest (set o f s)
    | AThrow _ _ => run_ok rest o
    | ANdim n => run_ok rest (with_ndim o n)
    | AShape os ks ns => run_ok rest (with_shape o os ks ns)
    | AAuxs n l => run_ok rest (with_auxs o n l)
    | AReset => False
    end
  end.

Lemma rel_free_any : forall Fr o m f c s', rel Fr o m -> freeable (get o f) c = true -> is_owned s' = false ->
  (get o f = Null -> s' = Null) ->
  rel Fr (set o f s') (m_free m (get o f) c).
Proof.
  intros Fr o m f c s' HR Hfr Hs' Hn. destruct (get o f) as [| |id b|] eqn:E; simpl in Hfr; try discriminate.
  - rewrite (Hn eq_refl). eapply rel_pointwise; [|apply rel_free_null; exact HR].
    intros g. rewrite get_set. destruct (field_eqb f g) eqn:Efg; [apply field_eqb_eq in Efg; subst; auto|reflexivity].
  - apply Nat.eqb_eq in Hfr. subst c. apply rel_free_owned; auto.
Qed.

Lemma rel_set_unowned : forall Fr o m f s, rel Fr o m -> is_owned (get o f) = false -> is_owned s = false -> rel Fr (set o f s) m.
Proof.
  intros Fr o m f s [Hm Hs Hi Hf Hc] Ho Hs'. constructor; auto.
  - intros g i c H. rewrite get_set in H. destruct (field_eqb f g); [subst s; discriminate|eauto].
  - intros g1 g2 i c c' H1 H2. rewrite get_set in H1, H2.
    destruct (field_eqb f g1); [subst s; discriminate|]. destruct (field_eqb f g2); [subst s; discriminate|]. eauto.
  - intros i c HF. destruct (Hf _ _ HF) as [H1 H2]. split; [exact H1|]. intros g c'. rewrite get_set.
    destruct (field_eqb f g); [intros E; subst s; discriminate|apply H2].
  - intros i c Hin. destruct (Hc _ _ Hin) as [H1|[g H1]]; [left; exact H1|]. right. exists g. rewrite get_set.
    destruct (field_eqb f g) eqn:E; [|exact H1]. apply field_eqb_eq in E; subst g. rewrite H1 in Ho; discriminate.
Qed.

Lemma exec_run_ok : forall Fr F p o m o' m' r,
  rel Fr o m -> keys_nodup o -> run_ok p o -> exec F p m o = (o', m', r) -> rel Fr o' m' /\ keys_nodup o'.
Proof.
  intros Fr F p; induction p as [|a p IH]; intros o m o' m' r HR HK Hrun E.
  - simpl in E. inversion E; subst. split; assumption.
  - destruct a; cbn [exec run_ok] in *.
    + destruct Hrun as [Hno Hrun]. destruct (m_alloc F m (claim o f)) as [[id|] m1] eqn:EA.
      * rewrite (m_lose_notowned _ _ Hno) in E. eapply IH; [| |apply Hrun|exact E].
        -- eapply rel_alloc_some; eauto.
        -- apply keys_nodup_set; exact HK.
      * inversion E; subst. split; [eapply rel_alloc_none; eauto|exact HK].
    + destruct Hrun as [Hno Hrun]. destruct (m_alloc F m b) as [[id|] m1] eqn:EA.
      * rewrite (m_lose_notowned _ _ Hno) in E. eapply IH; [| |apply Hrun|exact E].
        -- eapply rel_alloc_some; eauto.
        -- apply keys_nodup_set; exact HK.
      * inversion E; subst. split; [eapply rel_alloc_none; eauto|exact HK].
    + destruct Hrun as [Hfr Hrun]. eapply IH; [| |exact Hrun|exact E].
      * apply rel_free_any; auto; destruct (get o f); simpl; auto; intros; discriminate.
      * apply keys_nodup_set; exact HK.
    + destruct Hrun as [Hfr Hrun]. eapply IH; [| |exact Hrun|exact E].
      * apply rel_free_any; auto; destruct (get o f); simpl; auto; intros; discriminate.
      * apply keys_nodup_set; exact HK.
    + destruct Hrun as [Hfr Hrun]. eapply IH; [| |exact Hrun|exact E].
      * destruct (get o f) as [| |id b|] eqn:Eg; simpl in Hfr; try discriminate; simpl.
        -- eapply rel_pointwise; [|exact HR]. intros g. rewrite get_set.
           destruct (field_eqb f g) eqn:Efg; [apply field_eqb_eq in Efg; subst; auto|reflexivity].
        -- apply Nat.eqb_eq in Hfr. rewrite <- Hfr. apply rel_free_owned; auto.
      * apply keys_nodup_set; exact HK.
    + destruct Hrun as [Hno [Hne Hrun]]. rewrite (m_lose_notowned _ _ Hno) in E. eapply IH; [| |exact Hrun|exact E].
      * apply rel_move; auto.
      * apply keys_nodup_set. apply keys_nodup_set. exact HK.
    + destruct Hrun as [Hno [Hs Hrun]]. rewrite (m_lose_notowned _ _ Hno) in E. eapply IH; [| |exact Hrun|exact E].
      * apply rel_set_unowned; auto.
      * apply keys_nodup_set; exact HK.
    + destruct c; [inversion E; subst; split; assumption|]. eapply IH; eauto.
    + eapply IH; [| |exact Hrun|exact E]; [eapply rel_pointwise; [|exact HR]; reflexivity|exact HK].
    + eapply IH; [| |exact Hrun|exact E]; [eapply rel_pointwise; [|exact HR]; reflexivity|exact HK].
    + eapply IH; [| |exact Hrun|exact E]; [eapply rel_pointwise; [|exact HR]; reflexivity|exact HK].
    + contradiction.
Qed.

Lemma del_slot_idem : forall f l, del_slot f (del_slot f l) = del_slot f l.
Proof.
  intros f l; induction l as [|[g s] l IH]; simpl; [reflexivity|].
  destruct (field_eqb g f) eqn:E; [exact IH|]. simpl. rewrite E, IH. reflexivity.
Qed.

Lemma set_set_same : forall o f s1 s2, set (set o f s1) f s2 = set o f s2.
Proof.
  intros o f s1 s2. unfold set; simpl.
  assert (E : del_slot f (put_slot f s1 (slots o)) = del_slot f (slots o)).
  { unfold put_slot. destruct s1; simpl; rewrite ?field_eqb_refl; apply del_slot_idem. }
  unfold put_slot at 1 3. rewrite E. reflexivity.
Qed.

(* ---------------------------------------------------------------------------------------------- *)
(** * E2. the invariant of an object between two operations *)

Definition is_aux_field (f : field) : bool := match f with FAux | FAuxE _ | FAuxK _ | FAuxV _ => true | _ => false end.

Definition tbl_fields (n : nat) : list field :=
  [FOrder; FKnots; FNknots; FCoeff; FNaxes; FStrides; FExtents; FExtents0] ++ map FKnot (idx n).
Definition aux_flds (k : nat) : list field := flat_map (fun i => [FAuxK i; FAuxV i; FAuxE i]) (idx k) ++ [FAux].
Definition full_fields (n k : nat) : list field := FPeriods :: tbl_fields n ++ aux_flds k.

Record obj_inv (o : obj) : Prop := {
  oi_keys : keys_nodup o;
  oi_ok : forall f, okslot (get o f) = true;                               (* no Unset / Dangling pointer *)
  oi_claims : claims_ok o;                                                 (* sizes *)
  oi_dom : forall f, get o f <> Null -> In f (full_fields (ndim o) (naux o));   (* nothing outside what clear() releases *)
  oi_aux0 : naux o <> 0 -> is_owned (get o FAux) = true;
  oi_auxi : forall i, i < naux o -> is_owned (get o (FAuxE i)) = true /\ is_owned (get o (FAuxK i)) = true /\ is_owned (get o (FAuxV i)) = true;
  oi_auxlen : length (auxs o) = naux o;
  oi_len : length (naxes o) = ndim o;
  oi_tbl0 : ndim o = 0 -> forall f, is_aux_field f = false -> get o f = Null;   (* an empty table owns no table array *)
  oi_tbl : ndim o <> 0 -> forall f, In f (tbl_fields (ndim o)) -> is_owned (get o f) = true   (* a populated one owns them all *)
}.

Lemma in_idx : forall i n, In i (idx n) <-> i < n.
Proof. intros i n. unfold idx. rewrite in_seq. lia. Qed.

Lemma in_aux_flds : forall f k, In f (aux_flds k) <-> f = FAux \/ exists i, i < k /\ (f = FAuxK i \/ f = FAuxV i \/ f = FAuxE i).
Proof.
  intros f k. unfold aux_flds. rewrite in_app_iff, in_flat_map. split.
  - intros [[i [Hi Hf]]|Hf].
    + right. exists i. apply in_idx in Hi. simpl in Hf. split; [exact Hi|]. intuition (subst; auto).
    + left. simpl in Hf. intuition.
  - intros [->|[i [Hi Hf]]]; [right; left; reflexivity|]. left. exists i. split; [apply in_idx; exact Hi|].
    simpl. intuition (subst; auto).
Qed.

Lemma in_tbl_fields : forall f n, In f (tbl_fields n) <->
  In f [FOrder; FKnots; FNknots; FCoeff; FNaxes; FStrides; FExtents; FExtents0] \/ exists i, i < n /\ f = FKnot i.
Proof.
  intros f n. unfold tbl_fields. rewrite in_app_iff, in_map_iff. split.
  - intros [H|[i [Hf Hi]]]; [left; exact H|right; exists i; apply in_idx in Hi; auto].
  - intros [H|[i [Hi Hf]]]; [left; exact H|right; exists i; split; [auto|apply in_idx; exact Hi]].
Qed.

Lemma obj_inv_empty : obj_inv empty_obj.
Proof.
  constructor; simpl; try reflexivity; try (intros; reflexivity); try (intros; lia); try (intros; congruence).
  - constructor.
  - intros f id b H. rewrite get_empty in H. discriminate.
  - intros f H. rewrite get_empty in H. congruence.
Qed.

Lemma no_garbage_pointwise : forall o, keys_nodup o -> (forall f, okslot (get o f) = true) -> no_garbage o = true.
Proof.
  intros o HK H. unfold no_garbage. apply forallb_forall. intros [f s] Hin. simpl.
  specialize (H f). unfold get in H. rewrite (in_get_slot _ _ _ HK Hin) in H. destruct s; simpl in *; congruence.
Qed.

Lemma clearable_intro : forall o,
  (forall f, get o f <> Null -> In f (full_fields (ndim o) (naux o))) ->
  (forall i, get o (FKnot i) <> Null -> get o FKnots <> Null) ->
  (get o FExtents0 <> Null -> get o FExtents <> Null) -> clearable o.
Proof.
  intros o Hd Hk He f Hf. specialize (Hd f Hf). unfold clear_fields, full_fields in *.
  destruct Hd as [<-|Hd]; [do 3 (apply in_or_app; right); simpl; auto|].
  apply in_app_or in Hd. destruct Hd as [Hd|Hd].
  2:{ unfold aux_flds in Hd. apply in_or_app; right. apply in_or_app; right. apply in_or_app; right. apply in_or_app; right. exact Hd. }
  apply in_tbl_fields in Hd. destruct Hd as [Hd|[i [Hi ->]]].
  - simpl in Hd.
    destruct Hd as [<-|[<-|[<-|[<-|[<-|[<-|[<-|[<-|[]]]]]]]]].
    + apply in_or_app; right. simpl; auto.
    + apply in_or_app; left. destruct (get o FKnots); try congruence; simpl; apply in_or_app; right; simpl; auto.
    + apply in_or_app; right. simpl; auto.
    + apply in_or_app; right. apply in_or_app; right. apply in_or_app; right. simpl; auto.
    + apply in_or_app; right. apply in_or_app; right. apply in_or_app; right. simpl; auto.
    + apply in_or_app; right. apply in_or_app; right. apply in_or_app; right. simpl; auto.
    + apply in_or_app; right. apply in_or_app; right. apply in_or_app; left.
      destruct (get o FExtents); try congruence; simpl; auto.
    + apply in_or_app; right. apply in_or_app; right. apply in_or_app; left.
      specialize (He Hf). destruct (get o FExtents); try congruence; simpl; auto.
  - apply in_or_app; left. specialize (Hk i Hf).
    destruct (get o FKnots); try congruence; simpl; apply in_or_app; left; apply in_map; apply in_idx; exact Hi.
Qed.

Lemma owned_not_null : forall s, is_owned s = true -> s <> Null.
Proof. intros s H ->. discriminate. Qed.

Lemma obj_inv_clearable : forall o, obj_inv o -> clearable o.
Proof.
  intros o I. apply clearable_intro; [apply (oi_dom _ I)| |].
  - intros i Hi. destruct (Nat.eq_dec (ndim o) 0) as [E|E].
    + exfalso. apply Hi. apply (oi_tbl0 _ I E). reflexivity.
    + apply owned_not_null. apply (oi_tbl _ I E). simpl; auto.
  - intros Hi. destruct (Nat.eq_dec (ndim o) 0) as [E|E].
    + exfalso. apply Hi. apply (oi_tbl0 _ I E). reflexivity.
    + apply owned_not_null. apply (oi_tbl _ I E). simpl; auto 10.
Qed.

Lemma obj_inv_part0 : forall Fr o m, obj_inv o -> rel Fr o m -> part0 Fr o m.
Proof.
  intros Fr o m I HR. constructor; [apply (oi_keys _ I)| |apply (oi_claims _ I)|exact HR].
  apply no_garbage_pointwise; [apply (oi_keys _ I)|apply (oi_ok _ I)].
Qed.

(* what a catch block of the fixed tree does *)
Lemma on_failure_ok : forall Fr F o m why, part0 Fr o m -> clearable o ->
  exists m', on_failure true F (o, m, Some why) = (empty_obj, m', Some why) /\ rel Fr empty_obj m'.
Proof.
  intros Fr F o m why HP HC. destruct (clear_ok _ F _ _ HP HC) as [m' [E HR]].
  exists m'. simpl. rewrite E. split; [reflexivity|exact HR].
Qed.

(* ---------------------------------------------------------------------------------------------- *)
(** * E3. the loops of read_fits / fit / convolve as simple programs *)

Lemma allocs_flat_map : forall (g : nat -> list action) l, allocs (flat_map g l) = flat_map (fun i => allocs (g i)) l.
Proof. induction l as [|a l IH]; simpl; [reflexivity|]. rewrite allocs_app, IH. reflexivity. Qed.
Lemma touched_flat_map : forall (g : nat -> list action) l, touched (flat_map g l) = flat_map (fun i => touched (g i)) l.
Proof. induction l as [|a l IH]; simpl; [reflexivity|]. rewrite touched_app, IH. reflexivity. Qed.
Lemma map_as_flat_map : forall {A B} (g : A -> B) l, map g l = flat_map (fun i => [g i]) l.
Proof. induction l as [|a l IH]; simpl; [reflexivity|]. rewrite IH. reflexivity. Qed.
Lemma simple_flat_map : forall (g : nat -> list action) l, (forall i, forallb simple_action (g i) = true) -> forallb simple_action (flat_map g l) = true.
Proof. intros g l H; induction l as [|a l IH]; simpl; [reflexivity|]. rewrite forallb_app, H, IH. reflexivity. Qed.

Lemma wf_simple_flat_map : forall (g : nat -> list action) l,
  (forall i, wf_simple (g i)) ->
  (forall i j f, i <> j -> In f (allocs (g i)) -> ~ In f (touched (g j))) ->
  NoDup l -> wf_simple (flat_map g l).
Proof.
  intros g l Hw Hd ND; induction l as [|a l IH]; simpl; [exact I|].
  inversion ND as [|x l' Hnot ND']; subst.
  apply wf_simple_app; [apply Hw|apply IH; exact ND'|].
  intros f Hf Hin. rewrite touched_flat_map in Hin. apply in_flat_map in Hin. destruct Hin as [j [Hj Hin]].
  apply (Hd a j f); auto. intros ->. contradiction.
Qed.

Lemma nodup_idx : forall n, NoDup (idx n).
Proof. intros n. apply seq_NoDup. Qed.

Definition aux_body (i : nat) : list action := [AAlloc (FAuxE i); AAlloc (FAuxK i); AAlloc (FAuxV i)].
Definition aux_loop (k : nat) : list action := flat_map aux_body (idx k).
Definition sets_loop (n : nat) : list action := flat_map (fun i => [ASet (FKnot i) Null]) (idx n).
Definition knot_body (c1 c2 : nat -> bool) (i : nat) : list action := [AThrow RInput (c1 i); AAlloc (FKnot i); AThrow RInput (c2 i)].
Definition knot_loop (c1 c2 : nat -> bool) (n : nat) : list action := flat_map (knot_body c1 c2) (idx n).
Definition kalloc_loop (n : nat) : list action := flat_map (fun i => [AAlloc (FKnot i)]) (idx n).

Lemma in_touched_aux_loop : forall f k, In f (touched (aux_loop k)) <-> exists i, i < k /\ (f = FAuxE i \/ f = FAuxK i \/ f = FAuxV i).
Proof.
  intros f k. unfold aux_loop. rewrite touched_flat_map, in_flat_map. split.
  - intros [i [Hi Hf]]. exists i. apply in_idx in Hi. simpl in Hf. intuition (subst; auto).
  - intros [i [Hi Hf]]. exists i. split; [apply in_idx; exact Hi|]. simpl. intuition (subst; auto).
Qed.
Lemma in_allocs_aux_loop : forall f k, In f (allocs (aux_loop k)) <-> exists i, i < k /\ (f = FAuxE i \/ f = FAuxK i \/ f = FAuxV i).
Proof.
  intros f k. unfold aux_loop. rewrite allocs_flat_map, in_flat_map. split.
  - intros [i [Hi Hf]]. exists i. apply in_idx in Hi. simpl in Hf. intuition (subst; auto).
  - intros [i [Hi Hf]]. exists i. split; [apply in_idx; exact Hi|]. simpl. intuition (subst; auto).
Qed.
Lemma in_touched_sets_loop : forall f n, In f (touched (sets_loop n)) <-> exists i, i < n /\ f = FKnot i.
Proof.
  intros f n. unfold sets_loop. rewrite touched_flat_map, in_flat_map. split.
  - intros [i [Hi Hf]]. exists i. apply in_idx in Hi. simpl in Hf. intuition (subst; auto).
  - intros [i [Hi Hf]]. exists i. split; [apply in_idx; exact Hi|]. simpl. auto.
Qed.
Lemma allocs_sets_loop : forall n, allocs (sets_loop n) = [].
Proof. intros n. unfold sets_loop. rewrite allocs_flat_map. induction (idx n); simpl; auto. Qed.
Lemma in_touched_knot_loop : forall f c1 c2 n, In f (touched (knot_loop c1 c2 n)) <-> exists i, i < n /\ f = FKnot i.
Proof.
  intros f c1 c2 n. unfold knot_loop. rewrite touched_flat_map, in_flat_map. split.
  - intros [i [Hi Hf]]. exists i. apply in_idx in Hi. simpl in Hf. intuition (subst; auto).
  - intros [i [Hi Hf]]. exists i. split; [apply in_idx; exact Hi|]. simpl. auto.
Qed.
Lemma in_allocs_knot_loop : forall f c1 c2 n, In f (allocs (knot_loop c1 c2 n)) <-> exists i, i < n /\ f = FKnot i.
Proof.
  intros f c1 c2 n. unfold knot_loop. rewrite allocs_flat_map, in_flat_map. split.
  - intros [i [Hi Hf]]. exists i. apply in_idx in Hi. simpl in Hf. intuition (subst; auto).
  - intros [i [Hi Hf]]. exists i. split; [apply in_idx; exact Hi|]. simpl. auto.
Qed.
Lemma in_touched_kalloc_loop : forall f n, In f (touched (kalloc_loop n)) <-> exists i, i < n /\ f = FKnot i.
Proof.
  intros f n. unfold kalloc_loop. rewrite touched_flat_map, in_flat_map. split.
  - intros [i [Hi Hf]]. exists i. apply in_idx in Hi. simpl in Hf. intuition (subst; auto).
  - intros [i [Hi Hf]]. exists i. split; [apply in_idx; exact Hi|]. simpl. auto.
Qed.
Lemma in_allocs_kalloc_loop : forall f n, In f (allocs (kalloc_loop n)) <-> exists i, i < n /\ f = FKnot i.
Proof.
  intros f n. unfold kalloc_loop. rewrite allocs_flat_map, in_flat_map. split.
  - intros [i [Hi Hf]]. exists i. apply in_idx in Hi. simpl in Hf. intuition (subst; auto).
  - intros [i [Hi Hf]]. exists i. split; [apply in_idx; exact Hi|]. simpl. auto.
Qed.

Lemma wf_aux_loop : forall k, wf_simple (aux_loop k).
Proof.
  intros k. apply wf_simple_flat_map; [| |apply nodup_idx].
  - intros i. simpl. intuition discriminate.
  - intros i j f Hne Hf Hin. simpl in Hf, Hin. intuition (subst; try discriminate; congruence).
Qed.
Lemma wf_sets_loop : forall n, wf_simple (sets_loop n).
Proof.
  intros n. apply wf_simple_flat_map; [| |apply nodup_idx].
  - intros i. exact I.
  - intros i j f Hne Hf Hin. simpl in Hf. contradiction.
Qed.
Lemma wf_knot_loop : forall c1 c2 n, wf_simple (knot_loop c1 c2 n).
Proof.
  intros c1 c2 n. apply wf_simple_flat_map; [| |apply nodup_idx].
  - intros i. simpl. intuition.
  - intros i j f Hne Hf Hin. simpl in Hf, Hin. intuition (subst; try discriminate; congruence).
Qed.
Lemma wf_kalloc_loop : forall n, wf_simple (kalloc_loop n).
Proof.
  intros n. apply wf_simple_flat_map; [| |apply nodup_idx].
  - intros i. simpl. intuition.
  - intros i j f Hne Hf Hin. simpl in Hf, Hin. intuition (subst; try discriminate; congruence).
Qed.

(* fields touched by a loop are recognisable by their constructor: used to discharge disjointness *)
Ltac loop_mem :=
  repeat match goal with
  | H : In _ (touched (aux_loop _)) |- _ => apply in_touched_aux_loop in H; destruct H as [? [? [?|[?|?]]]]
  | H : In _ (allocs (aux_loop _)) |- _ => apply in_allocs_aux_loop in H; destruct H as [? [? [?|[?|?]]]]
  | H : In _ (touched (sets_loop _)) |- _ => apply in_touched_sets_loop in H; destruct H as [? [? ?]]
  | H : In _ (allocs (sets_loop _)) |- _ => rewrite allocs_sets_loop in H; destruct H
  | H : In _ (touched (knot_loop _ _ _)) |- _ => apply in_touched_knot_loop in H; destruct H as [? [? ?]]
  | H : In _ (allocs (knot_loop _ _ _)) |- _ => apply in_allocs_knot_loop in H; destruct H as [? [? ?]]
  | H : In _ (touched (kalloc_loop _)) |- _ => apply in_touched_kalloc_loop in H; destruct H as [? [? ?]]
  | H : In _ (allocs (kalloc_loop _)) |- _ => apply in_allocs_kalloc_loop in H; destruct H as [? [? ?]]
  end.
Ltac split_in H :=
  repeat (rewrite ?touched_app, ?allocs_app in H; cbn [touched allocs] in H);
  repeat (rewrite in_app_iff in H || (cbn [In] in H)).

(* ---------------------------------------------------------------------------------------------- *)
(** * E4. read_fits *)

Definition RS1 (f : file) : list action :=
  [AAlloc FAux] ++ aux_loop (length (f_aux f)) ++ [AAlloc FOrder; AThrow RInput (phase_eqb (f_fail f) POrder); AAlloc FPeriods].
Definition RS2 (f : file) : list action := sets_loop (f_ndim f) ++ [AAlloc FNknots].
Definition RS3 (f : file) : list action :=
  [ASet FExtents0 Null; AAlloc FExtents0; AThrow RInput (phase_eqb (f_fail f) PImgSize);
   AAlloc FNaxes; AAlloc FStrides; AAlloc FCoeff; AThrow RInput (phase_eqb (f_fail f) PCoeff)]
  ++ knot_loop (fun i => phase_eqb (f_fail f) (PKnotSize i)) (fun i => phase_eqb (f_fail f) (PKnotData i)) (f_ndim f)
  ++ [AThrow RInput (phase_eqb (f_fail f) PExtents)].
Definition read_simple (f : file) : list action := RS1 f ++ AAlloc FKnots :: RS2 f ++ AAlloc FExtents :: RS3 f.

Lemma aux_loop_combine : forall (l : list (auxent * nat)) s,
  flat_map (fun ie : nat * (auxent * nat) => [AAlloc (FAuxE (fst ie)); AAlloc (FAuxK (fst ie)); AAlloc (FAuxV (fst ie))]) (combine (seq s (length l)) l)
  = flat_map aux_body (seq s (length l)).
Proof. induction l as [|a l IH]; intros s; simpl; [reflexivity|]. rewrite IH. reflexivity. Qed.

Lemma read_core_split : forall o f,
  read_core_prog cfg_fixed o f
  = [AThrow RInput (phase_eqb (f_fail f) PHdu || phase_eqb (f_fail f) PDim); ANdim (f_ndim f); AShape (f_orders f) (f_nknots f) (f_naxes f)]
    ++ map AFreeIf (aux_flds (naux o))
    ++ [AAuxs 0 []; AAuxs (length (f_aux f)) (map fst (f_aux f))] ++ read_simple f.
Proof.
  intros o f. unfold read_core_prog, read_aux_prog, aux_release_fixed, read_simple, RS1, RS2, RS3, aux_flds, knot_loop, knot_body, sets_loop.
  cbn [fx_aux fx_clear fx_auxsize cfg_fixed].
  rewrite flat_map_freeif3. unfold idx. rewrite (aux_loop_combine (f_aux f) 0).
  rewrite <- map_as_flat_map. rewrite map_app.
  repeat (rewrite <- app_assoc; cbn [app map]). reflexivity.
Qed.

Ltac kill_mem := intuition idtac; subst; loop_mem; subst; try discriminate; try congruence; try contradiction.
Ltac wfs :=
  repeat match goal with
  | |- wf_simple (_ ++ _) => apply wf_simple_app
  | |- wf_simple (AAlloc _ :: _) => cbn [wf_simple]; split
  | |- wf_simple (_ :: _) => cbn [wf_simple]
  | |- wf_simple [] => exact I
  | |- True => exact I
  | |- _ /\ _ => split
  | |- wf_simple (aux_loop _) => apply wf_aux_loop
  | |- wf_simple (sets_loop _) => apply wf_sets_loop
  | |- wf_simple (knot_loop _ _ _) => apply wf_knot_loop
  | |- wf_simple (kalloc_loop _) => apply wf_kalloc_loop
  | |- ~ In _ _ => let H := fresh "H" in intros H; split_in H; kill_mem
  | |- forall f, In f (allocs _) -> ~ In f (touched _) =>
      let g := fresh "g" in let H1 := fresh "H" in let H2 := fresh "H" in
      intros g H1 H2; split_in H1; split_in H2; kill_mem
  end.

Lemma simple_read : forall f, forallb simple_action (read_simple f) = true.
Proof.
  intros f. unfold read_simple, RS1, RS2, RS3, aux_loop, knot_loop, sets_loop.
  repeat (rewrite forallb_app || (rewrite simple_flat_map by (intros; reflexivity)) || (progress simpl)).
  reflexivity.
Qed.

Lemma wf_read : forall f, wf_simple (read_simple f).
Proof. intros f. unfold read_simple, RS1, RS2, RS3. wfs. Qed.

Arguments obj_inv_part0 {Fr o m} _ _.
Arguments obj_inv_clearable {o} _.
Arguments on_failure_ok {Fr} F {o m} why _ _.
Arguments part0_recore {Fr} o o' {m} _ _ _.
Arguments exec_freeifs {Fr} F fs {o m} _.
Arguments exec_simple {Fr} F p {o m} _ _ _ _.
Arguments oi_keys {o} _. Arguments oi_ok {o} _ _. Arguments oi_claims {o} _ _ _ _ _. Arguments oi_dom {o} _ _ _.
Arguments oi_aux0 {o} _ _. Arguments oi_auxi {o} _ _ _. Arguments oi_auxlen {o} _. Arguments oi_len {o} _.
Arguments oi_tbl0 {o} _ _ _ _. Arguments oi_tbl {o} _ _ _ _.

Lemma in_allocs_read : forall f g, In g (allocs (read_simple f)) <->
  In g [FAux; FOrder; FPeriods; FKnots; FNknots; FExtents; FExtents0; FNaxes; FStrides; FCoeff]
  \/ (exists i, i < length (f_aux f) /\ (g = FAuxE i \/ g = FAuxK i \/ g = FAuxV i))
  \/ (exists i, i < f_ndim f /\ g = FKnot i).
Proof.
  intros f g. unfold read_simple, RS1, RS2, RS3.
  repeat (rewrite ?allocs_app; cbn [allocs]). repeat (rewrite in_app_iff || cbn [In]).
  rewrite in_allocs_aux_loop, allocs_sets_loop, in_allocs_knot_loop. cbn [In]. intuition.
Qed.

Lemma tbl_fields_not_aux : forall g n, In g (tbl_fields n) -> is_aux_field g = false.
Proof. intros g n H. apply in_tbl_fields in H. destruct H as [H|[i [_ ->]]]; [simpl in H; intuition (subst; reflexivity)|reflexivity]. Qed.

Lemma full_fields_cases : forall g n k, In g (full_fields n k) -> (is_aux_field g = false) \/ In g (aux_flds k).
Proof.
  intros g n k [<-|H]; [left; reflexivity|]. apply in_app_or in H. destruct H as [H|H]; [left; eapply tbl_fields_not_aux; eauto|right; exact H].
Qed.

Lemma in_full_fields : forall g n k, In g (full_fields n k) <-> g = FPeriods \/ In g (tbl_fields n) \/ In g (aux_flds k).
Proof. intros g n k. unfold full_fields. cbn [In]. rewrite in_app_iff. intuition. Qed.

Lemma allocs_read_full : forall f g, In g (allocs (read_simple f)) -> In g (full_fields (f_ndim f) (length (f_aux f))).
Proof.
  intros f g H. apply in_allocs_read in H. apply in_full_fields. rewrite in_tbl_fields, in_aux_flds.
  destruct H as [H|[[i [Hi H]]|[i [Hi H]]]].
  - simpl in H. simpl. intuition (subst; auto 12).
  - right; right; right. exists i. intuition.
  - right; left; right. exists i. auto.
Qed.

Lemma read_ok : forall Fr F o m f o' m' r,
  obj_inv o -> rel Fr o m -> f_ndim f <> 0 -> length (f_naxes f) = f_ndim f ->
  step_read cfg_fixed F m o f = (o', m', r) ->
  obj_inv o' /\ rel Fr o' m' /\ (auxs o' = auxs o \/ auxs o' = [] \/ auxs o' = map fst (f_aux f)).
Proof.
  intros Fr F o m f o' m' r I HR Hnd Hlen H. unfold step_read in H.
  destruct (Nat.eqb_spec (ndim o) 0) as [E0|E0]; cbn [negb] in H; [|inversion H; subst; auto].
  destruct (f_open_fails f); [inversion H; subst; auto|].
  cbn [fx_clear cfg_fixed] in H. rewrite read_core_split in H. cbn [app exec] in H.
  pose proof (obj_inv_part0 I HR) as HP.
  destruct (phase_eqb (f_fail f) PHdu || phase_eqb (f_fail f) PDim).
  { destruct (on_failure_ok F RInput HP (obj_inv_clearable I)) as [m1 [E1 HR1]]. rewrite E1 in H. inversion H; subst.
    split; [apply obj_inv_empty|split; [exact HR1|right; left; reflexivity]]. }
  set (o1 := with_shape (with_ndim o (f_ndim f)) (f_orders f) (f_nknots f) (f_naxes f)) in *.
  assert (HP1 : part0 Fr o1 m).
  { apply (part0_recore o o1 eq_refl); [|exact HP]. intros g id b Hg.
    change (get o1 g) with (get o g) in Hg. rewrite (oi_claims I _ _ _ Hg).
    destruct (is_aux_field g) eqn:Ea; [destruct g; try discriminate; reflexivity|].
    rewrite (oi_tbl0 I E0 _ Ea) in Hg. discriminate. }
  rewrite exec_app in H.
  destruct (exec_freeifs F (aux_flds (naux o)) HP1) as [o2 [m2 [E2 [HP2 [Hc2 [H21 H22]]]]]].
  rewrite E2 in H. cbn [app exec] in H.
  set (o3 := with_auxs (with_auxs o2 0 []) (length (f_aux f)) (map fst (f_aux f))) in *.
  assert (Hnull : forall g, get o3 g = Null).
  { intros g. change (get o3 g) with (get o2 g).
    destruct (in_dec field_eq_dec g (aux_flds (naux o))) as [Hi|Hi]; [apply H21; exact Hi|].
    rewrite (H22 _ Hi). change (get o1 g) with (get o g).
    destruct (get o g) eqn:Eg; try reflexivity; exfalso.
    all: assert (Hd : In g (full_fields (ndim o) (naux o))) by (apply (oi_dom I); rewrite Eg; discriminate).
    all: destruct (full_fields_cases _ _ _ Hd) as [Ha|Ha]; [rewrite (oi_tbl0 I E0 _ Ha) in Eg; discriminate|contradiction]. }
  assert (HP3 : part0 Fr o3 m2).
  { apply (part0_recore o2 o3 eq_refl); [|exact HP2]. intros g id b Hg. rewrite Hnull in Hg. discriminate. }
  assert (Hcore3 : core o3 = (f_ndim f, f_orders f, f_nknots f, f_naxes f, length (f_aux f), map fst (f_aux f))).
  { unfold core in *. simpl in Hc2. inversion Hc2. simpl. congruence. }
  destruct (exec_simple F (read_simple f) (simple_read f) (wf_read f) (fun g _ => Hnull g) HP3)
    as [o4 [m4 [r4 [p1 [p2 [E4 [Ep [Er [HP4 [Hc4 [H41 H42]]]]]]]]]]].
  rewrite E4 in H. rewrite Hcore3 in Hc4. unfold core in Hc4. inversion Hc4 as [[Hn4 Ho4 Hk4 Hx4 Ha4 Hl4]].
  assert (Hdom : forall g, get o4 g <> Null -> In g (allocs p1)).
  { intros g Hg. destruct (in_dec field_eq_dec g (allocs p1)) as [Hi|Hi]; [exact Hi|]. rewrite (H42 _ Hi), Hnull in Hg. congruence. }
  assert (Hsub : forall g, In g (allocs p1) -> In g (allocs (read_simple f))).
  { intros g Hg. rewrite Ep, allocs_app. apply in_or_app; left; exact Hg. }
  assert (Hfull : forall g, get o4 g <> Null -> In g (full_fields (ndim o4) (naux o4))).
  { intros g Hg. rewrite Hn4, Ha4. apply allocs_read_full. apply Hsub. apply Hdom. exact Hg. }
  destruct r4 as [why|].
  - (* the read stopped half-way: clear() *)
    assert (HC4 : clearable o4).
    { apply clearable_intro; [exact Hfull| |].
      - intros i Hi. apply owned_not_null. apply H41.
        apply (prefix_dep p1 p2 (RS1 f) (RS2 f ++ AAlloc FExtents :: RS3 f) FKnots (FKnot i)); [symmetry; exact Ep| |apply Hdom; exact Hi].
        intros Hin. unfold RS1 in Hin. split_in Hin. kill_mem.
      - intros Hi. apply owned_not_null. apply H41.
        apply (prefix_dep p1 p2 (RS1 f ++ AAlloc FKnots :: RS2 f) (RS3 f) FExtents FExtents0); [| |apply Hdom; exact Hi].
        + rewrite <- Ep. unfold read_simple. rewrite <- app_assoc. reflexivity.
        + intros Hin. unfold RS1, RS2 in Hin. split_in Hin. kill_mem. }
    destruct (on_failure_ok F why HP4 HC4) as [m5 [E5 HR5]]. rewrite E5 in H. inversion H; subst.
    split; [apply obj_inv_empty|split; [exact HR5|right; left; reflexivity]].
  - (* complete *)
    cbn [on_failure] in H. inversion H; subst o' m' r. clear H.
    rewrite (Er eq_refl), app_nil_r in Ep. subst p1.
    assert (Hown : forall g, In g (allocs (read_simple f)) -> is_owned (get o4 g) = true) by exact H41.
    destruct HP4 as [HK4 HG4 HC4 HR4]. split; [|split; [exact HR4|right; right; first [exact Hl4|reflexivity]]].
    constructor; auto.
    + intros g. apply no_garbage_get. exact HG4.
    + intros _. apply Hown. apply in_allocs_read. left. simpl; auto.
    + intros i Hi. rewrite Ha4 in Hi. repeat split; apply Hown; apply in_allocs_read; right; left; exists i; auto.
    + rewrite Hl4, Ha4. apply map_length.
    + rewrite Hx4, Hn4. exact Hlen.
    + intros E. rewrite Hn4 in E. contradiction.
    + intros _ g Hg. apply Hown. apply in_allocs_read. rewrite Hn4 in Hg. apply in_tbl_fields in Hg.
      destruct Hg as [Hg|Hg]; [left; simpl in *; intuition|right; right; exact Hg].
Qed.

(* ---------------------------------------------------------------------------------------------- *)
(** * E5. fit *)

Definition FS2 (s : fitspec) : list action := sets_loop (length (ft_orders s)) ++ [AAlloc FNknots].
Definition FS3 (s : fitspec) : list action :=
  [ASet FExtents0 Null; AAlloc FExtents0; AAlloc FNaxes; AAlloc FStrides; AAlloc FCoeff]
  ++ kalloc_loop (length (ft_orders s)) ++ [AThrow RInput (ft_fails s)].
Definition fit_simple (s : fitspec) : list action := [AAlloc FOrder] ++ AAlloc FKnots :: FS2 s ++ AAlloc FExtents :: FS3 s.

Lemma fit_split : forall s,
  fit_prog cfg_fixed s = [ANdim (length (ft_orders s)); AShape (ft_orders s) (ft_nknots s) (ft_naxes s)] ++ fit_simple s.
Proof.
  intros s. unfold fit_prog, fit_simple, FS2, FS3, sets_loop, kalloc_loop. cbn [fx_fit cfg_fixed].
  rewrite <- !map_as_flat_map. repeat (rewrite <- app_assoc; cbn [app map]). reflexivity.
Qed.

Lemma simple_fit : forall s, forallb simple_action (fit_simple s) = true.
Proof.
  intros s. unfold fit_simple, FS2, FS3, kalloc_loop, sets_loop.
  repeat (rewrite forallb_app || (rewrite simple_flat_map by (intros; reflexivity)) || (progress simpl)).
  reflexivity.
Qed.

Lemma wf_fit : forall s, wf_simple (fit_simple s).
Proof. intros s. unfold fit_simple, FS2, FS3. wfs. Qed.

Lemma in_allocs_fit : forall s g, In g (allocs (fit_simple s)) <->
  In g [FOrder; FKnots; FNknots; FExtents; FExtents0; FNaxes; FStrides; FCoeff] \/ (exists i, i < length (ft_orders s) /\ g = FKnot i).
Proof.
  intros s g. unfold fit_simple, FS2, FS3.
  repeat (rewrite ?allocs_app; cbn [allocs]). repeat (rewrite in_app_iff || cbn [In]).
  rewrite allocs_sets_loop, in_allocs_kalloc_loop. cbn [In]. intuition.
Qed.

Lemma allocs_fit_tbl : forall s g, In g (allocs (fit_simple s)) <-> In g (tbl_fields (length (ft_orders s))).
Proof.
  intros s g. rewrite in_allocs_fit, in_tbl_fields. simpl. intuition.
Qed.

Lemma touched_fit_nonaux : forall s g, In g (touched (fit_simple s)) -> is_aux_field g = false.
Proof.
  intros s g H. unfold fit_simple, FS2, FS3 in H. split_in H.
  intuition idtac; subst; loop_mem; subst; reflexivity.
Qed.

Lemma ft_naxes_length : forall s, length (ft_nknots s) = length (ft_orders s) -> length (ft_naxes s) = length (ft_orders s).
Proof. intros s H. unfold ft_naxes. rewrite map_length, combine_length, H. apply Nat.min_id. Qed.

Lemma aux_flds_full : forall g n k, In g (aux_flds k) -> In g (full_fields n k).
Proof. intros g n k H. apply in_full_fields. auto. Qed.
Lemma tbl_fields_full : forall g n k, In g (tbl_fields n) -> In g (full_fields n k).
Proof. intros g n k H. apply in_full_fields. auto. Qed.

Lemma fit_ok : forall Fr F o m s o' m' r,
  obj_inv o -> rel Fr o m -> (ft_invalid s = false -> ft_orders s <> [] /\ length (ft_nknots s) = length (ft_orders s)) ->
  step_fit cfg_fixed F m o s = (o', m', r) -> obj_inv o' /\ rel Fr o' m' /\ (auxs o' = auxs o \/ auxs o' = []).
Proof.
  intros Fr F o m s o' m' r I HR Hwf H. unfold step_fit in H.
  destruct (ft_invalid s); [inversion H; subst; auto|]. destruct (Hwf eq_refl) as [Hne Hlen]. clear Hwf.
  cbn [fx_fit cfg_fixed andb] in H.
  destruct (Nat.eqb_spec (ndim o) 0) as [E0|E0]; cbn [negb] in H; [|inversion H; subst; auto].
  rewrite fit_split in H. cbn [app exec] in H.
  set (n := length (ft_orders s)) in *.
  assert (Hn : n <> 0) by (unfold n; destruct (ft_orders s); [congruence|simpl; lia]).
  pose proof (obj_inv_part0 I HR) as HP.
  set (o1 := with_shape (with_ndim o n) (ft_orders s) (ft_nknots s) (ft_naxes s)) in *.
  assert (HP1 : part0 Fr o1 m).
  { apply (part0_recore o o1 eq_refl); [|exact HP]. intros g id b Hg.
    change (get o1 g) with (get o g) in Hg. rewrite (oi_claims I _ _ _ Hg).
    destruct (is_aux_field g) eqn:Ea; [destruct g; try discriminate; reflexivity|].
    rewrite (oi_tbl0 I E0 _ Ea) in Hg. discriminate. }
  assert (Hnull : forall g, In g (touched (fit_simple s)) -> get o1 g = Null).
  { intros g Hg. change (get o1 g) with (get o g). apply (oi_tbl0 I E0). eapply touched_fit_nonaux; eauto. }
  destruct (exec_simple F (fit_simple s) (simple_fit s) (wf_fit s) Hnull HP1)
    as [o4 [m4 [r4 [p1 [p2 [E4 [Ep [Er [HP4 [Hc4 [H41 H42]]]]]]]]]]].
  rewrite E4 in H. unfold core in Hc4. simpl in Hc4. inversion Hc4 as [[Hn4 Ho4 Hk4 Hx4 Ha4 Hl4]].
  assert (Hsub : forall g, In g (allocs p1) -> In g (allocs (fit_simple s))).
  { intros g Hg. rewrite Ep, allocs_app. apply in_or_app; left; exact Hg. }
  assert (Hold : forall g, ~ In g (allocs p1) -> get o4 g = get o g) by (intros g Hg; rewrite (H42 _ Hg); reflexivity).
  assert (Hfull : forall g, get o4 g <> Null -> In g (full_fields (ndim o4) (naux o4))).
  { intros g Hg. rewrite Hn4, Ha4. destruct (in_dec field_eq_dec g (allocs p1)) as [Hi|Hi].
    - apply tbl_fields_full. apply allocs_fit_tbl. apply Hsub. exact Hi.
    - rewrite (Hold _ Hi) in Hg. pose proof (oi_dom I _ Hg) as Hd.
      destruct (full_fields_cases _ _ _ Hd) as [Ha|Ha]; [rewrite (oi_tbl0 I E0 _ Ha) in Hg; congruence|apply aux_flds_full; exact Ha]. }
  assert (Hnew : forall g, is_aux_field g = false -> get o4 g <> Null -> In g (allocs p1)).
  { intros g Ha Hg. destruct (in_dec field_eq_dec g (allocs p1)) as [Hi|Hi]; [exact Hi|].
    rewrite (Hold _ Hi), (oi_tbl0 I E0 _ Ha) in Hg. congruence. }
  destruct r4 as [why|].
  - assert (HC4 : clearable o4).
    { apply clearable_intro; [exact Hfull| |].
      - intros i Hi. apply owned_not_null. apply H41.
        apply (prefix_dep p1 p2 [AAlloc FOrder] (FS2 s ++ AAlloc FExtents :: FS3 s) FKnots (FKnot i)); [symmetry; exact Ep| |apply Hnew; auto].
        simpl. intuition discriminate.
      - intros Hi. apply owned_not_null. apply H41.
        apply (prefix_dep p1 p2 ([AAlloc FOrder] ++ AAlloc FKnots :: FS2 s) (FS3 s) FExtents FExtents0); [| |apply Hnew; auto].
        + rewrite <- Ep. unfold fit_simple. rewrite <- app_assoc. reflexivity.
        + intros Hin. unfold FS2 in Hin. split_in Hin. kill_mem. }
    destruct (on_failure_ok F why HP4 HC4) as [m5 [E5 HR5]]. rewrite E5 in H. inversion H; subst.
    split; [apply obj_inv_empty|split; [exact HR5|right; reflexivity]].
  - cbn [on_failure] in H. inversion H; subst o' m' r. clear H.
    rewrite (Er eq_refl), app_nil_r in Ep. subst p1.
    assert (Haux : forall g, is_aux_field g = true -> get o4 g = get o g).
    { intros g Ha. apply Hold. intros Hin. apply allocs_touched in Hin. apply touched_fit_nonaux in Hin. congruence. }
    destruct HP4 as [HK4 HG4 HC4 HR4]. split; [|split; [exact HR4|left; first [exact Hl4|reflexivity|congruence]]].
    constructor; auto.
    + intros g. apply no_garbage_get. exact HG4.
    + rewrite Ha4. intros Hk. rewrite Haux by reflexivity. apply (oi_aux0 I Hk).
    + rewrite Ha4. intros i Hi. rewrite !Haux by reflexivity. apply (oi_auxi I _ Hi).
    + rewrite Hl4, Ha4. apply (oi_auxlen I).
    + rewrite Hx4, Hn4. apply ft_naxes_length. exact Hlen.
    + intros E. rewrite Hn4 in E. contradiction.
    + intros _ g Hg. apply H41. apply allocs_fit_tbl. rewrite Hn4 in Hg. exact Hg.
Qed.

(* ---------------------------------------------------------------------------------------------- *)
(** * E6. convolve *)

Definition conv_simple (n : nat) : list action := AAlloc FCoeff :: kalloc_loop n.

Lemma convolve_split : forall o dim nk,
  convolve_prog cfg_fixed o dim nk
  = map AFreeIf (FCoeff :: map FKnot (idx (ndim o)))
    ++ [AShape (upd (orders o) dim (nth dim (orders o) 0 + nk - 1)) (upd (nknots o) dim (nth dim (nknots o) 0 * nk))
               (upd (naxes o) dim (nth dim (nknots o) 0 * nk - (nth dim (orders o) 0 + nk - 1) - 1))]
    ++ conv_simple (ndim o).
Proof.
  intros o dim nk. unfold convolve_prog, conv_simple, kalloc_loop. cbn [fx_conv cfg_fixed].
  rewrite <- !map_as_flat_map. cbn [map app]. rewrite map_map. repeat (rewrite <- app_assoc; cbn [app]). reflexivity.
Qed.

Lemma upd_length : forall l i v, length (upd l i v) = length l.
Proof. intros l i v. unfold upd. rewrite map_length, combine_length. unfold idx. rewrite seq_length. apply Nat.min_id. Qed.

Lemma in_allocs_conv : forall n g, In g (allocs (conv_simple n)) <-> g = FCoeff \/ exists i, i < n /\ g = FKnot i.
Proof. intros n g. unfold conv_simple. cbn [allocs In]. rewrite in_allocs_kalloc_loop. intuition. Qed.
Lemma in_touched_conv : forall n g, In g (touched (conv_simple n)) <-> g = FCoeff \/ exists i, i < n /\ g = FKnot i.
Proof. intros n g. unfold conv_simple. cbn [touched In]. rewrite in_touched_kalloc_loop. intuition. Qed.

Lemma wf_conv : forall n, wf_simple (conv_simple n).
Proof. intros n. unfold conv_simple. wfs. Qed.
Lemma simple_conv : forall n, forallb simple_action (conv_simple n) = true.
Proof. intros n. unfold conv_simple, kalloc_loop. simpl. apply simple_flat_map. intros; reflexivity. Qed.

Lemma convolve_ok : forall Fr F o m dim nk o' m' r,
  obj_inv o -> rel Fr o m ->
  step_convolve cfg_fixed F m o dim nk = (o', m', r) -> obj_inv o' /\ rel Fr o' m' /\ (auxs o' = auxs o \/ auxs o' = []).
Proof.
  intros Fr F o m dim nk o' m' r I HR H. unfold step_convolve in H. cbn [fx_conv cfg_fixed andb] in H.
  destruct (Nat.ltb_spec dim (ndim o)) as [Hd|Hd]; cbn [negb orb] in H; [|inversion H; subst; auto].
  destruct (nk <? 2); [inversion H; subst; auto|].
  assert (E0 : ndim o <> 0) by lia.
  rewrite convolve_split in H. rewrite exec_app in H.
  pose proof (obj_inv_part0 I HR) as HP.
  destruct (exec_freeifs F (FCoeff :: map FKnot (idx (ndim o))) HP) as [o2 [m2 [E2 [HP2 [Hc2 [H21 H22]]]]]].
  rewrite E2 in H. cbn [app exec] in H.
  set (n := ndim o) in *.
  assert (Hfreed : forall g, In g (FCoeff :: map FKnot (idx n)) <-> g = FCoeff \/ exists i, i < n /\ g = FKnot i).
  { intros g. cbn [In]. rewrite in_map_iff. split.
    - intros [<-|[i [<- Hi]]]; [auto|right; exists i; apply in_idx in Hi; auto].
    - intros [->|[i [Hi ->]]]; [auto|right; exists i; split; [reflexivity|apply in_idx; exact Hi]]. }
  match type of H with context[exec F (conv_simple n) m2 ?x] => set (o3 := x) in * end.
  assert (G3 : forall g, get o3 g = get o2 g) by reflexivity.
  assert (Hknull : forall i, get o2 (FKnot i) = Null).
  { intros i. destruct (Nat.lt_ge_cases i n) as [Hi|Hi]; [apply H21; apply Hfreed; right; exists i; auto|].
    rewrite H22 by (rewrite Hfreed; intros [E|[j [Hj E]]]; [discriminate|inversion E; lia]).
    destruct (get o (FKnot i)) eqn:Eg; try reflexivity; exfalso.
    all: assert (Hdm : In (FKnot i) (full_fields (ndim o) (naux o))) by (apply (oi_dom I); rewrite Eg; discriminate).
    all: apply in_full_fields in Hdm; rewrite in_tbl_fields, in_aux_flds in Hdm; fold n in Hdm.
    all: destruct Hdm as [Hdm|[[Hdm|[j [Hj Hdm]]]|[Hdm|[j [Hj Hdm]]]]]; try discriminate;
         [simpl in Hdm; intuition discriminate|inversion Hdm; lia|intuition discriminate]. }
  assert (HP3 : part0 Fr o3 m2).
  { apply (part0_recore o2 o3 eq_refl); [|exact HP2]. intros g id b Hg. rewrite G3 in Hg.
    rewrite (p_claims _ _ _ HP2 _ _ _ Hg).
    destruct g; try reflexivity; exfalso.
    - rewrite H21 in Hg by (apply Hfreed; auto). discriminate.
    - rewrite Hknull in Hg. discriminate. }
  assert (Hnull : forall g, In g (touched (conv_simple n)) -> get o3 g = Null).
  { intros g Hg. rewrite G3. apply in_touched_conv in Hg. destruct Hg as [->|[i [Hi ->]]]; [apply H21; apply Hfreed; auto|apply Hknull]. }
  destruct (exec_simple F (conv_simple n) (simple_conv n) (wf_conv n) Hnull HP3)
    as [o4 [m4 [r4 [p1 [p2 [E4 [Ep [Er [HP4 [Hc4 [H41 H42]]]]]]]]]]].
  rewrite E4 in H. unfold core in Hc4, Hc2. simpl in Hc4. inversion Hc2 as [[Hn2 Ho2 Hk2 Hx2 Ha2 Hl2]].
  inversion Hc4 as [[Hn4 Ho4 Hk4 Hx4 Ha4 Hl4]].
  assert (Hsub : forall g, In g (allocs p1) -> In g (allocs (conv_simple n))).
  { intros g Hg. rewrite Ep, allocs_app. apply in_or_app; left; exact Hg. }
  assert (Hold : forall g, ~ In g (allocs (conv_simple n)) -> get o4 g = get o g).
  { intros g Hg. rewrite H42 by (intros Hi; apply Hg; apply Hsub; exact Hi). rewrite G3. apply H22.
    rewrite Hfreed. rewrite in_allocs_conv in Hg. exact Hg. }
  assert (Hfull : forall g, get o4 g <> Null -> In g (full_fields (ndim o4) (naux o4))).
  { intros g Hg. rewrite Hn4, Hn2, Ha4, Ha2. destruct (in_dec field_eq_dec g (allocs p1)) as [Hi|Hi].
    - apply tbl_fields_full. apply Hsub in Hi. apply in_allocs_conv in Hi. apply in_tbl_fields.
      destruct Hi as [->|Hi]; [left; simpl; auto|right; exact Hi].
    - rewrite (H42 _ Hi), G3 in Hg. apply (oi_dom I).
      destruct (in_dec field_eq_dec g (FCoeff :: map FKnot (idx n))) as [Hj|Hj]; [rewrite (H21 _ Hj) in Hg; congruence|].
      rewrite (H22 _ Hj) in Hg. exact Hg. }
  assert (HownK : is_owned (get o4 FKnots) = true).
  { rewrite Hold by (rewrite in_allocs_conv; intros [E|[i [_ E]]]; discriminate). apply (oi_tbl I E0). simpl; auto. }
  assert (HownX : is_owned (get o4 FExtents) = true).
  { rewrite Hold by (rewrite in_allocs_conv; intros [E|[i [_ E]]]; discriminate). apply (oi_tbl I E0). simpl; auto 10. }
  destruct r4 as [why|].
  - assert (HC4 : clearable o4).
    { apply clearable_intro; [exact Hfull| |]; intros; apply owned_not_null; assumption. }
    destruct (on_failure_ok F why HP4 HC4) as [m5 [E5 HR5]]. rewrite E5 in H. inversion H; subst.
    split; [apply obj_inv_empty|split; [exact HR5|right; reflexivity]].
  - cbn [on_failure] in H. inversion H; subst o' m' r. clear H.
    rewrite (Er eq_refl), app_nil_r in Ep. subst p1.
    assert (Haux : forall g, is_aux_field g = true -> get o4 g = get o g).
    { intros g Ha. apply Hold. rewrite in_allocs_conv. intros [->|[i [_ ->]]]; discriminate. }
    destruct HP4 as [HK4 HG4 HC4 HR4]. split; [|split; [exact HR4|left; congruence]].
    constructor; auto.
    + intros g. apply no_garbage_get. exact HG4.
    + rewrite Ha4, Ha2. intros Hk. rewrite Haux by reflexivity. apply (oi_aux0 I Hk).
    + rewrite Ha4, Ha2. intros i Hi. rewrite !Haux by reflexivity. apply (oi_auxi I _ Hi).
    + rewrite Hl4, Ha4, Hl2, Ha2. apply (oi_auxlen I).
    + rewrite Hx4, Hn4, Hn2, upd_length. apply (oi_len I).
    + intros E. rewrite Hn4, Hn2 in E. contradiction.
    + intros _ g Hg. rewrite Hn4, Hn2 in Hg.
      destruct (in_dec field_eq_dec g (allocs (conv_simple n))) as [Hi|Hi]; [apply H41; exact Hi|].
      rewrite (Hold _ Hi). apply (oi_tbl I E0). exact Hg.
Qed.

(* ---------------------------------------------------------------------------------------------- *)
(** * E7. the destructor *)

Lemma destroy_ok : forall Fr F o m, obj_inv o -> rel Fr o m -> rel Fr empty_obj (destroy cfg_fixed F m o).
Proof.
  intros Fr F o m I HR. unfold destroy, destructor_prog. cbn [fx_clear cfg_fixed].
  destruct (clear_ok Fr F o m (obj_inv_part0 I HR) (obj_inv_clearable I)) as [m' [E HR']]. rewrite E. exact HR'.
Qed.

(* ---------------------------------------------------------------------------------------------- *)
(** * E8. write_key *)

(* the byte count of a key is a function of the key (same string, same strlen) *)
Definition keys_len (kl : nat -> nat) (l : list auxent) : Prop := Forall (fun a => aklen a = kl (akey a)) l.

Lemma find_key_spec : forall k l s i, find_key k l s = Some i -> s <= i /\ i - s < length l /\ akey (nth (i - s) l {| akey := 0; aklen := 0; avlen := 0 |}) = k.
Proof.
  intros k l; induction l as [|a l IH]; intros s i H; simpl in H; [discriminate|].
  destruct (Nat.eqb_spec (akey a) k) as [E|E].
  - inversion H; subst. rewrite Nat.sub_diag. simpl. repeat split; auto; lia.
  - apply IH in H. destruct H as [H1 [H2 H3]]. replace (i - s) with (S (i - S s)) by lia. simpl. repeat split; auto; lia.
Qed.

Lemma tmp_null : forall o k, obj_inv o -> get o (FTmp k) = Null.
Proof.
  intros o k I. destruct (get o (FTmp k)) eqn:E; try reflexivity; exfalso.
  all: assert (Hd : In (FTmp k) (full_fields (ndim o) (naux o))) by (apply (oi_dom I); rewrite E; discriminate).
  all: apply in_full_fields in Hd; rewrite in_tbl_fields, in_aux_flds in Hd.
  all: destruct Hd as [Hd|[[Hd|[j [Hj Hd]]]|[Hd|[j [Hj Hd]]]]]; try discriminate; [simpl in Hd; intuition discriminate|intuition discriminate].
Qed.

Lemma aux_beyond_null : forall o i, obj_inv o -> naux o <= i -> get o (FAuxE i) = Null /\ get o (FAuxK i) = Null /\ get o (FAuxV i) = Null.
Proof.
  intros o i I Hi.
  assert (A : forall g, (g = FAuxE i \/ g = FAuxK i \/ g = FAuxV i) -> get o g = Null).
  { intros g Hg. destruct (get o g) eqn:E; try reflexivity; exfalso.
    all: assert (Hd : In g (full_fields (ndim o) (naux o))) by (apply (oi_dom I); rewrite E; discriminate).
    all: apply in_full_fields in Hd; rewrite in_tbl_fields, in_aux_flds in Hd.
    all: destruct Hg as [-> | [-> | ->]].
    all: destruct Hd as [Hd|[[Hd|[j [Hj Hd]]]|[Hd|[j [Hj Hd]]]]];
         [discriminate|simpl in Hd; intuition discriminate|discriminate|discriminate
         |destruct Hd as [Hd|[Hd|Hd]]; try discriminate; inversion Hd; lia]. }
  repeat split; apply A; auto.
Qed.

Lemma get_with_auxs : forall o n l g, get (with_auxs o n l) g = get o g.
Proof. reflexivity. Qed.

(* same ownership picture, same contents: same invariant *)
Lemma obj_inv_pointwise : forall o o', obj_inv o -> keys_nodup o' -> (forall g, get o' g = get o g) -> core o' = core o -> obj_inv o'.
Proof.
  intros o o' I HK G Hc. unfold core in Hc. inversion Hc as [[Hn Ho Hk Hx Ha Hl]].
  constructor; auto.
  - intros g. rewrite G. apply (oi_ok I).
  - intros g id b Hg. rewrite G in Hg. rewrite (claim_core o' o g Hc). apply (oi_claims I _ _ _ Hg).
  - intros g Hg. rewrite G in Hg. rewrite Hn, Ha. apply (oi_dom I _ Hg).
  - rewrite Ha, G. apply (oi_aux0 I).
  - rewrite Ha. intros i Hi. rewrite !G. apply (oi_auxi I _ Hi).
  - rewrite Hl, Ha. apply (oi_auxlen I).
  - rewrite Hx, Hn. apply (oi_len I).
  - rewrite Hn. intros E g Hg. rewrite G. apply (oi_tbl0 I E _ Hg).
  - rewrite Hn. intros E g Hg. rewrite G. apply (oi_tbl I E _ Hg).
Qed.

Ltac feq := cbn [field_eqb Nat.eqb].
(* the same, but only on comparisons between two fields whose constructors are known *)
Ltac feqc :=
  repeat match goal with
  | |- context[field_eqb ?a ?b] =>
      first [ is_var b; fail 1 | is_var a; fail 1 | idtac ];
      let v := eval cbn [field_eqb Nat.eqb] in (field_eqb a b) in
      progress change (field_eqb a b) with v
  end; cbv beta iota.

(* the four local allocations of write_key (new key) *)
Lemma wk_new_prog_result : forall F o e m o1 m1 r,
  exec F (write_key_new_prog o e) m o = (o1, m1, r) ->
  (forall k, get o (FTmp k) = Null) ->
  core o1 = core o
  /\ (forall g, (forall k, g <> FTmp k) -> get o1 g = get o g)
  /\ (forall k, 4 <= k -> get o1 (FTmp k) = Null)
  /\ freeable (get o1 (FTmp 0)) (8 * S (naux o)) = true /\ freeable (get o1 (FTmp 1)) 16 = true
  /\ freeable (get o1 (FTmp 2)) (aklen e) = true /\ freeable (get o1 (FTmp 3)) (avlen e) = true
  /\ (r = None -> exists i0 i1 i2 i3, get o1 (FTmp 0) = Owned i0 (8 * S (naux o)) /\ get o1 (FTmp 1) = Owned i1 16
                                     /\ get o1 (FTmp 2) = Owned i2 (aklen e) /\ get o1 (FTmp 3) = Owned i3 (avlen e)).
Proof.
  intros F o e m o1 m1 r H Ht. unfold write_key_new_prog in H. cbn [exec] in H.
  assert (NE : forall g k, (forall k, g <> FTmp k) -> field_eqb (FTmp k) g = false).
  { intros g k Hg. apply field_eqb_neq. intros E. apply (Hg k). symmetry; exact E. }
  assert (NK : forall j k, 4 <= k -> j < 4 -> field_eqb (FTmp j) (FTmp k) = false).
  { intros j k H1 H2. apply field_eqb_neq. intros E. inversion E. lia. }
  destruct (m_alloc F m (8 * S (naux o))) as [[i0|] ma] eqn:E0.
  2:{ inversion H; subst. rewrite !Ht. simpl. repeat split; auto; discriminate. }
  destruct (m_alloc F _ 16) as [[i1|] mb] eqn:E1.
  2:{ inversion H; subst. rewrite !get_set. feq. rewrite !Ht. simpl. rewrite Nat.eqb_refl.
      repeat split; auto; try discriminate; intros; rewrite !get_set; rewrite ?NE, ?NK by (auto; lia); auto. }
  destruct (m_alloc F _ (aklen e)) as [[i2|] mc] eqn:E2.
  2:{ inversion H; subst. rewrite !get_set. feq. rewrite !Ht. simpl. rewrite !Nat.eqb_refl.
      repeat split; auto; try discriminate; intros; rewrite !get_set; rewrite ?NE, ?NK by (auto; lia); auto. }
  destruct (m_alloc F _ (avlen e)) as [[i3|] md] eqn:E3.
  2:{ inversion H; subst. rewrite !get_set. feq. rewrite !Ht. simpl. rewrite !Nat.eqb_refl.
      repeat split; auto; try discriminate; intros; rewrite !get_set; rewrite ?NE, ?NK by (auto; lia); auto. }
  inversion H; subst. rewrite !get_set. feq. simpl. rewrite !Nat.eqb_refl.
  repeat split; auto; try (intros; rewrite !get_set; rewrite ?NE, ?NK by (auto; lia); auto; fail).
  intros _. exists i0, i1, i2, i3. auto.
Qed.

Lemma run_ok_wk_new_prog : forall o e, (forall k, get o (FTmp k) = Null) -> run_ok (write_key_new_prog o e) o.
Proof.
  intros o e Ht. unfold write_key_new_prog. cbn [run_ok].
  repeat (split; [rewrite ?get_set; feq; rewrite Ht; reflexivity|intros ?]). exact I.
Qed.

Lemma after_free_unowned : forall s, is_owned (after_free s) = false.
Proof. destruct s; reflexivity. Qed.

Lemma wk_cleanup : forall Fr F o e o1 m1 o2 m2 r,
  rel Fr o1 m1 -> keys_nodup o1 ->
  freeable (get o1 (FTmp 0)) (8 * S (naux o)) = true -> freeable (get o1 (FTmp 1)) 16 = true ->
  freeable (get o1 (FTmp 2)) (aklen e) = true -> freeable (get o1 (FTmp 3)) (avlen e) = true ->
  exec F (write_key_new_cleanup o e) m1 o1 = (o2, m2, r) ->
  rel Fr o2 m2 /\ keys_nodup o2 /\ core o2 = core o1
  /\ (forall g, (forall k, g <> FTmp k) -> get o2 g = get o1 g)
  /\ (forall k, k < 4 -> get o2 (FTmp k) = Null) /\ (forall k, 4 <= k -> get o2 (FTmp k) = get o1 (FTmp k)).
Proof.
  intros Fr F o e o1 m1 o2 m2 r HR HK H0 H1 H2 H3 H.
  assert (Hrun : run_ok (write_key_new_cleanup o e) o1).
  { unfold write_key_new_cleanup. cbn [run_ok]. rewrite !get_set. feq. rewrite !after_free_unowned. repeat split; auto. }
  destruct (exec_run_ok Fr F _ _ _ _ _ _ HR HK Hrun H) as [HR2 HK2]. split; [exact HR2|]. split; [exact HK2|].
  unfold write_key_new_cleanup in H. cbn [exec] in H. inversion H; subst o2 m2 r. clear H.
  split; [reflexivity|]. split; [|split].
  - intros g Hg. rewrite !get_set. rewrite !(field_eqb_neq (FTmp _) g) by (intros E; eapply Hg; symmetry; exact E). reflexivity.
  - intros k Hk. rewrite !get_set. destruct k as [|[|[|[|k]]]]; try lia; feq; reflexivity.
  - intros k Hk. rewrite !get_set. rewrite !(field_eqb_neq (FTmp _) (FTmp k)) by (intros E; inversion E; lia). reflexivity.
Qed.

Lemma nth_app_last : forall {A} (l : list A) e d, nth (length l) (l ++ [e]) d = e.
Proof. intros A l e d. rewrite app_nth2 by lia. rewrite Nat.sub_diag. reflexivity. Qed.

Lemma aux_flds_mono : forall g k, In g (aux_flds k) -> In g (aux_flds (S k)).
Proof. intros g k H. apply in_aux_flds in H. apply in_aux_flds. destruct H as [H|[i [Hi H]]]; [auto|right; exists i; split; [lia|exact H]]. Qed.

Lemma write_key_ok : forall kl Fr F o m inv e o' m' r,
  obj_inv o -> keys_len kl (auxs o) -> rel Fr o m -> (inv = false -> aklen e = kl (akey e)) ->
  step_write_key F m o inv e = (o', m', r) -> obj_inv o' /\ rel Fr o' m' /\ keys_len kl (auxs o').
Proof.
  intros kl Fr F o m inv e o' m' r I HL HR Hkl H. unfold step_write_key in H.
  destruct inv; [inversion H; subst; auto|]. specialize (Hkl eq_refl).
  pose proof (fun k => tmp_null o k I) as Ht.
  destruct (find_key (akey e) (auxs o) 0) as [i|] eqn:Ef.
  - (* the key exists: its value is replaced *)
    apply find_key_spec in Ef. rewrite Nat.sub_0_r in Ef. destruct Ef as [_ [Hi Hkey]]. rewrite (oi_auxlen I) in Hi.
    cbn [exec] in H. destruct (m_alloc F m (avlen e)) as [[id|] m1] eqn:EA.
    2:{ inversion H; subst. split; [exact I|]. split; [eapply rel_alloc_none; eauto|exact HL]. }
    unfold write_key_upd_prog in H. cbn [tl] in H.
    destruct (oi_auxi I _ Hi) as [_ [_ HV]]. destruct (get o (FAuxV i)) as [| |idv bv|] eqn:EV; try discriminate. clear HV.
    pose proof (oi_claims I _ _ _ EV) as Hbv.
    assert (Hrun : run_ok (write_key_upd_prog o i e) o).
    { unfold write_key_upd_prog. cbn [run_ok]. rewrite Ht. split; [reflexivity|]. intros id'.
      rewrite !get_set. feq. rewrite EV. cbn [after_free freeable is_owned].
      change (claim (set o (FTmp 0) (Owned id' (avlen e))) (FAuxV i)) with (claim o (FAuxV i)).
      rewrite <- Hbv, Nat.eqb_refl. rewrite ?field_eqb_refl, ?Nat.eqb_refl. repeat split; auto. }
    assert (Hall : exec F (write_key_upd_prog o i e) m o = (o', m', r)).
    { unfold write_key_upd_prog. cbn [exec]. rewrite EA. exact H. }
    destruct (exec_run_ok Fr F _ _ _ _ _ _ HR (oi_keys I) Hrun Hall) as [HR' HK'].
    cbn [exec] in H. inversion H; subst o' m' r. clear H Hall Hrun.
    match goal with |- obj_inv ?x /\ _ => set (o5 := x) in * end.
    assert (G : forall g, get o5 g = if field_eqb (FAuxV i) g then Owned id (avlen e) else get o g).
    { intros g. unfold o5. rewrite get_with_auxs. rewrite !get_set. feqc. rewrite ?field_eqb_refl, ?Nat.eqb_refl. cbv beta iota.
      destruct (field_eqb (FTmp 0) g) eqn:A; destruct (field_eqb (FAuxV i) g) eqn:B; try reflexivity.
      - apply field_eqb_eq in A, B. congruence.
      - apply field_eqb_eq in A. subst g. symmetry. apply Ht. }
    assert (Hnth : forall j d, j <> i -> nth j (set_nth (auxs o) i e) d = nth j (auxs o) d) by (intros; apply nth_set_nth_other; auto).
    assert (Hnthi : forall d, nth i (set_nth (auxs o) i e) d = e) by (intros; apply nth_set_nth_same; rewrite (oi_auxlen I); exact Hi).
    split; [|split; [exact HR'|]].
    + constructor; auto.
      * intros g. rewrite G. destruct (field_eqb (FAuxV i) g); [reflexivity|apply (oi_ok I)].
      * intros g id' b Hg. rewrite G in Hg. destruct (field_eqb (FAuxV i) g) eqn:B.
        -- apply field_eqb_eq in B. subst g. inversion Hg; subst. unfold claim, aux_at, o5. cbn [auxs with_auxs]. rewrite Hnthi. reflexivity.
        -- rewrite (oi_claims I _ _ _ Hg). destruct g; try reflexivity; unfold claim, aux_at, o5; cbn [auxs with_auxs].
           ++ destruct (Nat.eq_dec i0 i) as [->|Hne]; [|rewrite Hnth by exact Hne; reflexivity].
              rewrite Hnthi. rewrite Hkl. rewrite <- Hkey.
              unfold keys_len in HL. rewrite Forall_forall in HL. apply HL. apply nth_In. rewrite (oi_auxlen I). exact Hi.
           ++ destruct (Nat.eq_dec i0 i) as [->|Hne]; [rewrite field_eqb_refl in B; discriminate|rewrite Hnth by exact Hne; reflexivity].
      * intros g Hg. rewrite G in Hg. change (ndim o5) with (ndim o). change (naux o5) with (naux o).
        destruct (field_eqb (FAuxV i) g) eqn:B; [|apply (oi_dom I _ Hg)].
        apply field_eqb_eq in B. subst g. apply aux_flds_full. apply in_aux_flds. right. exists i. auto.
      * change (naux o5) with (naux o). intros Hk. rewrite G. feq. apply (oi_aux0 I Hk).
      * change (naux o5) with (naux o). intros j Hj. rewrite !G. feq. destruct (oi_auxi I _ Hj) as [A1 [A2 A3]].
        repeat split; auto. destruct (Nat.eqb i j); [reflexivity|exact A3].
      * unfold o5. cbn [auxs naux with_auxs]. rewrite length_set_nth. apply (oi_auxlen I).
      * apply (oi_len I).
      * change (ndim o5) with (ndim o). intros E g Hg. rewrite G. destruct (field_eqb (FAuxV i) g) eqn:B; [|apply (oi_tbl0 I E _ Hg)].
        apply field_eqb_eq in B. subst g. discriminate.
      * change (ndim o5) with (ndim o). intros E g Hg. rewrite G. destruct (field_eqb (FAuxV i) g); [reflexivity|apply (oi_tbl I E _ Hg)].
    + unfold o5. cbn [auxs with_auxs]. unfold keys_len in *. rewrite Forall_forall in *. intros a Ha.
      destruct (In_nth _ _ e Ha) as [j [Hj Hnj]]. rewrite length_set_nth in Hj.
      destruct (Nat.eq_dec j i) as [->|Hne]; [rewrite Hnthi in Hnj; subst a; exact Hkl|].
      rewrite Hnth in Hnj by exact Hne. subst a. apply HL. apply nth_In. exact Hj.
  - (* a new key *)
    destruct (exec F (write_key_new_prog o e) m o) as [[o1 m1] r1] eqn:E1.
    destruct (wk_new_prog_result _ _ _ _ _ _ _ E1 Ht) as [Hc1 [Hsame1 [Hhi1 [F0 [F1 [F2 [F3 Hsucc]]]]]]].
    destruct (exec_run_ok Fr F _ _ _ _ _ _ HR (oi_keys I) (run_ok_wk_new_prog o e Ht) E1) as [HR1 HK1].
    destruct r1 as [why|].
    + (* one of the four allocations failed: the locals are released *)
      destruct (exec F (write_key_new_cleanup o e) m1 o1) as [[o2 m2] r2] eqn:E2. inversion H; subst o' m' r. clear H.
      destruct (wk_cleanup Fr F o e _ _ _ _ _ HR1 HK1 F0 F1 F2 F3 E2) as [HR2 [HK2 [Hc2 [Hsame2 [Hlo2 Hhi2]]]]].
      assert (G : forall g, get o2 g = get o g).
      { intros g. destruct g; try (rewrite Hsame2, Hsame1 by (intros; discriminate); reflexivity).
        rewrite Ht. destruct (Nat.lt_ge_cases k 4) as [Hk|Hk]; [apply Hlo2; exact Hk|]. rewrite Hhi2 by exact Hk. apply Hhi1; exact Hk. }
      assert (Hc : core o2 = core o) by (rewrite Hc2; exact Hc1).
      split; [eapply obj_inv_pointwise; eauto|]. split; [exact HR2|].
      unfold core in Hc. inversion Hc as [[Q1 Q2 Q3 Q4 Q5 Hl]]. rewrite Hl. exact HL.
    + (* all four succeeded: commit *)
      destruct (Hsucc eq_refl) as [i0 [i1 [i2 [i3 [T0 [T1 [T2 T3]]]]]]]. clear Hsucc F0 F1 F2 F3.
      set (n := naux o) in *.
      destruct (aux_beyond_null o n I (le_n _)) as [NE [NK NV]].
      assert (HA : freeable (get o FAux) (claim o FAux) = true).
      { pose proof (oi_ok I FAux) as Hok. destruct (get o FAux) as [| |ida ba|] eqn:EA; try discriminate; [reflexivity|].
        simpl. rewrite (oi_claims I _ _ _ EA). apply Nat.eqb_refl. }
      assert (Hrun : run_ok (write_key_new_commit o e) o1).
      { unfold write_key_new_commit. fold n. cbn [run_ok]. rewrite !get_set. feq. rewrite ?field_eqb_refl, ?Nat.eqb_refl.
        rewrite (claim_core o1 o FAux Hc1). rewrite !Hsame1 by (intros; discriminate). rewrite NE, NK, NV.
        rewrite after_free_unowned. repeat split; auto. }
      destruct (exec_run_ok Fr F _ _ _ _ _ _ HR1 HK1 Hrun H) as [HR' HK'].
      unfold write_key_new_commit in H. fold n in H. cbn [exec] in H. inversion H; subst o' m' r. clear H Hrun.
      match goal with |- obj_inv ?x /\ _ => set (o5 := x) in * end.
      assert (GA : get o5 FAux = Owned i0 (8 * S n)) by (unfold o5; rewrite get_with_auxs, !get_set; feq; rewrite ?field_eqb_refl; exact T0).
      assert (GE : get o5 (FAuxE n) = Owned i1 16) by (unfold o5; rewrite get_with_auxs, !get_set; feq; rewrite ?Nat.eqb_refl; exact T1).
      assert (GK : get o5 (FAuxK n) = Owned i2 (aklen e)) by (unfold o5; rewrite get_with_auxs, !get_set; feq; rewrite ?Nat.eqb_refl; exact T2).
      assert (GV : get o5 (FAuxV n) = Owned i3 (avlen e)) by (unfold o5; rewrite get_with_auxs, !get_set; feq; rewrite ?Nat.eqb_refl; exact T3).
      assert (GT : forall k, get o5 (FTmp k) = Null).
      { intros k. unfold o5. rewrite get_with_auxs, !get_set. feq.
        destruct k as [|[|[|[|k]]]]; feq; try reflexivity. rewrite Hhi1 by lia. reflexivity. }
      assert (GO : forall g, g <> FAux -> g <> FAuxE n -> g <> FAuxK n -> g <> FAuxV n -> (forall k, g <> FTmp k) -> get o5 g = get o g).
      { intros g N1 N2 N3 N4 N5. unfold o5. rewrite get_with_auxs, !get_set.
        rewrite !(field_eqb_neq _ g) by (intros E; subst g; first [apply N1; reflexivity|apply N2; reflexivity|apply N3; reflexivity|apply N4; reflexivity|eapply N5; reflexivity]).
        apply Hsame1. exact N5. }
      assert (Hcases : forall g, g = FAux \/ g = FAuxE n \/ g = FAuxK n \/ g = FAuxV n \/ (exists k, g = FTmp k)
                                 \/ (g <> FAux /\ g <> FAuxE n /\ g <> FAuxK n /\ g <> FAuxV n /\ forall k, g <> FTmp k)).
      { intros g. destruct (field_eq_dec g FAux); [auto|]. destruct (field_eq_dec g (FAuxE n)); [auto|].
        destruct (field_eq_dec g (FAuxK n)); [auto|]. destruct (field_eq_dec g (FAuxV n)); [auto 6|].
        destruct g; try (right; right; right; right; right; repeat split; auto; intros; discriminate).
        right; right; right; right; left. eauto. }
      assert (Hlen : length (auxs o) = n) by apply (oi_auxlen I).
      assert (Hc56 : core o5 = core (with_auxs o (S n) (auxs o ++ [e]))).
      { unfold core in *. inversion Hc1 as [[Q1 Q2 Q3 Q4 Q5 Q6]]. unfold o5. cbn [ndim orders nknots naxes naux auxs with_auxs set]. congruence. }
      split; [|split; [exact HR'|]].
      * constructor; auto.
        -- intros g. destruct (Hcases g) as [->|[->|[->|[->|[[k ->]|[N1 [N2 [N3 [N4 N5]]]]]]]]];
             rewrite ?GA, ?GE, ?GK, ?GV, ?GT; try reflexivity. rewrite GO by assumption. apply (oi_ok I).
        -- intros g id' b Hg. destruct (Hcases g) as [->|[->|[->|[->|[[k ->]|[N1 [N2 [N3 [N4 N5]]]]]]]]].
           ++ rewrite GA in Hg. inversion Hg. reflexivity.
           ++ rewrite GE in Hg. inversion Hg. reflexivity.
           ++ rewrite GK in Hg. inversion Hg. unfold claim, aux_at, o5. cbn [auxs with_auxs]. rewrite <- Hlen, nth_app_last. reflexivity.
           ++ rewrite GV in Hg. inversion Hg. unfold claim, aux_at, o5. cbn [auxs with_auxs]. rewrite <- Hlen, nth_app_last. reflexivity.
           ++ rewrite GT in Hg. discriminate.
           ++ rewrite GO in Hg by assumption. rewrite (oi_claims I _ _ _ Hg).
              rewrite (claim_core o5 _ g Hc56).
              destruct g as [ | | | | | | | | |i| |i|i|i|i]; try reflexivity; try congruence; unfold claim, aux_at; cbn [auxs with_auxs].
              ** assert (i < n). { destruct (Nat.lt_ge_cases i n) as [Hl|Hl]; [exact Hl|]. destruct (aux_beyond_null o i I Hl) as [_ [A _]]. rewrite A in Hg; discriminate. }
                 rewrite app_nth1 by lia. reflexivity.
              ** assert (i < n). { destruct (Nat.lt_ge_cases i n) as [Hl|Hl]; [exact Hl|]. destruct (aux_beyond_null o i I Hl) as [_ [_ A]]. rewrite A in Hg; discriminate. }
                 rewrite app_nth1 by lia. reflexivity.
        -- intros g Hg. change (ndim o5) with (ndim o1). change (naux o5) with (S n).
           unfold core in Hc1. inversion Hc1 as [[Hn1 Q2 Q3 Q4 Q5 Q6]]. rewrite Hn1.
           destruct (Hcases g) as [->|[->|[->|[->|[[k ->]|[N1 [N2 [N3 [N4 N5]]]]]]]]].
           ++ apply aux_flds_full. apply in_aux_flds. auto.
           ++ apply aux_flds_full. apply in_aux_flds. right. exists n. auto.
           ++ apply aux_flds_full. apply in_aux_flds. right. exists n. auto.
           ++ apply aux_flds_full. apply in_aux_flds. right. exists n. auto.
           ++ rewrite GT in Hg. congruence.
           ++ rewrite GO in Hg by assumption. pose proof (oi_dom I _ Hg) as Hd. apply in_full_fields in Hd. apply in_full_fields.
              destruct Hd as [Hd|[Hd|Hd]]; auto. right; right. apply aux_flds_mono. exact Hd.
        -- intros _. rewrite GA. reflexivity.
        -- change (naux o5) with (S n). intros j Hj. destruct (Nat.eq_dec j n) as [->|Hne]; [rewrite GE, GK, GV; auto|].
           assert (Hjn : j < n) by lia. rewrite !GO by (try discriminate; try (intros E; inversion E; lia); intros; discriminate).
           apply (oi_auxi I _ Hjn).
        -- unfold o5. cbn [auxs naux with_auxs]. rewrite app_length. simpl. lia.
        -- change (naxes o5) with (naxes o1). change (ndim o5) with (ndim o1). unfold core in Hc1. inversion Hc1 as [[Hn1 Q2 Q3 Hx1 Q5 Q6]].
           rewrite Hn1, Hx1. apply (oi_len I).
        -- change (ndim o5) with (ndim o1). unfold core in Hc1. inversion Hc1 as [[Hn1 Q2 Q3 Q4 Q5 Q6]]. rewrite Hn1. intros E g Hg.
           destruct (Hcases g) as [->|[->|[->|[->|[[k ->]|[N1 [N2 [N3 [N4 N5]]]]]]]]]; try discriminate; [apply GT|].
           rewrite GO by assumption. apply (oi_tbl0 I E _ Hg).
        -- change (ndim o5) with (ndim o1). unfold core in Hc1. inversion Hc1 as [[Hn1 Q2 Q3 Q4 Q5 Q6]]. rewrite Hn1. intros E g Hg.
           pose proof (tbl_fields_not_aux _ _ Hg) as Hna.
           destruct (Hcases g) as [->|[->|[->|[->|[[k ->]|[N1 [N2 [N3 [N4 N5]]]]]]]]]; try discriminate.
           ++ exfalso. apply in_tbl_fields in Hg. destruct Hg as [Hg|[j [_ Hg]]]; [simpl in Hg; intuition discriminate|discriminate].
           ++ rewrite GO by assumption. apply (oi_tbl I E _ Hg).
      * unfold o5. cbn [auxs with_auxs]. unfold keys_len. apply Forall_app. split; [exact HL|]. constructor; [exact Hkl|constructor].
Qed.

(* ---------------------------------------------------------------------------------------------- *)
(** * E8b. remove_key (tree with C20_10) *)

Lemma nth_remove_nth : forall {A} (l : list A) i j d, nth j (remove_nth i l) d = nth (if j <? i then j else S j) l d.
Proof.
  induction l as [|a l IH]; intros i j d.
  - assert (E : forall (x : nat), nth x (@nil A) d = d) by (intros [|x]; reflexivity).
    destruct i; cbn [remove_nth]; rewrite !E; reflexivity.
  - destruct i as [|i]; [reflexivity|]. destruct j as [|j]; [reflexivity|].
    cbn [remove_nth nth]. rewrite IH. change (S j <? S i) with (j <? i). destruct (j <? i); reflexivity.
Qed.

Lemma length_remove_nth : forall {A} (l : list A) i, i < length l -> length (remove_nth i l) = length l - 1.
Proof.
  induction l as [|a l IH]; intros i H; simpl in *; [lia|].
  destruct i as [|i]; simpl; [lia|]. rewrite IH by lia. lia.
Qed.

Lemma Forall_remove_nth : forall {A} (P : A -> Prop) (l : list A) i, Forall P l -> Forall P (remove_nth i l).
Proof.
  induction l as [|a l IH]; intros i H; [destruct i; exact H|].
  inversion H; subst. destruct i as [|i]; simpl; [assumption|constructor; auto].
Qed.

(* where entry j of the new table comes from *)
Definition drop_src (i : nat) (g : field) : field :=
  match g with
  | FAuxE j => FAuxE (if j <? i then j else S j)
  | FAuxK j => FAuxK (if j <? i then j else S j)
  | FAuxV j => FAuxV (if j <? i then j else S j)
  | _ => g
  end.

Ltac ltb_cases :=
  repeat match goal with
  | |- context[?a <? ?b] => destruct (Nat.ltb_spec a b)
  | |- context[?a =? ?b] => destruct (Nat.eqb_spec a b)
  | H : context[?a <? ?b] |- _ => destruct (Nat.ltb_spec a b)
  | H : context[?a =? ?b] |- _ => destruct (Nat.eqb_spec a b)
  end.

Lemma drop_src_not_entry : forall i g, is_entry i (drop_src i g) = false.
Proof. intros i g. destruct g; simpl; try reflexivity; ltb_cases; lia. Qed.

Lemma drop_src_dst : forall i h, is_entry i h = false -> drop_src i (drop_dst i h) = h.
Proof.
  intros i h H. destruct h; simpl in *; try reflexivity; apply Nat.eqb_neq in H; unfold drop_idx; f_equal; ltb_cases; lia.
Qed.

Lemma drop_dst_src : forall i g, drop_dst i (drop_src i g) = g.
Proof. intros i g. destruct g; simpl; try reflexivity; unfold drop_idx; f_equal; ltb_cases; lia. Qed.

Lemma drop_src_inj : forall i g1 g2, drop_src i g1 = drop_src i g2 -> g1 = g2.
Proof. intros i g1 g2 H. rewrite <- (drop_dst_src i g1), <- (drop_dst_src i g2), H. reflexivity. Qed.

Lemma drop_eqb : forall i h g, is_entry i h = false -> field_eqb (drop_dst i h) g = field_eqb h (drop_src i g).
Proof.
  intros i h g H. destruct (field_eqb (drop_dst i h) g) eqn:E.
  - apply field_eqb_eq in E. subst g. rewrite (drop_src_dst i h H), field_eqb_refl. reflexivity.
  - destruct (field_eqb h (drop_src i g)) eqn:E2; [|reflexivity].
    apply field_eqb_eq in E2. subst h. rewrite drop_dst_src, field_eqb_refl in E. discriminate.
Qed.

Lemma get_aux_drop : forall o i g, get (aux_drop o i) g = get o (drop_src i g).
Proof.
  intros o i g. unfold get, aux_drop. cbn [slots].
  induction (slots o) as [|[h s] l IH]; [reflexivity|]. cbn [filter fst snd].
  destruct (is_entry i h) eqn:Eh; cbn [negb map get_slot fst snd].
  - rewrite IH. destruct (field_eqb h (drop_src i g)) eqn:E; [|reflexivity].
    apply field_eqb_eq in E. subst h. rewrite drop_src_not_entry in Eh. discriminate.
  - rewrite (drop_eqb i h g Eh), IH. reflexivity.
Qed.

Lemma keys_nodup_aux_drop : forall o i, keys_nodup o -> keys_nodup (aux_drop o i).
Proof.
  intros o i H. unfold keys_nodup, aux_drop in *. cbn [slots].
  induction (slots o) as [|[h s] l IH]; [constructor|]. cbn [filter fst snd map] in *.
  inversion H as [|x l' Hnot ND]; subst.
  destruct (is_entry i h) eqn:Eh; cbn [negb map fst]; [apply IH; exact ND|].
  constructor; [|apply IH; exact ND].
  intros Hin. apply Hnot. rewrite map_map in Hin. apply in_map_iff in Hin. destruct Hin as [[h' s'] [E Hin]].
  apply filter_In in Hin. destruct Hin as [Hin Hne]. cbn [fst snd] in *. apply negb_true_iff in Hne.
  assert (h' = h). { rewrite <- (drop_src_dst i h' Hne), <- (drop_src_dst i h Eh), E. reflexivity. }
  subst h'. change h with (fst (h, s')). apply in_map; exact Hin.
Qed.

Lemma rel_reindex_owned : forall Fr o o' m (src : field -> field),
  (forall g, get o' g = get o (src g)) -> (forall g1 g2, src g1 = src g2 -> g1 = g2) ->
  (forall g, is_owned (get o g) = true -> exists g', src g' = g) ->
  rel Fr o m -> rel Fr o' m.
Proof.
  intros Fr o o' m src G Hinj Hsur [Hm Hs Hi Hf Hc]. constructor; auto.
  - intros f id b H. rewrite G in H. eauto.
  - intros f g id b b' H1 H2. rewrite G in H1, H2. apply Hinj. eapply Hi; eauto.
  - intros id b H. destruct (Hf _ _ H) as [H1 H2]. split; [exact H1|]. intros f b'. rewrite G. apply H2.
  - intros id b H. destruct (Hc _ _ H) as [H1|[f H1]]; [left; exact H1|]. right.
    destruct (Hsur f) as [g' E]; [rewrite H1; reflexivity|]. exists g'. rewrite G, E. exact H1.
Qed.

Lemma claim_set : forall o f s g, claim (set o f s) g = claim o g.
Proof. reflexivity. Qed.

Lemma drop_src_nonaux : forall i g, is_aux_field g = false -> drop_src i g = g.
Proof. intros i g H. destruct g; try discriminate; reflexivity. Qed.

Lemma remove_key_ok : forall kl Fr F o m k o' m' r,
  obj_inv o -> keys_len kl (auxs o) -> rel Fr o m ->
  step_remove_key cfg_fixed F m o k = (o', m', r) -> obj_inv o' /\ rel Fr o' m' /\ keys_len kl (auxs o').
Proof.
  intros kl Fr F o m k o' m' r I HL HR H. unfold step_remove_key in H.
  destruct (find_key k (auxs o) 0) as [i|] eqn:Ef; [|inversion H; subst; auto].
  apply find_key_spec in Ef. rewrite Nat.sub_0_r in Ef. destruct Ef as [_ [Hi _]]. rewrite (oi_auxlen I) in Hi.
  pose proof (fun t => tmp_null o t I) as Ht.
  set (n := naux o) in *.
  cbn [fx_rmkey cfg_fixed] in H.
  (* the whole call as one straight-line program *)
  set (p := AAllocB (FTmp 0) (8 * (n - 1)) :: remove_key_fixed_tail i).
  destruct (oi_auxi I _ Hi) as [HE [HK HV]].
  destruct (get o (FAuxE i)) as [| |ide be|] eqn:EE; try discriminate. clear HE.
  destruct (get o (FAuxK i)) as [| |idk bk|] eqn:EK; try discriminate. clear HK.
  destruct (get o (FAuxV i)) as [| |idv bv|] eqn:EV; try discriminate. clear HV.
  assert (Hn0 : n <> 0) by lia.
  pose proof (oi_aux0 I Hn0) as HA. destruct (get o FAux) as [| |ida ba|] eqn:EA; try discriminate. clear HA.
  pose proof (oi_claims I _ _ _ EE) as CE. pose proof (oi_claims I _ _ _ EK) as CK.
  pose proof (oi_claims I _ _ _ EV) as CV. pose proof (oi_claims I _ _ _ EA) as CA.
  assert (Hrun : run_ok p o).
  { unfold p, remove_key_fixed_tail, remove_key_release, remove_key_forget. cbn [run_ok app]. rewrite Ht. split; [reflexivity|]. intros id'.
    rewrite !claim_set. rewrite !get_set. feq. rewrite ?Nat.eqb_refl. cbv beta iota.
    rewrite EE, EK, EV, EA. cbn [after_free freeable is_owned].
    rewrite <- CE, <- CK, <- CV, <- CA, !Nat.eqb_refl. repeat split; auto. }
  cbn [exec] in H. destruct (m_alloc F m (8 * (n - 1))) as [[id|] m1] eqn:EM.
  2:{ inversion H; subst. split; [exact I|]. split; [eapply rel_alloc_none; eauto|exact HL]. }
  destruct (exec F (remove_key_fixed_tail i) (m_lose m1 (get o (FTmp 0))) (set o (FTmp 0) (Owned id (8 * (n - 1))))) as [[o2 m2] r2] eqn:E2.
  assert (Hall : exec F p m o = (o2, m2, r2)) by (unfold p; cbn [exec]; rewrite EM; exact E2).
  destruct (exec_run_ok Fr F _ _ _ _ _ _ HR (oi_keys I) Hrun Hall) as [HR2 HK2].
  (* the state in which the new table is installed *)
  assert (G2 : forall g, get o2 g = if field_eqb FAux g then Owned id (8 * (n - 1))
                                    else if is_entry i g || field_eqb (FTmp 0) g then Null else get o g).
  { unfold remove_key_fixed_tail, remove_key_release, remove_key_forget in E2. cbn [exec app] in E2.
    inversion E2 as [[Eo Em Er]]. clear E2 Hall Em Er. intros g. rewrite !get_set. feq. rewrite ?Nat.eqb_refl. cbv beta iota.
    destruct g; cbn [field_eqb is_entry orb]; try reflexivity.
    - destruct (Nat.eqb_spec i i0) as [->|Hne]; [rewrite Nat.eqb_refl; reflexivity|].
      destruct (Nat.eqb_spec i0 i); [congruence|reflexivity].
    - destruct (Nat.eqb_spec i i0) as [->|Hne]; [rewrite Nat.eqb_refl; reflexivity|].
      destruct (Nat.eqb_spec i0 i); [congruence|reflexivity].
    - destruct (Nat.eqb_spec i i0) as [->|Hne]; [rewrite Nat.eqb_refl; reflexivity|].
      destruct (Nat.eqb_spec i0 i); [congruence|reflexivity].
    - destruct k0; reflexivity. }
  assert (Hc2 : core o2 = core o).
  { unfold remove_key_fixed_tail, remove_key_release, remove_key_forget in E2. cbn [exec app] in E2. inversion E2. reflexivity. }
  assert (Hr2 : r2 = None).
  { pose proof (exec_nothrow F (remove_key_fixed_tail i) (m_lose m1 (get o (FTmp 0))) (set o (FTmp 0) (Owned id (8 * (n - 1)))) eq_refl) as En.
    rewrite E2 in En. exact En. }
  assert (Hlose : lose_entry m2 o2 i = m2).
  { unfold lose_entry. rewrite !G2. cbn [field_eqb is_entry orb]. rewrite Nat.eqb_refl. reflexivity. }
  rewrite Hlose in H. inversion H; subst o' m' r. clear H Hlose.
  set (o5 := aux_drop o2 i) in *.
  assert (G : forall g, get o5 g = get o2 (drop_src i g)) by (intros g; apply get_aux_drop).
  unfold core in Hc2. inversion Hc2 as [[Q1 Q2 Q3 Q4 Q5 Q6]].
  assert (N5 : naux o5 = n - 1) by (unfold o5, aux_drop; cbn [naux]; rewrite Q5; reflexivity).
  assert (A5 : auxs o5 = remove_nth i (auxs o)) by (unfold o5, aux_drop; cbn [auxs]; rewrite Q6; reflexivity).
  assert (D5 : ndim o5 = ndim o) by exact Q1.
  (* a field of the new object that holds something: where it comes from in the old one *)
  assert (Hfrom : forall g, get o5 g <> Null -> g = FAux \/ (g <> FAux /\ is_entry i (drop_src i g) = false /\ get o5 g = get o (drop_src i g))).
  { intros g Hg. rewrite G, G2 in *. destruct (field_eqb FAux (drop_src i g)) eqn:B.
    - left. apply field_eqb_eq in B. destruct g; try discriminate; reflexivity.
    - right. split; [intros ->; discriminate|]. split; [apply drop_src_not_entry|].
      rewrite drop_src_not_entry in *. cbn [orb] in *. destruct (field_eqb (FTmp 0) (drop_src i g)); [congruence|reflexivity]. }
  assert (GA : get o5 FAux = Owned id (8 * (n - 1))) by (rewrite G, G2; reflexivity).
  assert (Hidx : forall j, j < n - 1 -> (if j <? i then j else S j) < n /\ (if j <? i then j else S j) <> i) by (intros j Hj; ltb_cases; lia).
  assert (Gent : forall j g0, j < n - 1 -> (g0 = FAuxE \/ g0 = FAuxK \/ g0 = FAuxV) -> get o5 (g0 j) = get o (g0 (if j <? i then j else S j))).
  { intros j g0 Hj Hg0. destruct (Hidx j Hj) as [_ Hne]. rewrite G, G2.
    destruct Hg0 as [-> | [-> | ->]]; cbn [drop_src field_eqb is_entry orb];
      (destruct (Nat.eqb_spec (if j <? i then j else S j) i); [contradiction|reflexivity]). }
  split; [|split].
  - constructor.
    + apply keys_nodup_aux_drop. exact HK2.
    + intros g. rewrite G, G2. destruct (field_eqb FAux (drop_src i g)); [reflexivity|].
      destruct (is_entry i (drop_src i g) || field_eqb (FTmp 0) (drop_src i g)); [reflexivity|apply (oi_ok I)].
    + intros g id' b Hg. destruct (Hfrom g) as [->|[Hne [_ E]]]; [rewrite Hg; discriminate| |].
      * rewrite GA in Hg. inversion Hg. unfold claim. rewrite N5. reflexivity.
      * rewrite E in Hg. rewrite (oi_claims I _ _ _ Hg).
        destruct g; try reflexivity; try (exfalso; apply Hne; reflexivity); cbn [drop_src claim]; unfold aux_at; rewrite ?A5, ?nth_remove_nth;
          try reflexivity; unfold o5, aux_drop; cbn [ndim orders nknots naxes]; rewrite ?Q1, ?Q2, ?Q3, ?Q4; reflexivity.
    + intros g Hg. rewrite D5, N5. destruct (Hfrom g Hg) as [->|[Hne [_ E]]].
      * apply aux_flds_full. apply in_aux_flds. auto.
      * rewrite E in Hg. pose proof (oi_dom I _ Hg) as Hd. fold n in Hd.
        apply in_full_fields in Hd. apply in_full_fields.
        destruct Hd as [Hd|[Hd|Hd]].
        -- left. destruct g; try discriminate; reflexivity.
        -- right; left. pose proof (tbl_fields_not_aux _ _ Hd) as Hna. destruct g; try discriminate; exact Hd.
        -- right; right. apply in_aux_flds in Hd. apply in_aux_flds. destruct Hd as [Hd|[j [Hj Hd]]].
           ++ destruct g; try discriminate. left; reflexivity.
           ++ right. destruct g; cbn [drop_src] in Hd; try (destruct Hd as [Hd|[Hd|Hd]]; discriminate).
              all: exists i0; split; [destruct Hd as [Hd|[Hd|Hd]]; inversion Hd; ltb_cases; lia|auto].
    + intros _. rewrite GA. reflexivity.
    + rewrite N5. intros j Hj. destruct (Hidx j Hj) as [Hlt _].
      rewrite (Gent j FAuxE Hj), (Gent j FAuxK Hj), (Gent j FAuxV Hj) by auto. apply (oi_auxi I _ Hlt).
    + rewrite A5, N5. rewrite length_remove_nth by (rewrite (oi_auxlen I); exact Hi). rewrite (oi_auxlen I). reflexivity.
    + unfold o5, aux_drop. cbn [naxes ndim]. rewrite Q4, Q1. apply (oi_len I).
    + rewrite D5. intros E0 g Hg. destruct (get o5 g) eqn:Eg; try reflexivity; exfalso.
      all: destruct (Hfrom g) as [->|[_ [_ E]]]; [rewrite Eg; discriminate|discriminate|].
      all: rewrite (drop_src_nonaux i g Hg) in E; rewrite (oi_tbl0 I E0 _ Hg) in E; congruence.
    + rewrite D5. intros E0 g Hg. pose proof (tbl_fields_not_aux _ _ Hg) as Hna.
      rewrite G, G2, (drop_src_nonaux i g Hna).
      destruct (field_eqb FAux g) eqn:B; [apply field_eqb_eq in B; subst g; discriminate|].
      assert (B2 : is_entry i g = false) by (destruct g; try discriminate; reflexivity). rewrite B2. cbn [orb].
      destruct (field_eqb (FTmp 0) g) eqn:B3; [apply field_eqb_eq in B3; subst g; exfalso|apply (oi_tbl I E0 _ Hg)].
      apply in_tbl_fields in Hg. destruct Hg as [Hg|[j [_ Hg]]]; [simpl in Hg; intuition discriminate|discriminate].
  - apply (rel_reindex_owned Fr o2 o5 m2 (drop_src i)); [exact G|apply drop_src_inj| |exact HR2].
    intros g Hg. exists (drop_dst i g). apply drop_src_dst. rewrite G2 in Hg.
    destruct (field_eqb FAux g) eqn:B; [apply field_eqb_eq in B; subst g; reflexivity|].
    destruct (is_entry i g); [discriminate|reflexivity].
  - rewrite A5. apply Forall_remove_nth. exact HL.
Qed.

(* ---------------------------------------------------------------------------------------------- *)
(** * E9. permuteDimensions *)

Definition mk_slots (l : list (field * slot)) : obj :=
  {| ndim := 0; orders := []; nknots := []; naxes := []; naux := 0; auxs := []; slots := l |}.

Lemma get_put : forall l f g s, get_slot g (put_slot f s l) = if field_eqb f g then s else get_slot g l.
Proof. intros l f g s. exact (get_set (mk_slots l) g f s). Qed.
Lemma nodup_put : forall l f s, NoDup (map fst l) -> NoDup (map fst (put_slot f s l)).
Proof. intros l f s H. exact (keys_nodup_set (mk_slots l) f s H). Qed.

Lemma get_perm_slots : forall (sv : nat -> slot) p s base g,
  get_slot g (fold_right (fun ij acc => put_slot (FKnot (fst ij)) (sv (snd ij)) acc) base (combine (seq s (length p)) p))
  = match g with
    | FKnot i => if (s <=? i) && (i <? s + length p) then sv (nth (i - s) p 0) else get_slot g base
    | _ => get_slot g base
    end.
Proof.
  intros sv p; induction p as [|a p IH]; intros s base g.
  - simpl. destruct g; try reflexivity.
    destruct (Nat.leb_spec s i); destruct (Nat.ltb_spec i (s + 0)); simpl; try reflexivity; lia.
  - cbn [length seq combine fold_right fst snd]. rewrite get_put. rewrite IH.
    destruct g; cbn [field_eqb]; try reflexivity.
    destruct (Nat.eqb_spec s i) as [->|Hne].
    + rewrite Nat.leb_refl. destruct (Nat.ltb_spec i (i + S (length p))); [|lia]. rewrite Nat.sub_diag. reflexivity.
    + destruct (Nat.leb_spec (S s) i); destruct (Nat.leb_spec s i); try lia;
      destruct (Nat.ltb_spec i (S s + length p)); destruct (Nat.ltb_spec i (s + S (length p))); try lia; cbn [andb]; try reflexivity.
      replace (i - s) with (S (i - S s)) by lia. reflexivity.
Qed.

Lemma nodup_perm_slots : forall (sv : nat -> slot) l base, NoDup (map fst base) ->
  NoDup (map fst (fold_right (fun ij acc => put_slot (FKnot (fst ij)) (sv (snd ij)) acc) base l)).
Proof. intros sv l base H; induction l as [|a l IH]; simpl; [exact H|apply nodup_put; exact IH]. Qed.

Lemma get_step_permute : forall o p g,
  get (step_permute o p) g
  = match g with FKnot i => if i <? length p then get o (FKnot (nth i p 0)) else get o g | _ => get o g end.
Proof.
  intros o p g. unfold get at 1, step_permute. cbn [slots]. unfold idx.
  rewrite (get_perm_slots (fun j => get o (FKnot j))). destruct g; try reflexivity.
  cbn [Nat.leb andb]. rewrite Nat.sub_0_r. reflexivity.
Qed.

Lemma is_perm_spec : forall n p, is_perm n p = true -> length p = n /\ Permutation (seq 0 n) p.
Proof.
  intros n p H. unfold is_perm in H. apply andb_true_iff in H. destruct H as [H1 H2].
  apply Nat.eqb_eq in H1. split; [exact H1|].
  apply NoDup_Permutation_bis; [apply seq_NoDup|rewrite seq_length; lia|].
  intros i Hi. rewrite forallb_forall in H2. specialize (H2 i Hi). apply existsb_exists in H2.
  destruct H2 as [j [Hj E]]. apply Nat.eqb_eq in E. subst j. exact Hj.
Qed.

Lemma prod_perm : forall a b, Permutation a b -> prod_list a = prod_list b.
Proof.
  intros a b H; induction H; simpl; auto; try congruence.
  unfold prod_list in *. simpl. rewrite !Nat.mul_assoc, (Nat.mul_comm y x). reflexivity.
Qed.

Lemma map_nth_seq : forall (l : list nat) d, map (fun j => nth j l d) (seq 0 (length l)) = l.
Proof.
  induction l as [|a l IH]; intros d; simpl; [reflexivity|]. f_equal.
  rewrite <- seq_shift, map_map. apply IH.
Qed.

Lemma prod_permute : forall l p, is_perm (length l) p = true -> prod_list (permute_list 0 l p) = prod_list l.
Proof.
  intros l p H. destruct (is_perm_spec _ _ H) as [_ HP]. unfold permute_list.
  rewrite <- (prod_perm _ _ (Permutation_map (fun j => nth j l 0) HP)). rewrite map_nth_seq. reflexivity.
Qed.

Lemma nth_permute : forall l p i, i < length p -> nth i (permute_list 0 l p) 0 = nth (nth i p 0) l 0.
Proof.
  intros l p i Hi. unfold permute_list.
  rewrite (nth_indep _ 0 ((fun j => nth j l 0) 0)) by (rewrite map_length; exact Hi).
  rewrite (map_nth (fun j => nth j l 0)). reflexivity.
Qed.

Lemma rel_reindex : forall Fr o o' m (src : field -> field),
  (forall g, get o' g = get o (src g)) -> (forall g1 g2, src g1 = src g2 -> g1 = g2) -> (forall g, exists g', src g' = g) ->
  rel Fr o m -> rel Fr o' m.
Proof.
  intros Fr o o' m src G Hinj Hsur [Hm Hs Hi Hf Hc]. constructor; auto.
  - intros f id b H. rewrite G in H. eauto.
  - intros f g id b b' H1 H2. rewrite G in H1, H2. apply Hinj. eapply Hi; eauto.
  - intros id b H. destruct (Hf _ _ H) as [H1 H2]. split; [exact H1|]. intros f b'. rewrite G. apply H2.
  - intros id b H. destruct (Hc _ _ H) as [H1|[f H1]]; [left; exact H1|]. right.
    destruct (Hsur f) as [g' E]. exists g'. rewrite G, E. exact H1.
Qed.

Lemma knot_dom : forall o i, obj_inv o -> get o (FKnot i) <> Null -> i < ndim o.
Proof.
  intros o i I H. pose proof (oi_dom I _ H) as Hd. apply in_full_fields in Hd. rewrite in_tbl_fields, in_aux_flds in Hd.
  destruct Hd as [Hd|[[Hd|[j [Hj Hd]]]|[Hd|[j [Hj Hd]]]]]; try discriminate;
    [simpl in Hd; intuition discriminate|inversion Hd; subst; exact Hj|intuition discriminate].
Qed.

Definition perm_src (p : list nat) (g : field) : field :=
  match g with FKnot i => FKnot (if i <? length p then nth i p 0 else i) | _ => g end.

Lemma permute_ok : forall Fr o m p, obj_inv o -> rel Fr o m -> ndim o <> 0 -> is_perm (ndim o) p = true ->
  obj_inv (step_permute o p) /\ rel Fr (step_permute o p) m /\ auxs (step_permute o p) = auxs o.
Proof.
  intros Fr o m p I HR E0 Hp. destruct (is_perm_spec _ _ Hp) as [Hlen HP].
  set (n := ndim o) in *.
  assert (Hin : forall j, In j p <-> j < n).
  { intros j. rewrite <- (Permutation_in' (eq_refl j) HP). rewrite in_seq. lia. }
  assert (ND : NoDup p) by (eapply Permutation_NoDup; [exact HP|apply seq_NoDup]).
  assert (Hlt : forall i, i < n -> nth i p 0 < n) by (intros i Hi; apply Hin; apply nth_In; lia).
  set (o' := step_permute o p).
  assert (G : forall g, get o' g = get o (perm_src p g)).
  { intros g. unfold o'. rewrite get_step_permute. destruct g; try reflexivity. simpl. destruct (i <? length p); reflexivity. }
  assert (Hinj : forall g1 g2, perm_src p g1 = perm_src p g2 -> g1 = g2).
  { assert (Pinj : forall i1 i2, (if i1 <? length p then nth i1 p 0 else i1) = (if i2 <? length p then nth i2 p 0 else i2) -> i1 = i2).
    { intros i1 i2. rewrite Hlen. destruct (Nat.ltb_spec i1 n) as [A|A]; destruct (Nat.ltb_spec i2 n) as [B|B]; intros E.
      - apply (proj1 (NoDup_nth p 0) ND); lia.
      - specialize (Hlt _ A). lia.
      - specialize (Hlt _ B). lia.
      - exact E. }
    intros g1 g2 E. destruct g1; destruct g2; simpl in E; try discriminate; try reflexivity; try exact E;
      try (inversion E; subst; reflexivity).
    inversion E as [E']. apply Pinj in E'. subst. reflexivity. }
  assert (Hsur : forall g, exists g', perm_src p g' = g).
  { intros g. destruct g.
    all: try match goal with |- exists g', _ = ?x => exists x; reflexivity end.
    destruct (Nat.lt_ge_cases i n) as [A|A].
    - destruct (In_nth p i 0 (proj2 (Hin i) A)) as [k [Hk Ek]]. exists (FKnot k). simpl.
      destruct (Nat.ltb_spec k (length p)); [rewrite Ek; reflexivity|lia].
    - exists (FKnot i). simpl. destruct (Nat.ltb_spec i (length p)); [lia|reflexivity]. }
  assert (Hnk : forall g, (forall i, g <> FKnot i) -> get o' g = get o g).
  { intros g Hg. rewrite G. destruct g; try reflexivity. exfalso. eapply Hg; reflexivity. }
  split; [|split; [eapply rel_reindex; eauto|reflexivity]].
  constructor.
  - unfold keys_nodup, o', step_permute. cbn [slots]. apply (nodup_perm_slots (fun j => get o (FKnot j))). apply (oi_keys I).
  - intros g. rewrite G. apply (oi_ok I).
  - intros g id b Hg. rewrite G in Hg. pose proof (oi_claims I _ _ _ Hg) as Hb. rewrite Hb.
    destruct g as [ | | | | | | | | |i| |i|i|i|i]; try reflexivity.
    + (* FCoeff *) unfold claim, o', step_permute. cbn [naxes with_shape]. rewrite prod_permute; [reflexivity|].
      rewrite (oi_len I). exact Hp.
    + (* FKnot i *) simpl perm_src in *. destruct (Nat.ltb_spec i (length p)) as [A|A].
      2:{ exfalso. assert (i < ndim o) by (apply knot_dom; [exact I|rewrite Hg; discriminate]). fold n in H. lia. }
      unfold claim, o', step_permute. cbn [nknots orders with_shape]. rewrite !nth_permute by exact A. reflexivity.
  - intros g Hg. change (ndim o') with n. change (naux o') with (naux o). rewrite G in Hg.
    destruct g; try (apply (oi_dom I _ Hg)). simpl in Hg.
    destruct (Nat.ltb_spec i (length p)) as [A|A]; [|apply (oi_dom I _ Hg)].
    apply tbl_fields_full. apply in_tbl_fields. right. exists i. split; [lia|reflexivity].
  - change (naux o') with (naux o). intros Hk. rewrite Hnk by (intros; discriminate). apply (oi_aux0 I Hk).
  - change (naux o') with (naux o). intros i Hi. rewrite !Hnk by (intros; discriminate). apply (oi_auxi I _ Hi).
  - apply (oi_auxlen I).
  - unfold o', step_permute. cbn [naxes ndim with_shape]. unfold permute_list. rewrite map_length. exact Hlen.
  - intros E. contradiction.
  - intros _ g Hg. change (ndim o') with n in Hg. rewrite G. apply in_tbl_fields in Hg. destruct Hg as [Hg|[i [Hi ->]]].
    + assert (perm_src p g = g) as -> by (simpl in Hg; intuition (subst; reflexivity)).
      apply (oi_tbl I E0). apply in_tbl_fields. left. exact Hg.
    + simpl. destruct (Nat.ltb_spec i (length p)); [|lia]. apply (oi_tbl I E0). apply in_tbl_fields. right.
      exists (nth i p 0). split; [apply Hlt; exact Hi|reflexivity].
Qed.

(* ---------------------------------------------------------------------------------------------- *)
(** * F1. safe_to_call follows from the object invariant *)

Lemma aux_ok_of_inv : forall o, obj_inv o -> aux_ok o = true.
Proof.
  intros o I. unfold aux_ok. rewrite (oi_auxlen I), Nat.eqb_refl, andb_true_r. apply andb_true_iff. split.
  - destruct (Nat.eqb_spec (naux o) 0) as [E|E]; [|apply (oi_aux0 I E)].
    pose proof (oi_ok I FAux) as H. destruct (get o FAux); simpl in *; congruence.
  - unfold owned_all, aux_fields. apply forallb_forall. intros f Hf. apply in_flat_map in Hf. destruct Hf as [i [Hi Hf]].
    apply in_idx in Hi. destruct (oi_auxi I _ Hi) as [A [B C]]. simpl in Hf. intuition (subst; assumption).
Qed.

Lemma has_extents_of_inv : forall o, obj_inv o -> ndim o <> 0 -> has_extents o = true.
Proof.
  intros o I E. unfold has_extents. rewrite (oi_tbl I E FExtents), (oi_tbl I E FExtents0); [reflexivity| |]; simpl; auto 10.
Qed.

Lemma built_of_inv : forall o, obj_inv o -> ndim o <> 0 -> built o = true.
Proof.
  intros o I E. unfold built. rewrite (aux_ok_of_inv _ I), andb_true_r.
  destruct (Nat.eqb_spec (ndim o) 0) as [E'|_]; [contradiction|]. cbn [negb andb].
  unfold tbl_ok. apply andb_true_iff. split.
  - unfold owned_all, core_fields. apply forallb_forall. intros f Hf. apply (oi_tbl I E). apply in_tbl_fields.
    apply in_app_or in Hf. destruct Hf as [Hf|Hf].
    + left. simpl in Hf. simpl. intuition.
    + right. apply in_map_iff in Hf. destruct Hf as [i [<- Hi]]. apply in_idx in Hi. eauto.
  - unfold opt_pair_ok. rewrite (oi_tbl I E FExtents), (oi_tbl I E FExtents0) by (simpl; auto 10).
    rewrite orb_true_r. cbn [andb]. pose proof (oi_ok I FPeriods) as H. destruct (get o FPeriods); simpl in *; congruence.
Qed.

Lemma clear_safe_of_inv : forall o, obj_inv o -> clear_safe o = true.
Proof.
  intros o I. unfold clear_safe.
  rewrite (no_garbage_pointwise o (oi_keys I) (oi_ok I)). cbn [andb].
  destruct (Nat.eq_dec (ndim o) 0) as [E|E].
  - rewrite (oi_tbl0 I E FCoeff eq_refl). rewrite E. reflexivity.
  - rewrite (oi_tbl I E FStrides), (oi_tbl I E FNaxes), (oi_tbl I E FOrder), (oi_tbl I E FNknots) by (simpl; auto 10).
    rewrite !orb_true_r. reflexivity.
Qed.

Lemma aux_deref_ok_of_inv : forall o, obj_inv o -> aux_deref_ok o = true.
Proof.
  intros o I. unfold aux_deref_ok. destruct (Nat.eqb_spec (naux o) 0) as [E|E]; [reflexivity|].
  rewrite (oi_aux0 I E). cbn [orb andb].
  pose proof (aux_ok_of_inv _ I) as H. unfold aux_ok in H. apply andb_true_iff in H. destruct H as [H _].
  apply andb_true_iff in H. destruct H as [_ H]. exact H.
Qed.

Lemma safe_of_inv : forall o oother x, obj_inv o -> (forall o2, oother = Some o2 -> obj_inv o2) -> safe cfg_fixed o oother x = true.
Proof.
  intros o oother x I I2. destruct x; cbn [safe fx_moveasg fx_conv fx_perm fx_eq fx_clear cfg_fixed destructor_safe andb]; try reflexivity.
  - (* write_key *) rewrite (aux_ok_of_inv _ I). apply orb_true_r.
  - (* convolve *)
    destruct (Nat.ltb_spec dim (ndim o)) as [Hd|Hd]; cbn [negb orb]; [|reflexivity].
    destruct (Nat.ltb_spec nk 2) as [Hk|Hk]; [reflexivity|].
    assert (E : ndim o <> 0) by lia.
    rewrite (built_of_inv _ I E), (has_extents_of_inv _ I E). cbn [andb].
    destruct (Nat.leb_spec 1 nk); [reflexivity|lia].
  - (* permute *)
    destruct (is_perm (ndim o) p); cbn [negb]; [|reflexivity].
    destruct (Nat.eqb_spec (ndim o) 0) as [E|E]; [reflexivity|].
    rewrite (built_of_inv _ I E), (has_extents_of_inv _ I E). reflexivity.
  - (* move assignment runs the destructor on the old value *) apply clear_safe_of_inv; exact I.
  - (* == *)
    destruct oother as [o2|]; [|reflexivity].
    destruct (Nat.eqb_spec (ndim o) (ndim o2)) as [E|E]; cbn [negb]; [|reflexivity].
    destruct (Nat.eqb_spec (ndim o) 0) as [E0|E0]; [reflexivity|].
    rewrite (built_of_inv _ I E0). rewrite (built_of_inv _ (I2 _ eq_refl)) by congruence. reflexivity.
  - (* write *) destruct (Nat.eqb_spec (ndim o) 0) as [E0|E0]; [reflexivity|]. rewrite (built_of_inv _ I E0). reflexivity.
  - (* eval *) destruct (Nat.eqb_spec (ndim o) 0) as [E0|E0]; [reflexivity|].
    rewrite (built_of_inv _ I E0), (has_extents_of_inv _ I E0). reflexivity.
  - (* destructor *) apply clear_safe_of_inv; exact I.
  - (* remove_key *) apply aux_deref_ok_of_inv; exact I.
Qed.

(* ---------------------------------------------------------------------------------------------- *)
(** * F2. the world invariant *)

(* an object slot that holds no object owns nothing, like an empty table *)
Definition cur (w : world) (j : nat) : obj := match get_obj w j with Some o => o | None => empty_obj end.
Definition frame (w : world) (j : nat) (id b : nat) : Prop := exists k f, k <> j /\ get (cur w k) f = Owned id b.

(* the heap is exactly the disjoint union of what the live objects own *)
Record heap_inv (w : world) : Prop := {
  g_mem : mem_ok (wm w);
  g_sound : forall j f id b, get (cur w j) f = Owned id b -> In (id, b) (hp (wm w));
  g_inj : forall j k f g id b b', get (cur w j) f = Owned id b -> get (cur w k) g = Owned id b' -> j = k /\ f = g;
  g_complete : forall id b, In (id, b) (hp (wm w)) -> exists j f, get (cur w j) f = Owned id b
}.

Lemma heap_inv_rel : forall w j, heap_inv w -> rel (frame w j) (cur w j) (wm w).
Proof.
  intros w j [Hm Hs Hi Hc]. constructor; auto.
  - intros f id b H. eapply Hs; eauto.
  - intros f g id b b' H1 H2. eapply Hi; eauto.
  - intros id b [k [f [Hk H]]]. split; [eapply Hs; eauto|]. intros g b' H'. destruct (Hi _ _ _ _ _ _ _ H H') as [E _]. contradiction.
  - intros id b H. destruct (Hc _ _ H) as [k [f Hf]]. destruct (Nat.eq_dec k j) as [->|Hne]; [right; eauto|left; exists k, f; auto].
Qed.

Lemma rel_heap_inv : forall w w' j o', heap_inv w -> rel (frame w j) o' (wm w') ->
  cur w' j = o' -> (forall k, k <> j -> cur w' k = cur w k) -> heap_inv w'.
Proof.
  intros w w' j o' [Hm Hs Hi Hc] [Rm Rs Ri Rf Rc] Ej Ek. constructor; auto.
  - intros k f id b H. destruct (Nat.eq_dec k j) as [->|Hne].
    + rewrite Ej in H. eauto.
    + rewrite (Ek _ Hne) in H. apply (Rf id b). exists k, f. auto.
  - intros k1 k2 f g id b b' H1 H2.
    destruct (Nat.eq_dec k1 j) as [->|N1]; destruct (Nat.eq_dec k2 j) as [->|N2].
    + rewrite Ej in H1, H2. split; [reflexivity|eauto].
    + rewrite Ej in H1. rewrite (Ek _ N2) in H2. exfalso.
      destruct (Rf id b') as [_ Hno]; [exists k2, g; auto|]. apply (Hno _ _ H1).
    + rewrite Ej in H2. rewrite (Ek _ N1) in H1. exfalso.
      destruct (Rf id b) as [_ Hno]; [exists k1, f; auto|]. apply (Hno _ _ H2).
    + rewrite (Ek _ N1) in H1. rewrite (Ek _ N2) in H2. eauto.
  - intros id b H. destruct (Rc _ _ H) as [[k [f [Hk Hf]]]|[f Hf]].
    + exists k, f. rewrite (Ek _ Hk). exact Hf.
    + exists j, f. rewrite Ej. exact Hf.
Qed.

(* relabelling the object slots *)
Lemma heap_inv_reindex : forall w w' (sg : nat -> nat), heap_inv w -> wm w' = wm w ->
  (forall k, cur w' k = cur w (sg k)) -> (forall a b, sg a = sg b -> a = b) -> (forall a, exists b, sg b = a) -> heap_inv w'.
Proof.
  intros w w' sg [Hm Hs Hi Hc] Em Ec Sinj Ssur. constructor; rewrite ?Em; auto.
  - intros k f id b H. rewrite Ec in H. eauto.
  - intros k1 k2 f g id b b' H1 H2. rewrite Ec in H1, H2. destruct (Hi _ _ _ _ _ _ _ H1 H2) as [E1 E2]. split; auto.
  - intros id b H. destruct (Hc _ _ H) as [k [f Hf]]. destruct (Ssur k) as [k' <-]. exists k', f. rewrite Ec. exact Hf.
Qed.

(** well-formed operations: the side conditions under which the invariant is stated.
    - the operation names one of the four object slots of the model (`world0`);
    - a file that gets past the dimension check has ndim >= 1 (fitsio.h:193 throws otherwise: that is phase PDim)
      and its naxes[] has ndim entries;
    - a fit that passes the sanity checks of fit.h:26-67 has ndim >= 1 and as many knot vectors as orders;
    - the byte count of a key is a function of the key's identity (same string, same strlen). *)
Definition wf_file (kl : nat -> nat) (f : file) : Prop :=
  f_ndim f <> 0 /\ length (f_naxes f) = f_ndim f /\ keys_len kl (map fst (f_aux f)).
Definition wf_op (kl : nat -> nat) (x : op) : Prop :=
  target x < 4 /\
  match x with
  | ONewRead _ f | ORead _ f => wf_file kl f
  | OFit _ s => ft_invalid s = false -> ft_orders s <> [] /\ length (ft_nknots s) = length (ft_orders s)
  | OWriteKey _ inv e => inv = false -> aklen e = kl (akey e)
  | _ => True
  end.

Record Inv (kl : nat -> nat) (w : world) : Prop := {
  inv_len : length (objs w) = 4;
  inv_nc : crashed w = false;
  inv_heap : heap_inv w;
  inv_obj : forall j o, get_obj w j = Some o -> obj_inv o /\ keys_len kl (auxs o)
}.

Arguments inv_len {kl w} _. Arguments inv_nc {kl w} _. Arguments inv_heap {kl w} _. Arguments inv_obj {kl w} _ _ _ _.

Lemma Inv_world0 : forall kl, Inv kl world0.
Proof.
  intros kl. constructor; try reflexivity.
  - assert (C : forall j, cur world0 j = empty_obj).
    { intros j. unfold cur, get_obj, world0. cbn [objs]. destruct j as [|[|[|[|[|j]]]]]; reflexivity. }
    constructor; [apply mem_ok_mem0| | |].
    + intros j f id b H. rewrite C in H. discriminate.
    + intros j k f g id b b' H. rewrite C in H. discriminate.
    + intros id b H. contradiction.
  - intros j o H. unfold get_obj, world0 in H. cbn [objs] in H. destruct j as [|[|[|[|[|j]]]]]; discriminate.
Qed.

Lemma get_set_obj_same : forall w j x m, j < length (objs w) -> get_obj (set_obj w j x m) j = x.
Proof. intros w j x m H. unfold get_obj, set_obj. cbn [objs]. apply nth_set_nth_same; exact H. Qed.
Lemma get_set_obj_other : forall w j k x m, k <> j -> get_obj (set_obj w j x m) k = get_obj w k.
Proof. intros w j k x m H. unfold get_obj, set_obj. cbn [objs]. apply nth_set_nth_other; exact H. Qed.

Definition oo (x : option obj) : obj := match x with Some o => o | None => empty_obj end.

Lemma cur_set_obj_same : forall w j x m, j < length (objs w) -> cur (set_obj w j x m) j = oo x.
Proof. intros. unfold cur. rewrite get_set_obj_same by assumption. reflexivity. Qed.
Lemma cur_set_obj_other : forall w j k x m, k <> j -> cur (set_obj w j x m) k = cur w k.
Proof. intros. unfold cur. rewrite get_set_obj_other by assumption. reflexivity. Qed.

(* the generic update: slot j receives x (an object satisfying the invariant, or nothing) and the memory m',
   where m' is related to the new content of j with the other objects as frame *)
Lemma Inv_set : forall kl w j x m', Inv kl w -> j < 4 ->
  rel (frame w j) (oo x) m' -> (forall o, x = Some o -> obj_inv o /\ keys_len kl (auxs o)) ->
  Inv kl (set_obj w j x m').
Proof.
  intros kl w j x m' [HL HN HH HO] Hj HR Hx.
  assert (Hj' : j < length (objs w)) by (rewrite HL; exact Hj).
  constructor.
  - unfold set_obj. cbn [objs]. rewrite length_set_nth. exact HL.
  - exact HN.
  - apply (rel_heap_inv w (set_obj w j x m') j (oo x) HH); [exact HR|apply cur_set_obj_same; exact Hj'|].
    intros k Hk. apply cur_set_obj_other; exact Hk.
  - intros k o H. destruct (Nat.eq_dec k j) as [->|Hne].
    + rewrite get_set_obj_same in H by exact Hj'. apply Hx; exact H.
    + rewrite get_set_obj_other in H by exact Hne. apply (HO k); exact H.
Qed.

Lemma Inv_rel : forall kl w j, Inv kl w -> rel (frame w j) (cur w j) (wm w).
Proof. intros kl w j HI. apply heap_inv_rel. apply (inv_heap HI). Qed.

Lemma cur_some : forall w j o, get_obj w j = Some o -> cur w j = o.
Proof. intros w j o H. unfold cur. rewrite H. reflexivity. Qed.
Lemma cur_none : forall w j, get_obj w j = None -> cur w j = empty_obj.
Proof. intros w j H. unfold cur. rewrite H. reflexivity. Qed.

(* ---------------------------------------------------------------------------------------------- *)
(** * F3. every operation preserves the invariant and is never undefined behaviour *)

Lemma get_obj_lt : forall w j o, get_obj w j = Some o -> j < length (objs w).
Proof.
  intros w j o H. unfold get_obj in H. destruct (Nat.lt_ge_cases j (length (objs w))) as [A|A]; [exact A|].
  rewrite nth_overflow in H by exact A. discriminate.
Qed.

Definition swap (i j k : nat) : nat := if Nat.eqb k j then i else if Nat.eqb k i then j else k.

Lemma swap_inj : forall i j a b, swap i j a = swap i j b -> a = b.
Proof.
  intros i j a b. unfold swap.
  destruct (Nat.eqb_spec a j); destruct (Nat.eqb_spec a i); destruct (Nat.eqb_spec b j); destruct (Nat.eqb_spec b i); lia.
Qed.
Lemma swap_sur : forall i j a, exists b, swap i j b = a.
Proof.
  intros i j a. exists (swap i j a). unfold swap.
  destruct (Nat.eqb_spec a j); destruct (Nat.eqb_spec a i); subst;
    repeat match goal with |- context[Nat.eqb ?x ?y] => destruct (Nat.eqb_spec x y) end; lia.
Qed.

Lemma Inv_swap : forall kl w1 w' i j, Inv kl w1 -> length (objs w') = 4 -> crashed w' = false -> wm w' = wm w1 ->
  (forall k, cur w' k = cur w1 (swap i j k)) ->
  (forall k o, get_obj w' k = Some o -> obj_inv o /\ keys_len kl (auxs o)) -> Inv kl w'.
Proof.
  intros kl w1 w' i j HI HL HN Hm Hc Ho. constructor; auto.
  apply (heap_inv_reindex w1 w' (swap i j) (inv_heap HI) Hm Hc (swap_inj i j) (swap_sur i j)).
Qed.

Lemma keys_len_nil : forall kl, keys_len kl [].
Proof. intros; constructor. Qed.

Lemma step_Inv : forall kl F w x, Inv kl w -> wf_op kl x ->
  Inv kl (fst (step cfg_fixed F w x)) /\ snd (step cfg_fixed F w x) <> UB.
Proof.
  intros kl F w x HI [Ht Hwf]. unfold step. rewrite (inv_nc HI).
  pose proof (inv_len HI) as HL.
  assert (Hskip : Inv kl (fst (w, Skipped)) /\ snd (w, Skipped) <> UB) by (split; [exact HI|discriminate]).
  destruct x as [j|j f|j f|j s|j inv e|j dim nk|j p|j i|j i|i j|j fails|j|j|j key]; cbn [target] in Ht; cbv beta iota zeta; cbn [target].
  - (* ONew *)
    destruct (get_obj w j) as [o|] eqn:Ej; [exact Hskip|]. cbn [fst snd]. split; [|discriminate].
    apply Inv_set; auto.
    + cbn [oo]. rewrite <- (cur_none _ _ Ej). apply (Inv_rel kl w j HI).
    + intros o E. inversion E; subst. split; [apply obj_inv_empty|apply keys_len_nil].
  - (* ONewRead *)
    destruct (get_obj w j) as [o|] eqn:Ej; [exact Hskip|].
    destruct Hwf as [W1 [W2 W3]].
    assert (HR0 : rel (frame w j) empty_obj (wm w)) by (rewrite <- (cur_none _ _ Ej); apply (Inv_rel kl w j HI)).
    destruct (step_read cfg_fixed F (wm w) empty_obj f) as [[o' m'] r] eqn:E.
    destruct (read_ok _ _ _ _ _ _ _ _ obj_inv_empty HR0 W1 W2 E) as [I' [HR' HA]].
    destruct r as [why|]; cbn [fst snd]; (split; [|discriminate]).
    + assert (o' = empty_obj) as -> by (destruct (read_failed cfg_fixed F (wm w) empty_obj f o' m' why eq_refl E); assumption).
      change (lose_all m' empty_obj) with m'. apply Inv_set; auto. intros ? E'; discriminate.
    + apply Inv_set; auto. intros o0 E'. inversion E'; subst. split; [exact I'|].
      destruct HA as [HA|[HA|HA]]; rewrite HA; [apply keys_len_nil|apply keys_len_nil|exact W3].
  - (* ORead *)
    destruct (get_obj w j) as [o|] eqn:Ej; [|exact Hskip].
    destruct (inv_obj HI _ _ Ej) as [Io HLo].
    rewrite (safe_of_inv o None (ORead j f) Io) by (intros; discriminate). cbn [negb].
    destruct Hwf as [W1 [W2 W3]].
    assert (HR0 : rel (frame w j) o (wm w)) by (rewrite <- (cur_some _ _ _ Ej); apply (Inv_rel kl w j HI)).
    destruct (step_read cfg_fixed F (wm w) o f) as [[o' m'] r] eqn:E.
    destruct (read_ok _ _ _ _ _ _ _ _ Io HR0 W1 W2 E) as [I' [HR' HA]].
    assert (HK' : keys_len kl (auxs o')) by (destruct HA as [HA|[HA|HA]]; rewrite HA; [exact HLo|apply keys_len_nil|exact W3]).
    destruct r; cbn [finish fst snd]; (split; [|discriminate]); apply Inv_set; auto; intros o0 E'; inversion E'; subst; auto.
  - (* OFit *)
    destruct (get_obj w j) as [o|] eqn:Ej; [|exact Hskip].
    destruct (inv_obj HI _ _ Ej) as [Io HLo].
    rewrite (safe_of_inv o None (OFit j s) Io) by (intros; discriminate). cbn [negb].
    assert (HR0 : rel (frame w j) o (wm w)) by (rewrite <- (cur_some _ _ _ Ej); apply (Inv_rel kl w j HI)).
    destruct (step_fit cfg_fixed F (wm w) o s) as [[o' m'] r] eqn:E.
    destruct (fit_ok _ _ _ _ _ _ _ _ Io HR0 Hwf E) as [I' [HR' HA]].
    assert (HK' : keys_len kl (auxs o')) by (destruct HA as [HA|HA]; rewrite HA; [exact HLo|apply keys_len_nil]).
    destruct r; cbn [finish fst snd]; (split; [|discriminate]); apply Inv_set; auto; intros o0 E'; inversion E'; subst; auto.
  - (* OWriteKey *)
    destruct (get_obj w j) as [o|] eqn:Ej; [|exact Hskip].
    destruct (inv_obj HI _ _ Ej) as [Io HLo].
    rewrite (safe_of_inv o None (OWriteKey j inv e) Io) by (intros; discriminate). cbn [negb].
    assert (HR0 : rel (frame w j) o (wm w)) by (rewrite <- (cur_some _ _ _ Ej); apply (Inv_rel kl w j HI)).
    destruct (step_write_key F (wm w) o inv e) as [[o' m'] r] eqn:E.
    destruct (write_key_ok kl _ _ _ _ _ _ _ _ _ Io HLo HR0 Hwf E) as [I' [HR' HK']].
    destruct r; cbn [finish fst snd]; (split; [|discriminate]); apply Inv_set; auto; intros o0 E'; inversion E'; subst; auto.
  - (* OConvolve *)
    destruct (get_obj w j) as [o|] eqn:Ej; [|exact Hskip].
    destruct (inv_obj HI _ _ Ej) as [Io HLo].
    rewrite (safe_of_inv o None (OConvolve j dim nk) Io) by (intros; discriminate). cbn [negb].
    assert (HR0 : rel (frame w j) o (wm w)) by (rewrite <- (cur_some _ _ _ Ej); apply (Inv_rel kl w j HI)).
    destruct (step_convolve cfg_fixed F (wm w) o dim nk) as [[o' m'] r] eqn:E.
    destruct (convolve_ok _ _ _ _ _ _ _ _ _ Io HR0 E) as [I' [HR' HA]].
    assert (HK' : keys_len kl (auxs o')) by (destruct HA as [HA|HA]; rewrite HA; [exact HLo|apply keys_len_nil]).
    destruct r; cbn [finish fst snd]; (split; [|discriminate]); apply Inv_set; auto; intros o0 E'; inversion E'; subst; auto.
  - (* OPermute *)
    destruct (get_obj w j) as [o|] eqn:Ej; [|exact Hskip].
    destruct (inv_obj HI _ _ Ej) as [Io HLo].
    rewrite (safe_of_inv o None (OPermute j p) Io) by (intros; discriminate). cbn [negb].
    assert (HR0 : rel (frame w j) o (wm w)) by (rewrite <- (cur_some _ _ _ Ej); apply (Inv_rel kl w j HI)).
    destruct (is_perm (ndim o) p) eqn:Ep; cbn [negb fst snd]; [|split; [exact HI|discriminate]].
    destruct (Nat.eqb_spec (ndim o) 0) as [E0|E0]; cbn [fst snd]; [split; [exact HI|discriminate]|].
    split; [|discriminate]. destruct (permute_ok (frame w j) o (wm w) p Io HR0 E0 Ep) as [I' [HR' HA]].
    apply Inv_set; auto. intros o0 E'. inversion E'; subst. split; [exact I'|]. rewrite HA. exact HLo.
  - (* OMoveCtor *)
    destruct (get_obj w j) as [oj|] eqn:Ej; [destruct (get_obj w i); exact Hskip|].
    destruct (get_obj w i) as [oi|] eqn:Ei; [|exact Hskip].
    destruct (Nat.eqb_spec i j) as [Eij|Eij]; [exact Hskip|]. cbn [fst snd]. split; [|discriminate].
    pose proof (get_obj_lt _ _ _ Ei) as Hi.
    assert (Hj : j < length (objs w)) by (rewrite HL; exact Ht).
    apply (Inv_swap kl w _ i j HI); try reflexivity.
    + unfold set_obj. cbn [objs]. rewrite !length_set_nth. exact HL.
    + exact (inv_nc HI).
    + intros k. unfold swap. destruct (Nat.eqb_spec k j) as [->|Nj]; [|destruct (Nat.eqb_spec k i) as [->|Ni]].
      * rewrite cur_set_obj_other by auto. rewrite cur_set_obj_same by exact Hj. rewrite (cur_some _ _ _ Ei). reflexivity.
      * rewrite cur_set_obj_same by (unfold set_obj; cbn [objs]; rewrite length_set_nth; exact Hi).
        rewrite (cur_none _ _ Ej). reflexivity.
      * rewrite !cur_set_obj_other by auto. reflexivity.
    + intros k o H. destruct (Nat.eq_dec k i) as [->|Ni]; [|destruct (Nat.eq_dec k j) as [->|Nj]].
      * rewrite get_set_obj_same in H by (unfold set_obj; cbn [objs]; rewrite length_set_nth; exact Hi).
        inversion H; subst. split; [apply obj_inv_empty|apply keys_len_nil].
      * rewrite get_set_obj_other in H by auto. rewrite get_set_obj_same in H by exact Hj. inversion H; subst.
        apply (inv_obj HI _ _ Ei).
      * rewrite !get_set_obj_other in H by auto. apply (inv_obj HI _ _ H).
  - (* OMoveAssign *)
    destruct (get_obj w j) as [oj|] eqn:Ej; [|exact Hskip].
    destruct (get_obj w i) as [oi|] eqn:Ei; [|exact Hskip].
    destruct (Nat.eqb_spec i j) as [Eij|Eij]; [split; [exact HI|discriminate]|].
    destruct (inv_obj HI _ _ Ej) as [Ioj HLoj]. destruct (inv_obj HI _ _ Ei) as [Ioi HLoi].
    rewrite (safe_of_inv oj (Some oi) (OMoveAssign j i) Ioj) by (intros o2 E2; inversion E2; subst; exact Ioi).
    cbn [negb fx_moveasg cfg_fixed fst snd]. split; [|discriminate].
    pose proof (get_obj_lt _ _ _ Ei) as Hi. pose proof (get_obj_lt _ _ _ Ej) as Hj.
    assert (HR0 : rel (frame w j) oj (wm w)) by (rewrite <- (cur_some _ _ _ Ej); apply (Inv_rel kl w j HI)).
    pose proof (destroy_ok (frame w j) F oj (wm w) Ioj HR0) as HRd.
    set (md := destroy cfg_fixed F (wm w) oj) in *.
    assert (HI1 : Inv kl (set_obj w j (Some empty_obj) md)).
    { apply Inv_set; auto. intros o E. inversion E; subst. split; [apply obj_inv_empty|apply keys_len_nil]. }
    apply (Inv_swap kl _ _ i j HI1); try reflexivity.
    + unfold set_obj. cbn [objs]. rewrite !length_set_nth. exact HL.
    + exact (inv_nc HI).
    + intros k. unfold swap. destruct (Nat.eqb_spec k j) as [->|Nj]; [|destruct (Nat.eqb_spec k i) as [->|Ni]].
      * rewrite cur_set_obj_other by auto. rewrite cur_set_obj_same by exact Hj.
        rewrite cur_set_obj_other by auto. rewrite (cur_some _ _ _ Ei). reflexivity.
      * rewrite cur_set_obj_same by (unfold set_obj; cbn [objs]; rewrite length_set_nth; exact Hi).
        rewrite cur_set_obj_same by exact Hj. reflexivity.
      * rewrite !cur_set_obj_other by auto. reflexivity.
    + intros k o H. destruct (Nat.eq_dec k i) as [->|Ni]; [|destruct (Nat.eq_dec k j) as [->|Nj]].
      * rewrite get_set_obj_same in H by (unfold set_obj; cbn [objs]; rewrite length_set_nth; exact Hi).
        inversion H; subst. split; [apply obj_inv_empty|apply keys_len_nil].
      * rewrite get_set_obj_other in H by auto. rewrite get_set_obj_same in H by exact Hj. inversion H; subst. auto.
      * rewrite !get_set_obj_other in H by auto. apply (inv_obj HI _ _ H).
  - (* OEq *)
    destruct (get_obj w i) as [oi|] eqn:Ei; [|exact Hskip].
    destruct (get_obj w j) as [oj|] eqn:Ej; [|exact Hskip].
    destruct (inv_obj HI _ _ Ej) as [Ioj HLoj]. destruct (inv_obj HI _ _ Ei) as [Ioi HLoi].
    rewrite (safe_of_inv oi (Some oj) (OEq i j) Ioi) by (intros o2 E2; inversion E2; subst; exact Ioj).
    cbn [negb fst snd]. split; [exact HI|discriminate].
  - (* OWrite *)
    destruct (get_obj w j) as [o|] eqn:Ej; [|exact Hskip].
    destruct (inv_obj HI _ _ Ej) as [Io HLo].
    rewrite (safe_of_inv o None (OWrite j fails) Io) by (intros; discriminate). cbn [negb].
    destruct (ndim o =? 0); [|destruct fails]; cbn [fst snd]; (split; [exact HI|discriminate]).
  - (* OEval *)
    destruct (get_obj w j) as [o|] eqn:Ej; [|exact Hskip].
    destruct (inv_obj HI _ _ Ej) as [Io HLo].
    rewrite (safe_of_inv o None (OEval j) Io) by (intros; discriminate). cbn [negb].
    destruct (ndim o =? 0); cbn [fst snd]; (split; [exact HI|discriminate]).
  - (* ODestroy *)
    destruct (get_obj w j) as [o|] eqn:Ej; [|exact Hskip].
    destruct (inv_obj HI _ _ Ej) as [Io HLo].
    rewrite (safe_of_inv o None (ODestroy j) Io) by (intros; discriminate). cbn [negb fst snd].
    assert (HR0 : rel (frame w j) o (wm w)) by (rewrite <- (cur_some _ _ _ Ej); apply (Inv_rel kl w j HI)).
    split; [|discriminate]. apply Inv_set; auto.
    + cbn [oo]. apply destroy_ok; assumption.
    + intros ? E'; discriminate.
  - (* ORemoveKey *)
    destruct (get_obj w j) as [o|] eqn:Ej; [|exact Hskip].
    destruct (inv_obj HI _ _ Ej) as [Io HLo].
    rewrite (safe_of_inv o None (ORemoveKey j key) Io) by (intros; discriminate). cbn [negb].
    assert (HR0 : rel (frame w j) o (wm w)) by (rewrite <- (cur_some _ _ _ Ej); apply (Inv_rel kl w j HI)).
    destruct (step_remove_key cfg_fixed F (wm w) o key) as [[o' m'] r] eqn:E.
    destruct (remove_key_ok kl _ _ _ _ _ _ _ _ Io HLo HR0 E) as [I' [HR' HK']].
    destruct r; cbn [finish fst snd]; (split; [|discriminate]); apply Inv_set; auto; intros o0 E'; inversion E'; subst; auto.
Qed.

(* ---------------------------------------------------------------------------------------------- *)
(** * F4. histories *)

Lemma run_Inv : forall kl F ops w, Inv kl w -> Forall (wf_op kl) ops ->
  Inv kl (fst (run cfg_fixed F w ops)) /\ ~ In UB (snd (run cfg_fixed F w ops)).
Proof.
  intros kl F ops; induction ops as [|x ops IH]; intros w HI Hwf.
  - simpl. split; [exact HI|intros []].
  - inversion Hwf as [|? ? Hx Hrest]; subst. cbn [run].
    destruct (step_Inv kl F w x HI Hx) as [HI' Hub].
    destruct (step cfg_fixed F w x) as [w' out]. cbn [fst snd] in *.
    destruct (IH w' HI' Hrest) as [HI'' Hubs].
    destruct (run cfg_fixed F w' ops) as [w'' outs]. cbn [fst snd] in *.
    split; [exact HI''|]. intros [E|Hin]; [apply Hub; exact E|apply Hubs; exact Hin].
Qed.

Theorem invariant_reachable : forall kl ops F, Forall (wf_op kl) ops -> Inv kl (run_world cfg_fixed F ops).
Proof. intros kl ops F H. unfold run_world. apply (run_Inv kl F ops world0 (Inv_world0 kl) H). Qed.

Theorem never_ub : forall kl ops F, Forall (wf_op kl) ops ->
  crashed (run_world cfg_fixed F ops) = false /\ ~ In UB (snd (run cfg_fixed F world0 ops)).
Proof.
  intros kl ops F H. destruct (run_Inv kl F ops world0 (Inv_world0 kl) H) as [HI Hub]. split; [apply (inv_nc HI)|exact Hub].
Qed.

(* what Inv says about the allocator *)
Lemma Inv_clean : forall kl w, Inv kl w -> errs (wm w) = [] /\ lost (wm w) = [] /\ replay (rev (trace (wm w))) [] = Some (hp (wm w)).
Proof.
  intros kl w HI. destruct (g_mem _ (inv_heap HI)) as [He Hl _ _ Hr]. auto.
Qed.

Definition all_gone (w : world) : Prop := forall j, get_obj w j = None.

Theorem balanced_when_all_gone : forall kl w, Inv kl w -> all_gone w ->
  balanced (rev (trace (wm w))) /\ hp (wm w) = [] /\ lost (wm w) = [] /\ errs (wm w) = [].
Proof.
  intros kl w HI Hg. destruct (Inv_clean kl w HI) as [He [Hl Hr]].
  assert (Hh : hp (wm w) = []).
  { destruct (hp (wm w)) as [|[id b] t] eqn:E; [reflexivity|]. exfalso.
    destruct (g_complete _ (inv_heap HI) id b) as [j [f Hf]]; [rewrite E; left; reflexivity|].
    rewrite (cur_none _ _ (Hg j)) in Hf. discriminate. }
  unfold balanced. rewrite Hr, Hh. auto.
Qed.

Theorem safe_from_Inv : forall kl w x o oother, Inv kl w -> get_obj w (target x) = Some o ->
  (forall o2, oother = Some o2 -> exists k, get_obj w k = Some o2) -> safe cfg_fixed o oother x = true.
Proof.
  intros kl w x o oother HI Ho Hoth. apply safe_of_inv.
  - apply (inv_obj HI _ _ Ho).
  - intros o2 E. destruct (Hoth _ E) as [k Hk]. apply (inv_obj HI _ _ Hk).
Qed.

(* the object-level content of Inv, spelled out with the model's own boolean predicates *)
Theorem Inv_objects : forall kl w j o, Inv kl w -> get_obj w j = Some o ->
  no_garbage o = true /\ aux_ok o = true /\ clear_safe o = true
  /\ (ndim o = 0 -> forall f, is_aux_field f = false -> get o f = Null)
  /\ (ndim o <> 0 -> built o = true /\ has_extents o = true)
  /\ (forall f id b, get o f = Owned id b -> b = claim o f /\ lookup id (hp (wm w)) = Some b).
Proof.
  intros kl w j o HI Ho. destruct (inv_obj HI _ _ Ho) as [Io _].
  split; [apply no_garbage_pointwise; [apply (oi_keys Io)|apply (oi_ok Io)]|].
  split; [apply aux_ok_of_inv; exact Io|]. split; [apply clear_safe_of_inv; exact Io|].
  split; [apply (oi_tbl0 Io)|]. split; [intros E; split; [apply built_of_inv|apply has_extents_of_inv]; assumption|].
  intros f id b Hf. split; [apply (oi_claims Io _ _ _ Hf)|].
  apply lookup_in; [apply (mo_nodup (g_mem _ (inv_heap HI)))|].
  apply (g_sound _ (inv_heap HI) j f). rewrite (cur_some _ _ _ Ho). exact Hf.
Qed.

(** the side conditions are needed: without them the MODEL leaves the invariant (these are statements about
    ObjModel's totalised inputs, not about the code: fitsio.h:193 and fit.h:26 reject such inputs) *)
Definition file0 : file :=
  {| f_open_fails := false; f_fail := PNone; f_ndim := 0; f_orders := []; f_nknots := []; f_naxes := []; f_aux := [] |}.
Lemma wf_needed_ndim0 : lost (wm (run_world cfg_fixed no_fault [ONew 0; ORead 0 file0; ORead 0 file0])) <> [].
Proof. vm_compute. discriminate. Qed.
Lemma wf_needed_slot : hp (wm (run_world cfg_fixed no_fault [ONewRead 7 fileA])) <> [].
Proof. vm_compute. discriminate. Qed.
Lemma wf_needed_keylen :
  errs (wm (run_world cfg_fixed no_fault [ONew 0; OWriteKey 0 false key2; OWriteKey 0 false {| akey := 2; aklen := 9; avlen := 3 |}; ODestroy 0])) <> [].
Proof. vm_compute. discriminate. Qed.

Theorem balanced_after_history : forall kl ops F, Forall (wf_op kl) ops -> all_gone (run_world cfg_fixed F ops) ->
  balanced (rev (trace (wm (run_world cfg_fixed F ops)))) /\ hp (wm (run_world cfg_fixed F ops)) = []
  /\ lost (wm (run_world cfg_fixed F ops)) = [] /\ errs (wm (run_world cfg_fixed F ops)) = [].
Proof. intros kl ops F H Hg. apply (balanced_when_all_gone kl _ (invariant_reachable kl ops F H) Hg). Qed.

(* at every moment of a history: no allocator error, nothing lost, the strict replay of the trace is the live heap *)
Theorem clean_at_every_moment : forall kl ops F, Forall (wf_op kl) ops ->
  errs (wm (run_world cfg_fixed F ops)) = [] /\ lost (wm (run_world cfg_fixed F ops)) = []
  /\ replay (rev (trace (wm (run_world cfg_fixed F ops)))) [] = Some (hp (wm (run_world cfg_fixed F ops))).
Proof. intros kl ops F H. apply (Inv_clean kl _ (invariant_reachable kl ops F H)). Qed.

(* a non-trivial history that satisfies the side conditions (two objects; read, new key, existing key, move
   assignment that destroys a populated table, convolution, permutation, a read that fails at a knot vector) *)
Definition kl5 : nat -> nat := fun _ => 5.
Definition fileB : file :=
  {| f_open_fails := false; f_fail := PNone; f_ndim := 2; f_orders := [2; 1]; f_nknots := [7; 6]; f_naxes := [4; 4];
     f_aux := [({| akey := 1; aklen := 5; avlen := 9 |}, 11); ({| akey := 3; aklen := 5; avlen := 2 |}, 11)] |}.
Definition h_example : list op :=
  [ONew 0; ORead 0 fileB; OWriteKey 0 false key2; OWriteKey 0 false {| akey := 1; aklen := 5; avlen := 30 |};
   ONew 1; ORead 1 fileA; OMoveAssign 1 0; OConvolve 1 0 2; OPermute 1 [1; 0]; ORead 0 fileT; ONewRead 2 fileT; OEq 0 1].

Lemma h_example_wf : Forall (wf_op kl5) h_example.
Proof.
  unfold h_example. repeat constructor; simpl; try lia; try discriminate; auto.
Qed.
Lemma h_example_wf_destroy : Forall (wf_op kl5) (h_example ++ [ODestroy 0; ODestroy 1]).
Proof. apply Forall_app. split; [exact h_example_wf|]. repeat constructor; simpl; lia. Qed.

(* a history with key removals: middle, miss, first, (moved), last; then a key written into the emptied table *)
Definition h_example_rk : list op :=
  [ONew 0; ORead 0 fileB; OWriteKey 0 false key2; ORemoveKey 0 3; ORemoveKey 0 7; ORemoveKey 0 1; OMoveCtor 1 0; ORemoveKey 1 2;
   OWriteKey 1 false key2].
Lemma h_example_rk_wf : Forall (wf_op kl5) h_example_rk.
Proof. unfold h_example_rk. repeat constructor; simpl; try lia; try discriminate; auto. Qed.

Lemma all_gone_4 : forall w, objs w = [None; None; None; None] -> all_gone w.
Proof. intros w H j. unfold get_obj. rewrite H. destruct j as [|[|[|[|[|j]]]]]; reflexivity. Qed.
