(* Properties_C13.v — C13: fit rejects inconsistent arguments instead of corrupting memory.

   fit_check   = the sanity block of splinetable::fit of the CURRENT working tree, transcribed check by check, in
                 source order, by tools/translators/fitargs.py (Generated_fitargs.fit_checks_src) and run by
                 FitArgs.run_checks: the first condition that holds decides.
   fit_contract= the memory contract of everything fit() does below the block (fit.h, glam.c, splineutil.c), derived
                 by hand access by access (FitArgs.fit_contract_with), plus the inconsistencies the property lists.
   All theorems quantify over every argument shape: any number of dimensions, any lengths, any orders. *)
From Coq Require Import List NArith Bool Arith.
Import ListNotations.
From PS Require Import FitArgs Generated_fitargs FitArgsModel C13_Proofs.
Local Open Scope N_scope.

(* Arguments that pass the sanity block satisfy the contract of the code below it. *)
Theorem C13_accept_implies_contract : forall a, fit_check a = Accept -> fit_contract a = true.
Proof. exact accept_implies_contract. Qed.

(* ... and nothing else is rejected: the checks remove no behaviour for consistent arguments. *)
Theorem C13_accept_iff_contract : forall a, fit_check a = Accept <-> fit_contract a = true.
Proof. exact accept_iff_contract. Qed.

(* The checks themselves never read outside their arguments (e.g. max_element of no entries, coords[i] before
   coords.size() was compared): no check is evaluated outside its own precondition. *)
Theorem C13_checks_never_fault : forall a r, fit_check a <> CheckFault r.
Proof. exact checks_never_fault. Qed.

(* A rejection names a check that is in the source and whose condition really holds (first error in source order). *)
Theorem C13_reject_sound : forall a r,
  fit_check a = Reject r ->
  match r with
  | G g => In (Once g) fit_checks_src /\ g_fires g a = true
  | D c d => (exists cs, In (PerDim cs) fit_checks_src /\ In c cs) /\ (d < ndim a)%nat /\ d_fires c a d = true
  end.
Proof. intros a r. exact (reject_sound_gen fit_checks_src a r). Qed.

(* An argument rejection leaves the object exactly as it was (whatever it was: empty or already fitted). *)
Theorem C13_reject_leaves_unchanged : forall s a ok s' r,
  fit_step s a ok = (s', ThrowLogic r) -> s' = s /\ fit_check a = Reject r.
Proof. exact fit_step_reject. Qed.

Theorem C13_reject_throws : forall s a ok r, fit_check a = Reject r -> fit_step s a ok = (s, ThrowLogic r).
Proof. exact fit_step_reject_conv. Qed.

(* fit() never leaves the contract: it completes, or throws (arguments / solver) — for every shape. *)
Theorem C13_fit_defined : forall s a ok, snd (fit_step s a ok) <> Undefined.
Proof. exact fit_step_defined. Qed.

Theorem C13_fit_done : forall s a ok s',
  fit_step s a ok = (s', Done) <->
  fit_contract a = true /\ ok = true /\ s = TEmpty /\ s' = TFitted (orders a) (map fst (knotvecs a)).
Proof. exact fit_step_done. Qed.

(* a failure after the argument checks (the target already holds data; the solver fails) leaves the table as it was or empty *)
Theorem C13_runtime_failure_unchanged_or_empty : forall s a ok s', fit_step s a ok = (s', ThrowRuntime) -> s' = s \/ s' = TEmpty.
Proof. exact fit_step_runtime. Qed.

(* The C wrapper returns 0 exactly when the C++ fit on the implied containers completed; every argument rejection
   and every null pointer is a return of 1 with the object unchanged. *)
Theorem C13_c_wrapper : forall n s a ok,
  snd (glamfit_c n s a ok) = 0 <->
  table_null n = false /\ table_nodata n = false /\ data_null n = false /\ exists s', fit_step s (c_view a) ok = (s', Done).
Proof. exact c_wrapper_zero. Qed.

Theorem C13_c_wrapper_reject : forall n s a ok r, fit_check (c_view a) = Reject r -> glamfit_c n s a ok = (s, 1).
Proof. exact c_wrapper_reject. Qed.

Theorem C13_c_wrapper_nulls : forall n s a ok,
  table_null n || table_nodata n || data_null n = true -> glamfit_c n s a ok = (s, 1).
Proof. exact c_wrapper_nulls. Qed.

(* ---- History: the sanity block of the unchanged library (fit_check_v0) with the unchanged glam.c (fit_contract_v0)
   does not have the property.  One witness per missing clause (replayed against the real code: corpus/C13). ---- *)
Theorem C13_refuted_coordlen : exists a, fit_check_v0 a = Accept /\ fit_contract_v0 a = false /\ nthN (coordlens a) 0 < nthN (ranges a) 0.
Proof. exists w_coordlen. exact refuted_coordlen. Qed.
Theorem C13_refuted_knotcount : exists a, fit_check_v0 a = Accept /\ fit_contract_v0 a = false /\ knotlen a 0 < nthN (orders a) 0 + 2.
Proof. exists w_knotcount. exact refuted_knotcount. Qed.
Theorem C13_refuted_porder : exists a, fit_check_v0 a = Accept /\ fit_contract_v0 a = false /\ nthN (orders a) 0 < sel (porders a) 0 0.
Proof. exists w_porder. exact refuted_porder. Qed.
Theorem C13_refuted_porder_nsplines : exists a,
  fit_check_v0 a = Accept /\ fit_contract_v0 a = false /\ sel (porders a) 0 0 <= nthN (orders a) 0 /\
  knotlen a 0 - nthN (orders a) 0 - 1 < sel (porders a) 0 0.
Proof. exists w_pnsplines. exact refuted_pnsplines. Qed.
Theorem C13_refuted_order0 : exists a, fit_check_v0 a = Accept /\ fit_contract_v0 a = false /\ fit_contract_with true a = true.
Proof. exists w_order0. exact refuted_order0. Qed.
Theorem C13_refuted_rows0 : exists a, fit_check_v0 a = CheckFault (D DMaxIdx 0%nat).
Proof. exists w_rows0. exact refuted_rows0. Qed.
Theorem C13_refuted_ndim0 : exists a, fit_check_v0 a = Accept /\ fit_contract_v0 a = false /\ ndim a = 0%nat.
Proof. exists w_ndim0. exact refuted_ndim0. Qed.

(* ---- non-vacuity: each hypothesis is satisfiable on concrete, non-trivial instances ---- *)
Definition ex_valid2 : fitargs :=    (* 2 dimensions, per-dimension penalty, monotonic dimension 1 *)
  mk 36 [6; 6] [5; 5] 36 [6; 7] [2; 1] [(7, true); (6, true)] [true; false] [2; 5] (Some 1).
Example ex_accept : fit_check ex_valid2 = Accept /\ fit_contract ex_valid2 = true.
Proof. vm_compute. auto. Qed.
Example ex_done : fit_step TEmpty ex_valid2 true = (TFitted [2; 1] [7; 6], Done).
Proof. vm_compute. reflexivity. Qed.
Example ex_solver_failure_leaves_empty : fit_step TEmpty ex_valid2 false = (TEmpty, ThrowRuntime) /\ fit_step (TFitted [2] [8]) ex_valid2 true = (TFitted [2] [8], ThrowRuntime).
Proof. split; vm_compute; reflexivity. Qed.
(* first error in source order: both the weights count and the knot count are wrong — the weights check comes first *)
Example ex_first_error :
  fit_check (mk 8 [8] [7] 7 [8] [2] [(3, true)] [true] [2] None) = Reject (G GWeights) /\
  fit_check (mk 8 [8] [7] 8 [8] [2] [(3, false)] [true] [2] None) = Reject (D DKnotCount 0%nat) /\
  fit_check (mk 36 [6; 6] [5; 5] 36 [6; 6] [2; 1] [(7, true); (6, false)] [true] [2] None) = Reject (D DUnsorted 1%nat).
Proof. vm_compute. auto. Qed.
Example ex_reject_unchanged :
  fit_step (TFitted [2] [8]) w_porder true = (TFitted [2] [8], ThrowLogic (D DPenaltyOrder 0%nat)).
Proof. vm_compute. reflexivity. Qed.
(* an unused penalty order (smoothing 0) above the spline order is accepted: the penalty vanishes *)
Example ex_unused_porder : fit_check (mk 8 [8] [7] 8 [8] [1] [(8, true)] [false] [4] None) = Accept.
Proof. vm_compute. reflexivity. Qed.
Example ex_c_wrapper :
  glamfit_c {| table_null := false; table_nodata := false; data_null := false |} TEmpty ex_valid2 true = (TFitted [2; 1] [7; 6], 0) /\
  glamfit_c {| table_null := false; table_nodata := false; data_null := false |} TEmpty w_porder true = (TEmpty, 1) /\
  glamfit_c {| table_null := false; table_nodata := false; data_null := true |} TEmpty ex_valid2 true = (TEmpty, 1).
Proof. vm_compute. auto. Qed.
Example ex_witnesses_now_rejected :
  fit_check w_coordlen = Reject (D DCoordLen 0%nat) /\ fit_check w_knotcount = Reject (D DKnotCount 0%nat) /\
  fit_check w_knotwrap = Reject (D DKnotCount 0%nat) /\ fit_check w_porder = Reject (D DPenaltyOrder 0%nat) /\
  fit_check w_pnsplines = Reject (D DPenaltyOrder 0%nat) /\ fit_check w_order0 = Accept /\
  fit_check w_rows0 = Reject (G GRowsZero) /\ fit_check w_ndim0 = Reject (G GNdimZero).
Proof. exact witnesses_now. Qed.

Print Assumptions C13_accept_implies_contract.
Print Assumptions C13_accept_iff_contract.
Print Assumptions C13_checks_never_fault.
Print Assumptions C13_reject_sound.
Print Assumptions C13_reject_leaves_unchanged.
Print Assumptions C13_reject_throws.
Print Assumptions C13_fit_defined.
Print Assumptions C13_fit_done.
Print Assumptions C13_runtime_failure_unchanged_or_empty.
Print Assumptions C13_c_wrapper.
Print Assumptions C13_c_wrapper_reject.
Print Assumptions C13_c_wrapper_nulls.
Print Assumptions C13_refuted_coordlen.
Print Assumptions C13_refuted_knotcount.
Print Assumptions C13_refuted_porder.
Print Assumptions C13_refuted_porder_nsplines.
Print Assumptions C13_refuted_order0.
Print Assumptions C13_refuted_rows0.
Print Assumptions C13_refuted_ndim0.
