(* C09_Basis.v — the basis function of the fit model (FitModel.bspline, nat-indexed) is the SAME function as the one of the
   grid-evaluation model (GridModel.bspline_guarded, Z-indexed): both transcribe splineutil.c's static bspline(), which since
   fix 07dbb30 skips a Cox–de Boor term whose denominator vanishes and since fix F30_1 carries a flag for the side of the
   order-0 indicator. Hence every entry of FitModel.bsplinebasis is the Cox–de Boor function (BSpline.Bfun, 0/0 := 0) with the
   one-sided convention of the evaluation properties (BSpline.side_of) for EVERY knot vector, repeated knots included. *)
From Coq Require Import ZArith List Bool Lia PeanoNat.
From PS Require Import Arith EvalModel BSpline OFieldKit FitModel GridModel C17_Proofs.
Import ListNotations.

Section FitBasis.
Context {A : Arith}.
Notation K := (T A).

(* the knot array seen through Z indices *)
Definition knZ (kn : nat -> K) : Z -> K := fun z => kn (Z.to_nat z).

(* any arithmetic (binary64 included): term-for-term the same recursion *)
Lemma fit_bspline_is_guarded (kn : nat -> K) (x : K) (left : bool) : forall n i,
  FitModel.bspline kn x i n left = bspline_guarded (knZ kn) left n x (Z.of_nat i).
Proof.
  induction n as [|n IH]; intro i.
  - cbn [FitModel.bspline bspline_guarded]. unfold knZ, geb, gtb.
    replace (Z.to_nat (Z.of_nat i + 1)) with (i + 1) by lia. rewrite Nat2Z.id. reflexivity.
  - cbn [FitModel.bspline bspline_guarded]. rewrite !IH. unfold knZ, eqK, eqbK.
    replace (Z.of_nat (i + 1)) with (Z.of_nat i + 1)%Z by lia.
    replace (Z.to_nat (Z.of_nat i + Z.of_nat (S n))) with (i + S n) by lia.
    replace (Z.to_nat (Z.of_nat i + Z.of_nat (S n) + 1)) with (i + S n + 1) by lia.
    replace (Z.to_nat (Z.of_nat i + 1)) with (i + 1) by lia. rewrite Nat2Z.id. reflexivity.
Qed.

(* the dimension record (EvalModel.dimn) of a knot vector and an order as the fitter sees them: nknots = length,
   naxes = nknots-order-1; the stride plays no role for the basis *)
Definition fit_dim (knots : list K) (order : nat) : @dimn A :=
  EvalModel.mkDim order (Z.of_nat (length knots)) (Z.of_nat (length knots - order - 1)) 1 (knZ (fun i => nth i knots zero)).

(* over an ordered field: the Cox–de Boor function, no hypothesis on the knots *)
Variable F : OField A.
Lemma fit_bspline_is_cox_de_boor (kn : nat -> K) (x : K) left n i :
  FitModel.bspline kn x i n left = Bfun (knZ kn) (negb left) n (Z.of_nat i) x.
Proof. rewrite fit_bspline_is_guarded. apply (bspline_guarded_Bfun F). Qed.

(* side_of of that dimension, spelled out: x < knots[nknots-order-1] *)
Lemma fit_dim_side (knots : list K) (order : nat) (x : K) :
  side_of (fit_dim knots order) x = ltb x (nth (length knots - order - 1) knots zero).
Proof. unfold side_of, fit_dim, knZ. cbn [d_kn d_naxes]. rewrite Nat2Z.id. reflexivity. Qed.
(* every entry of bsplinebasis is the SPECIFICATION's basis function: Cox–de Boor with the one-sided convention of the
   evaluation properties (BSpline.side_of: right-continuous below knots[naxes], left-continuous from there upwards) *)
Lemma fit_basis_entry (knots xs : list K) (order r c : nat) :
  r < length xs -> c < length knots - order - 1 ->
  nth c (nth r (bsplinebasis knots xs order) []) zero
  = Bfun (d_kn (fit_dim knots order)) (side_of (fit_dim knots order) (nth r xs zero)) order (Z.of_nat c) (nth r xs zero).
Proof.
  intros Hr Hc. unfold bsplinebasis.
  set (kn := fun i => nth i knots zero).
  set (f := fun x => map (fun c0 => FitModel.bspline kn x c0 order (leb (kn (length knots - order - 1)) x)) (seq 0 (length knots - order - 1))).
  rewrite (nth_indep (map f xs) [] (f zero)) by (rewrite map_length; exact Hr). rewrite map_nth. unfold f.
  set (g := fun c0 => FitModel.bspline kn (nth r xs zero) c0 order (leb (kn (length knots - order - 1)) (nth r xs zero))).
  rewrite (nth_indep (map g (seq 0 (length knots - order - 1))) zero (g 0)) by (rewrite map_length, seq_length; exact Hc).
  rewrite map_nth, seq_nth by exact Hc. unfold g. cbn [plus]. rewrite fit_bspline_is_cox_de_boor.
  rewrite fit_dim_side. fold kn. unfold fit_dim; cbn [d_kn]. fold kn.
  rewrite (OF_ltb_leb A F). reflexivity.
Qed.
End FitBasis.
