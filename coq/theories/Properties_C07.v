(* Properties_C07.v — C07: reading any bytes either fails cleanly or yields a safe, well-formed table.
   Statements only; proofs in C07_Proofs.v, C07_Object.v, C07_Safe.v.

   The reader model is FitsModel (read_fits_core statement by statement, lenient byte-level HDU scan) followed by the consistency
   checks that tools/translators/readchecks.py finds in read_fits_core on every run (Generated_readchecks.read_checks). The theorems
   quantify over ALL byte strings. *)
From Coq Require Import List NArith ZArith Bool.
From PS Require Import Generated_fits FitsModel FitsWf C07_Checks Generated_readchecks C07_Model C07_Witness Resource.
From PS Require Import C07_Proofs C07_Object C07_Safe.
From PS Require Arith EvalModel C04_Proofs C05_Proofs.
Import ListNotations.

(* every table the reader hands out is well-formed in the property's sense (per dimension: coefficient count = knot count - order - 1
   and >= order + 1, knots finite and non-decreasing; row-major strides; array sizes consistent) and its sizes are the header's *)
Theorem C07_accept_wf : forall b t, read_bytes_checked b = RAccept t -> safe_table t = true /\ sizes_match_header b t.
Proof. exact accept_wf. Qed.
Theorem C07_accept_wf_mem : forall b t, read_mem_checked b = RAccept t -> safe_table t = true /\ sizes_match_header (whole_blocks b) t.
Proof. exact accept_wf_mem. Qed.
(* ... for any list of checks that contains the four required ones, whatever else it contains and in whatever order *)
Theorem C07_checks_sufficient : forall cs d t, has_required cs = true -> checked_with cs d = RAccept t -> safe_table t = true.
Proof. intros cs d t H1 H2. exact (proj1 (checked_accept cs d t H1 H2)). Qed.
(* the checks reject nothing that is well-formed (knot counts below 2^63, the range of the C type) *)
Theorem C07_checks_not_too_strong : forall x c, safe_dim x = true ->
  In c [CkAxisPositive; CkKnotsEnough 2 2; CkAxesMatch 1; CkKnotsFinite; CkKnotsSorted] ->
  (let '(o, a, k) := x in (N.of_nat (length k) < two63)%N) -> check_dim c x = true.
Proof. exact safe_dim_checks. Qed.

(* a well-formed table has the shape the evaluation-safety theorems take as hypotheses: C04_Proofs.wf_dim in every dimension (with knot
   values ordered as binary64 bit patterns), row-major strides, coefficient count = product of the axes *)
Theorem C07_wf_safe : forall t, safe_table t = true ->
  Forall (fun x => forall s, @C04_Proofs.wf_dim BitsA d64_ord (eval_dim x s)) (dims3 t) /\
  C05_Proofs.row_major (map Z.of_N (t_naxes t)) (map Z.of_N (t_strides t)) /\
  Z.of_nat (length (t_coeffs t)) = fold_right Z.mul 1%Z (map Z.of_N (t_naxes t)) /\
  length (dims3 t) = length (t_order t).
Proof. exact wf_safe. Qed.
Theorem C07_bits_order_laws : Arith.OrdLaws BitsA d64_ord.
Proof. exact BitsA_laws. Qed.
Theorem C07_bits_nan_unordered : forall x, d64_nan x = true -> @Arith.unordered BitsA x.
Proof. exact BitsA_nan_unordered. Qed.
(* hence (C04_terminates instantiated): the center lookup on an accepted table terminates *)
Theorem C07_lookup_terminates : forall t (cf : Z -> N) (xs : list N),
  safe_table t = true -> Forall d64_ord xs -> length xs = length (t_order t) ->
  @EvalModel.searchcenters BitsA (@EvalModel.mkTable BitsA (map (fun x => eval_dim x 0%N) (dims3 t)) cf) xs <> EvalModel.CNoFuel.
Proof. exact safe_lookup_terminates. Qed.

(* a failed read of ANY bytes into an empty object (with the cleanup guard) leaves it empty, unchanged, and frees what it allocated *)
Theorem C07_fail_is_empty : forall reader s b s' tr,
  obj_empty s = true -> read_step reader s b = (s', Failed, tr) -> obj_empty s' = true /\ s' = s /\ balanced tr = true.
Proof. exact fail_is_empty. Qed.
Theorem C07_loaded_owns_table : forall reader s b s' tr,
  obj_empty s = true -> read_step reader s b = (s', Loaded, tr) ->
  exists t, reader b = RAccept t /\ o_ndim s' = length (t_order t) /\ o_owned s' = table_allocs t /\ tr = allocs (table_allocs t).
Proof. exact read_step_loaded. Qed.
Theorem C07_populated_refuses : forall reader s b, o_ndim s <> 0%nat -> read_step reader s b = (s, Refused, []).
Proof. exact read_step_refuses. Qed.

(* the reader as the code WAS (no consistency checks, no cleanup) violates the property: concrete documents *)
Theorem C07_refuted_inconsistent_axes : unchecked_accepts_unsafe w_axes_short /\ unchecked_accepts_unsafe w_axes_long.
Proof. exact (conj refuted_axes_short refuted_axes_long). Qed.
Theorem C07_refuted_unsorted_knots : unchecked_accepts_unsafe w_unsorted /\ unchecked_accepts_unsafe w_nan.
Proof. exact (conj refuted_unsorted refuted_nan). Qed.
Theorem C07_refuted_few_knots : unchecked_accepts_unsafe w_few_knots /\ unchecked_accepts_unsafe w_zero_axis.
Proof. exact (conj refuted_few_knots refuted_zero_axis). Qed.
Theorem C07_refuted_negative_order : exists t, read_bytes_unchecked (encode w_neg_order) = RAccept t /\ safe_table t = false /\ t_order t = [4294967295%N].
Proof. exact refuted_neg_order. Qed.
Theorem C07_refuted_failed_read_nonempty :
  exists b s' tr, read_step_asis read_bytes_unchecked empty_obj b = (s', Failed, tr) /\ obj_empty s' = false /\ o_ndim s' = 1%nat /\ balanced tr = false.
Proof. exact refuted_failed_read_nonempty. Qed.
(* and the checked reader rejects each of them by the check that names its fault, while accepting the valid document *)
Theorem C07_checked_rejects_witnesses :
  map (fun w => match read_bytes_checked (encode (snd w)) with RAccept _ => None | RReject _ => Some None | RInvalid c => Some (Some c) end) witnesses =
  [None; Some (Some (CkAxesMatch 1)); Some (Some (CkAxesMatch 1)); Some (Some CkKnotsSorted); Some (Some CkKnotsFinite);
   Some (Some (CkKnotsEnough 2 2)); Some (Some CkAxisPositive); Some (Some (CkKnotsEnough 2 2)); Some None].
Proof. exact checked_on_witnesses. Qed.

(* non-vacuity: the valid witness is accepted by the checked reader with a safe table (so the hypotheses of C07_accept_wf, C07_wf_safe
   and C07_lookup_terminates are satisfiable), and a failing read step exists *)
Example C07_accepts_a_valid_file :
  match read_bytes_checked (encode w_valid) with RAccept t => safe_table t && (length (t_coeffs t) =? 3)%nat | _ => false end = true.
Proof. vm_compute. reflexivity. Qed.
Example C07_failing_step_exists :
  (let '(s', o, tr) := read_step read_bytes_checked empty_obj (encode w_unsorted) in
   match o with Failed => obj_empty s' && balanced tr && negb (match tr with [] => true | _ => false end) | _ => false end) = true.
Proof. vm_compute. reflexivity. Qed.

Print Assumptions C07_accept_wf.
Print Assumptions C07_accept_wf_mem.
Print Assumptions C07_checks_sufficient.
Print Assumptions C07_checks_not_too_strong.
Print Assumptions C07_wf_safe.
Print Assumptions C07_bits_order_laws.
Print Assumptions C07_bits_nan_unordered.
Print Assumptions C07_lookup_terminates.
Print Assumptions C07_fail_is_empty.
Print Assumptions C07_loaded_owns_table.
Print Assumptions C07_populated_refuses.
Print Assumptions C07_refuted_inconsistent_axes.
Print Assumptions C07_refuted_unsorted_knots.
Print Assumptions C07_refuted_few_knots.
Print Assumptions C07_refuted_negative_order.
Print Assumptions C07_refuted_failed_read_nonempty.
Print Assumptions C07_checked_rejects_witnesses.
Print Assumptions C07_accepts_a_valid_file.
Print Assumptions C07_failing_step_exists.
