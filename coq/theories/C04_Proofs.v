(* C04_Proofs.v — proof scripts for the center lookup (searchcenters). *)
From Coq Require Import ZArith List Bool Lia.
From PS Require Import Arith EvalModel.
Import ListNotations.
Local Open Scope Z_scope.

Section OneDim.
Context {A : Arith}.
Notation K := (T A).
Variable ord : K -> Prop.
Hypothesis laws : OrdLaws A ord.

Variable kn : Z -> K.
Variables nknots order naxes : Z.
Variable x : K.

Hypothesis Hord_x : ord x.
Hypothesis Hord_kn : forall i, 0 <= i < nknots -> ord (kn i).
Hypothesis Hsorted : forall i j, 0 <= i -> i <= j -> j < nknots -> leb (kn i) (kn j) = true.
Hypothesis Horder : 0 <= order.
Hypothesis Hnknots : 2 * order + 2 <= nknots.
Hypothesis Hnaxes : naxes = nknots - order - 1.

Let le (a b : K) := leb a b = true.
Let lt (a b : K) := ltb a b = true.

Lemma lt_not_le a b : ord a -> ord b -> (ltb a b = true <-> leb b a = false).
Proof. intros Ha Hb. rewrite (ltb_leb A ord laws a b Ha Hb). destruct (leb b a); simpl; split; congruence. Qed.

Lemma ltb_false_le a b : ord a -> ord b -> ltb a b = false -> leb b a = true.
Proof. intros Ha Hb. rewrite (ltb_leb A ord laws a b Ha Hb). destruct (leb b a); simpl; congruence. Qed.

Lemma leb_false_lt a b : ord a -> ord b -> leb a b = false -> ltb b a = true.
Proof. intros Ha Hb H. apply lt_not_le; assumption. Qed.

Lemma lt_le_trans a b c : ord a -> ord b -> ord c -> ltb a b = true -> leb b c = true -> ltb a c = true.
Proof.
  intros Ha Hb Hc H1 H2. apply lt_not_le; auto.
  destruct (leb c a) eqn:E; auto. exfalso.
  assert (leb b a = true) by (eapply (leb_trans A ord laws b c a); eauto).
  apply lt_not_le in H1; auto. congruence.
Qed.

Lemma le_lt_trans a b c : ord a -> ord b -> ord c -> leb a b = true -> ltb b c = true -> ltb a c = true.
Proof.
  intros Ha Hb Hc H1 H2. apply lt_not_le; auto.
  destruct (leb c a) eqn:E; auto. exfalso.
  assert (leb c b = true) by (eapply (leb_trans A ord laws c a b); eauto).
  apply lt_not_le in H2; auto. congruence.
Qed.

Lemma lt_irrefl a : ord a -> ltb a a = false.
Proof. intros Ha. rewrite (ltb_leb A ord laws a a Ha Ha). rewrite (leb_refl A ord laws a Ha). reflexivity. Qed.

(* a strict inequality between knots orders their indices *)
Lemma kn_lt_index i j : 0 <= i < nknots -> 0 <= j < nknots -> ltb (kn i) (kn j) = true -> i < j.
Proof.
  intros Hi Hj H. destruct (Z_lt_le_dec i j) as [L|L]; auto. exfalso.
  assert (leb (kn j) (kn i) = true) by (apply Hsorted; lia).
  apply lt_not_le in H; auto. congruence.
Qed.

(* ---------------------------------------------------------------------------------------------- *)
(* the binary search: invariant  order <= mn <= mx <= nknots-2, kn mn <= x < kn (mx+1) *)
Lemma bsearch_inv fuel : forall mn mx,
  0 <= mn -> mn <= mx -> mx <= nknots - 2 ->
  leb (kn mn) x = true -> ltb x (kn (mx + 1)) = true ->
  (Z.to_nat (mx - mn) < fuel)%nat ->
  exists c, bsearch kn fuel x mn mx = Some c /\ mn <= c <= mx /\
            leb (kn c) x = true /\ ltb x (kn (c + 1)) = true.
Proof.
  induction fuel as [|f IH]; intros mn mx Hmn Hle Hmx Hlo Hhi Hfuel; [lia|].
  cbn [bsearch].
  set (c := (mx + mn) / 2).
  assert (Hc : mn <= c <= mx) by (subst c; split; [apply Z.div_le_lower_bound; lia | apply Z.div_le_upper_bound; lia]).
  assert (Oc : ord (kn c)) by (apply Hord_kn; lia).
  assert (Oc1 : ord (kn (c + 1))) by (apply Hord_kn; lia).
  assert (Omn : ord (kn mn)) by (apply Hord_kn; lia).
  assert (Omx : ord (kn (mx + 1))) by (apply Hord_kn; lia).
  destruct (ltb x (kn c)) eqn:E1; cbn [orb].
  - (* x < kn c : max = c-1 *)
    assert (mn < c).
    { apply kn_lt_index; try lia. eapply le_lt_trans; [| | |exact Hlo|exact E1]; auto. }
    destruct (IH mn (c - 1)) as [c' [H1 [H2 [H3 H4]]]]; try lia; auto.
    + replace (c - 1 + 1) with c by lia. exact E1.
    + exists c'. repeat split; auto; lia.
  - unfold geb. destruct (leb (kn (c + 1)) x) eqn:E2.
    + (* x >= kn (c+1) : min = c+1 *)
      assert (c + 1 < mx + 1).
      { apply kn_lt_index; try lia. eapply le_lt_trans; [| | |exact E2|exact Hhi]; auto. }
      destruct (IH (c + 1) mx) as [c' [H1 [H2 [H3 H4]]]]; try lia; auto.
      exists c'. repeat split; auto; lia.
    + exists c. repeat split; try lia.
      * apply ltb_false_le; auto.
      * apply leb_false_lt; auto.
Qed.

(* ---------------------------------------------------------------------------------------------- *)
(* the walk over zero-width spans at the upper end: everything stepped over equals x, and it stops either at
   [order] or below x *)
Lemma skip_flat_spec fuel : forall c0,
  order <= c0 -> c0 < nknots -> (Z.to_nat (c0 - order) <= fuel)%nat -> leb (kn c0) x = true ->
  let c := skip_flat kn fuel x order c0 in
  order <= c <= c0 /\
  (forall j, c < j <= c0 -> leb x (kn j) = true /\ leb (kn j) x = true) /\
  (c = order \/ ltb (kn c) x = true).
Proof.
  induction fuel as [|f IH]; intros c0 H0 H1 Hf Hle; cbv zeta.
  - cbn [skip_flat]. split; [lia|]. split; [intros j Hj; lia|]. left. lia.
  - cbn [skip_flat].
    assert (Oc : ord (kn c0)) by (apply Hord_kn; lia).
    destruct (order <? c0) eqn:E0; cbn [andb].
    + apply Z.ltb_lt in E0. rewrite Hle, andb_true_r.
      destruct (leb x (kn c0)) eqn:E1.
      * assert (Hle' : leb (kn (c0 - 1)) x = true).
        { eapply (leb_trans A ord laws (kn (c0 - 1)) (kn c0) x); auto; [apply Hord_kn; lia|apply Hsorted; lia]. }
        destruct (IH (c0 - 1) ltac:(lia) ltac:(lia) ltac:(lia) Hle') as [I1 [I2 I3]].
        split; [lia|]. split; [|exact I3].
        intros j Hj. destruct (Z.eq_dec j c0) as [->|Hne]; [split; assumption|]. apply I2. lia.
      * split; [lia|]. split; [intros j Hj; lia|]. right. apply leb_false_lt; auto.
    + apply Z.ltb_ge in E0. split; [lia|]. split; [intros j Hj; lia|]. left. lia.
Qed.

(* ---------------------------------------------------------------------------------------------- *)
Lemma accepts_iff fuel :
  search_dim kn nknots fuel order naxes x <> Outside <->
  (ltb (kn 0) x = true /\ leb x (kn (nknots - 1)) = true).
Proof.
  unfold search_dim, gtb.
  destruct (ltb (kn 0) x) eqn:E0; cbn [andb negb].
  - destruct (leb x (kn (nknots - 1))) eqn:E1; cbn [negb].
    + split; intros _; [split; reflexivity|].
      destruct (ltb x (kn order)); [discriminate|].
      destruct (geb x (kn naxes)); [discriminate|].
      destruct (bsearch kn fuel x order (nknots - 2)); discriminate.
    + split; [congruence|]. intros [_ H]. discriminate.
  - split; [congruence|]. intros [H _]. discriminate.
Qed.

Lemma search_post fuel c :
  (Z.to_nat nknots <= fuel)%nat ->
  search_dim kn nknots fuel order naxes x = Found c ->
  order <= c <= nknots - order - 2 /\
  (leb (kn order) x = true -> ltb x (kn naxes) = true -> leb (kn c) x = true /\ ltb x (kn (c + 1)) = true) /\
  (ltb x (kn order) = true -> c = order) /\
  (leb (kn naxes) x = true ->
     c <= naxes - 1 /\
     (forall j, c < j <= naxes - 1 -> leb x (kn j) = true /\ leb (kn j) x = true) /\
     (c = order \/ ltb (kn c) x = true)).
Proof.
  intros Hfuel.
  assert (Oo : ord (kn order)) by (apply Hord_kn; lia).
  assert (On : ord (kn naxes)) by (apply Hord_kn; lia).
  assert (Ol : ord (kn (nknots - 1))) by (apply Hord_kn; lia).
  unfold search_dim.
  destruct (negb (gtb x (kn 0) && leb x (kn (nknots - 1)))) eqn:E0; [discriminate|].
  apply negb_false_iff in E0. apply andb_true_iff in E0. destruct E0 as [E0 E0']. unfold gtb in E0.
  destruct (ltb x (kn order)) eqn:E1.
  - intros H; inversion H; subst c.
    split; [lia|]. split; [|split].
    + intros Hq _. apply lt_not_le in E1; auto. congruence.
    + reflexivity.
    + intros Hq. exfalso.
      assert (Hon : leb (kn order) (kn naxes) = true) by (apply Hsorted; lia).
      assert (leb (kn order) x = true) by (eapply (leb_trans A ord laws); [| | | exact Hon | exact Hq]; auto).
      apply lt_not_le in E1; auto. congruence.
  - unfold geb. destruct (leb (kn naxes) x) eqn:E2.
    + assert (Hle1 : leb (kn (naxes - 1)) x = true).
      { eapply (leb_trans A ord laws (kn (naxes - 1)) (kn naxes) x); auto; [apply Hord_kn; lia|apply Hsorted; lia]. }
      destruct (skip_flat_spec (Z.to_nat (naxes - 1 - order)) (naxes - 1) ltac:(lia) ltac:(lia) ltac:(lia) Hle1) as [S1 [S2 S3]].
      intros H; inversion H; subst c.
      split; [lia|]. split; [|split].
      * intros _ Hq. apply lt_not_le in Hq; auto. congruence.
      * discriminate.
      * intros _. split; [lia|]. split; assumption.
    + assert (Hlo : leb (kn order) x = true) by (apply ltb_false_le; auto).
      assert (Hhi : ltb x (kn naxes) = true) by (apply leb_false_lt; auto).
      destruct (bsearch_inv fuel order (nknots - 2)) as [c' [H1 [H2 [H3 H4]]]]; try lia; auto.
      { replace (nknots - 2 + 1) with (nknots - 1) by lia.
        eapply lt_le_trans; [| | | exact Hhi |]; auto. apply Hsorted; lia. }
      rewrite H1. intros H; inversion H; clear H.
      assert (Oc' : ord (kn c')) by (apply Hord_kn; lia).
      assert (c' < naxes).
      { apply kn_lt_index; try lia. eapply le_lt_trans; [| | | exact H3 | exact Hhi]; auto. }
      assert (Hne : (c' =? naxes) = false) by (apply Z.eqb_neq; lia).
      rewrite Hne.
      split; [lia|]. split; [|split].
      * intros _ _. split; assumption.
      * discriminate.
      * congruence.
Qed.

Lemma search_terminates fuel :
  (Z.to_nat nknots <= fuel)%nat -> search_dim kn nknots fuel order naxes x <> NoFuel.
Proof.
  intros Hfuel.
  assert (Oo : ord (kn order)) by (apply Hord_kn; lia).
  assert (On : ord (kn naxes)) by (apply Hord_kn; lia).
  assert (Ol : ord (kn (nknots - 1))) by (apply Hord_kn; lia).
  unfold search_dim.
  destruct (negb (gtb x (kn 0) && leb x (kn (nknots - 1)))) eqn:E0; [discriminate|].
  apply negb_false_iff in E0. apply andb_true_iff in E0. destruct E0 as [E0 E0']. unfold gtb in E0.
  destruct (ltb x (kn order)) eqn:E1; [discriminate|].
  unfold geb. destruct (leb (kn naxes) x) eqn:E2; [discriminate|].
  assert (Hlo : leb (kn order) x = true) by (apply ltb_false_le; auto).
  assert (Hhi : ltb x (kn naxes) = true) by (apply leb_false_lt; auto).
  destruct (bsearch_inv fuel order (nknots - 2)) as [c' [H1 _]]; try lia; auto.
  { replace (nknots - 2 + 1) with (nknots - 1) by lia.
    eapply lt_le_trans; [| | | exact Hhi |]; auto. apply Hsorted; lia. }
  rewrite H1. discriminate.
Qed.

End OneDim.

(* ============================================================================================== *)
(** * All dimensions *)
Section AllDims.
Context {A : Arith}.
Notation K := (T A).
Variable ord : K -> Prop.
Hypothesis laws : OrdLaws A ord.

(* well-formedness of one dimension, as far as the lookup is concerned *)
Definition wf_dim (d : dimn) : Prop :=
  2 * Z.of_nat (d_order d) + 2 <= d_nknots d /\
  d_naxes d = d_nknots d - Z.of_nat (d_order d) - 1 /\
  (forall i, 0 <= i < d_nknots d -> ord (d_kn d i)) /\
  (forall i j, 0 <= i -> i <= j -> j < d_nknots d -> leb (d_kn d i) (d_kn d j) = true).

Definition in_range (d : dimn) (x : K) : Prop :=
  ltb (d_kn d 0) x = true /\ leb x (d_kn d (d_nknots d - 1)) = true.

Definition center_post (d : dimn) (x : K) (c : Z) : Prop :=
  let o := Z.of_nat (d_order d) in
  o <= c <= d_nknots d - o - 2 /\
  (leb (d_kn d o) x = true -> ltb x (d_kn d (d_naxes d)) = true ->
     leb (d_kn d c) x = true /\ ltb x (d_kn d (c + 1)) = true) /\
  (ltb x (d_kn d o) = true -> c = o) /\
  (* from the upper end of full support upwards: the last fully supported span, stepping down over zero-width spans
     on a repeated knot (everything stepped over equals x) until a span of positive width or [order] is reached *)
  (leb (d_kn d (d_naxes d)) x = true ->
     c <= d_naxes d - 1 /\
     (forall j, c < j <= d_naxes d - 1 -> leb x (d_kn d j) = true /\ leb (d_kn d j) x = true) /\
     (c = o \/ ltb (d_kn d c) x = true)).

(* the common case: x above the knot before the upper end (no repeated knot there, or x in the right margin):
   the index is the last fully supported span *)
Lemma center_post_last (d : dimn) (x : K) (c : Z) :
  wf_dim d -> ord x -> center_post d x c ->
  leb (d_kn d (d_naxes d)) x = true -> ltb (d_kn d (d_naxes d - 1)) x = true -> c = d_naxes d - 1.
Proof.
  intros [W1 [W2 [W3 W4]]] Ox [P1 [_ [_ P4]]] H1 H2. destruct (P4 H1) as [Q1 [Q2 _]].
  destruct (Z.eq_dec c (d_naxes d - 1)) as [E|E]; [exact E|]. exfalso.
  destruct (Q2 (d_naxes d - 1) ltac:(lia)) as [Q _].
  rewrite (ltb_leb A ord laws _ _ (W3 (d_naxes d - 1) ltac:(lia)) Ox), Q in H2. discriminate.
Qed.

Inductive Forall3 {X Y Z0} (P : X -> Y -> Z0 -> Prop) : list X -> list Y -> list Z0 -> Prop :=
| F3_nil : Forall3 P [] [] []
| F3_cons a b c la lb lc : P a b c -> Forall3 P la lb lc -> Forall3 P (a :: la) (b :: lb) (c :: lc).

Lemma search_dim_cases d x :
  wf_dim d -> ord x ->
  (search_dim (d_kn d) (d_nknots d) (fuel_of d) (Z.of_nat (d_order d)) (d_naxes d) x = Outside /\ ~ in_range d x) \/
  (exists c, search_dim (d_kn d) (d_nknots d) (fuel_of d) (Z.of_nat (d_order d)) (d_naxes d) x = Found c /\
             in_range d x /\ center_post d x c).
Proof.
  intros [W1 [W2 [W3 W4]]] Ox.
  pose proof (accepts_iff (d_kn d) (d_nknots d) (Z.of_nat (d_order d)) (d_naxes d) x (fuel_of d)) as Hacc.
  pose proof (search_terminates ord laws (d_kn d) (d_nknots d) (Z.of_nat (d_order d)) (d_naxes d) x Ox W3 W4 ltac:(lia) W1 W2 (fuel_of d)) as Hterm.
  pose proof (search_post ord laws (d_kn d) (d_nknots d) (Z.of_nat (d_order d)) (d_naxes d) x Ox W3 W4 ltac:(lia) W1 W2 (fuel_of d)) as Hpost.
  assert (Hf : (Z.to_nat (d_nknots d) <= fuel_of d)%nat) by (unfold fuel_of; lia).
  destruct (search_dim (d_kn d) (d_nknots d) (fuel_of d) (Z.of_nat (d_order d)) (d_naxes d) x) as [|c|] eqn:E.
  - left. split; auto. intro Hin. apply Hacc in Hin. congruence.
  - right. exists c. split; auto. split.
    + apply Hacc. discriminate.
    + apply Hpost; auto.
  - exfalso. apply Hterm; auto.
Qed.

Lemma searchcenters_dims_spec ds : forall xs,
  Forall wf_dim ds -> Forall ord xs -> length xs = length ds ->
  (searchcenters_dims ds xs = COutside /\ ~ Forall2 in_range ds xs) \/
  (exists cs, searchcenters_dims ds xs = CFound cs /\ Forall2 in_range ds xs /\ Forall3 center_post ds xs cs).
Proof.
  induction ds as [|d ds IH]; intros xs Hwf Hord Hlen.
  - destruct xs; [|discriminate]. right. exists []. repeat split; constructor.
  - destruct xs as [|x xs]; [discriminate|].
    inversion Hwf as [|? ? Wd Wds]; subst. inversion Hord as [|? ? Ox Oxs]; subst.
    cbn [searchcenters_dims].
    destruct (search_dim_cases d x Wd Ox) as [[E Hn]|[c [E [Hin Hp]]]]; rewrite E.
    + left. split; auto. intro H. inversion H; subst. auto.
    + destruct (IH xs Wds Oxs ltac:(simpl in Hlen; lia)) as [[E2 Hn]|[cs [E2 [Hin2 Hp2]]]]; rewrite E2.
      * left. split; auto. intro H. inversion H; subst. auto.
      * right. exists (c :: cs). repeat split; constructor; auto.
Qed.

Section Top.
Variable t : @table A.
Variable xs : list K.
Hypothesis Hwf : Forall wf_dim (dims t).
Hypothesis Hxs : Forall ord xs.
Hypothesis Hlen : length xs = length (dims t).

Lemma sc_terminates : searchcenters t xs <> CNoFuel.
Proof.
  unfold searchcenters.
  destruct (searchcenters_dims_spec (dims t) xs Hwf Hxs Hlen) as [[E _]|[cs [E _]]]; rewrite E; discriminate.
Qed.

Lemma sc_accepts_iff : (exists cs, searchcenters t xs = CFound cs) <-> Forall2 in_range (dims t) xs.
Proof.
  unfold searchcenters.
  destruct (searchcenters_dims_spec (dims t) xs Hwf Hxs Hlen) as [[E Hn]|[cs [E [Hin _]]]]; rewrite E.
  - split; [intros [cs H]; discriminate | intro H; contradiction].
  - split; [intros _; exact Hin | intros _; exists cs; reflexivity].
Qed.

Lemma sc_rejects_iff : searchcenters t xs = COutside <-> ~ Forall2 in_range (dims t) xs.
Proof.
  unfold searchcenters.
  destruct (searchcenters_dims_spec (dims t) xs Hwf Hxs Hlen) as [[E Hn]|[cs [E [Hin _]]]]; rewrite E.
  - split; auto.
  - split; [discriminate | intro H; contradiction].
Qed.

Lemma sc_post : forall cs, searchcenters t xs = CFound cs -> Forall3 center_post (dims t) xs cs.
Proof.
  intros cs. unfold searchcenters.
  destruct (searchcenters_dims_spec (dims t) xs Hwf Hxs Hlen) as [[E Hn]|[cs' [E [_ Hp]]]]; rewrite E.
  - discriminate.
  - intros H; inversion H; subst; exact Hp.
Qed.

(* the common case at the upper end: above the knot before knots[naxes] the index is the last fully supported span *)
Definition center_last (d : dimn) (x : K) (c : Z) : Prop :=
  leb (d_kn d (d_naxes d)) x = true -> ltb (d_kn d (d_naxes d - 1)) x = true -> c = d_naxes d - 1.
Lemma sc_post_last : forall cs, searchcenters t xs = CFound cs -> Forall3 center_last (dims t) xs cs.
Proof.
  intros cs Hsc. pose proof (sc_post cs Hsc) as HP. clear Hsc Hlen.
  revert Hwf Hxs. induction HP as [|d x c ds xs' cs' Hp HP IH]; intros Hwf Hxs; constructor.
  - inversion Hwf; subst. inversion Hxs; subst. intros Ha Hb. eapply center_post_last; eauto.
  - inversion Hwf; subst. inversion Hxs; subst. apply IH; assumption.
Qed.
End Top.

Lemma call_operator_spec (t : @table A) (xs : list K) :
  (searchcenters t xs = COutside -> call_operator t xs = zero) /\
  (forall cs, searchcenters t xs = CFound cs -> call_operator t xs = ndsplineeval t xs cs 0).
Proof.
  unfold call_operator. split.
  - intros E; rewrite E; reflexivity.
  - intros cs E; rewrite E; reflexivity.
Qed.

End AllDims.
