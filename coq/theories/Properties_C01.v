(* Properties_C01.v — C01: evaluation equals the tensor-product B-spline sum it represents.
   Statements only; proofs are in C01_Basis.v (one dimension: de Boor's recurrence with the margin walk and
   re-indexing of bsplvb_simple), C01_Core.v (all dimensions: the odometer walk over the coefficient block) and
   C01_Proofs.v (assembly, local support).

   The statements hold over EVERY ordered field (Arith.OField: field laws, total order, rnd = identity); the
   executed instance is Qc (exact rationals). The same polymorphic Gallina term (EvalModel.ndsplineeval),
   instantiated with IEEE binary32/binary64 operations, is compared BITWISE with the C++ on every run; the gap
   between the two instantiations is rounding, which is measured against exact rationals, not proved. *)
From Coq Require Import ZArith List Bool Lia QArith Qcanon.
From PS Require Import Arith EvalModel BSpline C04_Proofs OFieldKit C01_Basis C01_Core C01_Proofs.
Import ListNotations.
Local Open Scope Z_scope.

Section C01.
Context {A : Arith}.
Variable F : OField A.
Variable t : @table A.
Variable xs : list (T A).
Variable cs : list Z.

Hypothesis Hne  : dims t <> [].                                    (* at least one dimension *)
Hypothesis Hwf  : Forall (wf_dim (fun _ => True)) (dims t).        (* >= 2*order+2 knots, naxes = nknots-order-1, knots non-decreasing on [0,nknots) — NOTHING is assumed about the allocation padding outside *)
Hypothesis Hrow : nth (ndim_of t - 1) (strides_of t) 0 = 1.        (* the last dimension is contiguous (row-major storage) *)
Hypothesis Hlen : length xs = length (dims t).
Hypothesis Hsc  : searchcenters t xs = CFound cs.                  (* center lookup succeeded *)
Hypothesis Hreg : Forall2 eval_regular (dims t) xs.            (* the fully supported range is not the single point x (implied by knots[order] < knots[naxes]) *)

(* The evaluated value is the sum over ALL stored coefficients of coefficient times the product over
   dimensions of the Cox–de Boor basis function of the stored order on the stored knots, right-continuous below
   the upper end of the fully supported range and left-continuous from there upwards (BSpline.side_of) — in the
   interior, in both margins, and exactly on knots. *)
Theorem C01_eval_is_tensor_sum : ndsplineeval t xs cs 0 = spline_spec t xs (repeat O (ndim_of t)).
Proof. exact (eval_is_tensor_sum F t xs cs Hne Hwf Hrow Hlen Hsc Hreg). Qed.

(* hence the call operator too *)
Theorem C01_call_operator_is_tensor_sum : call_operator t xs = spline_spec t xs (repeat O (ndim_of t)).
Proof. unfold call_operator. rewrite Hsc. exact C01_eval_is_tensor_sum. Qed.

(* A table whose coefficients are all one evaluates to one everywhere in the fully supported region
   (knots[order] <= x <= knots[naxes] in every dimension): partition of unity, proved through the recurrence itself
   (each round of de Boor's recurrence preserves the sum of the entries). *)
Theorem C01_all_ones : (forall p, coef t p = one) -> Forall2 fully_supported (dims t) xs -> ndsplineeval t xs cs 0 = one.
Proof. intros H1 Hfs. exact (eval_all_ones F t xs cs Hne Hwf Hrow Hlen Hsc Hreg H1 Hfs). Qed.

(* The margin code deliberately reads the uninitialised allocation padding of the knot arrays. The evaluated value does not
   depend on it: a table t' that differs from t only in what lies outside [0, nknots) in the knot arrays evaluates identically. *)
Theorem C01_padding_irrelevant : forall (t' : @table A) cs',
  Forall2 same_dim (dims t) (dims t') -> coef t' = coef t ->
  dims t' <> [] -> Forall (wf_dim (fun _ => True)) (dims t') -> nth (ndim_of t' - 1) (strides_of t') 0 = 1 ->
  searchcenters t' xs = CFound cs' -> Forall2 eval_regular (dims t') xs ->
  ndsplineeval t' xs cs' 0 = ndsplineeval t xs cs 0.
Proof.
  intros t' cs' Hsame Hcf Hne' Hwf' Hrow' Hsc' Hreg'.
  assert (Hl : length (dims t) = length (dims t')) by (clear - Hsame; induction Hsame; cbn [length]; lia).
  rewrite (eval_is_tensor_sum F t xs cs Hne Hwf Hrow Hlen Hsc Hreg).
  rewrite (eval_is_tensor_sum F t' xs cs' Hne' Hwf' Hrow' ltac:(lia) Hsc' Hreg').
  unfold spline_spec, ndim_of. rewrite Hcf. symmetry. apply tensor_sum_padding; [exact Hsame|].
  eapply Forall_impl; [|exact Hwf]. intros d [W1 [W2 _]]. split; lia.
Qed.
End C01.

(* One dimension, the heart of it: whatever interval the margin walk ends in, bsplvb_simple returns the n+1
   Cox–de Boor functions B_{c-n..c, n}(x) of the CENTER interval — values that depend on the allocation padding
   are exactly the ones the re-indexing discards. *)
Theorem C01_local_basis : forall (A : Arith) (F : OField A) (kn : Z -> T A) (nknots : Z),
  (forall i j, 0 <= i -> i <= j -> j < nknots -> OFieldKit.le (kn i) (kn j)) ->
  forall (n : nat) (x : T A) (side : bool) (c : Z),
  walk_post kn nknots n x side c (adjust_left kn nknots (Z.of_nat n) x c) ->
  bsplvb_simple kn nknots n x c = map (fun i => Bfun kn side n (c - Z.of_nat n + Z.of_nat i) x) (seq 0 (S n)).
Proof. intros A F kn nknots Hm n x side c W. exact (bsplvb_simple_B F kn nknots Hm n x side c W). Qed.

(* All dimensions: the odometer walk over the (order+1)^ndim coefficient block is the nested sum. *)
Theorem C01_core_is_block_sum : forall (A : Arith) (F : OField A) (t : @table A) (cs : list Z) (lbs : list (list (T A))),
  dims t <> [] -> length lbs = ndim_of t ->
  (forall i, (i < ndim_of t)%nat -> length (nth i lbs []) = S (nth i (orders_of t) O)) ->
  nth (ndim_of t - 1) (strides_of t) 0 = 1 ->
  core_generic t cs lbs = block_sum (coef t) lbs (strides_of t) (init_pos (orders_of t) (strides_of t) cs) one.
Proof. intros A F t cs lbs. exact (core_generic_block F t cs lbs). Qed.

(* ---------------------------------------------------------------------------------------------- *)
(* Non-vacuity and the executed instance: exact rationals. *)
Definition qz (z : Z) : Qc := Q2Qc (inject_Z z).
Definition ex1_dim : @dimn QcA := @mkDim QcA 2%nat 8 5 1 (fun i => qz i).          (* order 2, knots 0..7 *)
Definition ex1_tab : @table QcA := @mkTable QcA [ex1_dim] (fun i => qz (i * i + 1)). (* coefficients 1,2,5,10,17 *)

Lemma ex1_wf : Forall (wf_dim (A := QcA) (fun _ => True)) (dims ex1_tab).
Proof.
  constructor; [|constructor]. unfold wf_dim, ex1_dim; cbn [d_order d_nknots d_naxes d_kn].
  split; [lia|]. split; [lia|]. split; [auto|].
  intros i j Hi Hij Hj. unfold qz. apply Qc_leb_le. unfold Qcle. cbn [this Q2Qc].
  rewrite !Qred_correct. rewrite <- Zle_Qle. lia.
Qed.

(* a point in the fully supported interior, one in the left margin, the upper end of full support and the last knot *)
Example C01_hypotheses_satisfiable :
  forall x, In x [Q2Qc (7 # 2); Q2Qc (1 # 2); qz 5; qz 7] ->
  exists cs, searchcenters ex1_tab [x] = CFound cs /\ Forall2 (@eval_regular QcA) (dims ex1_tab) [x] /\
             ndsplineeval ex1_tab [x] cs 0 = spline_spec ex1_tab [x] [O].
Proof.
  intros x Hx.
  assert (Hsc : exists cs, searchcenters ex1_tab [x] = CFound cs).
  { cbn [In] in Hx. destruct Hx as [<-|[<-|[<-|[<-|[]]]]]; eexists; vm_compute; reflexivity. }
  destruct Hsc as [cs Hsc]. exists cs. split; [exact Hsc|].
  assert (Hreg : Forall2 (@eval_regular QcA) (dims ex1_tab) [x]).
  { constructor; [|constructor]. unfold eval_regular. intros H.
    cbn [In] in Hx. destruct Hx as [<-|[<-|[<-|[<-|[]]]]]; vm_compute in H; vm_compute; congruence. }
  split; [exact Hreg|].
  apply (C01_eval_is_tensor_sum QcA_OField ex1_tab [x] cs); try assumption.
  - discriminate.
  - exact ex1_wf.
  - reflexivity.
  - reflexivity.
Qed.

(* D17 (fixed in /repo by stepping down over zero-width spans in searchcenters): exactly on a repeated knot at the
   upper end of the fully supported range the lookup used to return the zero-width span naxes-1 = 5, on which the
   recurrence computes 0/0 (on Qc division by zero yields 0, in IEEE arithmetic NaN). It now returns span 4, and the
   evaluation is the tensor sum (left-continuous) there. *)
Definition ex2_kn (i : Z) : Qc := qz (if i <? 6 then i else i - 1).   (* 0 1 2 3 4 5 5 6 7 *)
Definition ex2_tab : @table QcA := @mkTable QcA [@mkDim QcA 2%nat 9 6 1 ex2_kn] (fun _ => qz 1).
Theorem C01_refuted_old_center :
  searchcenters ex2_tab [qz 5] = CFound [4] /\
  spline_spec ex2_tab [qz 5] [O] = qz 1 /\
  ndsplineeval ex2_tab [qz 5] [4] 0 = qz 1 /\
  ndsplineeval ex2_tab [qz 5] [5] 0 <> spline_spec ex2_tab [qz 5] [O].       (* the center returned before the fix *)
Proof. split; [vm_compute; reflexivity|]. split; [vm_compute; reflexivity|]. split; [vm_compute; reflexivity|]. vm_compute. discriminate. Qed.

(* the remaining hypothesis [eval_regular] cannot be dropped: when the fully supported range itself has zero width
   (knots[order] = ... = knots[naxes]) there is no span of positive width to step down to inside [order, naxes-1],
   and at that single point the recurrence still runs on a zero-width span. *)
Definition ex3_kn (i : Z) : Qc := qz (if i <? 2 then i else if i <? 6 then 2 else i - 3).   (* 0 1 2 2 2 2 3 4 *)
Definition ex3_tab : @table QcA := @mkTable QcA [@mkDim QcA 2%nat 8 5 1 ex3_kn] (fun _ => qz 1).
Theorem C01_refuted_without_regularity :
  searchcenters ex3_tab [qz 2] = CFound [2] /\
  ~ eval_regular (A := QcA) (@mkDim QcA 2%nat 8 5 1 ex3_kn) (qz 2) /\
  ndsplineeval ex3_tab [qz 2] [2] 0 <> spline_spec ex3_tab [qz 2] [O].
Proof.
  split; [vm_compute; reflexivity|]. split.
  - unfold eval_regular. intro H. assert (H1 : OFieldKit.lt (A := QcA) (qz 2) (qz 2)) by (apply H; vm_compute; reflexivity).
    vm_compute in H1. discriminate.
  - vm_compute. discriminate.
Qed.

(* a table-only sufficient condition: the fully supported range has positive width in every dimension *)
Theorem C01_eval_is_tensor_sum_nondegenerate : forall (A : Arith) (F : OField A) (t : @table A) (xs : list (T A)) (cs : list Z),
  dims t <> [] -> Forall (wf_dim (fun _ => True)) (dims t) -> nth (ndim_of t - 1) (strides_of t) 0 = 1 ->
  length xs = length (dims t) -> searchcenters t xs = CFound cs ->
  Forall full_support_nonempty (dims t) ->
  ndsplineeval t xs cs 0 = spline_spec t xs (repeat O (ndim_of t)).
Proof.
  intros A F t xs cs Hne Hwf Hrow Hlen Hsc Hnd.
  apply (eval_is_tensor_sum F t xs cs Hne Hwf Hrow Hlen Hsc).
  clear - Hnd Hlen F. revert xs Hlen. induction Hnd as [|d ds Hd Hds IH]; intros [|x xs] Hlen; try discriminate; constructor.
  - apply (nonempty_regular F). exact Hd.
  - apply IH. cbn [length] in Hlen. lia.
Qed.

Print Assumptions C01_eval_is_tensor_sum.
Print Assumptions C01_call_operator_is_tensor_sum.
Print Assumptions C01_all_ones.
Print Assumptions C01_padding_irrelevant.
Print Assumptions C01_local_basis.
Print Assumptions C01_core_is_block_sum.
Print Assumptions C01_hypotheses_satisfiable.
Print Assumptions C01_refuted_old_center.
Print Assumptions C01_refuted_without_regularity.
Print Assumptions C01_eval_is_tensor_sum_nondegenerate.
