(* Properties_C01.v — placeholder while the de Boor invariant is being proved; see C01_Proofs.v *)
From Coq Require Import ZArith List.
From PS Require Import Arith EvalModel BSpline.
