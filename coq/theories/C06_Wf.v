(* C06_Wf.v — wf_table' t = true -> wf_doc (to_doc t) = true: the card-level well-formedness of the document that
   write_fits_core produces, derived from table-level conditions (FitsWf.wf_table'), the full byte-level round trip,
   and the model of splinetable::operator== on the reloaded table. *)
From Coq Require Import List NArith ZArith Bool Lia ZifyBool Decimal DecimalFacts DecimalN DecimalPos Arith.
From PS Require Import Generated_fits FitsModel FitsWf C06_Proofs C06_L1.
Import ListNotations.
Open Scope N_scope.

(* ================================================================================================ *)
(* A. number of decimal digits: n < 10^k -> length (dec n) <= k *)
Lemma usize_length u : DecimalPos.Unsigned.usize u = N.of_nat (length (uint_to_str u)).
Proof. induction u; cbn [DecimalPos.Unsigned.usize uint_to_str length]; rewrite ?IHu; lia. Qed.

Lemma of_uint_acc_ge l acc : 10 ^ DecimalPos.Unsigned.usize l <= Npos (Pos.of_uint_acc l acc).
Proof.
  rewrite DecimalPos.Unsigned.of_uint_acc_rev.
  assert (1 * 10 ^ DecimalPos.Unsigned.usize l <= N.pos acc * 10 ^ DecimalPos.Unsigned.usize l) by (apply N.mul_le_mono_r; lia).
  lia.
Qed.

(* the decimal representation of a positive number does not start with 0 *)
Lemma to_uint_no_leading_zero p l : Pos.to_uint p <> D0 l.
Proof.
  intros E.
  assert (U : unorm (Pos.to_uint p) = Pos.to_uint p).
  { pose proof (DecimalN.Unsigned.to_of (N.to_uint (Npos p))) as T. rewrite DecimalN.Unsigned.of_to in T.
    cbn [N.to_uint] in T. symmetry. exact T. }
  rewrite E in U. rewrite unorm_D0 in U.
  destruct l as [| l | l | l | l | l | l | l | l | l | l]; [apply (DecimalPos.Unsigned.to_uint_nonzero p); exact E|..];
    match type of U with unorm ?d = _ => pose proof (nb_digits_unorm d ltac:(discriminate)) as B end;
    rewrite U in B; cbn [nb_digits] in B; lia.
Qed.

Lemma dec_length_bound n k : (1 <= k)%nat -> n < 10 ^ N.of_nat k -> (length (dec n) <= k)%nat.
Proof.
  intros K H. destruct n as [|p]; [cbn; lia|].
  unfold dec. cbn [N.to_uint].
  pose proof (DecimalPos.Unsigned.of_to p) as OT.
  destruct (Pos.to_uint p) as [| l | l | l | l | l | l | l | l | l | l] eqn:E;
    [exfalso; apply (DecimalPos.Unsigned.to_uint_nonnil p); exact E
    |exfalso; apply (to_uint_no_leading_zero p l); exact E|..];
    (* leading digit d = 1..9: Npos p = of_uint_acc l d >= 10 ^ (number of remaining digits) *)
    cbn [Pos.of_uint] in OT; injection OT as OT;
    match type of OT with Pos.of_uint_acc _ ?d = _ => pose proof (of_uint_acc_ge l d) as G end;
    rewrite OT, usize_length in G; cbn [uint_to_str length];
    (destruct (le_lt_dec (S (length (uint_to_str l))) k) as [|L]; [assumption|exfalso]);
    assert (10 ^ N.of_nat k <= 10 ^ N.of_nat (length (uint_to_str l))) by (apply N.pow_le_mono_r; lia); lia.
Qed.

Lemma two64_lt_pow : two64N < 10 ^ N.of_nat 20. Proof. vm_compute. reflexivity. Qed.
Lemma thousand_pow : 1000 = 10 ^ N.of_nat 3. Proof. reflexivity. Qed.

Lemma dec_length_64 n : n < two64N -> (length (dec n) <= 20)%nat.
Proof. intros H. apply dec_length_bound; [lia|]. pose proof two64_lt_pow. lia. Qed.

Lemma dec_length_1000 n : n < 1000 -> (length (dec n) <= 3)%nat.
Proof. intros H. apply dec_length_bound; [lia|]. rewrite <- thousand_pow. exact H. Qed.

(* ================================================================================================ *)
(* B. value tokens *)
Lemma print_int_of_N n : print_int (Z.of_N n) = dec n.
Proof. destruct n; reflexivity. Qed.

Lemma digit_tok_char c : is_digit c = true -> negb (c =? sp) && negb (c =? slash) = true /\ negb (c =? quote) = true.
Proof. unfold is_digit, sp, slash, quote. lia. Qed.

Lemma digits_tok_ok l : forallb is_digit l = true -> tok_ok l = true.
Proof.
  intros D. unfold tok_ok. apply andb_true_iff. split.
  - unfold tok_chars. rewrite forallb_forall in *. intros c Hc. apply digit_tok_char. auto.
  - destruct l as [|c r]; [reflexivity|]. cbn [forallb] in D. apply andb_true_iff in D as [D _]. apply digit_tok_char. exact D.
Qed.

Lemma tok_ok_dec n : tok_ok (dec n) = true.
Proof. apply digits_tok_ok, dec_digits. Qed.

Lemma value_text_tok_length tk : length (value_text (VTok tk)) = Nat.max 20 (length tk).
Proof. unfold value_text, pad_left. rewrite app_length, repeat_length. lia. Qed.

(* ================================================================================================ *)
(* C. keys the library writes itself: letters followed by a decimal index *)
Definition good_key (k : str) : Prop :=
  (length k <= 9)%nat /\ no_char sp k = true /\ no_char eqc k = true /\ k <> [] /\ is_commentary8 (pad_right 8 k) = false.

Lemma no_char_hd x k : no_char x k = true -> k <> [] -> negb (hd x k =? x) = true.
Proof. destruct k as [|c r]; [congruence|]. cbn. intros H _. apply andb_true_iff in H as [H _]. exact H. Qed.

Lemma no_char_last x k : no_char x k = true -> k <> [] -> negb (last k x =? x) = true.
Proof. intros H NE. apply (last_forallb (fun c => negb (c =? x))); auto. Qed.

Lemma wf_card_good key v : good_key key -> wf_value v = true -> (length (value_text v) <= 59)%nat ->
  wf_card (Card key v) = true.
Proof.
  intros (L & S & E & NE & C) WV LV. unfold wf_card, card_text.
  destruct (length key <=? 8)%nat eqn:LK.
  - apply Nat.leb_le in LK. rewrite !app_length, pad_right_length by exact LK. rewrite WV, S, C. cbn [length negb andb].
    apply andb_true_iff. split; [apply Nat.leb_le; lia|reflexivity].
  - rewrite !app_length. change (length s_HIER9) with 9%nat. cbn [length]. rewrite WV, E, no_char_hd, no_char_last by auto.
    cbn [andb]. rewrite andb_true_r. apply Nat.leb_le. lia.
Qed.

Lemma wf_int_card key n : good_key key -> n < two64N -> wf_card (int_card key (Z.of_N n)) = true.
Proof.
  intros G H. unfold int_card. rewrite print_int_of_N. apply wf_card_good; auto.
  - cbn [wf_value]. apply tok_ok_dec.
  - rewrite value_text_tok_length. pose proof (dec_length_64 n H). lia.
Qed.

Lemma not_commentary_hd c r : c <> 67 -> c <> 72 -> c <> 32 -> c <> 69 -> is_commentary8 (pad_right 8 (c :: r)) = false.
Proof.
  intros H1 H2 H3 H4. apply N.eqb_neq in H1, H2, H3, H4.
  unfold is_commentary8, pad_right, s_COMMENT8, s_HISTORY8, s_BLANK8, s_CONTINUE, s_END8. cbn [List.app str_eqb].
  rewrite H1, H2, H3, H4. reflexivity.
Qed.

Definition is_upper (c : N) : bool := (65 <=? c) && (c <=? 90).

Lemma alnum_no_char x l : x < 48 \/ (57 < x /\ x < 65) -> forallb (fun c => is_upper c || is_digit c) l = true -> no_char x l = true.
Proof.
  intros Hx F. unfold no_char. rewrite forallb_forall in *. intros c Hc. specialize (F c Hc).
  unfold is_upper, is_digit in F. lia.
Qed.

Lemma good_keyn base i : (length base <= 6)%nat -> forallb is_upper base = true ->
  (match base with c :: _ => c <> 67 /\ c <> 72 /\ c <> 69 | [] => False end) -> i < 1000 -> good_key (keyn base i).
Proof.
  intros L U H I. unfold keyn.
  assert (A : forallb (fun c => is_upper c || is_digit c) (base ++ dec i) = true).
  { rewrite forallb_app. apply andb_true_iff. split.
    - rewrite forallb_forall in *. intros c Hc. rewrite (U c Hc). reflexivity.
    - pose proof (dec_digits i) as D. rewrite forallb_forall in *. intros c Hc. rewrite (D c Hc). apply orb_true_r. }
  repeat split.
  - rewrite app_length. pose proof (dec_length_1000 i I). lia.
  - apply alnum_no_char; [unfold sp; lia|exact A].
  - apply alnum_no_char; [unfold eqc; lia|exact A].
  - destruct base; [contradiction|discriminate].
  - destruct base as [|c r]; [contradiction|]. destruct H as (H1 & H2 & H3). cbn [List.app].
    apply not_commentary_hd; auto. cbn [forallb] in U. apply andb_true_iff in U as [U _]. unfold is_upper in U. lia.
Qed.

Lemma good_NAXISn i : i < 1000 -> good_key (keyn s_NAXIS i).
Proof. apply good_keyn; [cbn; lia|reflexivity|cbn; lia]. Qed.
Lemma good_ORDERn i : i < 1000 -> good_key (keyn s_ORDER i).
Proof. apply good_keyn; [cbn; lia|reflexivity|cbn; lia]. Qed.
Lemma good_PERIODn i : i < 1000 -> good_key (keyn s_PERIOD i).
Proof. apply good_keyn; [cbn; lia|reflexivity|cbn; lia]. Qed.

Lemma good_const k : (length k <=? 9)%nat && no_char sp k && no_char eqc k && negb (length k =? 0)%nat &&
  negb (is_commentary8 (pad_right 8 k)) = true -> good_key k.
Proof.
  intros H. repeat (apply andb_true_iff in H; destruct H as [H ?]). apply Nat.leb_le in H.
  repeat split; auto.
  - destruct k; [discriminate|discriminate].
  - apply negb_true_iff. assumption.
Qed.

(* ================================================================================================ *)
(* D. string cards *)
Lemma escape_length v : length (escape_quotes v) = enc_len v.
Proof. exact (escape_quotes_length v). Qed.

Lemma fits_quote_length v : length (fits_quote v) = Nat.max 8 (enc_len v).
Proof. unfold fits_quote, pad_right. rewrite app_length, repeat_length, escape_length. lia. Qed.

Lemma no_quote_repeat n : no_char quote (repeat sp n) = true.
Proof. induction n; [reflexivity|]. cbn. exact IHn. Qed.

Lemma paired_escape_app s r : no_char quote r = true -> paired (escape_quotes s ++ r) = true.
Proof.
  intros R. induction s as [|c s IH]; [apply paired_no_quote; exact R|].
  cbn [escape_quotes]. destruct (c =? quote) eqn:E.
  - cbn [List.app paired]. change (quote =? quote) with true. cbn iota. cbn [andb]. exact IH.
  - cbn [List.app paired]. rewrite E. exact IH.
Qed.

Lemma paired_fits_quote v : paired (fits_quote v) = true.
Proof. unfold fits_quote, pad_right. apply paired_escape_app. apply no_quote_repeat. Qed.

Lemma value_text_str_length v : length (value_text (VStr (fits_quote v))) = (Nat.max 8 (enc_len v) + 2)%nat.
Proof. cbn [value_text length]. rewrite app_length, fits_quote_length. cbn [length]. lia. Qed.

Lemma wf_str_card_short k v : (length k <= 8)%nat -> no_char sp k = true -> is_commentary8 (pad_right 8 k) = false ->
  (enc_len v <= 68)%nat -> wf_card (str_card k v) = true.
Proof.
  intros L S C E. unfold str_card, wf_card, card_text. apply Nat.leb_le in L. rewrite L. apply Nat.leb_le in L.
  rewrite !app_length, pad_right_length by exact L. rewrite value_text_str_length. cbn [wf_value length].
  rewrite paired_fits_quote, S, C. cbn [negb andb]. rewrite andb_true_r. apply Nat.leb_le. lia.
Qed.

Lemma wf_str_card_long k v : (8 < length k)%nat -> no_char eqc k = true -> negb (hd sp k =? sp) = true ->
  negb (last k sp =? sp) = true -> (length k + Nat.max 8 (enc_len v) <= 66)%nat -> wf_card (str_card k v) = true.
Proof.
  intros L E H1 H2 B. unfold str_card, wf_card, card_text. apply Nat.leb_gt in L. rewrite L.
  rewrite !app_length. change (length s_HIER9) with 9%nat. rewrite value_text_str_length. cbn [wf_value length].
  rewrite paired_fits_quote, E, H1, H2. cbn [andb]. rewrite andb_true_r. apply Nat.leb_le. lia.
Qed.

(* a key without blanks that pads to a commentary keyword is one of COMMENT, HISTORY, "", CONTINUE, END — all reserved *)
Lemma unreserved_not_commentary k : no_char sp k = true -> reserved k = false -> is_commentary8 (pad_right 8 k) = false.
Proof.
  intros S R. destruct (is_commentary8 (pad_right 8 k)) eqn:C; [exfalso|reflexivity].
  assert (K : forall c, pad_right 8 k = c -> k = until_space c).
  { intros c <-. unfold pad_right. symmetry. apply until_space_app. exact S. }
  unfold is_commentary8 in C. repeat (apply orb_true_iff in C; destruct C as [C|C]);
    apply str_eqb_eq in C; apply K in C; subst k; vm_compute in R; discriminate.
Qed.

Lemma wf_aux_card kv : aux_entry_ok kv = true -> wf_card (str_card (fst kv) (snd kv)) = true.
Proof.
  destruct kv as [k v]. unfold aux_entry_ok. cbn [fst snd]. intros W. apply andb_true_iff in W as [WK W].
  unfold aux_key_ok in WK. repeat (apply andb_true_iff in WK; destruct WK as [WK ?]).
  match goal with H : negb (reserved k) = true |- _ => apply negb_true_iff in H; rename H into R end.
  destruct (length k <=? 8)%nat eqn:LK.
  - apply Nat.leb_le in LK. apply andb_true_iff in W as [S E]. apply Nat.leb_le in E.
    apply wf_str_card_short; auto. apply unreserved_not_commentary; auto.
  - apply Nat.leb_gt in LK. repeat (apply andb_true_iff in W; destruct W as [W ?]).
    match goal with H : (_ <=? 66)%nat = true |- _ => apply Nat.leb_le in H end.
    apply wf_str_card_long; auto.
Qed.

(* ================================================================================================ *)
(* E. the primary header *)
Lemma forallb_map_numbered_in {A B} (Q : B -> bool) (f : N * A -> B) l : forall j,
  (forall i a, j <= i < j + N.of_nat (length l) -> In a l -> Q (f (i, a)) = true) ->
  forallb Q (map f (numbered j l)) = true.
Proof.
  induction l as [|a l IH]; intros j H; [reflexivity|].
  cbn [numbered map forallb]. apply andb_true_iff. split.
  - apply H; [cbn [length]; lia|left; reflexivity].
  - apply IH. intros i b Hi Hb. apply H; [cbn [length]; lia|right; exact Hb].
Qed.

Lemma wf_SIMPLE : wf_card (Card s_SIMPLE (VTok s_T)) = true. Proof. vm_compute. reflexivity. Qed.
Lemma wf_BITPIX32 : wf_card (int_card s_BITPIX (-32)) = true. Proof. vm_compute. reflexivity. Qed.
Lemma wf_BITPIX64 : wf_card (int_card s_BITPIX (-64)) = true. Proof. vm_compute. reflexivity. Qed.
Lemma wf_EXTEND : wf_card (Card s_EXTEND (VTok s_T)) = true. Proof. vm_compute. reflexivity. Qed.
Lemma wf_TYPE : wf_card (str_card s_TYPE s_typeString) = true. Proof. vm_compute. reflexivity. Qed.
Lemma wf_XTENSION : wf_card (Card s_XTENSION (VStr (fits_quote s_IMAGE))) = true. Proof. vm_compute. reflexivity. Qed.
Lemma wf_NAXIS_1 : wf_card (int_card s_NAXIS 1) = true. Proof. vm_compute. reflexivity. Qed.
Lemma wf_PCOUNT : wf_card (int_card s_PCOUNT 0) = true. Proof. vm_compute. reflexivity. Qed.
Lemma wf_GCOUNT : wf_card (int_card s_GCOUNT 1) = true. Proof. vm_compute. reflexivity. Qed.
Lemma good_NAXIS : good_key s_NAXIS. Proof. apply good_const. vm_compute. reflexivity. Qed.

Lemma wf_head_cards t :
  (length (t_order t) <= 999)%nat -> length (t_naxes t) = length (t_order t) ->
  forallb (fun a => a <? two63N) (t_naxes t) = true ->
  forallb (fun o => o <? 2 ^ 31) (t_order t) = true ->
  match t_periods t with Some ps => (length ps =? length (t_order t))%nat && forallb period_tok_ok ps | None => true end = true ->
  forallb wf_card (head_cards t) = true.
Proof.
  intros ND LN WN WO WP. unfold head_cards, t_ndim. rewrite !forallb_app.
  assert (S1 : forallb wf_card [Card s_SIMPLE (VTok s_T); int_card s_BITPIX (-32); int_card s_NAXIS (Z.of_nat (length (t_order t)))] = true).
  { cbn [forallb]. rewrite wf_SIMPLE, wf_BITPIX32, <- nat_N_Z, wf_int_card; [reflexivity|apply good_NAXIS|unfold two64N; lia]. }
  assert (S2 : forallb wf_card (map (fun ja => int_card (keyn s_NAXIS (fst ja)) (Z.of_N (snd ja))) (numbered 1 (List.rev (t_naxes t)))) = true).
  { apply forallb_map_numbered_in. intros i a Hi Ha. rewrite rev_length in Hi. cbn [fst snd]. apply wf_int_card.
    - apply good_NAXISn. lia.
    - apply in_rev in Ha. rewrite forallb_forall in WN. specialize (WN a Ha). unfold two63N, two64N in *. lia. }
  assert (S3 : forallb wf_card [Card s_EXTEND (VTok s_T); str_card s_TYPE s_typeString] = true).
  { cbn [forallb]. rewrite wf_EXTEND, wf_TYPE. reflexivity. }
  assert (S4 : forallb wf_card (map (fun io => int_card (keyn s_ORDER (fst io)) (Z.of_N (snd io))) (numbered 0 (t_order t))) = true).
  { apply forallb_map_numbered_in. intros i a Hi Ha. cbn [fst snd]. apply wf_int_card.
    - apply good_ORDERn. lia.
    - rewrite forallb_forall in WO. specialize (WO a Ha). change (2 ^ 31) with 2147483648 in WO. unfold two64N. lia. }
  rewrite S1, S2, S3, S4. cbn [andb].
  destruct (t_periods t) as [ps|]; [|reflexivity].
  apply andb_true_iff in WP as [LP WP]. apply Nat.eqb_eq in LP.
  apply forallb_map_numbered_in. intros i a Hi Ha. cbn [fst snd]. rewrite forallb_forall in WP. specialize (WP a Ha).
  apply wf_card_good.
  - apply good_PERIODn. lia.
  - destruct a as [p|]; [|reflexivity]. cbn [period_tok_ok] in WP. apply andb_true_iff in WP as [WP _]. exact WP.
  - rewrite value_text_tok_length. destruct a as [p|]; [|cbn; lia].
    cbn [period_tok_ok] in WP. apply andb_true_iff in WP as [_ WP]. apply Nat.leb_le in WP. lia.
Qed.

Lemma wf_aux_cards t : forallb aux_entry_ok (t_aux t) = true -> forallb wf_card (aux_cards t) = true.
Proof.
  intros W. unfold aux_cards. rewrite forallb_forall in *. intros c Hc. apply in_map_iff in Hc as (kv & <- & Hin).
  apply wf_aux_card. auto.
Qed.

(* ================================================================================================ *)
(* F. the HDUs *)
Lemma pow256_4 : 256 ^ N.of_nat 4 = two32N. Proof. reflexivity. Qed.
Lemma pow256_8 : 256 ^ N.of_nat 8 = two64N. Proof. reflexivity. Qed.

Lemma wf_primary_hdu t :
  (1 <= length (t_order t) <= 999)%nat -> length (t_naxes t) = length (t_order t) ->
  length (t_coeffs t) = N.to_nat (prodN (t_naxes t)) ->
  forallb (fun a => a <? two63N) (t_naxes t) = true ->
  forallb (fun o => o <? 2 ^ 31) (t_order t) = true ->
  forallb (fun w => w <? two32N) (t_coeffs t) = true ->
  match t_periods t with Some ps => (length ps =? length (t_order t))%nat && forallb period_tok_ok ps | None => true end = true ->
  forallb aux_entry_ok (t_aux t) = true ->
  wf_hdu (primary_hdu t) = true.
Proof.
  intros [ND1 ND] LN LC WN WO WC WP WA. unfold wf_hdu, primary_hdu. cbn [h_cards h_data].
  rewrite hdu_layout_primary_cards by exact LN.
  rewrite primary_cards_split, forallb_app, wf_head_cards, wf_aux_cards by auto. cbn [andb].
  cbn [primary_layout l_bitpix]. change (word_size (-32)) with (Some 4%nat). cbn iota.
  rewrite pow256_4, WC, andb_true_r. apply Nat.eqb_eq. rewrite LC. f_equal.
  unfold layout_words. cbn [l_axes l_gcount l_pcount].
  destruct (List.rev (t_naxes t)) as [|a r] eqn:E.
  - apply (f_equal (@length N)) in E. rewrite rev_length in E. cbn in E. lia.
  - cbn [primary_layout l_axes l_gcount l_pcount]. rewrite <- E, prodN_rev. lia.
Qed.

Lemma enc_len_le v : (enc_len v <= 2 * length v)%nat.
Proof.
  unfold enc_len, count_char. induction v as [|c r IH]; [cbn; lia|].
  cbn [filter length]. destruct (c =? quote); cbn [length]; lia.
Qed.

Lemma wf_vector_hdu name ws : (enc_len name <= 68)%nat -> N.of_nat (length ws) < two63N ->
  forallb (fun w => w <? two64N) ws = true -> wf_hdu (vector_hdu name ws) = true.
Proof.
  intros EN LW WW. unfold wf_hdu. rewrite hdu_layout_vector. unfold vector_hdu. cbn [h_cards h_data forallb].
  rewrite wf_XTENSION, wf_BITPIX64, wf_NAXIS_1, wf_PCOUNT, wf_GCOUNT. rewrite <- nat_N_Z, wf_int_card.
  2:{ apply good_NAXISn. lia. }
  2:{ unfold two63N, two64N in *. lia. }
  rewrite wf_str_card_short; [|cbn; lia|reflexivity|reflexivity|exact EN]. cbn [andb].
  cbn [vector_layout l_bitpix]. change (word_size (-64)) with (Some 8%nat). cbn iota.
  rewrite pow256_8, WW, andb_true_r. apply Nat.eqb_eq.
  unfold layout_words, prodN. cbn [vector_layout l_axes l_gcount l_pcount fold_right].
  lia.
Qed.

Lemma enc_len_KNOTSn i : i < 1000 -> (enc_len (keyn s_KNOTS i) <= 68)%nat.
Proof.
  intros I. pose proof (enc_len_le (keyn s_KNOTS i)) as H. unfold keyn in *. rewrite app_length in H.
  pose proof (dec_length_1000 i I). change (length s_KNOTS) with 5%nat in H. lia.
Qed.

(* ================================================================================================ *)
(* G. the document, and the full round trip through bytes *)
Lemma wf_table'_wf_table t : wf_table' t = true -> wf_table t = true.
Proof. unfold wf_table'. intros W. do 7 (apply andb_true_iff in W; destruct W as [W ?]). exact W. Qed.

Theorem wf_doc_to_doc t : wf_table' t = true -> wf_doc (to_doc t) = true.
Proof.
  unfold wf_table'. intros W. do 7 (apply andb_true_iff in W; destruct W as [W ?]).
  rename H into WA, H0 into WP, H1 into WE, H2 into WK, H3 into WC, H4 into WN, H5 into ND.
  unfold wf_table in W. repeat (apply andb_true_iff in W; destruct W as [W ?]).
  rename H into Waux, H0 into Wext, H1 into Wkn, H2 into Word, H3 into Wco, H4 into Wst, H5 into Lna, H6 into Lkn.
  apply Nat.leb_le in W, ND. apply Nat.eqb_eq in Lna, Lkn, Wco.
  rewrite to_doc_shape. unfold wf_doc. cbn [forallb].
  rewrite wf_primary_hdu by (auto; lia). cbn [andb]. rewrite forallb_app. apply andb_true_iff. split.
  - unfold knot_hdus. apply forallb_map_numbered_in. intros i k Hi Hk. cbn [fst snd].
    rewrite forallb_forall in WK. specialize (WK k Hk). apply andb_true_iff in WK as [WK1 WK2]. apply N.ltb_lt in WK1.
    apply wf_vector_hdu; auto. apply enc_len_KNOTSn. lia.
  - destruct (t_extents t) as [e|]; [|reflexivity]. cbn [forallb]. rewrite andb_true_r.
    apply Nat.eqb_eq in Wext. apply wf_vector_hdu; auto.
    + cbn. lia.
    + rewrite Wext. unfold two63N. lia.
Qed.

Theorem roundtrip_full t : wf_table' t = true ->
  exists t', of_bytes (to_bytes t) = Ok t' /\ read_bytes (to_bytes t) = Ok t' /\ table_eq_upto_padding t t'.
Proof. intros W. apply roundtrip_bytes; [apply wf_table'_wf_table|apply wf_doc_to_doc]; exact W. Qed.

(* ================================================================================================ *)
(* H. "the reloaded table compares equal": model of splinetable::operator== (include/photospline/splinetable.h 349-368)

     if (ndim != other.ndim) return false;
     if (ndim == 0) return true;
     if (!std::equal(order,order+ndim,other.order)) return false;                    uint32_t ==
     if (!std::equal(naxes,naxes+ndim,other.naxes)) return false;                    uint64_t ==
     if (!std::equal(nknots,nknots+ndim,other.nknots)) return false;                 uint64_t ==
     for i: if (!std::equal(knots[i],knots[i]+nknots[i],other.knots[i])) return false;     double ==  (IEEE)
     if (get_ncoeffs() != other.get_ncoeffs()) return false;                         product of naxes
     if (!std::equal(coefficients,coefficients+get_ncoeffs(),other.coefficients)) return false;   float ==  (IEEE)
     return true;

   Floating-point == on bit patterns: false when either side is a NaN, true for +0 == -0, otherwise equality of the
   patterns.  Arrays are lists here; their lengths stand for ndim / nknots[i] (the class invariant), so std::equal over a
   stated count is list_eqb (equal lengths and pointwise ==).  get_ncoeffs is the unbounded product (no wrap at 2^64).
   Auxiliary keys, extents, periods and strides are NOT compared by operator==. *)
Definition is_nan32 (w : N) : bool := ((w / 8388608) mod 256 =? 255) && negb (w mod 8388608 =? 0).
Definition is_nan64 (w : N) : bool := ((w / 4503599627370496) mod 2048 =? 2047) && negb (w mod 4503599627370496 =? 0).
Definition feq32 (a b : N) : bool :=
  negb (is_nan32 a) && negb (is_nan32 b) && ((a =? b) || ((a mod two31N =? 0) && (b mod two31N =? 0))).
Definition feq64 (a b : N) : bool :=
  negb (is_nan64 a) && negb (is_nan64 b) && ((a =? b) || ((a mod two63N =? 0) && (b mod two63N =? 0))).

Fixpoint list_eqb {A} (eq : A -> A -> bool) (a b : list A) : bool :=
  match a, b with
  | [], [] => true
  | x :: a', y :: b' => eq x y && list_eqb eq a' b'
  | _, _ => false
  end.

Definition ncoeffs (t : table) : N := prodN (t_naxes t).

Definition table_op_eq (a b : table) : bool :=
  if negb (t_ndim a =? t_ndim b)%nat then false else
  if (t_ndim a =? 0)%nat then true else
  list_eqb N.eqb (t_order a) (t_order b) &&
  list_eqb N.eqb (t_naxes a) (t_naxes b) &&
  list_eqb Nat.eqb (map (@length N) (t_knots a)) (map (@length N) (t_knots b)) &&
  list_eqb (list_eqb feq64) (t_knots a) (t_knots b) &&
  (ncoeffs a =? ncoeffs b) &&
  list_eqb feq32 (firstn (N.to_nat (ncoeffs a)) (t_coeffs a)) (firstn (N.to_nat (ncoeffs a)) (t_coeffs b)).

Definition nan_free (t : table) : bool :=
  forallb (fun w => negb (is_nan32 w)) (t_coeffs t) && forallb (forallb (fun w => negb (is_nan64 w))) (t_knots t).

Lemma feq32_self w : feq32 w w = negb (is_nan32 w).
Proof. unfold feq32. rewrite N.eqb_refl. destruct (is_nan32 w); reflexivity. Qed.
Lemma feq64_self w : feq64 w w = negb (is_nan64 w).
Proof. unfold feq64. rewrite N.eqb_refl. destruct (is_nan64 w); reflexivity. Qed.

Lemma list_eqb_refl {A} (eq : A -> A -> bool) l : forallb (fun x => eq x x) l = true -> list_eqb eq l l = true.
Proof. induction l as [|x l IH]; [reflexivity|]. cbn. intros H. apply andb_true_iff in H as [H1 H2]. rewrite H1, IH; auto. Qed.

Lemma forallb_impl {A} (P Q : A -> bool) l : (forall x, In x l -> P x = true -> Q x = true) -> forallb P l = true -> forallb Q l = true.
Proof. intros H F. rewrite forallb_forall in *. intros x Hx. apply H; auto. Qed.

Lemma firstn_forallb {A} (P : A -> bool) n l : forallb P l = true -> forallb P (firstn n l) = true.
Proof.
  revert n. induction l as [|a l IH]; intros n F; [destruct n; reflexivity|]. destruct n as [|n]; [reflexivity|].
  cbn [firstn forallb] in *. apply andb_true_iff in F as [F1 F2]. rewrite F1, IH; auto.
Qed.

Lemma table_op_eq_self t : nan_free t = true -> table_op_eq t t = true.
Proof.
  unfold nan_free, table_op_eq. intros W. apply andb_true_iff in W as [WC WK].
  rewrite Nat.eqb_refl. cbn [negb]. destruct (t_ndim t =? 0)%nat; [reflexivity|].
  rewrite N.eqb_refl, !list_eqb_refl; [reflexivity| | | | |].
  - apply firstn_forallb. eapply forallb_impl; [|exact WC]. intros x _ H. rewrite feq32_self. exact H.
  - eapply forallb_impl; [|exact WK]. intros k _ H. apply list_eqb_refl.
    eapply forallb_impl; [|exact H]. intros x _ Hx. rewrite feq64_self. exact Hx.
  - apply forallb_forall. intros x _. apply Nat.eqb_refl.
  - apply forallb_forall. intros x _. apply N.eqb_refl.
  - apply forallb_forall. intros x _. apply N.eqb_refl.
Qed.

(* every field operator== reads is equal in the reloaded table, hence it compares exactly like the original *)
Lemma reload_fields t t' : table_eq_upto_padding t t' ->
  t_ndim t' = t_ndim t /\ t_order t' = t_order t /\ t_naxes t' = t_naxes t /\
  map (@length N) (t_knots t') = map (@length N) (t_knots t) /\ t_knots t' = t_knots t /\
  ncoeffs t' = ncoeffs t /\ t_coeffs t' = t_coeffs t.
Proof.
  intros (O & K & A & _ & C & _). unfold t_ndim, ncoeffs. rewrite O, K, A, C. repeat split; reflexivity.
Qed.

Lemma reload_compares_as_original t t' : table_eq_upto_padding t t' ->
  forall x, table_op_eq t' x = table_op_eq t x /\ table_op_eq x t' = table_op_eq x t.
Proof.
  intros (O & K & A & _ & C & _) x. unfold table_op_eq, t_ndim, ncoeffs. rewrite O, K, A, C. split; reflexivity.
Qed.

Theorem reload_compares_equal t t' : table_eq_upto_padding t t' -> nan_free t = true ->
  table_op_eq t' t = true /\ table_op_eq t t' = true.
Proof.
  intros Q NF. destruct (reload_compares_as_original t t' Q t) as [E1 E2]. rewrite E1, E2.
  split; apply table_op_eq_self; exact NF.
Qed.

Theorem reload_compares_equal_all t t' : table_eq_upto_padding t t' ->
  (t_ndim t' = t_ndim t /\ t_order t' = t_order t /\ t_naxes t' = t_naxes t /\
   map (@length N) (t_knots t') = map (@length N) (t_knots t) /\ t_knots t' = t_knots t /\
   ncoeffs t' = ncoeffs t /\ t_coeffs t' = t_coeffs t) /\
  (forall x, table_op_eq t' x = table_op_eq t x /\ table_op_eq x t' = table_op_eq x t) /\
  (nan_free t = true -> table_op_eq t' t = true /\ table_op_eq t t' = true).
Proof.
  intros Q. split; [apply reload_fields; exact Q|]. split; [apply reload_compares_as_original; exact Q|].
  apply reload_compares_equal; exact Q.
Qed.

(* the NaN caveat: a table holding a NaN among its first ncoeffs coefficients is not == to anything, itself included *)
Lemma list_eqb_feq32_nan a b w : In w a -> is_nan32 w = true -> list_eqb feq32 a b = false.
Proof.
  revert b. induction a as [|x a IH]; intros b I NW; [contradiction|]. destruct b as [|y b]; [reflexivity|].
  cbn [list_eqb]. destruct I as [->|I].
  - unfold feq32. rewrite NW. reflexivity.
  - rewrite (IH b I NW). apply andb_false_r.
Qed.

Theorem nan_compares_unequal t x w : (0 < t_ndim t)%nat -> In w (firstn (N.to_nat (ncoeffs t)) (t_coeffs t)) ->
  is_nan32 w = true -> table_op_eq t x = false.
Proof.
  intros ND I NW. unfold table_op_eq. destruct (negb (t_ndim t =? t_ndim x)%nat); [reflexivity|].
  destruct (t_ndim t =? 0)%nat eqn:E; [apply Nat.eqb_eq in E; lia|].
  rewrite (list_eqb_feq32_nan _ _ w I NW). apply andb_false_r.
Qed.

Theorem roundtrip_compares_equal t : wf_table' t = true -> nan_free t = true ->
  exists t', of_bytes (to_bytes t) = Ok t' /\ read_bytes (to_bytes t) = Ok t' /\
             table_op_eq t' t = true /\ table_op_eq t t' = true.
Proof.
  intros W NF. destruct (roundtrip_full t W) as (t' & E1 & E2 & Q). exists t'.
  destruct (reload_compares_equal t t' Q NF). auto.
Qed.
