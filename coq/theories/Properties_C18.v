(* Properties_C18.v — C18: the C interface is a faithful, leak-free wrapper.

   Model: CApiModel.c_call = GLUE (data: Generated_cinter.wrappers, transcribed from src/cinter/splinetable.cpp by
   tools/translators/cinter.py) around ObjModel.cpp_step (C20's C++ object model).

   Proved (proof scripts: C18_Proofs.v for the glue alone, C18_Compose.v for the composition with C20's global invariant):
     C18_balanced            : for EVERY valid call sequence whose C++ twins satisfy C20's side conditions (wf_op), every
                               allocation oracle of the objects (F) and of the glue (GF), every I/O oracle, every outcome:
                               all handles / results / buffers released at the end  =>  the glue's trace AND the objects'
                               trace are balanced, both heaps empty, no allocator error, nothing lost, every object gone,
                               the C++ world never reached UB, no exception escaped.
     C18_balanced_interleaved: every interleaving of the two traces (block ids kept apart by tagging) is balanced — the
                               WHOLE allocation trace, whatever the order in time of glue and object events was.
     C18_reachable_invariant : every state reachable through the interface satisfies  cinv = glue invariant /\ C20's Inv
                               of the object world /\ (table->data != NULL <-> the object exists) /\ glue allocator clean.
     C18_memory_safe         : in every such state, a valid call that respects the documented preconditions (doc_pre: a
                               per-dimension accessor / evaluation / grideval is not applied to an EMPTY table) is
                               not `Crashed`, no exception escapes, the process stays alive, the invariant is kept, and
                               the member(s) it forwards to are safe_to_call (C20's `safe`) and never UB.
     C18_no_table_refused    : a NULL handle or a handle without a table (zero-initialised, failed read, freed) is refused
                               by EVERY wrapper that uses the table, the value-returning ones included (repo fix F18_1):
                               state unchanged, the documented value returned (no_table_value).
     C18_run_safe            : the same along whole sequences.
     C18_faithful            : one-member wrappers = cpp_step of the twin;
     C18_faithful_compound   : splinetable_init / splinetable_free / readsplinefitstable / readsplinefitstable_mem /
                               writesplinefitstable_mem / splinetable_grideval / ndsparse_destroy = the stated composition
                               of cpp_steps and glue allocation events (compound_spec), outcome in the C convention.
   Everything that composes with C20 is about cfg_fixed; C20_tree_is_fixed (tree_cfg = cfg_fixed) ties it to the tree
   (the *_tree corollaries are stated with tree_cfg and stop compiling when a fix is missing — except the ninth bit, fx_rmkey:
   the C interface has no wrapper for remove_key, a C call sequence is the same function of the configuration whatever that
   bit is, C18_Compose.c_run_rmkey). *)
From Coq Require Import List Arith Bool String Lia.
From PS Require Import ObjResource ObjModel CGlue CApiModel Generated_cinter Generated_objfixes C18_Proofs C20_Invariant C18_Compose.
Import ListNotations.
Open Scope string_scope.

(* ---- obligations on the working tree (fail when a wrapper loses its try/catch, returns 0 from a catch block, stops
        checking a pointer it dereferences, forwards to another member or in another argument order, or when
        ndsparse_destroy deletes through the base type again).  C18_tree_null_checked and C18_tree_table_checked are about
        ALL 30 extern "C" functions: there is no exemption for the value-returning wrappers any more ---- *)
Theorem C18_tree_glue_ok : glue_ok wrappers = true.
Proof. exact tree_glue_ok. Qed.

Theorem C18_tree_null_checked : forallb (null_checked wrappers) all_shapes = true.
Proof. vm_compute. reflexivity. Qed.

Theorem C18_tree_forwarding : forwarding wrappers =
  [("splinetable_init", "new", []); ("splinetable_free", "delete", ["real_table"]);
   ("readsplinefitstable", "new", ["path"]); ("writesplinefitstable", "write_fits", ["path"]);
   ("splinetable_get_key", "get_aux_value", ["key"]); ("splinetable_read_key", "read_key", ["key"; "result"]);
   ("splinetable_write_key", "write_key", ["key"; "value"]); ("splinetable_ndim", "get_ndim", []);
   ("splinetable_order", "get_order", ["dim"]); ("splinetable_nknots", "get_nknots", ["dim"]);
   ("splinetable_knots", "get_knots", ["dim"]); ("splinetable_knot", "get_knot", ["dim"; "knot"]);
   ("splinetable_lower_extent", "lower_extent", ["dim"]); ("splinetable_upper_extent", "upper_extent", ["dim"]);
   ("splinetable_period", "get_period", ["dim"]); ("splinetable_ncoeffs", "get_ncoeffs", ["dim"]);
   ("splinetable_total_ncoeffs", "get_ncoeffs", []); ("splinetable_stride", "get_stride", ["dim"]);
   ("splinetable_coefficients", "get_coefficients", []); ("tablesearchcenters", "searchcenters", ["x"; "centers"]);
   ("ndsplineeval", "ndsplineeval", ["x"; "centers"; "derivatives"]);
   ("ndsplineeval_gradient", "ndsplineeval_gradient", ["x"; "centers"; "evaluates"]);
   ("ndsplineeval_deriv", "ndsplineeval_deriv", ["x"; "centers"; "derivatives"]);
   ("splinetable_convolve", "convolve", ["dim"; "knots"; "n_knots"]);
   ("readsplinefitstable_mem", "new_if_null+read_fits_mem", ["buffer->data"; "buffer->size"]);
   ("writesplinefitstable_mem", "write_fits_mem", []);
   ("splinetable_glamfit", "fit", ["*data"; "weightsv"; "coordsv"; "splineOrderv"; "knotsv"; "smoothingv"; "penaltyOrderv"; "monodim"; "verbose"]);
   ("splinetable_grideval", "grideval", ["coordsv"]); ("ndsparse_destroy", "delete photospline::ndsparse", ["nd"]);
   ("splinetable_permute", "permuteDimensions", ["permutationv"])].
Proof. vm_compute. reflexivity. Qed.

(* ---- no exception ever leaves an extern "C" function: any glue table satisfying the obligation, any state, any
        call (NULL arguments included), any allocation oracles, any outcome of the C++ member ---- *)
Theorem C18_no_escape : forall gt c F GF cs call r,
  forallb (glue_protected gt) all_shapes = true -> snd (c_call gt c F GF cs call) <> Escaped r.
Proof. exact no_escape. Qed.

Theorem C18_no_escape_tree : forall c F GF cs call r, snd (c_call wrappers c F GF cs call) <> Escaped r.
Proof.
  intros. apply no_escape. destruct (glue_ok_struct wrappers tree_glue_ok) as [_ [_ H]]. exact H.
Qed.

(* ---- faithful: on a live handle and non-NULL arguments, a wrapper that is one member call does to the object world
        exactly what cpp_step of its twin does, and returns the twin's outcome in the C convention ---- *)
Theorem C18_faithful : forall gt c F GF cs call x,
  dead cs = false -> c_nulls call = [] -> live cs (c_h call) = true ->
  single_twin (c_args call) (c_h call) = Some x ->
  c_call gt c F GF cs call =
    (after (glue_of gt (fname (c_args call))) cs (fst (cpp_step c F (cw cs) x)) (snd (cpp_step c F (cw cs) x)),
     lift (glue_of gt (fname (c_args call))) (snd (cpp_step c F (cw cs) x))).
Proof. exact faithful_step. Qed.

(* failure of the twin <-> failure indication (non-zero / NULL / NaN-filled output) *)
Theorem C18_failure_signalled : forall g r, g_try g = true -> catch_signals g = true -> signals_failure (lift g (Failed r)) = true.
Proof. exact failure_signalled. Qed.
Theorem C18_success_not_failure : forall g,
  g_ok_ret g = CR0 \/ g_ok_ret g = CRVoid \/ (g_ok_ret g = CRValue /\ g_rtype g = "double") -> signals_failure (lift g Ok) = false.
Proof. exact success_not_failure. Qed.

(* ---- balanced (glue half): induction over ARBITRARY call sequences ---- *)
Theorem C18_balanced_glue : forall gt c F GF calls,
  glue_ok gt = true ->
  valid_sequence gt c F GF cstate0 calls = true ->
  all_released (fst (c_run gt c F GF cstate0 calls)) = true ->
  balanced (rev (trace (gm (fst (c_run gt c F GF cstate0 calls))))).
Proof. exact balanced_glue. Qed.

(* ================================================================================================================ *)
(* ---- composition with C20's global invariant (C18_Compose.v) ---- *)

(* obligation on the working tree: every wrapper whose body uses table->data tests it first (all of them: the exemption of
   the value-returning accessors / evaluators went with F18_1; see C18_refuted_accessors_crash for the old shape) *)
Theorem C18_tree_table_checked : forallb (table_checked wrappers) all_shapes = true.
Proof. vm_compute. reflexivity. Qed.

(* every state reachable through the interface satisfies the composed invariant *)
Theorem C18_reachable_invariant : forall kl gt F GF cs, glue_ok gt = true -> c_reach kl gt F GF cs -> cinv kl cs.
Proof. exact reach_cinv. Qed.

(* ---- balanced: the WHOLE allocation behaviour, glue and objects, of ARBITRARY valid call sequences ---- *)
Theorem C18_balanced : forall kl gt F GF calls,
  glue_ok gt = true ->
  valid_sequence gt cfg_fixed F GF cstate0 calls = true ->
  Forall (wf_call kl) calls ->
  all_released (fst (c_run gt cfg_fixed F GF cstate0 calls)) = true ->
  let cs := fst (c_run gt cfg_fixed F GF cstate0 calls) in
  balanced (rev (trace (gm cs))) /\ balanced (rev (trace (wm (cw cs))))
  /\ hp (gm cs) = [] /\ hp (wm (cw cs)) = []
  /\ errs (gm cs) = [] /\ errs (wm (cw cs)) = []
  /\ lost (gm cs) = [] /\ lost (wm (cw cs)) = []
  /\ all_gone (cw cs) /\ crashed (cw cs) = false
  /\ (forall why, ~ In (Escaped why) (snd (c_run gt cfg_fixed F GF cstate0 calls))).
Proof. exact balanced_whole. Qed.

Theorem C18_balanced_interleaved : forall kl gt F GF calls,
  glue_ok gt = true ->
  valid_sequence gt cfg_fixed F GF cstate0 calls = true ->
  Forall (wf_call kl) calls ->
  all_released (fst (c_run gt cfg_fixed F GF cstate0 calls)) = true ->
  forall t, tmerge (rev (trace (gm (fst (c_run gt cfg_fixed F GF cstate0 calls)))))
                   (rev (trace (wm (cw (fst (c_run gt cfg_fixed F GF cstate0 calls)))))) t -> balanced t.
Proof. exact balanced_interleaved. Qed.

(* the working tree (glue table and cfg as transcribed from the sources) *)
Theorem C18_balanced_tree : forall kl F GF calls,
  valid_sequence wrappers tree_cfg F GF cstate0 calls = true ->
  Forall (wf_call kl) calls ->
  all_released (fst (c_run wrappers tree_cfg F GF cstate0 calls)) = true ->
  (forall t, tmerge (rev (trace (gm (fst (c_run wrappers tree_cfg F GF cstate0 calls)))))
                    (rev (trace (wm (cw (fst (c_run wrappers tree_cfg F GF cstate0 calls)))))) t -> balanced t)
  /\ errs (gm (fst (c_run wrappers tree_cfg F GF cstate0 calls))) = [] /\ errs (wm (cw (fst (c_run wrappers tree_cfg F GF cstate0 calls)))) = []
  /\ lost (gm (fst (c_run wrappers tree_cfg F GF cstate0 calls))) = [] /\ lost (wm (cw (fst (c_run wrappers tree_cfg F GF cstate0 calls)))) = []
  /\ crashed (cw (fst (c_run wrappers tree_cfg F GF cstate0 calls))) = false.
Proof. exact balanced_tree. Qed.

(* ---- memory safety of every call in every reachable state ---- *)
Theorem C18_memory_safe : forall kl gt F GF cs call,
  glue_ok gt = true -> forallb (table_checked gt) all_shapes = true ->
  cinv kl cs -> dead cs = false -> valid_call cs call = true -> wf_call kl call -> doc_pre cs call = true ->
  snd (c_call gt cfg_fixed F GF cs call) <> Crashed
  /\ (forall why, snd (c_call gt cfg_fixed F GF cs call) <> Escaped why)
  /\ dead (fst (c_call gt cfg_fixed F GF cs call)) = false
  /\ cinv kl (fst (c_call gt cfg_fixed F GF cs call))
  /\ (forall x, In x (twins (c_args call) (c_h call)) ->
        (forall o, get_obj (cw cs) (target x) = Some o -> safe cfg_fixed o None x = true)
        /\ snd (cpp_step cfg_fixed F (cw cs) x) <> UB).
Proof. exact memory_safe. Qed.

(* NULL arguments: a NULL pointer among those the leading check tests is refused before anything is touched (state
   unchanged, failure value returned); which pointers are tested is C18_tree_null_checked *)
Theorem C18_null_refused : forall c F GF cs call p,
  dead cs = false -> inb p (c_nulls call) = true -> inb p (g_checked (glue_of wrappers (fname (c_args call)))) = true ->
  c_call wrappers c F GF cs call = (cs, ret_of (g_check_ret (glue_of wrappers (fname (c_args call)))))
  /\ ret_of (g_check_ret (glue_of wrappers (fname (c_args call)))) <> Crashed.
Proof. exact null_refused_tree. Qed.

(* a NULL handle, or a handle whose table->data is NULL: every wrapper that uses the table refuses, whatever else is passed;
   nothing is touched and the caller gets the value the header documents — 0 / NULL / NaN for the value-returning
   wrappers (they behave as if the table had no dimensions), 1 / NULL for those with a failure code *)
Theorem C18_no_table_refused : forall c F GF cs call,
  dead cs = false -> needs_live (c_args call) = true ->
  inb "table" (c_nulls call) = true \/ live cs (c_h call) = false ->
  c_call wrappers c F GF cs call = (cs, no_table_value (c_args call))
  /\ no_table_value (c_args call) <> Crashed /\ (forall why, no_table_value (c_args call) <> Escaped why).
Proof. exact no_table_refused_tree. Qed.
(* the same for any glue table with the obligation (what the check returns is then read off the table) *)
Theorem C18_no_table_refused_glue : forall gt c F GF cs call,
  dead cs = false -> table_checked gt (c_args call) = true -> needs_live (c_args call) = true ->
  existsb (fun a => inb a (c_nulls call)) (g_pre_deref (glue_of gt (fname (c_args call)))) = false ->
  inb "table" (c_nulls call) = false -> live cs (c_h call) = false ->
  c_call gt c F GF cs call = (cs, ret_of (g_check_ret (glue_of gt (fname (c_args call))))).
Proof. exact no_table_refused. Qed.

Theorem C18_run_safe : forall kl gt F GF calls cs, glue_ok gt = true -> forallb (table_checked gt) all_shapes = true ->
  cinv kl cs -> dead cs = false ->
  valid_sequence gt cfg_fixed F GF cs calls = true -> Forall (wf_call kl) calls -> pre_sequence gt cfg_fixed F GF cs calls = true ->
  ~ In Crashed (snd (c_run gt cfg_fixed F GF cs calls)) /\ dead (fst (c_run gt cfg_fixed F GF cs calls)) = false.
Proof. exact c_run_safe. Qed.

(* ---- faithful, compound wrappers: the call IS the stated composition (compound_spec: spec_init, spec_free, spec_read,
        spec_readmem, spec_writemem, spec_grideval, spec_nddestroy — written with cpp_step, g_new, g_del only) ---- *)
Theorem C18_faithful_compound : forall kl gt F GF cs call sp,
  glue_ok gt = true -> cinv kl cs -> dead cs = false -> valid_call cs call = true -> wf_call kl call ->
  (needs_live (c_args call) = true -> live cs (c_h call) = true) -> doc_pre cs call = true ->
  passes gt cs call = true ->
  compound_spec F GF cs call = Some sp ->
  c_call gt cfg_fixed F GF cs call = (fst sp, lift (glue_of gt (fname (c_args call))) (snd sp))
  /\ snd sp <> UB /\ snd sp <> Skipped.
Proof. exact faithful_compound. Qed.

(* ---- concrete histories ---- *)
Definition ex_file : file := {| f_open_fails := false; f_fail := PNone; f_ndim := 1; f_orders := [2]; f_nknots := [8]; f_naxes := [5]; f_aux := [] |}.
Definition ex_missing : file := {| f_open_fails := true; f_fail := PNone; f_ndim := 0; f_orders := []; f_nknots := []; f_naxes := []; f_aux := [] |}.
Definition ex_9d : file := {| f_open_fails := false; f_fail := PNone; f_ndim := 9; f_orders := repeat 1 9; f_nknots := repeat 4 9; f_naxes := repeat 2 9; f_aux := [] |}.
Definition call (h : nat) (a : cargs) : ccall := {| c_h := h; c_nulls := []; c_args := a |}.
Definition h_grid : list ccall := [call 0 (ARead ex_file); call 0 (AGrideval 0 3); call 0 (ANdDestroy 0); call 0 AFree].
Definition h_conv : list ccall := [call 0 (ARead ex_file); call 0 (AConvolve 5 3)].
Definition h_grad : list ccall := [call 0 (ARead ex_9d); call 0 AGrad].
Definition h_null : list ccall := [call 0 (ARead ex_missing); call 0 (AWrite false)].
Definition h_mix : list ccall :=
  [call 0 AInit; call 0 (AReadMem ex_file); call 1 (ARead ex_file); call 1 (ARead ex_missing); call 0 (AConvolve 5 3);
   call 0 (APermute [1]); call 0 (AWriteMem 0 640 false); call 2 (AReadMem ex_missing); call 0 (AGrideval 1 3);
   call 0 (AFit {| ft_invalid := false; ft_fails := false; ft_orders := [2]; ft_nknots := [8] |});
   call 0 (ABufFree 0); call 0 (ANdDestroy 1); call 0 AFree; call 1 AFree; call 2 AFree].
Definition run0 gt calls := c_run gt cfg_fixed no_fault no_fault cstate0 calls.

(* the UNCHANGED wrappers (glue of tree a37ac82 for the five functions concerned): each defect on a concrete history *)
Theorem C18_refuted_destroy_leaks :
  valid_sequence (orig_over wrappers) cfg_fixed no_fault no_fault cstate0 h_grid = true /\
  all_released (fst (run0 (orig_over wrappers) h_grid)) = true /\
  balancedb (rev (trace (gm (fst (run0 (orig_over wrappers) h_grid))))) = false /\
  lost (gm (fst (run0 (orig_over wrappers) h_grid))) = [(2, 48)].
Proof. vm_compute. auto. Qed.
Theorem C18_refuted_convolve_escapes : snd (run0 (orig_over wrappers) h_conv) = [RInt 0; Escaped RInvalid].
Proof. vm_compute. reflexivity. Qed.
Theorem C18_refuted_gradient_escapes : snd (run0 (orig_over wrappers) h_grad) = [RInt 0; Escaped RInvalid].
Proof. vm_compute. reflexivity. Qed.
Theorem C18_refuted_null_handle_crashes : snd (run0 (orig_over wrappers) h_null) = [RInt 1; Crashed].
Proof. vm_compute. reflexivity. Qed.

(* the value-returning wrappers as they were until 07dbb30 (no leading check; `unchecked_over` = that tree's glue, `orig_over`
   = a37ac82's): on a handle that a failed readsplinefitstable left without a table, on a zero-initialised handle and on a
   NULL handle EVERY one of the 16 crashes the process; both table obligations fail.  (Known finding
   C18:accessors:null-handle-deref, repaired by F18_1.) *)
Definition no_table_probes : list cargs := map AAcc all_accs ++ [ASearch true; AEval; ADeriv; AGrad].
Definition after_failed_read gt (a : cargs) : list cres := snd (run0 gt [call 0 (ARead ex_missing); call 0 a]).
Definition on_zeroed gt (a : cargs) : list cres := snd (run0 gt [call 0 a]).
Definition on_null gt (a : cargs) : list cres := snd (run0 gt [{| c_h := 0; c_nulls := ["table"]; c_args := a |}]).
Definition cres_eqb (a b : cres) : bool :=
  match a, b with
  | RInt n, RInt m => Nat.eqb n m | RPtr x, RPtr y => Bool.eqb x y | RVal, RVal | RVoid, RVoid | RNaN, RNaN | Crashed, Crashed => true
  | _, _ => false
  end.
Fixpoint cres_list_eqb (a b : list cres) : bool :=
  match a, b with [], [] => true | x :: a', y :: b' => cres_eqb x y && cres_list_eqb a' b' | _, _ => false end.
Theorem C18_refuted_accessors_crash :
  forallb (fun a => cres_list_eqb (after_failed_read (unchecked_over wrappers) a) [RInt 1; Crashed]) no_table_probes = true
  /\ forallb (fun a => cres_list_eqb (on_zeroed (unchecked_over wrappers) a) [Crashed]) no_table_probes = true
  /\ forallb (fun a => cres_list_eqb (on_null (unchecked_over wrappers) a) [Crashed]) no_table_probes = true
  /\ forallb (fun a => cres_list_eqb (after_failed_read (orig_over wrappers) a) [RInt 1; Crashed]) no_table_probes = true
  /\ forallb (null_checked (unchecked_over wrappers)) all_shapes = false
  /\ forallb (table_checked (unchecked_over wrappers)) all_shapes = false
  /\ valid_sequence (unchecked_over wrappers) cfg_fixed no_fault no_fault cstate0 [call 0 (ARead ex_missing); call 0 AEval] = true.
Proof. vm_compute. repeat split; reflexivity. Qed.
(* ... and on the working tree: the documented values, the process alive, the state untouched *)
Example C18_fixed_accessors :
  map (after_failed_read wrappers) no_table_probes =
    map (fun r => [RInt 1; r]) [RInt 0; RInt 0; RInt 0; RPtr false; RNaN; RNaN; RNaN; RNaN; RInt 0; RInt 0; RInt 0; RPtr false; RInt 0; RNaN; RNaN; RNaN]
  /\ map (on_zeroed wrappers) no_table_probes = map (fun a => [no_table_value a]) no_table_probes
  /\ map (on_null wrappers) no_table_probes = map (fun a => [no_table_value a]) no_table_probes
  /\ dead (fst (run0 wrappers (call 0 (ARead ex_missing) :: map (call 0) no_table_probes))) = false
  /\ pre_sequence wrappers cfg_fixed no_fault no_fault cstate0 (call 0 (ARead ex_missing) :: map (call 0) no_table_probes) = true.
Proof. vm_compute. repeat split; reflexivity. Qed.

(* the same histories on the working tree; and the hypotheses of C18_balanced_glue are satisfiable on a history that
   mixes successes and failures over three handles *)
Example C18_fixed_examples :
  balancedb (rev (trace (gm (fst (run0 wrappers h_grid))))) = true /\ lost (gm (fst (run0 wrappers h_grid))) = [] /\
  snd (run0 wrappers h_conv) = [RInt 0; RInt 1] /\ snd (run0 wrappers h_grad) = [RInt 0; RNaN] /\
  snd (run0 wrappers h_null) = [RInt 1; RInt 1].
Proof. vm_compute. auto. Qed.
Example C18_balanced_glue_nonvacuous :
  valid_sequence wrappers cfg_fixed no_fault no_fault cstate0 h_mix = true /\
  all_released (fst (run0 wrappers h_mix)) = true /\
  snd (run0 wrappers h_mix) = [RInt 0; RInt 0; RInt 0; RInt 1; RInt 1; RInt 1; RInt 0; RInt 1; RInt 0; RInt 1; RVoid; RVoid; RVoid; RVoid; RVoid] /\
  balancedb (rev (trace (wm (cw (fst (run0 wrappers h_mix)))))) = true.
Proof. vm_compute. auto. Qed.
Example C18_faithful_nonvacuous :
  let cs := fst (run0 wrappers [call 0 (ARead ex_file)]) in
  dead cs = false /\ live cs 0 = true /\ single_twin (AConvolve 5 3) 0 = Some (OConvolve 0 5 3) /\
  snd (cpp_step cfg_fixed no_fault (cw cs) (OConvolve 0 5 3)) = Failed RInvalid.
Proof. vm_compute. auto. Qed.

(* ---- the hypotheses of the composed theorems are satisfiable: init, read (memory and disk) into two handles, write_key,
        grideval + evaluation + accessor + get_key + ndsparse_destroy, a convolution that is refused, a truncated file
        read into a fresh and into an occupied handle, a write through the handle that read left NULL, a memory file and
        its release, free of all three handles; without faults, and with an allocation failure injected into write_key
        (24th allocation of the objects) and into grideval's `new ndsparse` (3rd allocation of the glue) ---- *)
Definition ex_trunc : file := {| f_open_fails := false; f_fail := PKnotSize 0; f_ndim := 1; f_orders := [2]; f_nknots := [8]; f_naxes := [5]; f_aux := [] |}.
Definition ex_key : auxent := {| akey := 7; aklen := 5; avlen := 9 |}.
Definition h_compose : list ccall :=
  [call 0 AInit; call 0 (AReadMem ex_file); call 1 (ARead ex_file); call 1 (AWriteKey false ex_key);
   call 1 (AGrideval 0 3); call 1 AEval; call 1 (AAcc AccOrder); call 1 (AGetKey 7); call 1 (ANdDestroy 0);
   call 1 (AConvolve 5 3); call 2 (ARead ex_trunc); call 2 (AWrite false); call 1 (ARead ex_trunc);
   call 0 (AWriteMem 0 640 false); call 0 (ABufFree 0); call 0 AFree; call 1 AFree; call 2 AFree].
Lemma h_compose_wf : Forall (wf_call kl5) h_compose.
Proof. unfold h_compose. repeat constructor; cbn; try lia; try discriminate; auto. Qed.
Example C18_balanced_nonvacuous :
  Forall (wf_call kl5) h_compose
  /\ valid_sequence wrappers cfg_fixed no_fault no_fault cstate0 h_compose = true
  /\ pre_sequence wrappers cfg_fixed no_fault no_fault cstate0 h_compose = true
  /\ all_released (fst (run0 wrappers h_compose)) = true
  /\ snd (run0 wrappers h_compose) =
       [RInt 0; RInt 0; RInt 0; RInt 0; RInt 0; RVal; RVal; RPtr true; RVoid; RInt 1; RInt 1; RInt 1; RInt 1; RInt 0; RVoid; RVoid; RVoid; RVoid]
  /\ List.length (trace (gm (fst (run0 wrappers h_compose)))) = 14 /\ List.length (trace (wm (cw (fst (run0 wrappers h_compose))))) = 92
  /\ valid_sequence wrappers cfg_fixed (fault_at 24) (fault_at 3) cstate0 h_compose = true
  /\ pre_sequence wrappers cfg_fixed (fault_at 24) (fault_at 3) cstate0 h_compose = true
  /\ all_released (fst (c_run wrappers cfg_fixed (fault_at 24) (fault_at 3) cstate0 h_compose)) = true
  /\ snd (c_run wrappers cfg_fixed (fault_at 24) (fault_at 3) cstate0 h_compose) =
       [RInt 0; RInt 0; RInt 0; RInt 1; RInt 1; RVal; RVal; RPtr false; RVoid; RInt 1; RInt 1; RInt 1; RInt 1; RInt 0; RVoid; RVoid; RVoid; RVoid].
Proof. split; [exact h_compose_wf|]. vm_compute. repeat split; reflexivity. Qed.
(* ... and the conclusion of C18_balanced holds for it by the theorem (not by computation) *)
Example C18_balanced_applied : forall t,
  tmerge (rev (trace (gm (fst (c_run wrappers cfg_fixed (fault_at 24) (fault_at 3) cstate0 h_compose)))))
         (rev (trace (wm (cw (fst (c_run wrappers cfg_fixed (fault_at 24) (fault_at 3) cstate0 h_compose)))))) t -> balanced t.
Proof.
  apply (balanced_interleaved kl5 wrappers (fault_at 24) (fault_at 3) h_compose tree_glue_ok); [vm_compute; reflexivity|exact h_compose_wf|vm_compute; reflexivity].
Qed.
(* hypotheses of C18_memory_safe / C18_faithful_compound on a reachable state: two live handles, then grideval on handle 1 *)
Example C18_compound_nonvacuous :
  let pre := [call 0 AInit; call 0 (AReadMem ex_file); call 1 (ARead ex_file)] in
  let cs := fst (run0 wrappers pre) in
  let c := call 1 (AGrideval 0 3) in
  c_reach kl5 wrappers no_fault no_fault cs /\ dead cs = false /\ valid_call cs c = true /\ wf_call kl5 c /\ doc_pre cs c = true
  /\ live cs 1 = true /\ passes wrappers cs c = true
  /\ (exists sp, compound_spec no_fault no_fault cs c = Some sp /\ snd sp = Ok /\ is_null (gget (fst sp) (p_rp 0)) = false)
  /\ passes wrappers cs (call 1 (ARead ex_trunc)) = true
  /\ (exists sp, compound_spec no_fault no_fault cs (call 1 (ARead ex_trunc)) = Some sp /\ snd sp = Failed RInput /\ live (fst sp) 1 = false).
Proof.
  cbv zeta. unfold run0. split.
  { apply (c_run_reach kl5 wrappers no_fault no_fault _ cstate0 (cr_init _ _ _ _)); [vm_compute; reflexivity|].
    repeat constructor; cbn; try lia; try discriminate; auto. }
  split; [vm_compute; reflexivity|]. split; [vm_compute; reflexivity|]. split; [constructor|].
  split; [vm_compute; reflexivity|]. split; [vm_compute; reflexivity|]. split; [vm_compute; reflexivity|].
  split; [eexists; split; [reflexivity|vm_compute; split; reflexivity]|].
  split; [vm_compute; reflexivity|]. eexists; split; [reflexivity|vm_compute; split; reflexivity].
Qed.

(* ---- the hypotheses are NEEDED (witnesses by computation) ---- *)
(* wf_call (C20's wf_op), on the model: a file that passes the dimension check with ndim = 0 (fitsio.h:193 rejects it: the
   model's input is totalised) read twice through readsplinefitstable_mem leaves lost blocks although everything is freed *)
Theorem C18_wf_needed :
  let h := [call 0 AInit; call 0 (AReadMem file0); call 0 (AReadMem file0); call 0 AFree] in
  valid_sequence wrappers cfg_fixed no_fault no_fault cstate0 h = true /\ all_released (fst (run0 wrappers h)) = true
  /\ lost (wm (cw (fst (run0 wrappers h)))) <> [] /\ balancedb (rev (trace (wm (cw (fst (run0 wrappers h)))))) = false.
Proof. vm_compute. repeat split; discriminate. Qed.
(* doc_pre: evaluation, a per-dimension accessor and grideval applied to an EMPTY table (splinetable_init and nothing else)
   crash although the sequence is valid — inside the C++ member, the C++ twin crashes identically (C20/C17's domain).  A
   handle WITHOUT a table is no longer a precondition: C18_no_table_refused *)
Theorem C18_doc_pre_needed :
  let h1 := [call 0 AInit; call 0 AEval] in
  let h2 := [call 0 AInit; call 0 (AGrideval 0 3)] in
  valid_sequence wrappers cfg_fixed no_fault no_fault cstate0 h1 = true /\ pre_sequence wrappers cfg_fixed no_fault no_fault cstate0 h1 = false
  /\ snd (run0 wrappers h1) = [RInt 0; Crashed]
  /\ snd (run0 wrappers [call 0 AInit; call 0 (AAcc AccOrder)]) = [RInt 0; Crashed]
  /\ valid_sequence wrappers cfg_fixed no_fault no_fault cstate0 h2 = true /\ pre_sequence wrappers cfg_fixed no_fault no_fault cstate0 h2 = false
  /\ snd (run0 wrappers h2) = [RInt 0; Crashed].
Proof. vm_compute. repeat split; reflexivity. Qed.
(* the table_checked obligation fails for the unchanged wrappers (writesplinefitstable did not test table->data) *)
Theorem C18_refuted_table_checked : forallb (table_checked (orig_over wrappers)) all_shapes = false.
Proof. vm_compute. reflexivity. Qed.

Example C18_null_refused_nonvacuous :
  let cs := fst (run0 wrappers [call 0 (ARead ex_file)]) in
  let c := {| c_h := 0; c_nulls := ["path"]; c_args := ARead ex_file |} in
  dead cs = false /\ live cs 0 = true /\ inb "path" (c_nulls c) = true /\ inb "path" (g_checked (glue_of wrappers (fname (c_args c)))) = true
  /\ snd (c_call wrappers cfg_fixed no_fault no_fault cs c) = RInt 1.
Proof. vm_compute. repeat split; reflexivity. Qed.

Print Assumptions C18_tree_glue_ok.
Print Assumptions C18_tree_null_checked.
Print Assumptions C18_tree_forwarding.
Print Assumptions C18_no_escape.
Print Assumptions C18_no_escape_tree.
Print Assumptions C18_faithful.
Print Assumptions C18_failure_signalled.
Print Assumptions C18_success_not_failure.
Print Assumptions C18_balanced_glue.
Print Assumptions C18_tree_table_checked.
Print Assumptions C18_reachable_invariant.
Print Assumptions C18_balanced.
Print Assumptions C18_balanced_interleaved.
Print Assumptions C18_balanced_tree.
Print Assumptions C18_memory_safe.
Print Assumptions C18_run_safe.
Print Assumptions C18_null_refused.
Print Assumptions C18_no_table_refused.
Print Assumptions C18_no_table_refused_glue.
Print Assumptions C18_faithful_compound.
Print Assumptions C18_wf_needed.
Print Assumptions C18_doc_pre_needed.
Print Assumptions C18_refuted_table_checked.
Print Assumptions C18_refuted_destroy_leaks.
Print Assumptions C18_refuted_convolve_escapes.
Print Assumptions C18_refuted_gradient_escapes.
Print Assumptions C18_refuted_null_handle_crashes.
Print Assumptions C18_refuted_accessors_crash.
