(* Properties_C18.v — C18: the C interface is a faithful, leak-free wrapper.

   Model: CApiModel.c_call = GLUE (data: Generated_cinter.wrappers, transcribed from src/cinter/splinetable.cpp by
   tools/translators/cinter.py) around ObjModel.cpp_step (C20's C++ object model).

   NOT proved (DESIGN §4 C18 asks for it):
     C18_balanced_full : … -> balanced (trace of the C++ objects' own allocations)
   It needs C20_balanced / C20_invariant, which NOTES_C20.md lists as not proved.  What is proved here is the glue half
   (C18_balanced_glue: every `new splinetable<>`, every ndsparse result, every memory-file buffer the wrappers hand out
   is released exactly once with its size over EVERY valid call sequence, under every allocation-failure oracle and
   every outcome of the C++ members), and that every change a wrapper makes to a C++ object is a cpp_step of its twin
   (C18_faithful), so that the object half is exactly C20's statement about the twin history.  The object half is
   tested: LeakSanitizer at the end of every sequence of the correspondence run. *)
From Coq Require Import List Arith Bool String.
From PS Require Import ObjResource ObjModel CGlue CApiModel Generated_cinter Generated_objfixes C18_Proofs.
Import ListNotations.
Open Scope string_scope.

(* ---- obligations on the working tree (fail when a wrapper loses its try/catch, returns 0 from a catch block, stops
        checking a pointer it dereferences, forwards to another member or in another argument order, or when
        ndsparse_destroy deletes through the base type again) ---- *)
Theorem C18_tree_glue_ok : glue_ok wrappers = true.
Proof. exact tree_glue_ok. Qed.

Theorem C18_tree_null_checked : forallb (null_checked wrappers) all_shapes = true.
Proof. vm_compute. reflexivity. Qed.

Theorem C18_tree_forwarding : forwarding wrappers =
  [("splinetable_init", "new", []); ("splinetable_free", "delete", ["real_table"]);
   ("readsplinefitstable", "new", ["path"]); ("writesplinefitstable", "write_fits", ["path"]);
   ("splinetable_get_key", "get_aux_value", ["key"]); ("splinetable_read_key", "read_key", ["key"; "result"]);
   ("splinetable_write_key", "write_key", ["key"; "value"]); ("splinetable_ndim", "get_ndim", []);
   ("splinetable_order", "get_order", ["dim"]); ("splinetable_nknots", "get_nknots", ["dim"]);
   ("splinetable_knots", "get_knots", ["dim"]); ("splinetable_knot", "get_knot", ["dim"; "knot"]);
   ("splinetable_lower_extent", "lower_extent", ["dim"]); ("splinetable_upper_extent", "upper_extent", ["dim"]);
   ("splinetable_period", "get_period", ["dim"]); ("splinetable_ncoeffs", "get_ncoeffs", ["dim"]);
   ("splinetable_total_ncoeffs", "get_ncoeffs", []); ("splinetable_stride", "get_stride", ["dim"]);
   ("splinetable_coefficients", "get_coefficients", []); ("tablesearchcenters", "searchcenters", ["x"; "centers"]);
   ("ndsplineeval", "ndsplineeval", ["x"; "centers"; "derivatives"]);
   ("ndsplineeval_gradient", "ndsplineeval_gradient", ["x"; "centers"; "evaluates"]);
   ("ndsplineeval_deriv", "ndsplineeval_deriv", ["x"; "centers"; "derivatives"]);
   ("splinetable_convolve", "convolve", ["dim"; "knots"; "n_knots"]);
   ("readsplinefitstable_mem", "new_if_null+read_fits_mem", ["buffer->data"; "buffer->size"]);
   ("writesplinefitstable_mem", "write_fits_mem", []);
   ("splinetable_glamfit", "fit", ["*data"; "weightsv"; "coordsv"; "splineOrderv"; "knotsv"; "smoothingv"; "penaltyOrderv"; "monodim"; "verbose"]);
   ("splinetable_grideval", "grideval", ["coordsv"]); ("ndsparse_destroy", "delete photospline::ndsparse", ["nd"]);
   ("splinetable_permute", "permuteDimensions", ["permutationv"])].
Proof. vm_compute. reflexivity. Qed.

(* ---- no exception ever leaves an extern "C" function: any glue table satisfying the obligation, any state, any
        call (NULL arguments included), any allocation oracles, any outcome of the C++ member ---- *)
Theorem C18_no_escape : forall gt c F GF cs call r,
  forallb (glue_protected gt) all_shapes = true -> snd (c_call gt c F GF cs call) <> Escaped r.
Proof. exact no_escape. Qed.

Theorem C18_no_escape_tree : forall c F GF cs call r, snd (c_call wrappers c F GF cs call) <> Escaped r.
Proof.
  intros. apply no_escape. destruct (glue_ok_struct wrappers tree_glue_ok) as [_ [_ H]]. exact H.
Qed.

(* ---- faithful: on a live handle and non-NULL arguments, a wrapper that is one member call does to the object world
        exactly what cpp_step of its twin does, and returns the twin's outcome in the C convention ---- *)
Theorem C18_faithful : forall gt c F GF cs call x,
  dead cs = false -> c_nulls call = [] -> live cs (c_h call) = true ->
  single_twin (c_args call) (c_h call) = Some x ->
  c_call gt c F GF cs call =
    (after (glue_of gt (fname (c_args call))) cs (fst (cpp_step c F (cw cs) x)) (snd (cpp_step c F (cw cs) x)),
     lift (glue_of gt (fname (c_args call))) (snd (cpp_step c F (cw cs) x))).
Proof. exact faithful_step. Qed.

(* failure of the twin <-> failure indication (non-zero / NULL / NaN-filled output) *)
Theorem C18_failure_signalled : forall g r, g_try g = true -> catch_signals g = true -> signals_failure (lift g (Failed r)) = true.
Proof. exact failure_signalled. Qed.
Theorem C18_success_not_failure : forall g,
  g_ok_ret g = CR0 \/ g_ok_ret g = CRVoid \/ (g_ok_ret g = CRValue /\ g_rtype g = "double") -> signals_failure (lift g Ok) = false.
Proof. exact success_not_failure. Qed.

(* ---- balanced (glue half): induction over ARBITRARY call sequences ---- *)
Theorem C18_balanced_glue : forall gt c F GF calls,
  glue_ok gt = true ->
  valid_sequence gt c F GF cstate0 calls = true ->
  all_released (fst (c_run gt c F GF cstate0 calls)) = true ->
  balanced (rev (trace (gm (fst (c_run gt c F GF cstate0 calls))))).
Proof. exact balanced_glue. Qed.

(* ---- concrete histories ---- *)
Definition ex_file : file := {| f_open_fails := false; f_fail := PNone; f_ndim := 1; f_orders := [2]; f_nknots := [8]; f_naxes := [5]; f_aux := [] |}.
Definition ex_missing : file := {| f_open_fails := true; f_fail := PNone; f_ndim := 0; f_orders := []; f_nknots := []; f_naxes := []; f_aux := [] |}.
Definition ex_9d : file := {| f_open_fails := false; f_fail := PNone; f_ndim := 9; f_orders := repeat 1 9; f_nknots := repeat 4 9; f_naxes := repeat 2 9; f_aux := [] |}.
Definition call (h : nat) (a : cargs) : ccall := {| c_h := h; c_nulls := []; c_args := a |}.
Definition h_grid : list ccall := [call 0 (ARead ex_file); call 0 (AGrideval 0 3); call 0 (ANdDestroy 0); call 0 AFree].
Definition h_conv : list ccall := [call 0 (ARead ex_file); call 0 (AConvolve 5 3)].
Definition h_grad : list ccall := [call 0 (ARead ex_9d); call 0 AGrad].
Definition h_null : list ccall := [call 0 (ARead ex_missing); call 0 (AWrite false)].
Definition h_mix : list ccall :=
  [call 0 AInit; call 0 (AReadMem ex_file); call 1 (ARead ex_file); call 1 (ARead ex_missing); call 0 (AConvolve 5 3);
   call 0 (APermute [1]); call 0 (AWriteMem 0 640 false); call 2 (AReadMem ex_missing); call 0 (AGrideval 1 3);
   call 0 (AFit {| ft_invalid := false; ft_fails := false; ft_orders := [2]; ft_nknots := [8] |});
   call 0 (ABufFree 0); call 0 (ANdDestroy 1); call 0 AFree; call 1 AFree; call 2 AFree].
Definition run0 gt calls := c_run gt cfg_fixed no_fault no_fault cstate0 calls.

(* the UNCHANGED wrappers (glue of tree a37ac82 for the five functions concerned): each defect on a concrete history *)
Theorem C18_refuted_destroy_leaks :
  valid_sequence (orig_over wrappers) cfg_fixed no_fault no_fault cstate0 h_grid = true /\
  all_released (fst (run0 (orig_over wrappers) h_grid)) = true /\
  balancedb (rev (trace (gm (fst (run0 (orig_over wrappers) h_grid))))) = false /\
  lost (gm (fst (run0 (orig_over wrappers) h_grid))) = [(2, 48)].
Proof. vm_compute. auto. Qed.
Theorem C18_refuted_convolve_escapes : snd (run0 (orig_over wrappers) h_conv) = [RInt 0; Escaped RInvalid].
Proof. vm_compute. reflexivity. Qed.
Theorem C18_refuted_gradient_escapes : snd (run0 (orig_over wrappers) h_grad) = [RInt 0; Escaped RInvalid].
Proof. vm_compute. reflexivity. Qed.
Theorem C18_refuted_null_handle_crashes : snd (run0 (orig_over wrappers) h_null) = [RInt 1; Crashed].
Proof. vm_compute. reflexivity. Qed.

(* the same histories on the working tree; and the hypotheses of C18_balanced_glue are satisfiable on a history that
   mixes successes and failures over three handles *)
Example C18_fixed_examples :
  balancedb (rev (trace (gm (fst (run0 wrappers h_grid))))) = true /\ lost (gm (fst (run0 wrappers h_grid))) = [] /\
  snd (run0 wrappers h_conv) = [RInt 0; RInt 1] /\ snd (run0 wrappers h_grad) = [RInt 0; RNaN] /\
  snd (run0 wrappers h_null) = [RInt 1; RInt 1].
Proof. vm_compute. auto. Qed.
Example C18_balanced_glue_nonvacuous :
  valid_sequence wrappers cfg_fixed no_fault no_fault cstate0 h_mix = true /\
  all_released (fst (run0 wrappers h_mix)) = true /\
  snd (run0 wrappers h_mix) = [RInt 0; RInt 0; RInt 0; RInt 1; RInt 1; RInt 1; RInt 0; RInt 1; RInt 0; RInt 1; RVoid; RVoid; RVoid; RVoid; RVoid] /\
  balancedb (rev (trace (wm (cw (fst (run0 wrappers h_mix)))))) = true.
Proof. vm_compute. auto. Qed.
Example C18_faithful_nonvacuous :
  let cs := fst (run0 wrappers [call 0 (ARead ex_file)]) in
  dead cs = false /\ live cs 0 = true /\ single_twin (AConvolve 5 3) 0 = Some (OConvolve 0 5 3) /\
  snd (cpp_step cfg_fixed no_fault (cw cs) (OConvolve 0 5 3)) = Failed RInvalid.
Proof. vm_compute. auto. Qed.

Print Assumptions C18_tree_glue_ok.
Print Assumptions C18_tree_null_checked.
Print Assumptions C18_tree_forwarding.
Print Assumptions C18_no_escape.
Print Assumptions C18_no_escape_tree.
Print Assumptions C18_faithful.
Print Assumptions C18_failure_signalled.
Print Assumptions C18_success_not_failure.
Print Assumptions C18_balanced_glue.
Print Assumptions C18_refuted_destroy_leaks.
Print Assumptions C18_refuted_convolve_escapes.
Print Assumptions C18_refuted_gradient_escapes.
Print Assumptions C18_refuted_null_handle_crashes.
