(* C05_Proofs.v — memory safety of lookup and evaluation, as far as it is logic:
   (A) the lookup terminates and returns in-range centers or fails, for EVERY coordinate (NaN included);
   (B) the coefficient positions read by the block walk: the evaluation model instantiated with a COLLECTING
       arithmetic (values are lists of the coefficient positions they were computed from) returns exactly the
       positions read — the same polymorphic term that is compared bitwise with the C++ on floats; all of them
       lie in [0, ncoeffs) whenever the centers are in range;
   (C) the knot indices: for ANY arithmetic (no laws — comparisons may answer anything, as with NaN), every
       intermediate of the one-dimensional routines (margin walk, all entries of the recurrence before the
       re-indexing discards some, derivative combination, recursive derivative) is unchanged when the knot array
       is altered outside [-order, nknots+order), the allocation the library makes.
   (D) the gradient's lane storage. *)
From Coq Require Import ZArith List Bool Lia.
From PS Require Import Arith EvalModel Generated Dispatch C04_Proofs.
Import ListNotations.
Local Open Scope Z_scope.

(* ============================================================================================== *)
(** * (A) lookup *)
Section Lookup.
Context {A : Arith}.
Notation K := (T A).
Variable ord : K -> Prop.
Hypothesis laws : OrdLaws A ord.

Definition center_in_range (d : @dimn A) (c : Z) : Prop :=
  Z.of_nat (d_order d) <= c <= d_nknots d - Z.of_nat (d_order d) - 2.

Lemma search_dim_unordered (d : @dimn A) (x : K) fuel : unordered x ->
  search_dim (d_kn d) (d_nknots d) fuel (Z.of_nat (d_order d)) (d_naxes d) x = Outside.
Proof.
  intro U. unfold search_dim, gtb. destruct (U (d_kn d 0)) as [_ [U2 _]]. rewrite U2. reflexivity.
Qed.

Lemma lookup_safe_dims : forall (ds : list (@dimn A)) xs,
  Forall (wf_dim ord) ds -> Forall (fun x => ord x \/ unordered x) xs -> length xs = length ds ->
  searchcenters_dims ds xs = COutside \/
  exists cs, searchcenters_dims ds xs = CFound cs /\ Forall2 center_in_range ds cs.
Proof.
  induction ds as [|d ds IH]; intros xs Hwf Hx Hlen.
  - destruct xs; [|discriminate]. right. exists []. split; [reflexivity|constructor].
  - destruct xs as [|x xs]; [discriminate|].
    inversion Hwf as [|? ? Wd Wds]; subst. inversion Hx as [|? ? Ox Oxs]; subst.
    cbn [searchcenters_dims]. destruct Ox as [Ox|Ux].
    + destruct (search_dim_cases ord laws d x Wd Ox) as [[E _]|[c [E [_ [Hc _]]]]]; rewrite E; [left; reflexivity|].
      destruct (IH xs Wds Oxs ltac:(cbn [length] in Hlen; lia)) as [E2|[cs [E2 Hcs]]]; rewrite E2; [left; reflexivity|].
      right. exists (c :: cs). split; [reflexivity|]. constructor; [exact Hc|exact Hcs].
    + rewrite (search_dim_unordered d x _ Ux). left. reflexivity.
Qed.
End Lookup.

(* ============================================================================================== *)
(** * (B) coefficient positions *)
Definition LogA : Arith := {|
  T := list Z; add := @app Z; sub := @app Z; mul := fun _ b => b; div := @app Z; opp := fun a => a;
  zero := []; one := []; ofZ := fun _ => []; ltb := fun _ _ => false; leb := fun _ _ => false; rnd := fun a => a |}.
Definition logcf : Z -> T LogA := fun p => [p].

Section Coef.
Notation L := (T LogA).

(* the inner chunk appends the positions pos, pos+1, ..., pos+len-1 *)
Lemma chunk_log (bt : L) (lb : list L) : forall pos (res : L),
  chunk (A := LogA) logcf bt lb pos res = res ++ map (fun i => pos + Z.of_nat i) (seq 0 (length lb)).
Proof.
  induction lb as [|l r IH]; intros pos res.
  - cbn [chunk length seq map]. rewrite app_nil_r. reflexivity.
  - cbn [chunk length]. rewrite IH. cbn [rnd add mul LogA logcf]. rewrite <- app_assoc. f_equal.
    unfold logcf. change (seq 0 (S (length r))) with (0%nat :: seq 1 (length r)). rewrite map_cons. cbn [app].
    f_equal; [lia|]. rewrite <- seq_shift, map_map. apply map_ext. intro i. lia.
Qed.

(* the odometer: value and well-formedness of the digit vector *)
Fixpoint dval (rd : list digit) : Z :=
  match rd with [] => 0 | (o, s, p) :: rest => Z.of_nat p * s + dval rest end.
Fixpoint dmax (rd : list digit) : Z :=
  match rd with [] => 0 | (o, s, p) :: rest => Z.of_nat o * s + dmax rest end.
Fixpoint dok (rd : list digit) : Prop :=
  match rd with [] => True | (o, s, p) :: rest => (p <= o)%nat /\ 0 <= s /\ dok rest end.

Lemma odo_incr_inv : forall rd, dok rd ->
  let '(rd', dpos) := odo_incr rd in dok rd' /\ dval rd' = dval rd + dpos /\ dmax rd' = dmax rd.
Proof.
  induction rd as [|[[o s] p] rest IH]; intros H.
  - cbn [odo_incr dok dval dmax]. repeat split; lia.
  - cbn [dok] in H. destruct H as [Hp [Hs Hr]]. cbn [odo_incr].
    destruct (Nat.ltb_spec o (S p)) as [Hlt|Hge].
    + specialize (IH Hr). destruct (odo_incr rest) as [rest' dpos]. destruct IH as [I1 [I2 I3]].
      cbn [dok dval dmax]. repeat split; try lia; try assumption.
    + cbn [dok dval dmax]. repeat split; try lia; try assumption.
Qed.

Lemma dval_bounds : forall rd, dok rd -> 0 <= dval rd <= dmax rd.
Proof.
  induction rd as [|[[o s] p] rest IH]; intros H; cbn [dval dmax]; [lia|].
  cbn [dok] in H. destruct H as [Hp [Hs Hr]]. specialize (IH Hr). nia.
Qed.

Variable lo hi : Z.
Let inb (z : Z) : Prop := lo <= z <= hi.

Lemma core_loop_log (lbs : list (list L)) (lb_last : list L) (pos0 : Z) (M : Z) : forall fuel rd pos (res : L),
  dok rd -> dmax rd = M -> pos = pos0 + dval rd ->
  lo <= pos0 -> pos0 + M + Z.of_nat (length lb_last) - 1 <= hi ->
  Forall inb res ->
  Forall inb (core_loop (A := LogA) logcf fuel lbs lb_last rd pos res).
Proof.
  induction fuel as [|f IH]; intros rd pos res Hok Hmax Hpos Hlo Hhi Hres; [exact Hres|].
  cbn [core_loop]. cbv zeta. rewrite chunk_log.
  assert (Hres' : Forall inb (res ++ map (fun i => pos + Z.of_nat i) (seq 0 (length lb_last)))).
  { apply Forall_app. split; [exact Hres|]. apply Forall_forall. intros z Hz. apply in_map_iff in Hz.
    destruct Hz as [i [<- Hi]]. apply in_seq in Hi. pose proof (dval_bounds rd Hok). unfold inb. lia. }
  destruct f as [|f']; [exact Hres'|].
  pose proof (odo_incr_inv rd Hok) as Hinc. destruct (odo_incr rd) as [rd' dpos]. destruct Hinc as [I1 [I2 I3]].
  apply IH; try assumption; lia.
Qed.
End Coef.

(* row-major storage: stride_d = naxes_{d+1} * stride_{d+1}, last stride 1; the flat index of an in-range multi-index *)
Fixpoint row_major (ns ss : list Z) : Prop :=
  match ns, ss with
  | [], [] => True
  | n :: ns', s :: ss' => 0 < n /\ row_major ns' ss' /\ s = match ns', ss' with n1 :: _, s1 :: _ => n1 * s1 | _, _ => 1 end
  | _, _ => False
  end.
Fixpoint dotZ (a ss : list Z) : Z :=
  match a, ss with x :: a', s :: ss' => x * s + dotZ a' ss' | _, _ => 0 end.
Definition ncoeffs_of (ns ss : list Z) : Z := match ns, ss with n :: _, s :: _ => n * s | _, _ => 1 end.

Lemma row_major_bound : forall ns ss a, row_major ns ss -> Forall2 (fun x n => 0 <= x <= n - 1) a ns ->
  0 <= dotZ a ss <= ncoeffs_of ns ss - 1 /\ 0 < ncoeffs_of ns ss.
Proof.
  induction ns as [|n ns IH]; intros ss a Hrm Ha.
  - destruct ss; [|contradiction]. inversion Ha; subst. cbn [dotZ ncoeffs_of]. lia.
  - destruct ss as [|s ss]; [contradiction|].
    inversion Ha as [|x n' a' ns' Hx Ha']; subst.
    cbn [row_major] in Hrm. destruct Hrm as [Hn [Hrm Hs]]. specialize (IH ss a' Hrm Ha').
    cbn [dotZ]. unfold ncoeffs_of at 1 2. fold (ncoeffs_of ns ss) in *.
    assert (Hs' : s = ncoeffs_of ns ss) by (rewrite Hs; unfold ncoeffs_of; destruct ns, ss; reflexivity).
    nia.
Qed.

(* ============================================================================================== *)
(** * (C) knot indices: independence of everything outside the allocation, for any arithmetic *)
Section Knots.
Context {A : Arith}.
Notation K := (T A).
Variables kn kn' : Z -> K.
Variable nknots : Z.
Variable n : nat.                                        (* the order *)
Hypothesis Hagree : forall i, - Z.of_nat n <= i < nknots + Z.of_nat n -> kn i = kn' i.
Hypothesis Hn : 0 <= nknots.

Lemma walk_down_indep x : forall fuel left, -1 <= left < nknots ->
  walk_down kn fuel x left = walk_down kn' fuel x left /\ -1 <= walk_down kn fuel x left <= left.
Proof.
  induction fuel as [|f IH]; intros left Hl; cbn [walk_down]; [split; [reflexivity|lia]|].
  destruct (Z.leb_spec 0 left) as [H0|H0]; cbn [andb]; [|split; [reflexivity|lia]].
  rewrite <- (Hagree left) by lia.
  destruct (ltb x (kn left)); [|split; [reflexivity|lia]].
  destruct (IH (left - 1) ltac:(lia)) as [E B]. split; [exact E|lia].
Qed.

Lemma walk_up_indep x : forall fuel left, -1 <= left ->
  walk_up kn nknots fuel x left = walk_up kn' nknots fuel x left /\
  Z.min left (nknots - 1) <= walk_up kn nknots fuel x left <= Z.max left (nknots - 1).
Proof.
  induction fuel as [|f IH]; intros left Hl; cbn [walk_up]; [split; [reflexivity|lia]|].
  destruct (Z.ltb_spec left (nknots - 1)) as [H0|H0]; cbn [andb]; [|split; [reflexivity|lia]].
  unfold gtb. rewrite <- (Hagree (left + 1)) by lia.
  destruct (ltb (kn (left + 1)) x); [|split; [reflexivity|lia]].
  destruct (IH (left + 1) ltac:(lia)) as [E B]. split; [exact E|lia].
Qed.

(* the interval handed to the recurrence: same for both knot arrays, and within [-1, nknots-1] *)
Lemma adjust_left_indep x c : Z.of_nat n <= c <= nknots - Z.of_nat n - 2 ->
  adjust_left kn nknots (Z.of_nat n) x c = adjust_left kn' nknots (Z.of_nat n) x c /\
  -1 <= adjust_left kn nknots (Z.of_nat n) x c <= nknots - 1.
Proof.
  intros Hc. unfold adjust_left.
  destruct (walk_down_indep x (Z.to_nat (c + 1)) c ltac:(lia)) as [E1 B1].
  set (l1 := if c =? Z.of_nat n then walk_down kn (Z.to_nat (c + 1)) x c else c).
  set (l1' := if c =? Z.of_nat n then walk_down kn' (Z.to_nat (c + 1)) x c else c).
  assert (El : l1 = l1') by (subst l1 l1'; destruct (c =? Z.of_nat n); [exact E1|reflexivity]).
  assert (Bl : -1 <= l1 <= nknots - Z.of_nat n - 2) by (subst l1; destruct (c =? Z.of_nat n); lia).
  rewrite <- El.
  destruct (walk_up_indep x (Z.to_nat (nknots - 1 - l1)) l1 ltac:(lia)) as [E2 B2].
  destruct (l1 =? nknots - Z.of_nat n - 2); [split; [exact E2|lia]|split; [reflexivity|lia]].
Qed.

(* the recurrence: ALL entries (before the re-indexing drops the padding-dependent ones) *)
Lemma dr_indep left x i : -1 <= left <= nknots - 1 -> (i < n)%nat -> dr kn left x i = dr kn' left x i.
Proof. intros Hl Hi. unfold dr. rewrite Hagree by lia. reflexivity. Qed.
Lemma dl_indep left x i : -1 <= left <= nknots - 1 -> (i < n)%nat -> dl kn left x i = dl kn' left x i.
Proof. intros Hl Hi. unfold dl. rewrite Hagree by lia. reflexivity. Qed.

Lemma deboor_inner_indep left x j : -1 <= left <= nknots - 1 -> (j < n)%nat ->
  forall b i saved, (i + length b = S j)%nat ->
  deboor_inner kn left x j i b saved = deboor_inner kn' left x j i b saved.
Proof.
  intros Hl Hj. induction b as [|bi rest IH]; intros i saved Hlen; [reflexivity|].
  cbn [length] in Hlen. cbn [deboor_inner].
  rewrite (dr_indep left x i Hl ltac:(lia)), (dl_indep left x (j - i) Hl ltac:(lia)).
  f_equal. apply IH. lia.
Qed.

Lemma deboor_inner_length (k : Z -> K) left x j : forall b i saved, length (deboor_inner k left x j i b saved) = S (length b).
Proof. induction b as [|bi rest IH]; intros i saved; cbn [deboor_inner length]; [reflexivity|]. rewrite IH. reflexivity. Qed.

Lemma deboor_rounds_indep left x : -1 <= left <= nknots - 1 ->
  forall count jlow b, (jlow + count <= n)%nat -> length b = S jlow ->
  deboor_rounds kn left x jlow count b = deboor_rounds kn' left x jlow count b.
Proof.
  intros Hl. induction count as [|c IH]; intros jlow b Hj Hb; [reflexivity|].
  cbn [deboor_rounds]. unfold deboor_round.
  rewrite (deboor_inner_indep left x jlow Hl ltac:(lia) b 0%nat zero ltac:(lia)).
  apply IH; [lia|]. rewrite deboor_inner_length. lia.
Qed.

Lemma kdiff_indep left i : -1 <= left <= nknots - 1 -> 1 <= i <= Z.of_nat n ->
  kdiff kn left (Z.of_nat n) i = kdiff kn' left (Z.of_nat n) i.
Proof. intros Hl Hi. unfold kdiff. rewrite (Hagree (left + i)) by lia. rewrite (Hagree (left + i - Z.of_nat n)) by lia. reflexivity. Qed.

Lemma deriv_mid_indep left : -1 <= left <= nknots - 1 ->
  forall v i temp, (1 <= i)%nat -> (i + length v = n)%nat ->
  deriv_mid kn left n i temp v = deriv_mid kn' left n i temp v.
Proof.
  intros Hl. induction v as [|vi rest IH]; intros i temp Hi Hlen; cbn [length] in Hlen; cbn [deriv_mid].
  - rewrite (kdiff_indep left (Z.of_nat n) Hl ltac:(lia)). reflexivity.
  - rewrite (kdiff_indep left (Z.of_nat i) Hl ltac:(lia)). rewrite (kdiff_indep left (Z.of_nat i + 1) Hl ltac:(lia)).
    f_equal. apply IH; lia.
Qed.

Lemma deriv_combine_indep left v : -1 <= left <= nknots - 1 -> length v = n ->
  deriv_combine kn left n v = deriv_combine kn' left n v.
Proof.
  intros Hl Hlen. destruct v as [|v0 rest]; [reflexivity|]. cbn [length] in Hlen. cbn [deriv_combine].
  rewrite (kdiff_indep left 1 Hl ltac:(lia)). f_equal. apply deriv_mid_indep; [exact Hl|lia|lia].
Qed.
End Knots.

(* the three one-dimensional routines of the evaluation *)
Section KnotsTop.
Context {A : Arith}.
Notation K := (T A).
Variables kn kn' : Z -> K.
Variable nknots : Z.
Variable n : nat.
Hypothesis Hagree : forall i, - Z.of_nat n <= i < nknots + Z.of_nat n -> kn i = kn' i.
Hypothesis Hn : 0 <= nknots.
Variable x : K.
Variable c : Z.
Hypothesis Hc : Z.of_nat n <= c <= nknots - Z.of_nat n - 2.

Lemma deboor_rounds_length (k : Z -> K) left : forall count jlow b, length (deboor_rounds k left x jlow count b) = (length b + count)%nat.
Proof.
  induction count as [|cnt IH]; intros jlow b; cbn [deboor_rounds]; [lia|].
  rewrite IH. unfold deboor_round. rewrite deboor_inner_length. lia.
Qed.

Lemma bsplvb_simple_indep : bsplvb_simple kn nknots n x c = bsplvb_simple kn' nknots n x c.
Proof.
  unfold bsplvb_simple.
  destruct (adjust_left_indep kn kn' nknots n Hagree x c Hc) as [E B]. rewrite <- E.
  rewrite (deboor_rounds_indep kn kn' nknots n Hagree _ x B n 0%nat [rnd one]) by (cbn [length]; lia).
  reflexivity.
Qed.

Lemma bspline_deriv_nonzero_indep : bspline_deriv_nonzero kn nknots n x c = bspline_deriv_nonzero kn' nknots n x c.
Proof.
  unfold bspline_deriv_nonzero. destruct n as [|n1] eqn:En; [reflexivity|]. rewrite <- En in *.
  destruct (adjust_left_indep kn kn' nknots n Hagree x c Hc) as [E B]. rewrite <- E.
  rewrite (deboor_rounds_indep kn kn' nknots n Hagree _ x B n1 0%nat [rnd one]) by (cbn [length]; lia).
  rewrite (deriv_combine_indep kn kn' nknots n Hagree _ _ B) by (rewrite deboor_rounds_length; cbn [length]; lia).
  reflexivity.
Qed.

Lemma bspline_nonzero_indep : bspline_nonzero kn nknots n x c = bspline_nonzero kn' nknots n x c.
Proof.
  unfold bspline_nonzero. destruct n as [|n1] eqn:En; [reflexivity|]. rewrite <- En in *.
  destruct (adjust_left_indep kn kn' nknots n Hagree x c Hc) as [E B]. rewrite <- E.
  rewrite (deboor_rounds_indep kn kn' nknots n Hagree _ x B n1 0%nat [rnd one]) by (cbn [length]; lia).
  set (v := deboor_rounds kn' (adjust_left kn nknots (Z.of_nat n) x c) x 0 n1 [rnd one]).
  assert (Hv : length v = n) by (subst v; rewrite deboor_rounds_length; cbn [length]; lia).
  rewrite (deriv_combine_indep kn kn' nknots n Hagree _ v B Hv).
  rewrite (deboor_rounds_indep kn kn' nknots n Hagree _ x B 1 n1 v) by lia.
  reflexivity.
Qed.

(* the recursive derivative used for orders >= 2: indices c-n .. c+1 <= nknots-1, always inside the knot vector proper *)
Lemma bspline_indep : forall m i, 0 <= i -> i + Z.of_nat m + 1 <= nknots - 1 + Z.of_nat n -> bspline kn m x i = bspline kn' m x i.
Proof.
  induction m as [|m IH]; intros i Hi0 Hi1; cbn [bspline].
  - rewrite (Hagree i) by lia. rewrite (Hagree (i + 1)) by lia. reflexivity.
  - rewrite (IH i) by lia. rewrite (IH (i + 1)) by lia.
    rewrite (Hagree i), (Hagree (i + Z.of_nat (S m))), (Hagree (i + Z.of_nat (S m) + 1)), (Hagree (i + 1)) by lia. reflexivity.
Qed.
Lemma bspline_deriv_indep : forall m i k, 0 <= i -> i + Z.of_nat m + 1 <= nknots - 1 + Z.of_nat n ->
  bspline_deriv kn m x i k = bspline_deriv kn' m x i k.
Proof.
  induction m as [|m IH]; intros i k Hi0 Hi1; cbn [bspline_deriv]; [reflexivity|].
  rewrite (Hagree i), (Hagree (i + Z.of_nat (S m))), (Hagree (i + Z.of_nat (S m) + 1)), (Hagree (i + 1)) by lia.
  destruct k as [|[|k]].
  - rewrite (bspline_indep m i), (bspline_indep m (i + 1)) by lia. reflexivity.
  - rewrite (bspline_indep m i), (bspline_indep m (i + 1)) by lia. reflexivity.
  - rewrite (IH i), (IH (i + 1)) by lia. reflexivity.
Qed.
Lemma bspline_left_indep : forall m i, 0 <= i -> i + Z.of_nat m + 1 <= nknots - 1 + Z.of_nat n -> bspline_left kn m x i = bspline_left kn' m x i.
Proof.
  induction m as [|m IH]; intros i Hi0 Hi1; cbn [bspline_left].
  - rewrite (Hagree i) by lia. rewrite (Hagree (i + 1)) by lia. reflexivity.
  - rewrite (IH i) by lia. rewrite (IH (i + 1)) by lia.
    rewrite (Hagree i), (Hagree (i + Z.of_nat (S m))), (Hagree (i + Z.of_nat (S m) + 1)), (Hagree (i + 1)) by lia. reflexivity.
Qed.
Lemma bspline_deriv_left_indep : forall m i k, 0 <= i -> i + Z.of_nat m + 1 <= nknots - 1 + Z.of_nat n ->
  bspline_deriv_left kn m x i k = bspline_deriv_left kn' m x i k.
Proof.
  induction m as [|m IH]; intros i k Hi0 Hi1; cbn [bspline_deriv_left]; [reflexivity|].
  rewrite (Hagree i), (Hagree (i + Z.of_nat (S m))), (Hagree (i + Z.of_nat (S m) + 1)), (Hagree (i + 1)) by lia.
  destruct k as [|[|k]].
  - rewrite (bspline_left_indep m i), (bspline_left_indep m (i + 1)) by lia. reflexivity.
  - rewrite (bspline_left_indep m i), (bspline_left_indep m (i + 1)) by lia. reflexivity.
  - rewrite (IH i), (IH (i + 1)) by lia. reflexivity.
Qed.
End KnotsTop.

(* ============================================================================================== *)
(** * assembly of (B) for core_generic *)
Section CoefTop.
Notation L := (T LogA).

Fixpoint dotN (os : list nat) (ss : list Z) : Z :=
  match os, ss with o :: os', s :: ss' => Z.of_nat o * s + dotN os' ss' | _, _ => 0 end.

Lemma dmax_app : forall a b, dmax (a ++ b) = dmax a + dmax b.
Proof. induction a as [|[[o s] p] a IH]; intros b; cbn [app dmax]; [lia|]. rewrite IH. lia. Qed.
Lemma dmax_rev : forall a, dmax (rev a) = dmax a.
Proof. induction a as [|[[o s] p] a IH]; cbn [rev dmax]; [reflexivity|]. rewrite dmax_app, IH. cbn [dmax]. lia. Qed.
Lemma dval_app : forall a b, dval (a ++ b) = dval a + dval b.
Proof. induction a as [|[[o s] p] a IH]; intros b; cbn [app dval]; [lia|]. rewrite IH. lia. Qed.
Lemma dok_app : forall a b, dok (a ++ b) <-> dok a /\ dok b.
Proof. induction a as [|[[o s] p] a IH]; intros b; cbn [app dok]; [tauto|]. rewrite IH. tauto. Qed.

Lemma digits_init : forall (os : list nat) (ss : list Z) k, Forall (fun s => 0 <= s) ss ->
  let l := combine (combine os ss) (repeat O k) in
  dok (rev l) /\ dval (rev l) = 0 /\ dmax (rev l) <= dotN os ss.
Proof.
  induction os as [|o os IH]; intros ss k Hs; cbv zeta.
  - cbn [combine rev dok dval dmax dotN]. repeat split; lia.
  - destruct ss as [|s ss]; [cbn [combine rev dok dval dmax dotN]; repeat split; lia|].
    destruct k as [|k]; [cbn [combine repeat rev dok dval dmax dotN]; inversion Hs; subst; repeat split; try lia|].
    + assert (0 <= dotN os ss).
      { clear - H2. revert ss H2. induction os as [|o' os IH']; intros ss Hs; [cbn; lia|]. destruct ss as [|s' ss]; [cbn; lia|].
        inversion Hs; subst. cbn [dotN]. specialize (IH' ss H2). nia. }
      nia.
    + inversion Hs as [|? ? Hs0 Hs']; subst. specialize (IH ss k Hs'). cbv zeta in IH. destruct IH as [I1 [I2 I3]].
      cbn [combine repeat rev]. rewrite dok_app, dval_app, dmax_app. cbn [dok dval dmax dotN].
      repeat split; try assumption; lia.
Qed.

Lemma init_pos_dot : forall (os : list nat) (ss cs : list Z), length os = length ss -> length cs = length ss ->
  init_pos os ss cs + dotN os ss = dotZ cs ss.
Proof.
  induction os as [|o os IH]; intros ss cs H1 H2; destruct ss as [|s ss]; destruct cs as [|c cs]; try discriminate; cbn [init_pos dotN dotZ]; [reflexivity|].
  cbn [length] in *. rewrite <- (IH ss cs) by lia. lia.
Qed.

Lemma dotN_firstn_le : forall (os : list nat) (ss : list Z) k, Forall (fun s => 0 <= s) ss -> dotN (firstn k os) (firstn k ss) <= dotN os ss.
Proof.
  induction os as [|o os IH]; intros ss k Hs; [destruct k; cbn; lia|].
  destruct ss as [|s ss]; [destruct k; cbn; lia|]. inversion Hs; subst.
  destruct k as [|k]; cbn [firstn dotN].
  - assert (0 <= dotN os ss).
    { clear - H2. revert ss H2. induction os as [|o' os IH']; intros ss Hs; [cbn; lia|]. destruct ss as [|s' ss]; [cbn; lia|].
      inversion Hs; subst. cbn [dotN]. specialize (IH' ss H2). nia. }
    nia.
  - specialize (IH ss k H2). lia.
Qed.

(* dotN splits at the last dimension *)
Lemma dotN_split_last : forall (os : list nat) (ss : list Z), length os = length ss -> os <> [] ->
  dotN os ss = dotN (firstn (length os - 1) os) (firstn (length os - 1) ss) + Z.of_nat (last os O) * nth (length os - 1) ss 0.
Proof.
  induction os as [|o os IH]; intros ss Hlen Hne; [congruence|].
  destruct ss as [|s ss]; [discriminate|]. cbn [length] in Hlen.
  destruct os as [|o2 os].
  - destruct ss; [|discriminate]. cbn. lia.
  - destruct ss as [|s2 ss]; [discriminate|].
    replace (length (o :: o2 :: os) - 1)%nat with (S (length (o2 :: os) - 1)) by (cbn [length]; lia).
    set (k := (length (o2 :: os) - 1)%nat).
    change (firstn (S k) (o :: o2 :: os)) with (o :: firstn k (o2 :: os)).
    change (firstn (S k) (s :: s2 :: ss)) with (s :: firstn k (s2 :: ss)).
    change (nth (S k) (s :: s2 :: ss) 0) with (nth k (s2 :: ss) 0).
    change (last (o :: o2 :: os) O) with (last (o2 :: os) O).
    change (dotN (o :: o2 :: os) (s :: s2 :: ss)) with (Z.of_nat o * s + dotN (o2 :: os) (s2 :: ss)).
    change (dotN (o :: firstn k (o2 :: os)) (s :: firstn k (s2 :: ss))) with (Z.of_nat o * s + dotN (firstn k (o2 :: os)) (firstn k (s2 :: ss))).
    rewrite (IH (s2 :: ss)) by (cbn [length] in *; try lia; discriminate). fold k. lia.
Qed.

Lemma row_major_strides_nonneg : forall ns ss, row_major ns ss -> Forall (fun s => 0 < s) ss.
Proof.
  induction ns as [|n ns IH]; intros ss H; destruct ss as [|s ss]; try contradiction; [constructor|].
  cbn [row_major] in H. destruct H as [Hn [Hrm Hs]]. specialize (IH ss Hrm). constructor; [|exact IH].
  destruct ns as [|n1 ns1]; destruct ss as [|s1 ss1]; try lia; try contradiction.
  cbn [row_major] in Hrm. destruct Hrm as [Hn1 _]. inversion IH; subst. nia.
Qed.

Lemma row_major_last_one : forall ns ss, row_major ns ss -> ns <> [] -> nth (length ns - 1) ss 0 = 1.
Proof.
  induction ns as [|n ns IH]; intros ss H Hne; [congruence|].
  destruct ss as [|s ss]; [contradiction|]. cbn [row_major] in H. destruct H as [Hn [Hrm Hs]].
  destruct ns as [|n1 ns1].
  - destruct ss; [|contradiction]. cbn. exact Hs.
  - replace (length (n :: n1 :: ns1) - 1)%nat with (S (length (n1 :: ns1) - 1)) by (cbn [length]; lia).
    cbn [nth]. apply IH; [exact Hrm|discriminate].
Qed.

Lemma row_major_length : forall ns ss, row_major ns ss -> length ns = length ss.
Proof.
  induction ns as [|n ns IH]; intros ss H; destruct ss as [|s ss]; try contradiction; [reflexivity|].
  cbn [row_major] in H. destruct H as [_ [Hrm _]]. cbn [length]. f_equal. apply IH. exact Hrm.
Qed.

Theorem core_generic_reads_in_bounds (t : @table LogA) (cs : list Z) (lbs : list (list L)) :
  coef t = logcf ->
  dims t <> [] ->
  row_major (map d_naxes (dims t)) (strides_of t) ->
  length cs = ndim_of t ->
  Forall2 (fun c d => Z.of_nat (d_order d) <= c <= d_naxes d - 1) cs (dims t) ->
  Forall (fun p => 0 <= p < ncoeffs_of (map d_naxes (dims t)) (strides_of t)) (core_generic t cs lbs).
Proof.
  intros Hcf Hne Hrm Hcs Hc.
  set (ns := map d_naxes (dims t)) in *. set (ss := strides_of t) in *. set (os := orders_of t).
  set (D := ndim_of t) in *.
  assert (HD : (1 <= D)%nat) by (subst D; unfold ndim_of; destruct (dims t); [congruence|cbn [length]; lia]).
  assert (Hns : length ns = D) by (subst ns D; unfold ndim_of; apply map_length).
  assert (Hos : length os = D) by (subst os D; unfold orders_of, ndim_of; apply map_length).
  assert (Hss : length ss = D) by (rewrite <- (row_major_length ns ss Hrm); exact Hns).
  pose proof (row_major_strides_nonneg ns ss Hrm) as Hpos.
  assert (Hnn : Forall (fun s => 0 <= s) ss) by (eapply Forall_impl; [|exact Hpos]; cbn; intros; lia).
  assert (Hlast : nth (D - 1) ss 0 = 1).
  { rewrite <- Hns. apply row_major_last_one; [exact Hrm|]. intro E. rewrite E in Hns. cbn [length] in Hns. lia. }
  (* the flat index of the block's far corner *)
  assert (Ha : Forall2 (fun x n => 0 <= x <= n - 1) cs ns).
  { subst ns. clear - Hc. induction Hc; cbn [map]; constructor; [lia|assumption]. }
  destruct (row_major_bound ns ss cs Hrm Ha) as [Hb1 Hb2].
  assert (Hinit : init_pos os ss cs + dotN os ss = dotZ cs ss) by (apply init_pos_dot; lia).
  assert (Hipos : 0 <= init_pos os ss cs).
  { subst os ss. unfold orders_of, strides_of. clear - Hc Hnn. unfold strides_of in Hnn.
    revert Hnn. induction Hc as [|c d cs ds Hcd Hrest IH]; intros Hnn; cbn [map init_pos]; [lia|].
    inversion Hnn; subst. specialize (IH H2). nia. }
  unfold core_generic, core_run. cbv zeta. fold D os ss.
  rewrite (firstn_all2 (n := D) os) by lia. rewrite (firstn_all2 (n := D) ss) by lia.
  rewrite Hcf.
  destruct (digits_init (firstn (D - 1) os) (firstn (D - 1) ss) (D - 1)) as [K1 [K2 K3]].
  { clear - Hnn. revert Hnn. generalize (D - 1)%nat. induction ss as [|s ss IH]; intros k H; [destruct k; constructor|].
    inversion H; subst. destruct k; [constructor|]. cbn [firstn]. constructor; [assumption|apply IH; assumption]. }
  eapply Forall_impl; [|apply (core_loop_log 0 (ncoeffs_of ns ss - 1) _ _ (init_pos os ss (firstn D cs)) _ _ _ _ [] K1 eq_refl)].
  - cbn beta. intros p Hp. lia.
  - rewrite K2. lia.
  - replace (firstn D cs) with cs by (symmetry; apply firstn_all2; lia). exact Hipos.
  - replace (firstn D cs) with cs by (symmetry; apply firstn_all2; lia).
    assert (Hlen : (length (firstn (S (last os O)) (nth (D - 1) lbs [])) <= S (last os O))%nat) by (rewrite firstn_length; lia).
    pose proof (dotN_split_last os ss ltac:(lia) ltac:(intro E; rewrite E in Hos; cbn [length] in Hos; lia)) as Hsp.
    rewrite Hos, Hlast in Hsp. lia.
  - constructor.
Qed.
End CoefTop.
