(* C11_Exit_Proofs.v — a NormalExit of the repaired block3 solver (exit test `nH2 == 0 && nH1 == 0 &&
   full_step`) returns a point that satisfies the KKT conditions within the tolerance. Only the equations of
   the reduced solve are used (no symmetry, no definiteness). *)
From Coq Require Import List Bool ZArith Lia Field Ring PeanoNat.
From PS Require Import Arith NnlsModel C11_Spec C11_KKT_Proofs.
Import ListNotations.

Section Exit.
Context {A : Arith}.
Variable OF : OField A.
Notation K := (T A).

Add Field Kf : (OF_field A OF).

(* ---- order ------------------------------------------------------------------------------------------ *)
Lemma ltb_false_le (a b : K) : ltb a b = false -> le b a.
Proof. unfold le. rewrite (OF_ltb_leb A OF). destruct (leb b a); simpl; congruence. Qed.

(* ---- upd / scatter ---------------------------------------------------------------------------------- *)
Lemma length_upd (v : list K) i a : length (upd v i a) = length v.
Proof. revert i; induction v as [|c v IH]; intros [|i]; cbn [upd length]; auto. Qed.

Lemma nthK_upd_same (v : list K) i a : i < length v -> nthK (upd v i a) i = a.
Proof.
  revert i; induction v as [|c v IH]; intros [|i] H; cbn [length] in H; try lia; cbn [upd]; unfold nthK; cbn [nth]; auto.
  apply IH. lia.
Qed.

Lemma nthK_upd_other (v : list K) i j a : i <> j -> nthK (upd v i a) j = nthK v j.
Proof.
  revert i j; induction v as [|c v IH]; intros [|i] [|j] H; cbn [upd]; unfold nthK; cbn [nth]; auto; try lia.
  apply IH. lia.
Qed.

Lemma length_scatter S : forall (v z : list K), length (scatter v S z) = length v.
Proof. induction S as [|i S IH]; intros v [|a z]; cbn [scatter]; auto. rewrite IH. apply length_upd. Qed.

Lemma nthK_scatter_notin S : forall (v z : list K) j, ~ In j S -> nthK (scatter v S z) j = nthK v j.
Proof.
  induction S as [|i S IH]; intros v [|a z] j H; cbn [scatter]; auto.
  rewrite IH by (intro; apply H; right; auto). apply nthK_upd_other. intro; apply H; left; auto.
Qed.

Lemma gather_scatter S : forall (v z : list K), NoDup S -> (forall i, In i S -> i < length v) ->
  length z = length S -> gather (scatter v S z) S = z.
Proof.
  induction S as [|i S IH]; intros v [|a z] Hn Hb Hl; cbn [length] in Hl; try discriminate; cbn [scatter gather map]; auto.
  inversion Hn; subst. f_equal.
  - rewrite nthK_scatter_notin by assumption. apply nthK_upd_same. apply Hb. left; auto.
  - apply IH; auto. intros j Hj. rewrite length_upd. apply Hb. right; auto.
Qed.

Lemma nthK_scatter_zeros S : forall (v : list K) i, In i S -> i < length v ->
  nthK (scatter v S (zeros (length S))) i = zero.
Proof.
  induction S as [|j S IH]; intros v i Hi Hl; [destruct Hi|].
  cbn [length zeros repeat scatter]. change (repeat zero (length S)) with (@zeros A (length S)).
  destruct (in_dec Nat.eq_dec i S) as [Hin|Hin].
  - apply IH; auto. rewrite length_upd; auto.
  - destruct Hi as [->|Hi]; [|contradiction]. rewrite nthK_scatter_notin by auto. apply nthK_upd_same; auto.
Qed.

(* ---- nonneg ----------------------------------------------------------------------------------------- *)
Lemma nonneg_upd (v : list K) i a : nonneg v -> le zero a -> nonneg (upd v i a).
Proof.
  unfold nonneg. revert i; induction v as [|c v IH]; intros [|i] Hv Ha; cbn [upd]; auto;
    inversion Hv; subst; constructor; auto.
Qed.

Lemma nonneg_scatter S : forall (v z : list K), nonneg v -> nonneg z -> nonneg (scatter v S z).
Proof.
  induction S as [|i S IH]; intros v [|a z] Hv Hz; cbn [scatter]; auto.
  inversion Hz; subst. apply IH; auto. apply nonneg_upd; auto.
Qed.

Lemma nonneg_zeros k : nonneg (@zeros A k).
Proof. unfold nonneg, zeros. apply Forall_forall. intros x Hx. apply repeat_spec in Hx. subst. apply (le_refl OF). Qed.

Lemma nonneg_nth (v : list K) i : nonneg v -> le zero (nthK v i).
Proof.
  unfold nonneg. revert i; induction v as [|c v IH]; intros i Hv.
  - rewrite nthK_nil. apply (le_refl OF).
  - inversion Hv; subst. destruct i; unfold nthK; cbn [nth]; auto. apply IH; auto.
Qed.

(* ---- index sets ------------------------------------------------------------------------------------- *)
Lemma memb_In i S : memb i S = true <-> In i S.
Proof.
  unfold memb. rewrite existsb_exists. split.
  - intros [x [H1 H2]]. apply Nat.eqb_eq in H2. subst; auto.
  - intro H. exists i. split; auto. apply Nat.eqb_refl.
Qed.

Lemma In_remove_all i S H : In i (remove_all S H) <-> In i S /\ ~ In i H.
Proof.
  unfold remove_all. rewrite filter_In. rewrite negb_true_iff. rewrite <- (memb_In i H).
  destruct (memb i H); intuition congruence.
Qed.

Lemma NoDup_remove_all S H : NoDup S -> NoDup (remove_all S H).
Proof. apply NoDup_filter. Qed.

Lemma In_insert i j S : In i (insert_nat j S) <-> i = j \/ In i S.
Proof.
  induction S as [|k S IH]; cbn [insert_nat].
  - simpl; intuition congruence.
  - destruct (Nat.leb j k); simpl; [intuition congruence|]. rewrite IH. intuition congruence.
Qed.

Lemma In_sort i S : In i (sort_nat S) <-> In i S.
Proof.
  induction S as [|k S IH]; cbn [sort_nat fold_right]; [tauto|]. fold (sort_nat S).
  rewrite In_insert, IH. simpl. intuition congruence.
Qed.

Lemma NoDup_insert j S : ~ In j S -> NoDup S -> NoDup (insert_nat j S).
Proof.
  induction S as [|k S IH]; intros Hn Hd; cbn [insert_nat].
  - constructor; auto.
  - destruct (Nat.leb j k).
    + constructor; auto.
    + inversion Hd; subst. constructor.
      * rewrite In_insert. intros [->|H]; [apply Hn; left; auto | contradiction].
      * apply IH; auto. intro; apply Hn; right; auto.
Qed.

Lemma NoDup_sort S : NoDup S -> NoDup (sort_nat S).
Proof.
  induction 1 as [|x l Hx Hd IH]; cbn [sort_nat fold_right]; [constructor|]. fold (sort_nat l).
  apply NoDup_insert; auto. rewrite In_sort; auto.
Qed.

Lemma NoDup_app' (l l' : list nat) : NoDup l -> NoDup l' -> (forall x, In x l -> ~ In x l') -> NoDup (l ++ l').
Proof.
  induction 1 as [|x l Hx Hd IH]; intros Hd' Hdis; simpl; auto.
  constructor.
  - rewrite in_app_iff. intros [H|H]; [contradiction|]. apply (Hdis x); simpl; auto.
  - apply IH; auto. intros y Hy. apply Hdis. right; auto.
Qed.

Definition part (n : nat) (F G : list nat) : Prop :=
  NoDup F /\ NoDup G /\ (forall i, In i F -> i < n) /\ (forall i, In i G -> i < n) /\
  (forall i, i < n -> In i F \/ In i G) /\ (forall i, In i F -> In i G -> False).

Lemma part_step n F G H1 H2 : part n F G -> incl H1 F -> NoDup H1 -> incl H2 G -> NoDup H2 ->
  part n (sort_nat (remove_all F H1 ++ H2)) (sort_nat (remove_all (G ++ H1) H2)).
Proof.
  intros (HF & HG & HbF & HbG & Hc & Hd) I1 N1 I2 N2. unfold part.
  repeat split.
  - apply NoDup_sort. apply NoDup_app'; auto using NoDup_remove_all.
    intros x Hx Hx2. apply In_remove_all in Hx. destruct Hx as [Hx _]. apply (Hd x); auto.
  - apply NoDup_sort. apply NoDup_remove_all. apply NoDup_app'; auto.
    intros x Hx Hx1. apply (Hd x); auto.
  - intros i. rewrite In_sort, in_app_iff, In_remove_all. intros [[H _]|H]; auto.
  - intros i. rewrite In_sort, In_remove_all, in_app_iff. intros [[H|H] _]; auto.
  - intros i Hi. rewrite !In_sort, !in_app_iff, !In_remove_all, in_app_iff.
    destruct (in_dec Nat.eq_dec i H1); destruct (in_dec Nat.eq_dec i H2); destruct (Hc i Hi); tauto.
  - intros i. rewrite !In_sort, !in_app_iff, !In_remove_all, in_app_iff.
    intros [[Ha Hb]|Ha] [[Hc'|Hc'] He]; try tauto.
    + apply (Hd i); auto.
Qed.

(* ---- trial / walk / count_inf / neg_set ------------------------------------------------------------- *)
Lemma trial_spec al x : forall F (xF xc : list K) h1, trial al x F xF = (xc, h1) ->
  nonneg xc /\ incl h1 F /\ (NoDup F -> NoDup h1).
Proof.
  induction F as [|i F IH]; intros [|z xF] xc h1 H; cbn [trial] in H;
    try (injection H as <- <-; repeat split; [constructor | apply incl_nil_l | constructor]).
  destruct (trial al x F xF) as [xc' h1'] eqn:E.
  destruct (IH _ _ _ E) as (Hn & Hi & Hd).
  destruct (ltb _ zero) eqn:Ev; injection H as <- <-; repeat split.
  - constructor; auto. apply (le_refl OF).
  - apply incl_cons; [left; auto | apply incl_tl; auto].
  - intro HF. inversion HF; subst. constructor; auto.
  - constructor; auto. apply ltb_false_le; auto.
  - apply incl_tl; auto.
  - intro HF. inversion HF; subst. auto.
Qed.

Lemma walk_trial res0 MF bF x F xF : forall als k k' (xc : list K) h1 rd,
  walk res0 MF bF x F xF k als = Some (k', xc, h1, rd) -> exists al, trial al x F xF = (xc, h1).
Proof.
  induction als as [|al rest IH]; intros k k' xc h1 rd H; cbn [walk] in H; [discriminate|].
  destruct (trial al x F xF) as [xc0 h10] eqn:E.
  destruct (ltb _ _).
  - injection H as <- <- <- <-. eauto.
  - destruct rest as [|a' rest'].
    + injection H as <- <- <- <-. eauto.
    + eapply IH; eauto.
Qed.

Lemma count_inf_nonneg tol x : forall F (xF : list K),
  fst (count_inf tol x F xF) = 0 -> length xF = length F -> nonneg xF.
Proof.
  induction F as [|i F IH]; intros [|z xF] H Hl; cbn [length] in Hl; try discriminate; [constructor|].
  cbn [count_inf] in H. destruct (count_inf tol x F xF) as [ni nb] eqn:E.
  destruct (ltb z zero) eqn:Ez; cbn [fst] in H; [discriminate|].
  constructor; [apply ltb_false_le; auto|]. apply IH; [rewrite E; auto | lia].
Qed.

Lemma neg_set_spec : forall F (xF : list K), incl (neg_set F xF) F /\ (NoDup F -> NoDup (neg_set F xF)).
Proof.
  induction F as [|i F IH]; intros [|z xF]; cbn [neg_set]; try (split; [apply incl_nil_l | constructor]).
  destruct (IH xF) as [Hi Hd]. destruct (ltb z zero); split.
  - apply incl_cons; [left; auto | apply incl_tl; auto].
  - intro HF. inversion HF; subst. constructor; auto.
  - apply incl_tl; auto.
  - intro HF. inversion HF; subst. auto.
Qed.

(* ---- a dot product against a vector supported on F ---------------------------------------------------- *)
Fixpoint lsum (F : list nat) (f : nat -> K) : K :=
  match F with [] => zero | k :: F' => add (f k) (lsum F' f) end.

Lemma lsum_ext F f g : (forall i, In i F -> f i = g i) -> lsum F f = lsum F g.
Proof.
  induction F as [|k F IH]; intro H; cbn [lsum]; auto.
  rewrite H by (left; auto). rewrite IH; auto. intros; apply H; right; auto.
Qed.

Lemma dot_gather_lsum (r x : list K) F :
  dot (gather r F) (gather x F) = lsum F (fun i => mul (nthK r i) (nthK x i)).
Proof. induction F as [|k F IH]; cbn [gather map dot lsum]; auto. f_equal. exact IH. Qed.

Lemma sumn_delta n : forall k (a : K), k < n -> sumn n (fun i => if Nat.eqb i k then a else zero) = a.
Proof.
  induction n as [|n IH]; intros k a Hk; [lia|]. cbn [sumn]. destruct k as [|k].
  - cbn [Nat.eqb]. rewrite (sumn_zero OF) by reflexivity. ring.
  - cbn [Nat.eqb]. rewrite IH by lia. ring.
Qed.

Lemma sumn_support F : forall n (f : nat -> K), NoDup F -> (forall i, In i F -> i < n) ->
  (forall j, ~ In j F -> f j = zero) -> sumn n f = lsum F f.
Proof.
  induction F as [|k F IH]; intros n f Hd Hb Hz.
  - cbn [lsum]. apply (sumn_zero OF). intro i. apply Hz. intros [].
  - inversion Hd as [|? ? Hk Hd']; subst. cbn [lsum].
    set (f' := fun i => if Nat.eqb i k then zero else f i).
    set (d := fun i => if Nat.eqb i k then f k else zero).
    rewrite (sumn_ext n f (fun i => add (f' i) (d i))).
    2:{ intro i. unfold f', d. destruct (Nat.eqb i k) eqn:E; [apply Nat.eqb_eq in E; subst|]; ring. }
    rewrite (sumn_add OF). unfold d. rewrite sumn_delta by (apply Hb; left; auto).
    rewrite (IH n f').
    + rewrite (lsum_ext F f' f); [ring|]. intros i Hi. unfold f'.
      destruct (Nat.eqb i k) eqn:E; auto. apply Nat.eqb_eq in E. subst. contradiction.
    + auto.
    + intros; apply Hb; right; auto.
    + intros j Hj. unfold f'. destruct (Nat.eqb j k) eqn:E; auto. apply Hz.
      intros [H|H]; [subst; rewrite Nat.eqb_refl in E; discriminate | contradiction].
Qed.

Lemma dot_support (r x : list K) F n : NoDup F -> (forall i, In i F -> i < n) -> length r <= n ->
  (forall j, ~ In j F -> nthK x j = zero) -> dot r x = dot (gather r F) (gather x F).
Proof.
  intros Hd Hb Hl Hz. rewrite (dot_sumn OF n) by exact Hl. rewrite dot_gather_lsum.
  apply sumn_support; auto. intros j Hj. rewrite Hz by exact Hj. ring.
Qed.

(* ---- misc ------------------------------------------------------------------------------------------- *)
Lemma nthK_vsub : forall (u v : list K) i, i < length u -> i < length v ->
  nthK (vsub u v) i = sub (nthK u i) (nthK v i).
Proof.
  induction u as [|a u IH]; intros [|c v] i Hu Hv; cbn [length] in *; try lia.
  destruct i; cbn [vsub]; unfold nthK; cbn [nth]; auto. apply IH; lia.
Qed.

Lemma map_eq_pointwise {X Y} (f g : X -> Y) l : map f l = map g l -> forall i, In i l -> f i = g i.
Proof.
  induction l as [|a l IH]; intros H i Hi; [destruct Hi|]. cbn [map] in H. injection H as H1 H2.
  destruct Hi as [->|Hi]; auto.
Qed.

Lemma Forall2_nthK (P : K -> K -> Prop) : forall (u v : list K), length u = length v ->
  (forall i, i < length u -> P (nthK u i) (nthK v i)) -> Forall2 P u v.
Proof.
  induction u as [|a u IH]; intros [|c v] Hl H; cbn [length] in *; try discriminate; constructor.
  - apply (H 0). lia.
  - apply IH; [lia|]. intros i Hi. apply (H (S i)). lia.
Qed.

Lemma nthK_zeros n i : nthK (@zeros A n) i = zero.
Proof. unfold nthK, zeros. apply nth_repeat. Qed.

Lemma length_zeros n : length (@zeros A n) = n.
Proof. apply repeat_length. Qed.

Lemma length_gradient (M : list (list K)) b x : length M = length b -> length (gradient M b x) = length b.
Proof. intro H. unfold gradient. rewrite length_vsub; rewrite length_mv; auto. Qed.

Lemma nthK_gradient (M : list (list K)) b x i : length M = length b -> i < length b ->
  nthK (gradient M b x) i = sub (dot (row M i) x) (nthK b i).
Proof.
  intros H Hi. unfold gradient. rewrite nthK_vsub; [| rewrite length_mv; lia | auto].
  rewrite nthK_mv. reflexivity.
Qed.

Lemma nthK_map_scale (v : list K) c i : nthK (map (fun a => mul a c) v) i = mul (nthK v i) c.
Proof.
  revert i; induction v as [|a v IH]; intro i.
  - cbn [map]. rewrite nthK_nil. ring.
  - destruct i; cbn [map]; unfold nthK; cbn [nth]; auto. apply IH.
Qed.

Lemma eqvec_true : forall u v : list K, eqvec u v = true -> u = v.
Proof.
  induction u as [|a u IH]; intros [|c v] H; cbn [eqvec] in H; try discriminate; auto.
  apply andb_true_iff in H. destruct H as [H1 H2]. apply (eqK_true OF) in H1. subst. f_equal. auto.
Qed.

(* ---- what is assumed about the reduced solve --------------------------------------------------------- *)
Definition solve_ok (solve : list nat -> option (list K)) (M : list (list K)) (b : list K) : Prop :=
  forall F z, solve F = Some z -> length z = length F /\ mv (submat M F F) z = gather b F.

Lemma solve_checked_ok : forall M b, solve_ok (solve_checked M b) M b.
Proof.
  intros M b F z H. unfold solve_checked in H.
  destruct (gauss _ _) as [z0|]; [|discriminate].
  destruct (_ && _) eqn:E; [|discriminate]. injection H as <-.
  apply andb_true_iff in E. destruct E as [E1 E2]. apply Nat.eqb_eq in E1. apply eqvec_true in E2. auto.
Qed.

Section Run.
Variable solve : list nat -> option (list K).
Variable M : list (list K).
Variable b : list K.
Variable tol : K.
Hypothesis HM : wf_mat (length b) M.
Hypothesis Hsolve : solve_ok solve M b.
Notation n := (length b).

Lemma inner_not_normal : forall fuel x F G H1 H2 tr, inner solve M b tol fuel x F G H1 H2 tr <> inl NormalExit.
Proof.
  induction fuel as [|fuel IH]; intros x F G H1 H2 tr; cbn [inner]; [discriminate|].
  destruct (solve _); [|discriminate].
  destruct (count_inf _ _ _ _) as [ninf nbnd].
  destruct (Nat.eqb ninf 0); [discriminate|].
  destruct (Nat.eqb ninf nbnd); [apply IH|].
  destruct (walk_descents _ _ _ _ _) as [[[[k xc] h1] rd]|]; [|discriminate].
  destruct rd; [discriminate | apply IH].
Qed.

Lemma inner_spec : forall fuel x F G H1 H2 tr r,
  length x = n -> nonneg x -> part n F G -> incl H1 F -> NoDup H1 -> incl H2 G -> NoDup H2 ->
  inner solve M b tol fuel x F G H1 H2 tr = inr r ->
  length (ir_x r) = n /\ nonneg (ir_x r) /\ part n (ir_F r) (ir_G r) /\
  incl (ir_H1 r) (ir_F r) /\ NoDup (ir_H1 r) /\
  (ir_full r = true ->
     ir_H1 r = [] /\ exists xF, solve (ir_F r) = Some xF /\ gather (ir_x r) (ir_F r) = xF).
Proof.
  induction fuel as [|fuel IH]; intros x F G H1 H2 tr r Hx Hnn Hp I1 N1 I2 N2 H; cbn [inner] in H; [discriminate|].
  pose proof (part_step n F G H1 H2 Hp I1 N1 I2 N2) as Hp1.
  set (F1 := sort_nat (remove_all F H1 ++ H2)) in *.
  set (G1 := sort_nat (remove_all (G ++ H1) H2)) in *.
  destruct (solve F1) as [xF|] eqn:Es; [|discriminate].
  destruct (Hsolve F1 xF Es) as [HlF HeF].
  destruct (count_inf tol x F1 xF) as [ninf nbnd] eqn:Ec.
  assert (HbF1 : forall i, In i F1 -> i < n) by apply Hp1.
  destruct (Nat.eqb ninf 0) eqn:E0.
  - injection H as <-. cbn [ir_x ir_F ir_G ir_H1 ir_full].
    apply Nat.eqb_eq in E0.
    repeat split; try apply Hp1.
    + rewrite length_scatter; auto.
    + apply nonneg_scatter; auto. apply (count_inf_nonneg tol x F1); auto. rewrite Ec; auto.
    + apply incl_nil_l.
    + constructor.
    + exists xF. split; auto. apply gather_scatter; auto; [apply Hp1 | rewrite Hx; auto].
  - destruct (neg_set_spec F1 xF) as [Hni Hnd].
    destruct (Nat.eqb ninf nbnd).
    + eapply IH; [ | | exact Hp1 | exact Hni | apply Hnd; apply Hp1 | apply incl_nil_l | constructor | exact H].
      * rewrite length_scatter; auto.
      * apply nonneg_scatter; auto. apply nonneg_zeros.
    + destruct (walk_descents M b x F1 xF) as [[[[k xc] h1] rd]|] eqn:Ew; [|discriminate].
      unfold walk_descents in Ew. apply walk_trial in Ew. destruct Ew as [al Et].
      destruct (trial_spec _ _ _ _ _ _ Et) as (Tn & Ti & Td).
      destruct rd.
      * injection H as <-. cbn [ir_x ir_F ir_G ir_H1 ir_full].
        repeat split; try apply Hp1; auto.
        -- rewrite length_scatter; auto.
        -- apply nonneg_scatter; auto.
        -- apply Td. apply Hp1.
        -- discriminate.
        -- discriminate.
      * eapply IH; [ | | exact Hp1 | exact Ti | apply Td; apply Hp1 | apply incl_nil_l | constructor | exact H].
        -- rewrite length_scatter; auto.
        -- apply nonneg_scatter; auto.
Qed.

Lemma length_row i : i < n -> length (row M i) = n.
Proof.
  intro Hi. destruct HM as [HMl HMr]. rewrite Forall_forall in HMr. apply HMr. unfold row. apply nth_In. lia.
Qed.

(* the state written at the end of an outer step after the "entirely feasible" branch *)
Lemma feas_facts (x1 y : list K) F G : length x1 = n -> length y = n -> part n F G ->
  solve F = Some (gather x1 F) ->
  forall x' y',
  x' = scatter x1 G (zeros (length G)) ->
  y' = scatter (scatter y G (map (fun i => sub (dot (gather (row M i) F) (gather x1 F)) (nthK b i)) G))
               F (zeros (length F)) ->
  (forall i, In i F -> nthK (gradient M b x') i = zero) /\
  (forall i, In i G -> nthK x' i = zero /\ nthK y' i = nthK (gradient M b x') i).
Proof.
  intros Hx Hy (NF & NG & BF & BG & Hc & Hd) Hs x' y' Ex' Ey'.
  destruct (Hsolve F _ Hs) as [Hl He].
  assert (HMl : length M = n) by apply HM.
  assert (Hgx : gather x' F = gather x1 F).
  { unfold gather. apply map_ext_in. intros i Hi. rewrite Ex'. apply nthK_scatter_notin.
    intro HiG. apply (Hd i); auto. }
  assert (Hz : forall j, ~ In j F -> nthK x' j = zero).
  { intros j Hj. rewrite Ex'. destruct (Compare_dec.lt_dec j n) as [Hjn|Hjn].
    - destruct (Hc j Hjn) as [HjF|HjG]; [contradiction|]. apply nthK_scatter_zeros; auto. rewrite Hx; auto.
    - unfold nthK. apply nth_overflow. rewrite length_scatter. lia. }
  assert (Hdot : forall i, i < n -> dot (row M i) x' = dot (gather (row M i) F) (gather x1 F)).
  { intros i Hi. rewrite <- Hgx. apply (dot_support _ _ F n); auto. rewrite length_row; auto. }
  assert (HF : forall i, In i F -> dot (gather (row M i) F) (gather x1 F) = nthK b i).
  { unfold mv, submat in He. rewrite map_map in He.
    apply (map_eq_pointwise (fun i => dot (gather (row M i) F) (gather x1 F)) (nthK b) F). exact He. }
  split.
  - intros i Hi. rewrite nthK_gradient by auto. rewrite Hdot by auto. rewrite HF by auto. ring.
  - intros i Hi. split.
    + rewrite Ex'. apply nthK_scatter_zeros; auto. rewrite Hx; auto.
    + rewrite Ey'. rewrite nthK_scatter_notin by (intro HiF; apply (Hd i); auto).
      rewrite nthK_gradient by auto. rewrite Hdot by auto.
      set (f := fun i => sub (dot (gather (row M i) F) (gather x1 F)) (nthK b i)).
      assert (Hg : gather (scatter y G (map f G)) G = map f G).
      { apply gather_scatter; auto; [rewrite Hy; auto | apply map_length]. }
      apply (map_eq_pointwise (nthK (scatter y G (map f G))) f G Hg i Hi).
Qed.

Definition Inv (s : state) : Prop :=
  length (st_x s) = n /\ length (st_y s) = n /\ nonneg (st_x s) /\ part n (st_F s) (st_G s) /\
  incl (st_H1 s) (st_F s) /\ NoDup (st_H1 s) /\
  (forall g, st_Gp s = Some g -> NoDup g /\ forall i, In i g -> In i (st_G s) \/ In i (st_H1 s)) /\
  (st_full s = true ->
     st_H1 s = [] /\ st_Gp s = None /\
     (forall i, In i (st_F s) -> nthK (gradient M b (st_x s)) i = zero) /\
     (forall i, In i (st_G s) ->
        nthK (st_x s) i = zero /\ nthK (st_y s) i = nthK (gradient M b (st_x s)) i)).

Lemma outer_step_inv rep n' s s' : Inv s -> outer_step rep solve M b tol n' s = inr s' -> Inv s'.
Proof.
  intros (Hx & Hy & Hnn & Hp & I1 & N1 & HGp & Hfull) H.
  unfold outer_step in H. cbv zeta in H.
  set (G_ := match st_Gp s with None => st_G s | Some g => g end) in H.
  set (H2r := filter (fun i => ltb (nthK (st_y s) i) (opp tol)) G_) in H.
  set (H1' := remove_all (st_H1 s) H2r) in H.
  set (H2 := remove_all H2r (st_H1 s)) in H.
  destruct (andb _ _) in H; [discriminate|].
  destruct (inner _ _ _ _ _ _ _ _ _ _ _) as [e|r] eqn:Ei in H; [discriminate|].
  assert (HG_ : NoDup G_ /\ forall i, In i G_ -> In i (st_G s) \/ In i (st_H1 s)).
  { unfold G_. destruct (st_Gp s) as [g|]; [apply HGp; auto | split; [apply Hp | auto]]. }
  assert (I2 : incl H2 (st_G s)).
  { intros i Hi. apply In_remove_all in Hi. destruct Hi as [Hi Hn1]. apply filter_In in Hi.
    destruct (proj2 HG_ i (proj1 Hi)); [auto | contradiction]. }
  assert (N2 : NoDup H2) by (apply NoDup_remove_all; apply NoDup_filter; apply HG_).
  assert (I1' : incl H1' (st_F s)).
  { intros i Hi. apply In_remove_all in Hi. apply I1. apply Hi. }
  assert (N1' : NoDup H1') by (apply NoDup_remove_all; auto).
  destruct (inner_spec _ _ _ _ _ _ _ _ Hx Hnn Hp I1' N1' I2 N2 Ei) as (Rx & Rnn & Rp & RI & RN & Rfull).
  destruct (ir_H1 r) as [|h t] eqn:EH1; injection H as <-; unfold Inv;
    cbn [st_x st_y st_F st_G st_H1 st_Gp st_full].
  - split; [rewrite length_scatter; auto|].
    split; [rewrite !length_scatter; auto|].
    split; [apply nonneg_scatter; auto; apply nonneg_zeros|].
    split; [exact Rp|].
    split; [apply incl_nil_l|].
    split; [constructor|].
    split; [intros g Hg; discriminate|].
    intro Hf. destruct (Rfull Hf) as [_ [xF [Hs Hg]]]. subst xF.
    split; [reflexivity|]. split; [reflexivity|].
    exact (feas_facts (ir_x r) (st_y s) (ir_F r) (ir_G r) Rx Hy Rp Hs _ _ eq_refl eq_refl).
  - assert (Hdis : forall i, In i (ir_G r) -> ~ In i (h :: t)).
    { intros i Hi Hi'. destruct Rp as (_ & _ & _ & _ & _ & Hd). apply (Hd i); auto. }
    split; [rewrite length_scatter; auto|].
    split; [rewrite !length_scatter; auto|].
    split; [apply nonneg_scatter; auto; apply nonneg_zeros|].
    split; [exact Rp|].
    split; [exact RI|].
    split; [exact RN|].
    split.
    + intros g Hg. injection Hg as <-. split.
      * apply NoDup_sort. apply NoDup_app'; auto. apply Rp.
      * intros i Hi. rewrite In_sort, in_app_iff in Hi. exact Hi.
    + intro Hf. destruct (Rfull Hf) as [Hc _]. discriminate.
Qed.

Lemma outer_step_exit n' s s' : Inv s -> outer_step true solve M b tol n' s = inl (NormalExit, s') ->
  kkt_tol tol M b (st_x s').
Proof.
  intros (Hx & Hy & Hnn & Hp & I1 & N1 & HGp & Hfull) H.
  unfold outer_step in H. cbv zeta in H.
  set (G_ := match st_Gp s with None => st_G s | Some g => g end) in H.
  set (H2r := filter (fun i => ltb (nthK (st_y s) i) (opp tol)) G_) in H.
  set (H1' := remove_all (st_H1 s) H2r) in H.
  set (H2 := remove_all H2r (st_H1 s)) in H.
  assert (EH2 : H2 = remove_all H2r (st_H1 s)) by reflexivity. clearbody H2.
  assert (EH1' : H1' = remove_all (st_H1 s) H2r) by reflexivity. clearbody H1'.
  destruct (andb _ _) eqn:El in H.
  - injection H as <-. cbn [st_x].
    apply andb_true_iff in El. destruct El as [El2 El]. cbn [negb orb] in El.
    apply andb_true_iff in El. destruct El as [El1 Elf].
    destruct H2 as [|h2 t2]; [|discriminate].
    destruct (Hfull Elf) as (E1 & EGp & HgF & HgG).
    assert (HMl : length M = n) by apply HM.
    unfold kkt_tol. apply Forall2_nthK; [rewrite length_gradient; auto|].
    intros i Hi. rewrite Hx in Hi. split; [apply nonneg_nth; auto|].
    destruct Hp as (_ & _ & _ & _ & Hc & _). destruct (Hc i Hi) as [HiF|HiG].
    + left. apply HgF; auto.
    + right. destruct (HgG i HiG) as [Hxi Hyi]. split; [exact Hxi|]. rewrite <- Hyi.
      apply ltb_false_le. destruct (ltb (nthK (st_y s) i) (opp tol)) eqn:E; auto.
      exfalso. assert (Hin : In i []).
      { rewrite EH2. apply In_remove_all. split.
        - unfold H2r. apply filter_In. split; auto. unfold G_. rewrite EGp. exact HiG.
        - rewrite E1. intros []. }
      destruct Hin.
  - destruct (inner _ _ _ _ _ _ _ _ _ _ _) as [e|r] eqn:Ei in H; [|discriminate].
    injection H as -> _. exfalso. eapply inner_not_normal; eauto.
Qed.

Lemma outer_exit n' : forall fuel iter s, Inv s ->
  r_exit (outer true solve M b tol n' fuel iter s) = NormalExit ->
  kkt_tol tol M b (r_x (outer true solve M b tol n' fuel iter s)).
Proof.
  induction fuel as [|fuel IH]; intros iter s Hs H; cbn [outer] in *.
  - cbn [r_exit] in H. discriminate.
  - destruct (outer_step true solve M b tol n' s) as [[e s']|s'] eqn:E.
    + cbn [r_exit r_x] in *. subst e. eapply outer_step_exit; eauto.
    + apply IH; auto. eapply outer_step_inv; eauto.
Qed.

Lemma init_inv : Inv (init_state b n).
Proof.
  unfold Inv, init_state. cbn [st_x st_y st_F st_G st_H1 st_Gp st_full].
  assert (HMl : length M = n) by apply HM.
  split; [apply length_zeros|].
  split; [apply map_length|].
  split; [apply nonneg_zeros|].
  split.
  { unfold part. split; [constructor|]. split; [apply seq_NoDup|]. split; [intros i []|].
    split; [intros i Hi; apply in_seq in Hi; lia|].
    split; [intros i Hi; right; apply in_seq; lia | intros i []]. }
  split; [apply incl_nil_l|].
  split; [constructor|].
  split; [intros g Hg; discriminate|].
  intros _. split; [reflexivity|]. split; [reflexivity|]. split; [intros i []|].
  intros i Hi. apply in_seq in Hi. split; [apply nthK_zeros|].
  rewrite nthK_gradient by (auto; lia). rewrite nthK_map_scale.
  rewrite (dot_comm OF). rewrite (dot_zeros_l OF). ring.
Qed.

Theorem block3_exit_kkt_run max_iter :
  r_exit (block3_run true solve M b tol max_iter) = NormalExit ->
  kkt_tol tol M b (r_x (block3_run true solve M b tol max_iter)).
Proof. unfold block3_run. apply outer_exit. apply init_inv. Qed.
End Run.

Theorem block3_exit_kkt_gen : forall (solve : list nat -> option (list K)) (M : list (list K)) (b : list K)
    (tol : K) (max_iter : nat),
  wf_mat (length b) M -> solve_ok solve M b ->
  r_exit (block3_run true solve M b tol max_iter) = NormalExit ->
  kkt_tol tol M b (r_x (block3_run true solve M b tol max_iter)).
Proof. intros. apply block3_exit_kkt_run; auto. Qed.

Theorem block3_exit_kkt : forall (M : list (list K)) (b : list K),
  wf_mat (length b) M ->
  r_exit (block3_gen true M b) = NormalExit ->
  kkt_tol (block3_tol (length b)) M b (r_x (block3_gen true M b)).
Proof.
  intros M b HM H. unfold block3_gen in *. apply block3_exit_kkt_gen; auto. apply solve_checked_ok.
Qed.
End Exit.

Print Assumptions block3_exit_kkt_gen.
Print Assumptions block3_exit_kkt.

(* The statement about [block3], the solver with the exit test found in the source tree. The first step fails at
   once (instead of leaving the type checker to compare two runs of the solver) when the tree still has the exit
   test `nH2 == 0`. *)
From PS Require Import Generated_nnls.
Lemma block3_exit_kkt_tree (A : Arith) (OF : OField A) (M : list (list (T A))) (b : list (T A)) :
  wf_mat (length b) M ->
  r_exit (block3 M b) = NormalExit ->
  kkt_tol (block3_tol (length b)) M b (r_x (block3 M b)).
Proof.
  unfold block3.
  assert (E : block3_exit_requires_full_step = true) by reflexivity.
  rewrite E. apply (block3_exit_kkt OF).
Qed.
