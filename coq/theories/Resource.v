(* Resource.v — allocation-trace semantics shared by the resource properties (C19; usable by C18/C20).
   A trace is the list of requests a piece of code makes to its allocator, in program order.
   Stdlib only; byte counts in N.

     ev        : Alloc bytes | Free bytes
     live tr   : bytes outstanding after the trace (a Free of more than is outstanding is clamped at 0;
                 [wf] says this never happens)
     peak tr   : the largest number of bytes outstanding at any moment of the trace
     wf tr     : no Free ever returns more bytes than are outstanding
     balanced  : wf and nothing outstanding at the end

   General lemmas: append, traces of allocations only / of frees only, monotonicity. *)
From Coq Require Import NArith List Lia Bool.
Import ListNotations.
Open Scope N_scope.
Open Scope bool_scope.

Inductive ev : Set := Alloc (bytes : N) | Free (bytes : N).

Definition step (l : N) (e : ev) : N :=
  match e with Alloc b => l + b | Free b => l - b end.

Fixpoint live_from (l : N) (tr : list ev) : N :=
  match tr with [] => l | e :: tr' => live_from (step l e) tr' end.

Fixpoint peak_from (l : N) (tr : list ev) : N :=
  match tr with [] => l | e :: tr' => N.max l (peak_from (step l e) tr') end.

Fixpoint wf_from (l : N) (tr : list ev) : bool :=
  match tr with
  | [] => true
  | Alloc b :: tr' => wf_from (l + b) tr'
  | Free b :: tr' => (b <=? l) && wf_from (l - b) tr'
  end.

Definition live (tr : list ev) : N := live_from 0 tr.
Definition peak (tr : list ev) : N := peak_from 0 tr.
Definition wf (tr : list ev) : bool := wf_from 0 tr.
Definition balanced (tr : list ev) : bool := wf tr && (live tr =? 0).

Definition sumN (xs : list N) : N := fold_right N.add 0 xs.
Definition allocs (xs : list N) : list ev := map Alloc xs.
Definition frees (xs : list N) : list ev := map Free xs.

(* ------------------------------------------------------------------ general lemmas *)

Lemma sumN_app : forall xs ys, sumN (xs ++ ys) = sumN xs + sumN ys.
Proof. unfold sumN. induction xs as [|x xs IH]; intros ys; cbn [fold_right app]; [reflexivity|]. rewrite IH. lia. Qed.

Lemma live_from_app : forall a b l, live_from l (a ++ b) = live_from (live_from l a) b.
Proof. induction a as [|e a IH]; intros b l; cbn [live_from app]; [reflexivity|apply IH]. Qed.

Lemma peak_from_ge_start : forall tr l, l <= peak_from l tr.
Proof. destruct tr; intros l; cbn [peak_from]; lia. Qed.

Lemma peak_from_ge_end : forall tr l, live_from l tr <= peak_from l tr.
Proof.
  induction tr as [|e tr IH]; intros l; cbn [peak_from live_from]; [lia|].
  specialize (IH (step l e)). lia.
Qed.

Lemma peak_from_app : forall a b l,
  peak_from l (a ++ b) = N.max (peak_from l a) (peak_from (live_from l a) b).
Proof.
  induction a as [|e a IH]; intros b l; cbn [peak_from live_from app].
  - pose proof (peak_from_ge_start b l). lia.
  - rewrite IH. lia.
Qed.

Lemma wf_from_app : forall a b l, wf_from l (a ++ b) = wf_from l a && wf_from (live_from l a) b.
Proof.
  induction a as [|e a IH]; intros b l; cbn [wf_from live_from app]; [reflexivity|].
  destruct e as [x|x]; cbn [step]; rewrite IH; [reflexivity|].
  destruct (x <=? l); reflexivity.
Qed.

Lemma live_from_allocs : forall xs l, live_from l (allocs xs) = l + sumN xs.
Proof.
  induction xs as [|x xs IH]; intros l; cbn [allocs map live_from sumN fold_right step]; [lia|].
  fold (allocs xs). rewrite IH. fold (sumN xs). lia.
Qed.

Lemma peak_from_allocs : forall xs l, peak_from l (allocs xs) = l + sumN xs.
Proof.
  induction xs as [|x xs IH]; intros l; cbn [allocs map peak_from sumN fold_right step]; [lia|].
  fold (allocs xs). rewrite IH. fold (sumN xs). lia.
Qed.

Lemma wf_from_allocs : forall xs l, wf_from l (allocs xs) = true.
Proof. induction xs as [|x xs IH]; intros l; cbn [allocs map wf_from]; [reflexivity|apply IH]. Qed.

Lemma live_from_frees : forall xs l, live_from l (frees xs) = l - sumN xs.
Proof.
  induction xs as [|x xs IH]; intros l; cbn [frees map live_from sumN fold_right step]; [lia|].
  fold (frees xs). rewrite IH. fold (sumN xs). lia.
Qed.

Lemma peak_from_frees : forall xs l, peak_from l (frees xs) = l.
Proof.
  induction xs as [|x xs IH]; intros l; cbn [frees map peak_from step]; [reflexivity|].
  fold (frees xs). rewrite IH. lia.
Qed.

Lemma wf_from_frees : forall xs l, sumN xs <= l -> wf_from l (frees xs) = true.
Proof.
  induction xs as [|x xs IH]; intros l H; cbn [frees map wf_from sumN fold_right] in *; [reflexivity|].
  fold (frees xs). fold (sumN xs) in H.
  rewrite IH by lia. replace (x <=? l) with true; [reflexivity|]. symmetry. apply N.leb_le. lia.
Qed.

(* a trace that only allocates then a phase "free some, then allocate": the shape of load + convolve *)
Lemma peak_free_then_alloc : forall l fs als,
  peak_from l (frees fs ++ allocs als) = N.max l (l - sumN fs + sumN als).
Proof.
  intros l fs als. rewrite peak_from_app, peak_from_frees, live_from_frees, peak_from_allocs. reflexivity.
Qed.

Lemma peak_from_mono : forall tr l l', l <= l' -> peak_from l tr <= peak_from l' tr.
Proof.
  induction tr as [|e tr IH]; intros l l' H; cbn [peak_from]; [exact H|].
  assert (Hs : step l e <= step l' e) by (destruct e; cbn [step]; lia).
  specialize (IH _ _ Hs). lia.
Qed.
