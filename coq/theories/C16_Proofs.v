(* C16_Proofs.v — lemmas for Properties_C16.v: refinement of the aux store to an insertion-ordered map,
   rejection leaves the store unchanged, typed read-back (decimal print/parse), survival of a FITS round trip. *)
From Coq Require Import List String Ascii NArith ZArith Bool Arith Lia.
From PS Require Import AuxModel Generated_aux.
Import ListNotations.
Open Scope string_scope.
Open Scope nat_scope.

(* the translator recognised every function the model transcribes *)
Lemma translation_ok : gen_translation_ok = true. Proof. reflexivity. Qed.

(* ================================================================================================ *)
(* A. the store as an insertion-ordered map *)

Notation keys s := (map (@fst string string) s).

Lemma get_in_keys : forall k s, get k s <> None <-> In k (keys s).
Proof.
  intros k s; induction s as [|[k' v] r IH]; cbn.
  - split; [intros H; congruence | intros []].
  - destruct (String.eqb k k') eqn:E.
    + apply String.eqb_eq in E; subst. split; [intros _; now left | intros _; discriminate].
    + apply String.eqb_neq in E. rewrite IH. split; [intros H; now right | intros [H|H]; [congruence | exact H]].
Qed.

Lemma get_none_notin : forall k s, get k s = None <-> ~ In k (keys s).
Proof.
  intros k s. pose proof (get_in_keys k s) as H. destruct (get k s).
  - split; [discriminate|]. intros N; exfalso; apply N, H; discriminate.
  - split; [|reflexivity]. intros _ I. apply H in I. congruence.
Qed.

Lemma has_key_true : forall k s, has_key k s = true <-> In k (keys s).
Proof. intros k s; unfold has_key; rewrite <- get_in_keys; destruct (get k s); split; intros; congruence. Qed.
Lemma has_key_false : forall k s, has_key k s = false <-> ~ In k (keys s).
Proof. intros k s; unfold has_key; rewrite <- get_none_notin; destruct (get k s); split; intros; congruence. Qed.

Lemma keys_update_first : forall k v s, keys (update_first k v s) = keys s.
Proof.
  intros k v s; induction s as [|[k' v'] r IH]; cbn; [reflexivity|].
  destruct (String.eqb k k'); cbn; [reflexivity | now rewrite IH].
Qed.

Lemma get_update_first_same : forall k v s, has_key k s = true -> get k (update_first k v s) = Some v.
Proof.
  intros k v s; unfold has_key; induction s as [|[k' v'] r IH]; cbn; [discriminate|].
  destruct (String.eqb k k') eqn:E; cbn; rewrite E; [reflexivity | exact IH].
Qed.

Lemma get_update_first_other : forall k k2 v s, k2 <> k -> get k2 (update_first k v s) = get k2 s.
Proof.
  intros k k2 v s N; induction s as [|[k' v'] r IH]; cbn; [reflexivity|].
  destruct (String.eqb k k') eqn:E; cbn.
  - apply String.eqb_eq in E; subst k'. apply String.eqb_neq in N. now rewrite N.
  - destruct (String.eqb k2 k'); [reflexivity | exact IH].
Qed.

Lemma get_app_single : forall k2 k v s,
  get k2 (s ++ [(k, v)])%list = match get k2 s with Some x => Some x | None => if String.eqb k2 k then Some v else None end.
Proof.
  intros k2 k v s; induction s as [|[k' v'] r IH]; cbn; [reflexivity|].
  destruct (String.eqb k2 k'); [reflexivity | exact IH].
Qed.

Lemma keys_app_single : forall k v s, keys (s ++ [(k, v)])%list = (keys s ++ [k])%list.
Proof. intros; now rewrite map_app. Qed.

Definition nokey (k : string) : string -> bool := fun k' => negb (String.eqb k' k).

Lemma filter_notin : forall k l, ~ In k l -> filter (nokey k) l = l.
Proof.
  intros k l; induction l as [|a r IH]; cbn; [reflexivity|]. intros H.
  unfold nokey at 1. destruct (String.eqb a k) eqn:E; cbn.
  - apply String.eqb_eq in E; subst; exfalso; apply H; now left.
  - rewrite IH; [reflexivity | intros H1; apply H; now right].
Qed.

Lemma keys_remove_first : forall k s, NoDup (keys s) -> keys (remove_first k s) = filter (nokey k) (keys s).
Proof.
  intros k s; induction s as [|[k' v'] r IH]; cbn; [reflexivity|]. intros ND. inversion ND as [|? ? NI ND']; subst.
  unfold nokey at 1. destruct (String.eqb k k') eqn:E.
  - apply String.eqb_eq in E; subst k'. rewrite String.eqb_refl; cbn. now rewrite filter_notin.
  - rewrite String.eqb_sym, E; cbn. now rewrite IH.
Qed.

Lemma get_remove_first_same : forall k s, NoDup (keys s) -> get k (remove_first k s) = None.
Proof.
  intros k s; induction s as [|[k' v'] r IH]; cbn; [reflexivity|]. intros ND. inversion ND as [|? ? NI ND']; subst.
  destruct (String.eqb k k') eqn:E; cbn.
  - apply String.eqb_eq in E; subst k'. now apply get_none_notin.
  - rewrite E. now apply IH.
Qed.

Lemma get_remove_first_other : forall k k2 s, k2 <> k -> get k2 (remove_first k s) = get k2 s.
Proof.
  intros k k2 s N; induction s as [|[k' v'] r IH]; cbn; [reflexivity|].
  destruct (String.eqb k k') eqn:E; cbn.
  - apply String.eqb_eq in E; subst k'. apply String.eqb_neq in N. now rewrite N.
  - destruct (String.eqb k2 k'); [reflexivity | exact IH].
Qed.

Lemma NoDup_filter : forall (f : string -> bool) l, NoDup l -> NoDup (filter f l).
Proof.
  intros f l ND; induction ND as [|a l NI ND IH]; cbn; [constructor|].
  destruct (f a); [constructor; [rewrite filter_In; tauto | exact IH] | exact IH].
Qed.

Lemma NoDup_app_single : forall (k : string) l, NoDup l -> ~ In k l -> NoDup (l ++ [k])%list.
Proof.
  intros k l ND NI; induction ND as [|a l NA ND IH]; cbn; [constructor; [intros [] | constructor]|].
  constructor.
  - rewrite in_app_iff; cbn. intros [H|[H|[]]]; [tauto | subst; apply NI; now left].
  - apply IH; intros H; apply NI; now right.
Qed.

(* agreement of a concrete store with an abstract ordered map *)
Definition agrees (s : store) (a : amap) : Prop := a.(a_order) = keys s /\ forall k, a.(a_map) k = get k s.

Lemma agrees_abs : forall s, agrees s (abs s).
Proof. intros s; split; reflexivity. Qed.

Lemma a_present_has_key : forall s a k, agrees s a -> a_present k a = has_key k s.
Proof. intros s a k [_ H]; unfold a_present, has_key; now rewrite H. Qed.

Lemma write_step : forall p k v s a, NoDup (keys s) -> agrees s a ->
  snd (write_key p k v s) = snd (a_write p k v a) /\
  agrees (fst (write_key p k v s)) (fst (a_write p k v a)) /\ NoDup (keys (fst (write_key p k v s))).
Proof.
  intros p k v s a ND AG. unfold write_key, a_write.
  destruct (check_key p k) as [e|vmax]; cbn; [auto|].
  destruct (p_printable_check p && negb (forall_chars is_printable v)); cbn; [auto|].
  destruct (vmax <? enc_len p v)%N; cbn; [auto|].
  rewrite (a_present_has_key s a k AG).
  destruct AG as [AO AM].
  destruct (has_key k s) eqn:HK; cbn.
  - split; [reflexivity|]. split; [|now rewrite keys_update_first].
    split; cbn.
    + rewrite AM. unfold has_key in HK. destruct (get k s); [|discriminate]. now rewrite keys_update_first.
    + intros k2. destruct (String.eqb k2 k) eqn:E.
      * apply String.eqb_eq in E; subst. now rewrite get_update_first_same.
      * apply String.eqb_neq in E. now rewrite get_update_first_other.
  - split; [reflexivity|]. apply has_key_false in HK. split; [|rewrite keys_app_single; now apply NoDup_app_single].
    split; cbn.
    + rewrite AM. apply get_none_notin in HK. rewrite HK. now rewrite keys_app_single, AO.
    + intros k2. rewrite get_app_single, AM. destruct (String.eqb k2 k) eqn:E.
      * apply String.eqb_eq in E; subst. apply get_none_notin in HK. now rewrite HK.
      * now destruct (get k2 s).
Qed.

Lemma step_refines : forall p o s a, NoDup (keys s) -> agrees s a ->
  snd (step p s o) = snd (a_step p a o) /\ agrees (fst (step p s o)) (fst (a_step p a o)) /\ NoDup (keys (fst (step p s o))).
Proof.
  intros p o s a ND AG. destruct o as [k v|k z|k|k|k|k|i|]; cbn.
  - pose proof (write_step p k v s a ND AG) as H.
    destruct (write_key p k v s), (a_write p k v a); cbn in *. destruct H as (H1 & H2 & H3); subst; auto.
  - unfold write_int. pose proof (write_step p k (print_Z z) s a ND AG) as H.
    destruct (write_key p k (print_Z z) s), (a_write p k (print_Z z) a); cbn in *. destruct H as (H1 & H2 & H3); subst; auto.
  - unfold remove_key. rewrite (a_present_has_key s a k AG). destruct (has_key k s) eqn:HK; cbn; [|auto].
    split; [reflexivity|]. destruct AG as [AO AM]. split.
    + split; cbn.
      * rewrite AO. symmetry. now apply keys_remove_first.
      * intros k2. destruct (String.eqb k2 k) eqn:E.
        -- apply String.eqb_eq in E; subst. now rewrite get_remove_first_same.
        -- apply String.eqb_neq in E. now rewrite get_remove_first_other.
    + rewrite keys_remove_first by exact ND. now apply NoDup_filter.
  - destruct AG as [AO AM]. rewrite AM. repeat split; auto.
  - destruct AG as [AO AM]. unfold read_int, a_read_int. rewrite AM. repeat split; auto.
  - destruct AG as [AO AM]. unfold read_str. rewrite AM. repeat split; auto.
  - destruct AG as [AO AM]. unfold nth_key. rewrite AO. repeat split; auto.
  - destruct AG as [AO AM]. unfold naux. rewrite AO. rewrite map_length. repeat split; auto.
Qed.

Lemma run_refines : forall p ops s a, NoDup (keys s) -> agrees s a ->
  snd (run p s ops) = snd (a_run p a ops) /\ agrees (fst (run p s ops)) (fst (a_run p a ops)) /\ NoDup (keys (fst (run p s ops))).
Proof.
  intros p ops; induction ops as [|o r IH]; intros s a ND AG; cbn; [auto|].
  pose proof (step_refines p o s a ND AG) as (H1 & H2 & H3).
  destruct (step p s o) as [s1 x], (a_step p a o) as [a1 x']; cbn in *.
  specialize (IH s1 a1 H3 H2). destruct (run p s1 r) as [s2 xs], (a_run p a1 r) as [a2 xs']; cbn in *.
  destruct IH as (I1 & I2 & I3). subst. auto.
Qed.

(* what the abstract operations mean, stated directly *)
Lemma a_put_lookup : forall k v a k2, (a_put k v a).(a_map) k2 = if String.eqb k2 k then Some v else a.(a_map) k2.
Proof. reflexivity. Qed.
Lemma a_put_order : forall k v a, (a_put k v a).(a_order) = if a_present k a then a.(a_order) else (a.(a_order) ++ [k])%list.
Proof. intros; unfold a_put, a_present; cbn; now destruct (a_map a k). Qed.
Lemma a_del_lookup : forall k a k2, (a_del k a).(a_map) k2 = if String.eqb k2 k then None else a.(a_map) k2.
Proof. reflexivity. Qed.
Lemma a_del_order : forall k a, (a_del k a).(a_order) = filter (nokey k) a.(a_order).
Proof. reflexivity. Qed.

(* ================================================================================================ *)
(* B. rejection *)
Lemma reject_no_change : forall p k v s s' e, write_key p k v s = (s', W_rejected e) -> s' = s.
Proof.
  intros p k v s s' e. unfold write_key.
  destruct (check_key p k); [intros H; now inversion H|].
  destruct (p_printable_check p && negb (forall_chars is_printable v)); [intros H; now inversion H|].
  destruct (n <? enc_len p v)%N; [intros H; now inversion H|].
  destruct (has_key k s); intros H; inversion H.
Qed.

Lemma accepts_iff_not_rejected : forall p k v s,
  accepts p k v = true <-> (forall e, snd (write_key p k v s) <> W_rejected e).
Proof.
  intros p k v s. unfold accepts, write_key. destruct (check_key p k) as [e|vmax]; cbn.
  - split; [discriminate | intros H; exfalso; now apply (H e)].
  - destruct (p_printable_check p && negb (forall_chars is_printable v)); cbn.
    + split; [discriminate | intros H; exfalso; now apply (H E_valchar)].
    + destruct (vmax <? enc_len p v)%N; cbn.
      * split; [discriminate | intros H; exfalso; now apply (H E_toolong)].
      * split; [|reflexivity]. intros _ e. destruct (has_key k s); cbn; discriminate.
Qed.

Lemma accepted_write_stores : forall p k v s, accepts p k v = true -> get k (fst (write_key p k v s)) = Some v.
Proof.
  intros p k v s. unfold accepts, write_key. destruct (check_key p k) as [e|vmax]; [discriminate|].
  destruct (p_printable_check p && negb (forall_chars is_printable v)); [discriminate|].
  destruct (vmax <? enc_len p v)%N; [discriminate|]. intros _.
  destruct (has_key k s) eqn:HK; cbn.
  - now apply get_update_first_same.
  - rewrite get_app_single. unfold has_key in HK. destruct (get k s); [discriminate|]. now rewrite String.eqb_refl.
Qed.

Lemma rejected_write_keeps : forall p k v s, accepts p k v = false -> fst (write_key p k v s) = s.
Proof.
  intros p k v s. unfold accepts, write_key. destruct (check_key p k) as [e|vmax]; [reflexivity|].
  destruct (p_printable_check p && negb (forall_chars is_printable v)); [reflexivity|].
  destruct (vmax <? enc_len p v)%N; [reflexivity | discriminate].
Qed.

(* ================================================================================================ *)
(* C. decimal print / parse *)

Fixpoint eval_lsd (l : list N) : N := match l with [] => 0%N | d :: r => (d + 10 * eval_lsd r)%N end.

Lemma lsd_digits_value : forall fuel n, (n < 2 ^ N.of_nat fuel)%N -> eval_lsd (lsd_digits fuel n) = n.
Proof.
  induction fuel as [|f IH]; intros n H.
  - cbn in H. assert (n = 0%N) by lia. subst. reflexivity.
  - cbn [lsd_digits]. destruct (n <? 10)%N eqn:E.
    + apply N.ltb_lt in E. cbn. rewrite N.mod_small by lia. lia.
    + apply N.ltb_ge in E. cbn [eval_lsd]. rewrite IH.
      * pose proof (N.div_mod n 10). lia.
      * rewrite Nat2N.inj_succ, N.pow_succ_r' in H.
        apply N.div_lt_upper_bound; lia.
Qed.

Lemma lsd_digits_small : forall fuel n d, In d (lsd_digits fuel n) -> (d < 10)%N.
Proof.
  induction fuel as [|f IH]; intros n d; cbn; [intros []|].
  intros [H|H].
  - subst. apply N.mod_lt. lia.
  - destruct (n <? 10)%N; [destruct H | eauto].
Qed.

Lemma lsd_digits_nonempty : forall fuel n, lsd_digits (S fuel) n <> [].
Proof. intros; cbn; discriminate. Qed.

Lemma code_digit_char : forall d, (d < 10)%N -> code (digit_char d) = 48 + N.to_nat d.
Proof. intros d H. unfold code, digit_char. rewrite nat_ascii_embedding; lia. Qed.

Lemma is_digit_digit_char : forall d, (d < 10)%N -> is_digit (digit_char d) = true.
Proof.
  intros d H. unfold is_digit. rewrite code_digit_char by exact H.
  apply andb_true_intro; split; apply Nat.leb_le; lia.
Qed.

Lemma digit_val_digit_char : forall d, (d < 10)%N -> digit_val (digit_char d) = d.
Proof. intros d H. unfold digit_val. rewrite code_digit_char by exact H. lia. Qed.

Definition eval_msd (l : list N) (acc : N) : N := fold_left (fun a d => (a * 10 + d)%N) l acc.

Lemma eval_msd_rev : forall l, eval_msd (rev l) 0%N = eval_lsd l.
Proof.
  intros l. unfold eval_msd. induction l as [|d r IH]; cbn [rev eval_lsd]; [reflexivity|].
  rewrite fold_left_app. cbn [fold_left]. rewrite IH. lia.
Qed.

(* a string that does not continue a number *)
Definition stops (rest : string) : Prop := match rest with EmptyString => True | String c _ => is_digit c = false end.

Lemma parse_digits_msd : forall l rest acc seen, (forall d, In d l -> (d < 10)%N) -> stops rest ->
  parse_digits (string_of_list (map digit_char l) ++ rest) acc seen =
  (eval_msd l acc, match l with [] => seen | _ => true end).
Proof.
  induction l as [|d r IH]; intros rest acc seen Hd Hs.
  - cbn. destruct rest as [|c rest]; cbn; [reflexivity|]. cbn in Hs. now rewrite Hs.
  - unfold string_of_list. cbn [map fold_right append parse_digits eval_msd fold_left].
    change (fold_right String EmptyString (map digit_char r)) with (string_of_list (map digit_char r)).
    rewrite is_digit_digit_char by (apply Hd; now left).
    rewrite digit_val_digit_char by (apply Hd; now left).
    rewrite IH by (auto; intros; apply Hd; now right). now destruct r.
Qed.

Lemma log2_fuel : forall n, (n < 2 ^ N.of_nat (S (N.to_nat (N.log2 n))))%N.
Proof.
  intros n. rewrite Nat2N.inj_succ, N2Nat.id. destruct n as [|q]; [cbn; lia|].
  apply N.log2_spec. lia.
Qed.

Lemma parse_digits_print_N : forall n rest, stops rest -> parse_digits (print_N n ++ rest) 0%N false = (n, true).
Proof.
  intros n rest Hs. unfold print_N.
  rewrite parse_digits_msd; [| intros d H; apply in_rev in H; now apply lsd_digits_small in H | exact Hs].
  rewrite eval_msd_rev, lsd_digits_value by apply log2_fuel.
  destruct (rev (lsd_digits (S (N.to_nat (N.log2 n))) n)) eqn:E; [|reflexivity].
  exfalso. apply (f_equal (@rev N)) in E. rewrite rev_involutive in E. cbn in E. now apply lsd_digits_nonempty in E.
Qed.

Lemma print_N_first_digit : forall n, exists c r, print_N n = String c r /\ is_digit c = true.
Proof.
  intros n. unfold print_N.
  destruct (rev (lsd_digits (S (N.to_nat (N.log2 n))) n)) as [|d l] eqn:E.
  - exfalso. apply (f_equal (@rev N)) in E. rewrite rev_involutive in E. cbn in E. now apply lsd_digits_nonempty in E.
  - cbn. eexists; eexists; split; [reflexivity|]. apply is_digit_digit_char.
    apply (lsd_digits_small (S (N.to_nat (N.log2 n))) n). apply in_rev. rewrite E. now left.
Qed.

Lemma digit_not_space : forall c, is_digit c = true -> is_space c = false.
Proof.
  intros c. unfold is_digit, is_space. intros H. apply andb_prop in H as [H1 H2].
  apply Nat.leb_le in H1, H2.
  destruct (code c =? 32) eqn:E1; [apply Nat.eqb_eq in E1; lia|].
  destruct (9 <=? code c) eqn:E2, (code c <=? 13) eqn:E3; try reflexivity. apply Nat.leb_le in E3. lia.
Qed.

Lemma digit_not_sign : forall c, is_digit c = true -> Ascii.eqb c "-"%char = false /\ Ascii.eqb c "+"%char = false.
Proof.
  intros c H. unfold is_digit in H. apply andb_prop in H as [H1 H2]. apply Nat.leb_le in H1, H2.
  split; apply Ascii.eqb_neq; intros E; subst; cbn in *; lia.
Qed.

Theorem parse_print_Z : forall z rest, stops rest -> parse_Z (print_Z z ++ rest) = Some z.
Proof.
  intros z rest Hs. unfold parse_Z, print_Z. destruct z as [|q|q].
  - destruct (print_N_first_digit (Z.to_N 0)) as (c & r & E & D).
    pose proof (parse_digits_print_N (Z.to_N 0) rest Hs) as P. rewrite E in *. cbn [append drop_while].
    rewrite (digit_not_space c D). destruct (digit_not_sign c D) as [S1 S2]. rewrite S1, S2.
    cbn [append] in P. rewrite P. reflexivity.
  - destruct (print_N_first_digit (Z.to_N (Z.pos q))) as (c & r & E & D).
    pose proof (parse_digits_print_N (Z.to_N (Z.pos q)) rest Hs) as P. rewrite E in *. cbn [append drop_while].
    rewrite (digit_not_space c D). destruct (digit_not_sign c D) as [S1 S2]. rewrite S1, S2.
    cbn [append] in P. rewrite P. cbn. reflexivity.
  - cbn [append drop_while]. change (is_space "-"%char) with false. cbn [Ascii.eqb Bool.eqb].
    rewrite parse_digits_print_N by exact Hs. reflexivity.
Qed.

Lemma stops_empty : stops EmptyString. Proof. exact I. Qed.
Lemma append_empty_r : forall s, s ++ EmptyString = s.
Proof. induction s as [|c r IH]; cbn; [reflexivity | now rewrite IH]. Qed.

Theorem parse_print_Z_exact : forall z, parse_Z (print_Z z) = Some z.
Proof. intros z. rewrite <- (append_empty_r (print_Z z)). apply parse_print_Z. exact I. Qed.

Lemma typed_read_int : forall p k z s, accepts p k (print_Z z) = true -> (int_min <= z <= int_max)%Z ->
  read_int k (fst (write_int p k z s)) = Some z.
Proof.
  intros p k z s A R. unfold read_int, write_int. rewrite accepted_write_stores by exact A.
  rewrite parse_print_Z_exact.
  destruct (int_min <=? z)%Z eqn:E1, (z <=? int_max)%Z eqn:E2; cbn; try reflexivity; lia.
Qed.

Lemma typed_read_str : forall p k v s, accepts p k v = true -> read_str k (fst (write_key p k v s)) = Some v.
Proof. intros. unfold read_str. now apply accepted_write_stores. Qed.

(* ================================================================================================ *)
(* D. FITS round trip *)

Notation blanks n := (repeat_char blank n).
Notation qs := (String quote EmptyString).

Fixpoint dbl (v : string) : string :=
  match v with EmptyString => EmptyString
  | String c r => if is_quote c then String c (String c (dbl r)) else String c (dbl r) end.
Definition elen (v : string) : nat := String.length v + count_chars is_quote v.
(* the value field of a card: opening quote, doubled text, j blanks, closing quote *)
Definition Q (v : string) (j : nat) : string := String quote (dbl v ++ blanks j ++ qs).

(* ---- strings *)
Lemma len_app : forall a b, String.length (a ++ b) = String.length a + String.length b.
Proof. induction a as [|c r IH]; intros b; cbn; [reflexivity | now rewrite IH]. Qed.
Lemma app_assoc_s : forall a b c : string, (a ++ b) ++ c = a ++ (b ++ c).
Proof. induction a as [|x r IH]; intros b c; cbn; [reflexivity | now rewrite IH]. Qed.
Lemma len_repeat : forall c n, String.length (repeat_char c n) = n.
Proof. induction n as [|n IH]; cbn; [reflexivity | now rewrite IH]. Qed.
Lemma len_dbl : forall v, String.length (dbl v) = elen v.
Proof.
  unfold elen; induction v as [|c r IH]; cbn; [reflexivity|].
  destruct (is_quote c); cbn; rewrite IH; lia.
Qed.
Lemma take_all : forall n s, String.length s <= n -> take n s = s.
Proof.
  induction n as [|n IH]; intros s H; destruct s as [|c r]; cbn in *; try reflexivity; try lia.
  rewrite IH; [reflexivity | lia].
Qed.
Lemma take_app_more : forall a b n, take (String.length a + n) (a ++ b) = a ++ take n b.
Proof. induction a as [|c r IH]; intros b n; cbn; [reflexivity | now rewrite IH]. Qed.
Lemma take_app_exact : forall a b, take (String.length a) (a ++ b) = a.
Proof.
  intros a b. rewrite <- (Nat.add_0_r (String.length a)), take_app_more.
  destruct b; cbn; now rewrite append_empty_r.
Qed.
Lemma take_blanks_app : forall j m y, j <= m -> take j (blanks m ++ y) = blanks j.
Proof.
  induction j as [|j IH]; intros m y H; [now destruct (blanks m ++ y)|].
  destruct m as [|m]; [lia|]. cbn. rewrite IH; [reflexivity | lia].
Qed.
Lemma drop_app_exact : forall a b, drop (String.length a) (a ++ b) = b.
Proof. induction a as [|c r IH]; intros b; cbn; [now destruct b | apply IH]. Qed.
Lemma last_char_app : forall a c, last_char (a ++ String c EmptyString) = Some c.
Proof.
  induction a as [|x r IH]; intros c; cbn; [reflexivity|].
  rewrite IH. destruct (r ++ String c EmptyString) eqn:E; [|reflexivity].
  destruct r; discriminate.
Qed.
Lemma forall_chars_app : forall f a b, forall_chars f (a ++ b) = forall_chars f a && forall_chars f b.
Proof. induction a as [|c r IH]; intros b; cbn; [reflexivity | now rewrite IH, andb_assoc]. Qed.
Lemma forall_chars_repeat : forall f c n, f c = true -> forall_chars f (repeat_char c n) = true.
Proof. induction n as [|n IH]; intros H; cbn; [reflexivity | now rewrite H, IH]. Qed.
Lemma forall_chars_impl : forall (f g : ascii -> bool) s, (forall c, f c = true -> g c = true) ->
  forall_chars f s = true -> forall_chars g s = true.
Proof.
  induction s as [|c r IH]; intros H; cbn; [reflexivity|]. intros E. apply andb_prop in E as [E1 E2].
  now rewrite (H c E1), IH.
Qed.
Lemma forall_chars_dbl : forall f v, forall_chars f v = true -> forall_chars f (dbl v) = true.
Proof.
  induction v as [|c r IH]; cbn; [reflexivity|]. intros E. apply andb_prop in E as [E1 E2].
  destruct (is_quote c); cbn; now rewrite ?E1, IH.
Qed.
Lemma sanitize_id : forall s, forall_chars is_printable s = true -> sanitize s = s.
Proof.
  induction s as [|c r IH]; cbn; [reflexivity|]. intros E. apply andb_prop in E as [E1 E2]. now rewrite E1, IH.
Qed.
Lemma get_app_exact : forall a c r, String.get (String.length a) (a ++ String c r) = Some c.
Proof. induction a as [|x a IH]; intros c r; cbn; [reflexivity | apply IH]. Qed.
Lemma prefix_get : forall a s, String.prefix a s = true -> forall n c, String.get n a = Some c -> String.get n s = Some c.
Proof.
  induction a as [|x a IH]; intros s H n c G; [destruct n; discriminate|].
  destruct s as [|y s]; cbn in H; [discriminate|]. destruct (ascii_dec x y); [subst|discriminate].
  destruct n as [|n]; cbn in *; [exact G | now apply IH].
Qed.
Lemma prefix_app : forall a b, String.prefix a (a ++ b) = true.
Proof. induction a as [|x a IH]; intros b; cbn; [now destruct b|]. destruct (ascii_dec x x); [apply IH | congruence]. Qed.

(* ---- trailing blanks *)
Lemma rstrip_blanks : forall j, rstrip (blanks j) = EmptyString.
Proof. induction j as [|j IH]; cbn; [reflexivity | now rewrite IH]. Qed.
Lemma rstrip_app_blanks : forall v j, rstrip (v ++ blanks j) = rstrip v.
Proof. induction v as [|c r IH]; intros j; cbn; [apply rstrip_blanks | now rewrite IH]. Qed.
Definition last_nonblank (k : string) : bool := match last_char k with Some c => negb (is_blank c) | None => true end.
Definition first_nonblank (k : string) : bool := match first_char k with Some c => negb (is_blank c) | None => true end.
Lemma rstrip_id : forall k, last_nonblank k = true -> rstrip k = k.
Proof.
  unfold last_nonblank. induction k as [|c r IH]; [reflexivity|]. intros H.
  destruct r as [|c2 r2].
  - cbn in *. destruct (is_blank c); [discriminate | reflexivity].
  - change (last_char (String c (String c2 r2))) with (last_char (String c2 r2)) in H.
    specialize (IH H). cbn [rstrip] in *. now rewrite IH.
Qed.
Lemma drop_while_id : forall k, first_nonblank k = true -> drop_while is_blank k = k.
Proof. unfold first_nonblank. intros [|c r]; cbn; [reflexivity|]. now destruct (is_blank c). Qed.
Lemma drop_while_app : forall k t, k <> EmptyString -> first_nonblank k = true -> drop_while is_blank (k ++ t) = k ++ t.
Proof. unfold first_nonblank. intros [|c r] t N; cbn; [congruence|]. now destruct (is_blank c). Qed.
Lemma strip_blanks_pad : forall k j, k <> EmptyString -> first_nonblank k = true -> last_nonblank k = true ->
  strip_blanks (k ++ blanks j) = k.
Proof.
  intros k j N F L. unfold strip_blanks. rewrite drop_while_app by assumption.
  now rewrite rstrip_app_blanks, rstrip_id.
Qed.

(* ---- ffs2c *)
Lemma s2c_loop_ok : forall v jj, jj + elen v <= 69 -> s2c_loop v jj = (dbl v, jj + elen v).
Proof.
  unfold elen. induction v as [|c r IH]; intros jj H; cbn [s2c_loop dbl]; [f_equal; cbn; lia|].
  cbn [String.length count_chars] in H.
  destruct (69 <=? jj) eqn:E; [apply Nat.leb_le in E; lia|].
  destruct (is_quote c) eqn:EQ.
  - rewrite IH by lia. f_equal. cbn [String.length count_chars]. rewrite EQ. lia.
  - rewrite IH by lia. f_equal. cbn [String.length count_chars]. rewrite EQ. lia.
Qed.
Lemma elen_ge_len : forall v, String.length v <= elen v.
Proof. unfold elen; intros; lia. Qed.
Lemma ffs2c_ok : forall v, elen v <= 68 -> ffs2c v = Q v (8 - elen v).
Proof.
  intros v H. unfold ffs2c. rewrite take_all by (pose proof (elen_ge_len v); lia).
  rewrite s2c_loop_ok by lia.
  destruct (1 + elen v =? 70) eqn:E; [apply Nat.eqb_eq in E; lia|].
  unfold Q. repeat f_equal; try lia.
Qed.
Lemma len_Q : forall v j, String.length (Q v j) = elen v + j + 2.
Proof. intros. unfold Q. cbn [String.length]. rewrite !len_app, len_dbl, len_repeat. cbn. lia. Qed.

(* ---- ffpsvc on a quoted value, the reader *)
Lemma quoted_tail_blanks : forall j, quoted_tail (blanks j ++ qs) = Some (blanks j ++ qs).
Proof. induction j as [|j IH]; cbn; [reflexivity|]. cbn in IH. now rewrite IH. Qed.
Lemma quoted_tail_dbl : forall v t t', quoted_tail t = Some t' -> quoted_tail (dbl v ++ t) = Some (dbl v ++ t').
Proof.
  induction v as [|c r IH]; intros t t' H; cbn [dbl append]; [exact H|].
  destruct (is_quote c) eqn:E; cbn [append quoted_tail]; rewrite E.
  - now rewrite (IH t t' H).
  - now rewrite (IH t t' H).
Qed.
Lemma parse_value_text_Q : forall i v j, parse_value_text (blanks i ++ Q v j) = Some (Q v j).
Proof.
  intros i v j. unfold parse_value_text.
  assert (D : drop_while is_blank (blanks i ++ Q v j) = Q v j) by (induction i as [|i IH]; cbn; [reflexivity | exact IH]).
  rewrite D. unfold Q at 1. change (is_quote quote) with true. cbn iota.
  rewrite (quoted_tail_dbl v _ _ (quoted_tail_blanks j)). reflexivity.
Qed.
Lemma strip_quotes_Q : forall v j, strip_quotes (Q v j) = dbl v ++ blanks j.
Proof.
  intros v j. unfold Q, strip_quotes. change (is_quote quote) with true. cbn iota.
  rewrite <- app_assoc_s. rewrite last_char_app. change (is_quote quote) with true. cbn iota.
  rewrite len_app. cbn [String.length]. replace (String.length (dbl v ++ blanks j) + 1 - 1) with (String.length (dbl v ++ blanks j)) by lia.
  apply take_app_exact.
Qed.
Lemma undouble_blanks : forall j, undouble (blanks j) = blanks j.
Proof.
  induction j as [|j IH]; [reflexivity|]. destruct j as [|j']; [reflexivity|].
  change (blanks (S (S j'))) with (String blank (String blank (blanks j'))).
  cbn [undouble]. change (is_quote blank) with false. cbn [andb].
  cbn in IH. change (is_quote blank) with false in IH. cbn in IH. now rewrite IH.
Qed.
Lemma undouble_dbl : forall v j, undouble (dbl v ++ blanks j) = v ++ blanks j.
Proof.
  induction v as [|c r IH]; intros j; cbn [dbl append]; [apply undouble_blanks|].
  destruct (is_quote c) eqn:E.
  - cbn [append undouble]. rewrite E. cbn. now rewrite IH.
  - cbn [append undouble]. rewrite E. cbn [andb]. rewrite IH.
    destruct (dbl r ++ blanks j) eqn:D; [|reflexivity].
    (* the tail is empty: then r and the blanks are empty too *)
    assert (L : String.length (dbl r ++ blanks j) = 0) by now rewrite D.
    rewrite len_app, len_dbl, len_repeat in L. pose proof (elen_ge_len r).
    destruct r; [|cbn in *; lia]. destruct j; [reflexivity | cbn in L; lia].
Qed.
Lemma reader_value_Q : forall p v j, p_unquote_read p = true -> reader_value p (Q v j) = v ++ blanks j.
Proof.
  intros p v j H. unfold reader_value. rewrite H, strip_quotes_Q. unfold Q at 1. cbn [first_char].
  change (is_quote quote) with true. cbn. apply undouble_dbl.
Qed.

(* ---- keyword of a card *)
Definition not_eq (c : ascii) : bool := negb (Ascii.eqb c eq_sign).
Lemma before_eq_app : forall a r, forall_chars not_eq a = true -> before_eq (a ++ String eq_sign r) = a.
Proof.
  induction a as [|c a IH]; intros r H; cbn; [reflexivity|]. cbn in H. apply andb_prop in H as [H1 H2].
  unfold not_eq in H1. destruct (Ascii.eqb c eq_sign); [discriminate|]. now rewrite IH.
Qed.
Lemma before_eq_none : forall a, forall_chars not_eq a = true -> before_eq a = a.
Proof.
  induction a as [|c a IH]; intros H; cbn; [reflexivity|]. cbn in H. apply andb_prop in H as [H1 H2].
  unfold not_eq in H1. destruct (Ascii.eqb c eq_sign); [discriminate|]. now rewrite IH.
Qed.
Lemma after_eq_app : forall a r, forall_chars not_eq a = true -> after_eq (a ++ String eq_sign r) = Some r.
Proof.
  induction a as [|c a IH]; intros r H; cbn; [reflexivity|]. cbn in H. apply andb_prop in H as [H1 H2].
  unfold not_eq in H1. destruct (Ascii.eqb c eq_sign); [discriminate|]. now rewrite IH.
Qed.

(* ---- what the source-derived parameters must satisfy for the round trip to work *)
Definition structural_names : list string := ["COMMENT"; "HISTORY"; "END"; "CONTINUE"; ""].
Definition params_sound (p : params) : bool :=
  (p_short_keylen p =? 8) && (p_short_vmax p =? 68)%N && (p_card p =? 80)%N && (p_hier_overhead p =? 13)%N &&
  match p_long_keymax p with Some m => m <=? 66 | None => false end &&
  p_long_blank_check p && p_quote_aware p && p_unquote_read p && p_printable_check p &&
  forallb (reserved p) structural_names.

Lemma gen_params_sound : params_sound gen_params = true.
Proof. vm_compute. reflexivity. Qed.

Ltac split_andb H :=
  repeat match type of H with
         | (_ && _) = true => let H1 := fresh "PS" in apply andb_prop in H as [H H1]
         end.

Definition key_char_short (c : ascii) : bool := is_upper c || is_digit c.
Definition key_char_long (c : ascii) : bool := not_eq c && negb (is_lower c) && is_printable c.

Lemma long_scan_none : forall k, long_scan true k = None -> forall_chars key_char_long k = true.
Proof.
  induction k as [|c r IH]; cbn; [reflexivity|]. unfold key_char_long at 1, not_eq.
  destruct (Ascii.eqb c eq_sign); [discriminate|]. destruct (is_lower c); [discriminate|].
  destruct (is_printable c); cbn; [exact IH | discriminate].
Qed.

Lemma accepts_short : forall p k v, params_sound p = true -> accepts p k v = true -> String.length k <= 8 ->
  reserved p k = false /\ forall_chars key_char_short k = true /\ forall_chars is_printable v = true /\ elen v <= 68.
Proof.
  intros p k v PS A L. unfold params_sound in PS. split_andb PS.
  apply Nat.eqb_eq in PS. apply N.eqb_eq in PS8.
  unfold accepts, check_key in A. destruct (reserved p k); [discriminate|].
  rewrite PS in A. destruct (String.length k <=? 8) eqn:E; [|apply Nat.leb_gt in E; lia].
  fold key_char_short in A. destruct (forall_chars key_char_short k); [|discriminate].
  rewrite PS1 in A. cbn [andb] in A. destruct (forall_chars is_printable v); [|discriminate]. cbn in A.
  unfold enc_len in A. rewrite PS3 in A. fold (elen v) in A.
  apply negb_true_iff, N.ltb_ge in A. repeat split; lia.
Qed.

Lemma last_char_some : forall c r, exists l, last_char (String c r) = Some l.
Proof.
  intros c r; revert c; induction r as [|c2 r2 IH]; intros c; [now exists c|].
  destruct (IH c2) as [l H]. exists l. exact H.
Qed.

Lemma accepts_long : forall p k v, params_sound p = true -> accepts p k v = true -> 8 < String.length k ->
  reserved p k = false /\ forall_chars key_char_long k = true /\ String.length k <= 66 /\
  first_nonblank k = true /\ last_nonblank k = true /\ String.prefix hier_prefix k = false /\
  forall_chars is_printable v = true /\ elen v + 13 + String.length k <= 80.
Proof.
  intros p k v PS A L. unfold params_sound in PS. split_andb PS.
  apply Nat.eqb_eq in PS. apply N.eqb_eq in PS7, PS6.
  unfold accepts, check_key in A. destruct (reserved p k); [discriminate|].
  rewrite PS in A. destruct (String.length k <=? 8) eqn:E; [apply Nat.leb_le in E; lia|].
  rewrite PS1 in A. destruct (long_scan true k) eqn:LS; [discriminate|].
  destruct (p_long_keymax p) as [m|]; [|discriminate]. apply Nat.leb_le in PS5.
  destruct (m <? String.length k) eqn:EM; [discriminate|]. apply Nat.ltb_ge in EM.
  rewrite PS4 in A. cbn [andb] in A.
  unfold first_nonblank, last_nonblank.
  assert (KS : exists c0 r0, k = String c0 r0) by (destruct k as [|c0 r0]; [cbn in L; lia | eauto]).
  destruct KS as (c0 & r0 & KS).
  destruct (last_char_some c0 r0) as [lc ELC]. rewrite <- KS in ELC. rewrite ELC in *.
  assert (FC : first_char k = Some c0) by now rewrite KS. rewrite FC in *.
  destruct (is_blank c0); [discriminate|]. destruct (is_blank lc); [discriminate|]. cbn [orb] in A.
  destruct (String.prefix hier_prefix k); [discriminate|]. cbn in A.
  destruct (forall_chars is_printable v); [|discriminate]. cbn in A.
  unfold enc_len, long_vmax in A. rewrite PS3, PS7, PS6 in A. fold (elen v) in A.
  destruct (13 + N.of_nat (String.length k) <=? 80)%N eqn:EU; [|apply N.leb_gt in EU; lia].
  apply negb_true_iff, N.ltb_ge in A. apply long_scan_none in LS. repeat split; try reflexivity; try assumption; lia.
Qed.

(* ---- character classes *)
Lemma is_blank_code : forall c, is_blank c = true -> code c = 32.
Proof. intros c H. unfold is_blank in H. apply Ascii.eqb_eq in H. now subst. Qed.
Lemma eq_sign_code : forall c, Ascii.eqb c eq_sign = true -> code c = 61.
Proof. intros c H. apply Ascii.eqb_eq in H. now subst. Qed.
Lemma short_char_facts : forall c, key_char_short c = true -> is_blank c = false /\ not_eq c = true /\ is_printable c = true.
Proof.
  intros c H. unfold key_char_short, is_upper, is_digit in H.
  assert (R : (65 <= code c <= 90) \/ (48 <= code c <= 57)).
  { apply orb_prop in H as [H|H]; apply andb_prop in H as [H1 H2]; apply Nat.leb_le in H1, H2; lia. }
  repeat split.
  - destruct (is_blank c) eqn:E; [apply is_blank_code in E; lia | reflexivity].
  - unfold not_eq. destruct (Ascii.eqb c eq_sign) eqn:E; [apply eq_sign_code in E; lia | reflexivity].
  - unfold is_printable. apply andb_true_intro; split; apply Nat.leb_le; lia.
Qed.
Lemma nonblank_first_last : forall k, forall_chars (fun c => negb (is_blank c)) k = true -> first_nonblank k = true /\ last_nonblank k = true.
Proof.
  unfold first_nonblank, last_nonblank. induction k as [|c r IH]; [now split|]. cbn [forall_chars]. intros H.
  apply andb_prop in H as [H1 H2]. split; [exact H1|]. destruct r as [|c2 r2]; [exact H1|].
  change (last_char (String c (String c2 r2))) with (last_char (String c2 r2)). now apply IH.
Qed.

Lemma len_pad8 : forall k, String.length k <= 8 -> String.length (pad_to 8 k) = 8.
Proof. intros k H. unfold pad_to. rewrite len_app, len_repeat. lia. Qed.

(* ---- a card with a standard keyword *)
Lemma short_card : forall k v j, k <> EmptyString -> forall_chars key_char_short k = true -> String.length k <= 8 ->
  let card := pad_to 8 k ++ String eq_sign (String blank (Q v j)) in
  pad_to 8 (take 8 card) = pad_to 8 k /\ String.prefix hier_prefix card = false /\ card_name card = k /\
  (commentary card = false -> card_value card = Some (Q v j)) /\ rstrip (pad_to 8 k) = k.
Proof.
  intros k v j NE KC L card.
  pose proof (len_pad8 k L) as L8.
  assert (T8 : take 8 card = pad_to 8 k).
  { unfold card. pose proof (take_app_exact (pad_to 8 k) (String eq_sign (String blank (Q v j)))) as T. now rewrite L8 in T. }
  assert (NB : forall_chars (fun c => negb (is_blank c)) k = true).
  { apply (forall_chars_impl key_char_short); [|exact KC]. intros c H. apply short_char_facts in H as (H & _). now rewrite H. }
  assert (NQ : forall_chars not_eq k = true).
  { apply (forall_chars_impl key_char_short); [|exact KC]. intros c H. now apply short_char_facts in H. }
  destruct (nonblank_first_last k NB) as [F La].
  assert (PF : String.prefix hier_prefix card = false).
  { destruct (String.prefix hier_prefix card) eqn:E; [|reflexivity].
    pose proof (prefix_get _ _ E 8 blank eq_refl) as G.
    unfold card in G. pose proof (get_app_exact (pad_to 8 k) eq_sign (String blank (Q v j))) as G2. rewrite L8 in G2.
    rewrite G2 in G. discriminate. }
  assert (RS : rstrip (pad_to 8 k) = k) by (unfold pad_to; now rewrite rstrip_app_blanks, rstrip_id).
  repeat split.
  - rewrite T8. unfold pad_to at 1. rewrite L8. cbn. apply append_empty_r.
  - exact PF.
  - unfold card_name. rewrite PF, T8. rewrite before_eq_none.
    + unfold pad_to. now apply strip_blanks_pad.
    + unfold pad_to. rewrite forall_chars_app, NQ. cbn. now apply forall_chars_repeat.
  - intros CM. unfold card_value. rewrite CM, PF.
    assert (D8 : drop 8 card = String eq_sign (String blank (Q v j))).
    { unfold card. pose proof (drop_app_exact (pad_to 8 k) (String eq_sign (String blank (Q v j)))) as D. now rewrite L8 in D. }
    rewrite D8. cbn [take String.eqb Ascii.eqb]. change (String.eqb "= " "= ") with true. cbn iota.
    assert (D10 : drop 10 card = Q v j).
    { unfold card. change (String eq_sign (String blank (Q v j))) with ("= " ++ Q v j). rewrite <- app_assoc_s.
      pose proof (drop_app_exact (pad_to 8 k ++ "= ") (Q v j)) as D. rewrite len_app, L8 in D. exact D. }
    rewrite D10. apply (parse_value_text_Q 0).
  - exact RS.
Qed.

(* ---- a card with a HIERARCH keyword *)
Definition lcard (k : string) (sp : nat) (v : string) (j : nat) : string :=
  hier_prefix ++ ((k ++ blanks sp) ++ String eq_sign (String blank (Q v j))).
Definition is_end_card (c : string) : bool := String.eqb (pad_to 8 (take 8 c)) "END     ".

Lemma long_char_facts : forall c, key_char_long c = true -> not_eq c = true /\ is_printable c = true.
Proof. intros c H. unfold key_char_long in H. apply andb_prop in H as [H H2]. apply andb_prop in H as [H0 H1]. now split. Qed.

Lemma long_card : forall k v j sp, k <> EmptyString -> forall_chars key_char_long k = true ->
  first_nonblank k = true -> last_nonblank k = true ->
  is_end_card (lcard k sp v j) = false /\ commentary (lcard k sp v j) = false /\
  card_name (lcard k sp v j) = k /\ card_value (lcard k sp v j) = Some (Q v j).
Proof.
  intros k v j sp NE KC F La.
  assert (NQ : forall_chars not_eq (k ++ blanks sp) = true).
  { rewrite forall_chars_app. rewrite (forall_chars_impl key_char_long not_eq k); [|intros c H; now apply long_char_facts in H | exact KC].
    cbn. now apply forall_chars_repeat. }
  assert (PF : String.prefix hier_prefix (lcard k sp v j) = true) by apply prefix_app.
  assert (AE : after_eq (lcard k sp v j) = Some (String blank (Q v j))).
  { unfold lcard. rewrite <- app_assoc_s. apply after_eq_app. rewrite forall_chars_app, NQ. reflexivity. }
  assert (CM : commentary (lcard k sp v j) = false) by reflexivity.
  split; [reflexivity|]. split; [exact CM|]. split.
  - unfold card_name. rewrite PF, AE.
    assert (D9 : drop 9 (lcard k sp v j) = (k ++ blanks sp) ++ String eq_sign (String blank (Q v j))).
    { unfold lcard. apply (drop_app_exact hier_prefix). }
    rewrite D9, before_eq_app by exact NQ. now apply strip_blanks_pad.
  - unfold card_value. rewrite CM, PF, AE. apply (parse_value_text_Q 1).
Qed.

Lemma fit_value_Q : forall room v m, elen v + 2 <= room -> exists j, fit_value room (Q v m) = Q v j /\ j <= m /\ elen v + j + 2 <= room.
Proof.
  intros room v m H. unfold fit_value. rewrite len_Q.
  destruct (elen v + m + 2 <=? room) eqn:E; [apply Nat.leb_le in E; exists m; split; [reflexivity | lia]|].
  apply Nat.leb_gt in E. exists (room - 2 - elen v). split; [|lia].
  replace (room - 1) with (S (elen v + (room - 2 - elen v))) by lia.
  unfold Q. cbn [take]. rewrite <- (len_dbl v) at 1. rewrite take_app_more.
  rewrite take_blanks_app by lia. cbn [append]. now rewrite app_assoc_s.
Qed.

Lemma printable_Q : forall v j, forall_chars is_printable v = true -> forall_chars is_printable (Q v j) = true.
Proof.
  intros v j H. unfold Q. cbn [forall_chars]. change (is_printable quote) with true. cbn [andb].
  rewrite !forall_chars_app, forall_chars_dbl by exact H. rewrite forall_chars_repeat by reflexivity. reflexivity.
Qed.

Lemma strip_blanks_id : forall k, k <> EmptyString -> first_nonblank k = true -> last_nonblank k = true -> strip_blanks k = k.
Proof. intros k N F L. rewrite <- (append_empty_r k) at 1. now apply (strip_blanks_pad k 0). Qed.

Lemma pad8_not_structural : forall p k X, reserved p k = false -> rstrip (pad_to 8 k) = k -> reserved p (rstrip X) = true ->
  String.eqb (pad_to 8 k) X = false.
Proof.
  intros p k X R RS RX. destruct (String.eqb (pad_to 8 k) X) eqn:E; [|reflexivity].
  apply String.eqb_eq in E. rewrite E in RS. rewrite RS in RX. congruence.
Qed.

(* every accepted entry is written as one card that reads back as the same key and the value plus blanks *)
Lemma entry_roundtrip : forall p k v, params_sound p = true -> accepts p k v = true ->
  exists c j, ffmkky k (ffs2c v) = Some c /\ sanitize c = c /\ is_end_card c = false /\ card_name c = k /\
              card_value c = Some (Q v j) /\ reserved p k = false /\
              elen v + j <= (if String.length k <=? 8 then Nat.max (elen v) 8 else 67 - String.length k).
Proof.
  intros p k v PS A.
  assert (ST : forallb (reserved p) structural_names = true).
  { unfold params_sound in PS. split_andb PS. exact PS0. }
  assert (SN : reserved p "COMMENT" = true /\ reserved p "HISTORY" = true /\ reserved p "END" = true /\
               reserved p "CONTINUE" = true /\ reserved p "" = true).
  { cbn [forallb structural_names] in ST. repeat (apply andb_prop in ST as [? ST]). repeat split; assumption. }
  destruct SN as (SC & SH & SE & SO & SB).
  destruct (le_gt_dec (String.length k) 8) as [L|L].
  - (* standard keyword *)
    destruct (accepts_short p k v PS A L) as (R & KC & PV & EL).
    assert (NE : k <> EmptyString) by (intros E; subst; congruence).
    rewrite (ffs2c_ok v EL). set (j := 8 - elen v).
    destruct (short_card k v j NE KC L) as (T8 & PF & CN & CV & RS).
    assert (NB : forall_chars (fun c => negb (is_blank c)) k = true).
    { apply (forall_chars_impl key_char_short); [|exact KC]. intros c H. apply short_char_facts in H as (H & _). now rewrite H. }
    destruct (nonblank_first_last k NB) as [F La].
    exists (pad_to 8 k ++ String eq_sign (String blank (Q v j))), j.
    assert (CM : commentary (pad_to 8 k ++ String eq_sign (String blank (Q v j))) = false).
    { unfold commentary. rewrite T8. cbn [existsb].
      rewrite (pad8_not_structural p k "COMMENT " R RS SC).
      rewrite (pad8_not_structural p k "HISTORY " R RS SH).
      rewrite (pad8_not_structural p k "END     " R RS SE).
      rewrite (pad8_not_structural p k "CONTINUE" R RS SO).
      rewrite (pad8_not_structural p k "        " R RS SB). reflexivity. }
    repeat split.
    + unfold ffmkky. rewrite strip_blanks_id by assumption.
      destruct (String.length k <=? 8) eqn:E; [reflexivity | apply Nat.leb_gt in E; lia].
    + apply sanitize_id. unfold pad_to. rewrite !forall_chars_app.
      rewrite (forall_chars_impl key_char_short is_printable k); [|intros c H; now apply short_char_facts in H | exact KC].
      rewrite forall_chars_repeat by reflexivity. cbn [forall_chars]. rewrite printable_Q by exact PV. reflexivity.
    + unfold is_end_card. rewrite T8. apply (pad8_not_structural p k "END     " R RS SE).
    + exact CN.
    + exact (CV CM).
    + exact R.
    + destruct (String.length k <=? 8) eqn:E; [unfold j; lia | apply Nat.leb_gt in E; lia].
  - (* HIERARCH keyword *)
    destruct (accepts_long p k v PS A L) as (R & KC & L66 & F & La & HP & PV & EL).
    assert (NE : k <> EmptyString) by (intros E; subst; cbn in L; lia).
    assert (EL68 : elen v <= 68) by lia.
    rewrite (ffs2c_ok v EL68). set (m := 8 - elen v).
    unfold ffmkky. rewrite strip_blanks_id by assumption.
    destruct (String.length k <=? 8) eqn:E8; [apply Nat.leb_le in E8; lia|].
    rewrite HP.
    assert (PK : forall_chars is_printable k = true).
    { apply (forall_chars_impl key_char_long); [|exact KC]. intros c H. now apply long_char_facts in H. }
    destruct (80 <? String.length k + 12 + String.length (Q v m)) eqn:ES.
    + (* "= " *)
      rewrite !len_app. change (String.length hier_prefix) with 9. change (String.length "= ") with 2.
      destruct (80 - (9 + String.length k + 2) <? 3) eqn:ER; [apply Nat.ltb_lt in ER; lia|].
      destruct (fit_value_Q (80 - (9 + String.length k + 2)) v m) as (j & FV & JM & JR); [lia|].
      rewrite FV. exists (lcard k 0 v j), j.
      destruct (long_card k v j 0 NE KC F La) as (EC & CM & CN & CV).
      repeat split; try assumption; try lia.
      * f_equal. unfold lcard. cbn [repeat_char]. rewrite append_empty_r, !app_assoc_s. reflexivity.
      * apply sanitize_id. unfold lcard. rewrite !forall_chars_app, PK. cbn [repeat_char forall_chars].
        rewrite printable_Q by exact PV. reflexivity.
    + (* " = " *)
      apply Nat.ltb_ge in ES. rewrite len_Q in ES.
      rewrite !len_app. change (String.length hier_prefix) with 9. change (String.length " = ") with 3.
      destruct (80 - (9 + String.length k + 3) <? 3) eqn:ER; [apply Nat.ltb_lt in ER; lia|].
      destruct (fit_value_Q (80 - (9 + String.length k + 3)) v m) as (j & FV & JM & JR); [lia|].
      rewrite FV. exists (lcard k 1 v j), j.
      destruct (long_card k v j 1 NE KC F La) as (EC & CM & CN & CV).
      repeat split; try assumption; try lia.
      * f_equal. unfold lcard. cbn [repeat_char]. rewrite !app_assoc_s. reflexivity.
      * apply sanitize_id. unfold lcard. rewrite !forall_chars_app, PK. cbn [repeat_char forall_chars].
        rewrite printable_Q by exact PV. reflexivity.
Qed.

Lemma count_blanks_quote : forall j, count_chars is_quote (blanks j) = 0.
Proof. induction j as [|j IH]; cbn; [reflexivity | exact IH]. Qed.
Lemma count_app : forall f a b, count_chars f (a ++ b) = count_chars f a + count_chars f b.
Proof. induction a as [|c r IH]; intros b; cbn; [reflexivity | rewrite IH; lia]. Qed.
Lemma elen_app_blanks : forall v j, elen (v ++ blanks j) = elen v + j.
Proof. intros v j. unfold elen. rewrite len_app, count_app, len_repeat, count_blanks_quote. lia. Qed.

(* a value that grew by padding which still fits the card is accepted again *)
Lemma accepts_pad : forall p k v j, params_sound p = true -> accepts p k v = true ->
  elen v + j <= (if String.length k <=? 8 then Nat.max (elen v) 8 else 67 - String.length k) ->
  accepts p k (v ++ blanks j) = true.
Proof.
  intros p k v j PS A B. unfold params_sound in PS. split_andb PS.
  apply Nat.eqb_eq in PS. apply N.eqb_eq in PS8, PS7, PS6.
  unfold accepts, check_key in *. destruct (reserved p k); [discriminate|].
  rewrite PS in *. destruct (String.length k <=? 8) eqn:E.
  - destruct (forall_chars (fun c : ascii => is_upper c || is_digit c) k); [|discriminate].
    rewrite PS1 in *. cbn [andb] in *. rewrite forall_chars_app.
    destruct (forall_chars is_printable v); [|discriminate]. rewrite forall_chars_repeat by reflexivity. cbn [negb andb] in *.
    unfold enc_len in *. rewrite PS3 in *. fold (elen v) in A. fold (elen (v ++ blanks j)). rewrite elen_app_blanks.
    apply negb_true_iff, N.ltb_ge in A. apply negb_true_iff, N.ltb_ge. lia.
  - apply Nat.leb_gt in E. rewrite PS1 in *. destruct (long_scan true k); [discriminate|].
    destruct (p_long_keymax p) as [m|]; [|discriminate]. apply Nat.leb_le in PS5.
    destruct (m <? String.length k) eqn:EM; [discriminate|]. apply Nat.ltb_ge in EM.
    destruct (p_long_blank_check p && _); [discriminate|].
    cbn [andb] in *. rewrite forall_chars_app.
    destruct (forall_chars is_printable v); [|discriminate]. rewrite forall_chars_repeat by reflexivity. cbn [negb andb] in *.
    unfold enc_len, long_vmax in *. rewrite PS3, PS7, PS6 in *. fold (elen v) in A. fold (elen (v ++ blanks j)). rewrite elen_app_blanks.
    destruct (13 + N.of_nat (String.length k) <=? 80)%N eqn:EU; [|apply N.leb_gt in EU; lia]. apply N.leb_le in EU.
    apply negb_true_iff, N.ltb_ge in A. apply negb_true_iff, N.ltb_ge. lia.
Qed.

(* ---- the whole header *)
Definition prelude_ok (p : params) (prelude : list string) : bool :=
  forallb (fun c => negb (is_end_card c) && match card_value c with None => true | Some _ => reserved p (card_name c) end) prelude.

Lemma harness_prelude_ok : prelude_ok gen_params harness_prelude = true.
Proof. vm_compute. reflexivity. Qed.

Definition all_accepted (p : params) (s : store) : Prop := forall k v, In (k, v) s -> accepts p k v = true.
(* same keys in the same order, values equal up to trailing blanks *)
Definition same_up_to_blanks (s s' : store) : Prop :=
  Forall2 (fun e e' => fst e' = fst e /\ rstrip (snd e') = rstrip (snd e)) s s'.

Lemma read_prelude : forall p prelude cs, prelude_ok p prelude = true -> read_cards p (prelude ++ cs)%list = read_cards p cs.
Proof.
  intros p prelude cs; induction prelude as [|c r IH]; intros H; [reflexivity|].
  cbn [prelude_ok forallb] in H. apply andb_prop in H as [H1 H2]. apply andb_prop in H1 as [H0 H1].
  cbn [app read_cards]. unfold is_end_card in H0. apply negb_true_iff in H0. rewrite H0.
  destruct (card_value c); [rewrite H1|]; now apply IH.
Qed.

Lemma cards_roundtrip : forall p s, params_sound p = true -> all_accepted p s ->
  exists cs, write_cards s = Some cs /\ same_up_to_blanks s (read_cards p cs) /\ all_accepted p (read_cards p cs).
Proof.
  intros p s PS; induction s as [|[k v] r IH]; intros AA.
  - exists []. split; [reflexivity|]. split; [constructor | intros k v []].
  - destruct IH as (cs & W & Sm & AC); [intros k' v' H; apply AA; now right|].
    pose proof (AA k v (or_introl eq_refl)) as AK.
    destruct (entry_roundtrip p k v PS AK) as (c & j & MK & SA & EC & CN & CV & R & JB).
    exists (c :: cs). cbn [write_cards]. rewrite MK, W, SA. split; [reflexivity|].
    cbn [read_cards]. unfold is_end_card in EC. rewrite EC, CV, CN, R.
    assert (U : p_unquote_read p = true) by (unfold params_sound in PS; split_andb PS; assumption).
    rewrite reader_value_Q by exact U. split.
    + constructor; [|exact Sm]. cbn [fst snd]. split; [reflexivity|]. now rewrite rstrip_app_blanks.
    + intros k2 v2 [H|H]; [inversion H; subst; now apply accepts_pad | now apply AC].
Qed.

Lemma survives_roundtrip : forall p prelude s, params_sound p = true -> prelude_ok p prelude = true -> all_accepted p s ->
  exists s', roundtrip p prelude s = Some s' /\ same_up_to_blanks s s' /\ all_accepted p s'.
Proof.
  intros p prelude s PS PO AA. destruct (cards_roundtrip p s PS AA) as (cs & W & Sm & AC).
  exists (read_cards p cs). unfold roundtrip. rewrite W, read_prelude by exact PO. now repeat split.
Qed.

Lemma same_keys : forall s s', same_up_to_blanks s s' -> map fst s' = map fst s.
Proof. intros s s' H; induction H as [|e e' r r' [H1 H2] _ IH]; cbn; [reflexivity | now rewrite H1, IH]. Qed.

Lemma same_get : forall s s' k, same_up_to_blanks s s' ->
  match get k s with
  | Some v => exists v', get k s' = Some v' /\ rstrip v' = rstrip v
  | None => get k s' = None
  end.
Proof.
  intros s s' k H; induction H as [|[k1 v1] [k2 v2] r r' [H1 H2] _ IH]; cbn in *; [reflexivity|]. subst k2.
  destruct (String.eqb k k1); [eauto | exact IH].
Qed.

(* entries reachable by operations from an accepted store are accepted *)
Lemma all_accepted_nil : forall p, all_accepted p [].
Proof. intros p k v []. Qed.

Lemma in_update_first : forall k v s e, In e (update_first k v s) -> In e s \/ e = (k, v).
Proof.
  intros k v s e; induction s as [|[k' v'] r IH]; cbn; [tauto|].
  destruct (String.eqb k k') eqn:E; cbn.
  - apply String.eqb_eq in E; subst. intros [H|H]; [right; now symmetry | left; now right].
  - intros [H|H]; [left; now left | destruct (IH H); [left; now right | now right]].
Qed.
Lemma in_remove_first : forall k s e, In e (remove_first k s) -> In e s.
Proof.
  intros k s e; induction s as [|[k' v'] r IH]; cbn; [tauto|].
  destruct (String.eqb k k'); cbn; [now right | intros [H|H]; [now left | right; now apply IH]].
Qed.

Lemma write_key_accepted : forall p k v s, all_accepted p s -> all_accepted p (fst (write_key p k v s)).
Proof.
  intros p k v s AA. destruct (accepts p k v) eqn:A; [|now rewrite rejected_write_keeps].
  intros k2 v2 IN.
  unfold write_key in IN. pose proof A as A'. unfold accepts in A'.
  destruct (check_key p k) as [e|vmax]; [discriminate|].
  apply andb_prop in A' as [A1 A2]. apply negb_true_iff in A1, A2. rewrite A1, A2 in IN.
  destruct (has_key k s); cbn [fst] in IN.
  - apply in_update_first in IN as [IN|IN]; [now apply AA | inversion IN; subst; exact A].
  - apply in_app_iff in IN as [IN|[IN|[]]]; [now apply AA | inversion IN; subst; exact A].
Qed.

Lemma step_accepted : forall p o s, all_accepted p s -> all_accepted p (fst (step p s o)).
Proof.
  intros p o s AA. destruct o as [k v|k z|k|k|k|k|i|]; cbn; try exact AA.
  - pose proof (write_key_accepted p k v s AA) as H. now destruct (write_key p k v s).
  - unfold write_int. pose proof (write_key_accepted p k (print_Z z) s AA) as H. now destruct (write_key p k (print_Z z) s).
  - unfold remove_key. destruct (has_key k s); cbn; [|exact AA]. intros k2 v2 IN. apply AA. now apply in_remove_first in IN.
Qed.

Lemma run_accepted : forall p ops s, all_accepted p s -> all_accepted p (fst (run p s ops)).
Proof.
  intros p ops; induction ops as [|o r IH]; intros s AA; cbn; [exact AA|].
  pose proof (step_accepted p o s AA) as H. destruct (step p s o) as [s1 x]; cbn in *.
  specialize (IH s1 H). now destruct (run p s1 r).
Qed.

(* ================================================================================================ *)
(* E. the pinned upstream code does not satisfy the property: witnesses on the faithful model *)

(* D8/D9a: a quote is doubled by every round trip *)
Lemma upstream_quote_doubled :
  accepts upstream_params "AB" "it's" = true /\
  roundtrip upstream_params harness_prelude [("AB", "it's")] = Some [("AB", "it''s   ")].
Proof. split; vm_compute; reflexivity. Qed.

(* D9b: END is accepted, and the END card it produces hides every later entry *)
Lemma upstream_END_drops_entries :
  accepts upstream_params "END" "x" = true /\
  roundtrip upstream_params harness_prelude [("A", "before"); ("END", "x"); ("B", "after")] = Some [("A", "before  ")].
Proof. split; vm_compute; reflexivity. Qed.

(* D9c: commentary keywords are accepted and lose their value *)
Lemma upstream_commentary_value_lost :
  accepts upstream_params "HISTORY" "h" = true /\ accepts upstream_params "CONTINUE" "c" = true /\ accepts upstream_params "" "b" = true /\
  roundtrip upstream_params harness_prelude [("HISTORY", "h"); ("CONTINUE", "c"); ("", "b")] = Some [("HISTORY", ""); ("CONTINUE", ""); ("", "")].
Proof. repeat split; vm_compute; reflexivity. Qed.

(* a key of 68 or more characters: the unsigned limit wraps, any value is accepted, serialisation fails *)
Lemma upstream_long_key_wraps :
  let k := repeat_char "K"%char 68 in
  accepts upstream_params k (repeat_char "x"%char 200) = true /\ roundtrip upstream_params harness_prelude [(k, "1.5")] = None.
Proof. split; vm_compute; reflexivity. Qed.

(* blanks around a long key and a leading "HIERARCH " are stripped: the key comes back under another name *)
Lemma upstream_long_key_renamed :
  accepts upstream_params "HIERARCH ABC DEF" "v" = true /\
  roundtrip upstream_params harness_prelude [("HIERARCH ABC DEF", "v"); (" LEADING SPACE", "w")] = Some [("ABC DEF", "v       "); ("LEADING SPACE", "w       ")].
Proof. split; vm_compute; reflexivity. Qed.

(* a value whose doubled quotes do not fit is truncated *)
Lemma upstream_quotes_truncated :
  let v := repeat_char quote 40 in
  accepts upstream_params "Q" v = true /\
  exists v', roundtrip upstream_params harness_prelude [("Q", v)] = Some [("Q", v')] /\ rstrip v' <> rstrip v.
Proof. split; [vm_compute; reflexivity|]. eexists; split; [vm_compute; reflexivity | vm_compute; discriminate]. Qed.

(* with the parameters of the current tree none of these is accepted any more, and the quote survives.  EXTNAME / HDUNAME are the
   names fits_movnam_hdu compares, the primary HDU included, when the reader looks for KNOTSn / EXTENTS (finding
   C06:aux-key:EXTNAME-shadows-KNOTSn, repaired by making them reserved — exact match, so EXTNAMES is still accepted) *)
Lemma fixed_rejects_witnesses :
  accepts gen_params "END" "x" = false /\ accepts gen_params "HISTORY" "h" = false /\ accepts gen_params "CONTINUE" "c" = false /\
  accepts gen_params "" "b" = false /\ accepts gen_params "PCOUNT" "0" = false /\ accepts gen_params "GCOUNT" "1" = false /\
  accepts gen_params "EXTNAME" "KNOTS0" = false /\ accepts gen_params "HDUNAME" "EXTENTS" = false /\ accepts gen_params "EXTNAMES" "KNOTS0" = true /\
  accepts gen_params (repeat_char "K"%char 68) "1.5" = false /\ accepts gen_params (repeat_char "K"%char 67) "" = false /\
  accepts gen_params "HIERARCH ABC DEF" "v" = false /\ accepts gen_params " LEADING SPACE" "w" = false /\
  accepts gen_params "Q" (repeat_char quote 40) = false /\
  roundtrip gen_params harness_prelude [("AB", "it's")] = Some [("AB", "it's   ")].
Proof. repeat split; vm_compute; reflexivity. Qed.
