From Coq Require Import List String Ascii NArith ZArith Bool Arith Lia.
From PS Require Import AuxModel Generated_aux.
Import ListNotations.
Lemma translation_ok : gen_translation_ok = true. Proof. reflexivity. Qed.
