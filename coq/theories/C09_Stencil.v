(* C09_Stencil.v — what a row of the fit's finite-difference (penalty) matrix computes, for EVERY penalty order:
   glam.c's divided_diffs (FitModel.divided_diffs) builds, for penalty order p and row j, a stencil of p+1 numbers; applied to
   the coefficients c_j .. c_{j+p} it yields the p-th iterated divided difference
        D^0 c (j) = c_j,     D^p c (j) = (D^{p-1} c (j+1) - D^{p-1} c (j)) / delta_p(j),
        delta_p(j) = (t_{j+order+1} - t_{j+p}) / (order - p + 1)
   — the coefficient recursion of de Boor, PGS X.(15)/(16), for the p-th derivative of a spline of degree `order`
   (index shift i = j + p).  Over any field (Arith + OField laws); pure list algebra, no assumption on the knots. *)
From Coq Require Import ZArith List Bool Lia Field Ring.
From PS Require Import Arith OFieldKit FitModel.
Import ListNotations.

Section Stencil.
Context {A : Arith}.
Variable F : OField A.
Notation K := (T A).
Add Field KfieldStencil : (OFth F).

Lemma div_as_mul (a b : K) : div a b = mul a (inv b).
Proof. exact (Fdiv_def (OFth F) a b). Qed.

(* ---- list algebra ---- *)
Fixpoint zipw (f : K -> K -> K) (u w : list K) : list K :=
  match u, w with
  | a :: u', b :: w' => f a b :: zipw f u' w'
  | _, _ => []
  end.

Lemma zipw_length f : forall u w, length u = length w -> length (zipw f u w) = length u.
Proof. induction u as [|a u IH]; intros [|b w] H; cbn in *; try discriminate; [reflexivity|]. rewrite IH by lia. reflexivity. Qed.

Lemma nth_zipw f : forall u w i d, (i < length u)%nat -> (i < length w)%nat ->
  nth i (zipw f u w) d = f (nth i u d) (nth i w d).
Proof.
  induction u as [|a u IH]; intros [|b w] i d Hu Hw; cbn in *; try lia.
  destruct i as [|i]; [reflexivity|]. apply IH; lia.
Qed.

Lemma dot_nil_r : forall u : list K, dot u [] = zero.
Proof. destruct u; reflexivity. Qed.

Lemma dot_zipw_div (delta : K) : forall u w x, length u = length w ->
  dot (zipw (fun a b => div (sub a b) delta) u w) x = div (sub (dot u x) (dot w x)) delta.
Proof.
  induction u as [|a u IH]; intros [|b w] x H; cbn in H; try discriminate.
  - cbn. rewrite div_as_mul. ring.
  - destruct x as [|c x].
    + cbn. rewrite div_as_mul. ring.
    + cbn [zipw dot]. rewrite IH by lia. rewrite !div_as_mul. ring.
Qed.

Lemma dot_app : forall (u x u2 x2 : list K), length u = length x ->
  dot (u ++ u2) (x ++ x2) = add (dot u x) (dot u2 x2).
Proof.
  induction u as [|a u IH]; intros [|c x] u2 x2 H; cbn in H; try discriminate.
  - cbn. ring.
  - cbn [app dot]. rewrite IH by lia. ring.
Qed.

Lemma dot_vzero_l : forall n (x : list K), dot (vzero n) x = zero.
Proof.
  unfold vzero. induction n as [|n IH]; intros [|c x]; cbn; try reflexivity.
  rewrite IH. ring.
Qed.

(* ---- the stencil ---- *)
Variable kn : nat -> K.
Variable order : nat.

Definition delta (p j : nat) : K :=
  div (sub (kn (j + order + 1)%nat) (kn (j + p)%nat)) (ofZ (Z.of_nat order - (Z.of_nat p - 1))).

Lemma dd_length : forall p j, length (divided_diffs kn order p j) = S p.
Proof.
  induction p as [|p IH]; intro j; [reflexivity|].
  cbn [divided_diffs length]. rewrite app_length, map_length, seq_length. cbn. lia.
Qed.

(* one step of divided_diffs, as an entry-wise difference of the two shifted lower-order stencils *)
Lemma dd_step_zip : forall p j,
  divided_diffs kn order (S p) j =
  zipw (fun a b => div (sub a b) (delta (S p) j)) (zero :: divided_diffs kn order p (j + 1)) (divided_diffs kn order p j ++ [zero]).
Proof.
  intros p j.
  set (a := divided_diffs kn order p (j + 1)). set (b := divided_diffs kn order p j).
  assert (La : length a = S p) by apply dd_length. assert (Lb : length b = S p) by apply dd_length.
  apply (nth_ext _ _ zero zero).
  - rewrite zipw_length by (cbn; rewrite app_length; cbn; lia).
    rewrite dd_length. cbn. lia.
  - intros i Hi. rewrite dd_length in Hi.
    rewrite nth_zipw by (cbn; rewrite ?app_length; cbn; lia).
    cbn [divided_diffs]. fold a b. fold (delta (S p) j).
    replace (S p - 1)%nat with p by lia.
    destruct i as [|i].
    + cbn [nth]. rewrite app_nth1 by lia. rewrite !div_as_mul. ring.
    + cbn [nth]. destruct (Nat.lt_ge_cases i p) as [Hlt|Hge].
      * rewrite app_nth1 by (rewrite map_length, seq_length; lia).
        rewrite (nth_indep _ zero (div (sub (nth (0 - 1) a zero) (nth 0 b zero)) (delta (S p) j)))
          by (rewrite map_length, seq_length; lia).
        rewrite (map_nth (fun i0 => div (sub (nth (i0 - 1) a zero) (nth i0 b zero)) (delta (S p) j)) (seq 1 p) 0%nat i).
        rewrite seq_nth by lia. replace (1 + i - 1)%nat with i by lia. replace (1 + i)%nat with (S i) by lia.
        rewrite (app_nth1 b [zero]) by lia. reflexivity.
      * assert (i = p) by lia. subst i.
        rewrite app_nth2 by (rewrite map_length, seq_length; lia).
        rewrite map_length, seq_length, Nat.sub_diag. cbn [nth].
        rewrite (app_nth2 b [zero]) by lia. rewrite Lb, Nat.sub_diag. cbn [nth].
        rewrite !div_as_mul. ring.
Qed.

(* the p-th iterated divided difference of a coefficient sequence *)
Fixpoint dcoef (p : nat) (c : nat -> K) (j : nat) : K :=
  match p with
  | O => c j
  | S p' => div (sub (dcoef p' c (j + 1)) (dcoef p' c j)) (delta (S p') j)
  end.

Theorem stencil_is_iterated_difference : forall p (c : nat -> K) j,
  dot (divided_diffs kn order p j) (map c (seq j (S p))) = dcoef p c j.
Proof.
  induction p as [|p IH]; intros c j.
  - cbn. ring.
  - rewrite dd_step_zip.
    rewrite dot_zipw_div by (cbn; rewrite app_length, !dd_length; cbn; lia).
    cbn [dcoef]. f_equal. f_equal.
    + (* zero :: a against c_j :: c_{j+1} .. *)
      change (seq j (S (S p))) with (j :: seq (S j) (S p)). cbn [map dot].
      replace (S j) with (j + 1)%nat by lia. rewrite IH. ring.
    + rewrite (seq_S (S p) j). rewrite map_app.
      rewrite dot_app by (rewrite dd_length, map_length, seq_length; reflexivity).
      rewrite IH. cbn. ring.
Qed.

(* a whole row of calc_penalty's finite-difference matrix applied to a coefficient vector *)
Lemma dot_vzero_app : forall n (u x : list K), dot (vzero n ++ u) x = dot u (skipn n x).
Proof.
  unfold vzero. induction n as [|n IH]; intros u x; [reflexivity|].
  destruct x as [|c x]; cbn [repeat app dot skipn].
  - rewrite dot_nil_r. reflexivity.
  - rewrite IH. ring.
Qed.

Lemma dot_app_vzero_r : forall (u x : list K) n, dot (u ++ vzero n) x = dot u x.
Proof.
  induction u as [|a u IH]; intros x n.
  - cbn [app]. rewrite dot_vzero_l. destruct x; reflexivity.
  - destruct x as [|c x]; cbn [app dot]; [reflexivity|]. rewrite IH. reflexivity.
Qed.

Lemma skipn_map_seq (c : nat -> K) : forall r n, (r <= n)%nat -> skipn r (map c (seq 0 n)) = map c (seq r (n - r)).
Proof.
  intros r n H. rewrite skipn_map. f_equal.
  replace n with (r + (n - r))%nat at 1 by lia. rewrite seq_app, skipn_app, seq_length, Nat.sub_diag.
  rewrite skipn_all2 by (rewrite seq_length; lia). reflexivity.
Qed.

Lemma dot_prefix : forall (u : list K) (x y : list K), length u = length x -> dot u (x ++ y) = dot u x.
Proof.
  induction u as [|a u IH]; intros [|c x] y H; cbn in H; try discriminate; [destruct y; reflexivity|].
  cbn [app dot]. rewrite IH by lia. reflexivity.
Qed.

Lemma finitediff_row_expr : forall p nspl (c : nat -> K) row, (row + p < nspl)%nat ->
  dot (vzero row ++ divided_diffs kn order p row ++ vzero (nspl - row - p - 1)) (map c (seq 0 nspl)) = dcoef p c row.
Proof.
  intros p nspl c row H.
  rewrite dot_vzero_app, dot_app_vzero_r, skipn_map_seq by lia.
  replace (nspl - row)%nat with (S p + (nspl - row - S p))%nat by lia.
  rewrite seq_app, map_app, dot_prefix by (rewrite dd_length, map_length, seq_length; reflexivity).
  apply stencil_is_iterated_difference.
Qed.

Theorem finitediff_row_is_iterated_difference : forall p nspl (c : nat -> K) row, (row + p < nspl)%nat ->
  dot (nth row (finitediff kn order p nspl) []) (map c (seq 0 nspl)) = dcoef p c row.
Proof.
  intros p nspl c row H. unfold finitediff.
  rewrite (nth_indep _ [] ((fun r => vzero r ++ divided_diffs kn order p r ++ vzero (nspl - r - p - 1)) 0%nat))
    by (rewrite map_length, seq_length; lia).
  rewrite (map_nth (fun r => vzero r ++ divided_diffs kn order p r ++ vzero (nspl - r - p - 1)) (seq 0 (nspl - p)) 0%nat row).
  rewrite seq_nth by lia. cbn [Nat.add].
  apply finitediff_row_expr. exact H.
Qed.

End Stencil.
