(* C07_Object.v — property C07: the object-state wrapper (failed read leaves the object empty, trace balanced) and the refutation
   witnesses for the reader as the code was. *)
From Coq Require Import List NArith ZArith Bool Lia.
From PS Require Import Generated_fits FitsModel FitsWf C07_Checks Generated_readchecks C07_Model C07_Witness Resource C07_Proofs.
Import ListNotations.
Open Scope N_scope.

(* ---------------------------------------------------------------------------------------------- *)
(** * the object around the reader *)
Lemma balanced_alloc_free a : balanced (allocs a ++ frees (List.rev a)) = true.
Proof.
  unfold balanced, wf, live. rewrite wf_from_app, live_from_app, wf_from_allocs, live_from_allocs, live_from_frees.
  assert (E : sumN (List.rev a) = sumN a).
  { induction a as [|x a IH]; [reflexivity|]. cbn [List.rev]. rewrite sumN_app, IH. unfold sumN. cbn [fold_right]. lia. }
  rewrite wf_from_frees by (rewrite E; lia). rewrite E. cbn [andb]. apply N.eqb_eq. lia.
Qed.

(* with the cleanup guard: whatever the reader, a failed (or refused) read of ANY bytes leaves the object as it was — in particular
   empty if it was empty — and the allocation trace of the call is balanced *)
Theorem fail_is_empty reader s b s' tr :
  obj_empty s = true -> read_step reader s b = (s', Failed, tr) -> obj_empty s' = true /\ s' = s /\ balanced tr = true.
Proof.
  intros He H. unfold read_step in H. destruct (negb (o_ndim s =? 0)%nat); [discriminate|]. cbv zeta in H.
  destruct (reader b) as [t|e|c]; [discriminate| |].
  - generalize dependent (allocs_at_stop b (RReject e)). intros a H. injection H as <- <-.
    split; [exact He|split; [reflexivity|apply balanced_alloc_free]].
  - generalize dependent (allocs_at_stop b (RInvalid c)). intros a H. injection H as <- <-.
    split; [exact He|split; [reflexivity|apply balanced_alloc_free]].
Qed.

(* an accepted read into an empty object owns exactly what it allocated; a populated object refuses *)
Theorem read_step_loaded reader s b s' tr :
  obj_empty s = true -> read_step reader s b = (s', Loaded, tr) ->
  exists t, reader b = RAccept t /\ o_ndim s' = length (t_order t) /\ o_owned s' = table_allocs t /\ tr = allocs (table_allocs t).
Proof.
  intros He H. unfold read_step in H. destruct (negb (o_ndim s =? 0)%nat); [discriminate|]. cbv zeta in H.
  unfold obj_empty in He. apply andb_true_iff in He. destruct He as [_ Ho]. destruct (o_owned s) eqn:Eo; [|discriminate].
  destruct (reader b) as [t|e|c] eqn:R; [|discriminate|discriminate]. unfold allocs_at_stop in H.
  remember (table_allocs t) as a eqn:Ea. injection H as <- <-. exists t. subst a. cbn [o_ndim o_owned app]. repeat split; reflexivity.
Qed.

Theorem read_step_refuses reader s b : o_ndim s <> 0%nat -> read_step reader s b = (s, Refused, []).
Proof. intro H. unfold read_step. destruct (Nat.eqb_spec (o_ndim s) 0); [contradiction|reflexivity]. Qed.

(* ---------------------------------------------------------------------------------------------- *)
(** * the reader AS THE CODE WAS (no checks, no cleanup) violates the property: concrete witnesses *)
Definition accepts_unsafe (r : rres) : bool := match r with RAccept t => negb (safe_table t) | _ => false end.
Lemma accepts_unsafe_spec r : accepts_unsafe r = true -> exists t, r = RAccept t /\ safe_table t = false.
Proof. destruct r as [t| |]; cbn [accepts_unsafe]; try discriminate. intro H. exists t. split; [reflexivity|]. apply negb_true_iff. exact H. Qed.

Definition unchecked_accepts_unsafe (d : fitsdoc) : Prop :=
  exists t, read_bytes_unchecked (encode d) = RAccept t /\ safe_table t = false.

Lemma refuted_axes_short : unchecked_accepts_unsafe w_axes_short. Proof. apply accepts_unsafe_spec. vm_compute. reflexivity. Qed.
Lemma refuted_axes_long : unchecked_accepts_unsafe w_axes_long. Proof. apply accepts_unsafe_spec. vm_compute. reflexivity. Qed.
Lemma refuted_unsorted : unchecked_accepts_unsafe w_unsorted. Proof. apply accepts_unsafe_spec. vm_compute. reflexivity. Qed.
Lemma refuted_nan : unchecked_accepts_unsafe w_nan. Proof. apply accepts_unsafe_spec. vm_compute. reflexivity. Qed.
Lemma refuted_few_knots : unchecked_accepts_unsafe w_few_knots. Proof. apply accepts_unsafe_spec. vm_compute. reflexivity. Qed.
Lemma refuted_zero_axis : unchecked_accepts_unsafe w_zero_axis. Proof. apply accepts_unsafe_spec. vm_compute. reflexivity. Qed.
Lemma refuted_neg_order : exists t, read_bytes_unchecked (encode w_neg_order) = RAccept t /\ safe_table t = false /\ t_order t = [4294967295].
Proof.
  assert (H : match read_bytes_unchecked (encode w_neg_order) with RAccept t => negb (safe_table t) && str_eqb (t_order t) [4294967295] | _ => false end = true)
    by (vm_compute; reflexivity).
  destruct (read_bytes_unchecked (encode w_neg_order)) as [t| |]; try discriminate. exists t.
  apply andb_true_iff in H. destruct H as [H1 H2]. apply negb_true_iff in H1. apply C06_Proofs.str_eqb_eq in H2. auto.
Qed.

(* the same documents are rejected by the checked reader, each by the check that names its fault; the valid one is accepted *)
Lemma checked_on_witnesses :
  map (fun w => match read_bytes_checked (encode (snd w)) with RAccept _ => None | RReject _ => Some None | RInvalid c => Some (Some c) end) witnesses =
  [None; Some (Some (CkAxesMatch 1)); Some (Some (CkAxesMatch 1)); Some (Some CkKnotsSorted); Some (Some CkKnotsFinite);
   Some (Some (CkKnotsEnough 2 2)); Some (Some CkAxisPositive); Some (Some (CkKnotsEnough 2 2)); Some None].
Proof. vm_compute. reflexivity. Qed.

(* without the cleanup guard a failed read leaves a non-empty object and an unbalanced trace *)
Lemma refuted_failed_read_nonempty :
  exists b s' tr, read_step_asis read_bytes_unchecked empty_obj b = (s', Failed, tr) /\ obj_empty s' = false /\ o_ndim s' = 1%nat /\ balanced tr = false.
Proof.
  exists (encode w_primary_only).
  assert (H : (let '(s', o, tr) := read_step_asis read_bytes_unchecked empty_obj (encode w_primary_only) in
               (match o with Failed => true | _ => false end) && negb (obj_empty s') && (o_ndim s' =? 1)%nat && negb (balanced tr)) = true)
    by (vm_compute; reflexivity).
  destruct (read_step_asis read_bytes_unchecked empty_obj (encode w_primary_only)) as [[s' o] tr]. exists s', tr.
  repeat (apply andb_true_iff in H; destruct H as [H ?]).
  destruct o; try discriminate. repeat split; try reflexivity.
  - apply negb_true_iff. assumption.
  - apply Nat.eqb_eq. assumption.
  - apply negb_true_iff. assumption.
Qed.
