(* C09_X16.v — what the rows of the order-1 difference matrix of the fit's penalty mean (de Boor, PGS X.(16) for
   the first derivative): the first derivative of a spline  sum_i c_i B_{i,n}  is the spline of order n-1 with
   coefficients  n (c_{i} - c_{i-1}) / (t_{i+n} - t_i)  — Abel summation of de Boor's derivative formula (BSpline.dBfun).
   Over any ordered field, non-decreasing knots with the dropped-term convention; the boundary terms vanish in the fully
   supported range. For strictly increasing knots the coefficients are the entries of FitModel.finitediff with
   penalty order 1 applied to c, i.e. what glam.c's divided_diffs computes. *)
From Coq Require Import ZArith List Bool Lia Field Ring.
From PS Require Import Arith EvalModel BSpline OFieldKit C01_Basis C01_Proofs C02_Basis.
Import ListNotations.
Local Open Scope Z_scope.

Section X16.
Context {A : Arith}.
Variable F : OField A.
Notation K := (T A).
Add Field Kfield16 : (OFth F).
Notation le := (@OFieldKit.le A).
Notation lt := (@OFieldKit.lt A).

(* Abel summation over abstract terms w_i:  sum_{i<N} c_i (w_i - w_{i+1})
     = c_a w_a + sum_{j<N-1} (c_{j+1} - c_j) w_{j+1} - c_{a+N-1} w_{a+N} *)
Lemma abel (c w : Z -> K) : forall N a,
  sum_range (fun i => mul (c i) (sub (w i) (w (i + 1)))) a (S N) =
  sub (add (mul (c a) (w a)) (sum_range (fun j => mul (sub (c (j + 1)) (c j)) (w (j + 1))) a N))
      (mul (c (a + Z.of_nat N)) (w (a + Z.of_nat N + 1))).
Proof.
  induction N as [|N IH]; intro a.
  - cbn [sum_range]. replace (a + Z.of_nat 0) with a by lia. ring.
  - change (sum_range (fun i => mul (c i) (sub (w i) (w (i + 1)))) a (S (S N))) with
      (add (mul (c a) (sub (w a) (w (a + 1)))) (sum_range (fun i => mul (c i) (sub (w i) (w (i + 1)))) (a + 1) (S N))).
    rewrite (IH (a + 1)). cbn [sum_range].
    replace (a + 1 + Z.of_nat N) with (a + Z.of_nat (S N)) by lia. ring.
Qed.

Variable kn : Z -> K.
Variable nknots : Z.
Hypothesis Hmono : forall i j, 0 <= i -> i <= j -> j < nknots -> le (kn i) (kn j).
Variable side : bool.
Variable n1 : nat.                       (* the spline order is n = n1 + 1 >= 1 *)
Notation n := (S n1).
Variable c : Z -> K.
Variable x : K.

(* w_i = B_{i,n-1}(x) / (t_{i+n} - t_i), dropped when the difference vanishes *)
Definition wq (i : Z) : K := wdiv (Bfun kn side n1 i x) (sub (kn (i + Z.of_nat n)) (kn i)).
(* the coefficients of the derivative spline *)
Definition dcoef (j : Z) : K := mul (ofZ (Z.of_nat n)) (sub (c (j + 1)) (c j)).

Lemma dB1_is_w i : dBfun kn side 1 n i x = mul (ofZ (Z.of_nat n)) (sub (wq i) (wq (i + 1))).
Proof.
  cbn [dBfun]. unfold wq. rewrite (kn_idx kn (i + 1 + Z.of_nat n) (i + Z.of_nat n + 1)) by lia. reflexivity.
Qed.

Lemma scale1 : forall m a,
  sum_range (fun i => mul (c i) (dBfun kn side 1 n i x)) a m =
  mul (ofZ (Z.of_nat n)) (sum_range (fun i => mul (c i) (sub (wq i) (wq (i + 1)))) a m).
Proof. induction m as [|m IH]; intro a; cbn [sum_range]; [ring|]. rewrite IH, dB1_is_w. ring. Qed.
Lemma scale2 : forall m a,
  sum_range (fun j => mul (dcoef j) (wq (j + 1))) a m =
  mul (ofZ (Z.of_nat n)) (sum_range (fun j => mul (sub (c (j + 1)) (c j)) (wq (j + 1))) a m).
Proof. induction m as [|m IH]; intro a; cbn [sum_range]; [ring|]. rewrite IH. unfold dcoef. ring. Qed.

(* X.(16) with its boundary terms, for every x and every number M+1 of coefficients *)
Theorem deriv_sum_abel (M : nat) :
  sum_range (fun i => mul (c i) (dBfun kn side 1 n i x)) 0 (S M) =
  sub (add (mul (mul (ofZ (Z.of_nat n)) (c 0)) (wq 0))
           (sum_range (fun j => mul (dcoef j) (wq (j + 1))) 0 M))
      (mul (mul (ofZ (Z.of_nat n)) (c (Z.of_nat M))) (wq (Z.of_nat M + 1))).
Proof.
  rewrite scale1, scale2, abel. replace (0 + Z.of_nat M) with (Z.of_nat M) by lia. ring.
Qed.

Variable N : nat.                        (* number of coefficients: nknots = N + n + 1 *)
Hypothesis HN : nknots = Z.of_nat N + Z.of_nat n + 1.
Hypothesis HN1 : (1 <= N)%nat.

(* in the fully supported range the boundary terms vanish: the derivative is the spline of order n-1 on the same knots
   with coefficients dcoef_j / (t_{j+1+n} - t_{j+1}) attached to B_{j+1,n-1} *)
Variable l : Z.
Hypothesis Hl0 : Z.of_nat n <= l.
Hypothesis Hl1 : l <= Z.of_nat N - 1.
Hypothesis Hpiece : in_piece kn side l x.

Theorem deriv_sum_full_support :
  sum_range (fun i => mul (c i) (dBfun kn side 1 n i x)) 0 N =
  sum_range (fun j => mul (dcoef j) (wq (j + 1))) 0 (N - 1).
Proof.
  set (M := (N - 1)%nat). replace N with (S M) by (subst M; lia).
  rewrite deriv_sum_abel.
  assert (W0 : wq 0 = zero).
  { unfold wq. rewrite (Bfun_support F kn nknots Hmono side l x ltac:(lia) ltac:(lia) Hpiece n1 0) by lia.
    apply (wdiv_zero_num F). }
  assert (WN : wq (Z.of_nat M + 1) = zero).
  { unfold wq. rewrite (Bfun_support F kn nknots Hmono side l x ltac:(lia) ltac:(lia) Hpiece n1 (Z.of_nat M + 1)) by (subst M; lia).
    apply (wdiv_zero_num F). }
  rewrite W0, WN. replace (S M - 1)%nat with M by lia. ring.
Qed.

End X16.

(* ---------------------------------------------------------------------------------------------- *)
(* every derivative order: one step takes  sum_i c_i D^{k+1} B_{i,n}  to  sum_i c'_i D^k B_{i,n-1}  with
   c'_i = n (c_i - c_{i-1}) / (t_{i+n} - t_i)  (dropped when the knot difference vanishes); iterating it, the k-th derivative
   formula (BSpline.dBfun kn side k n, the analytic k-th derivative by C02) of a spline of degree n with coefficients c is the
   spline of degree n-k whose coefficients are the k-th iterated divided differences of c — de Boor, PGS X.(15)/(16) *)
Section X16k.
Context {A : Arith}.
Variable F : OField A.
Notation K := (T A).
Add Field Kfield16k : (OFth F).
Notation le := (@OFieldKit.le A).

Variable kn : Z -> K.
Variable nknots : Z.
Hypothesis Hmono : forall i j, 0 <= i -> i <= j -> j < nknots -> le (kn i) (kn j).
Variable side : bool.
Variable x : K.
Variable l : Z.
Hypothesis Hl0 : 0 <= l.
Hypothesis Hl1 : l + 1 < nknots.
Hypothesis Hpiece : in_piece kn side l x.

Lemma wdiv_mul_swap (a X D : K) : mul a (wdiv X D) = mul (wdiv a D) X.
Proof.
  destruct (eqbK D zero) eqn:E.
  - apply eqbK_true in E; [|exact F]. rewrite !(wdiv_z F) by exact E. ring.
  - assert (D <> zero) as Hn by (intro Hz; rewrite (proj2 (eqbK_true F D zero) Hz) in E; discriminate).
    rewrite !(wdiv_nz F) by exact Hn. field. exact Hn.
Qed.

(* coefficients after one differentiation step, attached to B_{i,n-1} *)
Definition cstep (n : nat) (c : Z -> K) (i : Z) : K :=
  wdiv (mul (ofZ (Z.of_nat n)) (sub (c i) (c (i - 1)))) (sub (kn (i + Z.of_nat n)) (kn i)).

Section Step.
Variable n1 : nat.
Notation n := (S n1).
Variable k : nat.
Variable c : Z -> K.

Definition wqk (i : Z) : K := wdiv (dBfun kn side k n1 i x) (sub (kn (i + Z.of_nat n)) (kn i)).

Lemma dBk_is_w i : dBfun kn side (S k) n i x = mul (ofZ (Z.of_nat n)) (sub (wqk i) (wqk (i + 1))).
Proof.
  cbn [dBfun]. unfold wqk. rewrite (kn_idx kn (i + 1 + Z.of_nat n) (i + Z.of_nat n + 1)) by lia. reflexivity.
Qed.

Lemma scale1k : forall m a,
  sum_range (fun i => mul (c i) (dBfun kn side (S k) n i x)) a m =
  mul (ofZ (Z.of_nat n)) (sum_range (fun i => mul (c i) (sub (wqk i) (wqk (i + 1)))) a m).
Proof. induction m as [|m IH]; intro a; cbn [sum_range]; [ring|]. rewrite IH, dBk_is_w. ring. Qed.

Lemma scale2k : forall m a,
  sum_range (fun i => mul (cstep n c i) (dBfun kn side k n1 i x)) (a + 1) m =
  mul (ofZ (Z.of_nat n)) (sum_range (fun j => mul (sub (c (j + 1)) (c j)) (wqk (j + 1))) a m).
Proof.
  induction m as [|m IH]; intro a; cbn [sum_range]; [ring|]. rewrite IH. unfold cstep, wqk.
  replace (a + 1 - 1) with a by lia.
  rewrite <- (wdiv_mul_swap (mul (ofZ (Z.of_nat n)) (sub (c (a + 1)) (c a)))). ring.
Qed.

(* one differentiation step over the coefficients a .. a+M, in the range where both end terms vanish *)
Lemma deriv_step (a : Z) (M : nat) : 0 <= a -> a + Z.of_nat M + Z.of_nat n + 1 < nknots ->
  a + Z.of_nat n <= l -> l <= a + Z.of_nat M ->
  sum_range (fun i => mul (c i) (dBfun kn side (S k) n i x)) a (S M) =
  sum_range (fun i => mul (cstep n c i) (dBfun kn side k n1 i x)) (a + 1) M.
Proof.
  intros Ha Hk Hlo Hhi.
  rewrite scale1k, scale2k, (abel F c wqk M a).
  assert (W0 : wqk a = zero).
  { unfold wqk. rewrite (dBk_support F kn nknots Hmono side l x Hl0 Hl1 Hpiece k n1 a) by lia. apply (wdiv_zero_num F). }
  assert (WN : wqk (a + Z.of_nat M + 1) = zero).
  { unfold wqk. rewrite (dBk_support F kn nknots Hmono side l x Hl0 Hl1 Hpiece k n1 (a + Z.of_nat M + 1)) by lia. apply (wdiv_zero_num F). }
  rewrite W0, WN. ring.
Qed.
End Step.

(* the coefficients after k steps: degree n goes down to n-k, the first coefficient index goes up by one per step *)
Fixpoint citer (k n : nat) (c : Z -> K) : Z -> K :=
  match k with
  | O => c
  | S k' => citer k' (n - 1) (cstep n c)
  end.

(* the same coefficients, last step outermost *)
Lemma citer_snoc : forall k n c, citer (S k) n c = cstep (n - k) (citer k n c).
Proof.
  induction k as [|k IH]; intros n c.
  - cbn [citer]. rewrite Nat.sub_0_r. reflexivity.
  - change (citer (S (S k)) n c) with (citer (S k) (n - 1) (cstep n c)).
    rewrite IH. cbn [citer]. replace (n - 1 - k)%nat with (n - S k)%nat by lia. reflexivity.
Qed.

Theorem deriv_k_is_difference_spline : forall (k n : nat) (c : Z -> K) (a : Z) (M : nat),
  (k <= n)%nat -> (k <= M)%nat -> 0 <= a -> a + Z.of_nat M + Z.of_nat n + 1 < nknots ->
  a + Z.of_nat n <= l -> l <= a + Z.of_nat M ->
  sum_range (fun i => mul (c i) (dBfun kn side k n i x)) a (S M) =
  sum_range (fun i => mul (citer k n c i) (Bfun kn side (n - k) i x)) (a + Z.of_nat k) (S M - k).
Proof.
  induction k as [|k IH]; intros n c a M Hkn HkM Ha Hk Hlo Hhi.
  - cbn [citer dBfun]. rewrite Nat.sub_0_r, Z.add_0_r. reflexivity.
  - destruct n as [|n1]; [lia|]. destruct M as [|M']; [lia|].
    rewrite (deriv_step n1 k c a (S M') Ha Hk Hlo Hhi).
    cbn [citer]. replace (S n1 - 1)%nat with n1 by lia.
    rewrite (IH n1 (cstep (S n1) c) (a + 1) M') by lia.
    replace (a + 1 + Z.of_nat k) with (a + Z.of_nat (S k)) by lia.
    replace (S n1 - S k)%nat with (n1 - k)%nat by lia.
    replace (S (S M') - S k)%nat with (S M' - k)%nat by lia. reflexivity.
Qed.

End X16k.

(* ---------------------------------------------------------------------------------------------- *)
(* the order-1 stencil of glam.c's divided_diffs (FitModel.divided_diffs) is that coefficient map *)
From PS Require Import FitModel.
Section Stencil.
Context {A : Arith}.
Variable F : OField A.
Notation K := (T A).
Add Field Kfield17s : (OFth F).
Variable knat : nat -> K.                (* FitModel indexes knots by nat *)
Variable order : nat.
Variable j : nat.

Definition delta1 : K := div (sub (knat (j + order + 1)%nat) (knat (j + 1)%nat)) (ofZ (Z.of_nat order - (Z.of_nat 1 - 1))).

Lemma divided_diffs_order1 : divided_diffs knat order 1 j = [div (opp one) delta1; div one delta1].
Proof. reflexivity. Qed.

(* applied to two neighbouring coefficients: (c_{j+1} - c_j) / delta, i.e. order (c_{j+1} - c_j) / (t_{j+order+1} - t_{j+1}) *)
Lemma stencil1_apply (c0 c1 : K) : sub (knat (j + order + 1)%nat) (knat (j + 1)%nat) <> zero -> ofZ (Z.of_nat order) <> @zero A ->
  add (mul (div (opp one) delta1) c0) (mul (div one delta1) c1) =
  div (mul (ofZ (Z.of_nat order)) (sub c1 c0)) (sub (knat (j + order + 1)%nat) (knat (j + 1)%nat)).
Proof.
  intros Hd Ho. unfold delta1. replace (Z.of_nat order - (Z.of_nat 1 - 1)) with (Z.of_nat order) by lia.
  field. split; assumption.
Qed.
End Stencil.
