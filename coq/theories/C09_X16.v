(* C09_X16.v — what the rows of the order-1 difference matrix of the fit's penalty mean (de Boor, PGS X.(16) for
   the first derivative): the first derivative of a spline  sum_i c_i B_{i,n}  is the spline of order n-1 with
   coefficients  n (c_{i} - c_{i-1}) / (t_{i+n} - t_i)  — Abel summation of de Boor's derivative formula (BSpline.dBfun).
   Over any ordered field, non-decreasing knots with the dropped-term convention; the boundary terms vanish in the fully
   supported range. For strictly increasing knots the coefficients are the entries of FitModel.finitediff with
   penalty order 1 applied to c, i.e. what glam.c's divided_diffs computes. *)
From Coq Require Import ZArith List Bool Lia Field Ring.
From PS Require Import Arith EvalModel BSpline OFieldKit C01_Basis C01_Proofs C02_Basis.
Import ListNotations.
Local Open Scope Z_scope.

Section X16.
Context {A : Arith}.
Variable F : OField A.
Notation K := (T A).
Add Field Kfield16 : (OFth F).
Notation le := (@OFieldKit.le A).
Notation lt := (@OFieldKit.lt A).

(* Abel summation over abstract terms w_i:  sum_{i<N} c_i (w_i - w_{i+1})
     = c_a w_a + sum_{j<N-1} (c_{j+1} - c_j) w_{j+1} - c_{a+N-1} w_{a+N} *)
Lemma abel (c w : Z -> K) : forall N a,
  sum_range (fun i => mul (c i) (sub (w i) (w (i + 1)))) a (S N) =
  sub (add (mul (c a) (w a)) (sum_range (fun j => mul (sub (c (j + 1)) (c j)) (w (j + 1))) a N))
      (mul (c (a + Z.of_nat N)) (w (a + Z.of_nat N + 1))).
Proof.
  induction N as [|N IH]; intro a.
  - cbn [sum_range]. replace (a + Z.of_nat 0) with a by lia. ring.
  - change (sum_range (fun i => mul (c i) (sub (w i) (w (i + 1)))) a (S (S N))) with
      (add (mul (c a) (sub (w a) (w (a + 1)))) (sum_range (fun i => mul (c i) (sub (w i) (w (i + 1)))) (a + 1) (S N))).
    rewrite (IH (a + 1)). cbn [sum_range].
    replace (a + 1 + Z.of_nat N) with (a + Z.of_nat (S N)) by lia. ring.
Qed.

Variable kn : Z -> K.
Variable nknots : Z.
Hypothesis Hmono : forall i j, 0 <= i -> i <= j -> j < nknots -> le (kn i) (kn j).
Variable side : bool.
Variable n1 : nat.                       (* the spline order is n = n1 + 1 >= 1 *)
Notation n := (S n1).
Variable c : Z -> K.
Variable x : K.

(* w_i = B_{i,n-1}(x) / (t_{i+n} - t_i), dropped when the difference vanishes *)
Definition wq (i : Z) : K := wdiv (Bfun kn side n1 i x) (sub (kn (i + Z.of_nat n)) (kn i)).
(* the coefficients of the derivative spline *)
Definition dcoef (j : Z) : K := mul (ofZ (Z.of_nat n)) (sub (c (j + 1)) (c j)).

Lemma dB1_is_w i : dBfun kn side 1 n i x = mul (ofZ (Z.of_nat n)) (sub (wq i) (wq (i + 1))).
Proof.
  cbn [dBfun]. unfold wq. rewrite (kn_idx kn (i + 1 + Z.of_nat n) (i + Z.of_nat n + 1)) by lia. reflexivity.
Qed.

Lemma scale1 : forall m a,
  sum_range (fun i => mul (c i) (dBfun kn side 1 n i x)) a m =
  mul (ofZ (Z.of_nat n)) (sum_range (fun i => mul (c i) (sub (wq i) (wq (i + 1)))) a m).
Proof. induction m as [|m IH]; intro a; cbn [sum_range]; [ring|]. rewrite IH, dB1_is_w. ring. Qed.
Lemma scale2 : forall m a,
  sum_range (fun j => mul (dcoef j) (wq (j + 1))) a m =
  mul (ofZ (Z.of_nat n)) (sum_range (fun j => mul (sub (c (j + 1)) (c j)) (wq (j + 1))) a m).
Proof. induction m as [|m IH]; intro a; cbn [sum_range]; [ring|]. rewrite IH. unfold dcoef. ring. Qed.

(* X.(16) with its boundary terms, for every x and every number M+1 of coefficients *)
Theorem deriv_sum_abel (M : nat) :
  sum_range (fun i => mul (c i) (dBfun kn side 1 n i x)) 0 (S M) =
  sub (add (mul (mul (ofZ (Z.of_nat n)) (c 0)) (wq 0))
           (sum_range (fun j => mul (dcoef j) (wq (j + 1))) 0 M))
      (mul (mul (ofZ (Z.of_nat n)) (c (Z.of_nat M))) (wq (Z.of_nat M + 1))).
Proof.
  rewrite scale1, scale2, abel. replace (0 + Z.of_nat M) with (Z.of_nat M) by lia. ring.
Qed.

Variable N : nat.                        (* number of coefficients: nknots = N + n + 1 *)
Hypothesis HN : nknots = Z.of_nat N + Z.of_nat n + 1.
Hypothesis HN1 : (1 <= N)%nat.

(* in the fully supported range the boundary terms vanish: the derivative is the spline of order n-1 on the same knots
   with coefficients dcoef_j / (t_{j+1+n} - t_{j+1}) attached to B_{j+1,n-1} *)
Variable l : Z.
Hypothesis Hl0 : Z.of_nat n <= l.
Hypothesis Hl1 : l <= Z.of_nat N - 1.
Hypothesis Hpiece : in_piece kn side l x.

Theorem deriv_sum_full_support :
  sum_range (fun i => mul (c i) (dBfun kn side 1 n i x)) 0 N =
  sum_range (fun j => mul (dcoef j) (wq (j + 1))) 0 (N - 1).
Proof.
  set (M := (N - 1)%nat). replace N with (S M) by (subst M; lia).
  rewrite deriv_sum_abel.
  assert (W0 : wq 0 = zero).
  { unfold wq. rewrite (Bfun_support F kn nknots Hmono side l x ltac:(lia) ltac:(lia) Hpiece n1 0) by lia.
    apply (wdiv_zero_num F). }
  assert (WN : wq (Z.of_nat M + 1) = zero).
  { unfold wq. rewrite (Bfun_support F kn nknots Hmono side l x ltac:(lia) ltac:(lia) Hpiece n1 (Z.of_nat M + 1)) by (subst M; lia).
    apply (wdiv_zero_num F). }
  rewrite W0, WN. replace (S M - 1)%nat with M by lia. ring.
Qed.

End X16.

(* ---------------------------------------------------------------------------------------------- *)
(* the order-1 stencil of glam.c's divided_diffs (FitModel.divided_diffs) is that coefficient map *)
From PS Require Import FitModel.
Section Stencil.
Context {A : Arith}.
Variable F : OField A.
Notation K := (T A).
Add Field Kfield17s : (OFth F).
Variable knat : nat -> K.                (* FitModel indexes knots by nat *)
Variable order : nat.
Variable j : nat.

Definition delta1 : K := div (sub (knat (j + order + 1)%nat) (knat (j + 1)%nat)) (ofZ (Z.of_nat order - (Z.of_nat 1 - 1))).

Lemma divided_diffs_order1 : divided_diffs knat order 1 j = [div (opp one) delta1; div one delta1].
Proof. reflexivity. Qed.

(* applied to two neighbouring coefficients: (c_{j+1} - c_j) / delta, i.e. order (c_{j+1} - c_j) / (t_{j+order+1} - t_{j+1}) *)
Lemma stencil1_apply (c0 c1 : K) : sub (knat (j + order + 1)%nat) (knat (j + 1)%nat) <> zero -> ofZ (Z.of_nat order) <> @zero A ->
  add (mul (div (opp one) delta1) c0) (mul (div one delta1) c1) =
  div (mul (ofZ (Z.of_nat order)) (sub c1 c0)) (sub (knat (j + order + 1)%nat) (knat (j + 1)%nat)).
Proof.
  intros Hd Ho. unfold delta1. replace (Z.of_nat order - (Z.of_nat 1 - 1)) with (Z.of_nat order) by lia.
  field. split; assumption.
Qed.
End Stencil.
