(* C07_Proofs.v — proofs for property C07 (statements re-exported in Properties_C07.v). *)
From Coq Require Import List NArith ZArith Bool Lia Sorting.Sorted RelationClasses.
From PS Require Import Generated_fits FitsModel FitsWf C06_L1 C07_Checks Generated_readchecks C07_Model C07_Witness Resource.
Import ListNotations.
Open Scope N_scope.

(* ---------------------------------------------------------------------------------------------- *)
(** * binary64 bit patterns: the comparison is a total preorder on non-NaN patterns *)
Lemma d64_finite_not_nan w : d64_finite w = true -> d64_nan w = false.
Proof.
  unfold d64_finite, d64_nan. intro H. apply andb_true_iff in H. destruct H as [H1 H2].
  apply N.ltb_lt in H1, H2. apply orb_false_iff. split; [apply N.leb_gt; exact H1|apply N.ltb_ge; lia].
Qed.

Lemma d64_leb_refl a : d64_nan a = false -> d64_leb a a = true.
Proof. intro H. unfold d64_leb. rewrite H. cbn. apply Z.leb_refl. Qed.

Lemma d64_leb_trans a b c : d64_leb a b = true -> d64_leb b c = true -> d64_leb a c = true.
Proof.
  unfold d64_leb. intros H1 H2.
  apply andb_true_iff in H1. destruct H1 as [H1 K1]. apply andb_true_iff in H1. destruct H1 as [Na Nb].
  apply andb_true_iff in H2. destruct H2 as [H2 K2]. apply andb_true_iff in H2. destruct H2 as [_ Nc].
  rewrite Na, Nc. cbn. apply Z.leb_le in K1, K2. apply Z.leb_le. lia.
Qed.

Lemma d64_leb_total a b : d64_nan a = false -> d64_nan b = false -> d64_leb a b = true \/ d64_leb b a = true.
Proof.
  intros Ha Hb. unfold d64_leb. rewrite Ha, Hb. cbn.
  destruct (Z.leb_spec (d64_key a) (d64_key b)); [left; reflexivity|right; apply Z.leb_le; lia].
Qed.

Lemma d64_ltb_leb a b : d64_nan a = false -> d64_nan b = false -> d64_ltb a b = negb (d64_leb b a).
Proof.
  intros Ha Hb. unfold d64_ltb, d64_leb. rewrite Ha, Hb. cbn.
  destruct (Z.ltb_spec (d64_key a) (d64_key b)), (Z.leb_spec (d64_key b) (d64_key a)); try reflexivity; lia.
Qed.

Lemma d64_nan_unordered a : d64_nan a = true -> forall y, d64_ltb a y = false /\ d64_ltb y a = false /\ d64_leb a y = false /\ d64_leb y a = false.
Proof. intros H y. unfold d64_ltb, d64_leb. rewrite H. cbn. rewrite !andb_false_r. auto. Qed.

(* ---------------------------------------------------------------------------------------------- *)
(** * finite + no descent = non-decreasing *)
Lemma no_descent_nondecreasing k : forallb d64_finite k = true -> no_descent k = true -> nondecreasing k = true.
Proof.
  induction k as [|a r IH]; [reflexivity|]. intros Hf Hd.
  destruct r as [|b r']; [reflexivity|].
  cbn [forallb] in Hf. apply andb_true_iff in Hf. destruct Hf as [Fa Fr].
  assert (Fb : d64_finite b = true) by (cbn [forallb] in Fr; apply andb_true_iff in Fr; tauto).
  cbn [no_descent] in Hd. apply andb_true_iff in Hd. destruct Hd as [Hd Hr].
  cbn [nondecreasing]. apply andb_true_iff. split; [|apply IH; assumption].
  apply d64_finite_not_nan in Fa, Fb. rewrite (d64_ltb_leb b a Fb Fa), negb_involutive in Hd. exact Hd.
Qed.

(* ---------------------------------------------------------------------------------------------- *)
(** * shape of an accepted table (what of_doc establishes without any check) *)
Lemma traverse_Forall2 {A B} (f : A -> fres B) : forall l r, traverse f l = Ok r -> Forall2 (fun a b => f a = Ok b) l r.
Proof.
  induction l as [|a l IH]; intros r H; cbn [traverse] in H.
  - injection H as <-. constructor.
  - destruct (f a) as [b|e] eqn:Fa; cbn [bind] in H; [|discriminate].
    destruct (traverse f l) as [bs|e] eqn:Tl; cbn [bind] in H; [|discriminate].
    injection H as <-. constructor; [exact Fa|apply IH; reflexivity].
Qed.

Lemma traverse_length {A B} (f : A -> fres B) l r : traverse f l = Ok r -> length r = length l.
Proof. intro H. apply traverse_Forall2 in H. induction H; cbn [length]; congruence. Qed.

Lemma read_orders_length nd cs os : read_orders nd cs = Ok os -> length os = nd.
Proof.
  unfold read_orders. intro H.
  assert (T : forall g, traverse g (map N.of_nat (seq 0 nd)) = Ok os -> length os = nd).
  { intros g Hg. apply traverse_length in Hg. rewrite Hg, map_length, seq_length. reflexivity. }
  destruct (key_int s_ORDER cs) as [z|]; [|eapply T; eauto].
  destruct ((- two31 <=? z)%Z && (z <? two31)%Z); [|eapply T; eauto].
  injection H as <-. apply repeat_length.
Qed.

Lemma read_knots_ok d i k : read_knots d i = Ok k ->
  exists h, find_hdu (keyn s_KNOTS i) d = Some h /\ first_axis h = Some (N.of_nat (length k)) /\ k = firstn (length k) (h_data h).
Proof.
  unfold read_knots. intro H. destruct (find_hdu (keyn s_KNOTS i) d) as [h|]; [|discriminate].
  destruct (first_axis h) as [n|] eqn:Fa; [|discriminate].
  destruct (n =? 0); [discriminate|]. destruct (negb (hdu_bitpix h =? -64)%Z); [discriminate|].
  destruct (Nat.ltb_spec (length (h_data h)) (N.to_nat n)) as [L|L]; [discriminate|].
  injection H as <-. rewrite firstn_length_le by lia. exists h. rewrite N2Nat.id. auto.
Qed.

Lemma default_extents_length os ks : length os = length ks -> length (default_extents os ks) = (2 * length os)%nat.
Proof.
  revert ks. induction os as [|o os IH]; intros [|k ks] H; try discriminate; [reflexivity|].
  cbn [default_extents length]. rewrite IH by (cbn in H; lia). lia.
Qed.

Lemma read_extents_length d nd os ks e : length os = nd -> length ks = nd -> read_extents d nd os ks = Ok e -> length e = (2 * nd)%nat.
Proof.
  intros Lo Lk. unfold read_extents. assert (D : length (default_extents os ks) = (2 * nd)%nat) by (rewrite default_extents_length; lia).
  intro H. destruct (find_hdu s_EXTENTS d) as [h|]; [|injection H as <-; exact D].
  destruct (first_axis h) as [n|]; [|injection H as <-; exact D].
  destruct (N.eqb_spec n (N.of_nat (2 * nd))) as [E|E]; cbn [negb] in H; [|injection H as <-; exact D].
  destruct (negb (hdu_bitpix h =? -64)%Z); [discriminate|].
  destruct (Nat.ltb_spec (length (h_data h)) (N.to_nat n)) as [L|L]; [discriminate|].
  injection H as <-. rewrite firstn_length_le by lia. subst n. rewrite Nat2N.id. reflexivity.
Qed.

Definition accepted_shape (d : fitsdoc) (t : table) : Prop :=
  exists h0 rest ly,
    d = h0 :: rest /\
    hdu_layout (h_cards h0) = Ok ly /\
    (1 <= length (l_axes ly))%nat /\
    read_orders (length (l_axes ly)) (h_cards h0) = Ok (t_order t) /\
    t_naxes t = List.rev (l_axes ly) /\
    t_strides t = read_strides (l_axes ly) /\
    length (t_coeffs t) = N.to_nat (prodN (l_axes ly)) /\
    traverse (read_knots d) (map N.of_nat (seq 0 (length (l_axes ly)))) = Ok (t_knots t) /\
    exists e, t_extents t = Some e /\ length e = (2 * length (l_axes ly))%nat.

Lemma rev_nonempty {A} (l : list A) : l <> [] -> List.rev l <> [].
Proof. intros H E. apply H. rewrite <- (rev_involutive l), E. reflexivity. Qed.

Lemma hd_strides_prod axes : axes <> [] -> hd 0 (read_strides axes) * hd 0 (List.rev axes) = prodN axes.
Proof.
  intro Hne. pose proof (rev_nonempty axes Hne) as Hnx.
  rewrite <- (prodN_rev axes). rewrite <- (rev_involutive axes) at 1. rewrite read_strides_rev by exact Hnx.
  destruct (List.rev axes) as [|a r]; [congruence|]. cbn [strides_of hd]. unfold prodN. cbn [fold_right]. lia.
Qed.

Lemma of_doc_shape d t : of_doc d = Ok t -> accepted_shape d t.
Proof.
  unfold of_doc. intro H. destruct d as [|h0 rest]; [discriminate|].
  destruct (hdu_layout (h_cards h0)) as [ly|e] eqn:Ly; cbn [bind] in H; [|discriminate].
  assert (Main : (let axes := l_axes ly in let ndim := length axes in
            if (ndim <? 1)%nat then Error EBadDim else
            let aux := aux_of_cards (h_cards h0) in
            do orders <- read_orders ndim (h_cards h0);
            let periods := read_periods ndim (h_cards h0) in
            let naxes := List.rev axes in
            let strides := read_strides axes in
            let ncoeffs := hd 0 strides * hd 0 naxes in
            if negb (l_bitpix ly =? -32)%Z then Error EUnsupported else
            if (length (h_data h0) <? N.to_nat ncoeffs)%nat then Error ECoeffRead else
            do knots <- traverse (read_knots (h0 :: rest)) (map N.of_nat (seq 0 ndim));
            do extents <- read_extents (h0 :: rest) ndim orders knots;
            Ok {| t_order := orders; t_knots := knots; t_naxes := naxes; t_strides := strides;
                  t_coeffs := firstn (N.to_nat ncoeffs) (h_data h0); t_extents := Some extents;
                  t_periods := Some periods; t_aux := aux |}) = Ok t -> accepted_shape (h0 :: rest) t).
  { clear H. cbv zeta. intro H.
    destruct (Nat.ltb_spec (length (l_axes ly)) 1) as [L|L]; [discriminate|].
    destruct (read_orders (length (l_axes ly)) (h_cards h0)) as [os|e] eqn:Ro; cbn [bind] in H; [|discriminate].
    destruct (negb (l_bitpix ly =? -32)%Z); [discriminate|].
    destruct (Nat.ltb_spec (length (h_data h0)) (N.to_nat (hd 0 (read_strides (l_axes ly)) * hd 0 (List.rev (l_axes ly))))) as [Lc|Lc]; [discriminate|].
    destruct (traverse (read_knots (h0 :: rest)) (map N.of_nat (seq 0 (length (l_axes ly))))) as [ks|e] eqn:Tk; cbn [bind] in H; [|discriminate].
    destruct (read_extents (h0 :: rest) (length (l_axes ly)) os ks) as [ex|e] eqn:Re; cbn [bind] in H; [|discriminate].
    injection H as <-.
    assert (Hne : l_axes ly <> []) by (destruct (l_axes ly); [cbn in L; lia|discriminate]).
    exists h0, rest, ly. cbn [t_order t_knots t_naxes t_strides t_coeffs t_extents].
    split; [reflexivity|]. split; [exact Ly|]. split; [exact L|]. split; [exact Ro|]. split; [reflexivity|]. split; [reflexivity|].
    split; [rewrite firstn_length_le by exact Lc; rewrite hd_strides_prod by exact Hne; reflexivity|]. split; [exact Tk|].
    exists ex. split; [reflexivity|]. eapply read_extents_length; [eapply read_orders_length; eauto| |exact Re].
    apply traverse_length in Tk. rewrite Tk, map_length, seq_length. reflexivity. }
  destruct (l_kind ly); [apply Main; exact H|apply Main; exact H|discriminate].
Qed.

(* ---------------------------------------------------------------------------------------------- *)
(** * the checks give the property's well-formedness *)
Lemma rcheck_eqb_eq a b : rcheck_eqb a b = true -> a = b.
Proof.
  destruct a, b; cbn [rcheck_eqb]; try discriminate; intro H; try reflexivity.
  - apply andb_true_iff in H. destruct H as [H1 H2]. apply N.eqb_eq in H1, H2. subst. reflexivity.
  - apply N.eqb_eq in H. subst. reflexivity.
Qed.

Lemma first_failing_none t cs : first_failing t cs = None -> forall c, In c cs -> check_holds t c = true.
Proof.
  induction cs as [|c0 cs IH]; intros H c Hin; [destruct Hin|].
  cbn [first_failing] in H. destruct (check_holds t c0) eqn:E; [|discriminate].
  destruct Hin as [<-|Hin]; [exact E|apply IH; assumption].
Qed.

Lemma has_required_in cs c : has_required cs = true -> In c required_checks -> In c cs.
Proof.
  unfold has_required. intros H Hin. rewrite forallb_forall in H. specialize (H c Hin).
  apply existsb_exists in H. destruct H as [c' [Hc' E]]. apply rcheck_eqb_eq in E. subst. exact Hc'.
Qed.

Lemma str_eqb_same a : str_eqb a a = true.
Proof. induction a as [|x a IH]; [reflexivity|]. cbn [str_eqb]. rewrite N.eqb_refl. exact IH. Qed.

Lemma safe_dim_of_checks x :
  check_dim (CkKnotsEnough 2 2) x = true -> check_dim (CkAxesMatch 1) x = true ->
  check_dim CkKnotsFinite x = true -> check_dim CkKnotsSorted x = true -> safe_dim x = true.
Proof.
  destruct x as [[o a] k]. cbn [check_dim safe_dim]. intros H1 H2 H3 H4.
  apply negb_true_iff, N.ltb_ge in H1. apply andb_true_iff in H2. destruct H2 as [H2 H2'].
  apply N.ltb_lt in H2. apply Z.eqb_eq in H2'. unfold two63 in H2.
  rewrite Z.mod_small in H2' by (unfold two64z; lia).
  rewrite H3, (no_descent_nondecreasing k H3 H4), !andb_true_r.
  apply andb_true_iff. split; [apply N.eqb_eq|apply N.leb_le]; lia.
Qed.

Lemma in_dims3_lengths {A B C} (l1 : list A) (l2 : list B) (l3 : list C) x : In x (combine (combine l1 l2) l3) -> True.
Proof. trivial. Qed.

Theorem checked_accept cs d t :
  has_required cs = true -> checked_with cs d = RAccept t -> safe_table t = true /\ accepted_shape d t.
Proof.
  intros Hreq H. unfold checked_with in H.
  destruct (negb (orders_plain d)); [discriminate|].
  destruct (negb (vectors_1d d)); [discriminate|].
  destruct (of_doc d) as [t'|e] eqn:Od; [|discriminate].
  destruct (first_failing t' cs) as [c|] eqn:Ff; [discriminate|]. injection H as ->.
  pose proof (of_doc_shape d t Od) as Sh. split; [|exact Sh].
  destruct Sh as [h0 [rest [ly [Ed [Ly [L [Ro [Na [St [Co [Tk [ex [Ex Lex]]]]]]]]]]]]].
  assert (Hne : l_axes ly <> []) by (destruct (l_axes ly); [cbn in L; lia|discriminate]).
  pose proof (read_orders_length _ _ _ Ro) as Lo.
  pose proof (traverse_length _ _ _ Tk) as Lk. rewrite map_length, seq_length in Lk.
  assert (Es : strides_of (List.rev (l_axes ly)) = read_strides (l_axes ly)).
  { rewrite <- (read_strides_rev (List.rev (l_axes ly))) by (apply rev_nonempty; exact Hne). rewrite rev_involutive. reflexivity. }
  unfold safe_table. rewrite Lo, Lk, Na, rev_length, St, Co, Ex, Lex, Es.
  rewrite str_eqb_same, prodN_rev, !Nat.eqb_refl.
  replace (1 <=? length (l_axes ly))%nat with true by (symmetry; apply Nat.leb_le; exact L).
  cbn [andb]. rewrite andb_true_r.
  apply forallb_forall. intros x Hx.
  pose proof (first_failing_none t cs Ff) as Hall.
  assert (Hc : forall c, In c required_checks -> check_dim c x = true).
  { intros c Hc. specialize (Hall c (has_required_in cs c Hreq Hc)). unfold check_holds in Hall.
    rewrite forallb_forall in Hall. apply Hall. exact Hx. }
  apply safe_dim_of_checks; apply Hc; cbn; auto.
Qed.

(* the list of checks found in the source contains the required ones: a finite computation on the translated list *)
Lemma read_checks_sufficient : has_required read_checks = true.
Proof. vm_compute. reflexivity. Qed.

Theorem accept_wf b t : read_bytes_checked b = RAccept t -> safe_table t = true /\ sizes_match_header b t.
Proof.
  intro H. unfold read_bytes_checked, of_doc_checked in H.
  destruct (checked_accept _ _ _ read_checks_sufficient H) as [S Sh]. split; [exact S|].
  destruct Sh as [h0 [rest [ly [Ed [Ly [L [Ro [Na [St [Co [Tk [ex [Ex Lex]]]]]]]]]]]]].
  exists h0, rest, ly. split; [exact Ed|]. split; [exact Ly|]. split; [exact Na|].
  split; [eapply read_orders_length; exact Ro|]. split; [rewrite Co, N2Nat.id; reflexivity|]. split; [exact Ro|].
  rewrite <- Ed. apply traverse_Forall2 in Tk. revert Tk. generalize (map N.of_nat (seq 0 (length (l_axes ly)))) (t_knots t).
  intros l r F. induction F as [|i k l r Hik F IH]; constructor; [|exact IH].
  destruct (read_knots_ok _ _ _ Hik) as [h [Fh [Fa Ek]]]. exists h. auto.
Qed.

Theorem accept_wf_mem b t : read_mem_checked b = RAccept t -> safe_table t = true /\ sizes_match_header (whole_blocks b) t.
Proof.
  unfold read_mem_checked. cbv zeta. destruct (mem_guard_present && tail_truncated (whole_blocks b)); [discriminate|]. apply accept_wf.
Qed.

(* nothing changes for the files the unchecked reader accepts with a well-formed table: the checks reject only unsafe tables *)
Lemma safe_dim_checks x c : safe_dim x = true -> In c [CkAxisPositive; CkKnotsEnough 2 2; CkAxesMatch 1; CkKnotsFinite; CkKnotsSorted] ->
  (let '(o, a, k) := x in N.of_nat (length k) < two63) -> check_dim c x = true.
Proof.
  destruct x as [[o a] k]. cbn [safe_dim]. intros H Hin Hb.
  apply andb_true_iff in H. destruct H as [H Hs]. apply andb_true_iff in H. destruct H as [H Hf].
  apply andb_true_iff in H. destruct H as [H1 H2]. apply N.eqb_eq in H1. apply N.leb_le in H2.
  cbn [In] in Hin. destruct Hin as [<-|[<-|[<-|[<-|[<-|[]]]]]]; cbn [check_dim].
  - apply N.ltb_lt. lia.
  - apply negb_true_iff, N.ltb_ge. lia.
  - apply andb_true_iff. split; [apply N.ltb_lt; exact Hb|]. apply Z.eqb_eq. unfold two63 in Hb.
    rewrite Z.mod_small by (unfold two64z; lia). lia.
  - exact Hf.
  - clear - Hf Hs. induction k as [|p r IH]; [reflexivity|]. destruct r as [|q r']; [reflexivity|].
    cbn [nondecreasing] in Hs. apply andb_true_iff in Hs. destruct Hs as [Hpq Hs].
    cbn [forallb] in Hf. apply andb_true_iff in Hf. destruct Hf as [Fp Fr].
    cbn [no_descent]. apply andb_true_iff. split; [|apply IH; assumption].
    assert (Fq : d64_finite q = true) by (cbn [forallb] in Fr; apply andb_true_iff in Fr; tauto).
    apply d64_finite_not_nan in Fp, Fq. rewrite (d64_ltb_leb q p Fq Fp), Hpq. reflexivity.
Qed.

