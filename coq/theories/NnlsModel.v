(* NnlsModel.v — executable model of the NNLS solver used by monotonic fitting (C11).

   [block3_gen] transcribes nnls_normal_block3 (src/fitter/nnls.c:763-1226) together with the
   *sequential specification* of walk_descents / evaluate_descent / calc_residual
   (src/fitter/cholesky_solve.c:743-766, 768-864, 911-1143): which trial step alpha is chosen given the
   residuals. The thread hand-shake itself is C12's subject; the result does not depend on it.

   Polymorphic in the arithmetic [A : Arith] (DESIGN §1.1): at [QcA] the model is exact, which is
   what the theorems (C11_Proofs.v) and the witness search use. CHOLMOD (factorisation, up/down-dates,
   triangular solves) is replaced by ONE abstract operation, the solution of the reduced system
   A[F,F] z = b[F]; [solve_checked] is an exact Gaussian elimination whose answer is *verified* before it is
   used, so that no theorem depends on the elimination being correct. The sets F, G, H1, H2, G' are sorted
   lists of indices as in the code. No proofs in this file. *)
From Coq Require Import List ZArith Bool PeanoNat.
From PS Require Import Arith Generated_nnls.
Import ListNotations.

Section Nnls.
Context {A : Arith}.
Notation K := (T A).

(* ---- dense vectors and matrices ------------------------------------------------------------- *)
Fixpoint dot (u v : list K) : K :=
  match u, v with a :: u', c :: v' => add (mul a c) (dot u' v') | _, _ => zero end.
Definition mv (M : list (list K)) (v : list K) : list K := map (fun r => dot r v) M.
Fixpoint vsub (u v : list K) : list K :=
  match u, v with a :: u', c :: v' => sub a c :: vsub u' v' | _, _ => [] end.
Fixpoint vadd (u v : list K) : list K :=
  match u, v with a :: u', c :: v' => add a c :: vadd u' v' | _, _ => [] end.
Definition zeros (n : nat) : list K := repeat zero n.
Definition nthK (v : list K) (i : nat) : K := nth i v zero.
Definition gather (v : list K) (S : list nat) : list K := map (nthK v) S.
Definition row (M : list (list K)) (i : nat) : list K := nth i M [].
Definition submat (M : list (list K)) (R C : list nat) : list (list K) := map (fun i => gather (row M i) C) R.
Fixpoint upd (v : list K) (i : nat) (a : K) : list K :=
  match v, i with
  | [], _ => []
  | _ :: v', O => a :: v'
  | c :: v', S i' => c :: upd v' i' a
  end.
(* v[S[k]] := z[k] for every k *)
Fixpoint scatter (v : list K) (S : list nat) (z : list K) : list K :=
  match S, z with i :: S', a :: z' => scatter (upd v i a) S' z' | _, _ => v end.

Definition eqK (a b : K) : bool := leb a b && leb b a.
Fixpoint eqvec (u v : list K) : bool :=
  match u, v with
  | [], [] => true
  | a :: u', c :: v' => eqK a c && eqvec u' v'
  | _, _ => false
  end.

(* ---- index sets: sorted lists of nat ------------------------------------------------------------ *)
Definition memb (i : nat) (S : list nat) : bool := existsb (Nat.eqb i) S.
Definition remove_all (S H : list nat) : list nat := filter (fun i => negb (memb i H)) S.
Fixpoint insert_nat (i : nat) (S : list nat) : list nat :=
  match S with [] => [i] | j :: S' => if Nat.leb i j then i :: S else j :: insert_nat i S' end.
Definition sort_nat (S : list nat) : list nat := fold_right insert_nat [] S.      (* qsort(.., intcmp) *)

(* ---- the reduced solve (stands for modify_factor + cholmod_l_solve) ----------------------------------- *)
(* Gauss–Jordan by recursion on the number of unknowns; rows are [coefficients ++ [rhs]] *)
Fixpoint pick_pivot (rows : list (list K)) : option (list K * list (list K)) :=
  match rows with
  | [] => None
  | r :: rs =>
      if eqK (hd zero r) zero
      then match pick_pivot rs with Some (p, o) => Some (p, r :: o) | None => None end
      else Some (r, rs)
  end.
Fixpoint gauss (k : nat) (rows : list (list K)) : option (list K) :=
  match k with
  | O => Some []
  | S k' =>
      match pick_pivot rows with
      | None => None
      | Some (p, others) =>
          let p0 := hd zero p in
          let pt := map (fun v => div v p0) (tl p) in                    (* normalised pivot row, head dropped *)
          let red := map (fun r => vsub (tl r) (map (mul (hd zero r)) pt)) others in
          match gauss k' red with
          | None => None
          | Some z => Some (sub (last pt zero) (dot (removelast pt) z) :: z)
          end
      end
  end.
Fixpoint app_last (rows : list (list K)) (rhs : list K) : list (list K) :=
  match rows, rhs with r :: rows', c :: rhs' => (r ++ [c]) :: app_last rows' rhs' | _, _ => [] end.
(* the solution of M[F,F] z = b[F], returned only when it verifies exactly *)
Definition solve_checked (M : list (list K)) (b : list K) (F : list nat) : option (list K) :=
  let MF := submat M F F in
  let bF := gather b F in
  match gauss (length F) (app_last MF bF) with
  | Some z => if Nat.eqb (length z) (length F) && eqvec (mv MF z) bF then Some z else None
  | None => None
  end.

(* ---- nnls_normal_block3 ------------------------------------------------------------------------------ *)
Inductive exit_kind := NormalExit | MaxIter | InnerFuel | SolveFailed.
Inductive event :=
| EvFree (nH2 : nat)                              (* "Freeing %ld coefficients" *)
| EvSolve (nF : nat)                              (* "Solve[%d] (%ld free)" *)
| EvFeas                                          (* "Solution entirely feasible" *)
| EvBound (nH1 : nat)                             (* "Constraining %ld coefficients (descent at boundary)" *)
| EvAlpha (k nH1 : nat) (reduced : bool).         (* "alpha[%d] = ..." *)

Section Block3.
Variable repaired : bool.              (* exit test: false: `nH2 == 0`; true: `nH2 == 0 && nH1 == 0 && full_step` *)
Variable solve : list nat -> option (list K).   (* the reduced solve on a free set *)
Variable M : list (list K).            (* AtA, dense, full storage *)
Variable b : list K.                   (* Atb *)
Variable tol : K.                      (* kkt_tolerance *)

(* calc_residual (cholesky_solve.c:743): AtAx = 1*A x + (-2)*b ; result = sum x_i AtAx_i *)
Definition resid (MF : list (list K)) (bF xc : list K) : K :=
  dot xc (vsub (mv MF xc) (map (mul (ofZ 2)) bF)).

(* evaluate_descent (cholesky_solve.c:837-852): the trial point for one alpha, projected; H1 of the trial *)
Fixpoint trial (al : K) (x : list K) (F : list nat) (xF : list K) : list K * list nat :=
  match F, xF with
  | i :: F', z :: xF' =>
      let (xc, h1) := trial al x F' xF' in
      let v := add (mul (sub one al) (nthK x i)) (mul al z) in
      if ltb v zero then (zero :: xc, i :: h1) else (v :: xc, h1)
  | _, _ => ([], [])
  end.

(* walk_descents (cholesky_solve.c:947-958): the break points in (0,1), in the order of F *)
Fixpoint breakpoints (x : list K) (F : list nat) (xF : list K) : list K :=
  match F, xF with
  | i :: F', z :: xF' =>
      let rest := breakpoints x F' xF' in
      if ltb z zero then
        let xi := nthK x i in
        let al := div xi (sub xi z) in
        if ltb al one && ltb zero al then al :: rest else rest
      else rest
  | _, _ => []
  end.
(* qsort(.., double_rcmp): descending *)
Fixpoint insert_desc (a : K) (l : list K) : list K :=
  match l with [] => [a] | c :: l' => if ltb a c then c :: insert_desc a l' else a :: l end.
Definition sort_desc (l : list K) : list K := fold_right insert_desc [] l.

(* walk_descents (cholesky_solve.c:1019-1104), sequential specification: the alphas after the first
   (alpha[0] = 0 gives the reference residual) are tried in order; the first that reduces the residual is
   taken, else the last one. Returns (index, projected trial point, its H1, reduced?). *)
Fixpoint walk (res0 : K) (MF : list (list K)) (bF : list K) (x : list K) (F : list nat) (xF : list K)
              (k : nat) (als : list K) : option (nat * list K * list nat * bool) :=
  match als with
  | [] => None
  | al :: rest =>
      let (xc, h1) := trial al x F xF in
      let r := resid MF bF xc in
      if ltb r res0 then Some (k, xc, h1, true)
      else match rest with
           | [] => Some (k, xc, h1, false)
           | _ => walk res0 MF bF x F xF (S k) rest
           end
  end.
Definition walk_descents (x : list K) (F : list nat) (xF : list K) : option (nat * list K * list nat * bool) :=
  let MF := submat M F F in
  let bF := gather b F in
  let res0 := resid MF bF (fst (trial zero x F xF)) in
  walk res0 MF bF x F xF 1 (one :: sort_desc (breakpoints x F xF)).

(* nnls.c:1007-1014 *)
Fixpoint count_inf (x : list K) (F : list nat) (xF : list K) : nat * nat :=
  match F, xF with
  | i :: F', z :: xF' =>
      let (ni, nb) := count_inf x F' xF' in
      if ltb z zero then (S ni, if ltb (nthK x i) tol then S nb else nb) else (ni, nb)
  | _, _ => (O, O)
  end.
(* nnls.c:1042-1047 *)
Fixpoint neg_set (F : list nat) (xF : list K) : list nat :=
  match F, xF with
  | i :: F', z :: xF' => if ltb z zero then i :: neg_set F' xF' else neg_set F' xF'
  | _, _ => []
  end.

Record inner_result := mkInner {
  ir_x : list K; ir_F : list nat; ir_G : list nat; ir_H1 : list nat; ir_full : bool; ir_trace : list event }.

(* the `while (!feasible)` loop, nnls.c:934-1103. [fuel] is a model artefact (see C11_block3_terminates). *)
Fixpoint inner (fuel : nat) (x : list K) (F G H1 H2 : list nat) (tr : list event) : exit_kind + inner_result :=
  match fuel with
  | O => inl InnerFuel
  | S fuel' =>
      (* modify_factor (cholesky_solve.c:305-363): F -= H1, G += H1, F += H2, G -= H2, both sorted *)
      let F1 := sort_nat (remove_all F H1 ++ H2) in
      let G1 := sort_nat (remove_all (G ++ H1) H2) in
      match solve F1 with
      | None => inl SolveFailed
      | Some xF =>
          let tr := EvSolve (length F1) :: tr in
          let (ninf, nbnd) := count_inf x F1 xF in
          if Nat.eqb ninf 0 then
            (* nnls.c:1016-1029 — accept the unconstrained solution on F *)
            inr (mkInner (scatter x F1 xF) F1 G1 [] true (EvFeas :: tr))
          else if Nat.eqb ninf nbnd then
            (* nnls.c:1031-1053 — descent at boundary: bind the negative ones, solve again *)
            let H1' := neg_set F1 xF in
            inner fuel' (scatter x H1' (zeros (length H1'))) F1 G1 H1' [] (EvBound (length H1') :: tr)
          else
            (* nnls.c:1055-1093 — line search *)
            match walk_descents x F1 xF with
            | None => inl SolveFailed
            | Some (k, xc, h1, reduced) =>
                let x' := scatter x F1 xc in
                let tr := EvAlpha k (length h1) reduced :: tr in
                if reduced then inr (mkInner x' F1 G1 h1 false tr)
                else inner fuel' x' F1 G1 h1 [] tr
            end
      end
  end.

Record state := mkState {
  st_x : list K; st_y : list K; st_F : list nat; st_G : list nat; st_H1 : list nat;
  st_Gp : option (list nat); st_full : bool; st_trace : list event }.

Record result := mkResult { r_x : list K; r_exit : exit_kind; r_iters : nat; r_trace : list event;
                            r_H1 : list nat; r_full : bool }.

(* one pass of the outer loop body, nnls.c:843-1204: either the loop is left (inl) or the next state *)
Definition outer_step (n : nat) (s : state) : (exit_kind * state) + state :=
  let G_ := match st_Gp s with None => st_G s | Some g => g end in                  (* :856-862 *)
  let H2r := filter (fun i => ltb (nthK (st_y s) i) (opp tol)) G_ in                 (* :864-867 *)
  let H1 := remove_all (st_H1 s) H2r in                                              (* :896-910 *)
  let H2 := remove_all H2r (st_H1 s) in
  let leave := match H2 with [] => true | _ => false end &&
               (negb repaired || (match H1 with [] => true | _ => false end && st_full s)) in   (* :921 *)
  if leave then inl (NormalExit, mkState (st_x s) (st_y s) (st_F s) (st_G s) H1 (st_Gp s) (st_full s) (st_trace s))
  else
    match inner (2 * n + 2) (st_x s) (st_F s) (st_G s) H1 H2 (EvFree (length H2) :: st_trace s) with
    | inl e => inl (e, s)
    | inr r =>
        let F := ir_F r in let G := ir_G r in let H1 := ir_H1 r in
        let F_ := match H1 with [] => F | _ => remove_all F H1 end in                (* :1105-1141 *)
        let G_ := match H1 with [] => G | _ => sort_nat (G ++ H1) end in
        let Gp := match H1 with [] => None | _ => Some G_ end in
        let x := ir_x r in
        (* :1143-1190  y[G_] = A[G_,F_] x[F_] - b[G_] *)
        let xF_ := gather x F_ in
        let yG := map (fun i => sub (dot (gather (row M i) F_) xF_) (nthK b i)) G_ in
        let y := scatter (st_y s) G_ yG in
        (* :1192-1196 *)
        let x := scatter x G_ (zeros (length G_)) in
        let y := scatter y F_ (zeros (length F_)) in
        inr (mkState x y F G H1 Gp (ir_full r) (ir_trace r))
    end.

Fixpoint outer (n : nat) (fuel : nat) (iter : nat) (s : state) : result :=
  match fuel with
  | O => mkResult (st_x s) MaxIter iter (rev (st_trace s)) (st_H1 s) (st_full s)      (* iter == max_iter *)
  | S fuel' =>
      match outer_step n s with
      | inl (e, s') => mkResult (st_x s') e iter (rev (st_trace s')) (st_H1 s') (st_full s')
      | inr s' => outer n fuel' (S iter) s'
      end
  end.

(* nnls.c:831-841: x = 0, y = -Atb, G = everything *)
Definition init_state (n : nat) : state :=
  mkState (zeros n) (map (fun v => mul v (opp one)) b) [] (seq 0 n) [] None true [].

Definition block3_run (max_iter : nat) : result :=
  let n := length b in outer n max_iter 0 (init_state n).
End Block3.

(* nnls.c:788  kkt_tolerance = ((double)(nvar)) * DBL_EPSILON * 1e5 *)
Definition block3_tol (n : nat) : K :=
  mul (mul (ofZ (Z.of_nat n)) (div one (ofZ (2 ^ dbl_epsilon_log2)))) (ofZ (10 ^ block3_tol_pow10)).

(* the solver as it is in the source tree (exit test and constants from Generated_nnls.v) *)
Definition block3_gen (repaired : bool) (M : list (list K)) (b : list K) : result :=
  block3_run repaired (solve_checked M b) M b (block3_tol (length b)) block3_max_iter.
Definition block3 (M : list (list K)) (b : list K) : result :=
  block3_gen block3_exit_requires_full_step M b.

(* ---- specification side ---------------------------------------------------------------------------- *)
Definition gradient (M : list (list K)) (b x : list K) : list K := vsub (mv M x) b.
(* twice the objective: x'Ax - 2 b'x  (what calc_residual computes) *)
Definition qobj (M : list (list K)) (b x : list K) : K := sub (dot x (mv M x)) (mul (ofZ 2) (dot b x)).
(* KKT within [t] as a boolean: x_i >= 0 and (g_i = 0, or x_i = 0 and g_i >= -t) *)
Fixpoint kktb (t : K) (x g : list K) : bool :=
  match x, g with
  | [], [] => true
  | xi :: x', gi :: g' =>
      leb zero xi && (eqK gi zero || (eqK xi zero && leb (opp t) gi)) && kktb t x' g'
  | _, _ => false
  end.
Definition kkt_check (t : K) (M : list (list K)) (b x : list K) : bool := kktb t x (gradient M b x).
Fixpoint nonnegb (x : list K) : bool := match x with [] => true | a :: x' => leb zero a && nonnegb x' end.
Definition symb (M : list (list K)) : bool :=
  let n := length M in
  forallb (fun i => forallb (fun j => eqK (nthK (row M i) j) (nthK (row M j) i)) (seq 0 n)) (seq 0 n) &&
  forallb (fun r => Nat.eqb (length r) n) M.

(* the optimum by enumerating the 2^n active sets: first free set (in the order of [subsets]) whose reduced
   solution, padded with zeros, passes the exact KKT test *)
Fixpoint subsets (l : list nat) : list (list nat) :=
  match l with [] => [[]] | i :: l' => let s := subsets l' in s ++ map (cons i) s end.
Definition nnls_spec (M : list (list K)) (b : list K) : option (list K) :=
  let n := length b in
  let try := fun F => match solve_checked M b F with
                      | Some z => let x := scatter (zeros n) F z in
                                  if kkt_check zero M b x then Some x else None
                      | None => None end in
  fold_right (fun F acc => match try F with Some x => Some x | None => acc end) None (subsets (seq 0 n)).
End Nnls.
