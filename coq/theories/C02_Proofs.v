(* C02_Proofs.v — assembly for derivative bitmasks and the gradient: ndsplineeval with a derivative bitmask equals the
   tensor-product sum in which, along every flagged dimension, the Cox–de Boor function is replaced by de Boor's
   derivative formula (BSpline.dBfun, k = 1). Over any ordered field. *)
From Coq Require Import ZArith List Bool Lia Field Ring.
From PS Require Import Arith EvalModel BSpline C04_Proofs OFieldKit C01_Basis C01_Core C01_Proofs C02_Basis.
Import ListNotations.
Local Open Scope Z_scope.

Section Assembly.
Context {A : Arith}.
Variable F : OField A.
Notation K := (T A).
Notation le := (@OFieldKit.le A).
Notation lt := (@OFieldKit.lt A).
Let anyord : K -> Prop := fun _ => True.
Let laws : OrdLaws A anyord := OField_OrdLaws A F.

(* the derivative orders a bitmask stands for: bit d set -> first derivative along dimension d *)
Fixpoint bits_of (n : nat) (mask : Z) : list nat :=
  match n with O => [] | S n' => (if Z.odd mask then 1%nat else O) :: bits_of n' (mask / 2) end.

Lemma dim_rel_der (d : @dimn A) (x : K) (c : Z) :
  wf_dim anyord d -> in_range d x -> center_post d x c -> eval_regular d x ->
  dim_rel d x 1 c (localbasis_der d x c).
Proof.
  intros Hw Hr Hp Hreg.
  destruct (lookup_walk_post F d x c Hw Hr Hp Hreg) as [Hmono [W1 [W2 [Hc W]]]].
  unfold dim_rel. cbv zeta. split; [exact Hc|]. split.
  - unfold localbasis_der.
    exact (deriv_nonzero_dB F _ _ Hmono _ x _ c W1 W).
  - intros i Hi Hout. apply (dB1_window F _ _ Hmono _ x _ c W); lia.
Qed.

Lemma localbases_mask_rel : forall (ds : list (@dimn A)) xs cs mask,
  length xs = length ds -> length cs = length ds ->
  Forall2 in_range ds xs -> Forall3 center_post ds xs cs -> Forall2 eval_regular ds xs ->
  Forall (wf_dim anyord) ds ->
  all_rel ds xs (bits_of (length ds) mask) cs (localbases_mask ds xs cs mask).
Proof.
  induction ds as [|d ds IH]; intros xs cs mask Hx Hc HR HP HE HW.
  - destruct xs; [|discriminate]. destruct cs; [|discriminate]. constructor.
  - destruct xs as [|x xs]; [discriminate|]. destruct cs as [|c cs]; [discriminate|].
    inversion HR; subst. inversion HP; subst. inversion HE; subst. inversion HW; subst.
    cbn [length bits_of localbases_mask].
    constructor.
    + destruct (Z.odd mask); [apply dim_rel_der | apply (dim_rel_val F)]; assumption.
    + apply IH; try assumption; cbn [length] in *; lia.
Qed.

Theorem eval_mask_is_tensor_sum (t : @table A) (xs : list K) (cs : list Z) (mask : Z) :
  dims t <> [] ->
  Forall (wf_dim anyord) (dims t) ->
  nth (ndim_of t - 1) (strides_of t) 0 = 1 ->
  length xs = length (dims t) ->
  searchcenters t xs = CFound cs ->
  Forall2 eval_regular (dims t) xs ->
  ndsplineeval t xs cs mask = spline_spec t xs (bits_of (ndim_of t) mask).
Proof.
  intros Hne Hwf Hs1 Hlen Hsc Hreg.
  assert (Hall : Forall anyord xs) by (apply Forall_forall; intros; exact I).
  pose proof (sc_post anyord laws t xs Hwf Hall Hlen cs Hsc) as HP.
  assert (HR : Forall2 in_range (dims t) xs).
  { apply (sc_accepts_iff anyord laws t xs Hwf Hall Hlen). exists cs. exact Hsc. }
  assert (Hcs : length cs = length (dims t)).
  { clear - HP. induction HP; cbn [length]; lia. }
  pose proof (localbases_mask_rel (dims t) xs cs mask Hlen Hcs HR HP Hreg Hwf) as AR.
  destruct (all_rel_lengths _ _ _ _ _ AR) as [L1 L2].
  unfold ndsplineeval, spline_spec.
  rewrite (core_generic_block F); [| exact Hne | exact L1 | exact L2 | exact Hs1].
  unfold ndim_of. rewrite (tensor_block F (coef t) _ _ _ _ _ AR). reflexivity.
Qed.

(* a derivative along an order-0 dimension is identically zero (the spec itself vanishes) *)
Lemma tensor_sum_order0 (cf : Z -> K) : forall ds xs ks pos pr,
  (exists j, nth j ks O = 1%nat /\ d_order (nth j ds (mkDim O 0 0 0 (fun _ => zero))) = O /\ (j < length ds)%nat /\ length xs = length ds /\ length ks = length ds) ->
  tensor_sum cf ds xs ks pos pr = zero.
Proof.
  induction ds as [|d ds IH]; intros xs ks pos pr [j [Hk [Ho [Hj [Hlx Hlk]]]]]; [cbn [length] in Hj; lia|].
  destruct xs as [|x xs]; [discriminate|]. destruct ks as [|k ks]; [discriminate|].
  cbn [tensor_sum]. apply (sum_range_zero F). intros i Hi. cbv zeta.
  destruct j as [|j].
  - cbn [nth] in Hk, Ho. subst k. rewrite Ho. cbn [dBfun].
    replace (eqbK zero zero) with true; [reflexivity|]. symmetry. apply (eqbK_true F). reflexivity.
  - destruct (eqbK _ zero); [reflexivity|]. apply IH. exists j. cbn [nth length] in *. repeat split; try assumption; lia.
Qed.


(* ---------------------------------------------------------------------------------------------- *)
(* ndsplineeval_deriv: arbitrary derivative orders. Orders 0 and 1 use the routines above; orders >= 2 use the recursive
   bspline_deriv (right-continuous, below the upper end of full support) or bspline_deriv_left (left-continuous, from there
   upwards — repair of D3), which equal the derivative formula with the side of plain evaluation when the knots of that
   dimension are strictly increasing (the recursion divides by knot differences). *)
Definition strict_dim (d : @dimn A) : Prop :=
  forall i j, 0 <= i -> i < j -> j < d_nknots d -> lt (d_kn d i) (d_kn d j).
Definition derivk_ok (d : @dimn A) (x : K) (k : nat) : Prop :=
  (k <= 1)%nat \/ strict_dim d.

Lemma dim_rel_derk (d : @dimn A) (x : K) (c : Z) (k : nat) :
  wf_dim anyord d -> in_range d x -> center_post d x c -> eval_regular d x -> derivk_ok d x k ->
  dim_rel d x k c (localbasis_derivk d x c k).
Proof.
  intros Hw Hr Hp Hreg Hok.
  destruct k as [|[|k]]; [apply (dim_rel_val F); assumption | apply dim_rel_der; assumption |].
  destruct Hok as [Hk|Hstrict]; [lia|].
  destruct (lookup_walk_post F d x c Hw Hr Hp Hreg) as [Hmono [W1 [W2 [Hc W]]]].
  unfold dim_rel. cbv zeta. split; [exact Hc|]. split.
  - cbn [localbasis_derivk]. unfold side_of. destruct (ltb x (d_kn d (d_naxes d))).
    + apply map_ext_in. intros i Hi. apply in_seq in Hi. rewrite (rnd_id F).
      apply (bspline_deriv_dB F _ _ Hstrict x); lia.
    + apply map_ext_in. intros i Hi. apply in_seq in Hi. rewrite (rnd_id F).
      apply (bspline_deriv_left_dB F _ _ Hstrict x); lia.
  - intros i Hi Hout. destruct W as [Hl0 [Hl1 [Hpc [Hcc Hrel]]]].
    apply (dBk_support F _ _ Hmono _ _ x Hl0 Hl1 Hpc); lia.
Qed.

Lemma localbases_derivk_rel : forall (ds : list (@dimn A)) xs cs ks,
  length xs = length ds -> length cs = length ds -> length ks = length ds ->
  Forall2 in_range ds xs -> Forall3 center_post ds xs cs -> Forall2 eval_regular ds xs ->
  Forall (wf_dim anyord) ds -> Forall3 derivk_ok ds xs ks ->
  all_rel ds xs ks cs (localbases_derivk ds xs cs ks).
Proof.
  induction ds as [|d ds IH]; intros xs cs ks Hx Hc Hk HR HP HE HW HO.
  - destruct xs; [|discriminate]. destruct cs; [|discriminate]. destruct ks; [|discriminate]. constructor.
  - destruct xs as [|x xs]; [discriminate|]. destruct cs as [|c cs]; [discriminate|]. destruct ks as [|k ks]; [discriminate|].
    inversion HR; subst. inversion HP; subst. inversion HE; subst. inversion HW; subst. inversion HO; subst.
    cbn [localbases_derivk]. constructor.
    + apply dim_rel_derk; assumption.
    + apply IH; try assumption; cbn [length] in *; lia.
Qed.

Theorem eval_deriv_is_tensor_sum (t : @table A) (xs : list K) (cs : list Z) (ks : list nat) :
  dims t <> [] ->
  Forall (wf_dim anyord) (dims t) ->
  nth (ndim_of t - 1) (strides_of t) 0 = 1 ->
  length xs = length (dims t) -> length ks = length (dims t) ->
  searchcenters t xs = CFound cs ->
  Forall2 eval_regular (dims t) xs ->
  Forall3 derivk_ok (dims t) xs ks ->
  ndsplineeval_deriv t xs cs ks = spline_spec t xs ks.
Proof.
  intros Hne Hwf Hs1 Hlen Hlk Hsc Hreg Hok.
  assert (Hall : Forall anyord xs) by (apply Forall_forall; intros; exact I).
  pose proof (sc_post anyord laws t xs Hwf Hall Hlen cs Hsc) as HP.
  assert (HR : Forall2 in_range (dims t) xs).
  { apply (sc_accepts_iff anyord laws t xs Hwf Hall Hlen). exists cs. exact Hsc. }
  assert (Hcs : length cs = length (dims t)).
  { clear - HP. induction HP; cbn [length]; lia. }
  pose proof (localbases_derivk_rel (dims t) xs cs ks Hlen Hcs Hlk HR HP Hreg Hwf Hok) as AR.
  destruct (all_rel_lengths _ _ _ _ _ AR) as [L1 L2].
  unfold ndsplineeval_deriv, spline_spec.
  rewrite (core_generic_block F); [| exact Hne | exact L1 | exact L2 | exact Hs1].
  rewrite (tensor_block F (coef t) _ _ _ _ _ AR). reflexivity.
Qed.

End Assembly.
