(* C18_Compose.v — C18 composed with C20's global invariant.

   CApiModel.c_call = glue around ObjModel.cpp_step.  C18_Proofs.v proves that the GLUE's own allocations are balanced
   (invariant `ginv`); C20_Invariant.v proves that cpp_step preserves the object invariant `Inv` (heap = disjoint union
   of what the live objects own, no allocator error, nothing lost, never UB).  Here the two are put together:

     cinv = ginv  /\  Inv kl (cw cs)  /\  (handle k holds storage  <->  object k exists)  /\  glue allocator clean

   is preserved by every valid C call whose C++ twins satisfy C20's side conditions (wf_op), for every allocation oracle
   of the objects (F) and of the glue (GF), every I/O oracle, every outcome of the members.  Consequences:
     balanced_whole   : all handles / results / buffers released at the end => BOTH traces balanced, every interleaving of
                        them balanced, heaps empty, no allocator error, nothing lost, all objects gone, never UB;
     memory_safe      : in every state satisfying cinv a valid call with its documented preconditions is not `Crashed`,
                        and the member it forwards to is safe_to_call (C20's `safe`);
     faithful_*       : the compound wrappers = the stated composition of cpp_steps and glue allocation events.
   No model is changed; nothing is assumed. *)
From Coq Require Import List Arith Bool String Lia Permutation.
From PS Require Import ObjResource ObjModel CGlue CApiModel Generated_cinter Generated_objfixes C20_Proofs C20_Invariant C18_Proofs.
Import ListNotations.
Local Open Scope list_scope.
Arguments p_h : simpl never.
Arguments p_b : simpl never.
Arguments p_rs : simpl never.
Arguments p_rp : simpl never.

(* ---------------------------------------------------------------------------------------------- *)
(** * 1. Facts about ObjModel.step that C18 needs: which object slots exist afterwards, when an outcome is Skipped *)

Definition has (w : world) (j : nat) : bool := match get_obj w j with Some _ => true | None => false end.
Definition is_some {A} (x : option A) : bool := match x with Some _ => true | None => false end.

Lemma has_crash : forall w j, has (crash w) j = has w j.
Proof. reflexivity. Qed.

Lemma has_set : forall w k x m j, k < List.length (objs w) ->
  has (set_obj w k x m) j = if Nat.eqb j k then is_some x else has w j.
Proof.
  intros w k x m j Hk. unfold has. destruct (Nat.eqb_spec j k) as [->|N].
  - rewrite get_set_obj_same by exact Hk. reflexivity.
  - rewrite get_set_obj_other by exact N. reflexivity.
Qed.

Lemma has_set_some : forall w k o o' m j, get_obj w k = Some o -> has (set_obj w k (Some o') m) j = has w j.
Proof.
  intros w k o o' m j H. rewrite has_set by (eapply get_obj_lt; eauto).
  destruct (Nat.eqb_spec j k) as [->|N]; auto. unfold has. rewrite H. reflexivity.
Qed.

Definition bres_of (o : outcome) : bres := match o with Ok => BOk | Failed r => BThrow r | UB | Skipped => BUB end.

Lemma lift_step_eq : forall c F cs x,
  lift_step c F cs x = (with_cw cs (fst (step c F (cw cs) x)), bres_of (snd (step c F (cw cs) x))).
Proof. intros. unfold lift_step, cpp_step. destruct (step c F (cw cs) x) as [w' o]. destruct o; reflexivity. Qed.

(* the members that work on an existing object and leave it in existence *)
Definition plain (x : op) : bool :=
  match x with
  | ORead _ _ | OFit _ _ | OWriteKey _ _ _ | OConvolve _ _ _ | OPermute _ _ | OWrite _ _ | OEval _ => true
  | _ => false
  end.
Definition is_eval (x : op) : bool := match x with OEval _ => true | _ => false end.

Lemma finish_some : forall o r, exists o' out m', finish o r = (Some o', out, m') /\ out <> Skipped /\ out <> UB.
Proof. intros o [[o' m'] [why|]]; cbn [finish]; do 3 eexists; (split; [reflexivity|split; discriminate]). Qed.

Lemma step_plain_has : forall c F w x j, plain x = true -> has (fst (step c F w x)) j = has w j.
Proof.
  intros c F w x j P. unfold step. destruct (crashed w); [reflexivity|].
  destruct x as [k|k f|k f|k s|k inv e|k dim nk|k p|k i|k i|i k|k fails|k|k|k key]; try discriminate P;
    cbv beta iota zeta; cbn [target];
    (destruct (get_obj w k) as [o|] eqn:E; [|reflexivity]);
    (destruct (negb (safe c o None _)); [reflexivity|]).
  - destruct (finish_some o (step_read c F (wm w) o f)) as [o' [out [m' [Ef _]]]]. rewrite Ef. cbn [fst]. eapply has_set_some; eauto.
  - destruct (finish_some o (step_fit c F (wm w) o s)) as [o' [out [m' [Ef _]]]]. rewrite Ef. cbn [fst]. eapply has_set_some; eauto.
  - destruct (finish_some o (step_write_key F (wm w) o inv e)) as [o' [out [m' [Ef _]]]]. rewrite Ef. cbn [fst]. eapply has_set_some; eauto.
  - destruct (finish_some o (step_convolve c F (wm w) o dim nk)) as [o' [out [m' [Ef _]]]]. rewrite Ef. cbn [fst]. eapply has_set_some; eauto.
  - destruct (negb (is_perm (ndim o) p)); [reflexivity|]. destruct (Nat.eqb (ndim o) 0); [reflexivity|].
    cbn [fst]. eapply has_set_some; eauto.
  - destruct (Nat.eqb (ndim o) 0); [reflexivity|]. destruct fails; reflexivity.
  - destruct (Nat.eqb (ndim o) 0); reflexivity.
Qed.

(* on an existing object such a member is performed: the outcome is Skipped only for an evaluation of an empty table *)
Lemma step_plain_not_skipped : forall c F w x, plain x = true -> is_eval x = false -> crashed w = false ->
  has w (target x) = true -> snd (step c F w x) <> Skipped.
Proof.
  intros c F w x P NE NC H. unfold step. rewrite NC. unfold has in H.
  destruct x as [k|k f|k f|k s|k inv e|k dim nk|k p|k i|k i|i k|k fails|k|k|k key]; try discriminate P; try discriminate NE;
    cbv beta iota zeta; cbn [target] in *;
    (destruct (get_obj w k) as [o|] eqn:E; [|discriminate H]);
    (destruct (negb (safe c o None _)); [cbn; discriminate|]).
  - destruct (finish_some o (step_read c F (wm w) o f)) as [o' [out [m' [Ef [N1 _]]]]]. rewrite Ef. exact N1.
  - destruct (finish_some o (step_fit c F (wm w) o s)) as [o' [out [m' [Ef [N1 _]]]]]. rewrite Ef. exact N1.
  - destruct (finish_some o (step_write_key F (wm w) o inv e)) as [o' [out [m' [Ef [N1 _]]]]]. rewrite Ef. exact N1.
  - destruct (finish_some o (step_convolve c F (wm w) o dim nk)) as [o' [out [m' [Ef [N1 _]]]]]. rewrite Ef. exact N1.
  - destruct (negb (is_perm (ndim o) p)); [cbn; discriminate|]. destruct (Nat.eqb (ndim o) 0); cbn; discriminate.
  - destruct (Nat.eqb (ndim o) 0); [cbn; discriminate|]. destruct fails; cbn; discriminate.
Qed.

Lemma step_eval_populated : forall kl F w j o, Inv kl w -> get_obj w j = Some o -> ndim o <> 0 ->
  step cfg_fixed F w (OEval j) = (w, Ok).
Proof.
  intros kl F w j o HI E N. unfold step. rewrite (inv_nc HI). cbv beta iota zeta. cbn [target]. rewrite E.
  rewrite (safe_of_inv o None (OEval j)); [|apply (inv_obj HI _ _ E)|intros; discriminate]. cbn [negb].
  destruct (Nat.eqb_spec (ndim o) 0); [contradiction|reflexivity].
Qed.

Lemma step_new_none : forall kl c F w k, Inv kl w -> get_obj w k = None ->
  step c F w (ONew k) = (set_obj w k (Some empty_obj) (wm w), Ok).
Proof. intros kl c F w k HI E. unfold step. rewrite (inv_nc HI), E. reflexivity. Qed.

Lemma step_destroy_some : forall kl F w k o, Inv kl w -> get_obj w k = Some o ->
  step cfg_fixed F w (ODestroy k) = (set_obj w k None (destroy cfg_fixed F (wm w) o), Ok).
Proof.
  intros kl F w k o HI E. unfold step. rewrite (inv_nc HI). cbv beta iota zeta. cbn [target]. rewrite E.
  rewrite (safe_of_inv o None (ODestroy k)); [|apply (inv_obj HI _ _ E)|intros; discriminate]. reflexivity.
Qed.

Lemma step_newread_none : forall kl c F w k f, Inv kl w -> get_obj w k = None ->
  (exists o' m', step c F w (ONewRead k f) = (set_obj w k (Some o') m', Ok)) \/
  (exists m' why, step c F w (ONewRead k f) = (set_obj w k None m', Failed why)).
Proof.
  intros kl c F w k f HI E. unfold step. rewrite (inv_nc HI), E.
  destruct (step_read c F (wm w) empty_obj f) as [[o' m'] [why|]]; [right|left]; eauto.
Qed.

Definition is_move (x : op) : bool := match x with OMoveCtor _ _ | OMoveAssign _ _ => true | _ => false end.

(* a member that is not a move touches only its own object slot *)
Lemma step_get_other : forall c F w x j, is_move x = false -> j <> target x -> get_obj (fst (step c F w x)) j = get_obj w j.
Proof.
  intros c F w x j M N. unfold step. destruct (crashed w); [reflexivity|].
  destruct x as [k|k f|k f|k s|k inv e|k dim nk|k p|k i|k i|i k|k fails|k|k|k key]; try discriminate M;
    cbv beta iota zeta; cbn [target] in *.
  - destruct (get_obj w k); cbn [fst]; [reflexivity|apply get_set_obj_other; exact N].
  - destruct (get_obj w k); [reflexivity|]. destruct (step_read c F (wm w) empty_obj f) as [[o' m'] [why|]]; cbn [fst]; apply get_set_obj_other; exact N.
  - destruct (get_obj w k) as [o|]; [|reflexivity]. destruct (negb (safe c o None _)); [reflexivity|].
    destruct (finish_some o (step_read c F (wm w) o f)) as [o' [out [m' [Ef _]]]]. rewrite Ef. cbn [fst]. apply get_set_obj_other; exact N.
  - destruct (get_obj w k) as [o|]; [|reflexivity]. destruct (negb (safe c o None _)); [reflexivity|].
    destruct (finish_some o (step_fit c F (wm w) o s)) as [o' [out [m' [Ef _]]]]. rewrite Ef. cbn [fst]. apply get_set_obj_other; exact N.
  - destruct (get_obj w k) as [o|]; [|reflexivity]. destruct (negb (safe c o None _)); [reflexivity|].
    destruct (finish_some o (step_write_key F (wm w) o inv e)) as [o' [out [m' [Ef _]]]]. rewrite Ef. cbn [fst]. apply get_set_obj_other; exact N.
  - destruct (get_obj w k) as [o|]; [|reflexivity]. destruct (negb (safe c o None _)); [reflexivity|].
    destruct (finish_some o (step_convolve c F (wm w) o dim nk)) as [o' [out [m' [Ef _]]]]. rewrite Ef. cbn [fst]. apply get_set_obj_other; exact N.
  - destruct (get_obj w k) as [o|]; [|reflexivity]. destruct (negb (safe c o None _)); [reflexivity|].
    destruct (negb (is_perm (ndim o) p)); [reflexivity|]. destruct (Nat.eqb (ndim o) 0); [reflexivity|].
    cbn [fst]. apply get_set_obj_other; exact N.
  - destruct (get_obj w i) as [oi|]; [|reflexivity]. destruct (get_obj w k) as [ok|]; [|reflexivity].
    destruct (negb (safe c oi (Some ok) _)); reflexivity.
  - destruct (get_obj w k) as [o|]; [|reflexivity]. destruct (negb (safe c o None _)); [reflexivity|].
    destruct (Nat.eqb (ndim o) 0); [reflexivity|]. destruct fails; reflexivity.
  - destruct (get_obj w k) as [o|]; [|reflexivity]. destruct (negb (safe c o None _)); [reflexivity|].
    destruct (Nat.eqb (ndim o) 0); reflexivity.
  - destruct (get_obj w k) as [o|]; [|reflexivity]. destruct (negb (safe c o None _)); [reflexivity|].
    cbn [fst]. apply get_set_obj_other; exact N.
  - (* remove_key: not reachable through the C interface, which has no wrapper for it *)
    destruct (get_obj w k) as [o|]; [|reflexivity]. destruct (negb (safe c o None _)); [reflexivity|].
    destruct (finish_some o (step_remove_key c F (wm w) o key)) as [o' [out [m' [Ef _]]]]. rewrite Ef. cbn [fst]. apply get_set_obj_other; exact N.
Qed.

Lemma step_has_other : forall c F w x j, is_move x = false -> j <> target x -> has (fst (step c F w x)) j = has w j.
Proof. intros. unfold has. rewrite step_get_other by assumption. reflexivity. Qed.

(* ---------------------------------------------------------------------------------------------- *)
(** * 2. The composed invariant *)

(* everything except the link between handle k and object k (k = 4: no exception) *)
Record oinv_but (kl : nat -> nat) (k : nat) (cs : cstate) : Prop := {
  cb_inv : Inv kl (cw cs);                                                  (* C20's invariant of the object world *)
  cb_link : forall j, j < 4 -> j <> k -> live cs j = has (cw cs) j;       (* table->data != NULL  <->  the object exists *)
  cb_errs : errs (gm cs) = [];                                              (* the glue's allocator: no error, nothing lost *)
  cb_lost : lost (gm cs) = []
}.
Definition oinv (kl : nat -> nat) (cs : cstate) : Prop := oinv_but kl 4 cs.
Definition cinv (kl : nat -> nat) (cs : cstate) : Prop := ginv cs /\ oinv kl cs.

Lemma oinv_link : forall kl cs j, oinv kl cs -> j < 4 -> live cs j = has (cw cs) j.
Proof. intros kl cs j H Hj. apply (cb_link _ _ _ H); lia. Qed.
Lemma oinv_weaken : forall kl k cs, oinv kl cs -> oinv_but kl k cs.
Proof. intros kl k cs [a b c d]. constructor; auto. intros j Hj _. apply b; lia. Qed.
Lemma oinv_close : forall kl k cs, oinv_but kl k cs -> (k < 4 -> live cs k = has (cw cs) k) -> oinv kl cs.
Proof.
  intros kl k cs [a b c d] H. constructor; auto. intros j Hj _. destruct (Nat.eq_dec j k) as [->|N]; auto.
Qed.

Lemma oinv0 : forall kl, oinv kl cstate0.
Proof.
  intros kl. constructor; try reflexivity; [apply Inv_world0|].
  intros j Hj _. do 4 (destruct j as [|j]; [reflexivity|]). lia.
Qed.

Lemma live_with_cw : forall cs w k, live (with_cw cs w) k = live cs k.
Proof. reflexivity. Qed.

(* a change of the glue's part of the state only *)
Lemma oinv_but_glue : forall kl k cs cs', oinv_but kl k cs -> cw cs' = cw cs ->
  errs (gm cs') = errs (gm cs) -> lost (gm cs') = lost (gm cs) ->
  (forall j, j < 4 -> j <> k -> gget cs' (p_h j) = gget cs (p_h j)) -> oinv_but kl k cs'.
Proof.
  intros kl k cs cs' [a b c d] Ew Ee El Hg. constructor; rewrite ?Ew, ?Ee, ?El; auto.
  intros j Hj N. unfold live. rewrite (Hg j Hj N). apply b; auto.
Qed.

(* one member call, not a move, on the excepted slot (or on any slot when it leaves existence alone) *)
Lemma but_after_step : forall kl F cs x k, oinv_but kl k cs -> wf_op kl x -> is_move x = false -> target x = k ->
  oinv_but kl k (with_cw cs (fst (step cfg_fixed F (cw cs) x))).
Proof.
  intros kl F cs x k [a b c d] W M T. destruct (step_Inv kl F (cw cs) x a W) as [HI _].
  constructor; cbn [cw gm with_cw]; auto.
  intros j Hj N. rewrite live_with_cw. rewrite step_has_other; [apply b; auto|exact M|rewrite T; exact N].
Qed.

Lemma lift_plain : forall kl F cs x cs' b, oinv kl cs -> wf_op kl x -> plain x = true ->
  lift_step cfg_fixed F cs x = (cs', b) ->
  oinv kl cs' /\ gm cs' = gm cs /\ gs cs' = gs cs /\ dead cs' = dead cs /\
  (is_eval x = false -> has (cw cs) (target x) = true -> b <> BUB).
Proof.
  intros kl F cs x cs' b H W P L. rewrite lift_step_eq in L. inversion L; subst; clear L.
  pose proof H as [HI HL HE HLo]. destruct (step_Inv kl F (cw cs) x HI W) as [HI' HU].
  split; [|repeat split].
  - constructor; cbn [cw gm with_cw]; auto. intros j Hj N. rewrite live_with_cw, step_plain_has by exact P. apply HL; auto.
  - intros NE Hh. pose proof (step_plain_not_skipped cfg_fixed F (cw cs) x P NE (inv_nc HI) Hh) as NS.
    destruct (snd (step cfg_fixed F (cw cs) x)); cbn [bres_of]; try discriminate; contradiction.
Qed.

Lemma lift_eval : forall kl F cs k cs' b, oinv kl cs -> k < 4 -> lift_step cfg_fixed F cs (OEval k) = (cs', b) ->
  oinv kl cs' /\ gm cs' = gm cs /\ gs cs' = gs cs /\ dead cs' = dead cs /\
  (live cs k = true -> ndim (obj_of cs k) <> 0 -> b = BOk /\ cw cs' = cw cs).
Proof.
  intros kl F cs k cs' b H Hk L.
  destruct (lift_plain kl F cs (OEval k) cs' b H) as [A [B [C [D _]]]]; auto. { split; [exact Hk|exact I]. }
  split; [exact A|]. split; [exact B|]. split; [exact C|]. split; [exact D|].
  intros Lv Nd. rewrite lift_step_eq in L. rewrite (oinv_link _ _ _ H Hk) in Lv. unfold has, obj_of in *.
  destruct (get_obj (cw cs) k) as [o|] eqn:E; [|discriminate Lv].
  rewrite (step_eval_populated kl F (cw cs) k o (cb_inv _ _ _ H) E Nd) in L. inversion L; subst. split; reflexivity.
Qed.

(* ---- the glue's allocation events under the composed invariant ---- *)
Lemma g_new_some_clean : forall GF cs p bytes cs' m', gget cs p = Null -> g_new GF cs p bytes = (Some cs', m') ->
  errs (gm cs') = errs (gm cs) /\ lost (gm cs') = lost (gm cs).
Proof.
  intros GF cs p bytes cs' m' N. unfold g_new, m_alloc. destruct (GF _); [discriminate|].
  intros E; inversion E; subst. rewrite N. cbn. auto.
Qed.
Lemma g_new_none_clean : forall GF cs p bytes m', g_new GF cs p bytes = (None, m') ->
  errs m' = errs (gm cs) /\ lost m' = lost (gm cs).
Proof. intros GF cs p bytes m'. unfold g_new, m_alloc. destruct (GF _); intros E; inversion E; subst; cbn; auto. Qed.
Lemma g_del_clean : forall cs p claimed, ginv cs -> p < 10 -> (forall id b, gget cs p = Owned id b -> claimed = b) ->
  errs (gm (g_del cs p claimed)) = errs (gm cs) /\ lost (gm (g_del cs p claimed)) = lost (gm cs).
Proof.
  intros cs p claimed I Hp Hc. unfold g_del.
  assert (Hgood : good_slot (gget cs p)).
  { pose proof (gi_good _ I) as Hg. rewrite Forall_forall in Hg. apply Hg. unfold gget. apply nth_In. rewrite (gi_len _ I). exact Hp. }
  destruct Hgood as [E|[id [b E]]]; rewrite E; [auto|]. rewrite (Hc id b E). cbn. rewrite Nat.eqb_refl. auto.
Qed.

Lemma new_any : forall kl k GF cs p bytes cs1 m', ginv cs -> oinv_but kl k cs -> p < 10 -> gget cs p = Null ->
  (p = p_h k \/ 4 <= p) ->
  (forall j, j < 4 -> p = p_h j -> bytes = sz_table) -> (forall r, r < 2 -> p = p_rs r -> bytes = sz_nd) ->
  g_new GF cs p bytes = (Some cs1, m') ->
  ginv cs1 /\ oinv_but kl k cs1 /\ cw cs1 = cw cs /\ dead cs1 = dead cs
  /\ (forall q, q <> p -> gget cs1 q = gget cs q) /\ gget cs1 p <> Null.
Proof.
  intros kl k GF cs p bytes cs1 m' I O Hp N Hpk Ht Hr G.
  destruct (g_new_inv _ _ _ _ _ _ I Hp N G Ht Hr) as [I1 [Ew [Ed [Ho Hn]]]].
  destruct (g_new_some_clean _ _ _ _ _ _ N G) as [Ee El].
  split; [exact I1|]. split; [|auto]. apply (oinv_but_glue kl k cs cs1 O Ew Ee El).
  intros j Hj Nj. apply Ho. unfold p_h in *. lia.
Qed.

Lemma fail_any : forall kl k GF cs p bytes m', ginv cs -> oinv_but kl k cs -> g_new GF cs p bytes = (None, m') ->
  ginv (with_g cs m' (gs cs)) /\ oinv_but kl k (with_g cs m' (gs cs)).
Proof.
  intros kl k GF cs p bytes m' I O G. split; [eapply g_new_fail_inv; eauto|].
  destruct (g_new_none_clean _ _ _ _ _ G) as [Ee El]. apply (oinv_but_glue kl k cs _ O); auto.
Qed.

Lemma del_any : forall kl k cs p claimed, ginv cs -> oinv_but kl k cs -> p < 10 -> (p = p_h k \/ 4 <= p) ->
  (forall id b, gget cs p = Owned id b -> claimed = b) ->
  ginv (g_del cs p claimed) /\ oinv_but kl k (g_del cs p claimed) /\ cw (g_del cs p claimed) = cw cs
  /\ dead (g_del cs p claimed) = dead cs /\ (forall q, q <> p -> gget (g_del cs p claimed) q = gget cs q)
  /\ gget (g_del cs p claimed) p = Null.
Proof.
  intros kl k cs p claimed I O Hp Hpk Hc.
  destruct (g_del_inv cs p claimed I Hp Hc) as [I1 [Ew [Ed [Ho Hn]]]].
  destruct (g_del_clean cs p claimed I Hp Hc) as [Ee El].
  split; [exact I1|]. split; [|auto]. apply (oinv_but_glue kl k cs _ O Ew Ee El).
  intros j Hj Nj. apply Ho. unfold p_h in *. lia.
Qed.

Lemma live_false_null : forall cs k, live cs k = false -> gget cs (p_h k) = Null.
Proof. intros cs k. unfold live. destruct (gget cs (p_h k)); cbn; try discriminate; auto. Qed.
Lemma null_live_false : forall cs k, gget cs (p_h k) = Null -> live cs k = false.
Proof. intros cs k E. unfold live. rewrite E. reflexivity. Qed.
Lemma nonnull_live : forall cs k, gget cs (p_h k) <> Null -> live cs k = true.
Proof. intros cs k. unfold live. destruct (gget cs (p_h k)); cbn; auto; intros H; exfalso; apply H; reflexivity. Qed.
Lemma has_false_none : forall w k, has w k = false -> get_obj w k = None.
Proof. intros w k. unfold has. destruct (get_obj w k); [discriminate|auto]. Qed.
Lemma has_true_some : forall w k, has w k = true -> exists o, get_obj w k = Some o.
Proof. intros w k. unfold has. destruct (get_obj w k); [eauto|discriminate]. Qed.

(* ---------------------------------------------------------------------------------------------- *)
(** * 3. One wrapper body preserves the composed invariant *)

(* the C++ members a wrapper may call (its twins), in the order of the source *)
Definition twins (a : cargs) (k : nat) : list op :=
  match a with
  | AInit => [ONew k]
  | CApiModel.AFree => [ODestroy k]
  | ARead f => [ODestroy k; ONewRead k f]
  | AWrite fails => [OWrite k fails]
  | AWriteKey i e => [OWriteKey k i e]
  | ASearch _ | AEval | ADeriv | AGrad => [OEval k]
  | AConvolve d n => [OConvolve k d n]
  | AReadMem f => [ONew k; ORead k f]
  | AWriteMem _ _ fails => [OWrite k fails]
  | AFit s => [OFit k s]
  | APermute p => [OPermute k p]
  | AGetKey _ | AReadKey _ _ | AAcc _ | ABufFree _ | AGrideval _ _ | ANdDestroy _ => []
  end.
(* C20's side conditions on them *)
Definition wf_call (kl : nat -> nat) (call : ccall) : Prop := Forall (wf_op kl) (twins (c_args call) (c_h call)).

(* the wrappers whose body dereferences table->data *)
Definition needs_live (a : cargs) : bool :=
  match a with AInit | CApiModel.AFree | ARead _ | AReadMem _ | ABufFree _ | ANdDestroy _ => false | _ => true end.
Lemma needs_live_derefs : forall a, needs_live a = inb "table->data"%string (derefs a).
Proof. destruct a; reflexivity. Qed.

(* DOCUMENTED preconditions of the wrappers whose C++ member reads the table's arrays unchecked (per-dimension accessors,
   evaluation, grideval): IF the handle holds a table, it is a populated one (the C++ member itself indexes order[dim],
   naxes[0], ... of an EMPTY table: the C++ twin crashes identically — C20/C17's domain).  A handle WITHOUT a table is no
   longer excluded: since F18_1 every wrapper tests it (obligation table_checked, for all 30 functions) and returns the
   value the header documents (no_table_refused below). *)
Definition populated (cs : cstate) (k : nat) : bool := negb (Nat.eqb (ndim (obj_of cs k)) 0).
Definition doc_pre (cs : cstate) (call : ccall) : bool :=
  let k := c_h call in
  match c_args call with
  | AAcc a => match a with AccNdim | AccTotal | AccCoeff => true | _ => negb (live cs k) || populated cs k end
  | ASearch _ | AEval | ADeriv | AGrad => negb (live cs k) || populated cs k
  | AGrideval _ _ => negb (live cs k) || populated cs k
  | _ => true
  end.

Lemma live_obj : forall kl cs k, oinv kl cs -> k < 4 -> live cs k = true ->
  exists o, get_obj (cw cs) k = Some o /\ obj_of cs k = o /\ obj_inv o.
Proof.
  intros kl cs k O Hk Lv. rewrite (oinv_link _ _ _ O Hk) in Lv. destruct (has_true_some _ _ Lv) as [o Eo].
  exists o. split; [exact Eo|]. split; [unfold obj_of; rewrite Eo; reflexivity|]. apply (inv_obj (cb_inv _ _ _ O) _ _ Eo).
Qed.

Lemma do_free_compose : forall kl F cs k cs' b, ginv cs -> oinv kl cs -> k < 4 ->
  do_free cfg_fixed F cs k = (cs', b) ->
  ginv cs' /\ oinv kl cs' /\ dead cs' = dead cs /\ b = BOk /\ live cs' k = false.
Proof.
  intros kl F cs k cs' b I O Hk. unfold do_free. destruct (live cs k) eqn:Lv.
  - destruct (live_obj kl cs k O Hk Lv) as [o [Eo _]].
    rewrite lift_step_eq.
    assert (W : wf_op kl (ODestroy k)) by (split; [exact Hk|exact Logic.I]).
    pose proof (but_after_step kl F cs (ODestroy k) k (oinv_weaken kl k cs O) W eq_refl eq_refl) as O1.
    rewrite (step_destroy_some kl F (cw cs) k o (cb_inv _ _ _ O) Eo) in *. cbn [fst snd bres_of] in *.
    set (cs1 := with_cw cs (set_obj (cw cs) k None (destroy cfg_fixed F (wm (cw cs)) o))) in *.
    assert (I1 : ginv cs1) by (eapply ginv_ext; [| |exact I]; reflexivity).
    intros E; inversion E; subst cs' b; clear E.
    destruct (del_any kl k cs1 (p_h k) sz_table I1 O1) as [I2 [O2 [Ew [Ed [Ho Hn]]]]].
    { unfold p_h; lia. } { left; reflexivity. } { intros id bb Hs. eapply sized_claim; eauto. apply (gi_tab _ I1); auto. }
    split; [exact I2|]. split; [|split; [exact Ed|split; [reflexivity|apply null_live_false; exact Hn]]].
    apply (oinv_close kl k _ O2). intros _. rewrite (null_live_false _ _ Hn), Ew. unfold cs1. cbn [cw with_cw].
    rewrite has_set by (eapply get_obj_lt; eauto). rewrite Nat.eqb_refl. reflexivity.
  - intros E; inversion E; subst cs' b. split; [exact I|split; [exact O|split; [reflexivity|split; [reflexivity|exact Lv]]]].
Qed.

Lemma body_compose : forall kl g F GF cs call cs' b,
  ginv cs -> oinv kl cs -> valid_call cs call = true -> wf_call kl call ->
  (forall f, c_args call = ARead f -> g_free_first g = true) ->
  (forall r, c_args call = ANdDestroy r -> String.eqb (g_member g) "delete photospline::ndsparse" = true) ->
  body g cfg_fixed F GF cs call = (cs', b) ->
  oinv kl cs' /\ dead cs' = dead cs /\
  ((needs_live (c_args call) = true -> live cs (c_h call) = true) -> doc_pre cs call = true -> b <> BUB).
Proof.
  intros kl g F GF cs call cs' b I O V W Hff Hty. unfold valid_call in V.
  apply andb_true_iff in V. destruct V as [V V3]. apply andb_true_iff in V. destruct V as [Vk _].
  apply Nat.ltb_lt in Vk. unfold wf_call in W. unfold doc_pre, body.
  destruct call as [k nl ca]. cbn [c_h c_args] in *. assert (Hk4 : k < 4) by lia.
  assert (LH : live cs k = true -> has (cw cs) k = true) by (intros Lv; rewrite <- (oinv_link _ _ _ O Hk4); exact Lv).
  destruct ca as [| |f|fails|key|key parses|inv e|a|inside| | | |dim nk|f|b0 bytes fails|b0|s|r rows|r|p];
    cbv beta iota zeta; cbn [twins needs_live] in *.
  - (* AInit *)
    apply negb_true_iff in V3.
    pose proof V3 as Hn. rewrite (oinv_link _ _ _ O Hk4) in Hn. apply has_false_none in Hn.
    assert (Ab : abandon cs k = cs) by (unfold abandon; rewrite Hn; reflexivity). rewrite Ab.
    pose proof (Forall_inv W) as W1.
    destruct (g_new GF cs (p_h k) sz_table) as [[cs1|] m'] eqn:G.
    + destruct (new_any kl k GF cs (p_h k) sz_table cs1 m' I (oinv_weaken kl k cs O)) as [I1 [O1 [Ew [Ed [Ho Hnn]]]]]; auto.
      { apply ph_lt; exact Hk4. } { apply live_false_null; exact V3. } { intros r Hr E. unfold p_h, p_rs in E. lia. }
      rewrite lift_step_eq. pose proof (but_after_step kl F cs1 (ONew k) k O1 W1 eq_refl eq_refl) as O2.
      rewrite Ew in *. rewrite (step_new_none kl cfg_fixed F (cw cs) k (cb_inv _ _ _ O) Hn) in *. cbn [fst snd bres_of] in *.
      intros E; inversion E; subst cs' b; clear E. split; [|split; [exact Ed|intros; discriminate]].
      apply (oinv_close kl k _ O2). intros _. rewrite live_with_cw, (nonnull_live _ _ Hnn). cbn [cw with_cw].
      rewrite has_set by (rewrite (inv_len (cb_inv _ _ _ O)); exact Hk4). rewrite Nat.eqb_refl; reflexivity.
    + intros E; inversion E; subst cs' b; clear E. destruct (fail_any kl 4 GF cs _ _ m' I O G) as [_ O1].
      split; [exact O1|split; [reflexivity|intros; discriminate]].
  - (* AFree *)
    intros E. destruct (do_free_compose kl F cs k cs' b I O Hk4 E) as [_ [O1 [D [Eb _]]]].
    split; [exact O1|split; [exact D|intros _ _; rewrite Eb; discriminate]].
  - (* ARead *)
    rewrite (Hff f eq_refl).
    destruct (do_free cfg_fixed F cs k) as [cs1 b1] eqn:Df.
    destruct (do_free_compose kl F cs k cs1 b1 I O Hk4 Df) as [I1 [O1 [D1 [Eb1 Lv1]]]]. subst b1.
    pose proof Lv1 as Hn. rewrite (oinv_link _ _ _ O1 Hk4) in Hn. apply has_false_none in Hn.
    pose proof (Forall_inv (Forall_inv_tail W)) as W2.
    destruct (g_new GF cs1 (p_h k) sz_table) as [[cs2|] m'] eqn:G.
    + destruct (new_any kl k GF cs1 (p_h k) sz_table cs2 m' I1 (oinv_weaken kl k cs1 O1)) as [I2 [O2 [Ew [Ed [Ho Hnn]]]]]; auto.
      { apply ph_lt; exact Hk4. } { apply live_false_null; exact Lv1. } { intros r Hr E. unfold p_h, p_rs in E. lia. }
      rewrite lift_step_eq. pose proof (but_after_step kl F cs2 (ONewRead k f) k O2 W2 eq_refl eq_refl) as O3.
      rewrite Ew in *.
      destruct (step_newread_none kl cfg_fixed F (cw cs1) k f (cb_inv _ _ _ O1) Hn) as [[o' [m2 Es]]|[m2 [why Es]]];
        rewrite Es in *; cbn [fst snd bres_of] in *.
      * intros E; inversion E; subst cs' b; clear E. split; [|split; [cbn [dead with_cw]; congruence|intros; discriminate]].
        apply (oinv_close kl k _ O3). intros _. rewrite live_with_cw, (nonnull_live _ _ Hnn). cbn [cw with_cw].
        rewrite has_set by (rewrite (inv_len (cb_inv _ _ _ O1)); exact Hk4). rewrite Nat.eqb_refl; reflexivity.
      * set (cs3 := with_cw cs2 (set_obj (cw cs1) k None m2)) in *.
        assert (I3 : ginv cs3) by (eapply ginv_ext; [| |exact I2]; reflexivity).
        destruct (del_any kl k cs3 (p_h k) sz_table I3 O3) as [I4 [O4 [Ew4 [Ed4 [Ho4 Hn4]]]]].
        { unfold p_h; lia. } { left; reflexivity. } { intros id bb Hs. eapply sized_claim; eauto. apply (gi_tab _ I3); auto. }
        intros E; inversion E; subst cs' b; clear E. split; [|split; [rewrite Ed4; unfold cs3; cbn [dead with_cw]; congruence|intros; discriminate]].
        apply (oinv_close kl k _ O4). intros _. rewrite (null_live_false _ _ Hn4), Ew4. unfold cs3; cbn [cw with_cw].
        rewrite has_set by (rewrite (inv_len (cb_inv _ _ _ O1)); exact Hk4). rewrite Nat.eqb_refl; reflexivity.
    + intros E; inversion E; subst cs' b; clear E. destruct (fail_any kl 4 GF cs1 _ _ m' I1 O1 G) as [_ O2].
      split; [exact O2|split; [exact D1|intros; discriminate]].
  - (* AWrite *)
    intros L. destruct (lift_plain kl F cs _ cs' b O (Forall_inv W) eq_refl L) as [O' [_ [_ [D NB]]]].
    split; [exact O'|split; [exact D|]]. intros Lv _. apply NB; [reflexivity|]. apply LH, Lv; reflexivity.
  - (* AGetKey *)
    intros E. assert (Ecs : cs' = cs) by (destruct (aux_ok _); [destruct (find_key _ _ _)|]; inversion E; reflexivity). subst cs'.
    split; [exact O|split; [reflexivity|]]. intros Lv _. specialize (Lv eq_refl).
    destruct (live_obj kl cs k O Hk4 Lv) as [o [Eo [Eoo Io]]]. rewrite Eoo, (aux_ok_of_inv o Io) in E.
    destruct (find_key _ _ _); inversion E; discriminate.
  - (* AReadKey *)
    intros E. assert (Ecs : cs' = cs) by (destruct (aux_ok _); [destruct (find_key _ _ _); [destruct parses|]|]; inversion E; reflexivity). subst cs'.
    split; [exact O|split; [reflexivity|]]. intros Lv _. specialize (Lv eq_refl).
    destruct (live_obj kl cs k O Hk4 Lv) as [o [Eo [Eoo Io]]]. rewrite Eoo, (aux_ok_of_inv o Io) in E.
    destruct (find_key _ _ _); [destruct parses|]; inversion E; discriminate.
  - (* AWriteKey *)
    intros L. destruct (lift_plain kl F cs _ cs' b O (Forall_inv W) eq_refl L) as [O' [_ [_ [D NB]]]].
    split; [exact O'|split; [exact D|]]. intros Lv _. apply NB; [reflexivity|]. apply LH, Lv; reflexivity.
  - (* AAcc *)
    intros E. assert (Ecs : cs' = cs) by (destruct a; try destruct (live cs k); try destruct (built _ && has_extents _); inversion E; reflexivity). subst cs'.
    split; [exact O|split; [reflexivity|]]. intros Lv P. specialize (Lv eq_refl).
    destruct (live_obj kl cs k O Hk4 Lv) as [o [Eo [Eoo Io]]]. unfold populated in P. rewrite Eoo in *.
    destruct a; rewrite ?Lv in E; try (inversion E; discriminate);
      (rewrite Lv in P; cbn [negb orb] in P; apply negb_true_iff, Nat.eqb_neq in P; rewrite (built_of_inv o Io P), (has_extents_of_inv o Io P) in E; inversion E; discriminate).
  - (* ASearch *)
    destruct (lift_step cfg_fixed F cs (OEval k)) as [cs1 b1] eqn:L.
    destruct (lift_eval kl F cs k cs1 b1 O Hk4 L) as [O1 [_ [_ [D1 Hb]]]].
    intros E. split; [|split].
    + destruct b1; inversion E; subst cs'; exact O1.
    + destruct b1; inversion E; subst cs'; exact D1.
    + intros Lv P. specialize (Lv eq_refl). rewrite Lv in P. cbn [negb orb] in P. apply negb_true_iff, Nat.eqb_neq in P.
      destruct (Hb Lv P) as [Eb _]. subst b1. destruct inside; inversion E; discriminate.
  - (* AEval *)
    intros L. destruct (lift_eval kl F cs k cs' b O Hk4 L) as [O1 [_ [_ [D1 Hb]]]]. split; [exact O1|split; [exact D1|]].
    intros Lv P. specialize (Lv eq_refl). rewrite Lv in P. cbn [negb orb] in P. apply negb_true_iff, Nat.eqb_neq in P.
    destruct (Hb Lv P) as [Eb _]. rewrite Eb; discriminate.
  - (* ADeriv *)
    intros L. destruct (lift_eval kl F cs k cs' b O Hk4 L) as [O1 [_ [_ [D1 Hb]]]]. split; [exact O1|split; [exact D1|]].
    intros Lv P. specialize (Lv eq_refl). rewrite Lv in P. cbn [negb orb] in P. apply negb_true_iff, Nat.eqb_neq in P.
    destruct (Hb Lv P) as [Eb _]. rewrite Eb; discriminate.
  - (* AGrad *)
    destruct (lift_step cfg_fixed F cs (OEval k)) as [cs1 b1] eqn:L.
    destruct (lift_eval kl F cs k cs1 b1 O Hk4 L) as [O1 [_ [_ [D1 Hb]]]].
    intros E. split; [|split].
    + destruct b1; try destruct (Nat.ltb _ _); inversion E; subst cs'; exact O1.
    + destruct b1; try destruct (Nat.ltb _ _); inversion E; subst cs'; exact D1.
    + intros Lv P. specialize (Lv eq_refl). rewrite Lv in P. cbn [negb orb] in P. apply negb_true_iff, Nat.eqb_neq in P.
      destruct (Hb Lv P) as [Eb _]. subst b1. destruct (Nat.ltb _ _); inversion E; discriminate.
  - (* AConvolve *)
    intros L. destruct (lift_plain kl F cs _ cs' b O (Forall_inv W) eq_refl L) as [O' [_ [_ [D NB]]]].
    split; [exact O'|split; [exact D|]]. intros Lv _. apply NB; [reflexivity|]. apply LH, Lv; reflexivity.
  - (* AReadMem *)
    pose proof (Forall_inv W) as W1. pose proof (Forall_inv (Forall_inv_tail W)) as W2.
    destruct (live cs k) eqn:Lv.
    + intros L. destruct (lift_plain kl F cs _ cs' b O W2 eq_refl L) as [O' [_ [_ [D NB]]]].
      split; [exact O'|split; [exact D|]]. intros _ _. apply NB; [reflexivity|]. apply LH; reflexivity.
    + pose proof Lv as Hn. rewrite (oinv_link _ _ _ O Hk4) in Hn. apply has_false_none in Hn.
      destruct (g_new GF cs (p_h k) sz_table) as [[cs1|] m'] eqn:G.
      * destruct (new_any kl k GF cs (p_h k) sz_table cs1 m' I (oinv_weaken kl k cs O)) as [I1 [O1 [Ew [Ed [Ho Hnn]]]]]; auto.
        { apply ph_lt; exact Hk4. } { apply live_false_null; exact Lv. } { intros r Hr E. unfold p_h, p_rs in E. lia. }
        rewrite lift_step_eq. pose proof (but_after_step kl F cs1 (ONew k) k O1 W1 eq_refl eq_refl) as O2.
        rewrite Ew in *. rewrite (step_new_none kl cfg_fixed F (cw cs) k (cb_inv _ _ _ O) Hn) in *. cbn [fst snd bres_of] in *.
        set (cs2 := with_cw cs1 (set_obj (cw cs) k (Some empty_obj) (wm (cw cs)))) in *.
        assert (Hh2 : has (cw cs2) k = true).
        { unfold cs2; cbn [cw with_cw]. rewrite has_set by (rewrite (inv_len (cb_inv _ _ _ O)); exact Hk4). rewrite Nat.eqb_refl; reflexivity. }
        assert (O2' : oinv kl cs2).
        { apply (oinv_close kl k _ O2). intros _. rewrite Hh2. unfold cs2. rewrite live_with_cw. apply nonnull_live; exact Hnn. }
        intros L. destruct (lift_plain kl F cs2 _ cs' b O2' W2 eq_refl L) as [O' [_ [_ [D NB]]]].
        split; [exact O'|split; [rewrite D; unfold cs2; cbn [dead with_cw]; exact Ed|]]. intros _ _. apply NB; [reflexivity|exact Hh2].
      * intros E; inversion E; subst cs' b; clear E. destruct (fail_any kl 4 GF cs _ _ m' I O G) as [_ O1].
        split; [exact O1|split; [reflexivity|intros; discriminate]].
  - (* AWriteMem *)
    apply andb_true_iff in V3. destruct V3 as [Vb Vn]. apply Nat.ltb_lt in Vb.
    destruct (lift_step cfg_fixed F cs (OWrite k fails)) as [cs1 b1] eqn:L.
    destruct (lift_plain kl F cs _ cs1 b1 O (Forall_inv W) eq_refl L) as [O1 [Em [Es [D1 NB]]]].
    pose proof (lift_step_inv _ _ _ _ _ _ I L) as I1.
    assert (N : gget cs1 (p_b b0) = Null).
    { unfold gget. rewrite Es. fold (gget cs (p_b b0)). destruct (gget cs (p_b b0)); try discriminate; auto. }
    destruct b1.
    + destruct (g_new GF cs1 (p_b b0) bytes) as [[cs2|] m'] eqn:G.
      * destruct (new_any kl 4 GF cs1 (p_b b0) bytes cs2 m' I1 O1) as [I2 [O2 [Ew [Ed _]]]]; auto.
        { apply pb_lt; exact Vb. } { right; unfold p_b; lia. } { intros j Hj E. unfold p_h, p_b in E. lia. }
        { intros r Hr E. unfold p_b, p_rs in E. lia. }
        intros E; inversion E; subst cs' b; clear E. split; [exact O2|split; [congruence|intros; discriminate]].
      * intros E; inversion E; subst cs' b; clear E. destruct (fail_any kl 4 GF cs1 _ _ m' I1 O1 G) as [_ O2].
        split; [exact O2|split; [exact D1|intros; discriminate]].
    + intros E; inversion E; subst cs' b; clear E. split; [exact O1|split; [exact D1|intros; discriminate]].
    + intros E; inversion E; subst cs' b; clear E. split; [exact O1|split; [exact D1|intros; discriminate]].
    + intros E; inversion E; subst cs' b; clear E. split; [exact O1|split; [exact D1|]].
      intros Lv _. apply NB; [reflexivity|]. apply LH, Lv; reflexivity.
  - (* ABufFree *)
    apply Nat.ltb_lt in V3. intros E; inversion E; subst cs' b; clear E.
    destruct (del_any kl 4 cs (p_b b0) (slot_bytes (gget cs (p_b b0))) I O) as [_ [O1 [_ [D _]]]].
    { apply pb_lt; exact V3. } { right; unfold p_b; lia. } { intros id bb Hs; rewrite Hs; reflexivity. }
    split; [exact O1|split; [exact D|intros; discriminate]].
  - (* AFit *)
    intros L. destruct (lift_plain kl F cs _ cs' b O (Forall_inv W) eq_refl L) as [O' [_ [_ [D NB]]]].
    split; [exact O'|split; [exact D|]]. intros Lv _. apply NB; [reflexivity|]. apply LH, Lv; reflexivity.
  - (* AGrideval *)
    apply andb_true_iff in V3. destruct V3 as [V3 Vp]. apply andb_true_iff in V3. destruct V3 as [Vr Vs]. apply Nat.ltb_lt in Vr.
    destruct (negb (built (obj_of cs k) && has_extents (obj_of cs k))) eqn:B.
    { intros E; inversion E; subst cs' b; clear E. split; [exact O|split; [reflexivity|]]. intros Lv P. specialize (Lv eq_refl).
      rewrite Lv in P. cbn [negb orb] in P. destruct (live_obj kl cs k O Hk4 Lv) as [o [Eo [Eoo Io]]]. unfold populated in P. rewrite Eoo in *.
      apply negb_true_iff, Nat.eqb_neq in P. rewrite (built_of_inv o Io P), (has_extents_of_inv o Io P) in B. discriminate. }
    destruct (Nat.eqb rows 0). { intros E; inversion E; subst cs' b. split; [exact O|split; [reflexivity|intros; discriminate]]. }
    assert (Ns : gget cs (p_rs r) = Null) by (destruct (gget cs (p_rs r)); try discriminate; auto).
    assert (Np : gget cs (p_rp r) = Null) by (destruct (gget cs (p_rp r)); try discriminate; auto).
    destruct (g_new GF cs (p_rs r) sz_nd) as [[cs1|] m'] eqn:G.
    + destruct (new_any kl 4 GF cs (p_rs r) sz_nd cs1 m' I O) as [I1 [O1 [Ew [Ed [Ho _]]]]]; auto.
      { apply prs_lt; exact Vr. } { right; unfold p_rs; lia. } { intros j Hj E. unfold p_h, p_rs in E. lia. }
      assert (Np1 : gget cs1 (p_rp r) = Null). { rewrite Ho; auto. unfold p_rp, p_rs. lia. }
      destruct (g_new GF cs1 (p_rp r) (nd_bytes (ndim (obj_of cs k)) rows)) as [[cs2|] m''] eqn:G2.
      * destruct (new_any kl 4 GF cs1 (p_rp r) (nd_bytes (ndim (obj_of cs k)) rows) cs2 m'' I1 O1) as [I2 [O2 [Ew2 [Ed2 _]]]]; auto.
        { apply prp_lt; exact Vr. } { right; unfold p_rp; lia. } { intros j Hj E. unfold p_h, p_rp in E. lia. }
        { intros r' Hr E. unfold p_rp, p_rs in E. lia. }
        intros E; inversion E; subst cs' b; clear E. split; [exact O2|split; [congruence|intros; discriminate]].
      * destruct (fail_any kl 4 GF cs1 _ _ m'' I1 O1 G2) as [I2 O2].
        destruct (del_any kl 4 (with_g cs1 m'' (gs cs1)) (p_rs r) sz_nd I2 O2) as [_ [O3 [_ [D3 _]]]].
        { apply prs_lt; exact Vr. } { right; unfold p_rs; lia. }
        { intros id bb Hs. eapply sized_claim; eauto. apply (gi_res _ I2); auto. }
        intros E; inversion E; subst cs' b; clear E. split; [exact O3|split; [rewrite D3; cbn [dead with_g]; exact Ed|intros; discriminate]].
    + intros E; inversion E; subst cs' b; clear E. destruct (fail_any kl 4 GF cs _ _ m' I O G) as [_ O1].
      split; [exact O1|split; [reflexivity|intros; discriminate]].
  - (* ANdDestroy *)
    apply Nat.ltb_lt in V3. rewrite (Hty r eq_refl).
    destruct (is_null (gget cs (p_rs r))). { intros E; inversion E; subst cs' b. split; [exact O|split; [reflexivity|intros; discriminate]]. }
    intros E; inversion E; subst cs' b; clear E.
    destruct (del_any kl 4 cs (p_rp r) (slot_bytes (gget cs (p_rp r))) I O) as [I1 [O1 [_ [D1 _]]]].
    { apply prp_lt; exact V3. } { right; unfold p_rp; lia. } { intros id bb Hs; rewrite Hs; reflexivity. }
    destruct (del_any kl 4 _ (p_rs r) sz_nd I1 O1) as [_ [O2 [_ [D2 _]]]].
    { apply prs_lt; exact V3. } { right; unfold p_rs; lia. } { intros id bb Hs. eapply sized_claim; eauto. apply (gi_res _ I1); auto. }
    split; [exact O2|split; [congruence|intros; discriminate]].
  - (* APermute *)
    intros L. destruct (lift_plain kl F cs _ cs' b O (Forall_inv W) eq_refl L) as [O' [_ [_ [D NB]]]].
    split; [exact O'|split; [exact D|]]. intros Lv _. apply NB; [reflexivity|]. apply LH, Lv; reflexivity.
Qed.

(* ---------------------------------------------------------------------------------------------- *)
(** * 4. Calls, sequences, reachable states *)

Lemma oinv_kill : forall kl x, oinv kl x -> oinv kl (kill x).
Proof. intros kl x [a b c d]. constructor; auto. Qed.

Lemma c_call_cinv : forall kl gt F GF cs call, glue_ok gt = true -> cinv kl cs -> valid_call cs call = true -> wf_call kl call ->
  cinv kl (fst (c_call gt cfg_fixed F GF cs call)).
Proof.
  intros kl gt F GF cs call G [I O] V W. split; [apply c_call_inv; auto|].
  destruct (glue_ok_struct gt G) as [H1 [H2 _]].
  unfold c_call. destruct (dead cs); [exact O|].
  destruct (existsb _ (g_pre_deref _)); [apply oinv_kill; exact O|].
  destruct (existsb _ (g_checked _)); [exact O|].
  destruct (existsb _ (derefs _)); [apply oinv_kill; exact O|].
  destruct (body _ cfg_fixed F GF cs call) as [cs' b] eqn:B.
  destruct (body_compose kl (glue_of gt (fname (c_args call))) F GF cs call cs' b I O V W) as [O' _]; [| |exact B|].
  - intros f A. rewrite A. exact H1.
  - intros r A. rewrite A. exact H2.
  - destruct b; cbn [fst]; auto. destruct (g_try _); cbn [fst]; auto. apply oinv_kill; exact O'. apply oinv_kill; exact O'.
Qed.

Lemma c_run_cinv : forall kl gt F GF calls cs, glue_ok gt = true -> cinv kl cs ->
  valid_sequence gt cfg_fixed F GF cs calls = true -> Forall (wf_call kl) calls ->
  cinv kl (fst (c_run gt cfg_fixed F GF cs calls)).
Proof.
  intros kl gt F GF calls. induction calls as [|x t IH]; intros cs G C V W; cbn in *; auto.
  apply andb_true_iff in V. destruct V as [V1 V2]. inversion W as [|? ? W1 W2]; subst.
  pose proof (c_call_cinv kl gt F GF cs x G C V1 W1) as C1.
  destruct (c_call gt cfg_fixed F GF cs x) as [cs' r]. cbn [fst] in *.
  specialize (IH cs' G C1 V2 W2). destruct (c_run gt cfg_fixed F GF cs' t) as [cs'' rs]. exact IH.
Qed.

Lemma cinv0 : forall kl, cinv kl cstate0.
Proof. intros kl. split; [exact ginv0|apply oinv0]. Qed.

(* the states a C program can reach through the interface *)
Inductive c_reach (kl : nat -> nat) (gt : list glue) (F GF : nat -> bool) : cstate -> Prop :=
| cr_init : c_reach kl gt F GF cstate0
| cr_call : forall cs call, c_reach kl gt F GF cs -> valid_call cs call = true -> wf_call kl call ->
            c_reach kl gt F GF (fst (c_call gt cfg_fixed F GF cs call)).

Theorem reach_cinv : forall kl gt F GF cs, glue_ok gt = true -> c_reach kl gt F GF cs -> cinv kl cs.
Proof. intros kl gt F GF cs G R. induction R; [apply cinv0|apply c_call_cinv; auto]. Qed.

Lemma all_released_gget : forall cs p, all_released cs = true -> gget cs p = Null.
Proof.
  intros cs p R. unfold all_released in R. rewrite forallb_forall in R. unfold gget.
  destruct (nth_in_or_default p (gs cs) Null) as [Hin|Hd]; [|exact Hd].
  specialize (R _ Hin). destruct (nth p (gs cs) Null); try discriminate; reflexivity.
Qed.

Lemma released_all_gone : forall kl cs, oinv kl cs -> all_released cs = true -> all_gone (cw cs).
Proof.
  intros kl cs O R j. destruct (Nat.lt_ge_cases j 4) as [Hj|Hj].
  - apply has_false_none. rewrite <- (oinv_link _ _ _ O Hj). apply null_live_false. apply all_released_gget; exact R.
  - unfold get_obj. apply nth_overflow. rewrite (inv_len (cb_inv _ _ _ O)). exact Hj.
Qed.

(* what the composed invariant says once everything has been released *)
Theorem cinv_released : forall kl cs, cinv kl cs -> all_released cs = true ->
  balanced (rev (trace (gm cs))) /\ balanced (rev (trace (wm (cw cs))))
  /\ hp (gm cs) = [] /\ hp (wm (cw cs)) = []
  /\ errs (gm cs) = [] /\ errs (wm (cw cs)) = []
  /\ lost (gm cs) = [] /\ lost (wm (cw cs)) = []
  /\ all_gone (cw cs) /\ crashed (cw cs) = false.
Proof.
  intros kl cs [I O] R.
  pose proof (released_all_gone kl cs O R) as AG.
  destruct (balanced_when_all_gone kl (cw cs) (cb_inv _ _ _ O) AG) as [B [Hh [Hl He]]].
  assert (Hg : hp (gm cs) = []).
  { pose proof (gi_perm _ I) as P. unfold all_released in R. rewrite (blocks_all_null _ R) in P. apply Permutation_nil in P. exact P. }
  split. { unfold balanced. rewrite (gi_replay _ I), Hg. reflexivity. }
  split; [exact B|]. split; [exact Hg|]. split; [exact Hh|]. split; [apply (cb_errs _ _ _ O)|]. split; [exact He|].
  split; [apply (cb_lost _ _ _ O)|]. split; [exact Hl|]. split; [exact AG|apply (inv_nc (cb_inv _ _ _ O))].
Qed.

(* ---- memory safety of one call ---- *)
(* the value-returning wrappers: no failure code of their own *)
Definition no_report (a : cargs) : bool := match a with AAcc _ | ASearch _ | AEval | ADeriv | AGrad => true | _ => false end.
(* OBLIGATION on the glue table: EVERY wrapper whose body uses table->data tests it first (until F18_1 the value-returning
   ones were exempt: `|| no_report a`) *)
Definition table_checked (gt : list glue) (a : cargs) : bool :=
  negb (needs_live a) || inb "table->data"%string (g_checked (glue_of gt (fname a))).

Lemma table_checked_all : forall gt, forallb (table_checked gt) all_shapes = true -> forall a, table_checked gt a = true.
Proof.
  intros gt H a. rewrite forallb_forall in H.
  destruct a; try reflexivity; try (match goal with a : acc |- _ => destruct a end);
    match goal with |- table_checked gt ?x = true => change (table_checked gt (shape_of x) = true) end;
    apply H; unfold all_shapes, all_accs; cbn [map app shape_of]; cbn [In]; tauto.
Qed.

Lemma existsb_single : forall s l, existsb (fun a => inb a [s]) l = inb s l.
Proof.
  intros s l. induction l as [|b t IH]; [reflexivity|].
  change (existsb (fun a => inb a [s]) (b :: t)) with (inb b [s] || existsb (fun a => inb a [s]) t).
  rewrite IH. cbn [inb]. rewrite (String.eqb_sym b s). destruct (String.eqb s b); reflexivity.
Qed.

Lemma eff_nulls_valid : forall cs call, valid_call cs call = true ->
  c_nulls call = [] /\ eff_nulls cs call = if live cs (c_h call) then [] else ["table->data"%string].
Proof.
  intros cs call V. unfold valid_call in V. apply andb_true_iff in V. destruct V as [V V3].
  apply andb_true_iff in V. destruct V as [_ Vn]. destruct (c_nulls call) eqn:N; [|discriminate]. split; [reflexivity|].
  unfold eff_nulls. rewrite N. cbn [inb app].
  destruct (c_args call); try apply app_nil_r.
  apply andb_true_iff in V3. destruct V3 as [_ V3]. rewrite V3. apply app_nil_r.
Qed.

Lemma ret_of_not_crashed : forall x, ret_of x <> Crashed.
Proof. destruct x; discriminate. Qed.
Lemma ret_ok_not_crashed : forall g, ret_ok g <> Crashed.
Proof.
  intros g. unfold ret_ok. destruct (g_ok_ret g); try discriminate.
  destruct (String.eqb _ _); [discriminate|]. destruct (String.eqb _ _); discriminate.
Qed.
Lemma ret_false_not_crashed : forall g, ret_false g <> Crashed.
Proof. intros g. unfold ret_false. destruct (g_false_ret g); try discriminate. destruct (String.eqb _ _); discriminate. Qed.

Theorem call_safe : forall kl gt F GF cs call,
  glue_ok gt = true -> forallb (table_checked gt) all_shapes = true ->
  cinv kl cs -> dead cs = false -> valid_call cs call = true -> wf_call kl call -> doc_pre cs call = true ->
  snd (c_call gt cfg_fixed F GF cs call) <> Crashed /\ dead (fst (c_call gt cfg_fixed F GF cs call)) = false.
Proof.
  intros kl gt F GF cs call G TC [I O] D V W P.
  destruct (glue_ok_struct gt G) as [H1 [H2 H3]].
  destruct (eff_nulls_valid cs call V) as [N EN].
  unfold c_call. rewrite D, EN, N. rewrite existsb_inb_nil.
  set (g := glue_of gt (fname (c_args call))).
  destruct (existsb _ (g_checked g)) eqn:CK.
  { cbn [fst snd]. split; [apply ret_of_not_crashed|exact D]. }
  assert (LV : needs_live (c_args call) = true -> live cs (c_h call) = true).
  { intros NL. destruct (live cs (c_h call)) eqn:Lv; [reflexivity|]. exfalso.
    rewrite existsb_single in CK. pose proof (table_checked_all gt TC (c_args call)) as T. unfold table_checked in T.
    rewrite NL in T. cbn [negb orb] in T. fold g in T. rewrite CK in T. discriminate T. }
  assert (DR : existsb (fun a => inb a (if live cs (c_h call) then [] else ["table->data"%string])) (derefs (c_args call)) = false).
  { destruct (live cs (c_h call)) eqn:Lv; [apply existsb_inb_nil|].
    rewrite existsb_single, <- needs_live_derefs. destruct (needs_live (c_args call)); [|reflexivity]. discriminate (LV eq_refl). }
  rewrite DR.
  destruct (body g cfg_fixed F GF cs call) as [cs' b] eqn:B.
  destruct (body_compose kl g F GF cs call cs' b I O V W) as [_ [D' NB]]; [| |exact B|].
  { intros f A. unfold g. rewrite A. exact H1. } { intros r A. unfold g. rewrite A. exact H2. }
  specialize (NB LV P). rewrite D in D'.
  destruct b; cbn [fst snd].
  - split; [apply ret_ok_not_crashed|exact D'].
  - split; [apply ret_false_not_crashed|exact D'].
  - pose proof (body_throw_may_throw _ _ _ _ _ _ _ _ B) as M.
    pose proof (protected_all gt H3 (c_args call)) as Pr. unfold glue_protected in Pr. rewrite M in Pr. cbn in Pr.
    rewrite orb_false_r in Pr. fold g in Pr. rewrite Pr. cbn [fst snd]. split; [apply ret_of_not_crashed|exact D'].
  - exfalso. apply NB. reflexivity.
Qed.

(* the member(s) a wrapper forwards to are safe_to_call (C20's `safe`) in the state the call finds, and never UB *)
Theorem twins_safe : forall kl cs call F x, cinv kl cs -> wf_call kl call -> In x (twins (c_args call) (c_h call)) ->
  (forall o, get_obj (cw cs) (target x) = Some o -> safe cfg_fixed o None x = true)
  /\ snd (cpp_step cfg_fixed F (cw cs) x) <> UB
  /\ Inv kl (fst (cpp_step cfg_fixed F (cw cs) x)).
Proof.
  intros kl cs call F x [_ O] W Hin. unfold wf_call in W. rewrite Forall_forall in W. specialize (W x Hin).
  destruct (step_Inv kl F (cw cs) x (cb_inv _ _ _ O) W) as [A B]. split; [|split; [exact B|exact A]].
  intros o Eo. apply (safe_from_Inv kl (cw cs) x o None (cb_inv _ _ _ O) Eo). intros o2 E; discriminate.
Qed.

(* documented preconditions along a run *)
Fixpoint pre_sequence (gt : list glue) (c : cfg) (F GF : nat -> bool) (cs : cstate) (calls : list ccall) : bool :=
  match calls with
  | [] => true
  | x :: t => doc_pre cs x && pre_sequence gt c F GF (fst (c_call gt c F GF cs x)) t
  end.

Lemma c_run_safe : forall kl gt F GF calls cs, glue_ok gt = true -> forallb (table_checked gt) all_shapes = true ->
  cinv kl cs -> dead cs = false ->
  valid_sequence gt cfg_fixed F GF cs calls = true -> Forall (wf_call kl) calls -> pre_sequence gt cfg_fixed F GF cs calls = true ->
  ~ In Crashed (snd (c_run gt cfg_fixed F GF cs calls)) /\ dead (fst (c_run gt cfg_fixed F GF cs calls)) = false.
Proof.
  intros kl gt F GF calls. induction calls as [|x t IH]; intros cs G TC C D V W P; cbn in *.
  - split; [intros []|exact D].
  - apply andb_true_iff in V. destruct V as [V1 V2]. apply andb_true_iff in P. destruct P as [P1 P2].
    inversion W as [|? ? W1 W2]; subst.
    pose proof (c_call_cinv kl gt F GF cs x G C V1 W1) as C1.
    destruct (call_safe kl gt F GF cs x G TC C D V1 W1 P1) as [NC D1].
    destruct (c_call gt cfg_fixed F GF cs x) as [cs' r]. cbn [fst snd] in *.
    destruct (IH cs' G TC C1 D1 V2 W2 P2) as [NI D2]. destruct (c_run gt cfg_fixed F GF cs' t) as [cs'' rs]. cbn [fst snd] in *.
    split; [|exact D2]. intros [E|Hin]; [apply NC; exact E|apply NI; exact Hin].
Qed.

Lemma c_run_no_escape : forall gt c F GF calls cs why, forallb (glue_protected gt) all_shapes = true ->
  ~ In (Escaped why) (snd (c_run gt c F GF cs calls)).
Proof.
  intros gt c F GF calls. induction calls as [|x t IH]; intros cs why Hp; cbn; [intros []|].
  pose proof (no_escape gt c F GF cs x why Hp) as NE.
  destruct (c_call gt c F GF cs x) as [cs' r]. cbn [snd] in NE.
  specialize (IH cs' why Hp). destruct (c_run gt c F GF cs' t) as [cs'' rs]. cbn [snd] in *.
  intros [E|Hin]; [apply NE; exact E|apply IH; exact Hin].
Qed.

(* ---- C18_balanced: the WHOLE allocation behaviour of a valid call sequence ---- *)
Theorem balanced_whole : forall kl gt F GF calls,
  glue_ok gt = true ->
  valid_sequence gt cfg_fixed F GF cstate0 calls = true ->
  Forall (wf_call kl) calls ->
  all_released (fst (c_run gt cfg_fixed F GF cstate0 calls)) = true ->
  let cs := fst (c_run gt cfg_fixed F GF cstate0 calls) in
  balanced (rev (trace (gm cs))) /\ balanced (rev (trace (wm (cw cs))))
  /\ hp (gm cs) = [] /\ hp (wm (cw cs)) = []
  /\ errs (gm cs) = [] /\ errs (wm (cw cs)) = []
  /\ lost (gm cs) = [] /\ lost (wm (cw cs)) = []
  /\ all_gone (cw cs) /\ crashed (cw cs) = false
  /\ (forall why, ~ In (Escaped why) (snd (c_run gt cfg_fixed F GF cstate0 calls))).
Proof.
  intros kl gt F GF calls G V W R cs.
  pose proof (c_run_cinv kl gt F GF calls cstate0 G (cinv0 kl) V W) as C.
  destruct (cinv_released kl cs C R) as [A1 [A2 [A3 [A4 [A5 [A6 [A7 [A8 [A9 A10]]]]]]]]].
  repeat (split; [assumption|]). intros why. apply c_run_no_escape. destruct (glue_ok_struct gt G) as [_ [_ H]]. exact H.
Qed.

(* ---------------------------------------------------------------------------------------------- *)
(** * 5. Faithfulness of the compound wrappers: each is the stated composition of cpp_steps and glue allocation events *)

(* one C++ member call on the object world of a C state *)
Definition cpp (F : nat -> bool) (cs : cstate) (x : op) : cstate * outcome :=
  (with_cw cs (fst (cpp_step cfg_fixed F (cw cs) x)), snd (cpp_step cfg_fixed F (cw cs) x)).

(* splinetable_init:  p = new splinetable<>  (bad_alloc: nothing happened), then the default constructor *)
Definition spec_init (F GF : nat -> bool) (cs : cstate) (k : nat) : cstate * outcome :=
  match g_new GF cs (p_h k) sz_table with
  | (None, m') => (with_g cs m' (gs cs), Failed RAlloc)
  | (Some cs1, _) => cpp F cs1 (ONew k)
  end.
(* splinetable_free:  if(table->data){ ~splinetable(); operator delete(storage); table->data = NULL; } *)
Definition spec_free (F : nat -> bool) (cs : cstate) (k : nat) : cstate :=
  if live cs k then g_del (fst (cpp F cs (ODestroy k))) (p_h k) sz_table else cs.
(* readsplinefitstable:  splinetable_free; new; reading constructor; a throwing constructor releases the storage *)
Definition spec_read (F GF : nat -> bool) (cs : cstate) (k : nat) (f : file) : cstate * outcome :=
  let cs1 := spec_free F cs k in
  match g_new GF cs1 (p_h k) sz_table with
  | (None, m') => (with_g cs1 m' (gs cs1), Failed RAlloc)
  | (Some cs2, _) =>
      match cpp F cs2 (ONewRead k f) with
      | (cs3, Failed r) => (g_del cs3 (p_h k) sz_table, Failed r)
      | r => r
      end
  end.
(* readsplinefitstable_mem:  if(!table->data) table->data = new splinetable<>();  then read_fits_mem *)
Definition spec_readmem (F GF : nat -> bool) (cs : cstate) (k : nat) (f : file) : cstate * outcome :=
  if live cs k then cpp F cs (ORead k f)
  else match g_new GF cs (p_h k) sz_table with
       | (None, m') => (with_g cs m' (gs cs), Failed RAlloc)
       | (Some cs1, _) => cpp F (fst (cpp F cs1 (ONew k))) (ORead k f)
       end.
(* writesplinefitstable_mem:  write_fits_mem, whose memory file (malloc) is handed to the caller *)
Definition spec_writemem (F GF : nat -> bool) (cs : cstate) (k b bytes : nat) (fails : bool) : cstate * outcome :=
  match cpp F cs (OWrite k fails) with
  | (cs1, Ok) => match g_new GF cs1 (p_b b) bytes with
                 | (None, m') => (with_g cs1 m' (gs cs1), Failed RAlloc)
                 | (Some cs2, _) => (cs2, Ok)
                 end
  | r => r
  end.
(* splinetable_grideval:  new photospline::ndsparse (object, then ndsparse_allocate; a failure of the second releases
   the first); the table is only read *)
Definition spec_grideval (GF : nat -> bool) (cs : cstate) (k r rows : nat) : cstate * outcome :=
  if Nat.eqb rows 0 then (cs, Failed RInvalid)
  else match g_new GF cs (p_rs r) sz_nd with
       | (None, m') => (with_g cs m' (gs cs), Failed RAlloc)
       | (Some cs1, _) =>
           match g_new GF cs1 (p_rp r) (nd_bytes (ndim (obj_of cs k)) rows) with
           | (None, m') => (g_del (with_g cs1 m' (gs cs1)) (p_rs r) sz_nd, Failed RAlloc)
           | (Some cs2, _) => (cs2, Ok)
           end
       end.
(* ndsparse_destroy:  delete (photospline::ndsparse* )nd  =  ~ndsparse() (ndsparse_free of the arrays), then the object *)
Definition spec_nddestroy (cs : cstate) (r : nat) : cstate :=
  if is_null (gget cs (p_rs r)) then cs
  else g_del (g_del cs (p_rp r) (slot_bytes (gget cs (p_rp r)))) (p_rs r) sz_nd.

Definition compound_spec (F GF : nat -> bool) (cs : cstate) (call : ccall) : option (cstate * outcome) :=
  let k := c_h call in
  match c_args call with
  | AInit => Some (spec_init F GF cs k)
  | CApiModel.AFree => Some (spec_free F cs k, Ok)
  | ARead f => Some (spec_read F GF cs k f)
  | AReadMem f => Some (spec_readmem F GF cs k f)
  | AWriteMem b bytes fails => Some (spec_writemem F GF cs k b bytes fails)
  | AGrideval r rows => Some (spec_grideval GF cs k r rows)
  | ANdDestroy r => Some (spec_nddestroy cs r, Ok)
  | _ => None
  end.

Lemma do_free_spec : forall kl F cs k, oinv kl cs -> k < 4 -> do_free cfg_fixed F cs k = (spec_free F cs k, BOk).
Proof.
  intros kl F cs k O Hk. unfold do_free, spec_free. destruct (live cs k) eqn:Lv; [|reflexivity].
  destruct (live_obj kl cs k O Hk Lv) as [o [Eo _]]. rewrite lift_step_eq. unfold cpp, cpp_step.
  rewrite (step_destroy_some kl F (cw cs) k o (cb_inv _ _ _ O) Eo). reflexivity.
Qed.

Lemma body_spec : forall kl g F GF cs call sp,
  ginv cs -> oinv kl cs -> valid_call cs call = true ->
  (forall f, c_args call = ARead f -> g_free_first g = true) ->
  (forall r, c_args call = ANdDestroy r -> String.eqb (g_member g) "delete photospline::ndsparse" = true) ->
  (needs_live (c_args call) = true -> live cs (c_h call) = true) -> doc_pre cs call = true ->
  compound_spec F GF cs call = Some sp ->
  body g cfg_fixed F GF cs call = (fst sp, bres_of (snd sp)).
Proof.
  intros kl g F GF cs call sp I O V Hff Hty LV P. unfold valid_call in V.
  apply andb_true_iff in V. destruct V as [V V3]. apply andb_true_iff in V. destruct V as [Vk _].
  apply Nat.ltb_lt in Vk. unfold compound_spec, doc_pre, body in *.
  destruct call as [k nl ca]. cbn [c_h c_args] in *. assert (Hk4 : k < 4) by lia.
  destruct ca as [| |f|fails|key|key parses|inv e|a|inside| | | |dim nk|f|b0 bytes fails|b0|s|r rows|r|p];
    cbv beta iota zeta in *; cbn [needs_live] in *; intros E; inversion E; subst sp; clear E.
  - (* AInit *)
    apply negb_true_iff in V3. pose proof V3 as Hn. rewrite (oinv_link _ _ _ O Hk4) in Hn. apply has_false_none in Hn.
    assert (Ab : abandon cs k = cs) by (unfold abandon; rewrite Hn; reflexivity). rewrite Ab.
    unfold spec_init. destruct (g_new GF cs (p_h k) sz_table) as [[cs1|] m']; [|reflexivity].
    rewrite lift_step_eq. reflexivity.
  - (* AFree *) apply (do_free_spec kl); assumption.
  - (* ARead *)
    rewrite (Hff f eq_refl), (do_free_spec kl F cs k O Hk4). unfold spec_read.
    destruct (g_new GF (spec_free F cs k) (p_h k) sz_table) as [[cs2|] m']; [|reflexivity].
    rewrite lift_step_eq. unfold cpp, cpp_step. destruct (step cfg_fixed F (cw cs2) (ONewRead k f)) as [w' o]. destruct o; reflexivity.
  - (* AReadMem *)
    unfold spec_readmem. destruct (live cs k) eqn:Lv; [rewrite lift_step_eq; reflexivity|].
    pose proof Lv as Hn. rewrite (oinv_link _ _ _ O Hk4) in Hn. apply has_false_none in Hn.
    destruct (g_new GF cs (p_h k) sz_table) as [[cs1|] m'] eqn:G; [|reflexivity].
    destruct (new_any kl k GF cs (p_h k) sz_table cs1 m' I (oinv_weaken kl k cs O)) as [_ [_ [Ew _]]]; auto.
    { apply ph_lt; exact Hk4. } { apply live_false_null; exact Lv. } { intros r Hr E. unfold p_h, p_rs in E. lia. }
    rewrite lift_step_eq. unfold cpp, cpp_step. rewrite Ew.
    rewrite (step_new_none kl cfg_fixed F (cw cs) k (cb_inv _ _ _ O) Hn). cbn [fst snd bres_of]. rewrite lift_step_eq. reflexivity.
  - (* AWriteMem *)
    rewrite lift_step_eq. unfold spec_writemem, cpp, cpp_step.
    destruct (step cfg_fixed F (cw cs) (OWrite k fails)) as [w' o]. destruct o; cbn [fst snd bres_of]; try reflexivity.
    destruct (g_new GF (with_cw cs w') (p_b b0) bytes) as [[cs2|] m']; reflexivity.
  - (* AGrideval *)
    specialize (LV eq_refl). rewrite LV in P. cbn [negb orb] in P.
    destruct (live_obj kl cs k O Hk4 LV) as [o [Eo [Eoo Io]]]. unfold populated in P. rewrite Eoo in *.
    apply negb_true_iff, Nat.eqb_neq in P. rewrite (built_of_inv o Io P), (has_extents_of_inv o Io P). cbn [andb negb].
    unfold spec_grideval. rewrite Eoo. destruct (Nat.eqb rows 0); [reflexivity|].
    destruct (g_new GF cs (p_rs r) sz_nd) as [[cs1|] m']; [|reflexivity].
    destruct (g_new GF cs1 (p_rp r) (nd_bytes (ndim o) rows)) as [[cs2|] m'']; reflexivity.
  - (* ANdDestroy *)
    rewrite (Hty r eq_refl). unfold spec_nddestroy. destruct (is_null (gget cs (p_rs r))); reflexivity.
Qed.

(* the leading check of the wrapper lets the call through *)
Definition passes (gt : list glue) (cs : cstate) (call : ccall) : bool :=
  negb (existsb (fun a => inb a (eff_nulls cs call)) (g_checked (glue_of gt (fname (c_args call))))).

Theorem faithful_compound : forall kl gt F GF cs call sp,
  glue_ok gt = true -> cinv kl cs -> dead cs = false -> valid_call cs call = true -> wf_call kl call ->
  (needs_live (c_args call) = true -> live cs (c_h call) = true) -> doc_pre cs call = true ->
  passes gt cs call = true ->
  compound_spec F GF cs call = Some sp ->
  c_call gt cfg_fixed F GF cs call = (fst sp, lift (glue_of gt (fname (c_args call))) (snd sp))
  /\ snd sp <> UB /\ snd sp <> Skipped.
Proof.
  intros kl gt F GF cs call sp G [I O] D V W LV P PS CS.
  destruct (glue_ok_struct gt G) as [H1 [H2 H3]].
  destruct (eff_nulls_valid cs call V) as [N EN].
  unfold passes in PS. apply negb_true_iff in PS.
  unfold c_call. rewrite D, N, existsb_inb_nil, PS. rewrite EN.
  set (g := glue_of gt (fname (c_args call))).
  assert (DR : existsb (fun a => inb a (if live cs (c_h call) then [] else ["table->data"%string])) (derefs (c_args call)) = false).
  { destruct (live cs (c_h call)) eqn:Lv; [apply existsb_inb_nil|].
    rewrite existsb_single, <- needs_live_derefs. destruct (needs_live (c_args call)); [|reflexivity]. discriminate (LV eq_refl). }
  rewrite DR.
  assert (Hff : forall f, c_args call = ARead f -> g_free_first g = true) by (intros f A; unfold g; rewrite A; exact H1).
  assert (Hty : forall r, c_args call = ANdDestroy r -> String.eqb (g_member g) "delete photospline::ndsparse" = true)
    by (intros r A; unfold g; rewrite A; exact H2).
  pose proof (body_spec kl g F GF cs call sp I O V Hff Hty LV P CS) as B.
  destruct (body_compose kl g F GF cs call _ _ I O V W Hff Hty B) as [_ [_ NB]]. specialize (NB LV P).
  rewrite B. destruct (snd sp) as [|r| |] eqn:E; cbn [bres_of lift] in *.
  - split; [reflexivity|split; discriminate].
  - pose proof (body_throw_may_throw _ _ _ _ _ _ _ _ B) as M.
    pose proof (protected_all gt H3 (c_args call)) as Pr. unfold glue_protected in Pr. rewrite M in Pr. cbn in Pr.
    rewrite orb_false_r in Pr. fold g in Pr. rewrite Pr. split; [reflexivity|split; discriminate].
  - exfalso; apply NB; reflexivity.
  - exfalso; apply NB; reflexivity.
Qed.

(* ---------------------------------------------------------------------------------------------- *)
(** * 6. The whole trace: every interleaving of the glue's and the objects' events is balanced

   The model keeps two allocators (the glue's new/malloc and the objects' Alloc) with their own block ids and does not
   record how their events interleave in time.  The real trace is SOME interleaving; block ids are kept apart by
   tagging (glue: 2*id, objects: 2*id+1).  Strict replay of any such interleaving succeeds and ends with an empty heap. *)

Definition tag_id (t id : nat) : nat := 2 * id + t.
Arguments tag_id : simpl never.
Definition tag_ev (t : nat) (e : ev) : ev :=
  match e with Alloc id b => Alloc (tag_id t id) b | Free id b => Free (tag_id t id) b | x => x end.

(* c is an interleaving of a (tagged 0) and b (tagged 1) *)
Inductive tmerge : list ev -> list ev -> list ev -> Prop :=
| tm_nil : tmerge [] [] []
| tm_l : forall e a b c, tmerge a b c -> tmerge (e :: a) b (tag_ev 0 e :: c)
| tm_r : forall e a b c, tmerge a b c -> tmerge a (e :: b) (tag_ev 1 e :: c).
Inductive hmerge : heap -> heap -> heap -> Prop :=
| hm_nil : hmerge [] [] []
| hm_l : forall id b ha hb h, hmerge ha hb h -> hmerge ((id, b) :: ha) hb ((tag_id 0 id, b) :: h)
| hm_r : forall id b ha hb h, hmerge ha hb h -> hmerge ha ((id, b) :: hb) ((tag_id 1 id, b) :: h).

Lemma tag_eqb_same : forall t a b, Nat.eqb (tag_id t a) (tag_id t b) = Nat.eqb a b.
Proof. intros t a b. unfold tag_id. destruct (Nat.eqb_spec a b), (Nat.eqb_spec (2 * a + t) (2 * b + t)); try reflexivity; lia. Qed.
Lemma tag_eqb_01 : forall a b, Nat.eqb (tag_id 0 a) (tag_id 1 b) = false.
Proof. intros a b. unfold tag_id. apply Nat.eqb_neq. lia. Qed.
Lemma tag_eqb_10 : forall a b, Nat.eqb (tag_id 1 a) (tag_id 0 b) = false.
Proof. intros a b. unfold tag_id. apply Nat.eqb_neq. lia. Qed.

Lemma lookup_merge_l : forall ha hb h id, hmerge ha hb h -> lookup (tag_id 0 id) h = lookup id ha.
Proof.
  intros ha hb h id M. induction M; cbn [lookup]; auto.
  - rewrite tag_eqb_same. destruct (Nat.eqb id0 id); auto.
  - rewrite tag_eqb_10. exact IHM.
Qed.
Lemma lookup_merge_r : forall ha hb h id, hmerge ha hb h -> lookup (tag_id 1 id) h = lookup id hb.
Proof.
  intros ha hb h id M. induction M; cbn [lookup]; auto.
  - rewrite tag_eqb_01. exact IHM.
  - rewrite tag_eqb_same. destruct (Nat.eqb id0 id); auto.
Qed.
Lemma remove_merge_l : forall ha hb h id, hmerge ha hb h -> hmerge (remove_id id ha) hb (remove_id (tag_id 0 id) h).
Proof.
  intros ha hb h id M. induction M; cbn [remove_id]; try constructor.
  - rewrite tag_eqb_same. destruct (Nat.eqb id0 id); [exact M|constructor; exact IHM].
  - rewrite tag_eqb_10. constructor. exact IHM.
Qed.
Lemma remove_merge_r : forall ha hb h id, hmerge ha hb h -> hmerge ha (remove_id id hb) (remove_id (tag_id 1 id) h).
Proof.
  intros ha hb h id M. induction M; cbn [remove_id]; try constructor.
  - rewrite tag_eqb_01. constructor. exact IHM.
  - rewrite tag_eqb_same. destruct (Nat.eqb id0 id); [exact M|constructor; exact IHM].
Qed.

Lemma replay_ev_merge_l : forall ha hb h e ha1, hmerge ha hb h -> replay_ev ha e = Some ha1 ->
  exists h1, replay_ev h (tag_ev 0 e) = Some h1 /\ hmerge ha1 hb h1.
Proof.
  intros ha hb h e ha1 M R. destruct e as [id b|id b| |c]; cbn [replay_ev tag_ev] in *.
  - rewrite (lookup_merge_l _ _ _ id M). destruct (lookup id ha); [discriminate|]. inversion R; subst.
    eexists; split; [reflexivity|constructor; exact M].
  - rewrite (lookup_merge_l _ _ _ id M). destruct (lookup id ha) as [b'|]; [|discriminate].
    destruct (Nat.eqb b b'); [|discriminate]. inversion R; subst. eexists; split; [reflexivity|apply remove_merge_l; exact M].
  - inversion R; subst. eexists; split; [reflexivity|exact M].
  - discriminate.
Qed.
Lemma replay_ev_merge_r : forall ha hb h e hb1, hmerge ha hb h -> replay_ev hb e = Some hb1 ->
  exists h1, replay_ev h (tag_ev 1 e) = Some h1 /\ hmerge ha hb1 h1.
Proof.
  intros ha hb h e hb1 M R. destruct e as [id b|id b| |c]; cbn [replay_ev tag_ev] in *.
  - rewrite (lookup_merge_r _ _ _ id M). destruct (lookup id hb); [discriminate|]. inversion R; subst.
    eexists; split; [reflexivity|constructor; exact M].
  - rewrite (lookup_merge_r _ _ _ id M). destruct (lookup id hb) as [b'|]; [|discriminate].
    destruct (Nat.eqb b b'); [|discriminate]. inversion R; subst. eexists; split; [reflexivity|apply remove_merge_r; exact M].
  - inversion R; subst. eexists; split; [reflexivity|exact M].
  - discriminate.
Qed.

Lemma replay_merge : forall ta tb t, tmerge ta tb t -> forall ha hb h ha' hb', hmerge ha hb h ->
  replay ta ha = Some ha' -> replay tb hb = Some hb' -> exists h', replay t h = Some h' /\ hmerge ha' hb' h'.
Proof.
  intros ta tb t T. induction T; intros ha hb h ha' hb' M Ra Rb; cbn [replay] in *.
  - inversion Ra; inversion Rb; subst. eauto.
  - destruct (replay_ev ha e) as [ha1|] eqn:E; [|discriminate].
    destruct (replay_ev_merge_l _ _ _ _ _ M E) as [h1 [E1 M1]]. rewrite E1. eapply IHT; eauto.
  - destruct (replay_ev hb e) as [hb1|] eqn:E; [|discriminate].
    destruct (replay_ev_merge_r _ _ _ _ _ M E) as [h1 [E1 M1]]. rewrite E1. eapply IHT; eauto.
Qed.

Theorem interleaved_balanced : forall ta tb t, balanced ta -> balanced tb -> tmerge ta tb t -> balanced t.
Proof.
  intros ta tb t Ba Bb T. unfold balanced in *.
  destruct (replay_merge ta tb t T [] [] [] [] [] hm_nil Ba Bb) as [h' [R M]]. inversion M; subst. exact R.
Qed.

(* interleavings exist: e.g. all glue events first *)
Lemma tmerge_concat : forall ta tb, tmerge ta tb (map (tag_ev 0) ta ++ map (tag_ev 1) tb).
Proof.
  induction ta as [|e ta IH]; intros tb; cbn.
  - induction tb as [|e tb IH]; cbn; constructor; auto.
  - constructor. apply IH.
Qed.

Theorem balanced_interleaved : forall kl gt F GF calls,
  glue_ok gt = true ->
  valid_sequence gt cfg_fixed F GF cstate0 calls = true ->
  Forall (wf_call kl) calls ->
  all_released (fst (c_run gt cfg_fixed F GF cstate0 calls)) = true ->
  forall t, tmerge (rev (trace (gm (fst (c_run gt cfg_fixed F GF cstate0 calls)))))
                   (rev (trace (wm (cw (fst (c_run gt cfg_fixed F GF cstate0 calls)))))) t -> balanced t.
Proof.
  intros kl gt F GF calls G V W R t T.
  pose proof (balanced_whole kl gt F GF calls G V W R) as H. cbv zeta in H. destruct H as [A [B _]].
  exact (interleaved_balanced _ _ _ A B T).
Qed.

(* ---- memory safety, assembled ---- *)
Theorem memory_safe : forall kl gt F GF cs call,
  glue_ok gt = true -> forallb (table_checked gt) all_shapes = true ->
  cinv kl cs -> dead cs = false -> valid_call cs call = true -> wf_call kl call -> doc_pre cs call = true ->
  snd (c_call gt cfg_fixed F GF cs call) <> Crashed
  /\ (forall why, snd (c_call gt cfg_fixed F GF cs call) <> Escaped why)
  /\ dead (fst (c_call gt cfg_fixed F GF cs call)) = false
  /\ cinv kl (fst (c_call gt cfg_fixed F GF cs call))
  /\ (forall x, In x (twins (c_args call) (c_h call)) ->
        (forall o, get_obj (cw cs) (target x) = Some o -> safe cfg_fixed o None x = true)
        /\ snd (cpp_step cfg_fixed F (cw cs) x) <> UB).
Proof.
  intros kl gt F GF cs call G TC C D V W P.
  destruct (call_safe kl gt F GF cs call G TC C D V W P) as [A B].
  split; [exact A|]. split; [intros why; apply no_escape; destruct (glue_ok_struct gt G) as [_ [_ H]]; exact H|].
  split; [exact B|]. split; [apply c_call_cinv; auto|].
  intros x Hin. destruct (twins_safe kl cs call F x C W Hin) as [S [U _]]. split; assumption.
Qed.

(* The C interface has no wrapper for remove_key: no C call reaches ObjModel.step_remove_key, the only place where the
   configuration bit fx_rmkey (proposed fix C20_10) is consulted.  Hence every statement about C call sequences holds
   whatever that bit is: the run is the same function of the other eight bits. *)
Definition with_rmkey (c : cfg) (b : bool) : cfg :=
  {| fx_aux := fx_aux c; fx_clear := fx_clear c; fx_conv := fx_conv c; fx_fit := fx_fit c; fx_eq := fx_eq c; fx_perm := fx_perm c;
     fx_moveasg := fx_moveasg c; fx_auxsize := fx_auxsize c; fx_rmkey := b |}.

Lemma body_rmkey : forall g c b F GF cs call, body g (with_rmkey c b) F GF cs call = body g c F GF cs call.
Proof. intros g c b F GF cs call. unfold body. destruct (c_args call); reflexivity. Qed.

Lemma c_call_rmkey : forall gt c b F GF cs call, c_call gt (with_rmkey c b) F GF cs call = c_call gt c F GF cs call.
Proof. intros. unfold c_call. rewrite body_rmkey. reflexivity. Qed.

Lemma c_run_rmkey : forall gt c b F GF calls cs, c_run gt (with_rmkey c b) F GF cs calls = c_run gt c F GF cs calls.
Proof.
  intros gt c b F GF calls; induction calls as [|x t IH]; intros cs; [reflexivity|].
  cbn [c_run]. rewrite c_call_rmkey. destruct (c_call gt c F GF cs x) as [cs' r]. rewrite IH. reflexivity.
Qed.

Lemma valid_sequence_rmkey : forall gt c b F GF calls cs,
  valid_sequence gt (with_rmkey c b) F GF cs calls = valid_sequence gt c F GF cs calls.
Proof.
  intros gt c b F GF calls; induction calls as [|x t IH]; intros cs; [reflexivity|].
  cbn [valid_sequence]. rewrite c_call_rmkey, IH. reflexivity.
Qed.

(* the working tree: glue table and cfg as transcribed from the sources (the first eight bits of tree_cfg are those of
   cfg_fixed exactly when the tree contains every C20 fix the C interface can reach; the ninth, remove_key's, is irrelevant
   to it — Properties_C20.C20_tree_is_fixed demands all nine) *)
Theorem balanced_tree : forall kl F GF calls,
  valid_sequence wrappers tree_cfg F GF cstate0 calls = true ->
  Forall (wf_call kl) calls ->
  all_released (fst (c_run wrappers tree_cfg F GF cstate0 calls)) = true ->
  (forall t, tmerge (rev (trace (gm (fst (c_run wrappers tree_cfg F GF cstate0 calls)))))
                    (rev (trace (wm (cw (fst (c_run wrappers tree_cfg F GF cstate0 calls)))))) t -> balanced t)
  /\ errs (gm (fst (c_run wrappers tree_cfg F GF cstate0 calls))) = [] /\ errs (wm (cw (fst (c_run wrappers tree_cfg F GF cstate0 calls)))) = []
  /\ lost (gm (fst (c_run wrappers tree_cfg F GF cstate0 calls))) = [] /\ lost (wm (cw (fst (c_run wrappers tree_cfg F GF cstate0 calls)))) = []
  /\ crashed (cw (fst (c_run wrappers tree_cfg F GF cstate0 calls))) = false.
Proof.
  intros kl F GF calls.
  assert (E : tree_cfg = with_rmkey cfg_fixed (fx_rmkey tree_cfg)) by reflexivity. rewrite E. clear E.
  rewrite !c_run_rmkey, valid_sequence_rmkey. intros V W R.
  pose proof (balanced_whole kl wrappers F GF calls tree_glue_ok V W R) as H. cbv zeta in H.
  destruct H as [A [B [_ [_ [E1 [E2 [L1 [L2 [_ [C _]]]]]]]]]].
  split; [intros t T; exact (interleaved_balanced _ _ _ A B T)|]. repeat (split; [assumption|]). exact C.
Qed.

Lemma c_run_reach : forall kl gt F GF calls cs, c_reach kl gt F GF cs ->
  valid_sequence gt cfg_fixed F GF cs calls = true -> Forall (wf_call kl) calls ->
  c_reach kl gt F GF (fst (c_run gt cfg_fixed F GF cs calls)).
Proof.
  intros kl gt F GF calls. induction calls as [|x t IH]; intros cs R V W; cbn in *; auto.
  apply andb_true_iff in V. destruct V as [V1 V2]. inversion W as [|? ? W1 W2]; subst.
  pose proof (cr_call kl gt F GF cs x R V1 W1) as R1.
  destruct (c_call gt cfg_fixed F GF cs x) as [cs' r]. cbn [fst] in *.
  specialize (IH cs' R1 V2 W2). destruct (c_run gt cfg_fixed F GF cs' t) as [cs'' rs]. exact IH.
Qed.

(* ---- NULL arguments: a NULL pointer that the leading check tests is refused before anything is touched ---- *)
Lemma existsb_inb_hit : forall p nl l, inb p nl = true -> inb p l = true -> existsb (fun a => inb a nl) l = true.
Proof.
  intros p nl l Hn. induction l as [|b t IH]; cbn [inb existsb]; [discriminate|].
  destruct (String.eqb_spec p b) as [->|N]; [rewrite Hn; reflexivity|]. intros H. rewrite (IH H). apply orb_true_r.
Qed.
Lemma inb_app_l : forall p a b, inb p a = true -> inb p (a ++ b) = true.
Proof. intros p a b. induction a as [|x a IH]; cbn [inb app]; [discriminate|]. destruct (String.eqb p x); auto. Qed.

Theorem null_refused : forall gt c F GF cs call p,
  dead cs = false ->
  existsb (fun a => inb a (c_nulls call)) (g_pre_deref (glue_of gt (fname (c_args call)))) = false ->
  inb p (c_nulls call) = true -> inb p (g_checked (glue_of gt (fname (c_args call)))) = true ->
  c_call gt c F GF cs call = (cs, ret_of (g_check_ret (glue_of gt (fname (c_args call))))).
Proof.
  intros gt c F GF cs call p D PD Hn Hc. unfold c_call. rewrite D, PD.
  rewrite (existsb_inb_hit p (eff_nulls cs call) _); [reflexivity| |exact Hc].
  unfold eff_nulls. apply inb_app_l. exact Hn.
Qed.

Lemma glue_of_pre_deref : forall gt n, forallb (fun g => match g_pre_deref g with [] => true | _ => false end) gt = true ->
  g_pre_deref (glue_of gt n) = [].
Proof.
  intros gt n. induction gt as [|g t IH]; cbn [glue_of forallb]; [reflexivity|]. intros H. apply andb_true_iff in H. destruct H as [Hg Ht].
  destruct (String.eqb (g_name g) n); [destruct (g_pre_deref g); [reflexivity|discriminate]|apply IH; exact Ht].
Qed.

Theorem null_refused_tree : forall c F GF cs call p,
  dead cs = false -> inb p (c_nulls call) = true -> inb p (g_checked (glue_of wrappers (fname (c_args call)))) = true ->
  c_call wrappers c F GF cs call = (cs, ret_of (g_check_ret (glue_of wrappers (fname (c_args call)))))
  /\ ret_of (g_check_ret (glue_of wrappers (fname (c_args call)))) <> Crashed.
Proof.
  intros c F GF cs call p D Hn Hc. split; [|apply ret_of_not_crashed].
  apply (null_refused wrappers c F GF cs call p D); [|exact Hn|exact Hc].
  rewrite glue_of_pre_deref; [reflexivity|vm_compute; reflexivity].
Qed.

(* ---- a handle WITHOUT a table (zero-initialised, after a failed readsplinefitstable, after splinetable_free) or a NULL
        handle: every wrapper that uses the table refuses before touching anything — state unchanged, the value of its
        leading check returned (F18_1 brought the value-returning wrappers under this) ---- *)
Lemma inb_middle : forall p a b, inb p (a ++ p :: b) = true.
Proof. intros p a b. induction a as [|x a IH]; cbn [app inb]; [rewrite String.eqb_refl; reflexivity|]. destruct (String.eqb p x); auto. Qed.

Theorem no_table_refused : forall gt c F GF cs call,
  dead cs = false -> table_checked gt (c_args call) = true -> needs_live (c_args call) = true ->
  existsb (fun a => inb a (c_nulls call)) (g_pre_deref (glue_of gt (fname (c_args call)))) = false ->
  inb "table"%string (c_nulls call) = false -> live cs (c_h call) = false ->
  c_call gt c F GF cs call = (cs, ret_of (g_check_ret (glue_of gt (fname (c_args call))))).
Proof.
  intros gt c F GF cs call D T NL PD Hn Lv. unfold c_call. rewrite D, PD.
  unfold table_checked in T. rewrite NL in T. cbn [negb orb] in T.
  rewrite (existsb_inb_hit "table->data"%string (eff_nulls cs call) _); [reflexivity| |exact T].
  unfold eff_nulls. rewrite Hn, Lv. apply inb_middle.
Qed.

(* what include/photospline/cinter/splinetable.h documents for a handle without a table *)
Definition no_table_value (a : cargs) : cres :=
  match a with
  | AAcc AccKnots | AAcc AccCoeff | AGetKey _ => RPtr false                                   (* NULL *)
  | AAcc AccKnot | AAcc AccLower | AAcc AccUpper | AAcc AccPeriod | AEval | ADeriv => RNaN     (* NaN returned *)
  | AGrad => RNaN                                                                             (* evaluates[0] = NaN *)
  | AAcc _ | ASearch _ => RInt 0                                                              (* no dimensions, no knots, no coefficients; "outside" *)
  | _ => RInt 1                                                                               (* the int-returning wrappers: failure *)
  end.

Lemma tree_checks_table : forall a, needs_live a = true ->
  inb "table"%string (g_checked (glue_of wrappers (fname a))) = true
  /\ inb "table->data"%string (g_checked (glue_of wrappers (fname a))) = true
  /\ ret_of (g_check_ret (glue_of wrappers (fname a))) = no_table_value a.
Proof.
  intros a H. destruct a; try discriminate H; try (match goal with a : acc |- _ => destruct a end);
    vm_compute; repeat split; reflexivity.
Qed.

Theorem no_table_refused_tree : forall c F GF cs call,
  dead cs = false -> needs_live (c_args call) = true ->
  inb "table"%string (c_nulls call) = true \/ live cs (c_h call) = false ->
  c_call wrappers c F GF cs call = (cs, no_table_value (c_args call))
  /\ no_table_value (c_args call) <> Crashed /\ (forall why, no_table_value (c_args call) <> Escaped why).
Proof.
  intros c F GF cs call D NL H.
  destruct (tree_checks_table (c_args call) NL) as [Ct [Cd Ev]].
  split; [|split; [rewrite <- Ev; apply ret_of_not_crashed|intros why; rewrite <- Ev; destruct (g_check_ret _); discriminate]].
  rewrite <- Ev.
  assert (PD : g_pre_deref (glue_of wrappers (fname (c_args call))) = []) by (apply glue_of_pre_deref; vm_compute; reflexivity).
  destruct (inb "table"%string (c_nulls call)) eqn:Hn.
  - apply (null_refused wrappers c F GF cs call "table"%string D); [rewrite PD; reflexivity|exact Hn|exact Ct].
  - destruct H as [H|Lv]; [discriminate H|].
    apply no_table_refused; auto.
    + unfold table_checked. rewrite Cd. apply orb_true_r.
    + rewrite PD. reflexivity.
Qed.
