(* C11_LH_Proofs.v — nnls_lawson_hanson on pre-formulated normal equations (NnlsModel2.lh_run with all
   coefficients constrained, npos = n): what the three "converged" exits of the source certify.

     `if (nZ == 0) break;`                      => KKT exactly
     `if (wmax <= 0) break;`                    => KKT exactly              } provided the coefficient freed last is not
     `wmax < tolerance && ...` break            => KKT within `tolerance`   } back in Z at a position >= 1 (see below)

   The proviso is needed because the source's maximum search skips Z[i] == last_freed for i >= 1
   (`if (w[Z[i]] > wmax && last_freed != Z[i])`), so `wmax` is not the maximum of w over Z when last_freed is in
   Z[1..]. In exact arithmetic this does not seem to occur (0 of > 40 000 generated systems; the classical argument:
   the objective strictly decreases in the inner loop, so the support cannot fall back into the previous passive
   set) but that needs positive definiteness and is NOT proved here: hence `_partial`. Only the equations of the
   reduced solve are used (no symmetry, no definiteness). *)
From Coq Require Import List Bool ZArith Lia Field Ring PeanoNat.
From PS Require Import Arith NnlsModel NnlsModel2 C11_Spec C11_KKT_Proofs C11_Exit_Proofs.
Import ListNotations.

(* ---- partitions under moving one element --------------------------------------------------------------- *)
Lemma part_sym n F G : part n F G -> part n G F.
Proof.
  intros (HF & HG & BF & BG & Hc & Hd). unfold part. repeat split; auto.
  - intros i Hi. destruct (Hc i Hi); auto.
  - intros i H1 H2. apply (Hd i); auto.
Qed.

Lemma part_move n l1 i l2 G : part n (l1 ++ i :: l2) G -> part n (l1 ++ l2) (G ++ [i]).
Proof.
  intros (HF & HG & BF & BG & Hc & Hd). unfold part.
  assert (Hi : ~ In i (l1 ++ l2)) by (apply NoDup_remove_2; auto).
  assert (HiF : In i (l1 ++ i :: l2)) by (apply in_or_app; right; left; auto).
  assert (Hsub : forall j, In j (l1 ++ l2) -> In j (l1 ++ i :: l2)).
  { intros j Hj. apply in_app_or in Hj. apply in_or_app. destruct Hj; [left | right; right]; auto. }
  repeat split.
  - apply NoDup_remove_1 in HF. exact HF.
  - apply NoDup_app'; auto; [constructor; [intros [] | constructor]|].
    intros x Hx [E|[]]. subst x. apply (Hd i); auto.
  - intros j Hj. apply BF. auto.
  - intros j Hj. apply in_app_or in Hj. destruct Hj as [Hj|[E|[]]]; [auto | subst j; auto].
  - intros j Hj. destruct (Nat.eq_dec j i) as [->|Hne].
    + right. apply in_or_app. right. left. auto.
    + destruct (Hc j Hj) as [H|H].
      * left. apply in_app_or in H. apply in_or_app. destruct H as [H|[H|H]]; auto. congruence.
      * right. apply in_or_app. left. auto.
  - intros j Hj1 Hj2. apply in_app_or in Hj2. destruct Hj2 as [Hj2|[E|[]]].
    + apply (Hd j); auto.
    + subst j. contradiction.
Qed.

Lemma remove_at_split : forall (t : nat) (Z : list nat), t < length Z ->
  exists Z1 Z2, Z = Z1 ++ nth t Z 0 :: Z2 /\ remove_at t Z = Z1 ++ Z2.
Proof.
  induction t as [|t IH]; intros [|a Z] Ht; cbn [length] in Ht; try lia.
  - exists [], Z. split; reflexivity.
  - destruct (IH Z) as (Z1 & Z2 & E1 & E2); [lia|].
    exists (a :: Z1), Z2. cbn [nth remove_at app]. split; [f_equal; exact E1 | f_equal; exact E2].
Qed.

Section LH.
Context {A : Arith}.
Variable OF : OField A.
Notation K := (T A).

Add Field Kf3 : (OF_field A OF).

Variable solve : list nat -> option (list K).
Variable M : list (list K).
Variable b : list K.
Variable tolerance : K.
Variable min_iterations max_iterations : nat.
Hypothesis HM : wf_mat (length b) M.
Hypothesis Hsolve : solve_ok solve M b.
Notation n := (length b).

(* ---- the maximum search -------------------------------------------------------------------------------- *)
Lemma argmax_w_bound (w : list K) lf : forall Zr i t wmax, t < i ->
  fst (argmax_w w lf Zr i t wmax) < i + length Zr.
Proof.
  induction Zr as [|z Zr IH]; intros i t wmax Ht; cbn [argmax_w fst length]; [lia|].
  destruct (_ && _).
  - specialize (IH (S i) i (nthK w z)). lia.
  - specialize (IH (S i) t wmax). lia.
Qed.

Lemma lt_le' (a c : K) : ltb a c = true -> le a c.
Proof. intro H. apply (lt_le OF). exact H. Qed.

Lemma argmax_w_max (w : list K) lf : forall Zr i t wmax,
  le wmax (snd (argmax_w w lf Zr i t wmax)) /\
  (forall z, In z Zr -> is_lf lf z = false -> le (nthK w z) (snd (argmax_w w lf Zr i t wmax))).
Proof.
  induction Zr as [|z Zr IH]; intros i t wmax; cbn [argmax_w snd].
  - split; [apply (le_refl OF) | intros z []].
  - destruct (ltb wmax (nthK w z)) eqn:El; cbn [andb].
    + destruct (is_lf lf z) eqn:Elf; cbn [negb].
      * destruct (IH (S i) t wmax) as [I1 I2]. split; auto.
        intros z' [<-|Hz'] Hn; [congruence | auto].
      * destruct (IH (S i) i (nthK w z)) as [I1 I2]. split.
        -- eapply (le_trans OF); [apply lt_le'; exact El | exact I1].
        -- intros z' [<-|Hz'] Hn; auto.
    + destruct (IH (S i) t wmax) as [I1 I2]. split; auto.
      intros z' [<-|Hz'] Hn; auto.
      eapply (le_trans OF); [apply (ltb_false_le OF); exact El | exact I1].
Qed.

(* ---- a vector supported on P that solves the reduced system has zero gradient on P ----------------------- *)
Lemma solved_gradient_zero (P : list nat) (p x' : list K) :
  NoDup P -> (forall i, In i P -> i < n) -> solve P = Some p -> gather x' P = p ->
  (forall j, ~ In j P -> nthK x' j = zero) ->
  forall i, In i P -> nthK (gradient M b x') i = zero.
Proof.
  intros NP BP Hs Hg Hz i Hi.
  destruct (Hsolve P p Hs) as [Hl He].
  assert (HMl : length M = n) by apply HM.
  assert (Hin : i < n) by auto.
  rewrite nthK_gradient by auto.
  rewrite (dot_support OF (row M i) x' P n) by (auto; rewrite (length_row M b HM); auto).
  rewrite Hg.
  unfold mv, submat in He. rewrite map_map in He.
  rewrite (map_eq_pointwise (fun i => dot (gather (row M i) P) p) (nthK b) P He i Hi). ring.
Qed.

(* ---- Step 7: all solved coefficients are positive --------------------------------------------------------- *)
Lemma all_positive_nonneg : forall (P : list nat) (p : list K), length p = length P ->
  (forall i, In i P -> i < n) -> all_positive n P p = true -> nonneg p.
Proof.
  induction P as [|i P IH]; intros [|v p] Hl HB H; cbn [length] in Hl; try discriminate; [constructor|].
  cbn [all_positive] in H.
  assert (Hi : Nat.ltb i n = true) by (apply Nat.ltb_lt; apply HB; left; auto).
  rewrite Hi in H. cbn [andb] in H. destruct (leb v zero) eqn:Ev; [discriminate|].
  constructor.
  - destruct (OF_leb_total A OF v zero) as [Hc|Hc]; [unfold K in *; congruence | exact Hc].
  - apply IH; auto. intros j Hj. apply HB. right; auto.
Qed.

(* ---- Step 11 ------------------------------------------------------------------------------------------------ *)
Lemma bind_zeros_part npos : forall (P : list nat) (x : list K) Pk Z tr x' P' Z' tr',
  bind_zeros npos x P Pk Z tr = (x', P', Z', tr') -> part n (rev Pk ++ P) Z ->
  part n P' Z' /\ length x' = length x.
Proof.
  induction P as [|i P IH]; intros x Pk Z tr x' P' Z' tr' H Hp; cbn [bind_zeros] in H.
  - injection H as <- <- <- _. rewrite app_nil_r in Hp. auto.
  - destruct (_ || _).
    + apply (IH _ _ _ _ _ _ _ _ H). cbn [rev]. rewrite <- app_assoc. exact Hp.
    + destruct (IH _ _ _ _ _ _ _ _ H) as [R1 R2].
      * apply part_move. exact Hp.
      * split; auto. rewrite R2. apply length_upd.
Qed.

Lemma length_move_x : forall (P : list nat) (p x : list K) alpha, length (move_x x P p alpha) = length x.
Proof.
  induction P as [|i P IH]; intros [|v p] x alpha; cbn [move_x]; auto. rewrite IH. apply length_upd.
Qed.

(* ---- the `while (1)` loop ------------------------------------------------------------------------------------ *)
Lemma lh_inner_exit_kind npos : forall fuel x P Z lf tr e,
  lh_inner solve npos fuel x P Z lf tr = inl e -> e = LhInnerFuel \/ e = LhSolveFailed \/ e = LhMathFailed.
Proof.
  induction fuel as [|fuel IH]; intros x P Z lf tr e H; cbn [lh_inner] in H; [injection H as <-; auto|].
  destruct (solve P) as [p|]; [|injection H as <-; auto].
  destruct (all_positive npos P p); [discriminate|].
  destruct (step_length npos x lf P p (ofZ 2) None) as [alpha [qmax|]]; [|injection H as <-; auto].
  destruct (bind_zeros npos _ P [] Z tr) as [[[x1 P1] Z1] tr1].
  destruct (eqK alpha zero); [discriminate|]. eapply IH; eauto.
Qed.

Lemma lh_inner_spec : forall fuel x P Z lf tr s',
  length x = n -> part n P Z ->
  lh_inner solve n fuel x P Z lf tr = inr (false, s') ->
  part n (l_P s') (l_Z s') /\ l_lf s' = lf /\
  exists p, solve (l_P s') = Some p /\ all_positive n (l_P s') p = true /\ l_x s' = scatter (zeros n) (l_P s') p.
Proof.
  induction fuel as [|fuel IH]; intros x P Z lf tr s' Hx Hp H; cbn [lh_inner] in H; [discriminate|].
  destruct (solve P) as [p|] eqn:Es; [|discriminate].
  destruct (all_positive n P p) eqn:Ea.
  - injection H as <-. cbn [l_P l_Z l_lf l_x]. split; auto. split; auto. exists p. rewrite Hx. auto.
  - destruct (step_length n x lf P p (ofZ 2) None) as [alpha [qmax|]]; [|discriminate].
    destruct (bind_zeros n _ P [] Z tr) as [[[x1 P1] Z1] tr1] eqn:Eb.
    destruct (bind_zeros_part n _ _ _ _ _ _ _ _ _ Eb Hp) as [Hp1 Hx1].
    destruct (eqK alpha zero); [discriminate|].
    apply (IH _ _ _ _ _ _ (eq_trans Hx1 (eq_trans (length_upd _ _ _) (eq_trans (length_move_x _ _ _ _) Hx))) Hp1 H).
Qed.

(* ---- the invariant at the top of the `for` loop ----------------------------------------------------------- *)
Definition LInv (s : lstate) : Prop :=
  length (l_x s) = n /\ part n (l_P s) (l_Z s) /\ nonneg (l_x s) /\
  (forall i, In i (l_Z s) -> nthK (l_x s) i = zero) /\
  (forall i, In i (l_P s) -> nthK (gradient M b (l_x s)) i = zero).

Lemma lh_step_inv k s s' : LInv s ->
  lh_step solve M b tolerance min_iterations n k s = inr s' -> LInv s'.
Proof.
  intros (Hx & Hp & Hnn & HZ & HP) H. unfold lh_step in H.
  destruct (l_Z s) as [|z0 Zr] eqn:EZ; [discriminate|].
  destruct (argmax_w _ (l_lf s) Zr 1 0 _) as [t wmax] eqn:Ea.
  destruct (leb wmax zero); [discriminate|].
  destruct (_ && _); [discriminate|].
  destruct (lh_inner _ _ _ _ _ _ _ _) as [e|[[|] s1]] eqn:Ei; try discriminate. injection H as <-.
  assert (Ht : t < length (z0 :: Zr)).
  { pose proof (argmax_w_bound (vsub b (mv M (l_x s))) (l_lf s) Zr 1 0 (nthK (vsub b (mv M (l_x s))) z0)) as Hb.
    rewrite Ea in Hb. cbn [fst length] in *. lia. }
  destruct (remove_at_split t (z0 :: Zr) Ht) as (Z1 & Z2 & E1 & E2).
  assert (Hp' : part n (l_P s ++ [nth t (z0 :: Zr) 0]) (remove_at t (z0 :: Zr))).
  { rewrite E2. apply part_sym. apply part_move. apply part_sym. rewrite <- E1. exact Hp. }
  destruct (lh_inner_spec _ _ _ _ _ _ _ Hx Hp' Ei) as (Hp1 & _ & p & Hs & Hpos & Ex).
  destruct (Hsolve _ _ Hs) as [Hl _].
  assert (NP : NoDup (l_P s1)) by apply Hp1.
  assert (BP : forall i, In i (l_P s1) -> i < n) by apply Hp1.
  assert (Hg : gather (l_x s1) (l_P s1) = p).
  { rewrite Ex. apply gather_scatter; auto. rewrite length_zeros. auto. }
  assert (Hz : forall j, ~ In j (l_P s1) -> nthK (l_x s1) j = zero).
  { intros j Hj. rewrite Ex. rewrite nthK_scatter_notin by auto. apply nthK_zeros. }
  unfold LInv. split; [rewrite Ex, length_scatter; apply length_zeros|].
  split; [exact Hp1|].
  split; [rewrite Ex; apply nonneg_scatter; [apply (nonneg_zeros OF) | apply all_positive_nonneg with (P := l_P s1); auto]|].
  split.
  - intros i Hi. apply Hz. intro HiP. destruct Hp1 as (_ & _ & _ & _ & _ & Hd). apply (Hd i); auto.
  - apply solved_gradient_zero with (p := p); auto.
Qed.

Lemma nthK_w (x : list K) i : length x = n -> i < n ->
  nthK (vsub b (mv M x)) i = opp (nthK (gradient M b x) i).
Proof.
  intros Hx Hi. assert (HMl : length M = n) by apply HM.
  rewrite nthK_vsub by (try rewrite length_mv; lia).
  rewrite nthK_gradient by auto. rewrite nthK_mv. ring.
Qed.

Lemma le_opp_swap (a c : K) : le a c -> le (opp c) (opp a).
Proof.
  intro H. apply (le_sub0 OF). apply (le_sub0 OF) in H.
  replace (sub (opp a) (opp c)) with (sub c a) by ring. exact H.
Qed.

(* the state in which one of the three "converged" exits is taken *)
Definition skipped_state (s : @lstate A) : bool :=
  match l_lf s with Some l => memb l (tl (l_Z s)) | None => false end.

Lemma lh_step_exit k s e s' : LInv s ->
  lh_step solve M b tolerance min_iterations n k s = inl (e, s') ->
  skipped_state s' = false ->
  ((e = LhAllPassive \/ e = LhWmax) -> kkt M b (l_x s')) /\ (e = LhTol -> kkt_tol tolerance M b (l_x s')).
Proof.
  intros (Hx & Hp & Hnn & HZ & HP) H Hsk. unfold lh_step in H.
  assert (HMl : length M = n) by apply HM.
  assert (Hc : forall i, i < n -> In i (l_P s) \/ In i (l_Z s)) by apply Hp.
  assert (Base : forall t : K, (forall i, In i (l_Z s) -> le (opp t) (nthK (gradient M b (l_x s)) i)) -> kkt_tol t M b (l_x s)).
  { intros t Hg. unfold kkt_tol. apply Forall2_nthK; [rewrite length_gradient; auto|].
    intros i Hi. rewrite Hx in Hi. split; [apply (nonneg_nth OF); auto|].
    destruct (Hc i Hi) as [HiP|HiZ]; [left; apply HP; auto | right; split; [apply HZ; auto | apply Hg; auto]]. }
  destruct (l_Z s) as [|z0 Zr] eqn:EZ.
  - injection H as <- <-. split; [|discriminate]. intros _. apply Base. intros i [].
  - set (w := vsub b (mv M (l_x s))) in *.
    destruct (argmax_w w (l_lf s) Zr 1 0 (nthK w z0)) as [t wmax] eqn:Ea.
    destruct (argmax_w_max w (l_lf s) Zr 1 0 (nthK w z0)) as [M0 Mr]. rewrite Ea in M0, Mr. cbn [snd] in M0, Mr.
    pose proof Hp as (_ & _ & _ & BZ & _ & _).
    assert (Hw : skipped_state s = false -> forall i, In i (z0 :: Zr) -> le (nthK w i) wmax).
    { intros Hsk0 i [<-|Hi]; auto. apply Mr; auto.
      unfold skipped_state in Hsk0. rewrite EZ in Hsk0. cbn [tl] in Hsk0. unfold is_lf.
      destruct (l_lf s) as [l|]; auto. destruct (Nat.eqb l i) eqn:E; auto. apply Nat.eqb_eq in E. subst.
      apply memb_In in Hi. congruence. }
    assert (Hgw : forall i, In i (z0 :: Zr) -> nthK (gradient M b (l_x s)) i = opp (nthK w i)).
    { intros i Hi. unfold w. rewrite nthK_w by auto. ring. }
    destruct (leb wmax zero) eqn:E0.
    + injection H as <- <-. split; [|discriminate]. intros _. apply Base. intros i Hi.
      rewrite Hgw by auto. apply le_opp_swap. eapply (le_trans OF); [apply (Hw Hsk); auto | exact E0].
    + destruct (_ && _) eqn:Et.
      * injection H as <- <-. split; [intros [?|?]; discriminate|]. intros _.
        apply andb_true_iff in Et. destruct Et as [Et _]. apply andb_true_iff in Et. destruct Et as [Et _].
        apply Base. intros i Hi. rewrite Hgw by auto. apply le_opp_swap.
        eapply (le_trans OF); [apply (Hw Hsk); auto | apply lt_le'; exact Et].
      * destruct (lh_inner _ _ _ _ _ _ _ _) as [e0|[[|] s1]] eqn:Ei; try discriminate.
        -- injection H as <- <-. destruct (lh_inner_exit_kind _ _ _ _ _ _ _ _ Ei) as [-> | [-> | ->]];
             (split; [intros [?|?]; discriminate | discriminate]).
        -- injection H as <- _. split; [intros [?|?]; discriminate | discriminate].
Qed.

Definition lh_converged (e : lh_exit) : bool :=
  match e with LhAllPassive | LhWmax | LhTol => true | _ => false end.

Lemma lh_outer_exit : forall fuel k s, LInv s ->
  let r := lh_outer solve M b tolerance min_iterations max_iterations n fuel k s in
  lh_skipped r = false ->
  ((lr_exit r = LhAllPassive \/ lr_exit r = LhWmax) -> kkt M b (lr_x r)) /\ (lr_exit r = LhTol -> kkt_tol tolerance M b (lr_x r)).
Proof.
  induction fuel as [|fuel IH]; intros k s Hs; cbn [lh_outer].
  - cbn [lr_exit]. intros _. split; [intros [?|?]; discriminate | discriminate].
  - destruct (_ || _).
    + destruct (lh_step solve M b tolerance min_iterations n k s) as [[e s']|s'] eqn:E.
      * cbn [lr_exit lr_x]. unfold lh_skipped. cbn [lr_lf lr_Z]. intro Hsk.
        exact (lh_step_exit k s e s' Hs E Hsk).
      * apply IH. eapply lh_step_inv; eauto.
    + cbn [lr_exit]. intros _. split; [intros [?|?]; discriminate | discriminate].
Qed.

Lemma lh_init_inv : LInv (lh_init n n).
Proof.
  unfold LInv, lh_init. cbn [l_x l_P l_Z]. rewrite Nat.sub_diag. cbn [seq].
  split; [apply length_zeros|].
  split.
  { unfold part. split; [constructor|]. split; [apply seq_NoDup|]. split; [intros i []|].
    split; [intros i Hi; apply in_seq in Hi; lia|].
    split; [intros i Hi; right; apply in_seq; lia | intros i []]. }
  split; [apply (nonneg_zeros OF)|].
  split; [intros i _; apply nthK_zeros | intros i []].
Qed.

Theorem lh_exit_kkt_run fuel :
  let r := lh_run solve M b tolerance min_iterations max_iterations n fuel in
  lh_skipped r = false ->
  ((lr_exit r = LhAllPassive \/ lr_exit r = LhWmax) -> kkt M b (lr_x r)) /\ (lr_exit r = LhTol -> kkt_tol tolerance M b (lr_x r)).
Proof. unfold lh_run. apply lh_outer_exit. apply lh_init_inv. Qed.
End LH.

(* ---- the general statements ------------------------------------------------------------------------------ *)
Theorem lh_exit_kkt_gen (A : Arith) (OF : OField A) : forall (solve : list nat -> option (list (T A)))
    (M : list (list (T A))) (b : list (T A)) (tolerance : T A) (min_iterations max_iterations fuel : nat),
  wf_mat (length b) M -> solve_ok solve M b ->
  let r := lh_run solve M b tolerance min_iterations max_iterations (length b) fuel in
  lh_skipped r = false ->
  ((lr_exit r = LhAllPassive \/ lr_exit r = LhWmax) -> kkt M b (lr_x r)) /\
  (lr_exit r = LhTol -> kkt_tol tolerance M b (lr_x r)).
Proof. intros. apply (lh_exit_kkt_run OF); auto. Qed.

Theorem lh_exit_kkt_normaleq (A : Arith) (OF : OField A) : forall (M : list (list (T A))) (b : list (T A))
    (tolerance : T A) (min_iterations max_iterations : nat),
  wf_mat (length b) M ->
  let r := lh_normaleq M b tolerance min_iterations max_iterations in
  lh_skipped r = false ->
  ((lr_exit r = LhAllPassive \/ lr_exit r = LhWmax) -> kkt M b (lr_x r)) /\
  (lr_exit r = LhTol -> kkt_tol tolerance M b (lr_x r)).
Proof. intros M b tolerance mi ma HM. unfold lh_normaleq. apply (lh_exit_kkt_gen A OF); auto. apply (solve_checked_ok OF). Qed.

(* ---- examples ------------------------------------------------------------------------------------------------ *)
From Coq Require Import QArith Qcanon.
From PS Require Import C11_Proofs C11_Pjv_Proofs.

Definition lh_example_ok (M : list (list Qc)) (b : list Qc) (exit_wmax : bool) (nbind : nat) : bool :=
  let r := @lh_normaleq QcA M b (@zero QcA) 0 (20 * length b + 20) in
  (if exit_wmax then match lr_exit r with LhWmax => true | _ => false end
   else match lr_exit r with LhAllPassive => true | _ => false end) &&
  negb (lh_skipped r) &&
  @kkt_check QcA (@zero QcA) M b (lr_x r) &&
  match @nnls_spec QcA M b with Some xo => @eqvec QcA (lr_x r) xo | None => false end &&
  Nat.eqb (length (filter (fun e => match e with LvBind _ _ _ => true | _ => false end) (lr_trace r))) nbind.

(* W1: two coefficients freed, exit on wmax <= 0 with the optimum (4,2,0) *)
Lemma lh_example_W1 : lh_example_ok W1_M W1_b true 0 = true.
Proof. vm_compute. reflexivity. Qed.
(* P8 (8 variables): exit on wmax <= 0 with the optimum *)
Lemma lh_example_P8 : lh_example_ok P8_M P8_b true 0 = true.
Proof. vm_compute. reflexivity. Qed.
(* a system on which the inner loop binds a coefficient again (Steps 8-11 are exercised): A = B'B, three
   coefficients freed, coefficient 2 bound again, optimum (23/9, 34/9, 0) *)
Definition L3_M := QM [[5; -1; -5]; [-1; 2; 4]; [-5; 4; 11]]%Z.
Definition L3_b := Qv [9; 5; 2]%Z.
Lemma lh_example_L3 : lh_example_ok L3_M L3_b true 1 = true.
Proof. vm_compute. reflexivity. Qed.
Lemma L3_wf : @wf_mat QcA (length L3_b) L3_M.
Proof. apply (symb_sound QcA_OField). vm_compute. reflexivity. Qed.
Lemma W1_wf : @wf_mat QcA (length W1_b) W1_M.
Proof. apply (symb_sound QcA_OField). vm_compute. reflexivity. Qed.
