(* C17_Index.v — index arithmetic of slicemultiply (splineutil.c) and of grideval.h's coefficient walk:
   mixed-radix flatten / unflatten are mutually inverse, for every number of dimensions and every [dim].
   Only naturals and lists; closed under the global context. *)
From Coq Require Import ZArith List Bool Lia PeanoNat.
From PS Require Import Arith EvalModel BSpline GridModel.
Import ListNotations.

(* ---------------------------------------------------------------------------------------------- *)
(** * upd, idx_eqb *)
Lemma upd_length {X} (l : list X) : forall i v, length (upd l i v) = length l.
Proof. induction l as [|x l IH]; intros [|i] v; cbn [upd length]; auto. Qed.
Lemma nth_upd_eq {X} (d : X) (l : list X) : forall i v, i < length l -> nth i (upd l i v) d = v.
Proof. induction l as [|x l IH]; intros [|i] v H; cbn [upd nth length] in *; try lia; auto; try (apply IH; lia). Qed.
Lemma nth_upd_neq {X} (d : X) (l : list X) : forall i j v, i <> j -> nth j (upd l i v) d = nth j l d.
Proof.
  induction l as [|x l IH]; intros [|i] [|j] v H; cbn [upd nth]; auto; try lia; try (apply IH; lia).
Qed.
Lemma upd_comm {X} (l : list X) : forall i j v w, i <> j -> upd (upd l i v) j w = upd (upd l j w) i v.
Proof.
  induction l as [|x l IH]; intros [|i] [|j] v w H; cbn [upd]; auto; try lia; try (f_equal; apply IH; lia).
Qed.
Lemma idx_eqb_eq : forall a b, idx_eqb a b = true <-> a = b.
Proof.
  induction a as [|x a IH]; intros [|y b]; cbn [idx_eqb]; split; intro H; try discriminate; auto.
  - apply andb_true_iff in H. destruct H as [H1 H2]. apply Nat.eqb_eq in H1. apply IH in H2. subst. reflexivity.
  - injection H as -> ->. rewrite Nat.eqb_refl. apply IH. reflexivity.
Qed.
Lemma idx_eqb_refl a : idx_eqb a a = true.
Proof. apply idx_eqb_eq. reflexivity. Qed.
Lemma idx_eqb_neq a b : a <> b -> idx_eqb a b = false.
Proof. intro H. destruct (idx_eqb a b) eqn:E; [|reflexivity]. apply idx_eqb_eq in E. contradiction. Qed.

(* ---------------------------------------------------------------------------------------------- *)
(** * mixed radix: Horner value and digit extraction (slowest digit first) *)
Fixpoint prodl (l : list nat) : nat := match l with [] => 1 | x :: r => x * prodl r end.
Fixpoint horner (rs ds : list nat) : nat :=
  match rs, ds with
  | _ :: rs', d :: ds' => d * prodl rs' + horner rs' ds'
  | _, _ => 0
  end.
Fixpoint digits (rs : list nat) (j : nat) : list nat :=
  match rs with
  | [] => []
  | _ :: rs' => j / prodl rs' :: digits rs' (j mod prodl rs')
  end.

Lemma prodl_app a b : prodl (a ++ b) = prodl a * prodl b.
Proof. induction a as [|x a IH]; cbn [prodl app]; [lia|]. rewrite IH. lia. Qed.
Lemma prodl_pos rs : Forall (fun r => 0 < r) rs -> 0 < prodl rs.
Proof. induction 1; cbn [prodl]; [lia|]. apply Nat.mul_pos_pos; assumption. Qed.
Lemma digits_length rs : forall j, length (digits rs j) = length rs.
Proof. induction rs as [|r rs IH]; intro j; cbn [digits length]; auto. Qed.

Lemma horner_lt : forall rs ds, Forall2 lt ds rs -> horner rs ds < prodl rs.
Proof.
  intros rs ds H. induction H as [|d r ds rs Hd H IH]; cbn [horner prodl]; [lia|]. nia.
Qed.
Lemma horner_digits : forall rs j, Forall (fun r => 0 < r) rs -> j < prodl rs -> horner rs (digits rs j) = j.
Proof.
  induction rs as [|r rs IH]; intros j Hp Hj; cbn [horner digits prodl] in *; [lia|].
  inversion Hp as [|? ? Hr Hrs]; subst.
  pose proof (prodl_pos rs Hrs) as HP.
  rewrite IH; [| exact Hrs | apply Nat.mod_upper_bound; lia].
  pose proof (Nat.div_mod j (prodl rs) ltac:(lia)). lia.
Qed.
Lemma digits_horner : forall rs ds, Forall2 lt ds rs -> digits rs (horner rs ds) = ds.
Proof.
  intros rs ds H. induction H as [|d r ds rs Hd H IH]; cbn [horner digits]; [reflexivity|].
  pose proof (horner_lt rs ds H) as HL.
  assert (HP : prodl rs <> 0) by lia.
  f_equal.
  - rewrite Nat.div_add_l by exact HP. rewrite Nat.div_small by exact HL. lia.
  - rewrite Nat.add_comm, Nat.mod_add by exact HP. rewrite Nat.mod_small by exact HL. exact IH.
Qed.
Lemma digits_lt : forall rs j, Forall (fun r => 0 < r) rs -> j < prodl rs -> Forall2 lt (digits rs j) rs.
Proof.
  induction rs as [|r rs IH]; intros j Hp Hj; cbn [digits prodl] in *; [constructor|].
  inversion Hp as [|? ? Hr Hrs]; subst. pose proof (prodl_pos rs Hrs) as HP.
  constructor.
  - apply Nat.div_lt_upper_bound; lia.
  - apply IH; [exact Hrs | apply Nat.mod_upper_bound; lia].
Qed.

(* ---------------------------------------------------------------------------------------------- *)
(** * scattered writes  idx[l] = v *)
Definition scatter (L vs : list nat) (idx : list nat) : list nat :=
  fold_left (fun acc lv => upd acc (fst lv) (snd lv)) (combine L vs) idx.
Lemma scatter_cons l L v vs idx : scatter (l :: L) (v :: vs) idx = scatter L vs (upd idx l v).
Proof. reflexivity. Qed.
Lemma scatter_length : forall L vs idx, length (scatter L vs idx) = length idx.
Proof.
  induction L as [|l L IH]; intros [|v vs] idx; try reflexivity. rewrite scatter_cons, IH. apply upd_length.
Qed.
Lemma scatter_notin : forall L vs idx p, ~ In p L -> nth p (scatter L vs idx) 0 = nth p idx 0.
Proof.
  induction L as [|l L IH]; intros [|v vs] idx p H; try reflexivity.
  rewrite scatter_cons, IH by (intro; apply H; right; assumption).
  apply nth_upd_neq. intro; apply H; left; assumption.
Qed.
Lemma gather_scatter : forall L vs idx, NoDup L -> length vs = length L -> (forall l, In l L -> l < length idx) ->
  map (fun l => nth l (scatter L vs idx) 0) L = vs.
Proof.
  induction L as [|l L IH]; intros [|v vs] idx ND Hlen Hb; try discriminate; [reflexivity|].
  inversion ND as [|? ? Hni ND']; subst. cbn [map]. rewrite scatter_cons. f_equal.
  - rewrite scatter_notin by exact Hni. apply nth_upd_eq. apply Hb. left; reflexivity.
  - apply IH; [exact ND' | cbn [length] in Hlen; lia |]. intros l' Hl'. rewrite upd_length. apply Hb. right; exact Hl'.
Qed.
Lemma scatter_gather : forall L idx g, length idx = length g -> (forall l, In l L -> l < length idx) ->
  (forall p, ~ In p L -> nth p idx 0 = nth p g 0) ->
  scatter L (map (fun l => nth l g 0) L) idx = g.
Proof.
  induction L as [|l L IH]; intros idx g Hlen Hb Hout.
  - cbn. apply nth_ext with (d := 0) (d' := 0); [exact Hlen|]. intros p _. apply Hout. intros [].
  - cbn [map]. rewrite scatter_cons. apply IH.
    + rewrite upd_length. exact Hlen.
    + intros l' Hl'. rewrite upd_length. apply Hb. right; exact Hl'.
    + intros p Hp. destruct (Nat.eq_dec l p) as [->|Hne].
      * apply nth_upd_eq. apply Hb. left; reflexivity.
      * rewrite nth_upd_neq by exact Hne. apply Hout. intros [H|H]; [contradiction|contradiction].
Qed.
Lemma Forall2_map_in {X} (R : nat -> nat -> Prop) (f g : X -> nat) : forall L, Forall2 R (map f L) (map g L) -> forall l, In l L -> R (f l) (g l).
Proof.
  induction L as [|x L IH]; intros H l Hl; [destruct Hl|]. cbn [map] in H. inversion H; subst.
  destruct Hl as [<-|Hl]; auto.
Qed.
Lemma Forall2_map_intro {X} (R : nat -> nat -> Prop) (f g : X -> nat) : forall L, (forall l, In l L -> R (f l) (g l)) -> Forall2 R (map f L) (map g L).
Proof.
  induction L as [|x L IH]; intros H; cbn [map]; constructor; [apply H; left; reflexivity|]. apply IH. intros; apply H; right; assumption.
Qed.

(* ---------------------------------------------------------------------------------------------- *)
(** * the rotated dimension order  k % ndim, k = dim+1 .. dim+ndim-1 *)
Lemma map_mod_seq n : 0 < n -> forall len a, a + len <= n -> map (fun k => k mod n) (seq (n + a) len) = seq a len.
Proof.
  intros Hn. induction len as [|len IH]; intros a H; cbn [seq map]; [reflexivity|]. f_equal.
  - replace (n + a) with (a + 1 * n) by lia. rewrite Nat.mod_add by lia. apply Nat.mod_small. lia.
  - replace (S (n + a)) with (n + S a) by lia. apply IH. lia.
Qed.
Lemma rot_concrete ndim dim : dim < ndim -> rot ndim dim = seq (dim + 1) (ndim - 1 - dim) ++ seq 0 dim.
Proof.
  intro H. unfold rot. replace (ndim - 1) with ((ndim - 1 - dim) + dim) at 1 by lia.
  rewrite seq_app, map_app. f_equal.
  - rewrite <- (map_id (seq (dim + 1) (ndim - 1 - dim))) at 2. apply map_ext_in. intros k Hk. apply in_seq in Hk.
    apply Nat.mod_small. lia.
  - replace (dim + 1 + (ndim - 1 - dim)) with (ndim + 0) by lia. apply map_mod_seq; lia.
Qed.
Lemma rot_in ndim dim : dim < ndim -> forall l, In l (rot ndim dim) <-> (l < ndim /\ l <> dim).
Proof.
  intros H l. rewrite rot_concrete by exact H. rewrite in_app_iff, !in_seq. lia.
Qed.
Lemma NoDup_app_intro {X} (a b : list X) : NoDup a -> NoDup b -> (forall x, In x a -> ~ In x b) -> NoDup (a ++ b).
Proof.
  induction a as [|x a IH]; intros Ha Hb Hd; cbn [app]; [exact Hb|].
  inversion Ha as [|? ? Hx Ha']; subst. constructor.
  - rewrite in_app_iff. intros [H|H]; [contradiction|]. exact (Hd x (or_introl eq_refl) H).
  - apply IH; auto. intros y Hy. apply Hd. right; exact Hy.
Qed.
Lemma rot_nodup ndim dim : dim < ndim -> NoDup (rot ndim dim).
Proof.
  intro H. rewrite rot_concrete by exact H. apply NoDup_app_intro; try apply seq_NoDup.
  intros x Hx Hy. apply in_seq in Hx. apply in_seq in Hy. lia.
Qed.
Lemma rot_length ndim dim : length (rot ndim dim) = ndim - 1.
Proof. unfold rot. rewrite map_length, seq_length. reflexivity. Qed.

(* ---------------------------------------------------------------------------------------------- *)
(** * the loops of slicemultiply in closed form *)
Definition rradix (ndim dim : nat) (ranges : list nat) : list nat := map (fun l => nth l ranges 0) (rot ndim dim).

Lemma fold_left_rev {X Y} (f : Y -> X -> Y) (l : list X) (a : Y) : fold_left f (rev l) a = fold_right (fun x acc => f acc x) a l.
Proof. rewrite <- (rev_involutive l) at 2. rewrite fold_left_rev_right. reflexivity. Qed.

Lemma flat_loop_closed (ranges idx : list nat) : forall L,
  fold_right (fun l (sc : nat * nat) => (fst sc * nth l ranges 0, snd sc + fst sc * nth l idx 0)) (1, 0) L =
  (prodl (map (fun l => nth l ranges 0) L), horner (map (fun l => nth l ranges 0) L) (map (fun l => nth l idx 0) L)).
Proof.
  induction L as [|l L IH]; cbn [fold_right map prodl horner]; [reflexivity|]. rewrite IH. cbn [fst snd]. f_equal; lia.
Qed.
Lemma flatcol_closed ndim dim ranges idx :
  flatcol ndim dim ranges idx = horner (rradix ndim dim ranges) (map (fun l => nth l idx 0) (rot ndim dim)).
Proof. unfold flatcol, rradix. rewrite fold_left_rev, flat_loop_closed. reflexivity. Qed.
Lemma rot_stride_closed ndim dim ranges : rot_stride ndim dim ranges = prodl (rradix ndim dim ranges).
Proof.
  unfold rot_stride, rradix. rewrite fold_left_rev. induction (rot ndim dim) as [|l L IH]; cbn [fold_right map prodl]; [reflexivity|].
  rewrite IH. lia.
Qed.
Lemma unflat_loop_closed (ranges : list nat) : forall L j idx, Forall (fun r => 0 < r) (map (fun l => nth l ranges 0) L) ->
  snd (fold_left (unflat_step ranges) L (prodl (map (fun l => nth l ranges 0) L), j, idx)) =
  scatter L (digits (map (fun l => nth l ranges 0) L) j) idx.
Proof.
  induction L as [|l L IH]; intros j idx Hp; [reflexivity|].
  cbn [map] in Hp. inversion Hp as [|? ? Hr Hrs]; subst.
  cbn [fold_left map digits prodl]. unfold unflat_step at 2.
  replace (nth l ranges 0 * prodl (map (fun l0 => nth l0 ranges 0) L) / nth l ranges 0) with (prodl (map (fun l0 => nth l0 ranges 0) L))
    by (rewrite Nat.mul_comm, Nat.div_mul by lia; reflexivity).
  rewrite IH by exact Hrs. rewrite scatter_cons. reflexivity.
Qed.
Lemma unflat_closed ndim dim ranges row col : Forall (fun r => 0 < r) (rradix ndim dim ranges) ->
  unflat ndim dim ranges row col = scatter (rot ndim dim) (digits (rradix ndim dim ranges) col) (upd (repeat 0 ndim) dim row).
Proof. intro Hp. unfold unflat. rewrite rot_stride_closed. unfold rradix in *. apply unflat_loop_closed. exact Hp. Qed.

(* the radices only involve positions other than dim *)
Lemma rradix_upd ndim dim ranges v : dim < ndim -> rradix ndim dim (upd ranges dim v) = rradix ndim dim ranges.
Proof.
  intro H. unfold rradix. apply map_ext_in. intros l Hl. apply (rot_in ndim dim H) in Hl. apply nth_upd_neq. lia.
Qed.
Lemma rradix_pos ndim dim ranges : dim < ndim -> (forall l, l < ndim -> l <> dim -> 0 < nth l ranges 0) ->
  Forall (fun r => 0 < r) (rradix ndim dim ranges).
Proof.
  intros H Hp. unfold rradix. apply Forall_forall. intros r Hr. apply in_map_iff in Hr. destruct Hr as [l [<- Hl]].
  apply (rot_in ndim dim H) in Hl. apply Hp; lia.
Qed.

(* ---------------------------------------------------------------------------------------------- *)
(** * the two round trips *)
Section RoundTrip.
Variables ndim dim : nat.
Variable ranges : list nat.
Hypothesis Hdim : dim < ndim.
Hypothesis Hpos : forall l, l < ndim -> l <> dim -> 0 < nth l ranges 0.

Definition in_rot_range (g : list nat) : Prop := forall l, l < ndim -> l <> dim -> nth l g 0 < nth l ranges 0.

Lemma flatcol_upd g k : flatcol ndim dim ranges (upd g dim k) = flatcol ndim dim ranges g.
Proof.
  rewrite !flatcol_closed. f_equal. apply map_ext_in. intros l Hl. apply (rot_in ndim dim Hdim) in Hl. apply nth_upd_neq. lia.
Qed.
Lemma flatcol_lt g : in_rot_range g -> flatcol ndim dim ranges g < prodl (rradix ndim dim ranges).
Proof.
  intro Hg. rewrite flatcol_closed. apply horner_lt. unfold rradix. apply Forall2_map_intro.
  intros l Hl. apply (rot_in ndim dim Hdim) in Hl. apply Hg; lia.
Qed.
Lemma unflat_flatcol g : length g = ndim -> in_rot_range g ->
  unflat ndim dim ranges (nth dim g 0) (flatcol ndim dim ranges g) = g.
Proof.
  intros Hlen Hg. rewrite unflat_closed by (apply rradix_pos; assumption). rewrite flatcol_closed.
  rewrite digits_horner.
  - apply scatter_gather.
    + rewrite upd_length, repeat_length. lia.
    + intros l Hl. apply (rot_in ndim dim Hdim) in Hl. rewrite upd_length, repeat_length. lia.
    + intros p Hp. destruct (Nat.eq_dec p dim) as [->|Hne].
      * apply nth_upd_eq. rewrite repeat_length. exact Hdim.
      * rewrite nth_upd_neq by lia. destruct (Nat.lt_ge_cases p ndim) as [Hlt|Hge].
        -- exfalso. apply Hp. apply (rot_in ndim dim Hdim). lia.
        -- rewrite !nth_overflow; [reflexivity | lia | rewrite repeat_length; lia].
  - unfold rradix. apply Forall2_map_intro. intros l Hl. apply (rot_in ndim dim Hdim) in Hl. apply Hg; lia.
Qed.

Section Un.
Variables row col : nat.
Hypothesis Hcol : col < prodl (rradix ndim dim ranges).
Let u := unflat ndim dim ranges row col.

Lemma unflat_length : length u = ndim.
Proof.
  unfold u. rewrite unflat_closed by (apply rradix_pos; assumption). rewrite scatter_length, upd_length, repeat_length. reflexivity.
Qed.
Lemma unflat_dim : nth dim u 0 = row.
Proof.
  unfold u. rewrite unflat_closed by (apply rradix_pos; assumption). rewrite scatter_notin.
  - apply nth_upd_eq. rewrite repeat_length. exact Hdim.
  - intro H. apply (rot_in ndim dim Hdim) in H. lia.
Qed.
Lemma unflat_gather : map (fun l => nth l u 0) (rot ndim dim) = digits (rradix ndim dim ranges) col.
Proof.
  unfold u. rewrite unflat_closed by (apply rradix_pos; assumption). apply gather_scatter.
  - apply rot_nodup. exact Hdim.
  - rewrite digits_length. unfold rradix. rewrite map_length. reflexivity.
  - intros l Hl. apply (rot_in ndim dim Hdim) in Hl. rewrite upd_length, repeat_length. lia.
Qed.
Lemma flatcol_unflat : flatcol ndim dim ranges u = col.
Proof.
  rewrite flatcol_closed, unflat_gather. apply horner_digits; [apply rradix_pos; assumption | exact Hcol].
Qed.
Lemma unflat_in_range : in_rot_range u.
Proof.
  intros l Hl Hne.
  pose proof (digits_lt (rradix ndim dim ranges) col (rradix_pos ndim dim ranges Hdim Hpos) Hcol) as HD.
  rewrite <- unflat_gather in HD. unfold rradix in HD.
  apply (Forall2_map_in lt (fun l => nth l u 0) (fun l => nth l ranges 0) _ HD). apply (rot_in ndim dim Hdim). lia.
Qed.
End Un.
End RoundTrip.

(* ---------------------------------------------------------------------------------------------- *)
(** * cols (the loop over i != dim) is the product of the rotated radices *)
Lemma cols_fold_nodim dim : forall l a acc, (forall i, a <= i < a + length l -> i <> dim) ->
  fold_left (fun acc ir => if (fst ir =? dim)%nat then acc else acc * snd ir) (combine (seq a (length l)) l) acc = acc * prodl l.
Proof.
  induction l as [|x l IH]; intros a acc H; cbn [length seq combine fold_left prodl]; [lia|].
  cbn [fst snd]. destruct (Nat.eqb_spec a dim) as [E|E]; [exfalso; apply (H a); cbn [length]; lia|].
  rewrite IH by (intros i Hi; apply H; cbn [length]; lia). lia.
Qed.
Lemma cols_fold_split dim : forall pre a acc r post, a + length pre = dim ->
  fold_left (fun acc ir => if (fst ir =? dim)%nat then acc else acc * snd ir)
            (combine (seq a (length (pre ++ r :: post))) (pre ++ r :: post)) acc = acc * prodl pre * prodl post.
Proof.
  induction pre as [|x pre IH]; intros a acc r post H.
  - cbn [app length seq combine fold_left prodl fst snd]. cbn [length] in H.
    destruct (Nat.eqb_spec a dim) as [E|E]; [|lia].
    rewrite cols_fold_nodim by (intros i Hi; lia). lia.
  - cbn [app length seq combine fold_left prodl fst snd]. cbn [length] in H.
    destruct (Nat.eqb_spec a dim) as [E|E]; [lia|].
    change (S (length (pre ++ r :: post))) with (length (x :: pre ++ r :: post)).
    cbn [length]. rewrite IH by lia. lia.
Qed.
Lemma map_nth_seq_shift (l : list nat) : forall pre len b, b + len <= length l ->
  map (fun i => nth i (pre ++ l) 0) (seq (length pre + b) len) = firstn len (skipn b l).
Proof.
  intros pre len. induction len as [|len IH]; intros b H; cbn [seq map]; [reflexivity|].
  rewrite app_nth2_plus.
  replace (S (length pre + b)) with (length pre + S b) by lia. rewrite IH by lia.
  clear IH. revert b H. induction l as [|x l IHl]; intros b H; cbn [length] in H; [lia|].
  destruct b as [|b]; cbn [skipn nth firstn]; [reflexivity|]. apply IHl. lia.
Qed.
Lemma map_nth_seq (l : list nat) len b : b + len <= length l -> map (fun i => nth i l 0) (seq b len) = firstn len (skipn b l).
Proof. intro H. exact (map_nth_seq_shift l [] len b H). Qed.
Lemma split_nth : forall (l : list nat) d, d < length l -> l = firstn d l ++ nth d l 0 :: skipn (S d) l.
Proof.
  induction l as [|x l IH]; intros [|d] H; cbn [length] in H; try lia; cbn [firstn nth skipn app]; [reflexivity|].
  f_equal. apply IH. lia.
Qed.
Lemma cols_of_rot ndim dim ranges : dim < ndim -> length ranges = ndim -> cols_of ranges dim = prodl (rradix ndim dim ranges).
Proof.
  intros Hd Hl. unfold rradix. rewrite rot_concrete by exact Hd. rewrite map_app, prodl_app.
  rewrite (map_nth_seq ranges (ndim - 1 - dim) (dim + 1)) by lia.
  rewrite (map_nth_seq ranges dim 0) by lia. cbn [skipn].
  rewrite firstn_all2 by (rewrite skipn_length; lia).
  unfold cols_of. rewrite (split_nth ranges dim) at 1 2 by lia.
  rewrite (cols_fold_split dim (firstn dim ranges) 0 1) by (rewrite firstn_length; lia).
  replace (dim + 1) with (S dim) by lia. lia.
Qed.
