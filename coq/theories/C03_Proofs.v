(* C03_Proofs.v — structural theorems: the code paths perform the same operations in the same order,
   hence return identical results WHATEVER the arithmetic is (no laws about +,*,/ or rounding assumed). *)
From Coq Require Import ZArith List Bool Lia Arith.
From PS Require Import Arith EvalModel Generated Dispatch C04_Proofs.
Import ListNotations.
Local Open Scope Z_scope.

Section Cores.
Context {A : Arith}.
Notation K := (T A).

(* the two loop shapes: while(true){chunk; if(++n==nchunks) break; advance}  vs  for(n<nchunks-1){chunk; advance} chunk *)
Lemma core_loop_peeled_eq (cf : Z -> K) lbs lb_last : forall k rd pos res,
  core_loop cf (S k) lbs lb_last rd pos res = core_loop_peeled cf k lbs lb_last rd pos res.
Proof.
  induction k as [|k IH]; intros rd pos res.
  - reflexivity.
  - change (core_loop cf (S (S k)) lbs lb_last rd pos res) with
      (let res' := chunk cf (bt_of lbs (rev (map digit_pos rd))) lb_last pos res in
       let '(rd', dpos) := odo_incr rd in core_loop cf (S k) lbs lb_last rd' (pos + dpos) res').
    cbn [core_loop_peeled]. cbv zeta.
    destruct (odo_incr rd) as [rd' dpos]. apply IH.
Qed.

Lemma nchunks_pos l : forall acc, (1 <= acc)%nat -> (1 <= fold_left (fun acc o => (acc * S o)%nat) l acc)%nat.
Proof. induction l as [|o l IH]; intros acc H; cbn [fold_left]; [exact H|]. apply IH. nia. Qed.

Lemma core_run_peeled_irrelevant (cf : Z -> K) D opos ochunks ocarry chunklen strides centers lbs :
  core_run cf true D opos ochunks ocarry chunklen strides centers lbs =
  core_run cf false D opos ochunks ocarry chunklen strides centers lbs.
Proof.
  unfold core_run. cbv zeta.
  set (nch := nchunks_of (firstn (D - 1) ochunks)).
  assert (H : (1 <= nch)%nat) by (subst nch; unfold nchunks_of; apply nchunks_pos; lia).
  destruct nch as [|k]; [lia|].
  replace (S k - 1)%nat with k by lia.
  symmetry. apply core_loop_peeled_eq.
Qed.

Lemma nth_pred_length_last (l : list nat) d : l <> [] -> nth (length l - 1) l d = last l d.
Proof.
  induction l as [|a l IH]; intros H; [congruence|].
  destruct l as [|b l]; [reflexivity|].
  replace (length (a :: b :: l) - 1)%nat with (S (length (b :: l) - 1))%nat by (cbn [length]; lia).
  change (nth (S (length (b :: l) - 1)) (a :: b :: l) d) with (nth (length (b :: l) - 1) (b :: l) d).
  rewrite IH by discriminate. reflexivity.
Qed.

Lemma last_repeat (o : nat) D d : last (repeat o (S D)) d = o.
Proof.
  induction D as [|D IH]; [reflexivity|].
  change (repeat o (S (S D))) with (o :: repeat o (S D)).
  change (repeat o (S D)) with (o :: repeat o D) at 1.
  cbn [last]. change (o :: repeat o D) with (repeat o (S D)). exact IH.
Qed.

(* when is a specialised routine applicable to a table with orders [os] *)
Definition variant_valid (v : variant) (os : list nat) : Prop :=
  match v with
  | VGeneric => True
  | VD D => D = length os
  | VFixed D o => os = repeat o D
  | VKnown Os => Os = os
  end.

Lemma run_variant_generic v (t : @table A) cs lbs :
  dims t <> [] -> variant_valid v (orders_of t) -> run_variant v t cs lbs = core_generic t cs lbs.
Proof.
  intros Hne Hv.
  assert (Hos : orders_of t <> []) by (unfold orders_of; destruct (dims t); [congruence|discriminate]).
  assert (Hlen : length (orders_of t) = ndim_of t) by (unfold orders_of, ndim_of; apply map_length).
  destruct v as [|D|D o|Os]; cbn [run_variant variant_valid] in *.
  - reflexivity.
  - subst D. unfold core_D, core_generic. cbv zeta.
    rewrite core_run_peeled_irrelevant. rewrite nth_pred_length_last by exact Hos. rewrite Hlen. reflexivity.
  - unfold core_Fixed, core_generic. cbv zeta. rewrite core_run_peeled_irrelevant.
    rewrite <- Hv.
    assert (HD : D = ndim_of t) by (rewrite <- Hlen, Hv, repeat_length; reflexivity).
    assert (Hl : last (orders_of t) O = o).
    { rewrite Hv. destruct D as [|D']; [rewrite Hv in Hos; cbn in Hos; congruence|]. apply last_repeat. }
    rewrite Hl, HD. reflexivity.
  - subst Os. unfold core_Known, core_generic. cbv zeta. rewrite core_run_peeled_irrelevant. rewrite Hlen. reflexivity.
Qed.

Lemma run_variant_multi_generic v (t : @table A) cs lbs :
  dims t <> [] -> variant_valid v (orders_of t) -> run_variant_multi v t cs lbs = core_generic t cs lbs.
Proof.
  intros Hne Hv. rewrite <- (run_variant_generic v t cs lbs Hne Hv).
  destruct v as [|D|D o|Os]; cbn [run_variant run_variant_multi]; try reflexivity;
    unfold core_D, core_Fixed, core_Known; cbv zeta; rewrite core_run_peeled_irrelevant; reflexivity.
Qed.

End Cores.

(* ============================================================================================== *)
(** * The translated dispatch table selects only applicable routines *)

Definition variant_ok_for (co nd : option nat) (v : variant) : bool :=
  match v with
  | VGeneric => true
  | VD D => match nd with Some m => Nat.eqb m D | None => false end
  | VFixed D o => match nd, co with Some m, Some k => Nat.eqb m D && Nat.eqb k o && negb (Nat.eqb k 0) | _, _ => false end
  | VKnown _ => false
  end.
Definition case_ok (c : dcase) : bool :=
  variant_ok_for (dc_corder c) (dc_ndim c) (dc_ev c) && variant_ok_for (dc_corder c) (dc_ndim c) (dc_vev c).
Definition list_nat_eqb (a b : list nat) : bool :=
  Nat.eqb (length a) (length b) && forallb (fun p => Nat.eqb (fst p) (snd p)) (combine a b).
Definition known_variant_ok (g : list nat) (v : variant) : bool :=
  match v with VGeneric => true | VKnown Os => list_nat_eqb Os g | _ => false end.
Definition known_ok (k : dknown) : bool :=
  known_variant_ok (dk_orders k) (dk_ev k) && known_variant_ok (dk_orders k) (dk_vev k).

Lemma list_nat_eqb_eq a : forall b, list_nat_eqb a b = true -> a = b.
Proof.
  unfold list_nat_eqb. induction a as [|x a IH]; intros [|y b] H; cbn in H; try reflexivity; try discriminate.
  apply andb_true_iff in H. destruct H as [H1 H2]. apply andb_true_iff in H2. destruct H2 as [H2 H3].
  apply Nat.eqb_eq in H2. subst y. f_equal. apply IH. rewrite H1. exact H3.
Qed.

Lemma orders_are_eq os g : orders_are os g = true -> g = os.
Proof.
  unfold orders_are. intros H. symmetry. apply list_nat_eqb_eq. unfold list_nat_eqb.
  apply andb_true_iff in H. destruct H as [H1 H2]. apply Nat.eqb_eq in H1. rewrite H1, Nat.eqb_refl. exact H2.
Qed.

Lemma const_order_spec os k : const_order os = k -> k <> O -> os = repeat k (length os).
Proof.
  destruct os as [|o rest]; cbn [const_order]; [congruence|].
  destruct (forallb (Nat.eqb o) rest) eqn:E; [|congruence].
  intros -> _. cbn [length repeat]. f_equal.
  induction rest as [|r rest IH]; [reflexivity|].
  cbn [forallb] in E. apply andb_true_iff in E. destruct E as [E1 E2]. apply Nat.eqb_eq in E1. subst r.
  cbn [length repeat]. f_equal. apply IH. exact E2.
Qed.

Lemma find_some_in {X} (f : X -> bool) l x : find f l = Some x -> In x l /\ f x = true.
Proof. apply find_some. Qed.

Lemma select_case_valid templates os c :
  forallb case_ok dispatch_cases = true ->
  select_case templates os = Some c ->
  variant_valid (dc_ev c) os /\ variant_valid (dc_vev c) os.
Proof.
  intros Hall. unfold select_case. cbv zeta.
  set (oc := outer_choice templates (const_order os)).
  set (inner := filter (fun c => same_outer (dc_corder c) oc) dispatch_cases).
  intros Hsel.
  assert (Hc : In c inner /\ (dc_ndim c = Some (length os) \/ dc_ndim c = None)).
  { destruct (find (fun c0 => active templates (dc_templ c0) && label_is (dc_ndim c0) (length os)) inner) eqn:F1.
    - inversion Hsel; subst d. apply find_some in F1. destruct F1 as [I1 G1]. split; [exact I1|].
      apply andb_true_iff in G1. destruct G1 as [_ G1]. unfold label_is in G1.
      destruct (dc_ndim c) as [m|]; [|discriminate]. apply Nat.eqb_eq in G1. left. congruence.
    - apply find_some in Hsel. destruct Hsel as [I1 G1]. split; [exact I1|]. right.
      apply andb_true_iff in G1. destruct G1 as [_ G1]. unfold is_default in G1. destruct (dc_ndim c); [discriminate|reflexivity]. }
  destruct Hc as [Hin Hnd]. subst inner. apply filter_In in Hin. destruct Hin as [Hin Hout].
  rewrite forallb_forall in Hall. specialize (Hall c Hin). unfold case_ok in Hall.
  apply andb_true_iff in Hall.
  assert (Hco : forall k, dc_corder c = Some k -> const_order os = k).
  { intros k Hk. rewrite Hk in Hout. unfold same_outer in Hout. subst oc. unfold outer_choice in Hout.
    destruct (existsb (Nat.eqb (const_order os)) (outer_labels templates)); [|discriminate].
    apply Nat.eqb_eq in Hout. congruence. }
  assert (Hone : forall v, variant_ok_for (dc_corder c) (dc_ndim c) v = true -> variant_valid v os).
  { intros v Hv. destruct v as [|D|D o|Os]; cbn [variant_ok_for variant_valid] in *.
    - exact I.
    - destruct (dc_ndim c) as [m|] eqn:En; [|discriminate]. apply Nat.eqb_eq in Hv.
      destruct Hnd as [Hnd|Hnd]; congruence.
    - destruct (dc_ndim c) as [m|] eqn:En; [|discriminate]. destruct (dc_corder c) as [k|] eqn:Ek; [|discriminate].
      apply andb_true_iff in Hv. destruct Hv as [Hv Hk0]. apply andb_true_iff in Hv. destruct Hv as [Hm Hk].
      apply Nat.eqb_eq in Hm. apply Nat.eqb_eq in Hk. apply negb_true_iff in Hk0. apply Nat.eqb_neq in Hk0.
      destruct Hnd as [Hnd|Hnd]; [|congruence]. inversion Hnd; subst.
      rewrite (const_order_spec os (const_order os)) at 1; [|reflexivity|rewrite (Hco _ eq_refl); exact Hk0].
      rewrite (Hco _ eq_refl). reflexivity.
    - discriminate. }
  destruct Hall as [H1 H2]. split; apply Hone; assumption.
Qed.

Lemma select_valid templates os ev vev :
  forallb case_ok dispatch_cases = true -> forallb known_ok dispatch_known = true ->
  select templates os = Some (ev, vev) -> variant_valid ev os /\ variant_valid vev os.
Proof.
  intros Hc Hk. unfold select.
  destruct (select_known templates os) as [k|] eqn:E1.
  - intros H; inversion H; subst. unfold select_known in E1. apply find_some in E1. destruct E1 as [Hin G].
    apply andb_true_iff in G. destruct G as [_ G]. apply orders_are_eq in G.
    rewrite forallb_forall in Hk. specialize (Hk k Hin). unfold known_ok in Hk. apply andb_true_iff in Hk.
    assert (Hone : forall v, known_variant_ok (dk_orders k) v = true -> variant_valid v os).
    { intros v Hv. destruct v as [|D|D o|Os]; cbn [known_variant_ok variant_valid] in Hv |- *;
        [exact I | discriminate Hv | discriminate Hv |].
      apply list_nat_eqb_eq in Hv. congruence. }
    destruct Hk as [H1 H2]. split; apply Hone; assumption.
  - destruct (select_case templates os) as [c|] eqn:E2; [|discriminate].
    intros H; inversion H; subst. apply (select_case_valid templates os c Hc E2).
Qed.

(* the default labels are present and active: selection never leaves the routine pointers unset *)
Definition has_default (templates : bool) (oc : option nat) : bool :=
  existsb (fun c => same_outer (dc_corder c) oc && (active templates (dc_templ c) && is_default (dc_ndim c))) dispatch_cases.
Definition dispatch_total_ok : bool :=
  forallb (fun templates => forallb (has_default templates) (None :: map Some (outer_labels templates))) [true; false].

Lemma select_case_total templates os :
  dispatch_total_ok = true -> select_case templates os <> None.
Proof.
  intros Hall. unfold select_case. cbv zeta.
  set (oc := outer_choice templates (const_order os)).
  destruct (find (fun c => active templates (dc_templ c) && label_is (dc_ndim c) (length os))
                 (filter (fun c => same_outer (dc_corder c) oc) dispatch_cases)); [discriminate|].
  assert (Hoc : In oc (None :: map Some (outer_labels templates))).
  { subst oc. unfold outer_choice. destruct (existsb (Nat.eqb (const_order os)) (outer_labels templates)) eqn:E.
    - right. apply in_map. apply existsb_exists in E. destruct E as [k [Hk1 Hk2]]. apply Nat.eqb_eq in Hk2. subst k. exact Hk1.
    - left. reflexivity. }
  unfold dispatch_total_ok in Hall. rewrite forallb_forall in Hall.
  assert (Ht : In templates [true; false]) by (destruct templates; cbn; auto).
  specialize (Hall templates Ht). rewrite forallb_forall in Hall. specialize (Hall oc Hoc).
  unfold has_default in Hall. apply existsb_exists in Hall. destruct Hall as [c [Hin Hc]].
  apply andb_true_iff in Hc. destruct Hc as [Hc1 Hc2].
  intro Hnone.
  assert (Hf : active templates (dc_templ c) && is_default (dc_ndim c) = false).
  { apply (find_none _ _ Hnone c). apply filter_In. split; assumption. }
  congruence.
Qed.

Lemma select_total templates os : dispatch_total_ok = true -> select templates os <> None.
Proof.
  intros H. unfold select. destruct (select_known templates os); [discriminate|].
  pose proof (select_case_total templates os H) as Hn.
  destruct (select_case templates os); [discriminate|congruence].
Qed.

(* ============================================================================================== *)
(** * bspline_nonzero computes what bsplvb_simple and bspline_deriv_nonzero compute *)
Section Nonzero.
Context {A : Arith}.
Notation K := (T A).

Lemma deboor_rounds_app (kn : Z -> K) left x a : forall j b l,
  deboor_rounds kn left x j (a + b) l = deboor_rounds kn left x (j + a) b (deboor_rounds kn left x j a l).
Proof.
  induction a as [|a IH]; intros j b l.
  - cbn [Nat.add deboor_rounds]. rewrite Nat.add_0_r. reflexivity.
  - cbn [Nat.add deboor_rounds]. rewrite IH. replace (S j + a)%nat with (j + S a)%nat by lia. reflexivity.
Qed.

(* orders >= 1: no hypothesis at all *)
Lemma nonzero_pos_order (kn : Z -> K) nknots n1 x c :
  bspline_nonzero kn nknots (S n1) x c =
  (bsplvb_simple kn nknots (S n1) x c, bspline_deriv_nonzero kn nknots (S n1) x c).
Proof.
  unfold bspline_nonzero, bsplvb_simple, bspline_deriv_nonzero. cbv zeta.
  f_equal. f_equal.
  replace (S n1) with (n1 + 1)%nat at 4 by lia.
  rewrite deboor_rounds_app. rewrite Nat.add_0_l. reflexivity.
Qed.

Variable ord : K -> Prop.
Hypothesis laws : OrdLaws A ord.

(* order 0: bsplvb_simple still runs the margin walk; it does nothing for a center returned by the lookup *)
Lemma nonzero_order0 (d : @dimn A) x c :
  d_order d = O -> wf_dim ord d -> ord x -> in_range d x -> center_post d x c ->
  bspline_nonzero (d_kn d) (d_nknots d) O x c =
  (bsplvb_simple (d_kn d) (d_nknots d) O x c, bspline_deriv_nonzero (d_kn d) (d_nknots d) O x c).
Proof.
  intros Ho [W1 [W2 [W3 W4]]] Ox [R1 R2] [P1 _]. rewrite Ho in *. cbn [Z.of_nat] in *.
  unfold bspline_nonzero, bsplvb_simple, bspline_deriv_nonzero. f_equal.
  cbn [deboor_rounds Z.of_nat].
  assert (O0 : ord (d_kn d 0)) by (apply W3; lia).
  assert (Ol : ord (d_kn d (d_nknots d - 1))) by (apply W3; lia).
  assert (Hadj : adjust_left (d_kn d) (d_nknots d) 0 x c = c).
  { unfold adjust_left. cbv zeta.
    assert (H1 : (if c =? 0 then walk_down (d_kn d) (Z.to_nat (c + 1)) x c else c) = c).
    { destruct (c =? 0) eqn:E; [|reflexivity]. apply Z.eqb_eq in E. subst c.
      change (Z.to_nat (0 + 1)) with 1%nat. cbn [walk_down].
      assert (ltb x (d_kn d 0) = false) as ->.
      { rewrite (ltb_leb A ord laws) by auto. rewrite (ltb_leb A ord laws) in R1 by auto.
        apply negb_true_iff in R1. destruct (leb_total A ord laws (d_kn d 0) x O0 Ox) as [H|H]; [rewrite H; reflexivity|congruence]. }
      rewrite andb_false_r. reflexivity. }
    rewrite H1.
    destruct (c =? d_nknots d - 0 - 2) eqn:E; [|reflexivity]. apply Z.eqb_eq in E.
    destruct (Z.to_nat (d_nknots d - 1 - c)) as [|f]; [reflexivity|]. cbn [walk_up].
    replace (c + 1) with (d_nknots d - 1) by lia. unfold gtb.
    assert (ltb (d_kn d (d_nknots d - 1)) x = false) as ->.
    { rewrite (ltb_leb A ord laws) by auto. rewrite R2. reflexivity. }
    rewrite andb_false_r. reflexivity. }
  rewrite Hadj. unfold rearrange.
  assert (0 <? 0 - c = false) as -> by (apply Z.ltb_ge; lia).
  assert (0 <? c + 0 + 2 - d_nknots d = false) as -> by (apply Z.ltb_ge; lia).
  reflexivity.
Qed.

Lemma nonzero_eq (d : @dimn A) x c :
  wf_dim ord d -> ord x -> in_range d x -> center_post d x c ->
  bspline_nonzero (d_kn d) (d_nknots d) (d_order d) x c = (localbasis_val d x c, localbasis_der d x c).
Proof.
  intros W Ox R P. unfold localbasis_val, localbasis_der.
  destruct (d_order d) as [|n1] eqn:E.
  - rewrite <- E at 1. rewrite E. apply nonzero_order0; auto.
  - apply nonzero_pos_order.
Qed.

(* ---------------------------------------------------------------------------------------------- *)
(* the lanes of the gradient evaluation and the derivative bitmask *)
Definition lanes_from (k : nat) (vb : list (list K * list K)) (lane : nat) : list (list K) :=
  map (fun nb => if (lane =? S (fst nb))%nat then snd (snd nb) else fst (snd nb)) (combine (seq k (length vb)) vb).

Definition nb_dims (ds : list (@dimn A)) (xs : list K) (cs : list Z) : list (list K * list K) :=
  map (fun dxc => bspline_nonzero (d_kn (fst (fst dxc))) (d_nknots (fst (fst dxc))) (d_order (fst (fst dxc))) (snd (fst dxc)) (snd dxc))
      (combine (combine ds xs) cs).

Inductive F3 (P : @dimn A -> K -> Z -> Prop) : list (@dimn A) -> list K -> list Z -> Prop :=
| F3n : F3 P [] [] []
| F3c d x c ds xs cs : P d x c -> F3 P ds xs cs -> F3 P (d :: ds) (x :: xs) (c :: cs).

Lemma lanes_mask ds : forall xs cs k mask lane,
  F3 (fun d x c => bspline_nonzero (d_kn d) (d_nknots d) (d_order d) x c = (localbasis_val d x c, localbasis_der d x c)) ds xs cs ->
  0 <= mask ->
  (forall i : nat, Z.testbit mask (Z.of_nat i) = (lane =? S (k + i))%nat) ->
  lanes_from k (nb_dims ds xs cs) lane = localbases_mask ds xs cs mask.
Proof.
  induction ds as [|d ds IH]; intros xs cs k mask lane HF Hm Hbits.
  - inversion HF; subst. reflexivity.
  - inversion HF as [|? x c ? xs' cs' Hd HF']; subst.
    unfold lanes_from, nb_dims. cbn [combine map length seq fst snd localbases_mask].
    rewrite Hd. cbn [fst snd].
    f_equal.
    + rewrite <- Z.bit0_odd. pose proof (Hbits O) as H0. cbn [Z.of_nat] in H0. rewrite H0. rewrite Nat.add_0_r. reflexivity.
    + change (map (fun nb => if (lane =? S (fst nb))%nat then snd (snd nb) else fst (snd nb))
                (combine (seq (S k) (length (nb_dims ds xs' cs'))) (nb_dims ds xs' cs')))
        with (lanes_from (S k) (nb_dims ds xs' cs') lane).
      apply IH; auto.
      * apply Z.div_pos; lia.
      * intros i. rewrite Z.div2_bits by lia.
        replace (Z.succ (Z.of_nat i)) with (Z.of_nat (S i)) by lia. rewrite Hbits.
        replace (k + S i)%nat with (S k + i)%nat by lia. reflexivity.
Qed.

Lemma lane_bases_from vb lane : lane_bases vb lane = lanes_from 0 vb lane.
Proof. reflexivity. Qed.

Lemma nonzero_bases_dims (t : @table A) xs cs : nonzero_bases t xs cs = nb_dims (dims t) xs cs.
Proof. reflexivity. Qed.

(* lane 0 <-> mask 0 ; lane j+1 <-> mask 2^j *)
Lemma lane0_bits : forall i : nat, Z.testbit 0 (Z.of_nat i) = (0 =? S (0 + i))%nat.
Proof. intros i. rewrite Z.bits_0. reflexivity. Qed.
Lemma laneS_bits j : forall i : nat, Z.testbit (2 ^ Z.of_nat j) (Z.of_nat i) = (S j =? S (0 + i))%nat.
Proof.
  intros i. rewrite Z.pow2_bits_eqb by lia. cbn [Nat.add Nat.eqb].
  destruct (Nat.eqb_spec j i) as [->|N].
  - apply Z.eqb_refl.
  - apply Z.eqb_neq. lia.
Qed.

Lemma F3_of_lookup (t : @table A) xs cs :
  Forall (wf_dim ord) (dims t) -> Forall ord xs -> length xs = length (dims t) ->
  searchcenters t xs = CFound cs ->
  F3 (fun d x c => bspline_nonzero (d_kn d) (d_nknots d) (d_order d) x c = (localbasis_val d x c, localbasis_der d x c)) (dims t) xs cs.
Proof.
  intros Hwf Hxs Hlen Hsc.
  pose proof (sc_post ord laws t xs Hwf Hxs Hlen cs Hsc) as Hp.
  assert (Hin : Forall2 (in_range) (dims t) xs) by (apply (sc_accepts_iff ord laws t xs Hwf Hxs Hlen); exists cs; exact Hsc).
  clear Hsc Hlen. revert Hwf Hxs Hin. induction Hp as [|d x c ds xs' cs' P Hp IH]; intros Hwf Hxs Hin.
  - constructor.
  - inversion Hwf; subst. inversion Hxs; subst. inversion Hin; subst. constructor; auto.
    apply nonzero_eq; auto.
Qed.

Lemma gradient_lanes (t : @table A) xs cs :
  Forall (wf_dim ord) (dims t) -> Forall ord xs -> length xs = length (dims t) ->
  searchcenters t xs = CFound cs ->
  ndsplineeval_gradient t xs cs =
  ndsplineeval t xs cs 0 :: map (fun j => ndsplineeval t xs cs (2 ^ Z.of_nat j)) (seq 0 (ndim_of t)).
Proof.
  intros Hwf Hxs Hlen Hsc.
  pose proof (F3_of_lookup t xs cs Hwf Hxs Hlen Hsc) as HF.
  unfold ndsplineeval_gradient. cbv zeta. cbn [seq map]. f_equal.
  - unfold ndsplineeval. f_equal. rewrite lane_bases_from, nonzero_bases_dims.
    apply lanes_mask; auto; [lia | exact lane0_bits].
  - rewrite <- seq_shift. rewrite map_map. apply map_ext. intros j.
    unfold ndsplineeval. f_equal. rewrite lane_bases_from, nonzero_bases_dims.
    apply lanes_mask; auto; [apply Z.pow_nonneg; lia | exact (laneS_bits j)].
Qed.

End Nonzero.
