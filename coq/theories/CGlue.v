(* CGlue.v — the GLUE SHAPE of one extern "C" wrapper of src/cinter/splinetable.cpp (C18).  No proofs.
   tools/translators/cinter.py transcribes one record per function into Generated_cinter.wrappers
   (mechanically; it fails closed on any statement it does not recognise); CApiModel.c_call interprets it. *)
From Coq Require Import List String Bool.
Import ListNotations.
Open Scope string_scope.

(* what a `return` statement of a wrapper hands back *)
Inductive cret :=
| CR0          (* return(0)                                    *)
| CR1          (* return(1)                                    *)
| CRNull       (* return(NULL)                                 *)
| CRVoid       (* return;  / falling off the end of a void fn  *)
| CRValue      (* return(<the member's own value>)             *)
| CRNaN        (* return(std::numeric_limits<double>::quiet_NaN())  — the leading check of a double-valued wrapper *)
| CRNaNFill    (* void function: the output buffer is filled with NaN before returning (ndsplineeval_gradient:
                  gradient_failed(table,evaluates); return; — in the catch blocks and in the leading check) *)
| CRNone.      (* there is no such statement                    *)

Record glue := mkGlue {
  g_name : string;               (* the C function                                                              *)
  g_rtype : string;              (* its declared return type                                                    *)
  g_params : list string;        (* parameter names in order                                                    *)
  g_pre_deref : list string;     (* pointer parameters dereferenced BEFORE the leading check (`*result=NULL;`)  *)
  g_checked : list string;       (* operands of the leading `if(!a || !b->c || d->e) return …;`
                                    ("buffer->data:nonnull" for the positive operand)                           *)
  g_check_ret : cret;            (* what that check returns                                                     *)
  g_free_first : bool;           (* `if(table->data) splinetable_free(table);` precedes the body               *)
  g_try : bool;                  (* the body is inside try{…}catch(std::exception&){…}catch(...){…}            *)
  g_catch_ret : cret;            (* what BOTH catch blocks return                                               *)
  g_false_ret : cret;            (* `if(!real_table.m(…)) return(1);` inside the body: failure reported by value *)
  g_member : string;             (* the C++ member (or new/delete expression) the body forwards to              *)
  g_fwd : list string;           (* the arguments it forwards, in order, as written                             *)
  g_ok_ret : cret                (* what the normal path returns                                                *)
}.

Definition cret_eqb (a b : cret) : bool :=
  match a, b with
  | CR0, CR0 | CR1, CR1 | CRNull, CRNull | CRVoid, CRVoid | CRValue, CRValue | CRNaN, CRNaN | CRNaNFill, CRNaNFill | CRNone, CRNone => true
  | _, _ => false
  end.

Fixpoint inb (a : string) (l : list string) : bool :=
  match l with [] => false | b :: t => if String.eqb a b then true else inb a t end.

Fixpoint list_string_eqb (a b : list string) : bool :=
  match a, b with
  | [], [] => true
  | x :: a', y :: b' => String.eqb x y && list_string_eqb a' b'
  | _, _ => false
  end.

(* worst case for a function the table does not list: nothing checked, nothing caught *)
Definition no_glue (n : string) : glue :=
  mkGlue n "int" [] [] [] CRNone false false CRNone CRNone "" [] CRNone.

Fixpoint glue_of (gt : list glue) (n : string) : glue :=
  match gt with
  | [] => no_glue n
  | g :: t => if String.eqb (g_name g) n then g else glue_of t n
  end.
