(* PermModel.v — executable model of splinetable::permuteDimensions
   (include/photospline/detail/permute.h, whole function) and of the C wrapper splinetable_permute
   (src/cinter/splinetable.cpp:308-321).  Definitions only — the proofs are in C15_Proofs.v, so that
   this file still extracts when a proof breaks.

   The model follows the code statement by statement:
     - the validation block (permute.h:10-26) is [validate]: length test, then the loop that rejects an
       index >= ndim or an index seen before (vector<bool> permutation_test), then the loop that looks for
       an index never seen;
     - the per-axis loop (permute.h:46-56) is [gather] for order/naxes/nknots/knots/extents and a scatter
       for the inverse permutation iperm (iperm[permutation[i]] = i);
     - the stride computation (permute.h:59-62) is [new_strides] (1, then std::partial_sum with
       multiplication over the reversed tail of the new shape, then std::reverse);
     - the coefficient loop (permute.h:65-72) is [relocate]: for pos = 0..ncoeffs-1,
       t_coefficients[sum_i (pos / strides[i] % naxes[i]) * t_strides[iperm[i]]] = coefficients[pos],
       using the strides STORED in the table (not recomputed ones) exactly as the code does;
     - the copy-back (permute.h:75-84) replaces the record fields.
   Element types are abstract: [K] is what knots[i] points to (the pointer is copied, so the padding in
   front of and behind the knot vector travels with it), [E] the type of extents/periods values, [C] the
   coefficient type.  Nothing numeric is done with them, which is why "exactly the original values,
   relocated" can be stated and proved for every value including NaNs and signed zeros.
   Integers are unbounded (Z / nat): the uint64 arithmetic of the code is exact as long as the number of
   coefficients is < 2^64, which holds for every table that fits in memory.

   [periods] (splinetable.h:771) may be NULL (tables built in memory or by the fitter) or an array of
   ndim doubles (tables read from FITS, fitsio.h:272): [option (list E)].
   The code as found (commit a37ac82) does not touch [periods] at all: [permute_v0].  After the proposed
   fix (proposed_repo_patches/C15_1.diff) periods are permuted like the other per-axis arrays when the
   array exists: [permute].  *)
From Coq Require Import ZArith List Bool.
Import ListNotations.
Local Open Scope Z_scope.

Set Implicit Arguments.

(* array write a[i] = v; a write outside the array is ignored (it does not happen for validated input:
   C15_Proofs shows every write index is in range) *)
Fixpoint upd {A : Type} (l : list A) (i : nat) (v : A) : list A :=
  match l, i with
  | [], _ => []
  | _ :: r, O => v :: r
  | x :: r, S i' => x :: upd r i' v
  end.

(* for(i...) t_X[i] = X[permutation[i]]   (permute.h:47-55); an index outside X contributes nothing *)
Definition gather {A : Type} (l : list A) (p : list nat) : list A :=
  flat_map (fun j => match nth_error l j with Some x => [x] | None => [] end) p.

(* a sequence of array writes a[j] = v, in order *)
Definition scatter {A : Type} (writes : list (nat * A)) (init : list A) : list A :=
  fold_left (fun acc w => upd acc (fst w) (snd w)) writes init.

(* ---------------------------------------------------------------------------------------------- *)
(* validation block, permute.h:10-26 *)
Inductive perr := ErrLength | ErrTooLarge | ErrDuplicate | ErrMissing.

(* permute.h:14-21. The argument is a vector of size_t: modelled as N so that huge values (2^32+k, 2^64-1) are
   ordinary inputs; an index is used as an array position only after it was found to be < ndim. *)
Fixpoint vloop1 (ndim : nat) (p : list N) (test : list bool) : perr + list bool :=
  match p with
  | [] => inr test
  | j :: r =>
      if (N.of_nat ndim <=? j)%N then inl ErrTooLarge          (* if(j>=ndim) throw "Too large index" *)
      else if nth (N.to_nat j) test false then inl ErrDuplicate (* if(permutation_test[j]) throw "Duplicate index" *)
      else vloop1 ndim r (upd test (N.to_nat j) true)           (* permutation_test[j]=true *)
  end.
(* permute.h:22-25 *)
Definition vloop2 (test : list bool) : option perr :=
  if forallb (fun b => b) test then None else Some ErrMissing.
Definition validate (ndim : nat) (p : list N) : option perr :=
  if negb (length p =? ndim)%nat then Some ErrLength           (* permute.h:11 *)
  else match vloop1 ndim p (repeat false (length p)) with      (* permute.h:13 *)
       | inl e => Some e
       | inr test => vloop2 test
       end.

(* ---------------------------------------------------------------------------------------------- *)
(* iperm[permutation[i]] = i  (permute.h:46-49); uint32_t iperm[ndim] starts uninitialised: modelled as 0s,
   every entry is written when the argument passed validation *)
Definition inverse_perm (ndim : nat) (p : list nat) : list nat :=
  scatter (combine p (seq 0 (length p))) (repeat 0%nat ndim).

(* permute.h:59-61: t_strides[0]=1; partial_sum(t_naxes.rbegin(), t_naxes.rend()-1, t_strides+1, multiplies);
   reverse(t_strides, t_strides+ndim) *)
Fixpoint partial_prods (acc : Z) (l : list Z) : list Z :=
  match l with
  | [] => []
  | x :: r => (acc * x) :: partial_prods (acc * x) r
  end.
Definition new_strides (t_naxes : list Z) : list Z :=
  rev (partial_prods 1 (1 :: rev (tl t_naxes))).
  (* = rev (1 :: n_{d-1} :: n_{d-1}*n_{d-2} :: ...): partial_sum's first output is its first input, which is
     what starting the running product at 1 gives; the leading 1 is t_strides[0]=1 *)

(* permute.h:67-70: npos = sum_i (pos / strides[i] % naxes[i]) * t_strides[iperm[i]] *)
Definition npos (ndim : nat) (strides naxes t_strides : list Z) (iperm : list nat) (pos : Z) : Z :=
  fold_left (fun acc i => acc + (pos / nth i strides 0) mod (nth i naxes 0) * nth (nth i iperm 0%nat) t_strides 0)
            (seq 0 ndim) 0.

Section Table.
Variables K E C : Type.

Record table := mkTable {
  t_ndim : nat;
  t_order : list Z;
  t_nknots : list Z;
  t_knots : list K;
  t_extents : list (E * E);
  t_periods : option (list E);
  t_naxes : list Z;
  t_strides : list Z;
  t_coeffs : list C }.

(* permute.h:65-72. [junk] stands for the uninitialised contents of new float[ncoeffs] (and for a read past the
   end of the old array, which does not happen on well-formed tables); C15_coeff_relocated shows the result
   does not depend on it. *)
Definition relocate (junk : C) (ndim : nat) (strides naxes t_strides : list Z) (iperm : list nat)
                    (ncoeffs : nat) (coeffs : list C) : list C :=
  scatter (map (fun k => (Z.to_nat (npos ndim strides naxes t_strides iperm (Z.of_nat k)), nth k coeffs junk))
               (seq 0 ncoeffs))
          (repeat junk ncoeffs).

(* std::copy(t_coefficients, t_coefficients+ncoeffs, coefficients)  (permute.h:84) *)
Definition copy_back (new old : list C) : list C := new ++ skipn (length new) old.

(* the body after validation ([p] = the validated indices as positions); [fixed] selects the tree with / without the proposed periods fix *)
Definition permute_body (fixed : bool) (junk : C) (t : table) (p : list nat) : table :=
  let nd := t_ndim t in
  let iperm := inverse_perm nd p in
  let n_order := gather (t_order t) p in
  let n_naxes := gather (t_naxes t) p in
  let n_nknots := gather (t_nknots t) p in
  let n_knots := gather (t_knots t) p in
  let n_extents := gather (t_extents t) p in
  let n_strides := new_strides n_naxes in
  let ncoeffs := Z.to_nat (nth 0 n_strides 0 * nth 0 n_naxes 0) in          (* permute.h:62 *)
  let n_coeffs := relocate junk nd (t_strides t) (t_naxes t) n_strides iperm ncoeffs (t_coeffs t) in
  mkTable nd n_order n_nknots n_knots n_extents
          (if fixed then option_map (fun l => gather l p) (t_periods t) else t_periods t)
          n_naxes n_strides (copy_back n_coeffs (t_coeffs t)).

(* permuteDimensions: throw (table untouched) or run the body (in which uint32_t j = permutation[i] is exact
   because j < ndim was checked) *)
Definition permute_checked_gen (fixed : bool) (junk : C) (t : table) (p : list N) : option perr * table :=
  match validate (t_ndim t) p with
  | Some e => (Some e, t)
  | None => (None, permute_body fixed junk t (map N.to_nat p))
  end.

(* the code as found: periods not permuted (kept for the regression example C15_refuted_periods_v0) *)
Definition permute_checked_v0 := permute_checked_gen false.
(* the current tree (with fix C15_1) *)
Definition permute_checked := permute_checked_gen true.
Definition permute (junk : C) (t : table) (p : list nat) : table := permute_body true junk t p.

(* C wrapper splinetable_permute (cinter/splinetable.cpp:308-321): copies get_ndim() entries from the caller's
   array (so a wrong length cannot be expressed) and maps any exception to return code 1 *)
Definition c_permute_gen (fixed : bool) (junk : C) (t : table) (p : list N) : Z * table :=
  match permute_checked_gen fixed junk t (firstn (t_ndim t) p) with
  | (Some _, t') => (1, t')
  | (None, t') => (0, t')
  end.
Definition c_permute := c_permute_gen true.

End Table.
