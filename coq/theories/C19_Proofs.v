(* C19_Proofs.v — proofs about MemModel (the allocator requests of reader / convolve / destructor) and the
   transcription of estimateMemory in Generated_mem.v.  Pure N arithmetic. *)
From Coq Require Import NArith List Lia Bool.
From PS Require Import Resource Generated_mem MemModel.
Import ListNotations.
Open Scope N_scope.

(* ------------------------------------------------------------------ folds *)

Lemma fold_left_add_sum : forall xs a, fold_left N.add xs a = a + sumN xs.
Proof.
  unfold sumN. induction xs as [|x xs IH]; intros a; cbn [fold_left fold_right]; [lia|]. rewrite IH. lia.
Qed.

Lemma fold_left_addf_sum : forall (A : Type) (g : A -> N) xs a,
  fold_left (fun s d => s + g d) xs a = a + sumN (map g xs).
Proof.
  unfold sumN. induction xs as [|x xs IH]; intros a; cbn [fold_left fold_right map]; [lia|]. rewrite IH. lia.
Qed.

Lemma sumN_cons : forall x xs, sumN (x :: xs) = x + sumN xs.
Proof. reflexivity. Qed.

Lemma sumN_map_le : forall (A : Type) (f g : A -> N) xs,
  (forall x, f x <= g x) -> sumN (map f xs) <= sumN (map g xs).
Proof.
  intros A f g xs H. induction xs as [|x xs IH]; cbn [map]; [unfold sumN; cbn; lia|].
  rewrite !sumN_cons. specialize (H x). lia.
Qed.

(* ------------------------------------------------------------------ upd_at *)

Lemma upd_at_ext : forall (A : Type) (f g : A -> A) k xs, (forall x, f x = g x) -> upd_at f k xs = upd_at g k xs.
Proof.
  intros A f g k xs H. revert k. induction xs as [|x xs IH]; intros k; destruct k; cbn [upd_at]; try reflexivity.
  - now rewrite H.
  - now rewrite IH.
Qed.

Lemma upd_at_length : forall (A : Type) (f : A -> A) k xs, length (upd_at f k xs) = length xs.
Proof.
  intros A f k xs. revert k. induction xs as [|x xs IH]; intros k; destruct k; cbn [upd_at length]; try reflexivity.
  now rewrite IH.
Qed.

Lemma ncoeffs_cons : forall d ds, ncoeffs (d :: ds) = naxis d * ncoeffs ds.
Proof. reflexivity. Qed.

Lemma ncoeffs_upd_le : forall f k ds d,
  nth_error ds k = Some d -> naxis d <= naxis (f d) -> ncoeffs ds <= ncoeffs (upd_at f k ds).
Proof.
  intros f k ds. revert k. induction ds as [|x ds IH]; intros k d Hn Hle; destruct k; cbn [nth_error] in Hn; try discriminate.
  - injection Hn as ->. cbn [upd_at]. rewrite !ncoeffs_cons. apply N.mul_le_mono_r. exact Hle.
  - cbn [upd_at]. rewrite !ncoeffs_cons. apply N.mul_le_mono_l. eapply IH; eassumption.
Qed.

Lemma knotsum_upd_le : forall f k ds d,
  nth_error ds k = Some d -> knot_bytes d <= knot_bytes (f d) ->
  sumN (map knot_bytes ds) <= sumN (map knot_bytes (upd_at f k ds)).
Proof.
  intros f k ds. revert k. induction ds as [|x ds IH]; intros k d Hn Hle; destruct k; cbn [nth_error] in Hn; try discriminate.
  - injection Hn as ->. cbn [upd_at map]. rewrite !sumN_cons. lia.
  - cbn [upd_at map]. rewrite !sumN_cons. specialize (IH _ _ Hn Hle). lia.
Qed.

(* ------------------------------------------------------------------ the convolved dimension only grows *)

Lemma conv_dim_naxis_le : forall n d, 1 <= n -> naxis d + order d + 1 = nknots d -> naxis d <= naxis (conv_dim n d).
Proof.
  intros n [a k o] Hn Hc. cbn [naxis order nknots conv_dim] in *.
  destruct (N.le_exists_sub 1 n Hn) as [m [-> _]]. subst k. nia.
Qed.

Lemma conv_dim_knots_le : forall n d, 1 <= n -> knot_bytes d <= knot_bytes (conv_dim n d).
Proof.
  intros n [a k o] Hn. unfold knot_bytes, sizeof_double. cbn [naxis order nknots conv_dim].
  destruct (N.le_exists_sub 1 n Hn) as [m [-> _]]. nia.
Qed.

(* ------------------------------------------------------------------ obligations on the TRANSLATED estimate
   (Generated_mem.v is rewritten from the source on every run; these lemmas are re-checked against it) *)

(* the estimate's bookkeeping of the convolved dimension is the one convolve performs *)
Lemma est_dim_is_conv_dim : forall n d, 1 <= n -> est_dim n d = conv_dim n d.
Proof.
  intros n [a k o] Hn. unfold est_dim, conv_dim, est_conv_order, est_conv_nknots, est_conv_naxis. cbn [naxis order nknots].
  f_equal; lia.
Qed.

Lemma est_knot_term_covers : forall d, knot_bytes d <= est_knot_term (nknots d) (order d).
Proof. intros d. unfold knot_bytes, est_knot_term. lia. Qed.

Lemma est_init_covers : sizeof_table <= est_init.
Proof. unfold est_init. lia. Qed.

(* every fixed-size array of the reader, the coefficients and one maximal key/value pair per auxiliary key *)
Lemma est_fixed_terms_cover : forall sh nc na,
  sumN (fixed_sizes sh) + nc * sizeof_float + na * (FLEN_KEYWORD + FLEN_VALUE) <= sumN (est_fixed_terms (ndim sh) nc na).
Proof.
  intros sh nc na. unfold fixed_sizes, est_fixed_terms, sumN. cbn [fold_right].
  unfold sizeof_uint32, sizeof_uint64, sizeof_double, sizeof_double_ptr, sizeof_float, sizeof_char, FLEN_KEYWORD, FLEN_VALUE.
  lia.
Qed.

(* "round up to the nearest KB, and add one more": strictly more than a KB of head-room *)
Lemma est_round_slack : forall s, s + KB + 1 <= est_round s.
Proof.
  intros s. unfold est_round. change KB with 1024.
  pose proof (N.mod_lt s 1024 ltac:(lia)). lia.
Qed.

(* one auxiliary key costs the reader at most what the estimate reserves for it, if key and value share a card *)
Lemma aux_pointer_overhead_fits :
  sizeof_char_ptr_ptr + 2 * sizeof_char_ptr + (FLEN_CARD - 1 + 2) * sizeof_char <= FLEN_KEYWORD + FLEN_VALUE.
Proof. vm_compute. discriminate. Qed.

Lemma aux_sizes_bound : forall sh, card_limits sh = true ->
  sumN (aux_sizes sh) <= naux sh * (FLEN_KEYWORD + FLEN_VALUE).
Proof.
  intros [ds axs ex]. unfold card_limits, aux_sizes, naux. cbn [auxs].
  intros H. rewrite sumN_cons.
  induction axs as [|a axs IH].
  - cbn. lia.
  - cbn [forallb] in H. apply andb_prop in H. destruct H as [Ha Hr]. specialize (IH Hr).
    apply N.leb_le in Ha.
    cbn [flat_map length]. rewrite sumN_app. unfold aux_entry_sizes at 1. rewrite !sumN_cons. change (sumN []) with 0.
    rewrite Nat2N.inj_succ.
    pose proof aux_pointer_overhead_fits as Hp.
    unfold sizeof_char_ptr_ptr, sizeof_char_ptr, sizeof_char, FLEN_CARD, FLEN_KEYWORD, FLEN_VALUE in *.
    lia.
Qed.

(* ------------------------------------------------------------------ closed forms of the traces *)

Definition aux_total (sh : shape) : N := sumN (aux_sizes sh).
Definition fixed_total (sh : shape) : N := sumN (fixed_sizes sh).
Definition table_total (ds : list dimrec) : N := ncoeffs ds * sizeof_float + sumN (map knot_bytes ds).

Lemma read_sizes_sum : forall sh,
  sumN (read_sizes sh) = aux_total sh + fixed_total sh + table_total (dims sh).
Proof.
  intros sh. unfold read_sizes, aux_total, fixed_total, table_total.
  rewrite !sumN_app. rewrite sumN_cons. change (sumN []) with 0. lia.
Qed.

Lemma live_read : forall sh, live (read_trace sh) = aux_total sh + fixed_total sh + table_total (dims sh).
Proof. intros sh. unfold live, read_trace. rewrite live_from_allocs, read_sizes_sum. lia. Qed.

Lemma peak_read : forall sh, peak (read_trace sh) = aux_total sh + fixed_total sh + table_total (dims sh).
Proof. intros sh. unfold peak, read_trace. rewrite peak_from_allocs, read_sizes_sum. lia. Qed.

(* the peak over load + convolve is the larger of the two resting states: convolve returns the old
   coefficient and knot storage before it requests the new *)
Lemma peak_read_conv : forall sh n dim,
  peak (read_trace sh ++ convolve_trace sh n dim) =
  N.max (aux_total sh + fixed_total sh + table_total (dims sh))
        (aux_total sh + fixed_total sh + table_total (conv_dims (dims sh) n dim)).
Proof.
  intros sh n dim. unfold peak. rewrite peak_from_app. fold (peak (read_trace sh)). fold (live (read_trace sh)).
  rewrite peak_read, live_read. unfold convolve_trace. rewrite peak_free_then_alloc.
  rewrite !sumN_cons. unfold table_total. lia.
Qed.

Lemma live_read_conv : forall sh n dim,
  live (read_trace sh ++ convolve_trace sh n dim) =
  aux_total sh + fixed_total sh + table_total (conv_dims (dims sh) n dim).
Proof.
  intros sh n dim. unfold live. rewrite live_from_app. fold (live (read_trace sh)). rewrite live_read.
  unfold convolve_trace. rewrite live_from_app, live_from_frees, live_from_allocs.
  rewrite !sumN_cons. unfold table_total. lia.
Qed.

Lemma estimate_closed : forall sh n dim,
  estimate sh n dim =
  est_round (est_init + sumN (map (fun d => est_knot_term (nknots d) (order d)) (est_dims (dims sh) n dim))
             + sumN (est_fixed_terms (ndim sh) (ncoeffs (est_dims (dims sh) n dim)) (est_naux sh))).
Proof.
  intros sh n dim. unfold estimate. cbv zeta. rewrite fold_left_add_sum, fold_left_addf_sum. reflexivity.
Qed.

Lemma table_total_conv_le : forall sh n dim, valid_conv sh n dim = true ->
  table_total (dims sh) <= table_total (conv_dims (dims sh) n dim).
Proof.
  intros sh n dim Hv. unfold valid_conv in Hv. apply andb_prop in Hv. destruct Hv as [Hn Hd].
  apply N.leb_le in Hn. destruct (nth_error (dims sh) dim) as [d|] eqn:E; [|discriminate].
  apply N.eqb_eq in Hd. unfold table_total, conv_dims.
  pose proof (ncoeffs_upd_le (conv_dim n) dim (dims sh) d E (conv_dim_naxis_le n d Hn Hd)).
  pose proof (knotsum_upd_le (conv_dim n) dim (dims sh) d E (conv_dim_knots_le n d Hn)).
  unfold sizeof_float. lia.
Qed.

(* ------------------------------------------------------------------ the bound *)

(* the estimate covers the post-convolution resting state, the table object itself, and > 1 KB of slack *)
Lemma estimate_covers_final_state : forall sh n dim,
  est_naux_from_primary = true -> card_limits sh = true -> 1 <= n ->
  aux_total sh + fixed_total sh + table_total (conv_dims (dims sh) n dim) + sizeof_table + KB + 1 <= estimate sh n dim.
Proof.
  intros sh n dim Hp Hc Hn. rewrite estimate_closed.
  unfold est_dims. rewrite (upd_at_ext _ (est_dim n) (conv_dim n) dim (dims sh) (fun d => est_dim_is_conv_dim n d Hn)).
  fold (conv_dims (dims sh) n dim). set (ds' := conv_dims (dims sh) n dim).
  unfold est_naux. rewrite Hp.
  pose proof (est_round_slack (est_init + sumN (map (fun d => est_knot_term (nknots d) (order d)) ds')
                               + sumN (est_fixed_terms (ndim sh) (ncoeffs ds') (naux sh)))) as Hr.
  pose proof (est_fixed_terms_cover sh (ncoeffs ds') (naux sh)) as Hf.
  pose proof (sumN_map_le _ knot_bytes (fun d => est_knot_term (nknots d) (order d)) ds' est_knot_term_covers) as Hk.
  pose proof (aux_sizes_bound sh Hc) as Ha.
  pose proof est_init_covers as Hi.
  unfold aux_total, fixed_total, table_total. lia.
Qed.

Lemma naux_primary : est_naux_from_primary = true.
Proof. reflexivity. Qed.

Lemma bound_with_slack : forall sh n dim, card_limits sh = true -> valid_conv sh n dim = true ->
  peak (read_trace sh ++ convolve_trace sh n dim) + sizeof_table + KB + 1 <= estimate sh n dim.
Proof.
  intros sh n dim Hc Hv. rewrite peak_read_conv.
  pose proof (table_total_conv_le sh n dim Hv) as Hm.
  assert (Hn : 1 <= n) by (unfold valid_conv in Hv; apply andb_prop in Hv; destruct Hv as [Hn _]; now apply N.leb_le in Hn).
  pose proof (estimate_covers_final_state sh n dim naux_primary Hc Hn). lia.
Qed.

Lemma bound : forall sh n dim, card_limits sh = true -> valid_conv sh n dim = true ->
  peak (read_trace sh ++ convolve_trace sh n dim) <= estimate sh n dim.
Proof. intros sh n dim Hc Hv. pose proof (bound_with_slack sh n dim Hc Hv). lia. Qed.

Lemma bound_noconv : forall sh, card_limits sh = true -> valid_conv sh 1 0 = true ->
  peak (read_trace sh) <= estimate sh 1 0.
Proof.
  intros sh Hc Hv. pose proof (bound sh 1 0%nat Hc Hv) as H.
  unfold peak in *. rewrite peak_from_app in H. lia.
Qed.

(* what the peak is, exactly *)
Lemma peak_is_final_state : forall sh n dim, valid_conv sh n dim = true ->
  peak (read_trace sh ++ convolve_trace sh n dim) = live (read_trace sh ++ convolve_trace sh n dim).
Proof.
  intros sh n dim Hv. rewrite peak_read_conv, live_read_conv. pose proof (table_total_conv_le sh n dim Hv). lia.
Qed.

(* ------------------------------------------------------------------ the destructor returns everything,
   byte for byte, provided no value had FITS quotes stripped *)

Lemma aux_free_sum : forall axs, forallb (fun a => strip a =? 0) axs = true ->
  sumN (flat_map aux_entry_free_sizes axs) = sumN (flat_map aux_entry_sizes axs).
Proof.
  induction axs as [|a axs IH]; intros H; [reflexivity|].
  cbn [forallb] in H. apply andb_prop in H. destruct H as [Ha Hr]. apply N.eqb_eq in Ha.
  cbn [flat_map]. rewrite !sumN_app, (IH Hr). unfold aux_entry_free_sizes, aux_entry_sizes. rewrite !sumN_cons.
  rewrite Ha. change (sumN []) with 0. lia.
Qed.

Lemma destroy_sum : forall sh, no_quotes sh = true ->
  sumN (map knot_bytes (dims sh)
         ++ [ ndim sh * sizeof_double_ptr; ndim sh * sizeof_uint64; ndim sh * sizeof_uint32; 2 * ndim sh * sizeof_double;
              ndim sh * sizeof_double_ptr; ndim sh * sizeof_double; ncoeffs (dims sh) * sizeof_float;
              ndim sh * sizeof_uint64; ndim sh * sizeof_uint64 ]
         ++ flat_map aux_entry_free_sizes (auxs sh) ++ [ naux sh * sizeof_char_ptr_ptr ])
  = aux_total sh + fixed_total sh + table_total (dims sh).
Proof.
  intros sh Hq. unfold no_quotes in Hq. rewrite !sumN_app, (aux_free_sum _ Hq).
  unfold aux_total, aux_sizes, fixed_total, fixed_sizes, table_total. rewrite !sumN_cons. change (sumN []) with 0. lia.
Qed.

Lemma balanced_after_destroy : forall sh n dim, no_quotes sh = true -> valid_conv sh n dim = true ->
  balanced (life_trace sh n dim) = true.
Proof.
  intros sh n dim Hq Hv. unfold balanced, life_trace.
  set (sh' := shape_after_conv sh n dim).
  assert (Hq' : no_quotes sh' = true) by exact Hq.
  assert (Hnd : ndim sh' = ndim sh) by (unfold ndim, sh', shape_after_conv, conv_dims; cbn [dims]; now rewrite upd_at_length).
  assert (Hax : aux_total sh' = aux_total sh) by reflexivity.
  assert (Hfx : fixed_total sh' = fixed_total sh) by (unfold fixed_total, fixed_sizes; now rewrite Hnd).
  assert (Hlive : live_from 0 (read_trace sh ++ convolve_trace sh n dim) =
                  aux_total sh' + fixed_total sh' + table_total (dims sh')).
  { fold (live (read_trace sh ++ convolve_trace sh n dim)). rewrite live_read_conv, Hax, Hfx. reflexivity. }
  apply andb_true_intro. split.
  - unfold wf. rewrite app_assoc, wf_from_app, Hlive.
    apply andb_true_intro. split.
    + rewrite wf_from_app. fold (live (read_trace sh)). rewrite live_read.
      unfold read_trace. rewrite wf_from_allocs. cbn [andb].
      unfold convolve_trace. rewrite wf_from_app, wf_from_allocs, andb_true_r.
      apply wf_from_frees. rewrite sumN_cons. unfold table_total. lia.
    + unfold destroy_trace. apply wf_from_frees. rewrite (destroy_sum sh' Hq'). lia.
  - apply N.eqb_eq. unfold live. rewrite app_assoc, live_from_app, Hlive.
    unfold destroy_trace. rewrite live_from_frees, (destroy_sum sh' Hq'). lia.
Qed.

(* ------------------------------------------------------------------ concrete instances *)

Definition ex_shape : shape :=
  {| dims := [ {| naxis := 5; nknots := 8; order := 2 |}; {| naxis := 4; nknots := 5; order := 0 |};
               {| naxis := 7; nknots := 11; order := 3 |} ];
     auxs := [ {| keylen := 3; vallen := 10; strip := 0 |}; {| keylen := 38; vallen := 10; strip := 0 |};
               {| keylen := 8; vallen := 70; strip := 0 |} ];
     ext_naux := 4 |}.

Lemma ex_hyps : card_limits ex_shape = true /\ valid_conv ex_shape 3 2 = true /\ valid_conv ex_shape 1 0 = true
                /\ no_quotes ex_shape = true.
Proof. vm_compute. repeat split. Qed.

Lemma ex_values : peak (read_trace ex_shape ++ convolve_trace ex_shape 3 2) = 3061 /\ estimate ex_shape 3 2 = 5120
                  /\ peak (read_trace ex_shape) = 1253 /\ estimate ex_shape 1 0 = 3072.
Proof. vm_compute. repeat split. Qed.

(* The tree before the fix counted the auxiliary keys of the LAST KNOTS extension (XTENSION, PCOUNT, GCOUNT,
   EXTNAME: 4) instead of the primary header's.  Replayed on the real code: estimate 2048, measured peak 5092. *)
Definition refute_shape : shape :=
  {| dims := [ {| naxis := 5; nknots := 8; order := 2 |} ];
     auxs := repeat {| keylen := 5; vallen := 65; strip := 2 |} 50;
     ext_naux := 4 |}.

Lemma bound_refuted_before_fix :
  exists sh n dim, card_limits sh = true /\ valid_conv sh n dim = true /\
     estimate_before_fix sh n dim < peak (read_trace sh ++ convolve_trace sh n dim).
Proof. exists refute_shape, 2, 0%nat. vm_compute. repeat split. Qed.

Lemma refute_values : estimate_before_fix refute_shape 2 0 = 2048
                      /\ peak (read_trace refute_shape ++ convolve_trace refute_shape 2 0) = 4992
                      /\ estimate refute_shape 2 0 = 9216.
Proof. vm_compute. repeat split. Qed.

(* card_limits cannot be dropped: with keys and values both at the maximal buffer lengths the per-key pointer
   overhead (24 bytes) is not covered by the estimate.  No FITS card can hold such a pair. *)
Lemma card_limits_needed :
  exists sh n dim, valid_conv sh n dim = true /\ estimate sh n dim < peak (read_trace sh ++ convolve_trace sh n dim).
Proof.
  exists {| dims := [ {| naxis := 1; nknots := 2; order := 0 |} ];
            auxs := repeat {| keylen := 74; vallen := 70; strip := 0 |} 100; ext_naux := 4 |}, 1, 0%nat.
  vm_compute. repeat split.
Qed.

(* valid_conv cannot be dropped either: estimateMemory recomputes the coefficient count of the (default) convolved
   dimension from the knot count, so a file whose image is larger than its knot vector allows is under-estimated. *)
Lemma consistent_dim_needed :
  exists sh, card_limits sh = true /\ estimate sh 1 0 < peak (read_trace sh).
Proof.
  exists {| dims := [ {| naxis := 1000; nknots := 5; order := 2 |} ]; auxs := []; ext_naux := 4 |}.
  vm_compute. repeat split.
Qed.

(* before the fix "read_fits requests exactly the stored length of an auxiliary value" the destructor under-reported
   the size of every value block whose FITS quotes were stripped on reading (2 bytes here); now the block is requested
   with the stored length and a quoted value is returned byte for byte *)
Lemma destroy_returns_quoted_values :
  exists sh, card_limits sh = true /\ valid_conv sh 1 0 = true /\ no_quotes sh = false /\ live (life_trace sh 1 0) = 0.
Proof.
  exists {| dims := [ {| naxis := 5; nknots := 8; order := 2 |} ]; auxs := [ {| keylen := 3; vallen := 10; strip := 2 |} ]; ext_naux := 4 |}.
  vm_compute. repeat split.
Qed.
