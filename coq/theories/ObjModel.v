(* ObjModel.v — executable state machine of the OWNERSHIP PICTURE of photospline::splinetable<Alloc> (C20).
   No proofs in this file.  Everything is nat/list/bool; byte counts are nat.

   What is modelled: for one object, `ndim`, `naux`, the CONTENT of the small index arrays that the code
   itself consults when it computes the size of a block it releases (order[], nknots[], naxes[], the
   strlen()+1 of every aux key/value), and for every raw array the code owns a slot
        Null | Unset | Owned id bytes | Dangling
   (Unset = never written, e.g. knots[i] after `knots = allocate<double_ptr>(ndim)`; Dangling = released
   but the pointer was kept).  Every public member is a `step` producing an outcome and allocator events,
   under an allocation-failure oracle  F : nat -> bool  (F k = the k-th allocate() of the run throws
   std::bad_alloc) and I/O oracles carried by the operations' arguments (which phase of a read fails;
   whether a write / the fitter fails).  What is NOT modelled: knot/coefficient VALUES (C01..C15), cfitsio.
   Operations: construction, reading constructor, read_fits(_mem), fit, write_key, remove_key, convolve, permuteDimensions, move
   construction / assignment, ==, write_fits(_mem), evaluation, destruction.

   The model follows the code THAT EXISTS, parametrised by `cfg`: one boolean per proposed `fix:` commit
   (proposed_repo_patches/C20_*.diff).  `cfg_orig` is the unchanged tree, `cfg_fixed` has all of them;
   tools/translators/objfixes.py detects which ones the working tree contains (Generated_objfixes.tree_cfg). *)
From Coq Require Import List Arith Bool.
From PS Require Import ObjResource.
Import ListNotations.

(* ---------------------------------------------------------------------------------------------- *)
(** * Slots, fields, objects *)

Inductive slot := Null | Unset | Owned (id bytes : nat) | Dangling.

(* the raw arrays of splinetable.h:763-778; FKnot i = knots[i] (block starts at knots[i]-order[i]);
   FExtents0 = extents[0]; FAuxE i = aux[i], FAuxK i = aux[i][0], FAuxV i = aux[i][1];
   FTmp k = function-local pointers (write_key's new_aux/new_entry/new_key/new_value) *)
Inductive field :=
| FOrder | FKnots | FNknots | FExtents | FExtents0 | FPeriods | FCoeff | FNaxes | FStrides
| FKnot (i : nat) | FAux | FAuxE (i : nat) | FAuxK (i : nat) | FAuxV (i : nat) | FTmp (k : nat).

Definition field_eqb (a b : field) : bool :=
  match a, b with
  | FOrder, FOrder | FKnots, FKnots | FNknots, FNknots | FExtents, FExtents | FExtents0, FExtents0
  | FPeriods, FPeriods | FCoeff, FCoeff | FNaxes, FNaxes | FStrides, FStrides | FAux, FAux => true
  | FKnot i, FKnot j | FAuxE i, FAuxE j | FAuxK i, FAuxK j | FAuxV i, FAuxV j | FTmp i, FTmp j => Nat.eqb i j
  | _, _ => false
  end.

Record auxent := { akey : nat;       (* identity of the key string *)
                   aklen : nat;      (* strlen(key)+1   *)
                   avlen : nat }.    (* strlen(value)+1 *)

Record obj := {
  ndim : nat;
  orders : list nat; nknots : list nat; naxes : list nat;       (* contents of order[], nknots[], naxes[] *)
  naux : nat; auxs : list auxent;
  slots : list (field * slot)                                   (* absent = Null *)
}.

Definition empty_obj : obj :=
  {| ndim := 0; orders := []; nknots := []; naxes := []; naux := 0; auxs := []; slots := [] |}.

Fixpoint get_slot (f : field) (l : list (field * slot)) : slot :=
  match l with
  | [] => Null
  | (g, s) :: t => if field_eqb g f then s else get_slot f t
  end.
Fixpoint del_slot (f : field) (l : list (field * slot)) : list (field * slot) :=
  match l with
  | [] => []
  | (g, s) :: t => if field_eqb g f then del_slot f t else (g, s) :: del_slot f t
  end.
Definition put_slot (f : field) (s : slot) (l : list (field * slot)) : list (field * slot) :=
  match s with Null => del_slot f l | _ => (f, s) :: del_slot f l end.

Definition get (o : obj) (f : field) : slot := get_slot f (slots o).
Definition set (o : obj) (f : field) (s : slot) : obj :=
  {| ndim := ndim o; orders := orders o; nknots := nknots o; naxes := naxes o; naux := naux o; auxs := auxs o;
     slots := put_slot f s (slots o) |}.
Definition with_ndim (o : obj) (n : nat) : obj :=
  {| ndim := n; orders := orders o; nknots := nknots o; naxes := naxes o; naux := naux o; auxs := auxs o; slots := slots o |}.
Definition with_shape (o : obj) (os ks ns : list nat) : obj :=
  {| ndim := ndim o; orders := os; nknots := ks; naxes := ns; naux := naux o; auxs := auxs o; slots := slots o |}.
Definition with_auxs (o : obj) (n : nat) (l : list auxent) : obj :=
  {| ndim := ndim o; orders := orders o; nknots := nknots o; naxes := naxes o; naux := n; auxs := l; slots := slots o |}.

Definition is_owned (s : slot) : bool := match s with Owned _ _ => true | _ => false end.
Definition is_null (s : slot) : bool := match s with Null => true | _ => false end.

Definition prod_list (l : list nat) : nat := fold_right Nat.mul 1 l.
Definition aux_at (o : obj) (i : nat) : auxent := nth i (auxs o) {| akey := 0; aklen := 0; avlen := 0 |}.

(* the byte count the CODE computes for field f from the object's own contents, both when it allocates
   the array and when it releases it (splinetable.h:321-341 destructor; fitsio.h:204-345; fit.h:80-103;
   convolve.h:122-148; aux.h:146-181).  sizeof: uint32_t 4, uint64_t/double/pointer 8, float 4, char 1. *)
Definition claim (o : obj) (f : field) : nat :=
  match f with
  | FOrder => 4 * ndim o
  | FKnots | FNknots | FExtents | FPeriods | FNaxes | FStrides => 8 * ndim o
  | FExtents0 => 16 * ndim o
  | FCoeff => 4 * prod_list (naxes o)                         (* strides[0]*naxes[0] floats *)
  | FKnot i => 8 * (nth i (nknots o) 0 + 2 * nth i (orders o) 0)
  | FAux => 8 * naux o
  | FAuxE _ => 16
  | FAuxK i => aklen (aux_at o i)
  | FAuxV i => avlen (aux_at o i)
  | FTmp _ => 0
  end.

(* ---------------------------------------------------------------------------------------------- *)
(** * Allocator state and primitives *)

Inductive err := ErrBadFree (claimed : nat) | ErrSize (allocated claimed : nat).

Record mem := {
  hp : heap;                 (* live blocks *)
  next : nat;                (* next block id *)
  nalloc : nat;              (* number of allocate() calls so far (the fault oracle's clock) *)
  errs : list err;           (* allocator-contract violations so far, newest first *)
  nullfrees : nat;
  lost : heap;               (* blocks no pointer refers to any more (abandoned: leaks), newest first *)
  trace : list ev            (* newest first *)
}.
Definition mem0 : mem := {| hp := []; next := 0; nalloc := 0; errs := []; nullfrees := 0; lost := []; trace := [] |}.

Definition m_alloc (F : nat -> bool) (m : mem) (b : nat) : option nat * mem :=
  let n := S (nalloc m) in
  if F n then (None, {| hp := hp m; next := next m; nalloc := n; errs := errs m; nullfrees := nullfrees m; lost := lost m; trace := trace m |})
  else (Some (next m), {| hp := (next m, b) :: hp m; next := S (next m); nalloc := n; errs := errs m; nullfrees := nullfrees m;
                          lost := lost m; trace := Alloc (next m) b :: trace m |}).

Definition m_free (m : mem) (s : slot) (claimed : nat) : mem :=
  match s with
  | Owned id b =>
      {| hp := remove_id id (hp m); next := next m; nalloc := nalloc m;
         errs := if Nat.eqb b claimed then errs m else ErrSize b claimed :: errs m;
         nullfrees := nullfrees m; lost := lost m; trace := Free id claimed :: trace m |}
  | Null =>
      {| hp := hp m; next := next m; nalloc := nalloc m; errs := errs m; nullfrees := S (nullfrees m); lost := lost m;
         trace := FreeNull :: trace m |}
  | Unset | Dangling =>
      {| hp := hp m; next := next m; nalloc := nalloc m; errs := ErrBadFree claimed :: errs m; nullfrees := nullfrees m;
         lost := lost m; trace := BadFree claimed :: trace m |}
  end.

Definition m_lose (m : mem) (s : slot) : mem :=
  match s with
  | Owned id b => {| hp := hp m; next := next m; nalloc := nalloc m; errs := errs m; nullfrees := nullfrees m;
                     lost := (id, b) :: lost m; trace := trace m |}
  | _ => m
  end.

(* ---------------------------------------------------------------------------------------------- *)
(** * Micro-actions: every member function's effect on storage is a list of these, executed in program order;
      an allocation failure (oracle F) or a throw stops the execution at that point, which is how EVERY
      fault position is covered. *)

Inductive reason := RRefused | ROpen | RInput | RAlloc | RInvalid | REmpty.

Inductive action :=
| AAlloc (f : field)                  (* f = allocate<T>(n) with n*sizeof(T) = claim o f; an Owned previous value is abandoned *)
| AAllocB (f : field) (b : nat)       (* same with an explicit byte count *)
| AFree (f : field)                   (* deallocate(f, claim); the pointer keeps its value: Owned -> Dangling *)
| AFreeB (f : field) (b : nat)
| AFreeIf (f : field)                 (* if(f){ deallocate(f, claim); } f = nullptr; *)
| AMove (src dst : field)             (* dst = src; src = nullptr  (dst's previous value is overwritten) *)
| ASet (f : field) (s : slot)         (* plain pointer store: s is Null or Unset *)
| AThrow (r : reason) (c : bool)      (* if(c) throw  — c is an I/O oracle already resolved *)
| ANdim (n : nat)
| AShape (os ks ns : list nat)
| AAuxs (n : nat) (l : list auxent)
| AReset.                             (* the arrays that held the inner pointers (knots[i], aux[i], aux[i][k]) are gone and every member
                                         pointer has been set to NULL: no slot is left; an inner block still owned would be unreachable (lost) *)

Definition after_free (s : slot) : slot := match s with Owned _ _ => Dangling | x => x end.

Fixpoint exec (F : nat -> bool) (p : list action) (m : mem) (o : obj) : obj * mem * option reason :=
  match p with
  | [] => (o, m, None)
  | a :: rest =>
    match a with
    | AAlloc f =>
        match m_alloc F m (claim o f) with
        | (None, m') => (o, m', Some RAlloc)
        | (Some id, m') => exec F rest (m_lose m' (get o f)) (set o f (Owned id (claim o f)))
        end
    | AAllocB f b =>
        match m_alloc F m b with
        | (None, m') => (o, m', Some RAlloc)
        | (Some id, m') => exec F rest (m_lose m' (get o f)) (set o f (Owned id b))
        end
    | AFree f => exec F rest (m_free m (get o f) (claim o f)) (set o f (after_free (get o f)))
    | AFreeB f b => exec F rest (m_free m (get o f) b) (set o f (after_free (get o f)))
    | AFreeIf f => exec F rest (if is_null (get o f) then m else m_free m (get o f) (claim o f)) (set o f Null)
    | AMove src dst => exec F rest (m_lose m (get o dst)) (set (set o dst (get o src)) src Null)
    | ASet f s => exec F rest (m_lose m (get o f)) (set o f s)
    | AThrow r c => if c then (o, m, Some r) else exec F rest m o
    | ANdim n => exec F rest m (with_ndim o n)
    | AShape os ks ns => exec F rest m (with_shape o os ks ns)
    | AAuxs n l => exec F rest m (with_auxs o n l)
    | AReset => exec F rest (fold_left (fun m fs => m_lose m (snd fs)) (slots o) m)
                     {| ndim := ndim o; orders := orders o; nknots := nknots o; naxes := naxes o; naux := naux o; auxs := auxs o; slots := [] |}
    end
  end.

(* ---------------------------------------------------------------------------------------------- *)
(** * Which proposed fixes the tree contains *)

Record cfg := {
  fx_aux : bool;      (* C20_1: release_aux(): aux keys released by the destructor whatever ndim is, and by read_fits before it reads new ones *)
  fx_clear : bool;    (* C20_2: clear(); destructor = clear(); read_fits_core null-fills knots[]/extents[0] and clears on any throw *)
  fx_conv : bool;     (* C20_3: convolve validates dim / n_knots, nulls released pointers, clears on allocation failure *)
  fx_fit : bool;      (* C20_4: fit refuses a populated table and clears on any throw after the first allocation *)
  fx_eq : bool;       (* C20_5: operator== on two empty tables returns true instead of reading coefficients[0] *)
  fx_perm : bool;     (* C20_6: permuteDimensions on an empty table returns instead of writing t_extents[0] of a 0-length array *)
  fx_moveasg : bool;  (* C20_7: move assignment releases the target's storage and leaves the source empty (was: swap) *)
  fx_auxsize : bool;  (* C20_8: read_fits allocates exactly strlen+1 bytes for the stored (unquoted) aux value *)
  fx_rmkey : bool     (* C20_10: remove_key obtains the replacement pointer table BEFORE it releases anything (was: release the entry
                         and the old table, then allocate the new one; a failure of that allocation left `aux` dangling) *)
}.
Definition cfg_orig : cfg := {| fx_aux := false; fx_clear := false; fx_conv := false; fx_fit := false; fx_eq := false;
                                fx_perm := false; fx_moveasg := false; fx_auxsize := false; fx_rmkey := false |}.
Definition cfg_fixed : cfg := {| fx_aux := true; fx_clear := true; fx_conv := true; fx_fit := true; fx_eq := true;
                                 fx_perm := true; fx_moveasg := true; fx_auxsize := true; fx_rmkey := true |}.
(* every fix but C20_10: the tree as it was when remove_key entered the model *)
Definition cfg_no_rmkey : cfg := {| fx_aux := true; fx_clear := true; fx_conv := true; fx_fit := true; fx_eq := true;
                                    fx_perm := true; fx_moveasg := true; fx_auxsize := true; fx_rmkey := false |}.

(* ---------------------------------------------------------------------------------------------- *)
(** * Programs of the member functions *)

Definition idx (n : nat) : list nat := seq 0 n.

(* release of the aux table.
   original destructor, splinetable.h:336-341 (only reached when ndim != 0):
       for i<naux { deallocate(aux[i][0],strlen+1); deallocate(aux[i][1],strlen+1); deallocate(aux[i],2); } deallocate(aux,naux);
   C20_1 release_aux(): the same with null checks, then aux=NULL, naux=0. *)
Definition aux_release_orig (o : obj) : list action :=
  flat_map (fun i => [AFree (FAuxK i); AFree (FAuxV i); AFree (FAuxE i)]) (idx (naux o)) ++ [AFree FAux].
Definition aux_release_fixed (o : obj) : list action :=
  flat_map (fun i => [AFreeIf (FAuxK i); AFreeIf (FAuxV i); AFreeIf (FAuxE i)]) (idx (naux o)) ++ [AFreeIf FAux; AAuxs 0 []].

(* original destructor body for ndim != 0, splinetable.h:321-335 *)
Definition table_release_orig (o : obj) : list action :=
  map (fun i => AFree (FKnot i)) (idx (ndim o)) ++ [AFree FKnots; AFree FNknots; AFree FOrder]
  ++ (if is_null (get o FExtents) then [] else [AFree FExtents0; AFree FExtents])
  ++ (if is_null (get o FPeriods) then [] else [AFree FPeriods])
  ++ [AFree FCoeff; AFree FNaxes; AFree FStrides].
(* C20_2 clear(): same order, every pointer null-checked and reset, ndim = 0 *)
Definition table_release_fixed (o : obj) : list action :=
  (if is_null (get o FKnots) then [] else map (fun i => AFreeIf (FKnot i)) (idx (ndim o)) ++ [AFreeIf FKnots])
  ++ [AFreeIf FNknots; AFreeIf FOrder]
  ++ (if is_null (get o FExtents) then [] else [AFreeIf FExtents0; AFreeIf FExtents])
  ++ [AFreeIf FPeriods; AFreeIf FCoeff; AFreeIf FNaxes; AFreeIf FStrides].

Definition clear_prog (o : obj) : list action :=
  table_release_fixed o ++ aux_release_fixed o ++ [ANdim 0; AShape [] [] []; AReset].

Definition destructor_prog (c : cfg) (o : obj) : list action :=
  if fx_clear c then clear_prog o
  else (if Nat.eqb (ndim o) 0 then [] else table_release_orig o)
       ++ (if fx_aux c then aux_release_fixed o else if Nat.eqb (ndim o) 0 then [] else aux_release_orig o).

(* what a catch block does when a member function fails half-way *)
Definition on_failure (fixed : bool) (F : nat -> bool) (r : obj * mem * option reason) : obj * mem * option reason :=
  match r with
  | (o, m, Some why) => if fixed then match exec F (clear_prog o) m o with (o', m', _) => (o', m', Some why) end else r
  | _ => r
  end.

(* ---- read_fits / read_fits_mem (fitsio.h:105-385) ---- *)
Inductive phase := PNone | PHdu | PDim | POrder | PImgSize | PCoeff | PKnotSize (i : nat) | PKnotData (i : nat) | PExtents.
Definition phase_eqb (a b : phase) : bool :=
  match a, b with
  | PNone, PNone | PHdu, PHdu | PDim, PDim | POrder, POrder | PImgSize, PImgSize | PCoeff, PCoeff | PExtents, PExtents => true
  | PKnotSize i, PKnotSize j | PKnotData i, PKnotData j => Nat.eqb i j
  | _, _ => false
  end.

Record file := {
  f_open_fails : bool;                 (* fits_open_diskfile / fits_open_memfile fails (missing file, not FITS) *)
  f_fail : phase;                      (* the first cfitsio call that reports an error (I/O oracle); PNone = the file reads completely *)
  f_ndim : nat; f_orders : list nat; f_nknots : list nat; f_naxes : list nat;
  f_aux : list (auxent * nat)          (* stored entry, and the bytes requested for the value: strlen of the QUOTED card value + 1 *)
}.

Definition read_aux_prog (c : cfg) (f : file) : list action :=
  [AAuxs (length (f_aux f)) (map fst (f_aux f)); AAlloc FAux]                                         (* fitsio.h:204-205 (entries null-filled) *)
  ++ flat_map (fun ie => let i := fst ie in
                 [AAlloc (FAuxE i); AAlloc (FAuxK i);                                                 (* :217-220 *)
                  if fx_auxsize c then AAlloc (FAuxV i) else AAllocB (FAuxV i) (snd (snd ie))])
              (combine (idx (length (f_aux f))) (f_aux f)).

Definition read_core_prog (c : cfg) (o : obj) (f : file) : list action :=
  [AThrow RInput (phase_eqb (f_fail f) PHdu || phase_eqb (f_fail f) PDim);                            (* :162-180 nothing touched yet *)
   ANdim (f_ndim f);                                                                                    (* :181  ndim = temp_dim *)
   AShape (f_orders f) (f_nknots f) (f_naxes f)]   (* contents are written later, but always before the array they size is allocated *)
  ++ (if fx_aux c then aux_release_fixed o else [])
  ++ read_aux_prog c f
  ++ [AAlloc FOrder; AThrow RInput (phase_eqb (f_fail f) POrder);                                      (* :249-262 *)
      AAlloc FPeriods; AAlloc FKnots]                                                                   (* :272, :288 *)
  ++ map (fun i => ASet (FKnot i) (if fx_clear c then Null else Unset)) (idx (f_ndim f))              (* knots[i] uninitialised *)
  ++ [AAlloc FNknots; AAlloc FExtents; ASet FExtents0 (if fx_clear c then Null else Unset); AAlloc FExtents0;   (* :289-291 *)
      AThrow RInput (phase_eqb (f_fail f) PImgSize);                                                   (* :295-301 *)
      AAlloc FNaxes; AAlloc FStrides; AAlloc FCoeff;                                                   (* :302-318 *)
      AThrow RInput (phase_eqb (f_fail f) PCoeff)]                                                     (* :324 *)
  ++ flat_map (fun i => [AThrow RInput (phase_eqb (f_fail f) (PKnotSize i)); AAlloc (FKnot i);         (* :337-345 *)
                         AThrow RInput (phase_eqb (f_fail f) (PKnotData i))]) (idx (f_ndim f))         (* :350 *)
  ++ [AThrow RInput (phase_eqb (f_fail f) PExtents)].                                                  (* :376 *)

(* ---- fit (fit.h:78-152); 1-d problems only in the harness, the model is general ---- *)
Record fitspec := {
  ft_invalid : bool;        (* one of the sanity checks of fit.h:25-76 throws (nothing touched) *)
  ft_fails : bool;          (* glamfit_complex returns non-zero (fit.h:150) *)
  ft_orders : list nat; ft_nknots : list nat
}.
Definition ft_naxes (s : fitspec) : list nat := map (fun kn => fst kn - snd kn - 1) (combine (ft_nknots s) (ft_orders s)).
Definition fit_prog (c : cfg) (s : fitspec) : list action :=
  let n := length (ft_orders s) in
  [ANdim n; AShape (ft_orders s) (ft_nknots s) (ft_naxes s); AAlloc FOrder; AAlloc FKnots]             (* fit.h:79-82 *)
  ++ map (fun i => ASet (FKnot i) (if fx_fit c then Null else Unset)) (idx n)
  ++ [AAlloc FNknots; AAlloc FExtents; ASet FExtents0 (if fx_fit c then Null else Unset); AAlloc FExtents0;
      AAlloc FNaxes; AAlloc FStrides; AAlloc FCoeff]                                                    (* :83-96 *)
  ++ map (fun i => AAlloc (FKnot i)) (idx n)                                                            (* :102 *)
  ++ [AThrow RInput (ft_fails s)].                                                                      (* :150 *)

(* ---- convolve (convolve.h:15-158) ---- *)
Definition upd (l : list nat) (i v : nat) : list nat :=
  map (fun jx => if Nat.eqb (fst jx) i then v else snd jx) (combine (idx (length l)) l).
Definition convolve_prog (c : cfg) (o : obj) (dim nk : nat) : list action :=
  let n_rho := nth dim (nknots o) 0 * nk in
  let convorder := nth dim (orders o) 0 + nk - 1 in
  let fr := if fx_conv c then AFreeIf else AFree in
  [fr FCoeff]                                                                                          (* :122 *)
  ++ map (fun i => fr (FKnot i)) (idx (ndim o))                                                        (* :131 *)
  ++ [AShape (upd (orders o) dim convorder) (upd (nknots o) dim n_rho) (upd (naxes o) dim (n_rho - convorder - 1));   (* :134-137 *)
      AAlloc FCoeff]                                                                                    (* :139 *)
  ++ map (fun i => AAlloc (FKnot i)) (idx (ndim o)).                                                   (* :143 *)

(* ---- write_key (aux.h:85-186) ---- *)
Fixpoint find_key (k : nat) (l : list auxent) (i : nat) : option nat :=
  match l with
  | [] => None
  | e :: t => if Nat.eqb (akey e) k then Some i else find_key k t (S i)
  end.
Fixpoint set_nth {A} (l : list A) (i : nat) (v : A) : list A :=
  match l, i with
  | [], _ => []
  | _ :: t, O => v :: t
  | h :: t, S j => h :: set_nth t j v
  end.
(* the try-block of aux.h:161-172 on failure releases all four locals (null ones included) and rethrows *)
Definition write_key_new_prog (o : obj) (e : auxent) : list action :=
  let n := naux o in
  [AAllocB (FTmp 0) (8 * S n); AAllocB (FTmp 1) 16; AAllocB (FTmp 2) (aklen e); AAllocB (FTmp 3) (avlen e)].
Definition write_key_new_cleanup (o : obj) (e : auxent) : list action :=
  let n := naux o in
  [AFreeB (FTmp 0) (8 * S n); AFreeB (FTmp 1) 16; AFreeB (FTmp 2) (aklen e); AFreeB (FTmp 3) (avlen e);
   ASet (FTmp 0) Null; ASet (FTmp 1) Null; ASet (FTmp 2) Null; ASet (FTmp 3) Null].
Definition write_key_new_commit (o : obj) (e : auxent) : list action :=
  let n := naux o in
  [AFree FAux;                                          (* aux.h:181 deallocate(aux,naux) — aux may be NULL *)
   ASet FAux Null;                                      (*   (the stale pointer is overwritten next) *)
   AMove (FTmp 0) FAux; AMove (FTmp 1) (FAuxE n); AMove (FTmp 2) (FAuxK n); AMove (FTmp 3) (FAuxV n);
   AAuxs (S n) (auxs o ++ [e])].
Definition write_key_upd_prog (o : obj) (i : nat) (e : auxent) : list action :=
  [AAllocB (FTmp 0) (avlen e);                          (* aux.h:147 *)
   AFree (FAuxV i); ASet (FAuxV i) Null;                (* :150 deallocate(aux[i][1],strlen+1) *)
   AMove (FTmp 0) (FAuxV i);                            (* :151 *)
   AAuxs (naux o) (set_nth (auxs o) i e)].

(* ---- remove_key (aux.h:21-60) ----
   bool remove_key(const char* key):
     :24-29  linear search with strcmp over aux[i][0]; not found -> return false, nothing touched (MISS)
   HIT at index i, n = naux.  UNCHANGED tree:
     :35     tmp_aux = new char_ptr_ptr[naux-1]       operator new[] (NOT the Alloc parameter); bad_alloc -> catch(:55): delete[] nullptr
                                                       (no deallocation call), rethrow: nothing touched
     :36-39  tmp_aux[k++] = aux[j] for j != i         pointer copies, no ownership change
     :41-43  deallocate(aux[i][0],strlen+1); deallocate(aux[i][1],strlen+1); deallocate(aux[i],2)
     :45     deallocate(aux,naux)
     :47     naux--
     :51     aux = allocate<char_ptr_ptr>(naux)       bad_alloc -> catch(:55): delete[] tmp_aux; rethrow.  `aux` keeps the address of the
                                                       RELEASED table (dangling), naux is already decremented, and the only copies of the
                                                       surviving entries' pointers went away with tmp_aux: they are unreachable (lost)
     :53     copy_n(tmp_aux,naux,aux)                 entries above i move down one place
     :54     delete[] tmp_aux                         return true
   C20_10 (fx_rmkey): the replacement table is obtained first, through the allocator, and filled with the survivors; then the entry and
   the old table are released and `aux = new_aux; naux--`.  Its allocation failure propagates before anything is touched.
   In the model the slot FAuxE j (FAuxK j, FAuxV j) names entry j of the table the object currently has; the copy loops take effect for
   the object when the new table is installed: `aux_drop` (a pure re-indexing, no allocator traffic). *)
Fixpoint remove_nth {A} (i : nat) (l : list A) : list A :=
  match l, i with
  | [], _ => []
  | _ :: t, O => t
  | h :: t, S j => h :: remove_nth j t
  end.
Definition is_entry (i : nat) (f : field) : bool :=
  match f with FAuxE j | FAuxK j | FAuxV j => Nat.eqb j i | _ => false end.
Definition drop_idx (i j : nat) : nat := if Nat.ltb j i then j else pred j.       (* new index of old entry j (j <> i) *)
Definition drop_dst (i : nat) (f : field) : field :=
  match f with FAuxE j => FAuxE (drop_idx i j) | FAuxK j => FAuxK (drop_idx i j) | FAuxV j => FAuxV (drop_idx i j) | g => g end.
(* entry i is gone (its three slots are dropped: the caller has released and nulled them, anything still owned there is lost first),
   the entries above it move down one place, naux-- *)
Definition aux_drop (o : obj) (i : nat) : obj :=
  {| ndim := ndim o; orders := orders o; nknots := nknots o; naxes := naxes o;
     naux := naux o - 1; auxs := remove_nth i (auxs o);
     slots := map (fun fs => (drop_dst i (fst fs), snd fs)) (filter (fun fs => negb (is_entry i (fst fs))) (slots o)) |}.
Definition lose_entry (m : mem) (o : obj) (i : nat) : mem :=
  m_lose (m_lose (m_lose m (get o (FAuxE i))) (get o (FAuxK i))) (get o (FAuxV i)).

Definition remove_key_release (i : nat) : list action :=
  [AFree (FAuxK i); AFree (FAuxV i); AFree (FAuxE i);          (* deallocate(aux[i][0],..); deallocate(aux[i][1],..); deallocate(aux[i],2) *)
   AFree FAux].                                                (* deallocate(aux,naux) *)
Definition remove_key_forget (i : nat) : list action :=        (* the released entry's pointers are not carried over *)
  [ASet (FAuxK i) Null; ASet (FAuxV i) Null; ASet (FAuxE i) Null].
(* C20_10, after new_aux = allocate<char_ptr_ptr>(naux-1) succeeded (new_aux is FTmp 0) *)
Definition remove_key_fixed_tail (i : nat) : list action :=
  remove_key_release i ++ remove_key_forget i ++ [ASet FAux Null; AMove (FTmp 0) FAux].      (* aux = new_aux *)
(* unchanged tree, after tmp_aux = new char_ptr_ptr[naux-1] succeeded (tmp_aux is FTmp 0): up to aux = allocate(naux) *)
Definition remove_key_orig_mid (o : obj) (i : nat) : list action :=
  remove_key_release i ++ [AAuxs (naux o - 1) (firstn (naux o - 1) (auxs o));   (* :47 naux--: the table is gone, its contents with it; the
                                                                                    model keeps length (auxs) = naux *)
                           AAlloc FAux].                                         (* :51 *)
Definition remove_key_orig_catch (o : obj) : list action :=    (* :55-58 *)
  [AFreeB (FTmp 0) (8 * (naux o - 1)); ASet (FTmp 0) Null].

(* ---------------------------------------------------------------------------------------------- *)
(** * Validity of a built table (what member functions rely on without checking) *)

Definition owned_all (o : obj) (fs : list field) : bool := forallb (fun f => is_owned (get o f)) fs.
Definition core_fields (o : obj) : list field :=
  [FOrder; FKnots; FNknots; FCoeff; FNaxes; FStrides] ++ map FKnot (idx (ndim o)).
Definition opt_pair_ok (o : obj) : bool :=
  (is_null (get o FExtents) && is_null (get o FExtents0) || is_owned (get o FExtents) && is_owned (get o FExtents0))
  && (is_null (get o FPeriods) || is_owned (get o FPeriods)).
Definition tbl_ok (o : obj) : bool := owned_all o (core_fields o) && opt_pair_ok o.
Definition aux_fields (o : obj) : list field := flat_map (fun i => [FAuxE i; FAuxK i; FAuxV i]) (idx (naux o)).
Definition aux_ok (o : obj) : bool :=
  (if Nat.eqb (naux o) 0 then is_null (get o FAux) || is_owned (get o FAux) else is_owned (get o FAux))
  && owned_all o (aux_fields o) && Nat.eqb (length (auxs o)) (naux o).
Definition has_extents (o : obj) : bool := is_owned (get o FExtents) && is_owned (get o FExtents0).

(* ---------------------------------------------------------------------------------------------- *)
(** * Operations *)

Inductive op :=
| ONew (j : nat)                                  (* splinetable()  *)
| ONewRead (j : nat) (f : file)                   (* splinetable(path): a throw leaves NO object (its destructor does not run) *)
| ORead (j : nat) (f : file)                      (* read_fits / read_fits_mem *)
| OFit (j : nat) (s : fitspec)
| OWriteKey (j : nat) (invalid : bool) (e : auxent)
| OConvolve (j : nat) (dim nk : nat)
| OPermute (j : nat) (p : list nat)
| OMoveCtor (j i : nat)                           (* new object j from std::move(object i) *)
| OMoveAssign (j i : nat)                         (* object j = std::move(object i) *)
| OEq (i j : nat)
| OWrite (j : nat) (fails : bool)                 (* write_fits / write_fits_mem; fails = cfitsio reports an error *)
| OEval (j : nat)                                 (* searchcenters + ndsplineeval + operator() at the centre of the extents *)
| ODestroy (j : nat)
| ORemoveKey (j : nat) (k : nat).                 (* remove_key(key), k = identity of the key string; Ok whether or not the key is present *)

Inductive outcome := Ok | Failed (r : reason) | UB | Skipped.

Record world := { objs : list (option obj); wm : mem; crashed : bool }.
Definition world0 : world := {| objs := [None; None; None; None]; wm := mem0; crashed := false |}.

Definition get_obj (w : world) (j : nat) : option obj := nth j (objs w) None.
Definition set_obj (w : world) (j : nat) (o : option obj) (m : mem) : world :=
  {| objs := set_nth (objs w) j o; wm := m; crashed := crashed w |}.

Definition is_perm (n : nat) (p : list nat) : bool :=
  Nat.eqb (length p) n && forallb (fun i => existsb (Nat.eqb i) p) (idx n).     (* permute.h:11-26 *)
Definition permute_list {A} (d : A) (l : list A) (p : list nat) : list A := map (fun j => nth j l d) p.

(* all Owned slots of an object that dies without releasing them become lost *)
Definition lose_all (m : mem) (o : obj) : mem := fold_left (fun m fs => m_lose m (snd fs)) (slots o) m.

(* members that read the table without checking anything are memory-safe exactly on these states *)
Definition built (o : obj) : bool := negb (Nat.eqb (ndim o) 0) && tbl_ok o && aux_ok o.

(* result of an object-level step: new object state (None = the object no longer exists), outcome, memory *)
Definition res := (option obj * outcome * mem)%type.

Definition finish (o : obj) (r : obj * mem * option reason) : res :=
  match r with
  | (o', m', None) => (Some o', Ok, m')
  | (o', m', Some why) => (Some o', Failed why, m')
  end.

Definition step_read (c : cfg) (F : nat -> bool) (m : mem) (o : obj) (f : file) : obj * mem * option reason :=
  if negb (Nat.eqb (ndim o) 0) then (o, m, Some RRefused)                     (* fitsio.h:107, :131 *)
  else if f_open_fails f then (o, m, Some ROpen)                               (* :113-115, :137-141 *)
  else on_failure (fx_clear c) F (exec F (read_core_prog c o f) m o).

Definition step_fit (c : cfg) (F : nat -> bool) (m : mem) (o : obj) (s : fitspec) : obj * mem * option reason :=
  if ft_invalid s then (o, m, Some RInvalid)
  else if fx_fit c && negb (Nat.eqb (ndim o) 0) then (o, m, Some RRefused)
  else on_failure (fx_fit c) F (exec F (fit_prog c s) m o).

Definition step_write_key (F : nat -> bool) (m : mem) (o : obj) (invalid : bool) (e : auxent) : obj * mem * option reason :=
  if invalid then (o, m, Some RInvalid)                                         (* aux.h:87-136: thrown before anything is touched *)
  else match find_key (akey e) (auxs o) 0 with
       | Some i =>
           match exec F [AAllocB (FTmp 0) (avlen e)] m o with
           | (o1, m1, Some why) => (o, m1, Some why)                            (* aux.h:152 rethrown as runtime_error; nothing changed *)
           | (o1, m1, None) => exec F (tl (write_key_upd_prog o i e)) m1 o1
           end
       | None =>
           match exec F (write_key_new_prog o e) m o with
           | (o1, m1, Some why) => match exec F (write_key_new_cleanup o e) m1 o1 with (o2, m2, _) => (o2, m2, Some why) end
           | (o1, m1, None) => exec F (write_key_new_commit o e) m1 o1
           end
       end.

Definition step_remove_key (c : cfg) (F : nat -> bool) (m : mem) (o : obj) (k : nat) : obj * mem * option reason :=
  match find_key k (auxs o) 0 with
  | None => (o, m, None)                                                         (* aux.h:28 return false *)
  | Some i =>
      match exec F [AAllocB (FTmp 0) (8 * (naux o - 1))] m o with               (* :35 tmp_aux (operator new[]) / C20_10: new_aux (allocator) *)
      | (_, m1, Some why) => (o, m1, Some why)                                   (* nothing touched *)
      | (o1, m1, None) =>
          if fx_rmkey c then
            match exec F (remove_key_fixed_tail i) m1 o1 with
            | (o2, m2, r) => (aux_drop o2 i, lose_entry m2 o2 i, r)
            end
          else
            match exec F (remove_key_orig_mid o i) m1 o1 with
            | (o2, m2, Some why) =>                                              (* :51 threw *)
                match exec F (remove_key_orig_catch o) m2 o2 with (o3, m3, _) => (o3, m3, Some why) end
            | (o2, m2, None) =>
                match exec F (remove_key_forget i) m2 o2 with
                | (o3, m3, _) =>
                    let o4 := aux_drop (with_auxs o3 (naux o) (auxs o)) i in    (* :53 copy back *)
                    exec F (remove_key_orig_catch o) (lose_entry m3 o3 i) o4    (* :54 delete[] tmp_aux *)
                end
            end
      end
  end.

Definition step_convolve (c : cfg) (F : nat -> bool) (m : mem) (o : obj) (dim nk : nat) : obj * mem * option reason :=
  if fx_conv c && (negb (Nat.ltb dim (ndim o)) || Nat.ltb nk 2) then (o, m, Some RInvalid)
  else on_failure (fx_conv c) F (exec F (convolve_prog c o dim nk) m o).

Definition step_permute (o : obj) (p : list nat) : obj :=
  (* permute.h:44-83: per-axis arrays and the knots[] pointers are permuted in place; no allocator traffic *)
  let o1 := with_shape o (permute_list 0 (orders o) p) (permute_list 0 (nknots o) p) (permute_list 0 (naxes o) p) in
  {| ndim := ndim o1; orders := orders o1; nknots := nknots o1; naxes := naxes o1; naux := naux o1; auxs := auxs o1;
     slots := fold_right (fun ij l => put_slot (FKnot (fst ij)) (get o (FKnot (snd ij))) l) (slots o) (combine (idx (length p)) p) |}.

(* safe_to_call: no Unset/Dangling/Null array is DEREFERENCED by the member's code in this state.
   (Arrays that are only RELEASED go through m_free, which reports BadFree instead of crashing.) *)
Definition aux_deref_ok (o : obj) : bool :=
  Nat.eqb (naux o) 0 || is_owned (get o FAux) && owned_all o (aux_fields o).
(* ~splinetable (original): strides[0]*naxes[0], knots[i]-order[i], nknots[i], extents[0], aux[i][0..1] and strlen *)
Definition destroy_safe_orig (o : obj) : bool :=
  owned_all o [FStrides; FNaxes; FKnots; FOrder; FNknots]
  && (is_null (get o FExtents) || is_owned (get o FExtents)) && aux_deref_ok o.
(* C20_2 clear(): null-checks everything, but still reads through non-null pointers: strides[0]*naxes[0] when
   coefficients is set, order[i]/nknots[i] when knots[i] is set, aux[i][0..1] and strlen when aux[i] is set *)
Definition no_garbage (o : obj) : bool :=
  forallb (fun fs => match snd fs with Unset | Dangling => false | _ => true end) (slots o).
Definition clear_safe (o : obj) : bool :=
  no_garbage o
  && (is_null (get o FCoeff) || is_owned (get o FStrides) && is_owned (get o FNaxes))
  && (forallb (fun i => is_null (get o (FKnot i))) (idx (ndim o)) || is_owned (get o FOrder) && is_owned (get o FNknots)).
Definition destructor_safe (c : cfg) (o : obj) : bool :=
  if fx_clear c then clear_safe o
  else if Nat.eqb (ndim o) 0 then negb (fx_aux c) || aux_deref_ok o
  else destroy_safe_orig o.

Definition safe (c : cfg) (o : obj) (oother : option obj) (x : op) : bool :=
  match x with
  | ONew _ | ONewRead _ _ | OMoveCtor _ _ | OFit _ _ => true
  | OMoveAssign _ _ => if fx_moveasg c then destructor_safe c o else true   (* C20_7 runs the destructor on the old value *)
  | ORead _ _ => true                                                       (* refuses, or starts from NULL pointers *)
  | OWriteKey _ invalid _ => invalid || aux_ok o                            (* strcmp over aux[i][0] *)
  | ORemoveKey _ _ => aux_deref_ok o                                        (* strcmp over aux[i][0] for i < naux, strlen of aux[i][0..1] *)
  | OConvolve _ dim nk =>
      if fx_conv c && (negb (Nat.ltb dim (ndim o)) || Nat.ltb nk 2) then true
      else built o && Nat.ltb dim (ndim o) && Nat.leb 1 nk && has_extents o
  | OPermute _ p =>
      if negb (is_perm (ndim o) p) then true                                (* throws before touching anything *)
      else if Nat.eqb (ndim o) 0 then fx_perm c                             (* t_extents[0] of a zero-length array *)
      else built o && has_extents o
  | OEq _ _ =>
      match oother with
      | Some o2 =>
          if negb (Nat.eqb (ndim o) (ndim o2)) then true
          else if Nat.eqb (ndim o) 0 then fx_eq c                           (* coefficients[0] through a null pointer *)
          else built o && built o2
      | None => true
      end
  | OWrite _ _ => Nat.eqb (ndim o) 0 || built o
  | OEval _ => Nat.eqb (ndim o) 0 || built o && has_extents o   (* on an empty table the operation is not performed, see step *)
  | ODestroy _ => destructor_safe c o
  end.

Definition crash (w : world) : world := {| objs := objs w; wm := wm w; crashed := true |}.

(* run the destructor's code on o; whatever it does not release is lost *)
Definition destroy (c : cfg) (F : nat -> bool) (m : mem) (o : obj) : mem :=
  match exec F (destructor_prog c o) m o with (o', m', _) => lose_all m' o' end.

Definition target (x : op) : nat :=
  match x with
  | ONew j | ONewRead j _ | ORead j _ | OFit j _ | OWriteKey j _ _ | OConvolve j _ _ | OPermute j _ | OMoveCtor j _
  | OMoveAssign j _ | OEq j _ | OWrite j _ | OEval j | ODestroy j | ORemoveKey j _ => j
  end.

Definition step (c : cfg) (F : nat -> bool) (w : world) (x : op) : world * outcome :=
  if crashed w then (w, Skipped) else
  let m := wm w in
  match x with
  | ONew j => match get_obj w j with None => (set_obj w j (Some empty_obj) m, Ok) | Some _ => (w, Skipped) end
  | ONewRead j f =>
      match get_obj w j with
      | Some _ => (w, Skipped)
      | None => match step_read c F m empty_obj f with
                | (o', m', None) => (set_obj w j (Some o') m', Ok)
                | (o', m', Some why) => (set_obj w j None (lose_all m' o'), Failed why)
                end
      end
  | OMoveCtor j i =>
      match get_obj w j, get_obj w i with
      | None, Some oi => if Nat.eqb i j then (w, Skipped)
                         else (set_obj (set_obj w j (Some oi) m) i (Some empty_obj) m, Ok)          (* splinetable.h:297-317 *)
      | _, _ => (w, Skipped)
      end
  | OMoveAssign j i =>
      match get_obj w j, get_obj w i with
      | Some oj, Some oi =>
          if Nat.eqb i j then (w, Ok)                                                                (* :346 *)
          else if negb (safe c oj (Some oi) x) then (crash w, UB)
          else if fx_moveasg c then (set_obj (set_obj w j (Some oi) m) i (Some empty_obj) (destroy c F m oj), Ok)
          else (set_obj (set_obj w j (Some oi) m) i (Some oj) m, Ok)                                (* :348-360 swap *)
      | _, _ => (w, Skipped)
      end
  | OEq i j =>
      match get_obj w i, get_obj w j with
      | Some oi, Some oj => if negb (safe c oi (Some oj) x) then (crash w, UB) else (w, Ok)
      | _, _ => (w, Skipped)
      end
  | _ =>
      let j := target x in
      match get_obj w j with
      | None => (w, Skipped)
      | Some o =>
          if negb (safe c o None x) then (crash w, UB) else
          match x with
          | ORead _ f => match finish o (step_read c F m o f) with (o', out, m') => (set_obj w j o' m', out) end
          | OFit _ s => match finish o (step_fit c F m o s) with (o', out, m') => (set_obj w j o' m', out) end
          | OWriteKey _ inv e => match finish o (step_write_key F m o inv e) with (o', out, m') => (set_obj w j o' m', out) end
          | ORemoveKey _ k => match finish o (step_remove_key c F m o k) with (o', out, m') => (set_obj w j o' m', out) end
          | OConvolve _ dim nk => match finish o (step_convolve c F m o dim nk) with (o', out, m') => (set_obj w j o' m', out) end
          | OPermute _ p =>
              if negb (is_perm (ndim o) p) then (w, Failed RInvalid)
              else if Nat.eqb (ndim o) 0 then (w, Ok)
              else (set_obj w j (Some (step_permute o p)) m, Ok)
          | OWrite _ fails =>
              if Nat.eqb (ndim o) 0 then (w, Failed REmpty)                                          (* fitsio.h:389, :414 *)
              else if fails then (w, Failed ROpen) else (w, Ok)
          | OEval _ => if Nat.eqb (ndim o) 0 then (w, Skipped)     (* documented precondition (splinetable.h:139): an empty
                                                                      table is not evaluable; such a call is outside the property *)
                       else (w, Ok)
          | ODestroy _ => (set_obj w j None (destroy c F m o), Ok)
          | _ => (w, Skipped)
          end
      end
  end.

Fixpoint run (c : cfg) (F : nat -> bool) (w : world) (xs : list op) : world * list outcome :=
  match xs with
  | [] => (w, [])
  | x :: t => match step c F w x with (w', out) => match run c F w' t with (w'', outs) => (w'', out :: outs) end end
  end.

Definition run_world (c : cfg) (F : nat -> bool) (xs : list op) : world := fst (run c F world0 xs).

(* the C++-only step that C18 builds on: one member function applied to one object state *)
Definition cpp_step := step.

(* fault oracles *)
Definition no_fault : nat -> bool := fun _ => false.
Definition fault_at (k : nat) : nat -> bool := fun n => Nat.eqb n k.
