(* C09_X16Link.v — the coefficients of the k-th derivative spline (C09_X16.citer: de Boor's recursion, Z-indexed knots, dropped-term
   convention) ARE the k-th iterated divided differences that a row of the fit's penalty matrix computes (C09_Stencil.dcoef =
   FitModel.divided_diffs applied to the coefficients), whenever the knot differences involved do not vanish and the integers
   1..n are invertible in the field:   citer k n c (j + k) = D^k c (j). *)
From Coq Require Import ZArith List Bool Lia Field Ring.
From PS Require Import Arith EvalModel BSpline OFieldKit FitModel C09_X16 C09_Stencil.
Import ListNotations.

Section Link.
Context {A : Arith}.
Variable F : OField A.
Notation K := (T A).
Add Field KfieldLink : (OFth F).

Variable knat : nat -> K.
Variable n : nat.                        (* the spline degree (`order` in the code) *)
Definition knZ (z : Z) : K := knat (Z.to_nat z).
Variable c : Z -> K.
Definition cnat (i : nat) : K := c (Z.of_nat i).

Hypothesis Hstrict : forall i m : nat, (1 <= m)%nat -> sub (knat (i + m)%nat) (knat i) <> zero.
Hypothesis Hchar : forall m : nat, (1 <= m <= n)%nat -> ofZ (Z.of_nat m) <> @zero A.

Theorem citer_is_stencil : forall k j, (k <= n)%nat ->
  citer knZ k n c (Z.of_nat (j + k)) = C09_Stencil.dcoef knat n k cnat j.
Proof.
  induction k as [|k IH]; intros j Hk.
  - cbn [citer C09_Stencil.dcoef]. rewrite Nat.add_0_r. reflexivity.
  - rewrite citer_snoc. unfold cstep. cbn [C09_Stencil.dcoef].
    replace (Z.of_nat (j + S k) - 1)%Z with (Z.of_nat (j + k)) by lia.
    replace (Z.of_nat (j + S k)) with (Z.of_nat (j + 1 + k)) at 1 by (f_equal; lia).
    rewrite (IH (j + 1)%nat) by lia. rewrite (IH j) by lia.
    unfold knZ. rewrite <- Nat2Z.inj_add, !Nat2Z.id.
    replace (j + S k + (n - k))%nat with (j + S k + (n - k))%nat by reflexivity.
    assert (Hd : sub (knat (j + S k + (n - k))%nat) (knat (j + S k)%nat) <> zero) by (apply Hstrict; lia).
    rewrite (wdiv_nz F) by exact Hd.
    unfold C09_Stencil.delta.
    replace (j + n + 1)%nat with (j + S k + (n - k))%nat by lia.
    replace (Z.of_nat n - (Z.of_nat (S k) - 1))%Z with (Z.of_nat (n - k)) by lia.
    assert (Hm : ofZ (Z.of_nat (n - k)) <> @zero A) by (apply Hchar; lia).
    field. split; assumption.
Qed.

End Link.
