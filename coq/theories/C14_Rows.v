(* C14_Rows.v — the loop-nest form of the coefficient update of convolve (ConvModel.apply_trafo_rows: slabs, rows,
   one [axpy] per (j, l), no computed positions) equals the positional form ConvModel.apply_trafo that the theorems of
   C14_Proofs.v are about; hence [convolve_rows_with = convolve_with] on well-formed tables. The executed model
   (extract/conv_driver.ml) runs the loop-nest form: it is linear in the array sizes, which is what makes tables of
   tens of thousands of coefficients affordable in the bitwise correspondence. *)
From Coq Require Import ZArith List Bool Lia Arith.PeanoNat.
From PS Require Import Arith EvalModel ConvModel C14_Proofs.
Import ListNotations.
Local Open Scope nat_scope.

(* ============================================================================================== *)
(** * list helpers *)
Lemma skipn_add {X} a b (l : list X) : skipn a (skipn b l) = skipn (b + a) l.
Proof.
  revert l; induction b as [|b IH]; intros l; simpl; auto.
  destruct l as [|x l]; simpl; [now rewrite skipn_nil|]. apply IH.
Qed.

Lemma nth_firstn_lt {X} k n (l : list X) d : k < n -> nth k (firstn n l) d = nth k l d.
Proof.
  revert k l; induction n as [|n IH]; intros k l H; [lia|].
  destruct l as [|x l]; simpl; auto. destruct k as [|k]; auto. apply IH. lia.
Qed.

Lemma nth_skipn_add {X} k n (l : list X) d : nth k (skipn n l) d = nth (n + k) l d.
Proof.
  revert l; induction n as [|n IH]; intros l; simpl; auto.
  destruct l as [|x l]; simpl; auto. now destruct k.
Qed.

Lemma nth_repeat_same {X} (a : X) n k : nth k (repeat a n) a = a.
Proof. revert k; induction n as [|n IH]; intros [|k]; simpl; auto. Qed.

Lemma list_is_map_nth {X} (l : list X) d n : length l = n -> l = map (fun k => nth k l d) (seq 0 n).
Proof.
  intros H. apply (nth_ext _ _ d d).
  - now rewrite map_length, seq_length.
  - intros k Hk. rewrite nth_map_seq by lia. reflexivity.
Qed.

Lemma flat_map_of_map {X Y Z} (f : Y -> list Z) (g : X -> Y) l : flat_map f (map g l) = flat_map (fun x => f (g x)) l.
Proof. induction l as [|a l IH]; simpl; auto. now rewrite IH. Qed.

Lemma flat_map_ext_In {X Y} (f g : X -> list Y) l : (forall a, In a l -> f a = g a) -> flat_map f l = flat_map g l.
Proof.
  induction l as [|a l IH]; intros H; simpl; auto. rewrite H by (simpl; auto). rewrite IH; auto.
  intros b Hb. apply H. simpl; auto.
Qed.

Lemma fold_left_ext_In {X Y} (f g : X -> Y -> X) l a0 : (forall a b, In b l -> f a b = g a b) -> fold_left f l a0 = fold_left g l a0.
Proof.
  revert a0; induction l as [|b l IH]; intros a0 H; simpl; auto.
  rewrite H by (simpl; auto). apply IH. intros a c Hc. apply H. simpl; auto.
Qed.

Lemma chunks_length {X} n cnt (l : list X) : length (chunks n cnt l) = cnt.
Proof. revert l; induction cnt as [|c IH]; intros l; simpl; auto. Qed.

(* the i-th chunk is the slice [i*n, i*n + n) *)
Lemma chunks_map {X} n cnt (l : list X) : chunks n cnt l = map (fun i => firstn n (skipn (i * n) l)) (seq 0 cnt).
Proof.
  revert l; induction cnt as [|c IH]; intros l; simpl; auto.
  f_equal. rewrite IH, <- seq_shift, map_map. apply map_ext. intros i.
  rewrite skipn_add. simpl. reflexivity.
Qed.

Lemma firstn_replace_nth {X} n (l : list X) v : firstn n (replace_nth n l v) = firstn n l.
Proof. revert n; induction l as [|a l IH]; intros [|n]; simpl; auto. now rewrite IH. Qed.

Lemma skipn_replace_nth {X} n (l : list X) v : skipn (S n) (replace_nth n l v) = skipn (S n) l.
Proof. revert n; induction l as [|a l IH]; intros [|n]; simpl; auto. apply IH. Qed.

Lemma prodn_split l n : n < length l -> prodn l = prodn (firstn n l) * (nth n l 0 * prodn (skipn (S n) l)).
Proof.
  revert n; induction l as [|a l IH]; intros n H; simpl in H; [lia|].
  destruct n as [|n].
  - simpl firstn. simpl nth. simpl skipn. rewrite prodn_cons. unfold prodn at 2. simpl. lia.
  - simpl firstn. simpl nth. change (skipn (S (S n)) (a :: l)) with (skipn (S n) l).
    rewrite !prodn_cons. rewrite (IH n) by lia. lia.
Qed.

(* ============================================================================================== *)
(** * one target row: the [axpy] updates are, cell by cell, the accumulation [cell] *)
Section Rows.
Context {A : Arith}.
Notation K := (T A).

Lemma axpy_length (t : K) acc row : length (axpy t acc row) = Nat.min (length acc) (length row).
Proof. revert row; induction acc as [|a acc IH]; intros [|x row]; simpl; auto. Qed.

Lemma axpy_nth (t : K) acc row k : k < length acc -> k < length row ->
  nth k (axpy t acc row) zero = rnd (add (nth k acc zero) (mul t (nth k row zero))).
Proof.
  revert row k; induction acc as [|a acc IH]; intros [|x row] k Ha Hr; simpl in *; try lia.
  destruct k as [|k]; auto. apply IH; lia.
Qed.

(* a sequence of row updates, read column by column *)
Lemma axpy_fold (s2 : nat) (L : list (K * list K)) (acc : list K) :
  (forall tr, In tr L -> length (snd tr) = s2) -> length acc = s2 ->
  fold_left (fun acc tr => axpy (fst tr) acc (snd tr)) L acc
  = map (fun k => fold_left (fun a tr => rnd (add a (mul (fst tr) (nth k (snd tr) zero)))) L (nth k acc zero)) (seq 0 s2).
Proof.
  revert acc; induction L as [|[t row] L IH]; intros acc HL Hacc.
  - simpl. now apply list_is_map_nth.
  - simpl fold_left at 1.
    assert (Hrow : length row = s2) by (apply (HL (t, row)); simpl; auto).
    rewrite IH.
    + apply map_ext_in. intros k Hk. apply in_seq in Hk. simpl. f_equal.
      apply axpy_nth; simpl; lia.
    + intros tr Htr. apply HL. simpl; auto.
    + simpl. rewrite axpy_length. lia.
Qed.

Lemma fold_combine_map {Y} (h : K -> K -> Y -> K) (R : nat -> Y) (ls : list nat) (trow : list K) (a : K) :
  fold_left (fun a tr => h a (fst tr) (snd tr)) (combine trow (map R ls)) a
  = fold_left (fun a lt => h a (snd lt) (R (fst lt))) (combine ls trow) a.
Proof.
  revert trow a; induction ls as [|l ls IH]; intros trow a.
  - simpl. now destruct trow.
  - destruct trow as [|t trow]; simpl; auto.
Qed.

(* the target row j of slab i *)
Lemma target_row_cells (trow old : list K) (s1 s2 na i : nat) :
  length old = s1 * (na * s2) -> i < s1 ->
  target_row trow (chunks s2 na (firstn (na * s2) (skipn (i * (na * s2)) old))) s2
  = map (fun k => cell trow old s2 na i k) (seq 0 s2).
Proof.
  intros Hlen Hi. unfold target_row.
  set (slab := firstn (na * s2) (skipn (i * (na * s2)) old)).
  assert (Hslab : length slab = na * s2).
  { unfold slab. rewrite firstn_length, skipn_length. nia. }
  rewrite chunks_map.
  rewrite (axpy_fold s2).
  - apply map_ext_in. intros k Hk. apply in_seq in Hk.
    rewrite nth_repeat_same.
    rewrite (fold_combine_map (fun a t r => rnd (add a (mul t (nth k r zero))))).
    unfold cell. apply fold_left_ext_In. intros a [l t] Hin. cbn [fst snd].
    apply in_combine_l in Hin. apply in_seq in Hin.
    rewrite nth_firstn_lt by lia. rewrite nth_skipn_add. unfold slab.
    rewrite nth_firstn_lt by nia. rewrite nth_skipn_add.
    do 4 f_equal. nia.
  - intros [t row] Hin. apply in_combine_r in Hin. cbn [snd]. apply in_map_iff in Hin as [l [E Hl]]. apply in_seq in Hl.
    subst row. rewrite firstn_length, skipn_length. nia.
  - apply repeat_length.
Qed.

Theorem apply_trafo_rows_eq (trafo : list (list K)) (old : list K) (s1 s2 na : nat) :
  length old = s1 * (na * s2) ->
  apply_trafo_rows trafo old s1 s2 na = apply_trafo trafo old s1 s2 na.
Proof.
  intros Hlen. unfold apply_trafo_rows, apply_trafo.
  rewrite chunks_map, flat_map_of_map.
  apply flat_map_ext_In. intros i Hi. apply in_seq in Hi.
  apply flat_map_ext_In. intros trow _.
  apply (target_row_cells trow old s1 s2 na i); [exact Hlen|lia].
Qed.

(* the whole convolution: the loop-nest form returns the same table *)
Theorem convolve_rows_eq (fact : nat -> Z) (flip : bool) (sort : list K -> list K) (t : @ctable A) (dim : nat) (kk : list K) :
  wf_table t = true -> dim < length (c_dims t) ->
  convolve_rows_with fact flip sort t dim kk = convolve_with fact flip sort t dim kk.
Proof.
  intros Hwf Hdim. unfold wf_table in Hwf.
  apply andb_true_iff in Hwf as [_ Hlen]. apply Nat.eqb_eq in Hlen.
  unfold convolve_rows_with, convolve_with. f_equal.
  apply apply_trafo_rows_eq.
  rewrite firstn_replace_nth, skipn_replace_nth, Hlen.
  rewrite (prodn_split (map c_naxes (c_dims t)) dim) by (now rewrite map_length).
  f_equal. f_equal. exact (map_nth c_naxes (c_dims t) dummy_dim dim).
Qed.
End Rows.
