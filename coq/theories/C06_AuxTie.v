(* C06_AuxTie.v — the auxiliary-entry condition of wf_table' (FitsWf.aux_entry_ok) against C16's model of write_key
   (AuxModel.accepts, with the parameters the translator tools/translators/aux.py reads from the current source tree,
   Generated_aux.gen_params): every (key, value) that write_key accepts satisfies aux_entry_ok, except
     - HIERARCH keys whose card does not fit in the standard form "HIERARCH key = 'value'" (cfitsio then writes
       "HIERARCH key= 'value'" or truncates; FitsModel.card_text models the standard form only).
   AuxModel is over Coq strings, FitsModel over lists of character codes; [lit] (FitsModel) converts.
   Kept apart from C06_Wf.v so that a change of C16's model or of the generated parameters breaks only this file. *)
From Coq Require Import List NArith ZArith Bool Lia ZifyBool Arith.
From Coq Require String Ascii.
From PS Require Import Generated_fits FitsModel FitsWf C06_Proofs C06_L1 C06_Wf.
From PS Require AuxModel Generated_aux.
Import ListNotations.
Open Scope N_scope.

Notation Str := String.String.
Notation Emp := String.EmptyString.

(* ------------------------------------------------------------------------------------------------ *)
(* strings and character-code lists *)
Lemma lit_cons c s : lit (Str c s) = Ascii.N_of_ascii c :: lit s.
Proof. reflexivity. Qed.

Lemma lit_length s : length (lit s) = String.length s.
Proof. induction s as [|c s IH]; [reflexivity|]. rewrite lit_cons. cbn [length String.length]. rewrite IH. reflexivity. Qed.

Lemma N_of_ascii_inj a b : Ascii.N_of_ascii a = Ascii.N_of_ascii b -> a = b.
Proof. intros H. rewrite <- (Ascii.ascii_N_embedding a), <- (Ascii.ascii_N_embedding b), H. reflexivity. Qed.

Lemma N_of_ascii_eqb a b : (Ascii.N_of_ascii a =? Ascii.N_of_ascii b) = Ascii.eqb a b.
Proof.
  destruct (Ascii.eqb_spec a b) as [->|NE]; [apply N.eqb_refl|].
  apply N.eqb_neq. intros H. apply NE, N_of_ascii_inj, H.
Qed.

Lemma prefix_starts_with r k : String.prefix r k = starts_with (lit r) (lit k).
Proof.
  revert r. induction k as [|b k IH]; intros r; destruct r as [|a r]; try reflexivity.
  rewrite !lit_cons. cbn [String.prefix starts_with]. rewrite N_of_ascii_eqb.
  destruct (Ascii.ascii_dec a b) as [->|NE].
  - rewrite Ascii.eqb_refl. cbn [andb]. apply IH.
  - apply Ascii.eqb_neq in NE. rewrite NE. reflexivity.
Qed.

Lemma eqb_str_eqb r k : String.eqb r k = str_eqb (lit r) (lit k).
Proof.
  revert k. induction r as [|a r IH]; intros k; destruct k as [|b k]; try reflexivity.
  rewrite !lit_cons. cbn [String.eqb str_eqb]. rewrite N_of_ascii_eqb. destruct (Ascii.eqb a b); [apply IH|reflexivity].
Qed.

Lemma existsb_map {A B} (f : B -> bool) (g : A -> B) l : existsb f (map g l) = existsb (fun a => f (g a)) l.
Proof. induction l; [reflexivity|]. cbn. rewrite IHl. reflexivity. Qed.

Lemma existsb_ext' {A} (f g : A -> bool) l : (forall a, f a = g a) -> existsb f l = existsb g l.
Proof. intros H. induction l; [reflexivity|]. cbn. rewrite H, IHl. reflexivity. Qed.

(* the two reserved-keyword lists come from the same source lines (fitsio.cpp reservedFitsKeyword), read by two translators *)
Lemma reserved_lists_agree :
  map lit (AuxModel.p_reserved_prefix Generated_aux.gen_params) = reserved_prefixes /\
  map lit (AuxModel.p_reserved_exact Generated_aux.gen_params) = reserved_exact.
Proof. split; vm_compute; reflexivity. Qed.

Lemma reserved_agree k : AuxModel.reserved Generated_aux.gen_params k = reserved (lit k).
Proof.
  unfold AuxModel.reserved, reserved. destruct reserved_lists_agree as [<- <-]. rewrite !existsb_map. f_equal.
  - apply existsb_ext'. intros r. apply prefix_starts_with.
  - apply existsb_ext'. intros r. apply eqb_str_eqb.
Qed.

Lemma code_N c : AuxModel.code c = N.to_nat (Ascii.N_of_ascii c).
Proof. reflexivity. Qed.

Lemma forall_chars_forallb (f : Ascii.ascii -> bool) (g : N -> bool) s :
  (forall c, f c = true -> g (Ascii.N_of_ascii c) = true) -> AuxModel.forall_chars f s = true -> forallb g (lit s) = true.
Proof.
  intros H. induction s as [|c s IH]; [reflexivity|]. rewrite lit_cons. cbn [AuxModel.forall_chars forallb].
  intros F. apply andb_true_iff in F as [F1 F2]. rewrite (H c F1), IH; auto.
Qed.

Lemma is_quote_N c : AuxModel.is_quote c = (Ascii.N_of_ascii c =? quote).
Proof. unfold AuxModel.is_quote, AuxModel.quote. rewrite <- N_of_ascii_eqb. reflexivity. Qed.
Lemma is_blank_N c : AuxModel.is_blank c = (Ascii.N_of_ascii c =? sp).
Proof. unfold AuxModel.is_blank, AuxModel.blank. rewrite <- N_of_ascii_eqb. reflexivity. Qed.
Lemma eq_sign_N c : Ascii.eqb c AuxModel.eq_sign = (Ascii.N_of_ascii c =? eqc).
Proof. unfold AuxModel.eq_sign. rewrite <- N_of_ascii_eqb. reflexivity. Qed.

Lemma count_quotes v : AuxModel.count_chars AuxModel.is_quote v = count_char quote (lit v).
Proof.
  unfold count_char. induction v as [|c v IH]; [reflexivity|]. rewrite lit_cons. cbn [AuxModel.count_chars filter].
  rewrite is_quote_N, IH. destruct (Ascii.N_of_ascii c =? quote); reflexivity.
Qed.

Lemma enc_len_agree v : AuxModel.enc_len Generated_aux.gen_params v = N.of_nat (enc_len (lit v)).
Proof. unfold AuxModel.enc_len, enc_len. cbn [AuxModel.p_quote_aware Generated_aux.gen_params]. rewrite count_quotes, lit_length. reflexivity. Qed.

Lemma first_char_hd k : negb (match AuxModel.first_char k with Some c => AuxModel.is_blank c | None => false end) = true ->
  k <> Emp -> negb (hd sp (lit k) =? sp) = true.
Proof. destruct k as [|c k]; [congruence|]. rewrite lit_cons. cbn [AuxModel.first_char hd]. rewrite is_blank_N. auto. Qed.

Lemma last_char_last k : negb (match AuxModel.last_char k with Some c => AuxModel.is_blank c | None => false end) = true ->
  k <> Emp -> negb (last (lit k) sp =? sp) = true.
Proof.
  induction k as [|c k IH]; [congruence|]. intros H _. destruct k as [|d k].
  - cbn [AuxModel.last_char] in H. rewrite lit_cons. cbn [lit last]. rewrite is_blank_N in H. exact H.
  - rewrite lit_cons. change (last (Ascii.N_of_ascii c :: lit (Str d k)) sp) with (last (lit (Str d k)) sp).
    apply IH; [exact H|discriminate].
Qed.

(* the scan of a long key (printable check on): no '=', every character printable *)
Lemma long_scan_ok k : AuxModel.long_scan true k = None -> no_char eqc (lit k) = true /\ key_legal (lit k) = true.
Proof.
  induction k as [|c k IH]; [split; reflexivity|]. cbn [AuxModel.long_scan]. rewrite eq_sign_N.
  destruct (Ascii.N_of_ascii c =? eqc) eqn:E1; [discriminate|].
  destruct (AuxModel.is_lower c); [discriminate|].
  cbn [andb]. destruct (negb (AuxModel.is_printable c)) eqn:E2; [discriminate|]. intros H. destruct (IH H) as [A B].
  rewrite lit_cons. unfold no_char, key_legal in *. cbn [forallb]. rewrite E1, A, B.
  apply negb_false_iff in E2. unfold AuxModel.is_printable in E2. rewrite code_N in E2. split; [reflexivity|].
  rewrite andb_true_r. lia.
Qed.

(* ------------------------------------------------------------------------------------------------ *)
Theorem write_key_accepted_entry_ok ks vs :
  AuxModel.accepts Generated_aux.gen_params ks vs = true ->
  ((length (lit ks) <= 8)%nat \/ (length (lit ks) + Nat.max 8 (enc_len (lit vs)) <= 66)%nat) ->
  aux_entry_ok (lit ks, lit vs) = true.
Proof.
  intros ACC FIT. unfold AuxModel.accepts in ACC.
  destruct (AuxModel.check_key Generated_aux.gen_params ks) as [e|vmax] eqn:CK; [discriminate|].
  apply andb_true_iff in ACC as [_ LEN]. apply negb_true_iff, N.ltb_ge in LEN. rewrite enc_len_agree in LEN.
  unfold AuxModel.check_key in CK. rewrite reserved_agree in CK.
  destruct (reserved (lit ks)) eqn:R; [discriminate|].
  cbn [AuxModel.p_short_keylen AuxModel.p_short_vmax AuxModel.p_printable_check AuxModel.p_long_keymax
       AuxModel.p_long_blank_check Generated_aux.gen_params] in CK.
  rewrite <- lit_length in CK. unfold aux_entry_ok, aux_key_ok. cbn [fst snd]. rewrite R. cbn [negb]. rewrite !andb_true_r.
  destruct (length (lit ks) <=? 8)%nat eqn:LK.
  - destruct (AuxModel.forall_chars (fun c => AuxModel.is_upper c || AuxModel.is_digit c) ks) eqn:FC; [|discriminate].
    injection CK as <-.
    assert (A : forallb (fun c => (32 <=? c) && (c <=? 126) && negb (c =? sp)) (lit ks) = true).
    { eapply forall_chars_forallb; [|exact FC]. intros c H. unfold AuxModel.is_upper, AuxModel.is_digit in H. rewrite !code_N in H.
      unfold sp. lia. }
    assert (KL : key_legal (lit ks) = true).
    { unfold key_legal. eapply forallb_impl; [|exact A]. intros x _ H. apply andb_true_iff in H as [H _]. exact H. }
    assert (NS : no_char sp (lit ks) = true).
    { unfold no_char. eapply forallb_impl; [|exact A]. intros x _ H. apply andb_true_iff in H as [_ H]. exact H. }
    rewrite KL, NS. cbn [andb]. apply Nat.leb_le. lia.
  - destruct (AuxModel.long_scan true ks) as [e|] eqn:LS; [discriminate|]. destruct (long_scan_ok ks LS) as [NE KL].
    destruct (66 <? length (lit ks))%nat eqn:L66; [discriminate|].
    match type of CK with (if ?b then _ else _) = _ => destruct b eqn:BL; [discriminate|] end.
    cbn [andb] in BL. apply orb_false_iff in BL as [BL _]. apply orb_false_iff in BL as [B1 B2].
    assert (NEm : ks <> Emp) by (intros ->; cbn in LK; discriminate).
    rewrite KL, NE, first_char_hd, last_char_last by (auto; apply negb_true_iff; assumption). cbn [andb].
    apply Nat.leb_gt in LK. apply Nat.leb_le. destruct FIT as [F|F]; lia.
Qed.

(* the part of the accepted set that is excluded by the fit condition: exactly the long keys with
   enc_len v = 67 - keylen, or keylen > 58 *)
Lemma fit_condition_gap ks vs :
  AuxModel.accepts Generated_aux.gen_params ks vs = true -> (8 < length (lit ks))%nat ->
  (length (lit ks) + Nat.max 8 (enc_len (lit vs)) <= 66)%nat \/
  (length (lit ks) + enc_len (lit vs) = 67)%nat \/ (58 < length (lit ks) <= 66)%nat.
Proof.
  intros ACC LK. unfold AuxModel.accepts in ACC.
  destruct (AuxModel.check_key Generated_aux.gen_params ks) as [e|vmax] eqn:CK; [discriminate|].
  apply andb_true_iff in ACC as [_ LEN]. apply negb_true_iff, N.ltb_ge in LEN. rewrite enc_len_agree in LEN.
  unfold AuxModel.check_key in CK. destruct (AuxModel.reserved Generated_aux.gen_params ks); [discriminate|].
  cbn [AuxModel.p_short_keylen AuxModel.p_short_vmax AuxModel.p_printable_check AuxModel.p_long_keymax
       AuxModel.p_long_blank_check Generated_aux.gen_params] in CK.
  rewrite <- lit_length in CK. apply Nat.leb_gt in LK. rewrite LK in CK.
  destruct (AuxModel.long_scan true ks); [discriminate|].
  destruct (66 <? length (lit ks))%nat eqn:L66; [discriminate|]. apply Nat.ltb_ge in L66.
  match type of CK with (if ?b then _ else _) = _ => destruct b; [discriminate|] end.
  injection CK as <-. unfold AuxModel.long_vmax in LEN.
  cbn [AuxModel.p_hier_overhead AuxModel.p_card Generated_aux.gen_params] in LEN.
  apply Nat.leb_gt in LK.
  destruct (13 + N.of_nat (length (lit ks)) <=? 80) eqn:U; lia.
Qed.

(* ------------------------------------------------------------------------------------------------ *)
(* EXTNAME / HDUNAME — the names fits_movnam_hdu compares, the primary HDU included — are reserved in the current tree (repair of
   the finding C06:aux-key:EXTNAME-shadows-KNOTSn): write_key rejects them whatever the value, and the primary HDU of a
   well-formed table matches no name *)
Lemma name_keys_reserved :
  reserved s_EXTNAME = true /\ reserved s_HDUNAME = true /\
  (forall ks vs, lit ks = s_EXTNAME \/ lit ks = s_HDUNAME -> AuxModel.accepts Generated_aux.gen_params ks vs = false) /\
  (forall t name, wf_table' t = true -> name_matches name (primary_hdu t) = false).
Proof.
  split; [exact reserved_EXTNAME|]. split; [exact reserved_HDUNAME|]. split.
  - intros ks vs K. unfold AuxModel.accepts, AuxModel.check_key. rewrite reserved_agree.
    destruct K as [-> | ->]; [rewrite reserved_EXTNAME | rewrite reserved_HDUNAME]; reflexivity.
  - intros t name W. apply name_matches_primary. apply wf_table'_wf_table in W. unfold wf_table in W.
    repeat (apply andb_true_iff in W; destruct W as [W ?]). assumption.
Qed.

(* ------------------------------------------------------------------------------------------------ *)
(* the READER: FitsModel.aux_value and C16's AuxModel.reader_value (with the parameters of the current tree: un-doubling
   present) transcribe the same lines of read_fits_core (fitsio.h 262-279); on character strings they are the same
   function.  So what C16 proves about its reader (C16_Proofs.reader_value_Q, undouble_dbl: the doubled text of any value
   followed by blanks is read back as the value followed by those blanks) and what C06_L1.unescape_escape_pad proves
   about this one are statements about one function. *)
Lemma lit_app a b : lit (String.append a b) = lit a ++ lit b.
Proof. induction a as [|c a IH]; [reflexivity|]. cbn [String.append]. rewrite !lit_cons, IH. reflexivity. Qed.

Lemma lit_blanks j : lit (AuxModel.repeat_char AuxModel.blank j) = repeat sp j.
Proof. induction j as [|j IH]; [reflexivity|]. cbn [AuxModel.repeat_char repeat]. rewrite lit_cons, IH. reflexivity. Qed.

Lemma undouble_agree_both s :
  lit (AuxModel.undouble s) = unescape_quotes (lit s) /\
  forall c, lit (AuxModel.undouble (Str c s)) = unescape_quotes (lit (Str c s)).
Proof.
  induction s as [|d s [A B]].
  - split; [reflexivity|]. intros c. cbn [AuxModel.undouble]. rewrite !lit_cons. change (lit Emp) with (@nil N).
    cbn [unescape_quotes]. destruct (Ascii.N_of_ascii c =? quote); reflexivity.
  - split; [apply B|]. intros c.
    change (AuxModel.undouble (Str c (Str d s)))
      with (if AuxModel.is_quote c && AuxModel.is_quote d then Str d (AuxModel.undouble s) else Str c (AuxModel.undouble (Str d s))).
    rewrite !is_quote_N. rewrite (lit_cons c (Str d s)), (lit_cons d s).
    change (unescape_quotes (Ascii.N_of_ascii c :: Ascii.N_of_ascii d :: lit s))
      with (if Ascii.N_of_ascii c =? quote
            then (if Ascii.N_of_ascii d =? quote then quote :: unescape_quotes (lit s)
                  else Ascii.N_of_ascii c :: unescape_quotes (Ascii.N_of_ascii d :: lit s))
            else Ascii.N_of_ascii c :: unescape_quotes (Ascii.N_of_ascii d :: lit s)).
    destruct (Ascii.N_of_ascii c =? quote) eqn:E1; destruct (Ascii.N_of_ascii d =? quote) eqn:E2; cbn [andb].
    + rewrite lit_cons, A. apply N.eqb_eq in E2. rewrite E2. reflexivity.
    + rewrite lit_cons, (B d), lit_cons. reflexivity.
    + rewrite lit_cons, (B d), lit_cons. reflexivity.
    + rewrite lit_cons, (B d), lit_cons. reflexivity.
Qed.

Lemma undouble_agree s : lit (AuxModel.undouble s) = unescape_quotes (lit s).
Proof. apply undouble_agree_both. Qed.

Lemma last_char_lit r : match AuxModel.last_char r with
                        | Some l => r <> Emp /\ last (lit r) 0 = Ascii.N_of_ascii l
                        | None => r = Emp end.
Proof.
  induction r as [|c r IH]; [reflexivity|]. destruct r as [|d r].
  - cbn. split; [discriminate|reflexivity].
  - change (AuxModel.last_char (Str c (Str d r))) with (AuxModel.last_char (Str d r)).
    destruct (AuxModel.last_char (Str d r)) as [l|]; [|discriminate]. destruct IH as [_ IH]. split; [discriminate|].
    rewrite lit_cons. rewrite lit_cons in *. exact IH.
Qed.

Lemma take_removelast r : lit (AuxModel.take (String.length r - 1) r) = removelast (lit r).
Proof.
  induction r as [|c r IH]; [reflexivity|]. destruct r as [|d r]; [reflexivity|].
  replace (String.length (Str c (Str d r)) - 1)%nat with (S (String.length (Str d r) - 1)) by (cbn [String.length]; lia).
  cbn [AuxModel.take]. rewrite lit_cons, IH, (lit_cons c), (lit_cons d). reflexivity.
Qed.

Lemma strip_quotes_agree raw : lit (AuxModel.strip_quotes raw) = strip_quotes (lit raw).
Proof.
  destruct raw as [|c r]; [reflexivity|]. unfold AuxModel.strip_quotes, strip_quotes. rewrite lit_cons, is_quote_N.
  destruct (Ascii.N_of_ascii c =? quote); [|apply lit_cons].
  pose proof (last_char_lit r) as L. destruct (AuxModel.last_char r) as [l|].
  - destruct L as [NE L]. destruct r as [|d r]; [congruence|]. rewrite (lit_cons d r) in *. rewrite L, is_quote_N.
    destruct (Ascii.N_of_ascii l =? quote); [|apply lit_cons]. rewrite take_removelast, lit_cons. reflexivity.
  - subst r. reflexivity.
Qed.

Theorem reader_agree raw : lit (AuxModel.reader_value Generated_aux.gen_params raw) = aux_value (lit raw).
Proof.
  unfold AuxModel.reader_value, aux_value. cbn [AuxModel.p_unquote_read Generated_aux.gen_params andb].
  destruct raw as [|c r]; [reflexivity|]. cbn [AuxModel.first_char]. rewrite (lit_cons c r), is_quote_N.
  destruct (Ascii.N_of_ascii c =? quote) eqn:E.
  - rewrite undouble_agree, strip_quotes_agree, lit_cons. reflexivity.
  - rewrite strip_quotes_agree, lit_cons. unfold strip_quotes. rewrite E. reflexivity.
Qed.

(* ------------------------------------------------------------------------------------------------ *)
(* the WRITER's limits: FitsModel.write_key_offer (reserved list, key length, encoded value length against maxdatalen)
   against C16's model of write_key.  For a key that passes write_key's alphabet checks (check_key = inr m) and a printable
   value: m is max_data_len, and the value is accepted exactly when write_key_offer says Stored; otherwise the refusal
   is RefusedTooLong.  A reserved key is RefusedReserved in both. *)
Lemma encoded_len_enc_len v : encoded_len v = enc_len v.
Proof. reflexivity. Qed.

Theorem offer_agree ks vs m :
  AuxModel.check_key Generated_aux.gen_params ks = inr m -> AuxModel.forall_chars AuxModel.is_printable vs = true ->
  m = N.of_nat (max_data_len (lit ks)) /\
  (AuxModel.accepts Generated_aux.gen_params ks vs = true <-> write_key_offer (lit ks) (lit vs) = Stored) /\
  (AuxModel.accepts Generated_aux.gen_params ks vs = false <-> write_key_offer (lit ks) (lit vs) = RefusedTooLong).
Proof.
  intros CK PR.
  assert (M : m = N.of_nat (max_data_len (lit ks)) /\ reserved (lit ks) = false /\
              (negb (length (lit ks) <=? 8)%nat && (66 <? length (lit ks))%nat = false)).
  { unfold AuxModel.check_key in CK. rewrite reserved_agree in CK. destruct (reserved (lit ks)); [discriminate|].
    cbn [AuxModel.p_short_keylen AuxModel.p_short_vmax AuxModel.p_printable_check AuxModel.p_long_keymax
         AuxModel.p_long_blank_check Generated_aux.gen_params] in CK.
    rewrite <- lit_length in CK. unfold max_data_len. destruct (length (lit ks) <=? 8)%nat eqn:LK.
    - destruct (AuxModel.forall_chars _ ks); [|discriminate]. injection CK as <-. repeat split; reflexivity.
    - destruct (AuxModel.long_scan true ks); [discriminate|].
      destruct (66 <? length (lit ks))%nat eqn:L66; [discriminate|].
      match type of CK with (if ?b then _ else _) = _ => destruct b; [discriminate|] end.
      injection CK as <-. unfold AuxModel.long_vmax. cbn [AuxModel.p_hier_overhead AuxModel.p_card Generated_aux.gen_params].
      split; [|split; reflexivity].
      apply Nat.ltb_ge in L66. apply Nat.leb_gt in LK.
      destruct (13 + N.of_nat (length (lit ks)) <=? 80) eqn:U; lia. }
  destruct M as (-> & R & LKY). split; [reflexivity|].
  unfold AuxModel.accepts. rewrite CK, PR. cbn [AuxModel.p_printable_check Generated_aux.gen_params negb andb].
  rewrite enc_len_agree. unfold write_key_offer. rewrite R, LKY. change (encoded_len (lit vs)) with (enc_len (lit vs)).
  destruct (max_data_len (lit ks) <? enc_len (lit vs))%nat eqn:C.
  - apply Nat.ltb_lt in C. assert (X : (N.of_nat (max_data_len (lit ks)) <? N.of_nat (enc_len (lit vs))) = true) by (apply N.ltb_lt; lia).
    rewrite X. cbn [negb]. split; split; intros H; try discriminate; reflexivity.
  - apply Nat.ltb_ge in C. assert (X : (N.of_nat (max_data_len (lit ks)) <? N.of_nat (enc_len (lit vs))) = false) by (apply N.ltb_ge; lia).
    rewrite X. cbn [negb]. split; split; intros H; try discriminate; reflexivity.
Qed.

Lemma offer_reserved ks vs : AuxModel.reserved Generated_aux.gen_params ks = true <-> write_key_offer (lit ks) (lit vs) = RefusedReserved.
Proof.
  rewrite reserved_agree. unfold write_key_offer. destruct (reserved (lit ks)); [tauto|].
  split; [discriminate|]. destruct (_ && _); [discriminate|]. destruct (_ <? _)%nat; discriminate.
Qed.

(* ------------------------------------------------------------------------------------------------ *)
(* ANY value write_key accepts round-trips exactly.  A table whose other parts satisfy wf_table' and whose auxiliary
   entries are (key, value) pairs write_key accepts — values with quotes anywhere included — and whose HIERARCH cards fit in
   the standard form (C06_write_key_fit_gap says which accepted entries do not) is written and read back through bytes with
   every array equal and every auxiliary value equal up to the trailing blanks of aux_reloaded. *)
Definition set_aux (t : table) (a : list (str * str)) : table :=
  {| t_order := t_order t; t_knots := t_knots t; t_naxes := t_naxes t; t_strides := t_strides t; t_coeffs := t_coeffs t;
     t_extents := t_extents t; t_periods := t_periods t; t_aux := a |}.

Definition accepted_entry (kv : str * str) : Prop :=
  exists ks vs, kv = (lit ks, lit vs) /\ AuxModel.accepts Generated_aux.gen_params ks vs = true /\
                ((length (lit ks) <= 8)%nat \/ (length (lit ks) + Nat.max 8 (enc_len (lit vs)) <= 66)%nat).

Lemma wf_table'_set_aux t : wf_table' (set_aux t []) = true -> forallb aux_entry_ok (t_aux t) = true -> wf_table' t = true.
Proof.
  unfold wf_table', wf_table, set_aux. cbn [t_order t_knots t_naxes t_strides t_coeffs t_extents t_periods t_aux forallb].
  intros H F. rewrite !andb_true_r in H. repeat (apply andb_true_iff in H; destruct H as [H ?]).
  assert (K : forallb (fun kv => aux_key_ok (fst kv)) (t_aux t) = true).
  { eapply forallb_impl; [|exact F]. intros x _ E. unfold aux_entry_ok in E. apply andb_true_iff in E as [E _]. exact E. }
  repeat (apply andb_true_iff; split); assumption.
Qed.

Theorem accepted_values_roundtrip t : wf_table' (set_aux t []) = true -> Forall accepted_entry (t_aux t) ->
  exists t', of_bytes (to_bytes t) = Ok t' /\ read_bytes (to_bytes t) = Ok t' /\ table_eq_upto_padding t t' /\
             map fst (t_aux t') = map fst (t_aux t) /\
             Forall2 (fun kv kv' => snd kv' = snd kv ++ repeat sp (8 - enc_len (snd kv))) (t_aux t) (t_aux t').
Proof.
  intros W A.
  assert (F : forallb aux_entry_ok (t_aux t) = true).
  { apply forallb_forall. intros kv I. rewrite Forall_forall in A. destruct (A kv I) as (ks & vs & -> & ACC & FIT).
    apply write_key_accepted_entry_ok; assumption. }
  destruct (roundtrip_full t (wf_table'_set_aux t W F)) as (t' & E1 & E2 & Q). exists t'.
  split; [exact E1|]. split; [exact E2|]. split; [exact Q|].
  destruct Q as (_ & _ & _ & _ & _ & _ & Ax). rewrite Ax. split.
  - rewrite map_map. reflexivity.
  - clear. induction (t_aux t) as [|kv l IH]; constructor; [reflexivity|exact IH].
Qed.
