(* C11_Term_Proofs.v — the inner loop `while (!feasible)` of nnls_normal_block3 terminates: the model's [InnerFuel]
   exit (NnlsModel.inner started with fuel 2n+2) is unreachable.

   Argument (purely combinatorial, exact arithmetic, no definiteness needed). Let F be the free set after
   modify_factor in some pass and z the reduced solution on F. A pass that does not end the loop
     (a) binds the negative coefficients ("descent at boundary"): F shrinks (neg_set_nonempty); or
     (b) takes a line-search step that does not reduce the residual, to the LAST alpha of the list, with H1 = the
         coefficients projected to 0 by that trial: if H1 is not empty F shrinks; if H1 is empty the last alpha is a
         break point x_i/(x_i - z_i) of some i in F with z_i < 0 (alpha = 1 always projects a negative coefficient),
         so the new x has x_i = 0 EXACTLY while z_i < 0, F and z are unchanged in the next pass, and there every
         trial (all alphas are > 0) projects i: the next pass binds (a) or has H1 non-empty — F shrinks.
   Hence at most 2|F|+1 passes. *)
From Coq Require Import List Bool ZArith Lia Field Ring PeanoNat Sorted.
From PS Require C11_Proofs.
From PS Require Import Arith Generated_nnls NnlsModel C11_Spec C11_KKT_Proofs C11_Exit_Proofs.
Import ListNotations.

(* ---- qsort of a sorted array ---------------------------------------------------------------------------- *)
Lemma insert_nat_sorted i S : Sorted Nat.le S -> Sorted Nat.le (insert_nat i S).
Proof.
  induction S as [|j S IH]; intro Hs; cbn [insert_nat].
  - constructor; constructor.
  - destruct (Nat.leb i j) eqn:E.
    + constructor; auto. constructor. apply Nat.leb_le. exact E.
    + apply Nat.leb_gt in E. inversion Hs as [|? ? Hs' Hh]; subst. constructor; auto.
      destruct S as [|k S']; cbn [insert_nat].
      * constructor. lia.
      * destruct (Nat.leb i k); constructor; [lia | inversion Hh; auto].
Qed.

Lemma sort_nat_sorted S : Sorted Nat.le (sort_nat S).
Proof. induction S as [|i S IH]; cbn [sort_nat fold_right]; [constructor | apply insert_nat_sorted; exact IH]. Qed.

Lemma sort_nat_of_sorted S : Sorted Nat.le S -> sort_nat S = S.
Proof.
  induction S as [|i S IH]; intro Hs; [reflexivity|]. inversion Hs as [|? ? Hs' Hh]; subst.
  cbn [sort_nat fold_right]. fold (sort_nat S). rewrite IH by exact Hs'.
  destruct S as [|j S']; [reflexivity|]. cbn [insert_nat]. inversion Hh; subst.
  assert (E : Nat.leb i j = true) by (apply Nat.leb_le; assumption). rewrite E. reflexivity.
Qed.

Lemma sort_nat_idem S : sort_nat (sort_nat S) = sort_nat S.
Proof. apply sort_nat_of_sorted. apply sort_nat_sorted. Qed.

Lemma length_insert_nat i S : length (insert_nat i S) = Datatypes.S (length S).
Proof. induction S as [|j S IH]; cbn [insert_nat length]; auto. destruct (Nat.leb i j); cbn [length]; auto. Qed.

Lemma length_sort_nat S : length (sort_nat S) = length S.
Proof. induction S as [|i S IH]; cbn [sort_nat fold_right length]; auto. fold (sort_nat S). rewrite length_insert_nat. auto. Qed.

Lemma filter_length_le {X} (f : X -> bool) l : length (filter f l) <= length l.
Proof. induction l as [|a l IH]; cbn [filter length]; auto. destruct (f a); cbn [length]; lia. Qed.

Lemma filter_length_lt {X} (f : X -> bool) l a : In a l -> f a = false -> length (filter f l) < length l.
Proof.
  induction l as [|c l IH]; intros Hin Hf; [destruct Hin|]. cbn [filter length].
  destruct Hin as [->|Hin].
  - rewrite Hf. pose proof (filter_length_le f l). lia.
  - specialize (IH Hin Hf). destruct (f c); cbn [length]; lia.
Qed.

Lemma remove_all_shrinks F H : H <> [] -> incl H F -> length (sort_nat (remove_all F H ++ [])) < length F.
Proof.
  intros Hne Hi. rewrite length_sort_nat, app_nil_r. destruct H as [|h H']; [congruence|].
  unfold remove_all. apply filter_length_lt with (a := h).
  - apply Hi. left; auto.
  - apply negb_false_iff. apply memb_In. left; auto.
Qed.

Lemma remove_all_nil' F : remove_all F [] = F.
Proof. unfold remove_all. induction F as [|a F IH]; cbn [filter memb existsb negb]; [auto | f_equal; auto]. Qed.

Section Term.
Context {A : Arith}.
Variable OF : OField A.
Notation K := (T A).

Add Field Kf4 : (OF_field A OF).

(* ---- order facts ------------------------------------------------------------------------------------------ *)
Lemma sq_nonneg (a : K) : le zero (mul a a).
Proof.
  destruct (le_total OF zero a) as [H|H].
  - apply (le0_mul OF); auto.
  - replace (mul a a) with (mul (opp a) (opp a)) by ring.
    assert (H' : le zero (opp a)).
    { apply (le_sub0 OF) in H. replace (sub zero a) with (opp a) in H by ring. exact H. }
    apply (le0_mul OF); auto.
Qed.

Lemma lt_0_1 : @lt A zero one.
Proof.
  apply (lt_not_le OF). intro H.
  assert (H1 : le zero one) by (replace (@one A) with (mul (@one A) one) by ring; apply sq_nonneg).
  pose proof (le_antisym OF _ _ H H1) as E. exact (F_1_neq_0 (OF_field A OF) E).
Qed.

Lemma mul_pos_neg (a c : K) : lt zero a -> lt c zero -> lt (mul a c) zero.
Proof.
  intros Ha Hc. apply (lt_not_le OF). intro H.
  assert (Hc' : le zero (opp c)).
  { apply (lt_le OF) in Hc. apply (le_sub0 OF) in Hc. replace (sub zero c) with (opp c) in Hc by ring. exact Hc. }
  pose proof (le0_mul OF _ _ (lt_le OF _ _ Ha) Hc') as H1.
  assert (H2 : le (mul a c) zero).
  { apply (le_sub0 OF). replace (sub zero (mul a c)) with (mul a (opp c)) by ring. exact H1. }
  pose proof (le_antisym OF _ _ H H2) as E.
  assert (Ha0 : a <> zero) by (intro; subst; exact (lt_irrefl OF _ Ha)).
  assert (Ec : c = zero).
  { replace c with (mul (div one a) (mul a c)) by (field; exact Ha0). rewrite <- E. ring. }
  subst c. exact (lt_irrefl OF _ Hc).
Qed.

(* ---- "some coefficient is exactly 0 while its reduced solution is negative" -------------------------------- *)
Fixpoint hasZc (xc xF : list K) : Prop :=
  match xc, xF with
  | c :: xc', z :: xF' => (c = zero /\ lt z zero) \/ hasZc xc' xF'
  | _, _ => False
  end.

Lemma hasZc_count_inf tol x : forall F (xF : list K), hasZc (gather x F) xF -> fst (count_inf tol x F xF) <> 0.
Proof.
  induction F as [|i F IH]; intros [|z xF] H; cbn [gather map hasZc] in H; try contradiction.
  cbn [count_inf]. destruct (count_inf tol x F xF) as [ni nb] eqn:E.
  destruct H as [[_ Hz]|H].
  - unfold lt in Hz. rewrite Hz. cbn [fst]. discriminate.
  - destruct (ltb z zero); cbn [fst]; [discriminate|]. specialize (IH xF H). rewrite E in IH. exact IH.
Qed.

Lemma hasZc_trial al x : lt zero al -> forall F (xF : list K), hasZc (gather x F) xF -> snd (trial al x F xF) <> [].
Proof.
  intros Hal. induction F as [|i F IH]; intros [|z xF] H; cbn [gather map hasZc] in H; try contradiction.
  cbn [trial]. destruct (trial al x F xF) as [xc h1] eqn:E.
  destruct H as [[Hx Hz]|H].
  - rewrite Hx. replace (add (mul (sub one al) zero) (mul al z)) with (mul al z) by ring.
    pose proof (mul_pos_neg al z Hal Hz) as Hv. unfold lt in Hv. rewrite Hv. cbn [snd]. discriminate.
  - specialize (IH xF H). rewrite E in IH. cbn [snd] in IH.
    destruct (ltb _ zero); cbn [snd]; [discriminate | exact IH].
Qed.

Lemma count_inf_trial_one tol x : forall F (xF : list K), fst (count_inf tol x F xF) <> 0 -> snd (trial one x F xF) <> [].
Proof.
  induction F as [|i F IH]; intros [|z xF] H; try (cbn [count_inf fst] in H; congruence).
  cbn [count_inf] in H. cbn [trial]. specialize (IH xF).
  destruct (trial one x F xF) as [xc h1] eqn:E.
  destruct (count_inf tol x F xF) as [ni nb] eqn:Ec.
  replace (add (mul (sub one one) (nthK x i)) (mul one z)) with z by ring.
  destruct (ltb z zero); cbn [snd fst] in *; [discriminate | auto].
Qed.

Lemma breakpoints_pos x : forall F (xF : list K) al, In al (breakpoints x F xF) -> lt zero al.
Proof.
  induction F as [|i F IH]; intros [|z xF] al H; cbn [breakpoints] in H; try contradiction.
  destruct (ltb z zero); [|eauto].
  destruct (ltb _ one && ltb zero _) eqn:E; [|eauto].
  destruct H as [<-|H]; [|eauto]. apply andb_true_iff in E. apply E.
Qed.

Lemma breakpoints_hit x : (forall i, le zero (nthK x i)) -> forall F (xF : list K) al,
  In al (breakpoints x F xF) -> hasZc (fst (trial al x F xF)) xF.
Proof.
  intros Hx. induction F as [|i F IH]; intros [|z xF] al H; cbn [breakpoints] in H; try contradiction.
  cbn [trial]. destruct (trial al x F xF) as [xc h1] eqn:E.
  assert (R : hasZc xc xF -> hasZc (fst (if ltb (add (mul (sub one al) (nthK x i)) (mul al z)) zero
                                         then (zero :: xc, i :: h1) else (add (mul (sub one al) (nthK x i)) (mul al z) :: xc, h1))) (z :: xF)).
  { intro Hr. destruct (ltb (add _ _) zero); simpl; right; exact Hr. }
  assert (IH' : In al (breakpoints x F xF) -> hasZc xc xF).
  { intro Hin. specialize (IH xF al Hin). rewrite E in IH. exact IH. }
  destruct (ltb z zero) eqn:Ez; [|auto].
  destruct (ltb _ one && ltb zero _) eqn:Eb; [|auto].
  destruct H as [<-|H]; [|auto].
  set (xi := nthK x i) in *.
  assert (Hd : sub xi z <> zero).
  { intro Ed. assert (Exz : xi = z) by (replace xi with (add (sub xi z) z) by ring; rewrite Ed; ring).
    pose proof (Hx i) as Hxi. fold xi in Hxi. rewrite Exz in Hxi.
    apply (lt_not_le OF) in Ez. contradiction. }
  assert (Ev : add (mul (sub one (div xi (sub xi z))) xi) (mul (div xi (sub xi z)) z) = zero) by (field; exact Hd).
  rewrite Ev. destruct (ltb zero zero); simpl; left; split; auto.
Qed.

Lemma length_trial al x : forall F (xF : list K), length xF = length F -> length (fst (trial al x F xF)) = length F.
Proof.
  induction F as [|i F IH]; intros [|z xF] Hl; cbn [length] in Hl; try discriminate; [reflexivity|].
  cbn [trial]. destruct (trial al x F xF) as [xc h1] eqn:E. specialize (IH xF (eq_add_S _ _ Hl)). rewrite E in IH. cbn [fst] in IH.
  destruct (ltb _ zero); cbn [fst length]; lia.
Qed.

(* ---- the alphas ---------------------------------------------------------------------------------------------- *)
Lemma In_insert_desc (a c : K) l : In a (insert_desc c l) <-> a = c \/ In a l.
Proof.
  induction l as [|d l IH]; cbn [insert_desc].
  - simpl. intuition congruence.
  - destruct (ltb c d); simpl; [rewrite IH|]; intuition congruence.
Qed.

Lemma In_sort_desc (a : K) l : In a (sort_desc l) <-> In a l.
Proof.
  induction l as [|c l IH]; cbn [sort_desc fold_right]; [tauto|]. fold (sort_desc l).
  rewrite In_insert_desc, IH. simpl. intuition congruence.
Qed.

Lemma last_In_K (l : list K) d : l <> [] -> In (last l d) l.
Proof.
  induction l as [|a l IH]; intro Hne; [congruence|].
  destruct l as [|c l']; [left; reflexivity|]. right. apply IH. discriminate.
Qed.

Lemma last_cons_K (a : K) l d : l <> [] -> last (a :: l) d = last l d.
Proof. destruct l; [congruence | reflexivity]. Qed.

Lemma walk_last res0 MF bF x F xF : forall als k k' (xc : list K) h1 rd,
  walk res0 MF bF x F xF k als = Some (k', xc, h1, rd) ->
  exists al, In al als /\ trial al x F xF = (xc, h1) /\ (rd = false -> al = last als one).
Proof.
  induction als as [|al rest IH]; intros k k' xc h1 rd H; cbn [walk] in H; [discriminate|].
  destruct (trial al x F xF) as [xc0 h10] eqn:E.
  destruct (ltb _ _).
  - injection H as <- <- <- <-. exists al. split; [left; auto|]. split; auto. discriminate.
  - destruct rest as [|a' rest'].
    + injection H as <- <- <- <-. exists al. split; [left; auto|]. split; auto.
    + destruct (IH _ _ _ _ _ H) as (al' & Hin & Ht & Hl). exists al'. split; [right; auto|]. split; auto.
Qed.

Section Run.
Variable solve : list nat -> option (list K).
Variable M : list (list K).
Variable b : list K.
Variable tol : K.
Hypothesis Hsolve : solve_ok solve M b.
Notation n := (length b).

Lemma nonneg_all (x : list K) : nonneg x -> forall i, le zero (nthK x i).
Proof. intros H i. apply (nonneg_nth OF). exact H. Qed.

Lemma inner_fuel_enough : forall fuel x F G H1 H2 tr,
  length x = n -> nonneg x -> part n F G -> incl H1 F -> NoDup H1 -> incl H2 G -> NoDup H2 ->
  (2 * length (sort_nat (remove_all F H1 ++ H2)) + 1 <= fuel \/
   (2 * length (sort_nat (remove_all F H1 ++ H2)) <= fuel /\
    exists z, solve (sort_nat (remove_all F H1 ++ H2)) = Some z /\ hasZc (gather x (sort_nat (remove_all F H1 ++ H2))) z)) ->
  inner solve M b tol fuel x F G H1 H2 tr <> inl InnerFuel.
Proof.
  induction fuel as [|fuel IH]; intros x F G H1 H2 tr Hx Hnn Hp I1 N1 I2 N2 Hf.
  { exfalso. destruct Hf as [Hf|[Hf (z & Hs & Hz)]]; [lia|].
    assert (E : sort_nat (remove_all F H1 ++ H2) = []) by (apply length_zero_iff_nil; lia).
    rewrite E in Hz. cbn [gather map hasZc] in Hz. exact Hz. }
  cbn [inner].
  pose proof (part_step n F G H1 H2 Hp I1 N1 I2 N2) as Hp1.
  set (F1 := sort_nat (remove_all F H1 ++ H2)) in *.
  set (G1 := sort_nat (remove_all (G ++ H1) H2)) in *.
  destruct (solve F1) as [xF|] eqn:Es; [|discriminate].
  destruct (Hsolve F1 xF Es) as [HlF _].
  assert (Hz' : (exists z, Some xF = Some z /\ hasZc (gather x F1) z) -> hasZc (gather x F1) xF).
  { intros (z & Ez & Hz). injection Ez as <-. exact Hz. }
  destruct (count_inf tol x F1 xF) as [ninf nbnd] eqn:Ec.
  assert (NF1 : NoDup F1) by apply Hp1.
  assert (BF1 : forall i, In i F1 -> i < n) by apply Hp1.
  destruct (Nat.eqb ninf 0) eqn:E0; [discriminate|].
  apply Nat.eqb_neq in E0.
  assert (Hcnt : fst (count_inf tol x F1 xF) <> 0) by (rewrite Ec; exact E0).
  destruct (neg_set_spec F1 xF) as [Hni Hnd].
  destruct (Nat.eqb ninf nbnd).
  - (* descent at boundary: F shrinks *)
    assert (Hne : neg_set F1 xF <> []) by (eapply C11_Proofs.neg_set_nonempty; exact Hcnt).
    pose proof (remove_all_shrinks F1 _ Hne Hni) as Hsh.
    apply IH; [ | | exact Hp1 | exact Hni | exact (Hnd NF1) | apply incl_nil_l | constructor | ].
    + rewrite length_scatter; auto.
    + apply nonneg_scatter; auto. apply (nonneg_zeros OF).
    + left. destruct Hf as [Hf|[Hf _]]; lia.
  - destruct (walk_descents M b x F1 xF) as [[[[k xc] h1] rd]|] eqn:Ew; [|discriminate].
    destruct rd; [discriminate|].
    unfold walk_descents in Ew. apply walk_last in Ew. destruct Ew as (al & Hin & Et & Hlast).
    specialize (Hlast eq_refl).
    destruct (trial_spec OF _ _ _ _ _ _ Et) as (Tn & Ti & Td).
    assert (Hal : lt zero al).
    { destruct Hin as [Hin|Hin]; [subst al; apply lt_0_1|]. apply (proj1 (In_sort_desc _ _)) in Hin. eapply breakpoints_pos; eauto. }
    assert (Hx' : length (scatter x F1 xc) = n) by (rewrite length_scatter; auto).
    assert (Hnn' : nonneg (scatter x F1 xc)) by (apply nonneg_scatter; auto).
    destruct h1 as [|h0 h1'].
    + (* nothing projected: the step went to a break point; F and its solution are unchanged, some x_i = 0 with z_i < 0 *)
      assert (EF : sort_nat (remove_all F1 [] ++ []) = F1).
      { rewrite app_nil_r, remove_all_nil'. unfold F1. apply sort_nat_idem. }
      apply IH; [exact Hx' | exact Hnn' | exact Hp1 | apply incl_nil_l | constructor | apply incl_nil_l | constructor |].
      rewrite EF.
      destruct Hf as [Hf|[Hf Hz]].
      2:{ exfalso. pose proof (hasZc_trial al x Hal F1 xF (Hz' Hz)) as Hc. rewrite Et in Hc. apply Hc. reflexivity. }
      right. split; [lia|]. exists xF. split; auto.
      assert (Hbp : In al (breakpoints x F1 xF)).
      { destruct (sort_desc (breakpoints x F1 xF)) as [|c l] eqn:Eb.
        - exfalso. cbn [last] in Hlast. subst al.
          pose proof (count_inf_trial_one tol x F1 xF Hcnt) as Hc. rewrite Et in Hc. apply Hc. reflexivity.
        - apply (proj1 (In_sort_desc al (breakpoints x F1 xF))). rewrite Eb. rewrite Hlast. rewrite last_cons_K by discriminate. apply last_In_K. discriminate. }
      pose proof (breakpoints_hit x (nonneg_all x Hnn) F1 xF al Hbp) as Hh. rewrite Et in Hh. cbn [fst] in Hh.
      rewrite gather_scatter; auto.
      * rewrite Hx. exact BF1.
      * pose proof (length_trial al x F1 xF HlF) as Hl. rewrite Et in Hl. exact Hl.
    + (* something projected: F shrinks *)
      assert (Hne : h0 :: h1' <> []) by discriminate.
      pose proof (remove_all_shrinks F1 _ Hne Ti) as Hsh.
      apply IH; [exact Hx' | exact Hnn' | exact Hp1 | exact Ti | exact (Td NF1) | apply incl_nil_l | constructor |].
      left. destruct Hf as [Hf|[Hf _]]; lia.
Qed.

Hypothesis HM : wf_mat (length b) M.

Lemma length_le_n (F G : list nat) : part n F G -> length F <= n.
Proof.
  intros (NF & _ & BF & _). rewrite <- (seq_length n 0). apply NoDup_incl_length; auto.
  intros i Hi. apply in_seq. specialize (BF i Hi). lia.
Qed.

Lemma outer_step_not_innerfuel rep s s' : Inv M b s ->
  outer_step rep solve M b tol n s <> inl (InnerFuel, s').
Proof.
  intros (Hx & Hy & Hnn & Hp & I1 & N1 & HGp & Hfull) H.
  unfold outer_step in H. cbv zeta in H.
  set (G_ := match st_Gp s with None => st_G s | Some g => g end) in H.
  set (H2r := filter (fun i => ltb (nthK (st_y s) i) (opp tol)) G_) in H.
  set (H1' := remove_all (st_H1 s) H2r) in H.
  set (H2 := remove_all H2r (st_H1 s)) in H.
  destruct (andb _ _) in H; [discriminate|].
  destruct (inner _ _ _ _ _ _ _ _ _ _ _) as [e|r] eqn:Ei in H; [|discriminate].
  injection H as -> _.
  assert (HG_ : NoDup G_ /\ forall i, In i G_ -> In i (st_G s) \/ In i (st_H1 s)).
  { unfold G_. destruct (st_Gp s) as [g|]; [apply HGp; auto | split; [apply Hp | auto]]. }
  assert (I2 : incl H2 (st_G s)).
  { intros i Hi. apply In_remove_all in Hi. destruct Hi as [Hi Hn1]. apply filter_In in Hi.
    destruct (proj2 HG_ i (proj1 Hi)); [auto | contradiction]. }
  assert (N2 : NoDup H2) by (apply NoDup_remove_all; apply NoDup_filter; apply HG_).
  assert (I1' : incl H1' (st_F s)).
  { intros i Hi. apply In_remove_all in Hi. apply I1. apply Hi. }
  assert (N1' : NoDup H1') by (apply NoDup_remove_all; auto).
  revert Ei. apply inner_fuel_enough; auto.
  left. pose proof (part_step n _ _ H1' H2 Hp I1' N1' I2 N2) as Hp1.
  pose proof (length_le_n _ _ Hp1). lia.
Qed.

Lemma outer_not_innerfuel rep : forall fuel iter s, Inv M b s ->
  r_exit (outer rep solve M b tol n fuel iter s) <> InnerFuel.
Proof.
  induction fuel as [|fuel IH]; intros iter s Hs; cbn [outer].
  - cbn [r_exit]. discriminate.
  - destruct (outer_step rep solve M b tol n s) as [[e s']|s'] eqn:E.
    + cbn [r_exit]. intros ->. eapply outer_step_not_innerfuel; eauto.
    + apply IH. eapply (outer_step_inv OF); eauto.
Qed.

Theorem block3_run_inner_terminates rep max_iter : r_exit (block3_run rep solve M b tol max_iter) <> InnerFuel.
Proof. unfold block3_run. apply outer_not_innerfuel. apply (init_inv OF); auto. Qed.
End Run.
End Term.

Theorem block3_inner_terminates (A : Arith) (OF : OField A) (M : list (list (T A))) (b : list (T A)) :
  wf_mat (length b) M -> r_exit (block3 M b) <> InnerFuel.
Proof.
  intro HM. unfold block3, block3_gen. apply (block3_run_inner_terminates OF); auto. apply (solve_checked_ok OF).
Qed.
