(* ConvModel.v — executable model of photospline's convolution code, polymorphic in [Arith]. No proofs here.
   Sources modelled:
     src/core/convolve.cpp                       : divdiff, factorial, convoluted_blossom
     include/photospline/detail/convolve.h       : splinetable<Alloc>::convolve(dim, conv_knots, n_conv_knots)
     src/cinter/splinetable.cpp                  : splinetable_convolve (calls the member function, returns 0)
   Conventions: sizes, orders and array positions are [nat] (every index of this code is non-negative);
   integer arithmetic is unbounded — the C code uses uint32_t/uint64_t/size_t and [int acc] in factorial: the
   theorems state the hypotheses under which nothing wraps (well-formed table, n >= 2; factorial argument <= 12).
   Numbers: everything is computed in [double] ([T A] with the driver's binary64 closures); the only store into
   [float] is the accumulation  coefficients[..] += trafo[..]*this->coefficients[..]  which is [rnd] here.
   Memory (deallocate/allocate/copies through knots_store) is not modelled (C19/C20 are about that). *)
From Coq Require Import ZArith List Bool Lia.
From PS Require Import Arith EvalModel.
Import ListNotations.

Section Model.
Context {A : Arith}.
Notation K := (T A).

(* ============================================================================================== *)
(** * convolve.cpp *)

(* double divdiff(const double* x, const double* y, size_t n)
     if (n == 1) return y[0];
     return (divdiff(&x[1], &y[1], n-1) - divdiff(x, y, n-1)) / (x[n-1] - x[0]);
   [m] = n-1 (n = 0 is not a legal call: it would recurse through size_t wrap-around); [x], [y] are the
   arrays from the pointer on — only the first n entries are read. *)
Fixpoint divdiff (m : nat) (x y : list K) : K :=
  match m with
  | O => nth 0 y zero
  | S m1 => div (sub (divdiff m1 (tl x) (tl y)) (divdiff m1 x y)) (sub (nth m x zero) (nth 0 x zero))
  end.

(* unsigned int factorial(unsigned int n), AS SHIPPED (kept for the regression statement C14_refuted_order0_old):
     int acc = n;  for (unsigned int i = n-1; i > 1; i--) acc *= i;  return acc;
   n = 0: acc = 0 and i runs down from UINT_MAX, the result is 0 (defect D4).  n >= 1: n*(n-1)*...*2. *)
Fixpoint prod_down (i : nat) (acc : Z) : Z :=     (* for (; i > 1; i--) acc *= i *)
  match i with
  | O => acc
  | S i1 => match i1 with O => acc | S _ => prod_down i1 (acc * Z.of_nat i)%Z end
  end.
Definition factorial_shipped (n : nat) : Z :=
  match n with
  | O => 0%Z                               (* 0 * (anything, 2^32-3 times) *)
  | S n1 => prod_down n1 (Z.of_nat n)
  end.
(* after "fix: factorial(0) is 1":
     unsigned int acc = 1;  for (unsigned int i = n; i > 1; i--) acc *= i;  return acc; *)
Definition factorial (n : nat) : Z := prod_down n 1%Z.

(* det = 1.0; for (k = 0; k < nbags; k++) det *= (x[i] + y[j] - bags[k]); *)
Definition det_of (xi yj : K) (bags : list K) : K :=
  fold_left (fun det b => mul det (sub (add xi yj) b)) bags one.

(* the inner j-loop: fun_y[j] = (x[i] + y[j] - z > 0.0) ? det : 0.0 *)
Definition fun_y_of (xi : K) (y : list K) (z : K) (bags : list K) : list K :=
  map (fun yj => if gtb (sub (add xi yj) z) zero then det_of xi yj bags else zero) y.

(* double convoluted_blossom(x, nx, y, ny, z, bags, nbags); [x] has nx, [y] ny, [bags] nbags entries.
     if ((x[0] + y[0] > z) || (x[nx-1] + y[ny-1] < bags[nbags-1])) return 0.;
     scale = x[nx-1] - x[0];
     for i: { for j: fun_y[j] = ...; fun_x[i] = divdiff(y, fun_y, ny); }
     return scale*divdiff(x, fun_x, nx);
   bags[nbags-1] for nbags = 0 is the element in front of bags, which at the only call site is z: [last bags z]. *)
Definition convoluted_blossom (x y : list K) (z : K) (bags : list K) : K :=
  let nx := length x in
  let ny := length y in
  if gtb (add (nth 0 x zero) (nth 0 y zero)) z
     || ltb (add (nth (nx - 1) x zero) (nth (ny - 1) y zero)) (last bags z)
  then zero
  else
    let scale := sub (nth (nx - 1) x zero) (nth 0 x zero) in
    let fun_x := map (fun xi => divdiff (ny - 1) y (fun_y_of xi y z bags)) x in
    mul scale (divdiff (nx - 1) x fun_x).

(* ============================================================================================== *)
(** * convolve.h *)

Record cdim := mkCDim {
  c_order  : nat;          (* order[i] *)
  c_knots  : list K;       (* knots[i][0 .. nknots[i])  (nknots[i] = length) *)
  c_naxes  : nat;          (* naxes[i] *)
  c_stride : nat;          (* strides[i] *)
  c_ext    : K * K;        (* extents[i][0], extents[i][1] *)
}.
Record ctable := mkCTable {
  c_dims : list cdim;      (* ndim = length *)
  c_coef : list K;         (* coefficients[0 .. naxes[0]*strides[0]) as Float values *)
}.
Definition c_nknots (d : cdim) : nat := length (c_knots d).
Definition dummy_dim : cdim := mkCDim 0 [] 0 0 (zero, zero).

(* for i < nknots[dim]: for j < n_conv_knots: rho[n_rho++] = knots[dim][i] + conv_knots[j]; *)
Definition pairwise_sums (knots kk : list K) : list K :=
  flat_map (fun ti => map (fun kj => add ti kj) kk) knots.

(* arraysize = 1; strides[ndim-1] = 1; for (i = ndim-1; i >= 0; i--) { arraysize *= naxes[i]; if (i > 0) strides[i-1] = arraysize; }
   [strides_of naxes] = (strides, arraysize) *)
Fixpoint strides_of (naxes : list nat) : list nat * nat :=
  match naxes with
  | [] => ([], 1)
  | n :: rest => let (s, size) := strides_of rest in (size :: s, n * size)
  end.
Definition prodn (l : list nat) : nat := fold_right Nat.mul 1 l.

(* double norm = ((double)(factorial(q)*factorial(k-1)))/((double)factorial(k+q-1));
   as shipped, followed by:  if (k % 2 != 0) norm *= -1;   (removed by "fix: convolve no longer negates ...").
   Parametrised by the factorial in use and by the presence of the sign flip so that the shipped code, the code
   after the first fix and the current code are all expressible. *)
Definition norm_with (fact : nat -> Z) (flip : bool) (k q : nat) : K :=
  let nrm := div (ofZ (Z.mul (fact q) (fact (k - 1)))) (ofZ (fact (k + q - 1))) in
  if flip && Nat.odd k then mul nrm (ofZ (-1)%Z) else nrm.

(* trafo[i*naxes_old + j] = norm*convoluted_blossom(&knots[dim][j], k+1, conv_knots, n, rho[i], &rho[i+1], k+q-1) *)
Definition trafo_entry (nrm : K) (knots kk rho : list K) (k q : nat) (i j : nat) : K :=
  mul nrm (convoluted_blossom (firstn (k + 1) (skipn j knots)) kk (nth i rho zero)
                              (firstn (k + q - 1) (skipn (i + 1) rho))).
Definition trafo_matrix (nrm : K) (knots kk rho : list K) (k q : nat) (naxes_new naxes_old : nat) : list (list K) :=
  map (fun i => map (fun j => trafo_entry nrm knots kk rho k q i j) (seq 0 naxes_old)) (seq 0 naxes_new).

(* for i < stride1: for j < naxes_new: for l < naxes_old: for k < stride2:
       coefficients[i*stride2*naxes_new + j*stride2 + k] += trafo[j*naxes_old + l] * this->coefficients[i*stride2*naxes_old + l*stride2 + k];
   The target cell (i,j,k) receives its naxes_old updates in the order l = 0,1,..., starting from 0.f, and no
   other cell is touched by them; every update is a double multiply-add stored into a float: [cell].
   The new array is written out in its own index order (i, j, k) — the loop interchange (k inside l) only
   interleaves updates of different cells. *)
Definition cell (row : list K) (old : list K) (stride2 naxes_old i k : nat) : K :=
  fold_left (fun acc lt => rnd (add acc (mul (snd lt) (nth (i * stride2 * naxes_old + fst lt * stride2 + k) old zero))))
            (combine (seq 0 naxes_old) row) zero.
Definition apply_trafo (trafo : list (list K)) (old : list K) (stride1 stride2 naxes_old : nat) : list K :=
  flat_map (fun i => flat_map (fun row => map (fun k => cell row old stride2 naxes_old i k) (seq 0 stride2)) trafo)
           (seq 0 stride1).

Fixpoint replace_nth {X} (n : nat) (l : list X) (v : X) : list X :=
  match l, n with
  | [], _ => []
  | _ :: r, O => v :: r
  | a :: r, S n1 => a :: replace_nth n1 r v
  end.

(* template <typename Alloc> void splinetable<Alloc>::convolve(dim, conv_knots, n_conv_knots)
   [sort] stands for std::sort(rho, rho+n_rho) (an oracle: the theorems assume only that it returns a sorted
   permutation); [fact] is photospline::factorial, [flip] the presence of the (-1)^k factor. *)
Definition convolve_with (fact : nat -> Z) (flip : bool) (sort : list K -> list K) (t : ctable) (dim : nat) (kk : list K) : ctable :=
  let d := nth dim (c_dims t) dummy_dim in
  let n := length kk in
  let convorder := c_order d + n - 1 in
  let rho := sort (pairwise_sums (c_knots d) kk) in
  let n_rho := c_nknots d * n in
  let naxes_old := c_naxes d in
  let naxes_new := n_rho - convorder - 1 in
  let naxes := replace_nth dim (map c_naxes (c_dims t)) naxes_new in
  let strides := fst (strides_of naxes) in
  let k := c_order d + 1 in
  let q := n - 1 in
  let nrm := norm_with fact flip k q in
  let stride1 := prodn (firstn dim naxes) in
  let stride2 := prodn (skipn (S dim) naxes) in
  let trafo := trafo_matrix nrm (c_knots d) kk rho k q naxes_new naxes_old in
  let coefficients := apply_trafo trafo (c_coef t) stride1 stride2 naxes_old in
  (* if (extents[dim][0] < knots[dim][order[dim]]) extents[dim][0] = rho[0]; else extents[dim][0] = rho[convorder];
     ... extents[dim][1] += conv_knots[0]; *)
  let ext0 := if ltb (fst (c_ext d)) (nth (c_order d) (c_knots d) zero) then nth 0 rho zero else nth convorder rho zero in
  let ext1 := add (snd (c_ext d)) (nth 0 kk zero) in
  let d' := mkCDim convorder rho naxes_new 0 (ext0, ext1) in
  let dims1 := replace_nth dim (c_dims t) d' in
  (* std::copy(strides.get(), strides.get()+ndim, this->strides) *)
  let dims2 := map (fun ds => mkCDim (c_order (fst ds)) (c_knots (fst ds)) (c_naxes (fst ds)) (snd ds) (c_ext (fst ds)))
                   (combine dims1 strides) in
  mkCTable dims2 coefficients.

Definition convolve := convolve_with factorial false.                 (* the current tree *)
Definition convolve_signflip := convolve_with factorial true.         (* after the factorial fix only *)
Definition convolve_shipped := convolve_with factorial_shipped true.  (* as shipped *)

(* ---------------------------------------------------------------------------------------------- *)
(* The same four nested loops written as the code runs them, without positions: the old array is cut into
   [stride1] slabs of [naxes_old] rows of [stride2] cells; for every slab and every row [j] of the transfer matrix
   the target row (stride2 cells, 0.f to begin with) receives, for l = 0,1,..., the update
       for (k < stride2) target[k] += trafo[j][l] * row_l[k]        ([axpy]: double multiply-add stored into a float).
   No [nth] with a computed position, hence linear in the size of the arrays when executed (the positional form above
   costs one list walk per update and is unusable beyond a few thousand coefficients). C14_Rows.v proves
   [apply_trafo_rows = apply_trafo] and [convolve_rows_with = convolve_with] for well-formed tables; the driver runs
   this form, and runs both forms (asserting equality) on every table of at most 2000 coefficients. *)
Fixpoint chunks {X : Type} (n cnt : nat) (l : list X) : list (list X) :=
  match cnt with
  | O => []
  | S c => firstn n l :: chunks n c (skipn n l)
  end.
Fixpoint axpy (t : K) (acc row : list K) : list K :=
  match acc, row with
  | a :: acc1, x :: row1 => rnd (add a (mul t x)) :: axpy t acc1 row1
  | _, _ => []
  end.
Definition target_row (trow : list K) (rows : list (list K)) (stride2 : nat) : list K :=
  fold_left (fun acc tr => axpy (fst tr) acc (snd tr)) (combine trow rows) (repeat zero stride2).
Definition apply_trafo_rows (trafo : list (list K)) (old : list K) (stride1 stride2 naxes_old : nat) : list K :=
  flat_map (fun slab => let rows := chunks stride2 naxes_old slab in
                        flat_map (fun trow => target_row trow rows stride2) trafo)
           (chunks (naxes_old * stride2) stride1 old).

(* [convolve_with] with [apply_trafo_rows] in the place of [apply_trafo]; everything else token for token *)
Definition convolve_rows_with (fact : nat -> Z) (flip : bool) (sort : list K -> list K) (t : ctable) (dim : nat) (kk : list K) : ctable :=
  let d := nth dim (c_dims t) dummy_dim in
  let n := length kk in
  let convorder := c_order d + n - 1 in
  let rho := sort (pairwise_sums (c_knots d) kk) in
  let n_rho := c_nknots d * n in
  let naxes_old := c_naxes d in
  let naxes_new := n_rho - convorder - 1 in
  let naxes := replace_nth dim (map c_naxes (c_dims t)) naxes_new in
  let strides := fst (strides_of naxes) in
  let k := c_order d + 1 in
  let q := n - 1 in
  let nrm := norm_with fact flip k q in
  let stride1 := prodn (firstn dim naxes) in
  let stride2 := prodn (skipn (S dim) naxes) in
  let trafo := trafo_matrix nrm (c_knots d) kk rho k q naxes_new naxes_old in
  let coefficients := apply_trafo_rows trafo (c_coef t) stride1 stride2 naxes_old in
  let ext0 := if ltb (fst (c_ext d)) (nth (c_order d) (c_knots d) zero) then nth 0 rho zero else nth convorder rho zero in
  let ext1 := add (snd (c_ext d)) (nth 0 kk zero) in
  let d' := mkCDim convorder rho naxes_new 0 (ext0, ext1) in
  let dims1 := replace_nth dim (c_dims t) d' in
  let dims2 := map (fun ds => mkCDim (c_order (fst ds)) (c_knots (fst ds)) (c_naxes (fst ds)) (snd ds) (c_ext (fst ds)))
                   (combine dims1 strides) in
  mkCTable dims2 coefficients.
Definition convolve_rows := convolve_rows_with factorial false.
Definition convolve_rows_signflip := convolve_rows_with factorial true.
Definition convolve_rows_shipped := convolve_rows_with factorial_shipped true.

(* the std::sort stand-in used when the model is executed: insertion sort on [leb] *)
Fixpoint insert_sorted (a : K) (l : list K) : list K :=
  match l with
  | [] => [a]
  | b :: r => if leb a b then a :: l else b :: insert_sorted a r
  end.
Definition isort (l : list K) : list K := fold_right insert_sorted [] l.

(* ============================================================================================== *)
(** * well-formedness (boolean) and the view of a [ctable] as an evaluation table *)
Fixpoint sortedb (l : list K) : bool :=
  match l with
  | [] => true
  | a :: r => match r with [] => true | b :: _ => leb a b && sortedb r end
  end.
Fixpoint natlist_eqb (a b : list nat) : bool :=
  match a, b with
  | [], [] => true
  | x :: a1, y :: b1 => (x =? y) && natlist_eqb a1 b1
  | _, _ => false
  end.
Definition wf_dim (d : cdim) : bool :=
  (2 * c_order d + 2 <=? c_nknots d) && (c_naxes d =? c_nknots d - c_order d - 1) && sortedb (c_knots d).
Definition wf_table (t : ctable) : bool :=
  (1 <=? length (c_dims t)) && forallb wf_dim (c_dims t)
  && natlist_eqb (map c_stride (c_dims t)) (fst (strides_of (map c_naxes (c_dims t))))
  && (length (c_coef t) =? prodn (map c_naxes (c_dims t))).

Definition to_eval_table (t : ctable) : table :=
  mkTable (map (fun d => mkDim (c_order d) (Z.of_nat (c_nknots d)) (Z.of_nat (c_naxes d)) (Z.of_nat (c_stride d))
                               (fun z => nth (Z.to_nat z) (c_knots d) zero)) (c_dims t))
          (fun z => nth (Z.to_nat z) (c_coef t) zero).

End Model.
