(* Properties_C05.v — C05: lookup and evaluation are memory-safe for every coordinate vector.
   Statements only; proofs in C05_Proofs.v (and C04_Proofs.v for ordered coordinates).

   What is proved is the LOGIC of memory safety, about the same polymorphic model that is compared bitwise with
   the C++: which centers a lookup can return, which coefficient positions the block walk reads, which knot
   indices the one-dimensional routines depend on, how many gradient lanes are written. That the compiled C++
   performs exactly these accesses is validated on every run by the ASan+UBSan build with assertions enabled
   (tables allocated by the library itself), not proved. *)
From Coq Require Import ZArith List Bool Lia QArith Qcanon.
From PS Require Import Arith EvalModel Generated Dispatch C04_Proofs C05_Proofs.
Import ListNotations.
Local Open Scope Z_scope.

(* ---------------------------------------------------------------------------------------------- *)
(* (A) every coordinate vector — each coordinate non-NaN or NaN ("unordered": every comparison false) *)
Section Lookup.
Context {A : Arith}.
Variable ord : T A -> Prop.
Hypothesis laws : OrdLaws A ord.
Variable t : @table A.
Variable xs : list (T A).
Hypothesis Hwf : Forall (wf_dim ord) (dims t).
Hypothesis Hxs : Forall (fun x => ord x \/ unordered x) xs.
Hypothesis Hlen : length xs = length (dims t).

(* the lookup terminates (never exhausts its iteration budget) and either fails or returns, in every dimension,
   order <= center <= nknots-order-2: a NaN coordinate is always rejected *)
Theorem C05_lookup_fails_or_in_range :
  searchcenters t xs = COutside \/
  exists cs, searchcenters t xs = CFound cs /\ Forall2 center_in_range (dims t) cs.
Proof. exact (lookup_safe_dims ord laws (dims t) xs Hwf Hxs Hlen). Qed.

Theorem C05_nan_rejected : forall (d : @dimn A) (x : T A) fuel, unordered x ->
  search_dim (d_kn d) (d_nknots d) fuel (Z.of_nat (d_order d)) (d_naxes d) x = Outside.
Proof. intros d x fuel U. exact (search_dim_unordered d x fuel U). Qed.
End Lookup.

(* ---------------------------------------------------------------------------------------------- *)
(* (B) coefficient reads. [shape_table t] is the table t with every VALUE forgotten: same orders, knot counts,
   axes lengths and strides, evaluated under the collecting arithmetic LogA in which a value IS the list of
   coefficient positions it was computed from (coefficient at position p := [p]; a + b := positions of a then of
   b; a * b := positions of b, the coefficient factor). core_generic is polymorphic in the arithmetic and its
   control flow (odometer, tablepos) never inspects a value, so the result below is the exact sequence of
   coefficient positions read by ndsplineeval_core for ANY arithmetic and any local-basis values. *)
Definition shape_table {A : Arith} (t : @table A) : @table LogA :=
  @mkTable LogA (map (fun d => @mkDim LogA (d_order d) (d_nknots d) (d_naxes d) (d_stride d) (fun _ => [])) (dims t)) logcf.
Definition shape_bases {A : Arith} (lbs : list (list (T A))) : list (list (T LogA)) := map (map (fun _ => [])) lbs.

Theorem C05_coefficient_reads_in_bounds : forall (A : Arith) (t : @table A) (cs : list Z) (lbs : list (list (T A))),
  dims t <> [] ->
  row_major (map d_naxes (dims t)) (strides_of t) ->                          (* strides are the row-major strides of the axes lengths *)
  length cs = ndim_of t ->
  Forall2 (fun c d => Z.of_nat (d_order d) <= c <= d_naxes d - 1) cs (dims t) ->     (* centers as returned by the lookup *)
  Forall (fun p => 0 <= p < ncoeffs_of (map d_naxes (dims t)) (strides_of t))
         (core_generic (shape_table t) cs (shape_bases lbs)).
Proof.
  intros A t cs lbs Hne Hrm Hcs Hc.
  assert (E1 : map d_naxes (dims (shape_table t)) = map d_naxes (dims t)) by (unfold shape_table; cbn [dims]; rewrite map_map; reflexivity).
  assert (E2 : strides_of (shape_table t) = strides_of t) by (unfold strides_of, shape_table; cbn [dims]; rewrite map_map; reflexivity).
  rewrite <- E1, <- E2. apply core_generic_reads_in_bounds.
  - reflexivity.
  - unfold shape_table; cbn [dims]. destruct (dims t); [congruence|discriminate].
  - rewrite E1, E2. exact Hrm.
  - unfold ndim_of, shape_table in *; cbn [dims]. rewrite map_length. exact Hcs.
  - unfold shape_table; cbn [dims]. clear - Hc. induction Hc; cbn [map]; constructor; [cbn [d_order d_naxes]; assumption|assumption].
Qed.

(* the number of coefficients is what the library allocates: naxes[0]*strides[0] *)
Theorem C05_ncoeffs_is_product : forall ns ss, row_major ns ss -> ncoeffs_of ns ss = fold_right Z.mul 1 ns.
Proof.
  induction ns as [|n ns IH]; intros ss H; destruct ss as [|s ss]; try contradiction; [reflexivity|].
  cbn [row_major] in H. destruct H as [Hn [Hrm Hs]]. specialize (IH ss Hrm).
  unfold ncoeffs_of at 1. cbn [fold_right]. rewrite <- IH, Hs. unfold ncoeffs_of. destruct ns, ss; reflexivity.
Qed.

(* ---------------------------------------------------------------------------------------------- *)
(* (C) knot reads: for ANY arithmetic, with no law whatsoever (comparisons may answer anything, as they do for
   NaN), the one-dimensional routines — including every entry the recurrence computes before the re-indexing
   discards the padding-dependent ones — do not depend on the knot array outside [-order, nknots+order), which is
   the block the library allocates (allocate(nknots+2*order) + order). *)
Section Knots.
Context {A : Arith}.
Variables kn kn' : Z -> T A.
Variable nknots : Z.
Variable n : nat.
Hypothesis Hagree : forall i, - Z.of_nat n <= i < nknots + Z.of_nat n -> kn i = kn' i.
Hypothesis Hn : 0 <= nknots.
Variable x : T A.
Variable c : Z.
Hypothesis Hc : Z.of_nat n <= c <= nknots - Z.of_nat n - 2.

Theorem C05_knot_reads_within_allocation :
  bsplvb_simple kn nknots n x c = bsplvb_simple kn' nknots n x c /\
  bspline_deriv_nonzero kn nknots n x c = bspline_deriv_nonzero kn' nknots n x c /\
  bspline_nonzero kn nknots n x c = bspline_nonzero kn' nknots n x c /\
  (forall i k, (i <= n)%nat -> bspline_deriv kn n x (c - Z.of_nat n + Z.of_nat i) k = bspline_deriv kn' n x (c - Z.of_nat n + Z.of_nat i) k /\
                               bspline_deriv_left kn n x (c - Z.of_nat n + Z.of_nat i) k = bspline_deriv_left kn' n x (c - Z.of_nat n + Z.of_nat i) k) /\
  (let l := adjust_left kn nknots (Z.of_nat n) x c in
   l = adjust_left kn' nknots (Z.of_nat n) x c /\ -1 <= l <= nknots - 1 /\
   deboor_rounds kn l x 0 n [rnd one] = deboor_rounds kn' l x 0 n [rnd one]).
Proof.
  split; [exact (bsplvb_simple_indep kn kn' nknots n Hagree x c Hc)|].
  split; [exact (bspline_deriv_nonzero_indep kn kn' nknots n Hagree x c Hc)|].
  split; [exact (bspline_nonzero_indep kn kn' nknots n Hagree x c Hc)|].
  split.
  - intros i k Hi. split; [apply (bspline_deriv_indep kn kn' nknots n Hagree x); lia|apply (bspline_deriv_left_indep kn kn' nknots n Hagree x); lia].
  - cbv zeta. destruct (adjust_left_indep kn kn' nknots n Hagree x c Hc) as [E B].
    split; [exact E|]. split; [exact B|].
    apply (deboor_rounds_indep kn kn' nknots n Hagree _ x B); cbn [length]; lia.
Qed.
End Knots.

(* ---------------------------------------------------------------------------------------------- *)
(* (D) the gradient: either refused, or its ndim+1 results fit the lanes of the accumulator — an obligation over the
   constants TRANSLATED from detail/simd.h on every run *)
Theorem C05_gradient_lanes_fit : (MAXDIM <= gradient_lanes_available)%nat.
Proof. vm_compute. repeat constructor. Qed.
Theorem C05_gradient_refused_or_fits : forall (A : Arith) (t : @table A) xs cs,
  match gradient_checked t xs cs with
  | None => (MAXDIM < S (ndim_of t))%nat
  | Some g => (length g = S (ndim_of t) /\ length g <= gradient_lanes_available)%nat
  end.
Proof.
  intros A t xs cs. unfold gradient_checked. destruct (Nat.ltb_spec MAXDIM (S (ndim_of t))) as [H|H]; [exact H|].
  unfold ndsplineeval_gradient. cbv zeta. rewrite map_length, seq_length. split; [reflexivity|].
  pose proof C05_gradient_lanes_fit. lia.
Qed.

(* ---------------------------------------------------------------------------------------------- *)
(* non-vacuity: a 2 x 3-dimensional shape (orders 1 and 2, axes 4 and 5, strides 5 and 1) with in-range centers;
   the positions read are the 2*3 block starting at (1-1)*5 + (3-2) *)
Definition ex5_tab : @table QcA :=
  @mkTable QcA [@mkDim QcA 1%nat 6 4 5 (fun i => Q2Qc (inject_Z i)); @mkDim QcA 2%nat 8 5 1 (fun i => Q2Qc (inject_Z i))] (fun _ => Q2Qc 1).
Example C05_hypotheses_satisfiable :
  row_major (map d_naxes (dims ex5_tab)) (strides_of ex5_tab) /\
  Forall2 (fun c d => Z.of_nat (d_order d) <= c <= d_naxes d - 1) [1; 3] (dims ex5_tab) /\
  ncoeffs_of (map d_naxes (dims ex5_tab)) (strides_of ex5_tab) = 20 /\
  core_generic (shape_table ex5_tab) [1; 3] (shape_bases (A := QcA) [[Q2Qc 1; Q2Qc 1]; [Q2Qc 1; Q2Qc 1; Q2Qc 1]]) = [1; 2; 3; 6; 7; 8].
Proof.
  split; [cbn; repeat split; lia|]. split; [repeat constructor; cbn; lia|]. split; vm_compute; reflexivity.
Qed.

Print Assumptions C05_lookup_fails_or_in_range.
Print Assumptions C05_nan_rejected.
Print Assumptions C05_coefficient_reads_in_bounds.
Print Assumptions C05_ncoeffs_is_product.
Print Assumptions C05_knot_reads_within_allocation.
Print Assumptions C05_gradient_lanes_fit.
Print Assumptions C05_gradient_refused_or_fits.
Print Assumptions C05_hypotheses_satisfiable.
