(* Properties_C05.v — statements for C05; being filled in *)
From Coq Require Import ZArith List.
From PS Require Import Arith EvalModel BSpline.
