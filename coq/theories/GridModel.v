(* GridModel.v — executable model of grid evaluation (C17), polymorphic in [Arith]. No proofs in this file.
   Sources modelled, statement by statement:
     include/photospline/detail/grideval.h : splinetable::grideval
     src/fitter/splineutil.c               : bspline ([bspline_guarded]: since fix 07dbb30 the static function drops a
                                             Cox-de Boor term whose denominator vanishes; before that it was, token for
                                             token, src/core/bspline.cpp's bspline = EvalModel.bspline, which still
                                             models the core function; since fix F30_1 it carries the flag [left] for the
                                             side of the order-0 indicator), bsplinebasis (passes
                                             x[row] >= knots[nsplines] as that flag), slicemultiply
     include/photospline/splinetable.h     : photospline::ndsparse (constructor checks, insertEntry)
   The n-dimensional sparse array [struct ndsparse] is what it is in the code: a list of rows (index tuple, value)
   plus the index ranges. CHOLMOD (an external library, trusted) is modelled by what its documentation states:
     cholmod_l_dense_to_sparse (values=1)   keeps exactly the entries that are != 0;
     cholmod_l_transpose (values=1)         array transpose;
     cholmod_l_triplet_to_sparse            entry (i,j) is the SUM of the triplets at (i,j); stored iff a triplet exists;
     cholmod_l_ssmult (values=1)            C = A*B; C(i,j) stored iff some k has A(i,k) and B(k,j) both stored, its
                                            value the sum over those k (in an order CHOLMOD does not specify; the
                                            model sums k upwards — which is why sums are never compared bitwise);
     cholmod_l_sparse_to_triplet            lists the stored entries (in an unspecified order; here column-major).
   Integer arithmetic is unbounded ([nat]); the code's [int] cols/stride would wrap for >= 2^31 grid cells. *)
From Coq Require Import ZArith List Bool Lia.
From PS Require Import Arith EvalModel BSpline.
Import ListNotations.

Section Grid.
Context {A : Arith}.
Notation K := (T A).

(* C: x != 0  (true for NaN) *)
Definition nonzeroK (x : K) : bool := negb (eqbK x zero).

Fixpoint lsumK {X} (f : X -> K) (l : list X) : K :=
  match l with [] => zero | x :: r => add (f x) (lsumK f r) end.
Definition nsum (n : nat) (f : nat -> K) : K := lsumK f (seq 0 n).

Fixpoint upd {X} (l : list X) (i : nat) (v : X) : list X :=
  match l, i with
  | [], _ => []
  | _ :: r, O => v :: r
  | x :: r, S i' => x :: upd r i' v
  end.
Fixpoint idx_eqb (a b : list nat) : bool :=
  match a, b with
  | [], [] => true
  | x :: a', y :: b' => (x =? y)%nat && idx_eqb a' b'
  | _, _ => false
  end.

(** * struct ndsparse *)
Record ndsparse := mkND {
  nd_ranges  : list nat;                 (* ranges[ndim] *)
  nd_entries : list (list nat * K);      (* row e: (i[0][e], ..., i[ndim-1][e]), x[e] *)
}.
(* the array a list of rows denotes: the sum of the rows carrying that index tuple, 0 when there is none *)
Definition nd_get (a : ndsparse) (g : list nat) : K :=
  lsumK (fun e => if idx_eqb (fst e) g then snd e else zero) (nd_entries a).
Definition nd_listed (a : ndsparse) (g : list nat) : bool :=
  existsb (fun e => idx_eqb (fst e) g) (nd_entries a).

(** * splineutil.c: static double bspline(knots, x, i, n, left)
      double a = 0, b = 0;
      if (n == 0) return (left ? (x > knots[i] && x <= knots[i+1]) : (x >= knots[i] && x < knots[i+1])) ? 1.0 : 0.0;
      if (knots[i+n]   != knots[i])   a = (x - knots[i])*bspline(knots, x, i, n-1, left) / (knots[i+n] - knots[i]);
      if (knots[i+n+1] != knots[i+1]) b = (knots[i+n+1] - x)*bspline(knots, x, i+1, n-1, left) / (knots[i+n+1] - knots[i+1]);
      return a + b;
    C's [p != q] on doubles is [negb (eqbK p q)] (true when either is NaN, false for +0 against -0).
    [left = false] is the function as it was before fix F30_1 (right-continuous everywhere). *)
Fixpoint bspline_guarded (kn : Z -> K) (left : bool) (n : nat) (x : K) (i : Z) : K :=
  match n with
  | O => if (if left then gtb x (kn i) && leb x (kn (i + 1)%Z) else geb x (kn i) && ltb x (kn (i + 1)%Z)) then one else zero
  | S n1 =>
      let nz := Z.of_nat n in
      add (if eqbK (kn (i + nz)%Z) (kn i) then zero
           else div (mul (sub x (kn i)) (bspline_guarded kn left n1 x i)) (sub (kn (i + nz)%Z) (kn i)))
          (if eqbK (kn (i + nz + 1)%Z) (kn (i + 1)%Z) then zero
           else div (mul (sub (kn (i + nz + 1)%Z) x) (bspline_guarded kn left n1 x (i + 1)%Z))
                    (sub (kn (i + nz + 1)%Z) (kn (i + 1)%Z)))
  end.

(** * bsplinebasis(knots, nknots, x, npts, order): npts rows, nsplines = nknots-order-1 columns,
      entry (row, col) = bspline(knots, x[row], col, order, x[row] >= knots[nsplines])
    (C's [x >= k] is [geb x k]: false when unordered, so a NaN abscissa takes the right-continuous branch) *)
Definition nsplines (d : @dimn A) : nat := Z.to_nat (d_nknots d - Z.of_nat (d_order d) - 1).
Definition basis_left (d : dimn) (x : K) : bool := geb x (d_kn d (Z.of_nat (nsplines d))).
Definition basis_matrix (d : dimn) (xs : list K) : list (list K) :=
  map (fun x => map (fun col => bspline_guarded (d_kn d) (basis_left d x) (d_order d) x (Z.of_nat col)) (seq 0 (nsplines d))) xs.
(* bsplinebasis as it was before fix F30_1: bspline(knots, x[row], col, order) right-continuous everywhere. Not used by
   the model of the current code; the object of C17_refuted_right_continuous_basis (former finding D30). *)
Definition basis_matrix_rc (d : dimn) (xs : list K) : list (list K) :=
  map (fun x => map (fun col => bspline_guarded (d_kn d) false (d_order d) x (Z.of_nat col)) (seq 0 (nsplines d))) xs.
Definition mget (m : list (list K)) (r c : nat) : K := nth c (nth r m []) zero.

(** * slicemultiply(a, b, dim) with bt = transpose(b) given as the list of its rows [bt] (npts rows) and
      b->nrow = [bnrow] *)
(* the values of k % ndim for k = dim+1 .. dim+ndim-1 *)
Definition rot (ndim dim : nat) : list nat := map (fun k => k mod ndim) (seq (dim + 1) (ndim - 1)).

(* cols = 1; for (i = 0; i < ndim; i++) if (i != dim) cols *= ranges[i]; *)
Definition cols_of (ranges : list nat) (dim : nat) : nat :=
  fold_left (fun acc ir => if (fst ir =? dim)%nat then acc else acc * snd ir) (combine (seq 0 (length ranges)) ranges) 1.

(* stride = 1; j = 0; for (k = dim+ndim-1; k > dim; k--) { j += stride*idx[k%ndim]; stride *= ranges[k%ndim]; } *)
Definition flatcol (ndim dim : nat) (ranges idx : list nat) : nat :=
  snd (fold_left (fun sc l => (fst sc * nth l ranges 0, snd sc + fst sc * nth l idx 0)) (rev (rot ndim dim)) (1, 0)).

(* stride = 1; for (k = dim+ndim-1; k > dim; k--) stride *= ranges[k%ndim]; *)
Definition rot_stride (ndim dim : nat) (ranges : list nat) : nat :=
  fold_left (fun stride l => stride * nth l ranges 0) (rev (rot ndim dim)) 1.

(* i[dim] = row; j = col; for (k = dim+1; k < dim+ndim; k++) { stride /= ranges[k%ndim]; i[k%ndim] = j/stride; j = j % stride; } *)
Definition unflat_step (ranges : list nat) (st : nat * nat * list nat) (l : nat) : nat * nat * list nat :=
  let '(stride, j, idx) := st in
  let stride' := stride / nth l ranges 0 in
  (stride', j mod stride', upd idx l (j / stride')).
Definition unflat (ndim dim : nat) (ranges : list nat) (row col : nat) : list nat :=
  snd (fold_left (unflat_step ranges) (rot ndim dim) (rot_stride ndim dim ranges, col, upd (repeat 0 ndim) dim row)).

Definition trip := (nat * nat * K)%type.
Definition t_row (t : trip) : nat := fst (fst t).
Definition t_col (t : trip) : nat := snd (fst t).
Definition t_val (t : trip) : K := snd t.

(* first loop: one triplet per row of a *)
Definition section_triplets (ndim dim : nat) (a : ndsparse) : list trip :=
  map (fun e => (nth dim (fst e) 0, flatcol ndim dim (nd_ranges a) (fst e), snd e)) (nd_entries a).
(* cholmod_l_triplet_to_sparse *)
Definition sec_at (ts : list trip) (k c : nat) : bool * K :=
  (existsb (fun t => (t_row t =? k)%nat && (t_col t =? c)%nat) ts,
   lsumK (fun t => if (t_row t =? k)%nat && (t_col t =? c)%nat then t_val t else zero) ts).
(* cholmod_l_ssmult(bt, ssection): entry (r, c) *)
Definition prod_at (bt : list (list K)) (bnrow : nat) (ts : list trip) (r c : nat) : bool * K :=
  (existsb (fun k => nonzeroK (mget bt r k) && fst (sec_at ts k c)) (seq 0 bnrow),
   nsum bnrow (fun k => if nonzeroK (mget bt r k) && fst (sec_at ts k c) then mul (mget bt r k) (snd (sec_at ts k c)) else zero)).
(* cholmod_l_sparse_to_triplet: the stored entries *)
Definition prod_triplets (bt : list (list K)) (bnrow : nat) (ts : list trip) (cols : nat) : list trip :=
  flat_map (fun c => flat_map (fun r => let p := prod_at bt bnrow ts r c in if fst p then [(r, c, snd p)] else [])
                              (seq 0 (length bt))) (seq 0 cols).

Definition slicemultiply (a : ndsparse) (bnrow : nat) (bt : list (list K)) (dim : nat) : ndsparse :=
  let ranges := nd_ranges a in
  let ndim := length ranges in
  if negb (bnrow =? nth dim ranges 0)%nat then a           (* return -1: a untouched (grideval ignores the code) *)
  else
    let ts := section_triplets ndim dim a in
    let ps := prod_triplets bt bnrow ts (cols_of ranges dim) in
    let ranges' := upd ranges dim (length bt) in           (* a->ranges[dim] = b->ncol *)
    mkND ranges' (map (fun t => (unflat ndim dim ranges' (t_row t) (t_col t), t_val t)) ps).

(** * splinetable::grideval *)
(* indices[dim] = coord / strides[dim]; coord = coord % strides[dim]; *)
Fixpoint decomp (strides : list Z) (coord : Z) : list nat :=
  match strides with
  | [] => []
  | s :: ss => Z.to_nat (coord / s) :: decomp ss (coord mod s)
  end.
Definition table_size (t : @table A) : nat :=
  match dims t with [] => O | d :: _ => Z.to_nat (d_naxes d * d_stride d) end.
Definition coeff_entries (t : table) : list (list nat * K) :=
  filter (fun e => nonzeroK (snd e))
         (map (fun i => (decomp (strides_of t) (Z.of_nat i), coef t (Z.of_nat i))) (seq 0 (table_size t))).
Definition initial_nd (t : table) : ndsparse :=
  mkND (map (fun d => Z.to_nat (d_naxes d)) (dims t)) (coeff_entries t).

(* for (i = 0; i < ndim; i++) { basis = bsplinebasis(...); basist = transpose(basis); slicemultiply(nd, basist, i); } *)
Fixpoint grid_loop (i : nat) (ds : list dimn) (grids : list (list K)) (a : ndsparse) : ndsparse :=
  match ds, grids with
  | d :: ds', xs :: gs' => grid_loop (S i) ds' gs' (slicemultiply a (nsplines d) (basis_matrix d xs) i)
  | _, _ => a
  end.

Inductive grid_result := GThrow | GOk (a : ndsparse).
Definition grideval (t : table) (grids : list (list K)) : grid_result :=
  if negb (length grids =? ndim_of t)%nat then GThrow                      (* coords.size() != ndim *)
  else if (length (coeff_entries t) =? 0)%nat || (ndim_of t =? 0)%nat then GThrow   (* ndsparse(nnz, ndim) constructor *)
  else GOk (grid_loop 0 (dims t) grids (initial_nd t)).

(** * the specification: sum over ALL coefficients of coefficient times the product over dimensions of the
      Cox–de Boor function taken with the one-sided convention of the evaluation properties ([BSpline.side_of]:
      right-continuous below knots[naxes], left-continuous from there upwards). It is [BSpline.spline_spec] without the
      skipping of vanishing factors (C17_Proofs.grid_is_spline_spec). *)
Fixpoint tensor_sum_grid (cf : Z -> K) (ds : list dimn) (xs : list K) (pos : Z) (pr : K) : K :=
  match ds, xs with
  | d :: ds', x :: xs' =>
      sum_range (fun i => tensor_sum_grid cf ds' xs' (pos + i * d_stride d) (mul pr (Bfun (d_kn d) (side_of d x) (d_order d) i x)))
                0 (Z.to_nat (d_naxes d))
  | _, _ => mul pr (cf pos)
  end.
Definition grid_spec (t : table) (xs : list K) : K := tensor_sum_grid (coef t) (dims t) xs 0 one.
(* the same with every term replaced by its absolute value: the scale of the measured rounding bound *)
Fixpoint tensor_abs_grid (cf : Z -> K) (ds : list dimn) (xs : list K) (pos : Z) (pr : K) : K :=
  match ds, xs with
  | d :: ds', x :: xs' =>
      sum_range (fun i => tensor_abs_grid cf ds' xs' (pos + i * d_stride d) (mul pr (absK (Bfun (d_kn d) (side_of d x) (d_order d) i x))))
                0 (Z.to_nat (d_naxes d))
  | _, _ => mul pr (absK (cf pos))
  end.
Definition grid_abs (t : table) (xs : list K) : K := tensor_abs_grid (coef t) (dims t) xs 0 one.
(* the grid point addressed by a multi-index *)
Fixpoint grid_point (grids : list (list K)) (g : list nat) : list K :=
  match grids, g with
  | xs :: gs', i :: g' => nth i xs zero :: grid_point gs' g'
  | _, _ => []
  end.

End Grid.
