(* C09_Glam.v — theorem (3), part 1: slicemultiply (rotate - flatten - multiply - unflatten, as the code does it)
   is the mode-`dim' product of the n-dimensional array with b^T, for every number of dimensions. *)
From Coq Require Import ZArith NArith List Bool Lia Field Ring FMapPositive.
From PS Require Import Arith EvalModel BSpline OFieldKit FitModel C09_LinAlg C09_Penalty C09_Index.
Import ListNotations.

Section Glam.
Context {A : Arith}.
Variable F : OField A.
Notation K := (T A).
Add Field Kfield_c09glam : (OFth F).

(* the array an ndsparse denotes: entries with equal index are summed *)
Definition idx_eqb (a b : list N) : bool := if list_eq_dec N.eq_dec a b then true else false.
Definition aget (a : ndarr) (idx : list N) : K :=
  sumK (map (fun e => if idx_eqb (fst e) idx then snd e else zero) (nd_entries a)).
Definition valid_arr (a : @ndarr A) : Prop := Forall (fun e => valid_idx (nd_ranges a) (fst e)) (nd_entries a).

Lemma idx_eqb_true a b : idx_eqb a b = true <-> a = b.
Proof. unfold idx_eqb. destruct (list_eq_dec N.eq_dec a b); split; congruence. Qed.
Lemma ind_ext (b1 b2 : bool) (x : K) : (b1 = true <-> b2 = true) -> (if b1 then x else zero) = (if b2 then x else zero).
Proof. destruct b1, b2; intros [H1 H2]; try reflexivity; [discriminate (H1 eq_refl) | discriminate (H2 eq_refl)]. Qed.

(* ---------------------------------------------------------------------------------------------- *)
(* sums *)
Lemma sumK_app (l1 l2 : list K) : sumK (l1 ++ l2) = add (sumK l1) (sumK l2).
Proof. unfold sumK. induction l1 as [|a l1 IH]; cbn [app fold_right]; [ring | rewrite IH; ring]. Qed.
Lemma sumK_map_flat_map {X Y} (g : Y -> K) (f : X -> list Y) (l : list X) :
  sumK (map g (flat_map f l)) = sumK (map (fun x => sumK (map g (f x))) l).
Proof.
  induction l as [|a l IH]; [reflexivity|]. cbn [flat_map map]. rewrite map_app, sumK_app, IH. reflexivity.
Qed.
Lemma sumK_zero {X} (g : X -> K) (l : list X) : (forall x, In x l -> g x = zero) -> sumK (map g l) = zero.
Proof.
  induction l as [|a l IH]; intro H; [reflexivity|]. cbn [map]. unfold sumK in *. cbn [fold_right].
  rewrite (H a (or_introl eq_refl)), IH by (intros x Hx; apply H; right; exact Hx). ring.
Qed.
Lemma sumK_ext_in {X} (g h : X -> K) (l : list X) : (forall x, In x l -> g x = h x) -> sumK (map g l) = sumK (map h l).
Proof. intro H. f_equal. apply map_ext_in. exact H. Qed.
Lemma sum_indicator_seq (f : nat -> K) c0 : forall n a, (a <= c0 < a + n)%nat ->
  sumK (map (fun c => if Nat.eqb c c0 then f c else zero) (seq a n)) = f c0.
Proof.
  induction n as [|n IH]; intros a H; [lia|]. cbn [seq map]. unfold sumK in *. cbn [fold_right].
  destruct (Nat.eqb_spec a c0) as [E|N0].
  - subst. fold (sumK (map (fun c => if Nat.eqb c c0 then f c else zero) (seq (S c0) n))).
    rewrite sumK_zero; [ring|]. intros x Hx. apply in_seq in Hx. destruct (Nat.eqb_spec x c0); [lia | reflexivity].
  - rewrite IH by lia. ring.
Qed.
Lemma sum_indicator_Nseq (f : N -> K) (j0 m : N) : (j0 < m)%N ->
  sumK (map (fun j => if N.eqb j j0 then f j else zero) (Nseq m)) = f j0.
Proof.
  intro H. unfold Nseq. rewrite map_map.
  rewrite (sumK_ext_in _ (fun k => if Nat.eqb k (N.to_nat j0) then f (N.of_nat k) else zero)).
  - rewrite (sum_indicator_seq (fun k => f (N.of_nat k)) (N.to_nat j0)) by lia. rewrite N2Nat.id. reflexivity.
  - intros k _. apply ind_ext. rewrite N.eqb_eq, Nat.eqb_eq. lia.
Qed.
Lemma in_Nseq j m : In j (Nseq m) <-> (j < m)%N.
Proof.
  unfold Nseq. rewrite in_map_iff. split.
  - intros [k [<- Hk]]. apply in_seq in Hk. lia.
  - intro H. exists (N.to_nat j). split; [apply N2Nat.id | apply in_seq; lia].
Qed.

(* ---------------------------------------------------------------------------------------------- *)
(* cholmod_l_triplet_to_sparse: the accumulator returns the sum of the values with the given key *)
Lemma key_inj a b : key a = key b -> a = b.
Proof. unfold key. intro H. apply (f_equal N.pos) in H. rewrite !N.succ_pos_spec in H. lia. Qed.
Lemma getm_add (m : PositiveMap.t K) k k' v : getm (PositiveMap.add (key k') v m) k = if N.eqb k' k then v else getm m k.
Proof.
  unfold getm. destruct (N.eqb_spec k' k) as [->|Hne].
  - rewrite PositiveMap.gss. reflexivity.
  - rewrite PositiveMap.gso; [reflexivity|]. intro E. apply Hne. symmetry. apply key_inj. exact E.
Qed.
Lemma accum_spec (kvs : list (N * K)) k :
  getm (accum kvs) k = sumK (map (fun kv => if N.eqb (fst kv) k then snd kv else zero) kvs).
Proof.
  unfold accum.
  assert (G : forall (kvs : list (N * K)) (m : PositiveMap.t K), getm (fold_left (fun m kv => PositiveMap.add (key (fst kv)) (add (getm m (fst kv)) (snd kv)) m) kvs m) k
                            = add (getm m k) (sumK (map (fun kv => if N.eqb (fst kv) k then snd kv else zero) kvs))).
  { clear kvs. intro kvs. induction kvs as [|[k' v] kvs IH]; intro m; cbn [fold_left map fst snd].
    - unfold sumK. cbn. ring.
    - rewrite IH, getm_add. unfold sumK. cbn [fold_right]. destruct (N.eqb_spec k' k) as [->|_]; ring. }
  rewrite G. unfold getm at 1. rewrite PositiveMap.gempty. ring.
Qed.

(* ---------------------------------------------------------------------------------------------- *)
(* more index facts *)
Lemma rot_set_nth {X} (d : X) dim x (l : list X) : (dim < length l)%nat -> rot dim (set_nth dim x l) = rot dim l.
Proof.
  intro H. destruct (split_at d dim l H) as [P [Q [E [L1 L2]]]]. rewrite E.
  rewrite (set_nth_mid dim P Q _ x L1), !(rot_mid dim P Q _ L1). reflexivity.
Qed.
Lemma nth_set_nth {X} (d : X) dim x (l : list X) : (dim < length l)%nat -> nth dim (set_nth dim x l) d = x.
Proof.
  intro H. destruct (split_at d dim l H) as [P [Q [E [L1 L2]]]]. rewrite E.
  rewrite (set_nth_mid dim P Q _ x L1). apply nth_mid. exact L1.
Qed.
Lemma valid_nth rs idx dim : valid_idx rs idx -> (dim < length rs)%nat -> (nth dim idx 0 < nth dim rs 0)%N.
Proof.
  intro H. revert dim. induction H as [|i r idx' rs' Hi H IH]; intros [|dim] Hd; cbn [length nth] in *; try lia. apply IH. lia.
Qed.
Lemma valid_set_nth rs idx dim r : valid_idx rs idx -> (r < nth dim rs 0)%N -> valid_idx rs (set_nth dim r idx).
Proof.
  intro H. revert dim. induction H as [|i r' idx' rs' Hi H IH]; intros [|dim] Hr; cbn [set_nth nth] in *; try (constructor; fail).
  - constructor; [exact Hr | exact H].
  - constructor; [exact Hi | apply IH; exact Hr].
Qed.
Lemma mixed_key_inj (cols a x r y : N) : (x < cols)%N -> (y < cols)%N -> (a * cols + x = r * cols + y)%N <-> (a = r /\ x = y).
Proof.
  intros Hx Hy. split; [|intros [-> ->]; reflexivity]. intro E.
  apply (N.div_mod_unique cols a r x y Hx Hy). rewrite !(N.mul_comm cols). exact E.
Qed.

(* ---------------------------------------------------------------------------------------------- *)
(* slicemultiply *)
Theorem slicemultiply_spec (a : ndarr) (b : list (list K)) (ncolb dim : nat) (idx : list N) :
  (dim < length (nd_ranges a))%nat ->
  valid_arr a ->
  valid_idx (set_nth dim (N.of_nat ncolb) (nd_ranges a)) idx ->
  aget (slicemultiply a b ncolb dim) idx
  = dot (col (N.to_nat (nth dim idx 0%N)) b)
        (map (fun r => aget a (set_nth dim r idx)) (Nseq (nth dim (nd_ranges a) 0%N))).
Proof.
  intros Hdim Hva Hvi.
  set (rs := nd_ranges a) in *. set (ndim := length rs). set (rr := rot dim rs). set (cols := prodN rr).
  set (c0 := N.to_nat (nth dim idx 0%N)). set (j0 := flat rr (rot dim idx)).
  assert (Li : length idx = ndim) by (rewrite (valid_idx_length _ _ Hvi), set_nth_length; reflexivity).
  assert (Hvr : valid_idx rr (rot dim idx)).
  { unfold rr. rewrite <- (rot_set_nth 0%N dim (N.of_nat ncolb) rs Hdim). apply valid_rot. exact Hvi. }
  assert (Hj0 : (j0 < cols)%N) by (apply flat_lt'; exact Hvr).
  assert (Hc0 : (c0 < ncolb)%nat).
  { pose proof (valid_nth _ _ dim Hvi) as H. rewrite set_nth_length in H. specialize (H Hdim).
    rewrite (nth_set_nth 0%N dim _ rs Hdim) in H. unfold c0. lia. }
  unfold aget at 1. unfold slicemultiply. fold rs. fold ndim. fold rr. fold cols. cbn [nd_entries].
  set (sect := accum _).
  rewrite sumK_map_flat_map.
  (* the inner sums *)
  rewrite (sumK_ext_in _ (fun j => if N.eqb j j0
             then dot (nth c0 (transpose ncolb b) []) (map (fun r => getm sect (r * cols + j)%N) (Nseq (nth dim rs 0%N))) else zero)).
  2:{ intros j Hj. apply in_Nseq in Hj. rewrite map_map. cbn [fst snd].
      assert (Lt : length (unflat rr j) = (ndim - 1)%nat) by (rewrite unflat_length; unfold rr; apply rot_length; exact Hdim).
      rewrite (sumK_ext_in _ (fun c => if N.eqb j j0 then (if Nat.eqb c c0 then
                 dot (nth c (transpose ncolb b) []) (map (fun r => getm sect (r * cols + j)%N) (Nseq (nth dim rs 0%N))) else zero) else zero)).
      - destruct (N.eqb j j0).
        + apply (sum_indicator_seq (fun c => dot (nth c (transpose ncolb b) []) (map (fun r => getm sect (r * cols + j)%N) (Nseq (nth dim rs 0%N))))). lia.
        + apply sumK_zero. reflexivity.
      - intros c _.
        transitivity (if (N.eqb j j0 && Nat.eqb c c0)%bool then dot (nth c (transpose ncolb b) []) (map (fun r => getm sect (r * cols + j)%N) (Nseq (nth dim rs 0%N))) else zero).
        2:{ destruct (N.eqb j j0), (Nat.eqb c c0); reflexivity. }
        apply ind_ext. rewrite idx_eqb_true, andb_true_iff, N.eqb_eq, Nat.eqb_eq.
        rewrite (unrot_eq_iff 0%N dim ndim _ _ idx) by (try exact Lt; try exact Li; exact Hdim).
        split.
        + intros [E1 E2]. split; [|unfold c0; lia]. unfold j0. rewrite <- E2. symmetry. apply flat_unflat. exact Hj.
        + intros [E1 E2]. split; [unfold c0 in E2; lia|]. subst j. unfold j0. apply unflat_flat. exact Hvr. }
  rewrite (sum_indicator_Nseq (fun j => dot (nth c0 (transpose ncolb b) []) (map (fun r => getm sect (r * cols + j)%N) (Nseq (nth dim rs 0%N)))) j0 cols Hj0).
  (* the section column *)
  unfold transpose. rewrite (nth_map_seq (fun j => col j b) ncolb c0 [] Hc0). fold c0. f_equal.
  apply map_ext_in. intros r Hr. apply in_Nseq in Hr.
  unfold sect. rewrite accum_spec, map_map. cbn [fst snd]. unfold aget.
  apply sumK_ext_in. intros e He. apply ind_ext.
  unfold valid_arr in Hva. rewrite Forall_forall in Hva. specialize (Hva e He). fold rs in Hva.
  assert (Hve : valid_idx rr (rot dim (fst e))) by (apply valid_rot; exact Hva).
  rewrite N.eqb_eq, idx_eqb_true.
  rewrite (mixed_key_inj cols _ _ r j0) by (try exact Hj0; apply flat_lt'; exact Hve).
  rewrite (eq_set_nth_iff 0%N dim r idx (fst e)) by (rewrite ?(valid_idx_length _ _ Hva); fold ndim; lia).
  split.
  - intros [E1 E2]. split; [exact E1|]. apply (flat_inj rr); assumption.
  - intros [E1 E2]. split; [exact E1|]. unfold j0. rewrite E2. reflexivity.
Qed.

(* slicemultiply keeps the array well-formed, so the per-axis theorem can be chained over the dimensions *)
Lemma valid_unrot (rs tail : list N) dim (c x : N) : (dim < length rs)%nat -> valid_idx (rot dim rs) tail -> (c < x)%N ->
  valid_idx (set_nth dim x rs) (unrot dim (length rs) c tail).
Proof.
  intros Hd Hv Hc. destruct (split_at 0%N dim rs Hd) as [P [Q [E [L1 L2]]]]. rewrite L2. rewrite E in Hv |- *.
  rewrite (rot_mid dim P Q _ L1) in Hv. rewrite (set_nth_mid dim P Q _ x L1).
  unfold valid_idx in Hv. apply Forall2_app_inv_r in Hv. destruct Hv as [tq [tp [Hq [Hp ->]]]].
  assert (Ltp : length tp = dim) by (rewrite (valid_idx_length _ _ Hp); exact L1).
  assert (Ltq : length tq = length Q) by (apply (valid_idx_length _ _ Hq)).
  rewrite <- Ltq. rewrite (unrot_mid dim tp tq c Ltp). unfold valid_idx. apply Forall2_app; [exact Hp|]. constructor; [exact Hc | exact Hq].
Qed.
Lemma slicemultiply_ranges (a : @ndarr A) b ncolb dim :
  nd_ranges (slicemultiply a b ncolb dim) = set_nth dim (N.of_nat ncolb) (nd_ranges a).
Proof. reflexivity. Qed.
Lemma slicemultiply_valid (a : @ndarr A) b ncolb dim : (dim < length (nd_ranges a))%nat -> valid_arr (slicemultiply a b ncolb dim).
Proof.
  intro Hd. unfold valid_arr. rewrite slicemultiply_ranges. unfold slicemultiply. cbn [nd_entries]. rewrite Forall_forall.
  intros e He. apply in_flat_map in He. destruct He as [j [Hj He]]. apply in_map_iff in He. destruct He as [c [<- Hc]].
  cbn [fst]. apply in_Nseq in Hj. apply in_seq in Hc. apply valid_unrot; [exact Hd | apply unflat_valid; exact Hj | lia].
Qed.

End Glam.
