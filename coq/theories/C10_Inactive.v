(* C10_Inactive.v — consequences of C10_Congruence.fit_system_mono_is_congruence for the second sentence of C10:

     * the objective of the T-basis system at the T-spline coefficients a is C09's penalised objective at c = Lbig a;
     * A_T = Lbig' A_B Lbig and r_T = Lbig' r_B as operators, (A_B, r_B) = FitModel.fit_system (the system of the unconstrained fit);
     * if the unconstrained minimiser c* (A_B c* = r_B) is Lbig z for some z >= 0 (its increments along the monotonic dimension
       are non-negative: the constraint is inactive), then z solves the T-basis system, z is the only KKT point of the
       non-negative least-squares problem (C11_kkt_unique), so every KKT point x that NNLS returns has Lbig x = c*:
       the monotone fit returns the coefficients of the unconstrained fit.

   FitModel (C09) and NnlsModel (C11) each have their own list linear algebra; [dotF_dotN] / [matvec_mv] identify them. *)
From Coq Require Import ZArith NArith List Bool Lia Field Ring PeanoNat.
From PS Require Import Arith EvalModel BSpline OFieldKit FitModel C09_LinAlg C09_Penalty C09_Index C09_Glam C09_Kron C09_Top.
From PS Require Import Generated_nnls NnlsModel C11_Spec C11_KKT_Proofs MonoModel MonoFitModel C10_Cumsum C10_Proofs C10_Congruence.
Import ListNotations.

Section Inactive.
Context {A : Arith}.
Variable F : OField A.
Notation K := (T A).
Add Field Kfield_c10inact : (OFth F).
Notation le := (@OFieldKit.le A).

(* ---- the two vocabularies ------------------------------------------------------------------------------------ *)
Lemma dotF_dotN : forall u v : list K, FitModel.dot u v = NnlsModel.dot u v.
Proof. reflexivity. Qed.
Lemma matvec_mv (M : list (list K)) (v : list K) : matvec M v = mv M v.
Proof. unfold matvec, mv. apply map_ext. intro r. apply dotF_dotN. Qed.

(* ---- objective and operators ---------------------------------------------------------------------------------- *)
Section System.
Variable dims : list (@dimspec A).
Variable md : nat.
Variable smoothing : list K.
Variable porders : list nat.
Variable data : list (list N * K * K).
Hypothesis Hdims : dims <> [].
Hypothesis Hdata : Forall (fun e => valid_idx (map (fun d => N.of_nat (length (ds_coords d))) dims) (fst (fst e))) data.

Let ns := map ds_nsplines dims.
Let n := fold_right Nat.mul 1%nat ns.
Let L := @Lbig A ns md.
Let E := objective_triples dims smoothing porders data.
Let ET := map (tripleT L n) E.
Let sysB := fit_system dims smoothing porders data.
Let sysT := fit_system_mono dims md smoothing porders data.

Lemma ns_ne : ns <> [].
Proof. unfold ns. destruct dims; [congruence | discriminate]. Qed.
Lemma L_rows : rows_len n L.
Proof. exact (Lbig_shape ns md ns_ne). Qed.

Lemma sysB_is : sysB = (nmat n E, nrhs n E) /\ wf_rows n E.
Proof. exact (fit_system_is_normal_system F dims smoothing porders data Hdata). Qed.
Lemma sysT_is : sysT = (nmat n ET, nrhs n ET) /\ wf_rows n ET.
Proof. exact (fit_system_mono_is_congruence F dims md smoothing porders data Hdims Hdata). Qed.

(* J_T(a) = J_B(Lbig a): data term and every penalty term, in the coefficients c = Lbig a *)
Theorem mono_objective (a : list K) : length a = n ->
  wrss ET a = add (wrss (data_triples dims data) (matvec L a)) (wrss (pen_triples dims smoothing porders) (matvec L a)).
Proof.
  intro Ha. unfold ET. rewrite (wrss_tripleT F L n E a L_rows Ha). unfold E, objective_triples. apply (wrss_app F).
Qed.

(* A_T = Lbig' A_B Lbig,  r_T = Lbig' r_B  (a row vector times Lbig = Lbig' applied to it) *)
Theorem mono_system_operator :
  (forall a, length a = n -> matvec (fst sysT) a = vecmat (matvec (fst sysB) (matvec L a)) L n)
  /\ snd sysT = vecmat (snd sysB) L n.
Proof.
  destruct sysB_is as [HB HwB]. destruct sysT_is as [HT _]. rewrite HB, HT. cbn [fst snd]. split.
  - intros a Ha. unfold ET. apply (matvec_nmat_tripleT F L n n E a L_rows Ha HwB).
  - unfold ET. apply (nrhs_tripleT F L n n E HwB).
Qed.

(* the increments of the unconstrained solution solve the T-basis system *)
Theorem mono_system_solution (cstar z : list K) : length z = n ->
  matvec (fst sysB) cstar = snd sysB -> matvec L z = cstar -> matvec (fst sysT) z = snd sysT.
Proof.
  intros Hz Hc HL. destruct mono_system_operator as [H1 H2]. rewrite (H1 z Hz), HL, Hc, H2. reflexivity.
Qed.

(* the matrix of the T-basis system: shape, symmetric as a form *)
Lemma sysT_shape : wf_mat n (fst sysT).
Proof.
  destruct sysT_is as [HT HwT]. rewrite HT. cbn [fst]. destruct (nmat_shape n ET HwT) as [H1 H2]. split; assumption.
Qed.
Lemma sysT_sym_form : sym_form (fst sysT).
Proof.
  destruct sysT_is as [HT HwT]. rewrite HT. cbn [fst]. intros u v.
  change (FitModel.dot u (matvec (nmat n ET) v) = FitModel.dot v (matvec (nmat n ET) u)).
  rewrite (dot_matvec_nmat F n ET v u HwT), (dot_matvec_nmat F n ET u v HwT). apply sumK_ext_in. intros e _. ring.
Qed.
Lemma sysT_rhs_length : length (snd sysT) = n.
Proof. destruct sysT_is as [HT HwT]. rewrite HT. cbn [snd]. apply (nrhs_length n ET HwT). Qed.

Hypothesis ofZ_two : @ofZ A 2 = add one one.

(* THE SECOND SENTENCE, for the model in exact arithmetic: every number of dimensions, every monotonic dimension.
   [C09_LinAlg.spd n (fst sysT)]: the T-basis normal matrix is positive definite (its quadratic form is the one of the B-basis
   matrix at Lbig d, mono_system_operator). *)
Theorem inactive_fit_returns_unconstrained (cstar z x : list K) :
  C09_LinAlg.spd n (fst sysT) ->
  length z = n -> length x = n ->
  matvec (fst sysB) cstar = snd sysB ->          (* c*: the solution of C09's normal equations, the unconstrained minimiser *)
  matvec L z = cstar -> C11_Spec.nonneg z ->      (* c* = Lbig z with z >= 0: non-negative increments along md, constraint inactive *)
  kkt (fst sysT) (snd sysT) x ->                  (* x: a KKT point of min 1/2 a'A_T a - r_T'a over a >= 0 (what NNLS returns) *)
  x = z /\ matvec L x = cstar.
Proof.
  intros Hspd Hz Hx Hc HL Hn Hk.
  assert (Hxz : x = z).
  { apply (kkt_unique_form F ofZ_two n (fst sysT) (snd sysT) x z sysT_shape sysT_sym_form).
    - intros v Hv Hv0. exact (Hspd v Hv Hv0).
    - exact sysT_rhs_length.
    - exact Hx.
    - exact Hz.
    - exact Hk.
    - apply (solution_is_kkt F).
      + rewrite <- matvec_mv. exact (mono_system_solution cstar z Hz Hc HL).
      + rewrite sysT_rhs_length. exact Hz.
      + exact Hn. }
  split; [exact Hxz | rewrite Hxz; exact HL].
Qed.

(* ... and c* = Lbig z is then the minimiser of the penalised objective among ALL coefficient vectors of the form Lbig a,
   constrained or not (C09_normal_eq_minimise on the T-basis triples) *)
Theorem mono_solution_minimises (z : list K) : length z = n ->
  Forall (fun e => le zero (snd e)) data -> Forall (fun l => le zero l) smoothing ->
  matvec (fst sysT) z = snd sysT ->
  forall a, length a = n -> le (wrss E (matvec L z)) (wrss E (matvec L a)).
Proof.
  intros Hz Hw Hs Hsol a Ha. destruct sysT_is as [HT HwT]. rewrite HT in Hsol. cbn [fst snd] in Hsol.
  assert (Hnn : nonneg_weights ET).
  { unfold ET. apply tripleT_nonneg. unfold E, objective_triples, nonneg_weights. apply Forall_app. split.
    - unfold data_triples. apply Forall_map. exact Hw.
    - apply (pen_triples_nonneg F). exact Hs. }
  destruct (normal_eq_minimise F n ET z HwT Hnn Hz Hsol a Ha) as [_ [H _]].
  unfold ET in H. rewrite !(wrss_tripleT F L n E _ L_rows) in H by assumption. exact H.
Qed.
End System.

(* ---- no monotonic dimension: calc_penalty is unchanged ------------------------------------------------------------ *)
Theorem calc_penalty_mono_none (nsplines : list nat) (kn : nat -> K) dim order porder md : length nsplines <= md ->
  dim < length nsplines ->
  calc_penalty_mono nsplines kn dim order porder md = calc_penalty nsplines kn dim order porder.
Proof.
  intros Hmd Hdim. unfold calc_penalty_mono, calc_penalty. cbv zeta.
  replace (Nat.eqb md dim) with false by (symmetry; apply Nat.eqb_neq; lia).
  match goal with |- match map ?f ?l with _ => _ end = match map ?g ?l with _ => _ end => assert (Hm : map f l = map g l) end.
  { apply map_ext_in. intros i Hi. apply in_seq in Hi. destruct (Nat.eqb i dim); [reflexivity|].
    replace (Nat.eqb i md) with false by (symmetry; apply Nat.eqb_neq; lia). reflexivity. }
  rewrite Hm. reflexivity.
Qed.

End Inactive.

(* ---- evaluating at Qc: equality of computed Qc matrices through their canonical fractions ------------------------------ *)
From Coq Require Import QArith Qcanon.
Lemma qc_this_inj (a b : Qc) : this a = this b -> a = b.
Proof. intro H. apply Qc_is_canon. rewrite H. reflexivity. Qed.
Lemma qc_list_this_inj : forall l l' : list Qc, map this l = map this l' -> l = l'.
Proof.
  induction l as [|a l IH]; intros [|b l'] H; cbn [map] in H; try discriminate; [reflexivity|].
  injection H as H1 H2. f_equal; [apply qc_this_inj; exact H1 | apply IH; exact H2].
Qed.
Lemma qc_mat_this_inj : forall M M' : list (list Qc), map (map this) M = map (map this) M' -> M = M'.
Proof.
  induction M as [|r M IH]; intros [|r' M'] H; cbn [map] in H; try discriminate; [reflexivity|].
  injection H as H1 H2. f_equal; [apply qc_list_this_inj; exact H1 | apply IH; exact H2].
Qed.
