(* placeholder, replaced below *)
From PS Require Import GridModel.
