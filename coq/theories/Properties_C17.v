(* Properties_C17.v — C17: grid evaluation agrees with pointwise evaluation.
   Statements only; proofs are in C17_Index.v (mixed-radix index arithmetic of slicemultiply) and C17_Proofs.v.

   The model (GridModel.v) transcribes splinetable::grideval, bsplinebasis and slicemultiply; the n-d sparse array is,
   as in the code, a list of (index tuple, value) rows with index ranges; [nd_get a g] is the value the list denotes
   at g (sum of the rows carrying g, 0 when none does), [nd_listed a g] says whether a row carries g.
   Statements hold over EVERY ordered field (Arith.OField); Qc is the executed instance. The same polymorphic term at
   IEEE binary64 is compared with the C/C++ on every run (basis matrices bitwise, stored index sets exactly, values
   within a measured rounding bound — CHOLMOD's summation order is unspecified). *)
From Coq Require Import ZArith List Bool Lia QArith Qcanon.
From PS Require Import Arith EvalModel BSpline C04_Proofs OFieldKit C01_Proofs GridModel C17_Index C17_Proofs C02_Proofs C17_Upper.
Import ListNotations.
Local Open Scope nat_scope.

(* ---------------------------------------------------------------------------------------------- *)
(** * index arithmetic of slicemultiply, any number of dimensions, any dim *)
Section C17_index.
Variables ndim dim : nat.
Variable ranges : list nat.
Hypothesis Hdim : dim < ndim.
Hypothesis Hpos : forall l, l < ndim -> l <> dim -> 0 < nth l ranges 0.      (* no empty axis among the others *)

(* "rotate so that dim is at the front, then flatten" followed by "unflatten and rotate back" is the identity on index
   tuples within the ranges ... *)
Theorem C17_unflatten_flatten : forall g, length g = ndim -> in_rot_range ndim dim ranges g ->
  unflat ndim dim ranges (nth dim g 0) (flatcol ndim dim ranges g) = g.
Proof. exact (unflat_flatcol ndim dim ranges Hdim Hpos). Qed.
(* ... and the other way round on (row, column) pairs, the unflattened tuple lying within the ranges *)
Theorem C17_flatten_unflatten : forall row col, col < prodl (rradix ndim dim ranges) ->
  flatcol ndim dim ranges (unflat ndim dim ranges row col) = col /\
  nth dim (unflat ndim dim ranges row col) 0 = row /\
  length (unflat ndim dim ranges row col) = ndim /\
  in_rot_range ndim dim ranges (unflat ndim dim ranges row col).
Proof.
  intros row col H. split; [exact (flatcol_unflat ndim dim ranges Hdim Hpos row col H)|].
  split; [exact (unflat_dim ndim dim ranges Hdim Hpos row col H)|].
  split; [exact (unflat_length ndim dim ranges Hdim Hpos row col) | exact (unflat_in_range ndim dim ranges Hdim Hpos row col H)].
Qed.
(* the column count computed by the loop over i != dim is the number of flattened columns *)
Theorem C17_cols : length ranges = ndim -> cols_of ranges dim = prodl (rradix ndim dim ranges).
Proof. exact (cols_of_rot ndim dim ranges Hdim). Qed.
End C17_index.

(* ---------------------------------------------------------------------------------------------- *)
(** * slicemultiply is the mode-dim product *)
Section C17_slice.
Context {A : Arith}.
Variable F : OField A.
Variable a : @ndsparse A.
Variable bt : list (list (T A)).            (* transpose(b): one row per new index value, b->nrow columns *)
Variable dim : nat.
Hypothesis Hwf : wf_nd a.                                           (* every listed index tuple lies within the ranges *)
Hypothesis Hdim : dim < length (nd_ranges a).
Hypothesis Hpos : forall l, l < length (nd_ranges a) -> l <> dim -> 0 < nth l (nd_ranges a) 0.   (* no empty axis *)

(* for EVERY index tuple g: new(g) = sum_k bt[g_dim][k] * old(g with g_dim := k); both sides are 0 outside the new ranges *)
Theorem C17_slicemultiply_is_mode_product : forall g,
  nd_get (slicemultiply a (nth dim (nd_ranges a) 0) bt dim) g =
  nsum (nth dim (nd_ranges a) 0) (fun k => mul (mget bt (nth dim g 0) k) (nd_get a (upd g dim k))).
Proof. exact (slicemultiply_get F a bt dim Hwf Hdim Hpos). Qed.
Theorem C17_slicemultiply_shape :
  nd_ranges (slicemultiply a (nth dim (nd_ranges a) 0) bt dim) = upd (nd_ranges a) dim (length bt) /\
  wf_nd (slicemultiply a (nth dim (nd_ranges a) 0) bt dim).
Proof. split; [exact (sm_ranges a bt dim) | exact (sm_wf a bt dim Hdim Hpos)]. Qed.
End C17_slice.

(* ---------------------------------------------------------------------------------------------- *)
(** * grid evaluation *)
Section C17_grid.
Context {A : Arith}.
Variable F : OField A.
Variable t : @table A.
Variable grids : list (list (T A)).
Variable s : Z.
Variable a : @ndsparse A.
Hypothesis Hwf : Forall wfd (dims t).       (* >= 2*order+2 knots, naxes = nknots-order-1, knots NON-DECREASING (repeated knots allowed) *)
Hypothesis HRM : RM (dims t) s.             (* row-major strides: stride_d = prod of the later naxes *)
Hypothesis Hgne : Forall (fun xs : list (T A) => xs <> []) grids.     (* no empty grid axis (single-point axes are fine) *)
Hypothesis Hev : grideval t grids = GOk a.  (* did not throw: one grid per dimension, some coefficient nonzero *)

(* the index ranges are the grid lengths; every grid entry is the tensor-product sum over ALL coefficients with the
   Cox–de Boor functions (0/0 := 0) of the stored orders on the stored knots, taken with the one-sided convention of the
   evaluation properties (BSpline.side_of: right-continuous below knots[naxes], left-continuous from there upwards — since
   fix F30_1 bsplinebasis passes exactly that side), evaluated at the grid abscissae; outside the ranges the array is 0; an
   entry that is not listed is 0 and so is the sum there *)
Theorem C17_grideval_spec :
  nd_ranges a = map (@length (T A)) grids /\
  (forall g, grid_in g grids -> nd_get a g = grid_spec t (grid_point grids g)) /\
  (forall g, ~ in_ranges (map (@length (T A)) grids) g -> nd_get a g = zero) /\
  (forall g, grid_in g grids -> nd_listed a g = false -> nd_get a g = zero /\ grid_spec t (grid_point grids g) = zero).
Proof.
  split; [exact (grideval_ranges F t grids s a Hwf HRM Hgne Hev)|].
  split; [exact (grideval_spec F t grids s a Hwf HRM Hgne Hev)|].
  split; [exact (grideval_outside F t grids s a Hwf HRM Hgne Hev) | exact (grideval_unlisted F t grids s a Hwf HRM Hgne Hev)].
Qed.

(* agreement with pointwise evaluation, ONE statement for every grid point: wherever center lookup succeeds (first knot < x
   <= last knot in every dimension, C04 — the last knot included) the grid entry IS ndsplineeval at that point. No
   hypothesis about the side of knots[naxes], about knot multiplicities or about orders is left: knots of any multiplicity
   (jumps of the spline included), order 0, points exactly on the last knot are all covered, because both sides are the same
   specification sum (C01's spline_spec). The one hypothesis is C01's own [eval_regular]: in no dimension is the fully
   supported range the single point x_d (knots[order] = ... = knots[naxes] = x_d — there POINTWISE evaluation departs from
   the specification: C01_refuted_without_regularity, C17_regularity_needed below). *)
Theorem C17_agrees_pointwise : forall g cs, grid_in g grids ->
  searchcenters t (grid_point grids g) = CFound cs ->
  Forall2 eval_regular (dims t) (grid_point grids g) ->
  nd_get a g = ndsplineeval t (grid_point grids g) cs 0.
Proof. exact (grideval_agrees_pointwise F t grids s a Hwf HRM Hgne Hev). Qed.

(* the same with a condition on the table alone: the fully supported range has positive width in every dimension
   (knots[order] < knots[naxes]) — then at EVERY grid point at which center lookup succeeds *)
Theorem C17_agrees_pointwise_nondegenerate : Forall full_support_nonempty (dims t) ->
  forall g cs, grid_in g grids ->
  searchcenters t (grid_point grids g) = CFound cs ->
  nd_get a g = ndsplineeval t (grid_point grids g) cs 0.
Proof. exact (grideval_agrees_pointwise_nondegenerate F t grids s a Hwf HRM Hgne Hev). Qed.
End C17_grid.

(* the specification sum of grid evaluation is C01's specification sum (which merely skips vanishing factors), at every
   point whatsoever, and hence pointwise evaluation wherever C01's theorem applies — independently of any grid *)
Theorem C17_spec_is_spline_spec : forall (A : Arith) (F : OField A) (t : @table A) (xs : list (T A)),
  length xs = length (dims t) -> grid_spec t xs = spline_spec t xs (repeat O (ndim_of t)).
Proof. intros A F. exact (grid_is_spline_spec F). Qed.
Theorem C17_spec_is_pointwise : forall (A : Arith) (F : OField A) (t : @table A) (xs : list (T A)) (cs : list Z),
  dims t <> [] -> Forall wfd (dims t) -> nth (ndim_of t - 1) (strides_of t) 0%Z = 1%Z -> length xs = length (dims t) ->
  searchcenters t xs = CFound cs -> Forall2 eval_regular (dims t) xs ->
  grid_spec t xs = ndsplineeval t xs cs 0.
Proof. intros A F. exact (grid_spec_pointwise F). Qed.

(* splineutil.c's bspline (GridModel.bspline_guarded: the recursion that skips a term whose denominator vanishes, as the
   code does since fix 07dbb30, with the flag for the side of the order-0 indicator it has since fix F30_1) IS the Cox–de Boor
   function with the 0/0 := 0 convention, right-continuous for left = 0 and left-continuous for left != 0 — for EVERY knot
   sequence (repeated knots, any multiplicity, even unsorted), every order, every index and every x: nothing is excluded.
   And every entry of the matrix bsplinebasis builds (flag x[row] >= knots[nknots-order-1]) is the SPECIFICATION's basis
   function [Bfun kn (side_of d x) order col x] — the very term of BSpline.spline_spec.
   Before fix 07dbb30 the function divided 0/0 on repeated knots (former finding D23); the corresponding statement about the
   unguarded recursion survives as C17_Proofs.bspline_Bfun (src/core/bspline.cpp's bspline). *)
Theorem C17_bspline_is_cox_de_boor : forall (A : Arith) (F : OField A) (kn : Z -> T A),
  forall left x n i, bspline_guarded kn left n x i = Bfun kn (negb left) n i x.
Proof. intros A F kn left x. exact (bspline_guarded_Bfun F kn left x). Qed.
Theorem C17_basis_is_spec_basis : forall (A : Arith) (F : OField A) (d : @dimn A) (xs : list (T A)) (r k : nat),
  wfd d -> r < length xs -> k < nsplines d ->
  mget (basis_matrix d xs) r k = Bfun (d_kn d) (side_of d (nth r xs zero)) (d_order d) (Z.of_nat k) (nth r xs zero).
Proof. intros A F. exact (basis_entry F). Qed.

(* what fix F30_1 does NOT change: on a dimension of order >= 1 with strictly increasing knots bsplinebasis returns, for
   EVERY abscissa, exactly the matrix the right-continuous basis gave (B-splines of order >= 1 are continuous there) — for
   the fitter as well as for grid evaluation. Changed are only rows of abscissae at or above knots[naxes] on dimensions of
   order 0 or with repeated knots (see the two examples at the end). *)
Theorem C17_basis_unchanged_on_strict_knots : forall (A : Arith) (F : OField A) (d : @dimn A) (xs : list (T A)),
  wfd d -> 1 <= d_order d -> strict_dim d -> basis_matrix d xs = basis_matrix_rc d xs.
Proof. intros A F. exact (basis_unchanged_strict F). Qed.

(* ---------------------------------------------------------------------------------------------- *)
(** * non-vacuity: a 2-dimensional table (orders 2 and 1, sparse coefficients) on exact rationals, an unsorted grid with a
      repeated abscissa, a point in the left margin and a point outside the knot range *)
Definition qz17 (z : Z) : Qc := Q2Qc (inject_Z z).
Definition ex_d0 : @dimn QcA := @mkDim QcA 2%nat 8 5 3 qz17.          (* order 2, knots 0..7, 5 coefficients, stride 3 *)
Definition ex_d1 : @dimn QcA := @mkDim QcA 1%nat 5 3 1 qz17.          (* order 1, knots 0..4, 3 coefficients, stride 1 *)
Definition ex_tab : @table QcA := @mkTable QcA [ex_d0; ex_d1] (fun i => if Z.even i then qz17 (i + 1) else qz17 0).
Definition ex_grids : list (list Qc) := [[Q2Qc (7 # 2); Q2Qc (1 # 2); Q2Qc (7 # 2); qz17 9]; [Q2Qc (5 # 2); Q2Qc (3 # 2)]].

Lemma qz17_mono i j : (i <= j)%Z -> le (A := QcA) (qz17 i) (qz17 j).
Proof.
  intro H. unfold le, qz17. cbn [leb QcA]. apply Qc_leb_le. unfold Qcle. cbn [this Q2Qc].
  rewrite !Qred_correct. rewrite <- Zle_Qle. exact H.
Qed.
Lemma ex_wf : Forall (@wfd QcA) (dims ex_tab).
Proof.
  constructor; [|constructor; [|constructor]]; unfold wfd, wf_dim, ex_d0, ex_d1; cbn [d_order d_nknots d_naxes d_kn];
  (split; [lia|]); (split; [lia|]); (split; [auto|]); intros i j Hi Hij Hj; apply qz17_mono; exact Hij.
Qed.
Lemma ex_RM : RM (dims ex_tab) 15.
Proof.
  change 15%Z with (d_naxes ex_d0 * 3)%Z. constructor; [| reflexivity | cbn; lia].
  change 3%Z with (d_naxes ex_d1 * 1)%Z. constructor; [constructor | reflexivity | cbn; lia].
Qed.
Lemma ex_gne : Forall (fun xs : list Qc => xs <> []) ex_grids.
Proof. constructor; [discriminate|]. constructor; [discriminate|constructor]. Qed.

Example C17_hypotheses_satisfiable :
  exists a, grideval ex_tab ex_grids = GOk a /\
            nd_ranges a = [4; 2]%nat /\
            nd_get a [0; 1]%nat = grid_spec ex_tab [Q2Qc (7 # 2); Q2Qc (3 # 2)] /\
            nd_get a [0; 1]%nat = Q2Qc (29 # 8) /\                  (* interior point *)
            nd_get a [1; 0]%nat = Q2Qc (3 # 16) /\                   (* left margin of dimension 0 *)
            nd_listed a [3; 0]%nat = false /\                         (* abscissa 9 lies outside the knot range: not listed *)
            nd_get a [0; 1]%nat = ndsplineeval ex_tab [Q2Qc (7 # 2); Q2Qc (3 # 2)] [3; 1]%Z 0.
Proof.
  destruct (grideval ex_tab ex_grids) as [|a] eqn:E; [vm_compute in E; discriminate|].
  exists a. split; [reflexivity|].
  destruct (C17_grideval_spec QcA_OField ex_tab ex_grids 15 a ex_wf ex_RM ex_gne E) as [R [G _]].
  split; [rewrite R; reflexivity|].
  assert (Hin : grid_in (A := QcA) [0; 1]%nat ex_grids) by (constructor; [cbn; lia | constructor; [cbn; lia | constructor]]).
  split; [exact (G _ Hin)|].
  assert (Ea : a = match grideval ex_tab ex_grids with GOk a0 => a0 | GThrow => a end) by (rewrite E; reflexivity).
  split; [rewrite Ea; vm_compute; reflexivity|].
  split; [rewrite Ea; vm_compute; reflexivity|].
  split; [rewrite Ea; vm_compute; reflexivity|].
  apply (C17_agrees_pointwise QcA_OField ex_tab ex_grids 15 a ex_wf ex_RM ex_gne E _ _ Hin).
  - vm_compute. reflexivity.
  - constructor; [intros _; vm_compute; reflexivity|]. constructor; [intros _; vm_compute; reflexivity|constructor].
Qed.

(* a grid point with SOME coordinate beyond the last knot of its (well-formed) dimension has specification value zero, whatever the
   other coordinates. With C17_grideval_spec (an entry is the specification value at the coordinates of ITS grid point) this is why
   a grid of 2^31 and more points, all but a handful of whose abscissae per axis lie beyond the last knot, must list exactly the
   entries of the small grid made of that handful, re-indexed — the statement the check evaluates on such grids. *)
From PS Require C17_Beyond.
Theorem C17_beyond_last_knot_is_zero : forall (A : Arith) (F : OField A) (t : @table A) (xs : list (T A)),
  C17_Beyond.some_beyond (dims t) xs -> grid_spec t xs = zero.
Proof. intros A F t xs H. exact (C17_Beyond.grid_spec_beyond_last_knot F t xs H). Qed.

(* ... put together: what the check evaluates on grids of 2^31 and more points. For a huge grid G and a small grid S of the same table,
   an entry of G whose grid point has the coordinates of a grid point of S equals that entry of S, and an entry of G with some
   coordinate beyond the last knot is zero — so G's result is S's result re-indexed and nothing else. *)
Theorem C17_huge_grid_is_small_grid_reindexed : forall (A : Arith) (F : OField A) (t : @table A) (G S : list (list (T A))) (s : Z)
  (aG aS : @ndsparse A),
  Forall wfd (dims t) -> RM (dims t) s ->
  Forall (fun xs : list (T A) => xs <> []) G -> Forall (fun xs : list (T A) => xs <> []) S ->
  grideval t G = GOk aG -> grideval t S = GOk aS ->
  (forall g h, grid_in g S -> grid_in h G -> grid_point G h = grid_point S g -> nd_get aG h = nd_get aS g) /\
  (forall h, grid_in h G -> C17_Beyond.some_beyond (dims t) (grid_point G h) -> nd_get aG h = zero).
Proof.
  intros A F t G S s aG aS Hwf HRM HG HS EG ES.
  destruct (C17_grideval_spec F t G s aG Hwf HRM HG EG) as [_ [SG _]].
  destruct (C17_grideval_spec F t S s aS Hwf HRM HS ES) as [_ [SS _]].
  split.
  - intros g h Hg Hh E. rewrite (SG h Hh), (SS g Hg), E. reflexivity.
  - intros h Hh Hb. rewrite (SG h Hh). exact (C17_beyond_last_knot_is_zero A F t _ Hb).
Qed.

Example C17_beyond_example :       (* abscissa 9 in dimension 0 (knots 0..7), any abscissa in dimension 1 *)
  C17_Beyond.some_beyond (dims ex_tab) [qz17 9; Q2Qc (3 # 2)] /\ grid_spec ex_tab [qz17 9; Q2Qc (3 # 2)] = Q2Qc 0.
Proof.
  assert (H : C17_Beyond.some_beyond (dims ex_tab) [qz17 9; Q2Qc (3 # 2)]).
  { left. split; [exact (Forall_inv ex_wf)|]. vm_compute. reflexivity. }
  split; [exact H|]. exact (C17_beyond_last_knot_is_zero QcA QcA_OField ex_tab _ H).
Qed.

(* the hypotheses of the slicemultiply theorem hold for the array grideval starts from *)
Example C17_slice_hypotheses_satisfiable :
  wf_nd (initial_nd ex_tab) /\ 0 < length (nd_ranges (initial_nd ex_tab)) /\
  (forall l, l < length (nd_ranges (initial_nd ex_tab)) -> l <> 0 -> 0 < nth l (nd_ranges (initial_nd ex_tab)) 0) /\
  nd_get (slicemultiply (initial_nd ex_tab) 5 (basis_matrix ex_d0 [Q2Qc (7 # 2)]) 0) [0; 2]%nat = Q2Qc (27 # 4).
Proof.
  split; [apply (initial_wf ex_tab 15); [discriminate | exact ex_RM]|].
  split; [cbn; lia|]. split; [intros [|[|l]] H1 H2; cbn in *; lia|]. vm_compute. reflexivity.
Qed.

(* order 0 AT the last knot (the last knot belongs to the last interval): before fix F30_1 the basis row was identically
   zero there (the right-continuous indicator excludes the last knot: grid evaluation gave 0, a data point there was ignored
   by the fit) while pointwise evaluation gives the last coefficient; now both give the last coefficient *)
Definition ex0_d : @dimn QcA := @mkDim QcA 0%nat 4 3 1 qz17.
Definition ex0_tab : @table QcA := @mkTable QcA [ex0_d] (fun i => qz17 (i + 1)).
Example C17_last_knot_agrees :
  searchcenters ex0_tab [qz17 3] = CFound [2%Z] /\ ndsplineeval ex0_tab [qz17 3] [2%Z] 0 = qz17 3 /\
  grid_spec ex0_tab [qz17 3] = qz17 3 /\
  basis_matrix ex0_d [qz17 3] = [[qz17 0; qz17 0; qz17 1]] /\
  basis_matrix_rc ex0_d [qz17 3] = [[qz17 0; qz17 0; qz17 0]] /\
  exists a, grideval ex0_tab [[qz17 3]] = GOk a /\ nd_get a [0]%nat = qz17 3.
Proof.
  split; [vm_compute; reflexivity|]. split; [vm_compute; reflexivity|]. split; [vm_compute; reflexivity|].
  split; [vm_compute; reflexivity|]. split; [vm_compute; reflexivity|].
  destruct (grideval ex0_tab [[qz17 3]]) as [|a] eqn:E; [vm_compute in E; discriminate|].
  exists a. split; [reflexivity|].
  assert (Ea : a = match grideval ex0_tab [[qz17 3]] with GOk a0 => a0 | GThrow => a end) by (rewrite E; reflexivity).
  rewrite Ea; vm_compute; reflexivity.
Qed.

(* former finding D30 (C17:{grideval,splinetable_grideval}:one-sided-limits-differ-at-discontinuity; corpus/C17/
   jump_at_upper_end.json): order 2, knots 956 983 1017 1094 1094 1180 1180 1180 1275 1275 (the finding's example times
   1000), coefficients 1..7, x = 1180 = knots[naxes]: a knot of multiplicity order+1 strictly inside the knot range, where the
   spline jumps from coefficient 5 (index 4) to coefficient 6 (index 5). Pointwise evaluation is left-continuous from
   knots[naxes] upwards and returns 5. The RIGHT-continuous basis bsplinebasis used before fix F30_1 has its 1 in column 5:
   its grid value was 6, the other one-sided limit — refuted as a model of agreement; the basis of the fixed code has the 1
   in column 4, and grid evaluation returns 5 = the specification = ndsplineeval (by C17_agrees_pointwise, whose hypotheses
   hold). *)
Definition exj_kn (z : Z) : Qc :=
  qz17 (nth (Z.to_nat z) [956; 983; 1017; 1094; 1094; 1180; 1180; 1180; 1275; 1275]%Z 1275%Z).
Definition exj_d : @dimn QcA := @mkDim QcA 2%nat 10 7 1 exj_kn.
Definition exj_tab : @table QcA := @mkTable QcA [exj_d] (fun i => qz17 (i + 1)).
Definition exj_grids : list (list Qc) := [[qz17 1180]].
Definition row_value (row : list Qc) (t : @table QcA) : Qc :=
  lsumK (A := QcA) (fun k => @mul QcA (nth k row (qz17 0)) (coef t (Z.of_nat k))) (seq 0 (length row)).
Theorem C17_refuted_right_continuous_basis :
  Forall (@wfd QcA) (dims exj_tab) /\ RM (dims exj_tab) 7 /\
  @ltb QcA (exj_kn 0) (qz17 1180) = true /\ @ltb QcA (qz17 1180) (exj_kn 9) = true /\   (* strictly inside the range *)
  searchcenters exj_tab [qz17 1180] = CFound [4%Z] /\
  ndsplineeval exj_tab [qz17 1180] [4%Z] 0 = qz17 5 /\
  spline_spec exj_tab [qz17 1180] [O] = qz17 5 /\
  (* the basis as it was: the other one-sided limit *)
  basis_matrix_rc exj_d [qz17 1180] = [[qz17 0; qz17 0; qz17 0; qz17 0; qz17 0; qz17 1; qz17 0]] /\
  row_value (nth 0 (basis_matrix_rc exj_d [qz17 1180]) []) exj_tab = qz17 6 /\
  row_value (nth 0 (basis_matrix_rc exj_d [qz17 1180]) []) exj_tab <> ndsplineeval exj_tab [qz17 1180] [4%Z] 0 /\
  (* the basis as it is *)
  basis_matrix exj_d [qz17 1180] = [[qz17 0; qz17 0; qz17 0; qz17 0; qz17 1; qz17 0; qz17 0]] /\
  exists a, grideval exj_tab exj_grids = GOk a /\ nd_get a [0]%nat = qz17 5 /\
            nd_get a [0]%nat = ndsplineeval exj_tab [qz17 1180] [4%Z] 0.
Proof.
  assert (W : Forall (@wfd QcA) (dims exj_tab)).
  { constructor; [|constructor]. unfold wfd, wf_dim, exj_d; cbn [d_order d_nknots d_naxes d_kn].
    split; [lia|]. split; [lia|]. split; [auto|]. intros i j Hi Hij Hj. unfold exj_kn. apply qz17_mono.
    assert (Hi' : (Z.to_nat i < 10)%nat) by lia. assert (Hj' : (Z.to_nat j < 10)%nat) by lia.
    assert (Hij' : (Z.to_nat i <= Z.to_nat j)%nat) by lia.
    revert Hi' Hj' Hij'. generalize (Z.to_nat i) as p. generalize (Z.to_nat j) as q. intros q p Hp Hq Hpq.
    do 10 (destruct p as [|p]; [do 10 (destruct q as [|q]; [cbn [nth]; lia|]); lia|]). lia. }
  assert (R : RM (dims exj_tab) 7).
  { change 7%Z with (d_naxes exj_d * 1)%Z. constructor; [constructor | reflexivity | cbn; lia]. }
  assert (G : Forall (fun xs : list Qc => xs <> []) exj_grids) by (constructor; [discriminate|constructor]).
  split; [exact W|]. split; [exact R|].
  split; [vm_compute; reflexivity|]. split; [vm_compute; reflexivity|]. split; [vm_compute; reflexivity|].
  split; [vm_compute; reflexivity|]. split; [vm_compute; reflexivity|]. split; [vm_compute; reflexivity|].
  split; [vm_compute; reflexivity|]. split; [vm_compute; discriminate|]. split; [vm_compute; reflexivity|].
  destruct (grideval exj_tab exj_grids) as [|a] eqn:E; [vm_compute in E; discriminate|].
  exists a. split; [reflexivity|].
  assert (Ea : a = match grideval exj_tab exj_grids with GOk a0 => a0 | GThrow => a end) by (rewrite E; reflexivity).
  split; [rewrite Ea; vm_compute; reflexivity|].
  assert (Hin : grid_in (A := QcA) [0]%nat exj_grids) by (constructor; [cbn; lia | constructor]).
  apply (C17_agrees_pointwise QcA_OField exj_tab exj_grids 7 a W R G E _ _ Hin).
  - vm_compute. reflexivity.
  - constructor; [intros _; vm_compute; reflexivity|constructor].
Qed.

(* the remaining hypothesis [eval_regular] cannot be dropped, and the departure is on the POINTWISE side (C01's open residual
   C01:x==knots[order]==knots[naxes]): order 2, knots 0 1 2 2 2 2 3 4 — the fully supported range is the single point 2 —
   all coefficients 1, x = 2: the specification and grid evaluation give 1 (partition of unity), pointwise evaluation runs
   its recurrence on a zero-width span *)
Definition exd_kn (i : Z) : Qc := qz17 (if (i <? 2)%Z then i else if (i <? 6)%Z then 2 else i - 3).
Definition exd_tab : @table QcA := @mkTable QcA [@mkDim QcA 2%nat 8 5 1 exd_kn] (fun _ => qz17 1).
Theorem C17_regularity_needed :
  searchcenters exd_tab [qz17 2] = CFound [2%Z] /\
  ~ eval_regular (A := QcA) (@mkDim QcA 2%nat 8 5 1 exd_kn) (qz17 2) /\
  grid_spec exd_tab [qz17 2] = qz17 1 /\
  ndsplineeval exd_tab [qz17 2] [2%Z] 0 <> grid_spec exd_tab [qz17 2].
Proof.
  split; [vm_compute; reflexivity|]. split.
  - unfold eval_regular. intro H. assert (H1 : OFieldKit.lt (A := QcA) (qz17 2) (qz17 2)) by (apply H; vm_compute; reflexivity).
    vm_compute in H1. discriminate.
  - split; [vm_compute; reflexivity|]. vm_compute. discriminate.
Qed.

(* a REPEATED knot (regression of the former finding D23; corpus/C17/repeated_knot.json): order 1, knots 0 1 1 2 3,
   coefficients 1 2 3, grid 1/2 3/2 5/2. The hypotheses of the theorems hold, grid evaluation gives 1/2 5/2 3/2, which is
   the specification sum and pointwise evaluation. *)
Definition exr_d : @dimn QcA := @mkDim QcA 1%nat 5 3 1 (fun z => qz17 (if (z <=? 1)%Z then z else z - 1)).
Definition exr_tab : @table QcA := @mkTable QcA [exr_d] (fun i => qz17 (i + 1)).
Definition exr_grids : list (list Qc) := [[Q2Qc (1 # 2); Q2Qc (3 # 2); Q2Qc (5 # 2)]].
Example C17_repeated_knot_example :
  d_kn exr_d 1%Z = d_kn exr_d 2%Z /\
  Forall (@wfd QcA) (dims exr_tab) /\ RM (dims exr_tab) 3 /\
  exists a, grideval exr_tab exr_grids = GOk a /\
            nd_get a [0]%nat = Q2Qc (1 # 2) /\ nd_get a [1]%nat = Q2Qc (5 # 2) /\ nd_get a [2]%nat = Q2Qc (3 # 2) /\
            nd_get a [1]%nat = grid_spec exr_tab [Q2Qc (3 # 2)] /\
            nd_get a [1]%nat = ndsplineeval exr_tab [Q2Qc (3 # 2)] [2%Z] 0 /\
            basis_matrix exr_d [Q2Qc (3 # 2)] = [[qz17 0; Q2Qc (1 # 2); Q2Qc (1 # 2)]].
Proof.
  assert (W : Forall (@wfd QcA) (dims exr_tab)).
  { constructor; [|constructor]. unfold wfd, wf_dim, exr_d; cbn [d_order d_nknots d_naxes d_kn].
    split; [lia|]. split; [lia|]. split; [auto|]. intros i j Hi Hij Hj. apply qz17_mono.
    destruct (Z.leb_spec i 1), (Z.leb_spec j 1); lia. }
  assert (R : RM (dims exr_tab) 3).
  { change 3%Z with (d_naxes exr_d * 1)%Z. constructor; [constructor | reflexivity | cbn; lia]. }
  assert (G : Forall (fun xs : list Qc => xs <> []) exr_grids) by (constructor; [discriminate|constructor]).
  split; [reflexivity|]. split; [exact W|]. split; [exact R|].
  destruct (grideval exr_tab exr_grids) as [|a] eqn:E; [vm_compute in E; discriminate|].
  exists a. split; [reflexivity|].
  assert (Ea : a = match grideval exr_tab exr_grids with GOk a0 => a0 | GThrow => a end) by (rewrite E; reflexivity).
  split; [rewrite Ea; vm_compute; reflexivity|].
  split; [rewrite Ea; vm_compute; reflexivity|].
  split; [rewrite Ea; vm_compute; reflexivity|].
  assert (Hin : grid_in (A := QcA) [1]%nat exr_grids) by (constructor; [cbn; lia | constructor]).
  destruct (C17_grideval_spec QcA_OField exr_tab exr_grids 3 a W R G E) as [_ [S _]].
  split; [exact (S _ Hin)|].
  split; [|vm_compute; reflexivity].
  apply (C17_agrees_pointwise QcA_OField exr_tab exr_grids 3 a W R G E _ _ Hin).
  - vm_compute. reflexivity.
  - constructor; [intros _; vm_compute; reflexivity|constructor].
Qed.

Print Assumptions C17_unflatten_flatten.
Print Assumptions C17_flatten_unflatten.
Print Assumptions C17_cols.
Print Assumptions C17_slicemultiply_is_mode_product.
Print Assumptions C17_slicemultiply_shape.
Print Assumptions C17_grideval_spec.
Print Assumptions C17_agrees_pointwise.
Print Assumptions C17_agrees_pointwise_nondegenerate.
Print Assumptions C17_spec_is_spline_spec.
Print Assumptions C17_spec_is_pointwise.
Print Assumptions C17_bspline_is_cox_de_boor.
Print Assumptions C17_basis_is_spec_basis.
Print Assumptions C17_basis_unchanged_on_strict_knots.
Print Assumptions C17_beyond_last_knot_is_zero.
Print Assumptions C17_huge_grid_is_small_grid_reindexed.
Print Assumptions C17_beyond_example.
Print Assumptions C17_hypotheses_satisfiable.
Print Assumptions C17_slice_hypotheses_satisfiable.
Print Assumptions C17_last_knot_agrees.
Print Assumptions C17_refuted_right_continuous_basis.
Print Assumptions C17_regularity_needed.
Print Assumptions C17_repeated_knot_example.
