(* Properties_C17.v — C17: grid evaluation agrees with pointwise evaluation.
   Statements only; proofs are in C17_Index.v (mixed-radix index arithmetic of slicemultiply) and C17_Proofs.v.

   The model (GridModel.v) transcribes splinetable::grideval, bsplinebasis and slicemultiply; the n-d sparse array is,
   as in the code, a list of (index tuple, value) rows with index ranges; [nd_get a g] is the value the list denotes
   at g (sum of the rows carrying g, 0 when none does), [nd_listed a g] says whether a row carries g.
   Statements hold over EVERY ordered field (Arith.OField); Qc is the executed instance. The same polymorphic term at
   IEEE binary64 is compared with the C/C++ on every run (basis matrices bitwise, stored index sets exactly, values
   within a measured rounding bound — CHOLMOD's summation order is unspecified). *)
From Coq Require Import ZArith List Bool Lia QArith Qcanon.
From PS Require Import Arith EvalModel BSpline C04_Proofs OFieldKit C01_Proofs GridModel C17_Index C17_Proofs C02_Proofs C17_Upper.
Import ListNotations.
Local Open Scope nat_scope.

(* ---------------------------------------------------------------------------------------------- *)
(** * index arithmetic of slicemultiply, any number of dimensions, any dim *)
Section C17_index.
Variables ndim dim : nat.
Variable ranges : list nat.
Hypothesis Hdim : dim < ndim.
Hypothesis Hpos : forall l, l < ndim -> l <> dim -> 0 < nth l ranges 0.      (* no empty axis among the others *)

(* "rotate so that dim is at the front, then flatten" followed by "unflatten and rotate back" is the identity on index
   tuples within the ranges ... *)
Theorem C17_unflatten_flatten : forall g, length g = ndim -> in_rot_range ndim dim ranges g ->
  unflat ndim dim ranges (nth dim g 0) (flatcol ndim dim ranges g) = g.
Proof. exact (unflat_flatcol ndim dim ranges Hdim Hpos). Qed.
(* ... and the other way round on (row, column) pairs, the unflattened tuple lying within the ranges *)
Theorem C17_flatten_unflatten : forall row col, col < prodl (rradix ndim dim ranges) ->
  flatcol ndim dim ranges (unflat ndim dim ranges row col) = col /\
  nth dim (unflat ndim dim ranges row col) 0 = row /\
  length (unflat ndim dim ranges row col) = ndim /\
  in_rot_range ndim dim ranges (unflat ndim dim ranges row col).
Proof.
  intros row col H. split; [exact (flatcol_unflat ndim dim ranges Hdim Hpos row col H)|].
  split; [exact (unflat_dim ndim dim ranges Hdim Hpos row col H)|].
  split; [exact (unflat_length ndim dim ranges Hdim Hpos row col) | exact (unflat_in_range ndim dim ranges Hdim Hpos row col H)].
Qed.
(* the column count computed by the loop over i != dim is the number of flattened columns *)
Theorem C17_cols : length ranges = ndim -> cols_of ranges dim = prodl (rradix ndim dim ranges).
Proof. exact (cols_of_rot ndim dim ranges Hdim). Qed.
End C17_index.

(* ---------------------------------------------------------------------------------------------- *)
(** * slicemultiply is the mode-dim product *)
Section C17_slice.
Context {A : Arith}.
Variable F : OField A.
Variable a : @ndsparse A.
Variable bt : list (list (T A)).            (* transpose(b): one row per new index value, b->nrow columns *)
Variable dim : nat.
Hypothesis Hwf : wf_nd a.                                           (* every listed index tuple lies within the ranges *)
Hypothesis Hdim : dim < length (nd_ranges a).
Hypothesis Hpos : forall l, l < length (nd_ranges a) -> l <> dim -> 0 < nth l (nd_ranges a) 0.   (* no empty axis *)

(* for EVERY index tuple g: new(g) = sum_k bt[g_dim][k] * old(g with g_dim := k); both sides are 0 outside the new ranges *)
Theorem C17_slicemultiply_is_mode_product : forall g,
  nd_get (slicemultiply a (nth dim (nd_ranges a) 0) bt dim) g =
  nsum (nth dim (nd_ranges a) 0) (fun k => mul (mget bt (nth dim g 0) k) (nd_get a (upd g dim k))).
Proof. exact (slicemultiply_get F a bt dim Hwf Hdim Hpos). Qed.
Theorem C17_slicemultiply_shape :
  nd_ranges (slicemultiply a (nth dim (nd_ranges a) 0) bt dim) = upd (nd_ranges a) dim (length bt) /\
  wf_nd (slicemultiply a (nth dim (nd_ranges a) 0) bt dim).
Proof. split; [exact (sm_ranges a bt dim) | exact (sm_wf a bt dim Hdim Hpos)]. Qed.
End C17_slice.

(* ---------------------------------------------------------------------------------------------- *)
(** * grid evaluation *)
Section C17_grid.
Context {A : Arith}.
Variable F : OField A.
Variable t : @table A.
Variable grids : list (list (T A)).
Variable s : Z.
Variable a : @ndsparse A.
Hypothesis Hwf : Forall wfd (dims t).       (* >= 2*order+2 knots, naxes = nknots-order-1, knots NON-DECREASING (repeated knots allowed) *)
Hypothesis HRM : RM (dims t) s.             (* row-major strides: stride_d = prod of the later naxes *)
Hypothesis Hgne : Forall (fun xs : list (T A) => xs <> []) grids.     (* no empty grid axis (single-point axes are fine) *)
Hypothesis Hev : grideval t grids = GOk a.  (* did not throw: one grid per dimension, some coefficient nonzero *)

(* the index ranges are the grid lengths; every grid entry is the tensor-product sum over ALL coefficients with the
   right-continuous Cox–de Boor functions (0/0 := 0) of the stored orders on the stored knots, evaluated at the grid
   abscissae; outside the ranges the array is 0; an entry that is not listed is 0 and so is the sum there *)
Theorem C17_grideval_spec :
  nd_ranges a = map (@length (T A)) grids /\
  (forall g, grid_in g grids -> nd_get a g = grid_spec t (grid_point grids g)) /\
  (forall g, ~ in_ranges (map (@length (T A)) grids) g -> nd_get a g = zero) /\
  (forall g, grid_in g grids -> nd_listed a g = false -> nd_get a g = zero /\ grid_spec t (grid_point grids g) = zero).
Proof.
  split; [exact (grideval_ranges F t grids s a Hwf HRM Hgne Hev)|].
  split; [exact (grideval_spec F t grids s a Hwf HRM Hgne Hev)|].
  split; [exact (grideval_outside F t grids s a Hwf HRM Hgne Hev) | exact (grideval_unlisted F t grids s a Hwf HRM Hgne Hev)].
Qed.

(* agreement with pointwise evaluation: at every grid point where center lookup succeeds (first knot < x <= last knot, C04)
   and x_d < knots_d[naxes_d] in every dimension — below the upper end of full support, where pointwise evaluation uses
   the right-continuous convention too (BSpline.side_of) — the grid entry IS ndsplineeval at that point. Excluded: grid
   points with some x_d >= knots_d[naxes_d] (pointwise evaluation is left-continuous there, splineutil's bspline
   right-continuous; for order >= 1 both are the same continuous function unless a knot there has multiplicity > order —
   that part is tested on every run, not proved) and points where lookup fails (x <= first knot or x > last knot). *)
Theorem C17_agrees_pointwise : forall g cs, grid_in g grids ->
  searchcenters t (grid_point grids g) = CFound cs ->
  Forall2 (fun d x => side_of d x = true) (dims t) (grid_point grids g) ->
  nd_get a g = ndsplineeval t (grid_point grids g) cs 0.
Proof. exact (grideval_agrees_pointwise F t grids s a Hwf HRM Hgne Hev). Qed.

(* ... and AT AND ABOVE the upper end of full support too, in every dimension of order >= 1 whose knots are strictly
   increasing (side_ok: x_d below knots_d[naxes_d], OR order_d >= 1 with strict knots): B-splines of order >= 1 are
   continuous, so the right-continuous convention of splineutil's bspline and the left-continuous one of pointwise
   evaluation give the same value (C17_Upper.Bfun_sides_agree). What remains excluded is only what the property itself
   excludes or what is a known finding: order-0 dimensions at/above the upper end (the grid gives 0 at the last knot,
   C17_last_knot_differs) and repeated knots there (where pointwise evaluation itself is at fault: finding D17 of C01). *)
Theorem C17_agrees_pointwise_upper : forall g cs, grid_in g grids ->
  searchcenters t (grid_point grids g) = CFound cs ->
  Forall2 side_ok (dims t) (grid_point grids g) ->
  nd_get a g = ndsplineeval t (grid_point grids g) cs 0.
Proof.
  intros g cs Hg Hsc Hside.
  destruct (grideval_inv t grids a Hev) as [Hne [Hlen _]].
  rewrite (grideval_spec F t grids s a Hwf HRM Hgne Hev g Hg).
  apply (grid_spec_pointwise_upper F); try assumption.
  - unfold ndim_of, strides_of. apply (RM_last_stride _ _ HRM Hne).
  - rewrite grid_point_length by exact Hg. exact Hlen.
Qed.
End C17_grid.

(* the specification sum equals pointwise evaluation on the stated domain, independently of any grid *)
Theorem C17_spec_is_pointwise : forall (A : Arith) (F : OField A) (t : @table A) (xs : list (T A)) (cs : list Z),
  dims t <> [] -> Forall wfd (dims t) -> nth (ndim_of t - 1) (strides_of t) 0%Z = 1%Z -> length xs = length (dims t) ->
  searchcenters t xs = CFound cs -> Forall2 (fun d x => side_of d x = true) (dims t) xs ->
  grid_spec t xs = ndsplineeval t xs cs 0.
Proof. intros A F. exact (grid_spec_pointwise F). Qed.

(* splineutil.c's bspline (GridModel.bspline_guarded: the recursion that skips a term whose denominator vanishes, as the
   code does since fix 33ef56f) IS the right-continuous Cox–de Boor function with the 0/0 := 0 convention — for EVERY knot
   sequence (repeated knots, any multiplicity, even unsorted), every order, every index and every x: nothing is excluded.
   Before the fix the function divided 0/0 on repeated knots (NaN in IEEE arithmetic: former finding D23,
   C17:grideval:repeated-knot->NaN); the corresponding statement about the unguarded recursion, which needed
   non-decreasing knots and exact arithmetic, survives as C17_Proofs.bspline_Bfun (src/core/bspline.cpp's bspline). *)
Theorem C17_bspline_is_cox_de_boor : forall (A : Arith) (F : OField A) (kn : Z -> T A),
  forall x n i, bspline_guarded kn n x i = Bfun kn true n i x.
Proof. intros A F kn x. exact (bspline_guarded_Bfun F kn x). Qed.

(* ---------------------------------------------------------------------------------------------- *)
(** * non-vacuity: a 2-dimensional table (orders 2 and 1, sparse coefficients) on exact rationals, an unsorted grid with a
      repeated abscissa, a point in the left margin and a point outside the knot range *)
Definition qz17 (z : Z) : Qc := Q2Qc (inject_Z z).
Definition ex_d0 : @dimn QcA := @mkDim QcA 2%nat 8 5 3 qz17.          (* order 2, knots 0..7, 5 coefficients, stride 3 *)
Definition ex_d1 : @dimn QcA := @mkDim QcA 1%nat 5 3 1 qz17.          (* order 1, knots 0..4, 3 coefficients, stride 1 *)
Definition ex_tab : @table QcA := @mkTable QcA [ex_d0; ex_d1] (fun i => if Z.even i then qz17 (i + 1) else qz17 0).
Definition ex_grids : list (list Qc) := [[Q2Qc (7 # 2); Q2Qc (1 # 2); Q2Qc (7 # 2); qz17 9]; [Q2Qc (5 # 2); Q2Qc (3 # 2)]].

Lemma qz17_mono i j : (i <= j)%Z -> le (A := QcA) (qz17 i) (qz17 j).
Proof.
  intro H. unfold le, qz17. cbn [leb QcA]. apply Qc_leb_le. unfold Qcle. cbn [this Q2Qc].
  rewrite !Qred_correct. rewrite <- Zle_Qle. exact H.
Qed.
Lemma ex_wf : Forall (@wfd QcA) (dims ex_tab).
Proof.
  constructor; [|constructor; [|constructor]]; unfold wfd, wf_dim, ex_d0, ex_d1; cbn [d_order d_nknots d_naxes d_kn];
  (split; [lia|]); (split; [lia|]); (split; [auto|]); intros i j Hi Hij Hj; apply qz17_mono; exact Hij.
Qed.
Lemma ex_RM : RM (dims ex_tab) 15.
Proof.
  change 15%Z with (d_naxes ex_d0 * 3)%Z. constructor; [| reflexivity | cbn; lia].
  change 3%Z with (d_naxes ex_d1 * 1)%Z. constructor; [constructor | reflexivity | cbn; lia].
Qed.
Lemma ex_gne : Forall (fun xs : list Qc => xs <> []) ex_grids.
Proof. constructor; [discriminate|]. constructor; [discriminate|constructor]. Qed.

Example C17_hypotheses_satisfiable :
  exists a, grideval ex_tab ex_grids = GOk a /\
            nd_ranges a = [4; 2]%nat /\
            nd_get a [0; 1]%nat = grid_spec ex_tab [Q2Qc (7 # 2); Q2Qc (3 # 2)] /\
            nd_get a [0; 1]%nat = Q2Qc (29 # 8) /\                  (* interior point *)
            nd_get a [1; 0]%nat = Q2Qc (3 # 16) /\                   (* left margin of dimension 0 *)
            nd_listed a [3; 0]%nat = false /\                         (* abscissa 9 lies outside the knot range: not listed *)
            nd_get a [0; 1]%nat = ndsplineeval ex_tab [Q2Qc (7 # 2); Q2Qc (3 # 2)] [3; 1]%Z 0.
Proof.
  destruct (grideval ex_tab ex_grids) as [|a] eqn:E; [vm_compute in E; discriminate|].
  exists a. split; [reflexivity|].
  destruct (C17_grideval_spec QcA_OField ex_tab ex_grids 15 a ex_wf ex_RM ex_gne E) as [R [G _]].
  split; [rewrite R; reflexivity|].
  assert (Hin : grid_in (A := QcA) [0; 1]%nat ex_grids) by (constructor; [cbn; lia | constructor; [cbn; lia | constructor]]).
  split; [exact (G _ Hin)|].
  assert (Ea : a = match grideval ex_tab ex_grids with GOk a0 => a0 | GThrow => a end) by (rewrite E; reflexivity).
  split; [rewrite Ea; vm_compute; reflexivity|].
  split; [rewrite Ea; vm_compute; reflexivity|].
  split; [rewrite Ea; vm_compute; reflexivity|].
  apply (C17_agrees_pointwise QcA_OField ex_tab ex_grids 15 a ex_wf ex_RM ex_gne E _ _ Hin).
  - vm_compute. reflexivity.
  - constructor; [vm_compute; reflexivity|]. constructor; [vm_compute; reflexivity|constructor].
Qed.

(* the hypotheses of the slicemultiply theorem hold for the array grideval starts from *)
Example C17_slice_hypotheses_satisfiable :
  wf_nd (initial_nd ex_tab) /\ 0 < length (nd_ranges (initial_nd ex_tab)) /\
  (forall l, l < length (nd_ranges (initial_nd ex_tab)) -> l <> 0 -> 0 < nth l (nd_ranges (initial_nd ex_tab)) 0) /\
  nd_get (slicemultiply (initial_nd ex_tab) 5 (basis_matrix ex_d0 [Q2Qc (7 # 2)]) 0) [0; 2]%nat = Q2Qc (27 # 4).
Proof.
  split; [apply (initial_wf ex_tab 15); [discriminate | exact ex_RM]|].
  split; [cbn; lia|]. split; [intros [|[|l]] H1 H2; cbn in *; lia|]. vm_compute. reflexivity.
Qed.

(* the right-continuous convention is what makes the domain restriction necessary for order 0: at an interior knot that
   is >= knots[naxes] only when it is the last knot; an order-0 example AT the last knot (not strictly inside the range):
   grid evaluation gives 0, pointwise evaluation the last coefficient *)
Definition ex0_tab : @table QcA := @mkTable QcA [@mkDim QcA 0%nat 4 3 1 qz17] (fun i => qz17 (i + 1)).
Example C17_last_knot_differs :
  searchcenters ex0_tab [qz17 3] = CFound [2%Z] /\ ndsplineeval ex0_tab [qz17 3] [2%Z] 0 = qz17 3 /\ grid_spec ex0_tab [qz17 3] = qz17 0.
Proof. split; [vm_compute; reflexivity|]. split; vm_compute; reflexivity. Qed.

(* a REPEATED knot (regression of the former finding D23; corpus/C17/repeated_knot.json): order 1, knots 0 1 1 2 3,
   coefficients 1 2 3, grid 1/2 3/2 5/2. The hypotheses of the theorems hold, grid evaluation gives 1/2 5/2 3/2, which is
   the specification sum and — below the upper end of full support — pointwise evaluation. *)
Definition exr_d : @dimn QcA := @mkDim QcA 1%nat 5 3 1 (fun z => qz17 (if (z <=? 1)%Z then z else z - 1)).
Definition exr_tab : @table QcA := @mkTable QcA [exr_d] (fun i => qz17 (i + 1)).
Definition exr_grids : list (list Qc) := [[Q2Qc (1 # 2); Q2Qc (3 # 2); Q2Qc (5 # 2)]].
Example C17_repeated_knot_example :
  d_kn exr_d 1%Z = d_kn exr_d 2%Z /\
  Forall (@wfd QcA) (dims exr_tab) /\ RM (dims exr_tab) 3 /\
  exists a, grideval exr_tab exr_grids = GOk a /\
            nd_get a [0]%nat = Q2Qc (1 # 2) /\ nd_get a [1]%nat = Q2Qc (5 # 2) /\ nd_get a [2]%nat = Q2Qc (3 # 2) /\
            nd_get a [1]%nat = grid_spec exr_tab [Q2Qc (3 # 2)] /\
            nd_get a [1]%nat = ndsplineeval exr_tab [Q2Qc (3 # 2)] [2%Z] 0 /\
            basis_matrix exr_d [Q2Qc (3 # 2)] = [[qz17 0; Q2Qc (1 # 2); Q2Qc (1 # 2)]].
Proof.
  assert (W : Forall (@wfd QcA) (dims exr_tab)).
  { constructor; [|constructor]. unfold wfd, wf_dim, exr_d; cbn [d_order d_nknots d_naxes d_kn].
    split; [lia|]. split; [lia|]. split; [auto|]. intros i j Hi Hij Hj. apply qz17_mono.
    destruct (Z.leb_spec i 1), (Z.leb_spec j 1); lia. }
  assert (R : RM (dims exr_tab) 3).
  { change 3%Z with (d_naxes exr_d * 1)%Z. constructor; [constructor | reflexivity | cbn; lia]. }
  assert (G : Forall (fun xs : list Qc => xs <> []) exr_grids) by (constructor; [discriminate|constructor]).
  split; [reflexivity|]. split; [exact W|]. split; [exact R|].
  destruct (grideval exr_tab exr_grids) as [|a] eqn:E; [vm_compute in E; discriminate|].
  exists a. split; [reflexivity|].
  assert (Ea : a = match grideval exr_tab exr_grids with GOk a0 => a0 | GThrow => a end) by (rewrite E; reflexivity).
  split; [rewrite Ea; vm_compute; reflexivity|].
  split; [rewrite Ea; vm_compute; reflexivity|].
  split; [rewrite Ea; vm_compute; reflexivity|].
  assert (Hin : grid_in (A := QcA) [1]%nat exr_grids) by (constructor; [cbn; lia | constructor]).
  destruct (C17_grideval_spec QcA_OField exr_tab exr_grids 3 a W R G E) as [_ [S _]].
  split; [exact (S _ Hin)|].
  split; [|vm_compute; reflexivity].
  apply (C17_agrees_pointwise QcA_OField exr_tab exr_grids 3 a W R G E _ _ Hin).
  - vm_compute. reflexivity.
  - constructor; [vm_compute; reflexivity|constructor].
Qed.

Print Assumptions C17_unflatten_flatten.
Print Assumptions C17_flatten_unflatten.
Print Assumptions C17_cols.
Print Assumptions C17_slicemultiply_is_mode_product.
Print Assumptions C17_slicemultiply_shape.
Print Assumptions C17_grideval_spec.
Print Assumptions C17_agrees_pointwise.
Print Assumptions C17_agrees_pointwise_upper.
Print Assumptions C17_spec_is_pointwise.
Print Assumptions C17_bspline_is_cox_de_boor.
Print Assumptions C17_hypotheses_satisfiable.
Print Assumptions C17_slice_hypotheses_satisfiable.
Print Assumptions C17_last_knot_differs.
Print Assumptions C17_repeated_knot_example.
