(* C09_LinAlg.v — the small verified linear-algebra kit of C09 (dense vectors/matrices as lists over an abstract
   ordered field) and theorem (1): a solution of the normal equations of a weighted least-squares problem with
   positive definite normal matrix is the unique minimiser of the objective. *)
From Coq Require Import ZArith List Bool Lia Field Ring.
From PS Require Import Arith EvalModel BSpline OFieldKit FitModel.
Import ListNotations.

Section LA.
Context {A : Arith}.
Variable F : OField A.
Notation K := (T A).
Add Field Kfield_c09la : (OFth F).
Notation le := (@OFieldKit.le A).
Notation lt := (@OFieldKit.lt A).

(* ---------------------------------------------------------------------------------------------- *)
(* order facts *)
Lemma le_add_compat (a b c d : K) : le a b -> le c d -> le (add a c) (add b d).
Proof.
  intros H1 H2. apply (le_trans F _ (add b c)).
  - apply (OF_add_le A F). exact H1.
  - replace (add b c) with (add c b) by ring. replace (add b d) with (add d b) by ring. apply (OF_add_le A F). exact H2.
Qed.
Lemma add_nonneg (a b : K) : le zero a -> le zero b -> le zero (add a b).
Proof. intros Ha Hb. replace (@zero A) with (add (@zero A) zero) by ring. apply le_add_compat; assumption. Qed.
Lemma opp_nonneg (a : K) : le a zero -> le zero (opp a).
Proof.
  intro H. pose proof (OF_add_le A F a zero (opp a) H) as H1.
  replace (add a (opp a)) with (@zero A) in H1 by ring. replace (add zero (opp a)) with (opp a) in H1 by ring. exact H1.
Qed.
Lemma sq_nonneg (a : K) : le zero (mul a a).
Proof.
  destruct (le_total F zero a) as [H|H].
  - apply (OF_mul_pos A F); exact H.
  - replace (mul a a) with (mul (opp a) (opp a)) by ring. apply (OF_mul_pos A F); apply opp_nonneg; exact H.
Qed.
Lemma mul_nonneg (a b : K) : le zero a -> le zero b -> le zero (mul a b).
Proof. apply (OF_mul_pos A F). Qed.
Lemma le_add_nonneg_r (a b : K) : le zero b -> le a (add a b).
Proof.
  intro H. pose proof (le_add_compat a a zero b (le_refl F a) H) as H1.
  replace (add a zero) with a in H1 by ring. exact H1.
Qed.
Lemma sumK_nonneg (l : list K) : Forall (fun x => le zero x) l -> le zero (sumK l).
Proof. induction 1 as [|x l Hx _ IH]; cbn [sumK fold_right]; [apply (le_refl F) | apply add_nonneg; assumption]. Qed.

(* ---------------------------------------------------------------------------------------------- *)
(* vectors *)
Lemma vadd_length (u v : list K) : length u = length v -> length (vadd u v) = length u.
Proof. revert v. induction u as [|a u IH]; intros [|b v] H; cbn in *; try lia. rewrite IH; lia. Qed.
Lemma vscale_length (a : K) (v : list K) : length (vscale a v) = length v.
Proof. apply map_length. Qed.
Lemma vzero_length n : length (@vzero A n) = n.
Proof. apply repeat_length. Qed.
Lemma vsub_length (u v : list K) : length u = length v -> length (vsub u v) = length u.
Proof. intro H. unfold vsub. apply vadd_length. rewrite vscale_length. exact H. Qed.

Lemma dot_comm (u v : list K) : dot u v = dot v u.
Proof. revert v. induction u as [|a u IH]; intros [|b v]; cbn [dot]; try reflexivity. rewrite IH. ring. Qed.
Lemma dot_vzero_l n (c : list K) : dot (vzero n) c = zero.
Proof. revert c. induction n as [|n IH]; intros [|b c]; cbn [vzero repeat dot]; try reflexivity. fold (@vzero A n). rewrite IH. ring. Qed.
Lemma dot_vscale_l (a : K) (u c : list K) : dot (vscale a u) c = mul a (dot u c).
Proof. revert c. induction u as [|x u IH]; intros [|b c]; cbn [vscale map dot]; try ring. fold (vscale a u). rewrite IH. ring. Qed.
Lemma dot_vadd_l (u v c : list K) : length u = length v -> dot (vadd u v) c = add (dot u c) (dot v c).
Proof.
  revert v c. induction u as [|x u IH]; intros [|y v] c H; cbn in H; try lia.
  - cbn. ring.
  - destruct c as [|b c]; cbn [vadd dot]; [ring|]. rewrite IH by lia. ring.
Qed.
Lemma dot_vadd_r (c u v : list K) : length u = length v -> dot c (vadd u v) = add (dot c u) (dot c v).
Proof. intro H. rewrite dot_comm, dot_vadd_l by exact H. rewrite (dot_comm u), (dot_comm v). reflexivity. Qed.
Lemma dot_vscale_r (a : K) (u c : list K) : dot c (vscale a u) = mul a (dot c u).
Proof. rewrite dot_comm, dot_vscale_l, dot_comm. reflexivity. Qed.

Lemma vadd_vsub (c c' : list K) : length c = length c' -> vadd c (vsub c' c) = c'.
Proof.
  revert c'. induction c as [|x c IH]; intros [|y c'] H; cbn in H; try lia; [reflexivity|].
  unfold vsub in *. cbn [vscale map vadd]. fold (vscale (opp one) c). rewrite IH by lia. f_equal. ring.
Qed.
Lemma vsub_self_zero (c c' : list K) : length c = length c' -> vsub c' c = vzero (length c) -> c' = c.
Proof.
  revert c'. induction c as [|x c IH]; intros [|y c'] H; cbn in H; try lia; [reflexivity|].
  unfold vsub. cbn [vscale map vadd length vzero repeat]. fold (vscale (opp one) c). fold (@vzero A (length c)).
  intro E. injection E as E1 E2. f_equal.
  - transitivity (sub (add y (mul (opp one) x)) (mul (opp one) x)); [ring | rewrite E1; ring].
  - apply IH; [lia | exact E2].
Qed.

(* ---------------------------------------------------------------------------------------------- *)
(* matrices *)
Definition outer (u v : list K) : list (list K) := map (fun a => vscale a v) u.
Definition rows_len (n : nat) (M : list (list K)) : Prop := Forall (fun r => length r = n) M.

Lemma matvec_length (M : list (list K)) c : length (matvec M c) = length M.
Proof. apply map_length. Qed.
Lemma madd_length (M N : list (list K)) : length M = length N -> length (madd M N) = length M.
Proof. revert N. induction M as [|r M IH]; intros [|s N] H; cbn in *; try lia. rewrite IH; lia. Qed.
Lemma madd_rows n (M N : list (list K)) : rows_len n M -> rows_len n N -> rows_len n (madd M N).
Proof.
  intros HM. revert N. induction HM as [|r M Hr _ IH]; intros N HN; [constructor|].
  destruct HN as [|s N Hs HN]; cbn [madd]; constructor; [rewrite vadd_length; lia | apply IH; exact HN].
Qed.
Lemma mscale_length a (M : list (list K)) : length (mscale a M) = length M.
Proof. apply map_length. Qed.
Lemma mscale_rows n a (M : list (list K)) : rows_len n M -> rows_len n (mscale a M).
Proof. intro H. unfold mscale. apply Forall_map. eapply Forall_impl; [|exact H]. intros r Hr. cbn. rewrite vscale_length. exact Hr. Qed.
Lemma mzero_length n m : length (@mzero A n m) = n.
Proof. apply repeat_length. Qed.
Lemma mzero_rows n m : rows_len m (@mzero A n m).
Proof. unfold mzero. apply Forall_forall. intros r Hr. apply repeat_spec in Hr. subst. apply vzero_length. Qed.
Lemma outer_length (u v : list K) : length (outer u v) = length u.
Proof. apply map_length. Qed.
Lemma outer_rows (u v : list K) : rows_len (length v) (outer u v).
Proof. unfold outer. apply Forall_map. apply Forall_forall. intros a _. cbn. apply vscale_length. Qed.

Lemma matvec_madd (M N : list (list K)) c n : rows_len n M -> rows_len n N -> length M = length N ->
  matvec (madd M N) c = vadd (matvec M c) (matvec N c).
Proof.
  intros HM. revert N. induction HM as [|r M Hr _ IH]; intros N HN HL; destruct N as [|s N]; cbn in HL; try lia; [reflexivity|].
  inversion HN as [|? ? Hs HN']; subst. cbn [madd matvec map vadd]. fold (matvec (madd M N) c). fold (matvec M c). fold (matvec N c).
  rewrite IH by (auto; lia). rewrite dot_vadd_l by lia. reflexivity.
Qed.
Lemma matvec_mscale a (M : list (list K)) c : matvec (mscale a M) c = vscale a (matvec M c).
Proof. unfold matvec, mscale. unfold vscale at 2. rewrite !map_map. apply map_ext. intro r. apply dot_vscale_l. Qed.
Lemma matvec_mzero n m (c : list K) : matvec (mzero n m) c = vzero n.
Proof. unfold mzero, matvec, vzero. induction n as [|n IH]; cbn [repeat map]; [reflexivity|]. rewrite IH. f_equal. apply dot_vzero_l. Qed.
Lemma matvec_outer (u v c : list K) : matvec (outer u v) c = vscale (dot v c) u.
Proof.
  unfold matvec, outer. rewrite map_map. transitivity (map (fun a => mul a (dot v c)) u).
  - apply map_ext. intro a. apply dot_vscale_l.
  - unfold vscale. apply map_ext. intro a. ring.
Qed.

(* ---------------------------------------------------------------------------------------------- *)
(* weighted least squares over a list of (weight, design row, value) triples *)
Notation wt e := (fst (fst e)).
Notation brow e := (snd (fst e)).
Notation zval e := (snd e).

(* normal matrix  sum_e w_e b_e b_e^T  and right-hand side  sum_e w_e z_e b_e *)
Definition nmat (n : nat) (E : list (K * list K * K)) : list (list K) :=
  fold_right (fun e M => madd (mscale (wt e) (outer (brow e) (brow e))) M) (mzero n n) E.
Definition nrhs (n : nat) (E : list (K * list K * K)) : list K :=
  fold_right (fun e v => vadd (vscale (mul (wt e) (zval e)) (brow e)) v) (vzero n) E.
(* sum_e w_e (b_e . d)^2 *)
Definition quad (E : list (K * list K * K)) (d : list K) : K :=
  sumK (map (fun e => mul (wt e) (sq (dot (brow e) d))) E).
Definition wf_rows (n : nat) (E : list (K * list K * K)) : Prop := Forall (fun e => length (brow e) = n) E.
Definition nonneg_weights (E : list (K * list K * K)) : Prop := Forall (fun e => le zero (wt e)) E.

Lemma nmat_shape n E : wf_rows n E -> length (nmat n E) = n /\ rows_len n (nmat n E).
Proof.
  induction 1 as [|e E He _ [IH1 IH2]]; cbn [nmat fold_right]; [split; [apply mzero_length | apply mzero_rows]|].
  fold (nmat n E). split.
  - rewrite madd_length; rewrite mscale_length, outer_length; lia.
  - apply madd_rows; [|exact IH2]. apply mscale_rows. rewrite <- He at 1. apply outer_rows.
Qed.
Lemma nrhs_length n E : wf_rows n E -> length (nrhs n E) = n.
Proof.
  induction 1 as [|e E He _ IH]; cbn [nrhs fold_right]; [apply vzero_length|]. fold (nrhs n E).
  rewrite vadd_length; rewrite vscale_length; lia.
Qed.

Lemma matvec_nmat n E c : wf_rows n E ->
  matvec (nmat n E) c = fold_right (fun e v => vadd (vscale (mul (wt e) (dot (brow e) c)) (brow e)) v) (vzero n) E.
Proof.
  induction 1 as [|e E He HE IH]; cbn [nmat fold_right]; [apply matvec_mzero|]. fold (nmat n E).
  destruct (nmat_shape n E HE) as [L1 L2].
  rewrite (matvec_madd _ _ c n).
  - rewrite IH. f_equal. rewrite matvec_mscale, matvec_outer. unfold vscale. rewrite map_map. apply map_ext. intro x. ring.
  - apply mscale_rows. rewrite <- He at 1. apply outer_rows.
  - exact L2.
  - rewrite mscale_length, outer_length. lia.
Qed.

(* d . (A c) and d . r as sums over the entries *)
Lemma dot_matvec_nmat n E c d : wf_rows n E ->
  dot d (matvec (nmat n E) c) = sumK (map (fun e => mul (wt e) (mul (dot (brow e) c) (dot (brow e) d))) E).
Proof.
  intro H. rewrite (matvec_nmat n E c H).
  induction H as [|e E He HE IH]; cbn [fold_right map sumK]; [rewrite dot_comm; apply dot_vzero_l|].
  rewrite dot_vadd_r.
  - rewrite IH. rewrite dot_vscale_r. rewrite (dot_comm d). fold (sumK (map (fun e0 => mul (wt e0) (mul (dot (brow e0) c) (dot (brow e0) d))) E)). ring.
  - rewrite vscale_length. rewrite He. symmetry.
    clear IH. induction HE as [|e' E' He' _ IH']; cbn [fold_right]; [apply vzero_length|]. rewrite vadd_length; rewrite vscale_length; lia.
Qed.
Lemma dot_nrhs n E d : wf_rows n E ->
  dot d (nrhs n E) = sumK (map (fun e => mul (mul (wt e) (zval e)) (dot (brow e) d)) E).
Proof.
  induction 1 as [|e E He HE IH]; cbn [nrhs fold_right map sumK]; [rewrite dot_comm; apply dot_vzero_l|]. fold (nrhs n E).
  rewrite dot_vadd_r.
  - rewrite IH, dot_vscale_r, (dot_comm d). fold (sumK (map (fun e0 => mul (mul (wt e0) (zval e0)) (dot (brow e0) d)) E)). ring.
  - rewrite vscale_length, (nrhs_length n E HE). exact He.
Qed.
Lemma quad_is_form n E d : wf_rows n E -> quad E d = dot d (matvec (nmat n E) d).
Proof.
  intro H. rewrite (dot_matvec_nmat n E d d H). unfold quad, sq. reflexivity.
Qed.
Lemma quad_nonneg E d : nonneg_weights E -> le zero (quad E d).
Proof.
  intro H. unfold quad. apply sumK_nonneg. apply Forall_map. eapply Forall_impl; [|exact H].
  intros e He. cbn. apply mul_nonneg; [exact He | apply sq_nonneg].
Qed.

(* the expansion of the objective around any point *)
Lemma wrss_expand n E c d : wf_rows n E -> length c = length d ->
  wrss E (vadd c d) =
  add (wrss E c) (sub (quad E d) (mul (add one one) (sub (dot d (nrhs n E)) (dot d (matvec (nmat n E) c))))).
Proof.
  intros H HL. rewrite (dot_nrhs n E d H), (dot_matvec_nmat n E c d H). unfold wrss, quad.
  clear H. induction E as [|e E IH]; cbn [map sumK fold_right]; [ring|].
  fold (sumK (map (fun e0 => mul (wt e0) (sq (sub (zval e0) (dot (brow e0) (vadd c d))))) E)).
  fold (sumK (map (fun e0 => mul (wt e0) (sq (sub (zval e0) (dot (brow e0) c)))) E)).
  fold (sumK (map (fun e0 => mul (wt e0) (sq (dot (brow e0) d))) E)).
  fold (sumK (map (fun e0 => mul (mul (wt e0) (zval e0)) (dot (brow e0) d)) E)).
  fold (sumK (map (fun e0 => mul (wt e0) (mul (dot (brow e0) c) (dot (brow e0) d))) E)).
  rewrite IH. rewrite (dot_vadd_r (brow e) c d HL). unfold sq. ring.
Qed.

Lemma K_eq_dec (a b : K) : {a = b} + {a <> b}.
Proof.
  destruct (eqbK a b) eqn:E.
  - left. apply (eqbK_true F). exact E.
  - right. intro H. apply (eqbK_true F) in H. congruence.
Qed.
Definition list_eq_dec_K : forall u v : list K, {u = v} + {u <> v} := list_eq_dec K_eq_dec.

(* positive definiteness of a matrix as a quadratic form on vectors of length n *)
Definition spd (n : nat) (M : list (list K)) : Prop :=
  forall d, length d = n -> d <> vzero n -> lt zero (dot d (matvec M d)).

(* Theorem (1) *)
Theorem normal_eq_minimise n (E : list (K * list K * K)) (c : list K) :
  wf_rows n E -> nonneg_weights E -> length c = n ->
  matvec (nmat n E) c = nrhs n E ->
  forall c', length c' = n ->
    wrss E c' = add (wrss E c) (dot (vsub c' c) (matvec (nmat n E) (vsub c' c)))
    /\ le (wrss E c) (wrss E c')
    /\ (spd n (nmat n E) -> wrss E c' = wrss E c -> c' = c).
Proof.
  intros Hwf Hw Hc Hne c' Hc'.
  assert (Hd : length (vsub c' c) = n) by (rewrite vsub_length; lia).
  assert (Hexp : wrss E c' = add (wrss E c) (quad E (vsub c' c))).
  { rewrite <- (vadd_vsub c c') at 1 by lia. rewrite (wrss_expand n E c (vsub c' c) Hwf) by lia.
    rewrite Hne. ring. }
  split; [|split].
  - rewrite Hexp. rewrite (quad_is_form n E _ Hwf). reflexivity.
  - rewrite Hexp. apply le_add_nonneg_r. apply quad_nonneg. exact Hw.
  - intros Hspd HJ.
    assert (Hq : quad E (vsub c' c) = zero).
    { transitivity (sub (wrss E c') (wrss E c)); [rewrite Hexp; ring | rewrite HJ; ring]. }
    apply vsub_self_zero; [lia|]. rewrite Hc.
    destruct (list_eq_dec_K (vsub c' c) (vzero n)) as [E0|N0]; [exact E0|].
    exfalso. pose proof (Hspd _ Hd N0) as Hlt. rewrite <- (quad_is_form n E _ Hwf) in Hlt. rewrite Hq in Hlt.
    exact (lt_irrefl F _ Hlt).
Qed.

End LA.
