(* Dispatch.v — model of splinetable::get_evaluator over the TRANSLATED dispatch table (Generated.v) and of
   evaluator_type's entry points. No proofs in this file. *)
From Coq Require Import ZArith List Bool Lia.
From PS Require Import Arith EvalModel Generated.
Import ListNotations.
Local Open Scope Z_scope.

(* constOrder = order[0]; for j in 1..ndim-1: if order[j] != constOrder then constOrder = 0 *)
Definition const_order (os : list nat) : nat :=
  match os with
  | [] => O
  | o :: rest => if forallb (Nat.eqb o) rest then o else O
  end.

(* C switch semantics without fall-through (the translator checks every case ends in break): the first
   active case whose label equals the scrutinee, else the default. A case inside
   #ifndef PHOTOSPLINE_NO_EVAL_TEMPLATES is active only when templates are enabled. *)
Definition active (templates : bool) (c_templ : bool) : bool := templates || negb c_templ.
Definition label_is (l : option nat) (n : nat) : bool := match l with Some k => Nat.eqb k n | None => false end.
Definition is_default (l : option nat) : bool := match l with None => true | Some _ => false end.

Definition outer_labels (templates : bool) : list nat :=
  flat_map (fun c => match dc_corder c with Some k => if active templates (dc_templ c) then [k] else [] | None => [] end)
           dispatch_cases.
Definition outer_choice (templates : bool) (co : nat) : option nat :=
  if existsb (Nat.eqb co) (outer_labels templates) then Some co else None.
Definition same_outer (a b : option nat) : bool :=
  match a, b with Some x, Some y => Nat.eqb x y | None, None => true | _, _ => false end.

Definition select_case (templates : bool) (os : list nat) : option dcase :=
  let oc := outer_choice templates (const_order os) in
  let inner := filter (fun c => same_outer (dc_corder c) oc) dispatch_cases in
  match find (fun c => active templates (dc_templ c) && label_is (dc_ndim c) (length os)) inner with
  | Some c => Some c
  | None => find (fun c => active templates (dc_templ c) && is_default (dc_ndim c)) inner
  end.

Definition orders_are (os guard : list nat) : bool :=
  Nat.eqb (length guard) (length os) && forallb (fun p => Nat.eqb (fst p) (snd p)) (combine os guard).
Definition select_known (templates : bool) (os : list nat) : option dknown :=
  find (fun k => active templates (dk_templ k) && orders_are os (dk_orders k)) dispatch_known.

(* (eval_ptr, v_eval_ptr) *)
Definition select (templates : bool) (os : list nat) : option (variant * variant) :=
  match select_known templates os with
  | Some k => Some (dk_ev k, dk_vev k)
  | None => match select_case templates os with
            | Some c => Some (dc_ev c, dc_vev c)
            | None => None
            end
  end.

Section Run.
Context {A : Arith}.
Notation K := (T A).

Definition run_variant (v : variant) (t : table) (cs : list Z) (lbs : list (list K)) : K :=
  match v with
  | VGeneric => core_generic t cs lbs
  | VD D => core_D D t cs lbs
  | VFixed D o => core_Fixed D o t cs lbs
  | VKnown Os => core_Known Os t cs lbs
  end.

(* the multibasis twins all have the while(1){...break...} shape; lane-wise they are the scalar routine *)
Definition run_variant_multi (v : variant) (t : table) (cs : list Z) (lbs : list (list K)) : K :=
  let os := orders_of t in
  match v with
  | VGeneric => core_generic t cs lbs
  | VD D => core_run (coef t) false D os os os (S (nth (D - 1) os O)) (strides_of t) cs lbs
  | VFixed D o => let fo := repeat o D in core_run (coef t) false D fo fo fo (S o) (strides_of t) cs lbs
  | VKnown Os => core_run (coef t) false (length Os) os Os os (S (last Os O)) (strides_of t) cs lbs
  end.

(* evaluator_type<Float>::ndsplineeval / ndsplineeval_deriv / ndsplineeval_gradient *)
Definition ev_ndsplineeval (v : variant) (t : table) (xs : list K) (cs : list Z) (mask : Z) : K :=
  run_variant v t cs (localbases_mask (dims t) xs cs mask).
Definition ev_ndsplineeval_deriv (v : variant) (t : table) (xs : list K) (cs : list Z) (ks : list nat) : K :=
  run_variant v t cs (localbases_derivk (dims t) xs cs ks).
Definition ev_gradient (v : variant) (t : table) (xs : list K) (cs : list Z) : list K :=
  let vb := nonzero_bases t xs cs in
  map (fun lane => run_variant_multi v t cs (lane_bases vb lane)) (seq 0 (S (ndim_of t))).

End Run.

(* splinetable::ndsplineeval_gradient / evaluator_type::ndsplineeval_gradient refuse tables with ndim+1 > PHOTOSPLINE_MAXDIM
   (bspline_multi.h: "if (ndim+1 > PHOTOSPLINE_MAXDIM) throw"); the accumulator holds
   PHOTOSPLINE_NVECS * PHOTOSPLINE_VECTOR_SIZE = (MAXDIM / VECTOR_SIZE) * VECTOR_SIZE lanes. None = the exception. *)
Definition gradient_lanes_available : nat := ((MAXDIM / VECTOR_SIZE) * VECTOR_SIZE)%nat.
Definition gradient_checked {A : Arith} (t : @table A) (xs : list (T A)) (cs : list Z) : option (list (T A)) :=
  if (MAXDIM <? S (ndim_of t))%nat then None else Some (ndsplineeval_gradient t xs cs).
