(* Properties_C12.v — C12: monotonic fitting terminates with the same result under every thread schedule.
   Statements about the transition system Handshake.v (coordinator/worker hand-shake of walk_descents +
   evaluate_descent) with fixed = true, i.e. the code after the `fix:` commit for D7 (the coordinator tests the
   worker states before it waits), and shared_common = false, i.e. after the `fix:` commit for D15 (one cholmod_common per
   worker, started by the coordinator before the first pthread_create and finished after the last pthread_join).
   N = number of worker threads, na = number of trial step lengths,
   lt = order of the residuals; all unbounded.  Proofs: C12_Proofs.v. *)
From Coq Require Import List Arith Bool.
From PS Require Import Handshake C12_Proofs C12_Termination.
Import ListNotations.

Section C12.
Variables N na : nat.
Variable lt : nat -> nat -> bool.
Hypothesis HN : 1 <= N.                       (* get_nthreads() >= 1 *)

(* no lost wake-up / deadlock: in every reachable state (any interleaving, spurious wake-ups included) either
   walk_descents has returned or some thread has an enabled step.  Threads blocked in cond_wait, in lock of a held
   mutex or in join of a live thread have NO step, and spurious wake-ups do not count as steps. *)
Theorem C12_no_deadlock : forall s,
  reachable N na lt true s -> finished s \/ exists t s', step N na lt true s t = Some s'.
Proof. intros s H. apply (no_deadlock_inv N na lt HN). apply (inv_reachable N na lt HN); assumption. Qed.

(* the coordinator never uses a worker's result before that worker has finished the trial step of this block *)
Theorem C12_no_early_read : forall s j,
  reachable N na lt true s -> coordinator_reading N na s j -> worker_done_with_block N s j.
Proof. intros s j H. apply no_early_read_inv. apply (inv_reachable N na lt HN); assumption. Qed.

(* race freedom on the modelled shared locations (state[j], alpha[j], the outputs of trial j, x, the caller's
   cholmod_common LCommon, the per-worker commons LWCommon j): no two different threads ever have enabled steps with
   conflicting accesses.  In the shape of the code after the D15 fix (shared_common = false) this holds on EVERY location,
   the commons included; in the old shape (shared_common = true: every worker allocates through the caller's common) on every
   location except LCommon (see C12_refuted_race_common). *)
Theorem C12_race_free : forall shared_common s t1 t2 l,
  reachable N na lt true s -> (l <> LCommon \/ shared_common = false) ->
  raceb N na lt true shared_common s t1 t2 l = false.
Proof. intros sc s t1 t2 l H Hl. apply race_free_inv; [exact HN | apply (inv_reachable N na lt HN); assumption | exact Hl]. Qed.

(* the code as it is now (per-worker commons): no race on any location, for every N >= 1 *)
Theorem C12_race_free_all_locations : forall s t1 t2 l,
  reachable N na lt true s -> raceb N na lt true false s t1 t2 l = false.
Proof. intros s t1 t2 l H. apply C12_race_free; [exact H | right; reflexivity]. Qed.

(* who touches which common (D15 fix): worker j only its own commons[j]; and whenever the coordinator touches a per-worker
   common (cholmod_l_start before the first pthread_create, free_dense + cholmod_l_finish after the last pthread_join) or
   reads the caller's common, no worker is alive: each one is not yet created or has exited *)
Theorem C12_common_owner_worker : forall shared_common s j k,
  acc N na shared_common s (S j) (LWCommon k) <> ANone -> k = j /\ j < N /\ shared_common = false.
Proof. exact (common_owner_worker N na). Qed.
Theorem C12_common_owner_coordinator : forall shared_common s l,
  reachable N na lt true s -> (l = LCommon \/ exists k, l = LWCommon k) -> acc N na shared_common s 0 l <> ANone ->
  forall j, j < N -> wp s j = WNotCreated \/ wp s j = WExited.
Proof. intros sc s l H. apply common_owner_coordinator. apply (inv_reachable N na lt HN); assumption. Qed.

(* ---- termination under every schedule ----
   Executions are arbitrary interleavings of thread steps (EStep t) and spurious wake-ups (ESpur t) of threads blocked in
   cond_wait.  Spurious wake-ups are allowed by POSIX at any time and in any number, so an adversarial scheduler can keep a
   `while (..) cond_wait` loop spinning for ever: no statement "every execution is finite" is true.  What is proved is the exact
   accounting: a potential Phi : state -> nat (C12_Termination.v) that EVERY thread step lowers by at least 1 and a spurious
   wake-up raises by at most 2 (the woken thread re-acquires the mutex, re-tests, waits again) — on all states, reachable or
   not, for every N and na, for the code as found (fixed = false) and as fixed. *)
Theorem C12_measure : forall fixed s t s',
  (step N na lt fixed s t = Some s' -> Phi N na s' < Phi N na s) /\
  (spurious N s t = Some s' -> Phi N na s' <= Phi N na s + 2).
Proof. exact (measure_facts N na lt). Qed.

(* along every execution from every state:  #thread steps + Phi(end) <= Phi(start) + 2 * #spurious wake-ups *)
Theorem C12_terminates : forall fixed evs s s',
  exec N na lt fixed s evs = Some s' -> nsteps evs + Phi N na s' <= Phi N na s + 2 * nspur evs.
Proof. exact (exec_bound N na lt). Qed.

(* explicit bounds: B0 from the initial state, Bmax from ANY state (so in particular from every reachable one) *)
Theorem C12_terminates_from_init : forall fixed evs s',
  exec N na lt fixed init evs = Some s' -> nsteps evs <= B0 N na + 2 * nspur evs.
Proof. exact (exec_bound_init N na lt). Qed.
Theorem C12_terminates_from_any : forall fixed evs s s',
  exec N na lt fixed s evs = Some s' -> nsteps evs <= Bmax N na + 2 * nspur evs.
Proof. exact (exec_bound_any N na lt). Qed.
(* B0 written out (nblocks = ceil(na / N), the number of iterations of the for loop): 7 + 2N thread steps per trial step,
   6 + 2N per block, 6N + 6 for thread creation and termination *)
Theorem C12_B0 : 1 <= na -> B0 N na = (6 * N + 6) + nblocks N na * (6 + 2 * N) + na * (7 + 2 * N).
Proof. exact (B0_closed_form N na HN). Qed.

(* schedules of thread steps only (Handshake.run): at most B0 steps from init, at most Bmax from any state *)
Theorem C12_schedule_length : forall fixed sch s s',
  run N na lt fixed s sch = Some s' -> length sch <= Bmax N na /\ (s = init -> length sch <= B0 N na).
Proof. exact (run_bounds N na lt). Qed.

(* the step relation is well-founded, and no infinite sequence of states has a tail of thread steps only:
   an infinite execution needs infinitely many spurious wake-ups *)
Theorem C12_step_wf : forall fixed, well_founded (step_succ N na lt fixed).
Proof. exact (step_wf N na lt). Qed.
Theorem C12_no_infinite_execution : forall fixed (sigma : nat -> state) n0,
  ~ (forall n, n0 <= n -> exists t, step N na lt fixed (sigma n) t = Some (sigma (S n))).
Proof. exact (no_infinite_steps N na lt). Qed.

(* schedule- and N-independence of the result: whenever walk_descents has returned, what it copied into x/H1 and its
   return value are those of the sequential selection walk_spec (first trial step a >= 1, in order, that reduces the residual
   w.r.t. step 0, else the last one; feasible = whether it reduces it) — a function of (na, lt) only: no N, no schedule *)
Hypothesis Hna : 2 <= na.                     (* alpha[0] = 0 and alpha[1] = 1 always exist *)
Theorem C12_deterministic : forall s,
  reachable N na lt true s -> finished s -> result s = walk_spec na lt.
Proof. exact (deterministic_spec N na lt HN Hna). Qed.
Theorem C12_deterministic_first_good : forall s,
  reachable N na lt true s -> finished s -> exists a, result s = Some (Some a, lt a 0) /\ is_first_good na lt a.
Proof. exact (deterministic_reachable N na lt HN Hna). Qed.

(* termination + no deadlock + determinism: from every reachable state, against every scheduler that picks the thread steps and
   may inject up to k spurious wake-ups (k arbitrary), reaching a state where walk_descents has returned with the sequential
   result is INEVITABLE ([inevitably]: the goal holds now, or some thread has a step and the goal is inevitable after every
   possible next step / spurious wake-up) *)
Theorem C12_eventually_finished : forall k s,
  reachable N na lt true s -> inevitably N na lt true (fun s' => finished s' /\ result s' = walk_spec na lt) k s.
Proof. exact (eventually_finished N na lt HN Hna). Qed.

(* the same for a concrete complete run: an execution from the initial state that stops where no thread has a step has
   returned from walk_descents with the sequential result, after at most B0 + 2 * #spurious thread steps *)
Theorem C12_maximal_execution_finished : forall evs s',
  exec N na lt true init evs = Some s' -> (forall t, step N na lt true s' t = None) ->
  finished s' /\ result s' = walk_spec na lt /\ nsteps evs <= B0 N na + 2 * nspur evs.
Proof. exact (maximal_execution N na lt HN Hna). Qed.
End C12.

(* ---- the code as found ---- *)
(* D7 (lost wake-up): with the original loop `while (!done) { cond_wait; re-check }` a state is reachable, for ONE worker and
   two trial steps, in which walk_descents has not returned and no thread can ever move *)
Theorem C12_refuted_lost_wakeup : exists s,
  reachable 1 2 lt_none false s /\ ~ finished s /\ forall t s', step 1 2 lt_none false s t <> Some s'.
Proof. exact refuted_lost_wakeup. Qed.

(* D15, the code as it was before its `fix:` commit (shared_common = true): with the workers sharing the caller's
   cholmod_common, two workers of a block race on it (also after the D7 fix) *)
Theorem C12_refuted_race_common : exists s,
  reachable 2 2 lt_none true s /\ raceb 2 2 lt_none true true s 1 2 LCommon = true.
Proof. exact refuted_race_common. Qed.

(* ---- the hypotheses are satisfiable on non-trivial instances ---- *)
Example C12_ex_finished : exists s,
  reachable 2 3 lt_ex true s /\ finished s /\ result s = Some (Some 2, true) /\ length ex_schedule = 53.
Proof. exact ex_finished_reachable. Qed.
(* the bound for N = 2 workers, na = 3 trial steps: B0 = 71 (Bmax = 155 from arbitrary states); the 53-step run above is within
   it and ends with potential 0.  (The exact maximum over all schedules of this configuration, measured by the extracted
   model's exhaustive search, is 67.) *)
Example C12_ex_bound : B0 2 3 = 71 /\ Bmax 2 3 = 155 /\ length ex_schedule <= B0 2 3 /\
  exists s, run 2 3 lt_ex true init ex_schedule = Some s /\ finished s /\ Phi 2 3 s = 0.
Proof. exact ex_bound. Qed.
(* the per-worker commons are really used in the model: in the very state of C12_refuted_race_common both workers have an
   enabled step that writes its own common and touches neither the other's nor the caller's; the coordinator's first step
   writes every per-worker common and reads the caller's *)
Example C12_ex_commons_used : exists s, reachable 2 2 lt_none true s /\
    enabledb 2 2 lt_none true s 1 = true /\ enabledb 2 2 lt_none true s 2 = true /\
    acc 2 2 false s 1 (LWCommon 0) = AWrite /\ acc 2 2 false s 2 (LWCommon 1) = AWrite /\
    acc 2 2 false s 1 (LWCommon 1) = ANone /\ acc 2 2 false s 2 (LWCommon 0) = ANone /\
    acc 2 2 false s 1 LCommon = ANone /\ acc 2 2 false s 2 LCommon = ANone /\
    acc 2 2 false init 0 (LWCommon 0) = AWrite /\ acc 2 2 false init 0 (LWCommon 1) = AWrite /\ acc 2 2 false init 0 LCommon = ARead.
Proof. exact ex_commons_used. Qed.
Example C12_ex_reading : exists s,
  reachable 2 3 lt_ex true s /\ coordinator_reading 2 3 s 0 /\ coordinator_reading 2 3 s 1.
Proof. exact ex_reading_reachable. Qed.

Print Assumptions C12_no_deadlock.
Print Assumptions C12_no_early_read.
Print Assumptions C12_race_free.
Print Assumptions C12_race_free_all_locations.
Print Assumptions C12_common_owner_worker.
Print Assumptions C12_common_owner_coordinator.
Print Assumptions C12_deterministic.
Print Assumptions C12_deterministic_first_good.
Print Assumptions C12_measure.
Print Assumptions C12_terminates.
Print Assumptions C12_terminates_from_init.
Print Assumptions C12_terminates_from_any.
Print Assumptions C12_B0.
Print Assumptions C12_schedule_length.
Print Assumptions C12_step_wf.
Print Assumptions C12_no_infinite_execution.
Print Assumptions C12_eventually_finished.
Print Assumptions C12_maximal_execution_finished.
Print Assumptions C12_refuted_lost_wakeup.
Print Assumptions C12_refuted_race_common.
