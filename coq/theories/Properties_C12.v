(* Properties_C12.v — C12: monotonic fitting terminates with the same result under every thread schedule.
   Statements about the transition system Handshake.v (coordinator/worker hand-shake of walk_descents +
   evaluate_descent) with fixed = true, i.e. the code after the `fix:` commit for D7 (the coordinator tests the
   worker states before it waits).  N = number of worker threads, na = number of trial step lengths,
   lt = order of the residuals; all unbounded.  Proofs: C12_Proofs.v. *)
From Coq Require Import List Arith Bool.
From PS Require Import Handshake C12_Proofs.
Import ListNotations.

Section C12.
Variables N na : nat.
Variable lt : nat -> nat -> bool.
Hypothesis HN : 1 <= N.                       (* get_nthreads() >= 1 *)

(* no lost wake-up / deadlock: in every reachable state (any interleaving, spurious wake-ups included) either
   walk_descents has returned or some thread has an enabled step.  Threads blocked in cond_wait, in lock of a held
   mutex or in join of a live thread have NO step, and spurious wake-ups do not count as steps. *)
Theorem C12_no_deadlock : forall s,
  reachable N na lt true s -> finished s \/ exists t s', step N na lt true s t = Some s'.
Proof. intros s H. apply (no_deadlock_inv N na lt HN). apply (inv_reachable N na lt HN); assumption. Qed.

(* the coordinator never uses a worker's result before that worker has finished the trial step of this block *)
Theorem C12_no_early_read : forall s j,
  reachable N na lt true s -> coordinator_reading N na s j -> worker_done_with_block N s j.
Proof. intros s j H. apply no_early_read_inv. apply (inv_reachable N na lt HN); assumption. Qed.

(* race freedom on the modelled shared locations (state[j], alpha[j], the outputs of trial j, x): no two different
   threads ever have enabled steps with conflicting accesses — on every location except the shared cholmod_common,
   and on that one too if the workers do not share it (shared_common = false) *)
Theorem C12_race_free : forall shared_common s t1 t2 l,
  reachable N na lt true s -> (l <> LCommon \/ shared_common = false) ->
  raceb N na lt true shared_common s t1 t2 l = false.
Proof. intros sc s t1 t2 l H Hl. apply race_free_inv; [exact HN | apply (inv_reachable N na lt HN); assumption | exact Hl]. Qed.

(* schedule- and N-independence of the result: whenever walk_descents has returned, what it copied into x/H1 and its
   return value are those of the sequential selection walk_spec (first trial step a >= 1, in order, that reduces the residual
   w.r.t. step 0, else the last one; feasible = whether it reduces it) — a function of (na, lt) only: no N, no schedule *)
Hypothesis Hna : 2 <= na.                     (* alpha[0] = 0 and alpha[1] = 1 always exist *)
Theorem C12_deterministic : forall s,
  reachable N na lt true s -> finished s -> result s = walk_spec na lt.
Proof. exact (deterministic_spec N na lt HN Hna). Qed.
Theorem C12_deterministic_first_good : forall s,
  reachable N na lt true s -> finished s -> exists a, result s = Some (Some a, lt a 0) /\ is_first_good na lt a.
Proof. exact (deterministic_reachable N na lt HN Hna). Qed.
End C12.

(* ---- the code as found ---- *)
(* D7 (lost wake-up): with the original loop `while (!done) { cond_wait; re-check }` a state is reachable, for ONE worker and
   two trial steps, in which walk_descents has not returned and no thread can ever move *)
Theorem C12_refuted_lost_wakeup : exists s,
  reachable 1 2 lt_none false s /\ ~ finished s /\ forall t s', step 1 2 lt_none false s t <> Some s'.
Proof. exact refuted_lost_wakeup. Qed.

(* D15: with the workers sharing one cholmod_common, two workers of a block race on it (also after the D7 fix) *)
Theorem C12_refuted_race_common : exists s,
  reachable 2 2 lt_none true s /\ raceb 2 2 lt_none true true s 1 2 LCommon = true.
Proof. exact refuted_race_common. Qed.

(* ---- the hypotheses are satisfiable on non-trivial instances ---- *)
Example C12_ex_finished : exists s,
  reachable 2 3 lt_ex true s /\ finished s /\ result s = Some (Some 2, true) /\ length ex_schedule = 53.
Proof. exact ex_finished_reachable. Qed.
Example C12_ex_reading : exists s,
  reachable 2 3 lt_ex true s /\ coordinator_reading 2 3 s 0 /\ coordinator_reading 2 3 s 1.
Proof. exact ex_reading_reachable. Qed.

Print Assumptions C12_no_deadlock.
Print Assumptions C12_no_early_read.
Print Assumptions C12_race_free.
Print Assumptions C12_deterministic.
Print Assumptions C12_deterministic_first_good.
Print Assumptions C12_refuted_lost_wakeup.
Print Assumptions C12_refuted_race_common.
