(* AuxModel.v — executable model of photospline's auxiliary key store (C16).
   Sources transcribed (paths relative to the library root):
     include/photospline/detail/aux.h      get_aux_value, remove_key, read_key, write_key
     include/photospline/splinetable.h     get_naux_values, get_aux_key
     src/core/fitsio.cpp                   reservedFitsKeyword
     include/photospline/detail/fitsio.h   write_fits_core (aux loop), read_fits_core (aux block)
     src/cinter/splinetable.cpp            splinetable_get_key / read_key / write_key
   plus an environment model of the four cfitsio 4.2 routines the aux path goes through
   (ffs2c, ffmkky, ffgknm, ffpsvc) restricted to string-valued cards.
   Everything that is a constant or a list in the source is a field of [params]; the instance for the
   current tree is written by tools/translators/aux.py into Generated_aux.v, the instance for the
   pinned upstream code is [upstream_params] below (used only by the *_refuted witnesses).
   No proofs in this file. Strings are NUL-free C strings. *)
From Coq Require Import List String Ascii NArith ZArith Bool Arith.
Import ListNotations.
Open Scope string_scope.
Open Scope nat_scope.

(* ------------------------------------------------------------------------------------------ *)
(* parameters taken from the source by the translator *)
Record params := {
  p_reserved_prefix : list string;   (* fitsio.cpp reservedFitsKeyword: strncmp(LIT,key,strlen(LIT))==0 *)
  p_reserved_exact  : list string;   (* ... strcmp(LIT,key)==0 *)
  p_short_keylen    : nat;           (* aux.h write_key: keylen<=9  -> 8 *)
  p_short_vmax      : N;             (* size_t maxdatalen=68 *)
  p_card            : N;             (* maxdatalen=80-(13+keylen-1) -> 80 *)
  p_hier_overhead   : N;             (* ... 13 *)
  p_long_keymax     : option nat;    (* fixed tree: keylen-1>66 rejected; upstream: no such check *)
  p_long_blank_check: bool;          (* fixed tree: leading/trailing blank or leading "HIERARCH " rejected *)
  p_quote_aware     : bool;          (* fixed tree: a quote counts twice against the length limit *)
  p_unquote_read    : bool;          (* fixed tree: read_fits_core undoes the doubling of quotes *)
  p_printable_check : bool;          (* fixed tree: characters outside 32..126 rejected in long keys and in values *)
  p_c_read_reports  : bool           (* fixed tree: splinetable_read_key returns 1 when read_key returns false *)
}.

Definition upstream_params : params := {|
  p_reserved_prefix := ["BITPIX";"SIMPLE";"TYPE";"ORDER";"NAXIS";"PERIOD";"EXTEND";"COMMENT"];
  p_reserved_exact := [];
  p_short_keylen := 8; p_short_vmax := 68%N; p_card := 80%N; p_hier_overhead := 13%N;
  p_long_keymax := None; p_long_blank_check := false; p_quote_aware := false; p_unquote_read := false; p_printable_check := false;
  p_c_read_reports := false |}.

(* ------------------------------------------------------------------------------------------ *)
(* characters *)
Definition code (c : ascii) : nat := nat_of_ascii c.
Definition is_upper (c : ascii) : bool := (65 <=? code c) && (code c <=? 90).
Definition is_lower (c : ascii) : bool := (97 <=? code c) && (code c <=? 122).
Definition is_digit (c : ascii) : bool := (48 <=? code c) && (code c <=? 57).
(* isspace in the "C" locale: blank, \t \n \v \f \r *)
Definition is_space (c : ascii) : bool := (code c =? 32) || ((9 <=? code c) && (code c <=? 13)).
Definition is_printable (c : ascii) : bool := (32 <=? code c) && (code c <=? 126).
Definition quote : ascii := "'"%char.
Definition blank : ascii := " "%char.
Definition eq_sign : ascii := "="%char.
Definition is_quote (c : ascii) : bool := Ascii.eqb c quote.
Definition is_blank (c : ascii) : bool := Ascii.eqb c blank.

Fixpoint forall_chars (f : ascii -> bool) (s : string) : bool :=
  match s with EmptyString => true | String c r => f c && forall_chars f r end.
Fixpoint count_chars (f : ascii -> bool) (s : string) : nat :=
  match s with EmptyString => 0 | String c r => (if f c then 1 else 0) + count_chars f r end.
Fixpoint last_char (s : string) : option ascii :=
  match s with EmptyString => None | String c EmptyString => Some c | String _ r => last_char r end.
Definition first_char (s : string) : option ascii := match s with EmptyString => None | String c _ => Some c end.
Fixpoint repeat_char (c : ascii) (n : nat) : string := match n with O => EmptyString | S m => String c (repeat_char c m) end.
Fixpoint take (n : nat) (s : string) : string :=
  match n, s with O, _ => EmptyString | _, EmptyString => EmptyString | S m, String c r => String c (take m r) end.
Fixpoint drop (n : nat) (s : string) : string :=
  match n, s with O, _ => s | _, EmptyString => EmptyString | S m, String _ r => drop m r end.
Fixpoint drop_while (f : ascii -> bool) (s : string) : string :=
  match s with EmptyString => EmptyString | String c r => if f c then drop_while f r else s end.
(* removes trailing blanks: the "up to trailing blanks" of the property *)
Fixpoint rstrip (s : string) : string :=
  match s with
  | EmptyString => EmptyString
  | String c r => match rstrip r with
                  | EmptyString => if is_blank c then EmptyString else String c EmptyString
                  | r' => String c r'
                  end
  end.
Definition strip_blanks (s : string) : string := rstrip (drop_while is_blank s).

(* ------------------------------------------------------------------------------------------ *)
(* the store: aux[i][0], aux[i][1] for i < naux, in array order *)
Definition store := list (string * string).

(* get_aux_value (aux.h 9-19): first entry whose key compares equal *)
Fixpoint get (k : string) (s : store) : option string :=
  match s with [] => None | (k', v) :: r => if String.eqb k k' then Some v else get k r end.
(* get_naux_values / get_aux_key(i) (splinetable.h) *)
Definition naux (s : store) : nat := List.length s.
Definition nth_key (i : nat) (s : store) : option string := nth_error (map fst s) i.
(* read_key(key, std::string&) (aux.h 74-81) *)
Definition read_str (k : string) (s : store) : option string := get k s.

(* remove_key (aux.h 22-60): the first matching index is dropped, the others keep their order *)
Fixpoint remove_first (k : string) (s : store) : store :=
  match s with [] => [] | (k', v) :: r => if String.eqb k k' then r else (k', v) :: remove_first k r end.
Definition has_key (k : string) (s : store) : bool := match get k s with Some _ => true | None => false end.
Definition remove_key (k : string) (s : store) : store * bool :=
  if has_key k s then (remove_first k s, true) else (s, false).

(* ------------------------------------------------------------------------------------------ *)
(* write_key (aux.h 84-196) *)
Inductive err := E_reserved | E_shortchar | E_eq | E_lower | E_keychar | E_longkey | E_blank | E_valchar | E_toolong.
Inductive wres := W_appended | W_overwritten | W_rejected (e : err).

(* reservedFitsKeyword (fitsio.cpp 28-37) *)
Definition reserved (p : params) (k : string) : bool :=
  existsb (fun r => String.prefix r k) p.(p_reserved_prefix) || existsb (fun r => String.eqb r k) p.(p_reserved_exact).

(* the loop over a long key: first offending character decides the exception *)
Fixpoint long_scan (pc : bool) (k : string) : option err :=
  match k with
  | EmptyString => None
  | String c r => if Ascii.eqb c eq_sign then Some E_eq else if is_lower c then Some E_lower
                  else if pc && negb (is_printable c) then Some E_keychar else long_scan pc r
  end.

Definition hier_prefix : string := "HIERARCH ".

(* size_t arithmetic of  maxdatalen=80-(13+keylen-1) : wraps modulo 2^64 when the key is longer than 67 *)
Definition long_vmax (p : params) (klen : nat) : N :=
  let used := (p.(p_hier_overhead) + N.of_nat klen)%N in
  if (used <=? p.(p_card))%N then (p.(p_card) - used)%N else (2 ^ 64 - (used - p.(p_card)))%N.

(* key validation: inl = exception thrown, inr = maxdatalen *)
Definition check_key (p : params) (k : string) : err + N :=
  if reserved p k then inl E_reserved else
  let klen := String.length k in
  if klen <=? p.(p_short_keylen) then
    (* !(isupper||isdigit) || '-' || '_'  : the last two disjuncts are subsumed by the first *)
    if forall_chars (fun c => is_upper c || is_digit c) k then inr p.(p_short_vmax) else inl E_shortchar
  else
    match long_scan p.(p_printable_check) k with
    | Some e => inl e
    | None =>
      if match p.(p_long_keymax) with Some m => m <? klen | None => false end then inl E_longkey else
      if p.(p_long_blank_check) &&
         (match first_char k with Some c => is_blank c | None => false end ||
          match last_char k with Some c => is_blank c | None => false end ||
          String.prefix hier_prefix k) then inl E_blank else
      inr (long_vmax p klen)
    end.

(* length that is compared with maxdatalen *)
Definition enc_len (p : params) (v : string) : N :=
  N.of_nat (String.length v + (if p.(p_quote_aware) then count_chars is_quote v else 0)).

(* the update loop: first matching index gets the new value *)
Fixpoint update_first (k v : string) (s : store) : store :=
  match s with [] => [] | (k', v') :: r => if String.eqb k k' then (k', v) :: r else (k', v') :: update_first k v r end.

Definition write_key (p : params) (k v : string) (s : store) : store * wres :=
  match check_key p k with
  | inl e => (s, W_rejected e)
  | inr vmax =>
    if p.(p_printable_check) && negb (forall_chars is_printable v) then (s, W_rejected E_valchar) else
    if (vmax <? enc_len p v)%N then (s, W_rejected E_toolong) else
    if has_key k s then (update_first k v s, W_overwritten) else ((s ++ [(k, v)])%list, W_appended)
  end.

(* predicate form used by the theorems *)
Definition accepts (p : params) (k v : string) : bool :=
  match check_key p k with
  | inl _ => false
  | inr vmax => negb (p.(p_printable_check) && negb (forall_chars is_printable v)) && negb (vmax <? enc_len p v)%N
  end.

(* ------------------------------------------------------------------------------------------ *)
(* operator<< (int) and operator>> (int) on the stored text *)
Definition digit_char (d : N) : ascii := ascii_of_nat (48 + N.to_nat d).
Definition digit_val (c : ascii) : N := N.of_nat (code c - 48).

(* least significant digit first *)
Fixpoint lsd_digits (fuel : nat) (n : N) : list N :=
  match fuel with
  | O => []
  | S f => (n mod 10)%N :: (if (n <? 10)%N then [] else lsd_digits f (n / 10)%N)
  end.
Definition string_of_list (l : list ascii) : string := fold_right String EmptyString l.
Definition print_N (n : N) : string := string_of_list (map digit_char (rev (lsd_digits (S (N.to_nat (N.log2 n))) n))).
Definition print_Z (z : Z) : string :=
  match z with Zneg q => String "-"%char (print_N (Npos q)) | _ => print_N (Z.to_N z) end.

(* longest digit prefix, accumulated base 10; returns the value and whether any digit was seen *)
Fixpoint parse_digits (s : string) (acc : N) (seen : bool) : N * bool :=
  match s with
  | String c r => if is_digit c then parse_digits r (acc * 10 + digit_val c)%N true else (acc, seen)
  | EmptyString => (acc, seen)
  end.
(* num_get for a decimal integer: skip white space, optional sign, at least one digit, stop at the first other character *)
Definition parse_Z (s : string) : option Z :=
  let s1 := drop_while is_space s in
  let '(neg, s2) := match s1 with
                    | String c r => if Ascii.eqb c "-"%char then (true, r) else if Ascii.eqb c "+"%char then (false, r) else (false, s1)
                    | EmptyString => (false, s1) end in
  let '(n, seen) := parse_digits s2 0%N false in
  if seen then Some (if neg then (- Z.of_N n)%Z else Z.of_N n) else None.

Definition int_min : Z := (- 2147483648)%Z.
Definition int_max : Z := 2147483647%Z.
(* read_key<int> (aux.h 62-71): false when the key is absent, nothing parses, or the value overflows int *)
Definition read_int (k : string) (s : store) : option Z :=
  match get k s with
  | None => None
  | Some v => match parse_Z v with
              | Some z => if (int_min <=? z)%Z && (z <=? int_max)%Z then Some z else None
              | None => None end
  end.
Definition write_int (p : params) (k : string) (z : Z) (s : store) : store * wres := write_key p k (print_Z z) s.

(* ------------------------------------------------------------------------------------------ *)
(* FITS cards: environment model of cfitsio for string values *)

(* ffs2c: opening quote, every quote doubled, blank padded to 8 characters, closing quote; input capped at
   68 characters and output at 70 (when the cap cuts a doubled quote the closing quote is lost) *)
Fixpoint s2c_loop (v : string) (jj : nat) : string * nat :=
  match v with
  | EmptyString => (EmptyString, jj)
  | String c r =>
    if 69 <=? jj then (EmptyString, jj) else
    if is_quote c then let '(o, j) := s2c_loop r (jj + 2) in (String c (String c o), j)
    else let '(o, j) := s2c_loop r (jj + 1) in (String c o, j)
  end.
Definition ffs2c (v : string) : string :=
  let '(body, jj) := s2c_loop (take 68 v) 1 in
  if jj =? 70 then String quote (take 68 body)
  else String quote (body ++ repeat_char blank (9 - jj) ++ String quote EmptyString).

(* ffmkky for a quoted string value and no comment. Keys of at most 8 characters that the library accepts are
   legal standard keywords; longer ones use the HIERARCH convention. None = cfitsio reports an error. *)
Definition pad_to (n : nat) (s : string) : string := s ++ repeat_char blank (n - String.length s).
Definition fit_value (room : nat) (vs : string) : string :=
  if String.length vs <=? room then vs else take (room - 1) vs ++ String quote EmptyString.
Definition ffmkky (k vs : string) : option string :=
  let k := strip_blanks k in
  let klen := String.length k in
  if klen <=? 8 then Some (pad_to 8 k ++ "= " ++ vs)
  else
    let '(body, blen) := if String.prefix hier_prefix k then (k, klen - 9) else (hier_prefix ++ k, klen) in
    let head := if 80 <? blen + 12 + String.length vs then body ++ "= " else body ++ " = " in
    let room := 80 - String.length head in
    if room <? 3 then None else Some (head ++ fit_value room vs).

(* ffgknm: the keyword of a card *)
Fixpoint before_eq (s : string) : string :=
  match s with EmptyString => EmptyString | String c r => if Ascii.eqb c eq_sign then EmptyString else String c (before_eq r) end.
Fixpoint after_eq (s : string) : option string :=
  match s with EmptyString => None | String c r => if Ascii.eqb c eq_sign then Some r else after_eq r end.
Definition card_name (card : string) : string :=
  if String.prefix hier_prefix card then
    match after_eq card with
    | Some _ => strip_blanks (before_eq (drop 9 card))
    | None => "HIERARCH"
    end
  else strip_blanks (before_eq (take 8 card)).

(* ffpsvc: the raw value text of a card. A quoted string is returned with its quotes, doubled quotes untouched;
   None = NO_QUOTE error (the library then skips the card) *)
Fixpoint quoted_tail (s : string) : option string :=   (* s = text after the opening quote *)
  match s with
  | EmptyString => None
  | String c r =>
    if is_quote c then
      match r with
      | String c2 r2 => if is_quote c2 then option_map (fun t => String c (String c2 t)) (quoted_tail r2)
                        else Some (String c EmptyString)
      | EmptyString => Some (String c EmptyString)
      end
    else option_map (String c) (quoted_tail r)
  end.
Fixpoint bare_token (s : string) : string :=
  match s with EmptyString => EmptyString
  | String c r => if is_blank c || Ascii.eqb c "/"%char then EmptyString else String c (bare_token r) end.
Definition commentary (card : string) : bool :=
  let h := pad_to 8 (take 8 card) in
  existsb (String.eqb h) ["COMMENT "; "HISTORY "; "END     "; "CONTINUE"; "        "].
Definition parse_value_text (t : string) : option string :=
  match drop_while is_blank t with
  | String c r => if is_quote c then option_map (String c) (quoted_tail r) else Some (bare_token (String c r))
  | EmptyString => Some EmptyString
  end.
Definition card_value (card : string) : option string :=
  if commentary card then Some EmptyString else
  if String.prefix hier_prefix card then
    match after_eq card with Some t => parse_value_text t | None => Some EmptyString end
  else if String.eqb (take 2 (drop 8 card)) "= " then parse_value_text (drop 10 card) else Some EmptyString.

(* read_fits_core (fitsio.h 214-252): quote stripping, and in the fixed tree un-doubling *)
Fixpoint undouble (s : string) : string :=
  match s with
  | EmptyString => EmptyString
  | String c r =>
    match r with
    | String c2 r2 => if is_quote c && is_quote c2 then String c2 (undouble r2) else String c (undouble r)
    | EmptyString => String c EmptyString
    end
  end.
Definition strip_quotes (raw : string) : string :=
  match raw with
  | String c r =>
    if is_quote c then
      (* valuelen>2 && value[valuelen-2]=='\'' : both quotes go, otherwise only the opening one *)
      match last_char r with
      | Some l => if is_quote l then take (String.length r - 1) r else r
      | None => r
      end
    else raw
  | EmptyString => EmptyString
  end.
Definition reader_value (p : params) (raw : string) : string :=
  let v := strip_quotes raw in
  if p.(p_unquote_read) && match first_char raw with Some c => is_quote c | None => false end then undouble v else v.

(* the header: cards the library writes itself (all reserved), then one card per aux entry (write_fits_core
   422-428: the first failing fits_write_key makes write_fits throw) *)
(* ffprec: every character outside 32..126 is replaced by a blank when the card is written *)
Fixpoint sanitize (s : string) : string :=
  match s with EmptyString => EmptyString | String c r => String (if is_printable c then c else blank) (sanitize r) end.
Fixpoint write_cards (s : store) : option (list string) :=
  match s with
  | [] => Some []
  | (k, v) :: r => match ffmkky k (ffs2c v), write_cards r with Some c, Some cs => Some (sanitize c :: cs) | _, _ => None end
  end.
(* fits_get_hdrspace counts the cards before the END card; read_fits_core keeps every card that reads without
   error and is not reserved *)
Fixpoint read_cards (p : params) (cards : list string) : store :=
  match cards with
  | [] => []
  | c :: r =>
    if String.eqb (pad_to 8 (take 8 c)) "END     " then [] else
    let name := card_name c in
    match card_value c with
    | None => read_cards p r
    | Some raw => if reserved p name then read_cards p r else (name, reader_value p raw) :: read_cards p r
    end
  end.
(* write_fits + read_fits (or the _mem pair). [prelude] = the cards before the aux cards (SIMPLE .. ORDERn, PERIODn) *)
Definition roundtrip (p : params) (prelude : list string) (s : store) : option store :=
  match write_cards s with
  | Some cs => Some (read_cards p (prelude ++ cs)%list)
  | None => None
  end.
(* the cards photospline and cfitsio put in front of the aux cards for the 1-d table the harness uses *)
Definition harness_prelude : list string :=
  ["SIMPLE  =                    T / file does conform to FITS standard";
   "BITPIX  =                  -32 / number of bits per data pixel";
   "NAXIS   =                    1 / number of data axes";
   "NAXIS1  =                    3 / length of data axis 1";
   "EXTEND  =                    T / FITS dataset may contain extensions";
   "COMMENT   FITS (Flexible Image Transport System) format is defined in 'Astronomy";
   "COMMENT   and Astrophysics', volume 376, page 359; bibcode: 2001A&A...376..359H";
   "TYPE    = 'Spline Coefficient Table'";
   "ORDER0  =                    1 / B-Spline Order"].

(* ------------------------------------------------------------------------------------------ *)
(* operation sequences *)
Inductive op :=
| OWrite (k v : string) | OWriteInt (k : string) (z : Z) | ORemove (k : string)
| OGet (k : string) | OReadInt (k : string) | OReadStr (k : string) | ONthKey (i : nat) | ONaux.
Inductive out :=
| RWrite (r : wres) | RBool (b : bool) | RStr (v : option string) | RInt (z : option Z) | RNat (n : nat).

Definition step (p : params) (s : store) (o : op) : store * out :=
  match o with
  | OWrite k v => let '(s', r) := write_key p k v s in (s', RWrite r)
  | OWriteInt k z => let '(s', r) := write_int p k z s in (s', RWrite r)
  | ORemove k => let '(s', b) := remove_key k s in (s', RBool b)
  | OGet k => (s, RStr (get k s))
  | OReadStr k => (s, RStr (read_str k s))
  | OReadInt k => (s, RInt (read_int k s))
  | ONthKey i => (s, RStr (nth_key i s))
  | ONaux => (s, RNat (naux s))
  end.
Fixpoint run (p : params) (s : store) (ops : list op) : store * list out :=
  match ops with
  | [] => (s, [])
  | o :: r => let '(s1, x) := step p s o in let '(s2, xs) := run p s1 r in (s2, x :: xs)
  end.

(* ------------------------------------------------------------------------------------------ *)
(* the abstract ordered map: insertion order of the present keys and a total lookup function *)
Record amap := { a_order : list string; a_map : string -> option string }.
Definition a_empty : amap := {| a_order := []; a_map := fun _ => None |}.
Definition a_put (k v : string) (a : amap) : amap :=
  {| a_order := match a.(a_map) k with Some _ => a.(a_order) | None => (a.(a_order) ++ [k])%list end;
     a_map := fun k' => if String.eqb k' k then Some v else a.(a_map) k' |}.
Definition a_del (k : string) (a : amap) : amap :=
  {| a_order := filter (fun k' => negb (String.eqb k' k)) a.(a_order);
     a_map := fun k' => if String.eqb k' k then None else a.(a_map) k' |}.
Definition a_present (k : string) (a : amap) : bool := match a.(a_map) k with Some _ => true | None => false end.

Definition a_write (p : params) (k v : string) (a : amap) : amap * wres :=
  match check_key p k with
  | inl e => (a, W_rejected e)
  | inr vmax =>
    if p.(p_printable_check) && negb (forall_chars is_printable v) then (a, W_rejected E_valchar) else
    if (vmax <? enc_len p v)%N then (a, W_rejected E_toolong) else
    (a_put k v a, if a_present k a then W_overwritten else W_appended)
  end.
Definition a_read_int (k : string) (a : amap) : option Z :=
  match a.(a_map) k with
  | None => None
  | Some v => match parse_Z v with
              | Some z => if (int_min <=? z)%Z && (z <=? int_max)%Z then Some z else None
              | None => None end
  end.
Definition a_step (p : params) (a : amap) (o : op) : amap * out :=
  match o with
  | OWrite k v => let '(a', r) := a_write p k v a in (a', RWrite r)
  | OWriteInt k z => let '(a', r) := a_write p k (print_Z z) a in (a', RWrite r)
  | ORemove k => (if a_present k a then a_del k a else a, RBool (a_present k a))
  | OGet k => (a, RStr (a.(a_map) k))
  | OReadStr k => (a, RStr (a.(a_map) k))
  | OReadInt k => (a, RInt (a_read_int k a))
  | ONthKey i => (a, RStr (nth_error a.(a_order) i))
  | ONaux => (a, RNat (List.length a.(a_order)))
  end.
Fixpoint a_run (p : params) (a : amap) (ops : list op) : amap * list out :=
  match ops with
  | [] => (a, [])
  | o :: r => let '(a1, x) := a_step p a o in let '(a2, xs) := a_run p a1 r in (a2, x :: xs)
  end.
(* abstraction of a concrete store *)
Definition abs (s : store) : amap := {| a_order := map fst s; a_map := fun k => get k s |}.
