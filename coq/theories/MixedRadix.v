(* MixedRadix.v — row-major (C order) indexing of dense n-dimensional arrays.  Shared library: standard library only
   (ZArith / List / Lia / Permutation), no axioms, nothing specific to one property.

   A *shape* is the list of axis lengths [n_0; ...; n_{d-1}] (slowest axis first, as photospline's naxes), a
   *multi-index* a list [m_0; ...; m_{d-1}] with 0 <= m_k < n_k.

     prod sh              n_0 * ... * n_{d-1}                      (number of elements)
     strides sh           [n_1*...*n_{d-1}; ...; n_{d-1}; 1]       (row-major strides, photospline's strides)
     dot a b              sum_k a_k * b_k
     flat sh m            dot m (strides sh)                        (position of multi-index m in the flat array)
     unflat sh p          [(p / stride_k) mod n_k]_k                (the digits of position p: what the C code computes
                                                                     with  pos / strides[k] % naxes[k])
     in_shape sh m        0 <= m_k < n_k for every k                (Forall2)
     pos_shape sh         0 < n_k for every k
     pick p l d           [l_{p_0}; l_{p_1}; ...]                   (relabelling of axes by an index list p)
     is_perm p n          p is a permutation of 0..n-1
     zsum l               sum of a list of integers

   Main facts
     flat_bounds          in_shape sh m -> 0 <= flat sh m < prod sh
     unflat_flat          in_shape sh m -> unflat sh (flat sh m) = m
     flat_unflat          pos_shape sh -> 0 <= p < prod sh -> flat sh (unflat sh p) = p
     flat_unflat_mod      pos_shape sh -> flat sh (unflat sh p) = p mod prod sh
     unflat_in_shape      pos_shape sh -> in_shape sh (unflat sh p)
     unflat_nth, flat_digit   (flat sh m / stride_k) mod n_k = m_k   (the digit lemma, with nth)
     flat_inj             flat is injective on in_shape
     dot_sum, dot_pick    dot as an indexed sum; invariance of dot under a common permutation of both arguments
     flat_pick            flat (pick p sh) (pick p m) = sum_k m_{p_k} * stride'_k  ... see [flat_pick_sum]
     prod_pick            prod (pick p sh 1) = prod sh for a permutation p
     pick_pick_inv        pick q (pick p l) = l when p o q = id
     is_perm facts        range, NoDup, nth of a permutation hits every index, inverse characterisation
   Not provided yet (planned for the block walker of C01/C05): the odometer lemma for "next multi-index". *)
From Coq Require Import ZArith List Lia Permutation Arith.
Import ListNotations.
Local Open Scope Z_scope.

(* ------------------------------------------------------------------------------------------------ *)
(** * Definitions *)
Fixpoint prod (sh : list Z) : Z :=
  match sh with [] => 1 | n :: r => n * prod r end.

Fixpoint strides (sh : list Z) : list Z :=
  match sh with [] => [] | _ :: r => prod r :: strides r end.

Fixpoint dot (a b : list Z) : Z :=
  match a, b with x :: a', y :: b' => x * y + dot a' b' | _, _ => 0 end.

Definition flat (sh m : list Z) : Z := dot m (strides sh).

Fixpoint unflat (sh : list Z) (p : Z) : list Z :=
  match sh with [] => [] | n :: r => (p / prod r) mod n :: unflat r p end.

Definition pos_shape (sh : list Z) : Prop := Forall (fun n => 0 < n) sh.
Definition in_shape (sh m : list Z) : Prop := Forall2 (fun n i => 0 <= i < n) sh m.

Definition zsum (l : list Z) : Z := fold_right Z.add 0 l.

Definition pick {A : Type} (p : list nat) (l : list A) (d : A) : list A := map (fun j => nth j l d) p.
Definition is_perm (p : list nat) (n : nat) : Prop := Permutation p (seq 0 n).

(* ------------------------------------------------------------------------------------------------ *)
(** * Products, strides, bounds *)
Lemma prod_pos : forall sh, pos_shape sh -> 0 < prod sh.
Proof. induction 1 as [|n r Hn Hr IH]; cbn [prod]; [lia|nia]. Qed.

Lemma prod_app : forall a b, prod (a ++ b) = prod a * prod b.
Proof. induction a as [|x a IH]; intros b; cbn [prod app]; [lia|rewrite IH; ring]. Qed.

Lemma prod_rev : forall l, prod (rev l) = prod l.
Proof. induction l as [|x l IH]; cbn [rev prod]; [reflexivity|]. rewrite prod_app, IH. cbn [prod]. ring. Qed.

Lemma prod_Permutation : forall a b, Permutation a b -> prod a = prod b.
Proof. induction 1; cbn [prod]; lia. Qed.

Lemma length_strides : forall sh, length (strides sh) = length sh.
Proof. induction sh; cbn; congruence. Qed.

Lemma length_unflat : forall sh p, length (unflat sh p) = length sh.
Proof. induction sh; intros; cbn; auto. Qed.

Lemma in_shape_length : forall sh m, in_shape sh m -> length m = length sh.
Proof. induction 1; cbn; congruence. Qed.

Lemma in_shape_pos : forall sh m, in_shape sh m -> pos_shape sh.
Proof. induction 1 as [|n i sh m Hi _ IH]; constructor; [lia|assumption]. Qed.

Lemma strides_nth_hd : forall n r, nth 0 (strides (n :: r)) 0 = prod r.
Proof. reflexivity. Qed.

Lemma flat_cons : forall n r i m, flat (n :: r) (i :: m) = i * prod r + flat r m.
Proof. reflexivity. Qed.

Lemma flat_nil : forall sh, flat sh [] = 0.
Proof. reflexivity. Qed.

Lemma flat_bounds : forall sh m, in_shape sh m -> 0 <= flat sh m < prod sh.
Proof.
  induction 1 as [|n i sh m Hi Hm IH].
  - cbn. lia.
  - rewrite flat_cons. cbn [prod].
    pose proof (prod_pos sh (in_shape_pos _ _ Hm)) as HP. nia.
Qed.

(* ------------------------------------------------------------------------------------------------ *)
(** * Round trips *)
(* the digits of the trailing axes do not see multiples of their total size *)
Lemma unflat_shift : forall r a q, pos_shape r -> unflat r (a * prod r + q) = unflat r q.
Proof.
  induction r as [|n r IH]; intros a q Hpos; [reflexivity|].
  inversion Hpos as [|? ? Hn Hr]; subst.
  pose proof (prod_pos r Hr) as HP.
  cbn [unflat prod]. f_equal.
  - replace (a * (n * prod r) + q) with (a * n * prod r + q) by ring.
    rewrite Z.div_add_l by lia.
    rewrite (Z.add_comm (a * n)). apply Z_mod_plus_full.
  - replace (a * (n * prod r) + q) with (a * n * prod r + q) by ring. apply IH; assumption.
Qed.

Theorem unflat_flat : forall sh m, in_shape sh m -> unflat sh (flat sh m) = m.
Proof.
  induction 1 as [|n i sh m Hi Hm IH]; [reflexivity|].
  pose proof (in_shape_pos _ _ Hm) as Hpos. pose proof (prod_pos _ Hpos) as HP.
  pose proof (flat_bounds _ _ Hm) as Hb.
  rewrite flat_cons. cbn [unflat]. f_equal.
  - rewrite Z.div_add_l by lia. rewrite (Z.div_small (flat sh m)) by lia.
    rewrite Z.add_0_r. apply Z.mod_small; lia.
  - rewrite unflat_shift by assumption. exact IH.
Qed.

Theorem flat_unflat_mod : forall sh p, pos_shape sh -> flat sh (unflat sh p) = p mod prod sh.
Proof.
  induction sh as [|n r IH]; intros p Hpos.
  - cbn. symmetry. apply Z.mod_1_r.
  - inversion Hpos as [|? ? Hn Hr]; subst. pose proof (prod_pos r Hr) as HP.
    cbn [unflat]. rewrite flat_cons, IH by assumption. cbn [prod].
    rewrite (Z.mul_comm n (prod r)). rewrite Z.rem_mul_r by lia. ring.
Qed.

Theorem flat_unflat : forall sh p, pos_shape sh -> 0 <= p < prod sh -> flat sh (unflat sh p) = p.
Proof. intros sh p Hpos Hp. rewrite flat_unflat_mod by assumption. apply Z.mod_small; assumption. Qed.

Theorem unflat_in_shape : forall sh p, pos_shape sh -> in_shape sh (unflat sh p).
Proof.
  induction 1 as [|n r Hn Hr IH]; cbn [unflat]; constructor; [|exact IH].
  apply Z.mod_pos_bound; assumption.
Qed.

Theorem flat_inj : forall sh m1 m2, in_shape sh m1 -> in_shape sh m2 -> flat sh m1 = flat sh m2 -> m1 = m2.
Proof.
  intros sh m1 m2 H1 H2 E. rewrite <- (unflat_flat sh m1 H1), <- (unflat_flat sh m2 H2), E. reflexivity.
Qed.

Theorem unflat_inj : forall sh p q, pos_shape sh -> 0 <= p < prod sh -> 0 <= q < prod sh ->
  unflat sh p = unflat sh q -> p = q.
Proof.
  intros sh p q Hpos Hp Hq E. rewrite <- (flat_unflat sh p Hpos Hp), <- (flat_unflat sh q Hpos Hq), E. reflexivity.
Qed.

(* ------------------------------------------------------------------------------------------------ *)
(** * The digit lemma:  (pos / stride_k) mod n_k  is the k-th digit *)
Theorem unflat_nth : forall sh p k ds dn, (k < length sh)%nat ->
  nth k (unflat sh p) 0 = (p / nth k (strides sh) ds) mod (nth k sh dn).
Proof.
  induction sh as [|n r IH]; intros p k ds dn Hk; [cbn in Hk; lia|].
  destruct k as [|k]; [reflexivity|]. cbn [unflat strides nth]. apply IH. cbn in Hk. lia.
Qed.

Theorem flat_digit : forall sh m k ds dn, in_shape sh m -> (k < length sh)%nat ->
  (flat sh m / nth k (strides sh) ds) mod (nth k sh dn) = nth k m 0.
Proof.
  intros sh m k ds dn Hm Hk. rewrite <- (unflat_nth sh (flat sh m) k ds dn Hk).
  rewrite unflat_flat by assumption. reflexivity.
Qed.

(* ------------------------------------------------------------------------------------------------ *)
(** * Sums *)
Lemma zsum_app : forall a b, zsum (a ++ b) = zsum a + zsum b.
Proof. unfold zsum. induction a as [|x a IH]; intros b; cbn [fold_right app]; [lia|]. rewrite IH. lia. Qed.

Lemma zsum_Permutation : forall a b, Permutation a b -> zsum a = zsum b.
Proof. unfold zsum. induction 1; cbn [fold_right]; lia. Qed.

Lemma fold_left_add_zsum : forall (A : Type) (f : A -> Z) l acc,
  fold_left (fun a x => a + f x) l acc = acc + zsum (map f l).
Proof.
  intros A f. unfold zsum. induction l as [|x l IH]; intros acc; cbn [fold_left map fold_right]; [lia|].
  rewrite IH. lia.
Qed.

Lemma list_as_map_seq : forall (A : Type) (l : list A) d, l = map (fun k => nth k l d) (seq 0 (length l)).
Proof.
  intros A l d. induction l as [|x l IH]; [reflexivity|].
  cbn [length seq map nth]. f_equal. rewrite <- seq_shift, map_map. exact IH.
Qed.

Lemma map_as_map_seq : forall (A B : Type) (g : A -> B) (l : list A) d,
  map g l = map (fun k => g (nth k l d)) (seq 0 (length l)).
Proof.
  intros A B g l d. transitivity (map g (map (fun k => nth k l d) (seq 0 (length l)))).
  - f_equal. apply list_as_map_seq.
  - apply map_map.
Qed.

Lemma nth_map_in : forall (A B : Type) (f : A -> B) l k d d', (k < length l)%nat -> nth k (map f l) d = f (nth k l d').
Proof.
  intros A B f l k d d' Hk. rewrite (nth_indep (map f l) d (f d')) by (rewrite map_length; exact Hk). apply map_nth.
Qed.

(* dot as a sum over positions *)
Lemma dot_sum : forall a b n, length a = n -> length b = n ->
  dot a b = zsum (map (fun k => nth k a 0 * nth k b 0) (seq 0 n)).
Proof.
  induction a as [|x a IH]; intros b n Ha Hb.
  - cbn in Ha. subst n. reflexivity.
  - destruct b as [|y b]; [cbn in *; lia|]. destruct n as [|n]; [cbn in Ha; lia|].
    cbn [dot seq map zsum fold_right nth]. f_equal.
    rewrite <- seq_shift, map_map. cbn [nth]. apply IH; cbn in *; lia.
Qed.

Lemma dot_map : forall (f g : nat -> Z) p, dot (map f p) (map g p) = zsum (map (fun j => f j * g j) p).
Proof. induction p as [|j p IH]; [reflexivity|]. cbn [map dot zsum fold_right]. f_equal. exact IH. Qed.

(* ------------------------------------------------------------------------------------------------ *)
(** * Permutations of 0..n-1 and relabelling of axes *)
Lemma is_perm_length : forall p n, is_perm p n -> length p = n.
Proof. intros p n H. rewrite (Permutation_length H). apply seq_length. Qed.

Lemma is_perm_range : forall p n j, is_perm p n -> In j p -> (j < n)%nat.
Proof. intros p n j H Hj. apply (Permutation_in _ H) in Hj. apply in_seq in Hj. lia. Qed.

Lemma is_perm_nth_range : forall p n k, is_perm p n -> (k < n)%nat -> (nth k p 0%nat < n)%nat.
Proof. intros p n k H Hk. apply (is_perm_range p n _ H). apply nth_In. rewrite (is_perm_length _ _ H). exact Hk. Qed.

Lemma is_perm_NoDup : forall p n, is_perm p n -> NoDup p.
Proof. intros p n H. apply (Permutation_NoDup (Permutation_sym H)). apply seq_NoDup. Qed.

Lemma is_perm_surj : forall p n i, is_perm p n -> (i < n)%nat -> exists k, (k < n)%nat /\ nth k p 0%nat = i.
Proof.
  intros p n i H Hi.
  assert (In i p) as Hin by (apply (Permutation_in _ (Permutation_sym H)); apply in_seq; lia).
  destruct (In_nth _ _ 0%nat Hin) as [k [Hk E]]. exists k. rewrite (is_perm_length _ _ H) in Hk. auto.
Qed.

Lemma is_perm_inj : forall p n a b, is_perm p n -> (a < n)%nat -> (b < n)%nat -> nth a p 0%nat = nth b p 0%nat -> a = b.
Proof.
  intros p n a b H Ha Hb E. pose proof (is_perm_NoDup _ _ H) as ND. rewrite NoDup_nth in ND.
  apply ND; rewrite ?(is_perm_length _ _ H); eauto.
Qed.

(* a list of n distinct indices below n is a permutation of 0..n-1 (pigeonhole) *)
Lemma is_perm_intro : forall p n, length p = n -> NoDup p -> (forall j, In j p -> (j < n)%nat) -> is_perm p n.
Proof.
  intros p n Hl ND Hr. unfold is_perm. apply NoDup_Permutation_bis; [exact ND| |].
  - rewrite seq_length. lia.
  - intros j Hj. apply in_seq. specialize (Hr j Hj). lia.
Qed.

Lemma is_perm_id : forall n, is_perm (seq 0 n) n.
Proof. intros n. apply Permutation_refl. Qed.

(* q is a (two-sided) inverse of the permutation p as soon as q[p[k]] = k for all k *)
Lemma inverse_right : forall p q n, is_perm p n -> (forall k, (k < n)%nat -> nth (nth k p 0%nat) q 0%nat = k) ->
  forall i, (i < n)%nat -> nth (nth i q 0%nat) p 0%nat = i.
Proof.
  intros p q n H Hq i Hi. destruct (is_perm_surj p n i H Hi) as [k [Hk E]]. subst i. rewrite Hq by exact Hk. reflexivity.
Qed.

Lemma inverse_is_perm : forall p q n, is_perm p n -> length q = n ->
  (forall k, (k < n)%nat -> nth (nth k p 0%nat) q 0%nat = k) -> is_perm q n.
Proof.
  intros p q n H Hl Hq. pose proof (inverse_right p q n H Hq) as Hr.
  assert (forall i, (i < n)%nat -> (nth i q 0%nat < n)%nat) as Hrange.
  { intros i Hi. destruct (is_perm_surj p n i H Hi) as [k [Hk E]]. subst i. rewrite Hq by exact Hk. exact Hk. }
  apply is_perm_intro; [exact Hl| |].
  - rewrite NoDup_nth with (d := 0%nat). intros a b Ha Hb E. rewrite Hl in Ha, Hb.
    rewrite <- (Hr a Ha), <- (Hr b Hb), E. reflexivity.
  - intros j Hj. destruct (In_nth _ _ 0%nat Hj) as [k [Hk E]]. subst j. apply Hrange. lia.
Qed.

Lemma length_pick : forall (A : Type) p (l : list A) d, length (pick p l d) = length p.
Proof. intros. apply map_length. Qed.

Lemma nth_pick : forall (A : Type) p (l : list A) d k, (k < length p)%nat -> nth k (pick p l d) d = nth (nth k p 0%nat) l d.
Proof. intros A p l d k Hk. unfold pick. exact (nth_map_in _ _ (fun j => nth j l d) p k d 0%nat Hk). Qed.

Lemma pick_id : forall (A : Type) (l : list A) d, pick (seq 0 (length l)) l d = l.
Proof. intros. unfold pick. symmetry. apply list_as_map_seq. Qed.

(* relabel by p then by q: the identity when p o q = id *)
Lemma pick_pick_inv : forall (A : Type) p q (l : list A) d n, length l = n -> length p = n -> length q = n ->
  (forall i, (i < n)%nat -> (nth i q 0%nat < n)%nat) ->
  (forall i, (i < n)%nat -> nth (nth i q 0%nat) p 0%nat = i) -> pick q (pick p l d) d = l.
Proof.
  intros A p q l d n Hl Hp Hq Hrange Hinv.
  apply (nth_ext _ _ d d); [rewrite length_pick; lia|]. intros i Hi. rewrite length_pick in Hi.
  rewrite nth_pick by lia. rewrite nth_pick by (rewrite Hp; apply Hrange; lia). rewrite Hinv by lia. reflexivity.
Qed.

Lemma pick_Permutation : forall (A : Type) p (l : list A) d, is_perm p (length l) -> Permutation (pick p l d) l.
Proof.
  intros A p l d H. unfold pick.
  apply Permutation_trans with (map (fun k => nth k l d) (seq 0 (length l))); [apply Permutation_map; exact H|].
  rewrite <- list_as_map_seq. apply Permutation_refl.
Qed.

Lemma prod_pick : forall p sh d, is_perm p (length sh) -> prod (pick p sh d) = prod sh.
Proof. intros. apply prod_Permutation. apply pick_Permutation. assumption. Qed.

Lemma pos_shape_pick : forall p sh d, is_perm p (length sh) -> pos_shape sh -> pos_shape (pick p sh d).
Proof.
  intros p sh d H Hpos. unfold pos_shape. eapply Permutation_Forall; [apply Permutation_sym, pick_Permutation; exact H|exact Hpos].
Qed.

Lemma Forall2_nth_iff : forall (A B : Type) (R : A -> B -> Prop) la lb da db,
  Forall2 R la lb <-> (length la = length lb /\ forall k, (k < length la)%nat -> R (nth k la da) (nth k lb db)).
Proof.
  intros A B R la lb da db. split.
  - induction 1 as [|a b la lb Hab _ IH]; [split; [reflexivity|cbn; lia]|].
    destruct IH as [Hl Hn]. split; [cbn; lia|]. intros [|k] Hk; cbn [nth]; [exact Hab|apply Hn; cbn in Hk; lia].
  - revert lb. induction la as [|a la IH]; intros [|b lb] [Hl Hn]; try (cbn in Hl; lia); constructor.
    + apply (Hn 0%nat). cbn. lia.
    + apply IH. split; [cbn in Hl; lia|]. intros k Hk. apply (Hn (S k)). cbn. lia.
Qed.

Lemma in_shape_pick : forall p sh m, is_perm p (length sh) -> in_shape sh m -> in_shape (pick p sh 1) (pick p m 0).
Proof.
  intros p sh m H Hm. pose proof (in_shape_length _ _ Hm) as Hl.
  unfold in_shape in *. rewrite (Forall2_nth_iff _ _ _ _ _ 1 0) in Hm. destruct Hm as [_ Hn].
  rewrite (Forall2_nth_iff _ _ _ _ _ 1 0). rewrite !length_pick. split; [reflexivity|].
  intros k Hk. rewrite !nth_pick by exact Hk. apply Hn.
  rewrite (is_perm_length _ _ H) in Hk. apply (is_perm_nth_range _ _ _ H Hk).
Qed.

(* dot of two lists relabelled by the same permutation *)
Lemma dot_pick : forall p a b n, is_perm p n -> length a = n -> length b = n ->
  dot (pick p a 0) (pick p b 0) = dot a b.
Proof.
  intros p a b n H Ha Hb. unfold pick. rewrite dot_map, (dot_sum a b n Ha Hb).
  apply zsum_Permutation. apply Permutation_map. exact H.
Qed.

(* the position of the relabelled multi-index in the relabelled shape, as a sum over the ORIGINAL axes:
   with q the inverse of p (q[p[k]] = k),  flat sh' m' = sum_i m_i * stride'_{q_i}.
   This is the sum computed by photospline's permuteDimensions (npos += m_i * t_strides[iperm[i]]). *)
Theorem flat_pick_sum : forall p q sh m n, is_perm p n -> length sh = n -> length m = n ->
  (forall k, (k < n)%nat -> nth (nth k p 0%nat) q 0%nat = k) ->
  zsum (map (fun i => nth i m 0 * nth (nth i q 0%nat) (strides (pick p sh 1)) 0) (seq 0 n))
  = flat (pick p sh 1) (pick p m 0).
Proof.
  intros p q sh m n H Hsh Hm Hq.
  pose proof (is_perm_length _ _ H) as Hp.
  unfold flat. rewrite (dot_sum _ _ n) by (rewrite ?length_strides, ?length_pick; assumption).
  rewrite (zsum_Permutation _ _ (Permutation_map _ (Permutation_sym H))).
  rewrite (map_as_map_seq _ _ _ p 0%nat), Hp.
  f_equal. apply map_ext_in. intros k Hk. apply in_seq in Hk.
  rewrite Hq by lia. rewrite nth_pick by lia. reflexivity.
Qed.
