(* Properties_C14.v — C14: convolution produces the true convolution with the unit-area kernel spline.
   Statements only (proof scripts: C14_Proofs.v; model: ConvModel.v, a transcription of convolve.h / convolve.cpp).

   What is a theorem here, and what is not:
     * C14_structure            : order, knots, counts, untouched dimensions, strides, coefficient count and
                                  well-formedness of the result — any number of dimensions, any lengths, ANY arithmetic;
                                  std::sort enters as a Section hypothesis (returns a sorted permutation).
     * C14_structure_executed   : the same for the insertion sort the executed model uses, over any arithmetic with a total [leb].
     * C14_coeffs_mode_product  : the new coefficient array is, cell by cell, the product of the old array with the transfer
                                  matrix along the convolved dimension (index arithmetic of the four nested loops); with exact
                                  arithmetic the accumulation is the plain dot product.
     * C14_loop_nest_is_cellwise: the same update written as the code runs it (slabs, rows, one row update per (j, l); the form
                                  the executed model uses, linear in the array sizes) returns the same table as the positional form
                                  the other theorems are about — any well-formed table, any arithmetic.
     * C14_trafo_is_conv_lowdeg_order0 / _order1 : for spline order 0 resp. 1 and a 2-knot (box) kernel the transfer-matrix
                                  entry equals the B-spline coefficient of the exact convolution integral (closed forms) —
                                  anchors the sign (k odd and k even) and the normalisation q!(k-1)!/(k+q-1)!.
     * C14_refuted_*            : regression statements about the code as shipped (D4: factorial(0) = 0; the (-1)^k factor).
   NOT a theorem: the general identity (Strom 1994) for all orders and kernels. It is tested on every run by comparing this
   same Gallina term at Qc, expanded in the new basis, with an exact piecewise-polynomial integral (tools/props/C14.py).
   Rounding (double divided differences, float stores) is measured, not proved. *)
From Coq Require Import ZArith QArith Qcanon List Bool Permutation.
From PS Require Import Arith EvalModel ConvModel C14_Proofs C14_Rows.
Import ListNotations.

Section SortOracle.
Context {A : Arith}.
Variable sort : list (T A) -> list (T A).                       (* std::sort(rho, rho+n_rho) *)
Hypothesis sort_sorted : forall l, sortedb (sort l) = true.
Hypothesis sort_perm : forall l, Permutation l (sort l).
Variable fact : nat -> Z.                                         (* the result does not depend on what factorial returns *)
Variable flip : bool.

Theorem C14_structure (t : @ctable A) (dim : nat) (kk : list (T A)) :
  wf_table t = true -> (dim < length (c_dims t))%nat -> (2 <= length kk)%nat ->
  let t' := convolve_with fact flip sort t dim kk in
  let d  := nth dim (c_dims t) dummy_dim in
  let d' := nth dim (c_dims t') dummy_dim in
  length (c_dims t') = length (c_dims t)
  /\ c_order d' = (c_order d + length kk - 1)%nat
  /\ sortedb (c_knots d') = true
  /\ Permutation (pairwise_sums (c_knots d) kk) (c_knots d')
  /\ c_nknots d' = (c_nknots d * length kk)%nat
  /\ c_naxes d' = (c_nknots d' - c_order d' - 1)%nat
  /\ (forall e, e <> dim -> (e < length (c_dims t))%nat ->
        let de := nth e (c_dims t) dummy_dim in let de' := nth e (c_dims t') dummy_dim in
        c_order de' = c_order de /\ c_knots de' = c_knots de /\ c_naxes de' = c_naxes de /\ c_ext de' = c_ext de)
  /\ map c_stride (c_dims t') = fst (strides_of (map c_naxes (c_dims t')))
  /\ length (c_coef t') = prodn (map c_naxes (c_dims t'))
  /\ wf_table t' = true.
Proof. exact (structure sort sort_sorted sort_perm fact flip t dim kk). Qed.
End SortOracle.

Theorem C14_structure_executed {A : Arith} (leb_total : forall a b : T A, leb a b = true \/ leb b a = true)
        (t : @ctable A) (dim : nat) (kk : list (T A)) :
  wf_table t = true -> (dim < length (c_dims t))%nat -> (2 <= length kk)%nat ->
  let t' := convolve isort t dim kk in
  let d  := nth dim (c_dims t) dummy_dim in
  let d' := nth dim (c_dims t') dummy_dim in
  c_order d' = (c_order d + length kk - 1)%nat
  /\ sortedb (c_knots d') = true /\ Permutation (pairwise_sums (c_knots d) kk) (c_knots d')
  /\ c_nknots d' = (c_nknots d * length kk)%nat
  /\ wf_table t' = true.
Proof. exact (structure_executed leb_total t dim kk). Qed.

Theorem C14_coeffs_mode_product {A : Arith} (fact : nat -> Z) (flip : bool) (sort : list (T A) -> list (T A))
        (t : @ctable A) (dim : nat) (kk : list (T A)) (i j k : nat) :
  let d := nth dim (c_dims t) dummy_dim in
  let n := length kk in
  let rho := sort (pairwise_sums (c_knots d) kk) in
  let naxes_new := (c_nknots d * n - (c_order d + n - 1) - 1)%nat in
  let naxes := replace_nth dim (map c_naxes (c_dims t)) naxes_new in
  let s1 := prodn (firstn dim naxes) in
  let s2 := prodn (skipn (S dim) naxes) in
  let nrm := norm_with fact flip (c_order d + 1) (n - 1) in
  let row := map (fun l => trafo_entry nrm (c_knots d) kk rho (c_order d + 1) (n - 1) j l) (seq 0 (c_naxes d)) in
  (i < s1)%nat -> (j < naxes_new)%nat -> (k < s2)%nat ->
  length (c_coef (convolve_with fact flip sort t dim kk)) = (s1 * (naxes_new * s2))%nat
  /\ nth (i * s2 * naxes_new + j * s2 + k) (c_coef (convolve_with fact flip sort t dim kk)) zero
     = cell row (c_coef t) s2 (c_naxes d) i k
  /\ ((forall x : T A, rnd x = x) ->
      nth (i * s2 * naxes_new + j * s2 + k) (c_coef (convolve_with fact flip sort t dim kk)) zero
      = dot_along row (c_coef t) s2 (c_naxes d) i k).
Proof. exact (coeffs_mode_product fact flip sort t dim kk i j k). Qed.

(* the four nested loops as written — for i < stride1: for j < naxes_new: for l < naxes_old: for k < stride2: target[i][j][k] += trafo[j][l]*old[i][l][k] —
   (ConvModel.convolve_rows_with: the old array cut into slabs and rows, the k loop one row update) give the table of the positional form *)
Theorem C14_loop_nest_is_cellwise {A : Arith} (fact : nat -> Z) (flip : bool) (sort : list (T A) -> list (T A))
        (t : @ctable A) (dim : nat) (kk : list (T A)) :
  wf_table t = true -> (dim < length (c_dims t))%nat ->
  convolve_rows_with fact flip sort t dim kk = convolve_with fact flip sort t dim kk.
Proof. exact (convolve_rows_eq fact flip sort t dim kk). Qed.

(* strides[i] is the product of the later extents (so s2 above is the new stride of the convolved dimension) *)
Theorem C14_strides_row_major (l : list nat) (i : nat) :
  (i < length l)%nat -> nth i (fst (strides_of l)) 0%nat = prodn (skipn (S i) l).
Proof. exact (strides_of_nth l i). Qed.

(* order 0, box kernel [a,b]: the entry for old basis function on [t0,t1) and new basis function with knots (z, w, .)
   is the exact convolution (length of [w-b, w-a] ∩ [t0,t1] over b-a) at w — the degree-1 B-spline coefficient *)
Theorem C14_trafo_is_conv_lowdeg_order0 (knots kk rho : list Q) (i j : nat) (t0 t1 a b z w : Q) :
  firstn 2 (skipn j knots) = [t0; t1] -> kk = [a; b] -> nth i rho 0%Q = z -> firstn 1 (skipn (i + 1) rho) = [w] ->
  (t0 < t1)%Q -> (a < b)%Q -> (z <= w)%Q ->
  (forall s, In s [t0 + a; t0 + b; t1 + a; t1 + b]%Q -> (s <= z)%Q \/ (w <= s)%Q) ->       (* z, w neighbours among the pairwise sums *)
  (@trafo_entry QA (norm_with factorial false 1 1) knots kk rho 1 1 i j == conv_box0 t0 t1 a b w)%Q.
Proof. exact (trafo_entry_order0_box knots kk rho i j t0 t1 a b z w). Qed.

(* order 1 (hat function on t0,t1,t2), box kernel: the entry is the degree-2 B-spline coefficient (polar form at the
   neighbouring new knots u, v:  2 f((u+v)/2) - (f(u)+f(v))/2) of the exact convolution f = conv_box1 *)
Theorem C14_trafo_is_conv_lowdeg_order1 (knots kk rho : list Q) (i j : nat) (t0 t1 t2 a b z u v : Q) :
  firstn 3 (skipn j knots) = [t0; t1; t2] -> kk = [a; b] -> nth i rho 0%Q = z -> firstn 2 (skipn (i + 1) rho) = [u; v] ->
  (t0 < t1)%Q -> (t1 < t2)%Q -> (a < b)%Q -> (z <= u)%Q -> (u <= v)%Q -> consecutive1 t0 t1 t2 a b z u v ->
  (@trafo_entry QA (norm_with factorial false 2 1) knots kk rho 2 1 i j == coef_box1 t0 t1 t2 a b u v)%Q.
Proof. exact (trafo_entry_order1_box knots kk rho i j t0 t1 t2 a b z u v). Qed.

(* regression: the code as shipped *)
Theorem C14_refuted_order0_shipped :
  c_coef (convolve_shipped (@isort QcA) ex0_table 0 box_kernel) = repeat (qz 0) 8.
Proof. exact refuted_order0_shipped. Qed.
Theorem C14_refuted_even_order_signflip :
  c_coef (convolve_signflip (@isort QcA) ex0_table 0 box_kernel) = repeat (qz (-1)) 8
  /\ nth 4 (c_coef (convolve_signflip (@isort QcA) ex2_table 0 box_kernel)) (qz 0) = qz (-1).
Proof. exact refuted_even_order_signflip. Qed.

(* ---------------------------------------------------------------------------------------------- *)
(* the hypotheses are satisfiable on non-trivial instances *)
Example C14_examples_wf : wf_table ex0_table = true /\ wf_table ex2_table = true /\ wf_table ex2d_table = true
  /\ wf_table (convolve (@isort QcA) ex2d_table 1 tri_kernel) = true.
Proof. exact examples_wf. Qed.
Example C14_fixed_examples :
  c_coef (convolve (@isort QcA) ex0_table 0 box_kernel) = repeat (qz 1) 8
  /\ nth 4 (c_coef (convolve (@isort QcA) ex2_table 0 box_kernel)) (qz 0) = qz 1
  /\ nth 5 (c_coef (convolve (@isort QcA) ex2_table 0 tri_kernel)) (qz 0) = qz 1.
Proof. exact fixed_examples. Qed.
Example C14_structure_hypotheses_hold :
  wf_table ex2d_table = true /\ (1 < length (c_dims ex2d_table))%nat /\ (2 <= length tri_kernel)%nat
  /\ (let t' := convolve (@isort QcA) ex2d_table 1 tri_kernel in
      c_order (nth 1 (c_dims t') dummy_dim) = 3%nat /\ c_nknots (nth 1 (c_dims t') dummy_dim) = 15%nat /\ wf_table t' = true).
Proof. repeat split; vm_compute; auto. Qed.
Example C14_loop_nest_instance :
  wf_table ex2d_table = true /\ (0 < length (c_dims ex2d_table))%nat
  /\ convolve_rows (@isort QcA) ex2d_table 0 tri_kernel = convolve (@isort QcA) ex2d_table 0 tri_kernel
  /\ length (c_coef (convolve_rows (@isort QcA) ex2d_table 0 tri_kernel)) = 24%nat.
Proof. repeat split; vm_compute; auto. Qed.
Example C14_lowdeg0_instance :
  (@trafo_entry QA (norm_with factorial false 1 1) [0; 1; 3]%Q [-1 # 2; 1 # 2]%Q [-1 # 2; 1 # 2; 1 # 2; 3 # 2; 5 # 2; 7 # 2]%Q 1 1 2 0
   == conv_box0 0 1 (-1 # 2) (1 # 2) (3 # 2))%Q
  /\ (conv_box0 0 1 (-1 # 2) (1 # 2) (3 # 2) == 0)%Q /\ (conv_box0 0 1 (-1 # 2) (1 # 2) (1 # 2) == 1)%Q.
Proof. repeat split; vm_compute; reflexivity. Qed.

Print Assumptions C14_structure.
Print Assumptions C14_structure_executed.
Print Assumptions C14_coeffs_mode_product.
Print Assumptions C14_loop_nest_is_cellwise.
Print Assumptions C14_strides_row_major.
Print Assumptions C14_trafo_is_conv_lowdeg_order0.
Print Assumptions C14_trafo_is_conv_lowdeg_order1.
Print Assumptions C14_refuted_order0_shipped.
Print Assumptions C14_refuted_even_order_signflip.
