(* Properties_C14.v — statements only (proofs in C14_Proofs.v). *)
From Coq Require Import ZArith QArith Qcanon List Bool.
From PS Require Import Arith EvalModel ConvModel C14_Proofs.
Import ListNotations.

Theorem C14_refuted_order0_shipped :
  c_coef (convolve_shipped (@isort QcA) ex0_table 0 ex0_kernel) = repeat (qz 0) 8.
Proof. exact refuted_order0_shipped. Qed.
Print Assumptions C14_refuted_order0_shipped.
