(* C10_IEEE.v — the cumulative-sum monotonicity for IEEE binary32 addition (Flocq 4, IEEE754.BinarySingleNaN:
   Bplus with round-to-nearest-even on binary_float 24 128), under the explicit hypothesis that every entry of the result is
   finite (no NaN, no overflow), and the facts about Flocq's rounding operator that make it an instance of the abstract
   rounding theorem (C10_Proofs.cumsum_monotone_rnd) over the real numbers.
   This file (only) depends on the standard library's axioms for the real numbers. *)
From Coq Require Import List ZArith Reals Lra.
From Flocq Require Import Core BinarySingleNaN.
From PS Require Import Arith MonoModel C10_Cumsum C10_Proofs C02_Real.
Import ListNotations.
Local Open Scope R_scope.

Definition prec32 := 24%Z.
Definition emax32 := 128%Z.
Lemma Hprec32 : FLX.Prec_gt_0 prec32. Proof. reflexivity. Qed.
Lemma Hmax32 : Prec_lt_emax prec32 emax32. Proof. reflexivity. Qed.
Definition b32 := binary_float prec32 emax32.
(* C: `float += float` *)
Definition b32_add (x y : b32) : b32 := @Bplus prec32 emax32 Hprec32 Hmax32 mode_NE x y.
Definition b32_zero : b32 := B754_zero false.
Definition b32_le (x y : b32) : Prop := B2R x <= B2R y.
Definition b32_fin (x : b32) : Prop := is_finite x = true.
Definition b32_nonneg (x : b32) : Prop := 0 <= B2R x.

(* adding a non-negative finite number never decreases the accumulator, unless the sum overflows *)
Lemma b32_add_ge u y : b32_fin u -> b32_nonneg u -> b32_fin y -> b32_fin (b32_add u y) -> b32_le y (b32_add u y).
Proof.
  intros Fu Nu Fy Fr. pose proof (@Bplus_correct prec32 emax32 Hprec32 Hmax32 mode_NE u y Fu Fy) as H.
  fold (b32_add u y) in H.
  destruct (Rlt_bool _ _) eqn:E.
  - destruct H as [H1 _]. unfold b32_le. rewrite H1.
    rewrite <- (round_generic radix2 (SpecFloat.fexp prec32 emax32) (round_mode mode_NE) (B2R y)) at 1.
    + apply round_le; [apply fexp_correct; exact Hprec32 | apply valid_rnd_round_mode | unfold b32_nonneg in Nu; lra].
    + apply generic_format_B2R.
  - destruct H as [H2 _]. exfalso. unfold b32_fin in Fr.
    rewrite <- is_finite_SF_B2SF in Fr. rewrite H2 in Fr. unfold binary_overflow in Fr. simpl in Fr. discriminate Fr.
Qed.

Theorem cumsum_monotone_ieee (naxes : list nat) (md : nat) (a : list b32) :
  wf_call naxes md a ->
  Forall (fun u => b32_fin u /\ b32_nonneg u) a ->                           (* the stored increments: finite and >= 0 *)
  Forall b32_fin (backtransform b32_add b32_zero naxes md a) ->               (* no NaN, no overflow in the sums *)
  nondecreasing_along b32_zero b32_le (prodn (firstn md naxes)) (nth md naxes 0%nat) (prodn (skipn (S md) naxes))
                      (backtransform b32_add b32_zero naxes md a).
Proof.
  intros Hwf Hin Hout.
  exact (backtransform_monotone b32 b32_add b32_zero b32_le b32_fin b32_nonneg b32_add_ge naxes md a Hwf Hin Hout).
Qed.

(* Flocq's rounding to binary32, round-to-nearest-even: monotone (round_le), idempotent (round_generic on
   generic_format_round), 0 |-> 0 (round_0) — the three laws of the abstract rounding theorem *)
Definition rd32 (x : R) : R := round radix2 (SpecFloat.fexp prec32 emax32) (round_mode mode_NE) x.
Theorem flocq_round_laws :
  (forall x y, x <= y -> rd32 x <= rd32 y) /\ (forall x, rd32 (rd32 x) = rd32 x) /\ rd32 0 = 0.
Proof.
  assert (V : Valid_exp (SpecFloat.fexp prec32 emax32)) by (apply fexp_correct; exact Hprec32).
  assert (W : Valid_rnd (round_mode mode_NE)) by apply valid_rnd_round_mode.
  split; [|split].
  - intros x y H. apply round_le; assumption.
  - intro x. apply round_generic; [exact W|]. apply generic_format_round; assumption.
  - apply round_0. exact W.
Qed.

(* hence, over the real numbers with every addition rounded to binary32 (unbounded exponent range above: no overflow in R) *)
Theorem cumsum_monotone_rd32 (naxes : list nat) (md : nat) (x : list R) :
  wf_call naxes md x -> Forall (fun u => 0 <= u) x ->
  nondecreasing_along 0 Rle (prodn (firstn md naxes)) (nth md naxes 0%nat) (prodn (skipn (S md) naxes))
                      (backtransform (fun u y => rd32 (u + y)) 0 naxes md (map rd32 x)).
Proof.
  intros Hwf Hx. destruct flocq_round_laws as [L1 [L2 L3]].
  assert (LE : forall a b : R, @OFieldKit.le RA a b <-> a <= b).
  { intros a b. unfold OFieldKit.le. exact (R_leb_le a b). }
  pose proof (@cumsum_monotone_rnd RA RA_OField rd32) as Thm.
  assert (H1 : forall a b : Arith.T RA, @OFieldKit.le RA a b -> @OFieldKit.le RA (rd32 a) (rd32 b)) by (intros a b H; apply LE; apply L1; apply LE; exact H).
  specialize (Thm H1 L2 L3 naxes md x Hwf).
  assert (H2 : Forall (fun u : Arith.T RA => @OFieldKit.le RA zero u) x).
  { apply Forall_forall. intros u Hu. apply LE. exact (proj1 (Forall_forall _ _) Hx u Hu). }
  specialize (Thm H2). intros i j k Hi Hj Hk. apply LE. exact (Thm i j k Hi Hj Hk).
Qed.
